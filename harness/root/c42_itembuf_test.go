package PKGNAME

// C42 — Buffer pools never hand out undersized or dirty buffers (item buffer part: getItemBuf/putItemBuf, writer.go).
//
// Contract read from the callers (writer.waitSendMessage / writer.flush): `buf := itemBuf.B` is handed to
// queue.RemoveManyInto(buf, bufSize) which fills at most len(buf) slots, so the usable capacity of an item buffer is
// its length: getItemBuf(n) must give len(B) >= n (the code gives exactly n); callers read only what was filled.
// "Empty" for an item buffer = every element of B is the zero Item. putItemBuf zeroes the slots below len(B) at put
// time; the callers never change itemBuf.B, so in real use everything written is below len. The harness also hides
// non-zero items beyond len before a put (reslice shorter after filling, three-index slices, replacement slices with
// a dirty tail): stale items that then show up are what was put in, are counted (label) and are not a violation
// unless vfC42IStrictHidden is set.
//
// Oracle on every getItemBuf(n), n >= 1: len(B) >= n, cap(B) >= n, all of B[:len] zero (conditional as above); no
// buffer object is handed out while another holder still has it. For n <= 0 (default size) only the zero check.

import (
	"fmt"
	"math/bits"
	"runtime"
	"runtime/debug"
	"strings"
	"sync"
	"testing"
	"weak"

	"github.com/centrifugal/centrifuge/internal/queue"
	"pgregory.net/rapid"
)

const vfC42IStrictHidden = false

const vfC42IMax = 4096

var vfC42IMarker = queue.Item{Data: []byte{0xAB}, Channel: "vf", Key: "k"}

func vfC42IZero(it queue.Item) bool {
	return it.Data == nil && it.Channel == "" && it.Key == "" && it.FrameType == 0
}

type vfC42IMeta struct {
	held      bool
	puts      int
	putCap    int
	putHidden bool
	prevReq   int
}

type vfC42ITrackerT struct {
	mu sync.Mutex
	m  map[weak.Pointer[itemBuf]]*vfC42IMeta
}

var vfC42ITracker vfC42ITrackerT

func (tr *vfC42ITrackerT) get(p *itemBuf) *vfC42IMeta {
	if tr.m == nil {
		tr.m = map[weak.Pointer[itemBuf]]*vfC42IMeta{}
	}
	k := weak.Make(p)
	m := tr.m[k]
	if m == nil {
		if len(tr.m) >= 8192 {
			for kk := range tr.m {
				if kk.Value() == nil {
					delete(tr.m, kk)
				}
			}
		}
		m = &vfC42IMeta{}
		tr.m[k] = m
	}
	return m
}

func (tr *vfC42ITrackerT) onGet(p *itemBuf, req int) (reused bool, before vfC42IMeta, double bool) {
	tr.mu.Lock()
	defer tr.mu.Unlock()
	m := tr.get(p)
	before = *m
	reused = m.puts > 0
	double = m.held
	m.held = true
	m.prevReq = req
	return
}

func (tr *vfC42ITrackerT) onPut(p *itemBuf, capacity int, hidden bool) {
	tr.mu.Lock()
	defer tr.mu.Unlock()
	m := tr.get(p)
	m.held = false
	m.puts++
	m.putCap = capacity
	m.putHidden = hidden
}

func vfC42IClass(n int) int {
	if n <= 0 {
		n = defaultMaxMessagesInFrame
	}
	if n <= 1 {
		return 0
	}
	return bits.Len(uint(n - 1))
}

type vfC42IOp struct {
	Kind    int // 0 get, 1 mutate, 2 put, 3 gc / yield, 4 put followed by a relative get, 5 capacity-changing mutation + put + relative get
	LenMode int
	Len     int
	Rel     int
	Slot    int
	Mut     int
	A, B    int
}

var vfC42IMutNames = []string{"fill(RemoveManyInto)", "reslice", "fillcap", "replace", "cutfront", "slice3", "shrink0", "nil", "append"}

func (op vfC42IOp) String() string {
	switch op.Kind {
	case 0:
		if op.LenMode == 1 {
			return fmt.Sprintf("get rel%d", op.Rel)
		}
		return fmt.Sprintf("get %d", op.Len)
	case 1:
		return fmt.Sprintf("mut #%d %s(%d,%d)", op.Slot, vfC42IMutNames[op.Mut], op.A, op.B)
	case 2:
		return fmt.Sprintf("put #%d", op.Slot)
	case 4:
		return fmt.Sprintf("put #%d+get rel%d", op.Slot, op.Rel)
	case 5:
		return fmt.Sprintf("mut #%d %s(%d,%d)+put+get rel%d", op.Slot, vfC42IMutNames[op.Mut], op.A, op.B, op.Rel)
	default:
		return "gc"
	}
}

func vfC42IDrawOp(rt *rapid.T) vfC42IOp {
	var op vfC42IOp
	// rapid's integer generators are biased towards small values and the upper bound, so the kind is taken from a
	// table indexed by r mod 16 (every residue is reachable from small r) instead of from contiguous ranges.
	r := rapid.IntRange(0, 255).Draw(rt, "kind")
	op.Kind = [16]int{4, 1, 0, 5, 2, 1, 5, 4, 0, 1, 2, 5, 0, 1, 2, 1}[r%16]
	if r == 137 {
		op.Kind = 3 // runtime.GC (sequential) / Gosched (concurrent): rare, a GC cycle costs as much as many cases
	}
	op.Slot = rapid.IntRange(0, 7).Draw(rt, "slot")
	if op.Kind == 5 {
		op.Mut = rapid.SampledFrom([]int{8, 3, 5, 4, 8, 3}).Draw(rt, "capmut")
		op.A = rapid.IntRange(0, 1<<20).Draw(rt, "a")
		op.B = rapid.IntRange(0, 1<<20).Draw(rt, "b")
	}
	switch op.Kind {
	case 0, 4, 5:
		if op.Kind >= 4 || rapid.IntRange(0, 1).Draw(rt, "rel") == 0 {
			op.LenMode = 1
			// 0,1,3,4 can be served by the buffer just put (3,4 only if its capacity is a power of two); the rest must not be
			op.Rel = rapid.SampledFrom([]int{0, 0, 1, 1, 1, 2, 3, 4, 4, 5, 6, 7, 8}).Draw(rt, "relsel")
			break
		}
		// rapid's integer generators favour small values: cheap common kinds first, large allocations last
		r := rapid.IntRange(0, 64).Draw(rt, "lenkind") % 64
		switch {
		case r < 24:
			op.Len = max((1<<rapid.IntRange(0, 7).Draw(rt, "ksmall"))+rapid.IntRange(-1, 1).Draw(rt, "pm"), 1)
		case r < 44:
			op.Len = rapid.IntRange(1, 70).Draw(rt, "small")
		case r < 52:
			op.Len = rapid.SampledFrom([]int{0, 0, -1, -5}).Draw(rt, "len0")
		case r < 59:
			op.Len = max((1<<rapid.IntRange(0, 12).Draw(rt, "k"))+rapid.IntRange(-1, 1).Draw(rt, "pm"), 1)
		default:
			op.Len = rapid.SampledFrom([]int{vfC42IMax - 1, vfC42IMax, vfC42IMax + 1, 5000, 2 * vfC42IMax}).Draw(rt, "lenmax")
		}
	case 1:
		op.Mut = rapid.SampledFrom([]int{0, 0, 0, 0, 1, 1, 2, 2, 3, 3, 4, 5, 5, 6, 6, 7, 8, 8}).Draw(rt, "mut")
		op.A = rapid.IntRange(0, 1<<20).Draw(rt, "a")
		op.B = rapid.IntRange(0, 1<<20).Draw(rt, "b")
	}
	return op
}

func vfC42IRender(ops []vfC42IOp) string {
	parts := make([]string, len(ops))
	for i, op := range ops {
		parts[i] = op.String()
	}
	return strings.Join(parts, "; ")
}

type vfC42IStats struct {
	gets, reused, crossClass, nonPow2Reuse, exactLen, hiddenPuts, staleAfterHidden, grows, oversizedPuts, zeroCapPuts, gcs int
	trace                                                                                                                      []vfC42INote
}

type vfC42INote struct {
	format string
	a      [4]int
	n      int
	flag   bool
}

func (st *vfC42IStats) traceString() string {
	parts := make([]string, len(st.trace))
	for i, n := range st.trace {
		args := make([]any, 0, 5)
		for j := 0; j < n.n; j++ {
			args = append(args, n.a[j])
		}
		parts[i] = fmt.Sprintf(n.format, args...) + fmt.Sprintf(" %v", n.flag)
	}
	return strings.Join(parts, "; ")
}

type vfC42IActor struct {
	held       []*itemBuf
	lastPutCap int
	st         vfC42IStats
	concurrent bool
}

// note records a trace entry without formatting it (rendered only when a violation is reported).
func (a *vfC42IActor) note(flag bool, format string, args ...int) {
	if len(a.st.trace) < 100 {
		n := vfC42INote{format: format, n: len(args), flag: flag}
		copy(n.a[:], args)
		a.st.trace = append(a.st.trace, n)
	}
}

func (a *vfC42IActor) resolveLen(op vfC42IOp) int {
	if op.LenMode == 0 {
		return op.Len
	}
	c := a.lastPutCap
	if c == 0 {
		c = 16
	}
	f := 1 << (bits.Len(uint(c)) - 1)
	n := 0
	switch op.Rel {
	case 0:
		n = f - 1
	case 1:
		n = f
	case 2:
		n = f + 1
	case 3:
		n = c - 1
	case 4:
		n = c
	case 5:
		n = c + 1
	case 6:
		n = 2 * f
	case 7:
		n = 2*f + 1
	default:
		n = f / 2
	}
	if n < 1 {
		n = 1
	}
	if n > 2*vfC42IMax {
		n = 2 * vfC42IMax
	}
	return n
}

var vfC42ICaps = []int{0, 1, 2, 3, 5, 6, 7, 8, 12, 17, 33, 100, 255}
var vfC42ICapsBig = []int{1000, 1025, vfC42IMax - 1, vfC42IMax, vfC42IMax + 1, 5000}

func (a *vfC42IActor) step(i int, op vfC42IOp) string {
	switch op.Kind {
	case 3:
		if a.concurrent {
			runtime.Gosched()
		} else {
			runtime.GC()
			a.st.gcs++
		}
		return ""
	case 0:
		return a.get(i, a.resolveLen(op))
	case 1:
		a.mutate(op)
		return ""
	default:
		if op.Kind == 5 {
			a.mutate(op)
		}
		if !a.put(op.Slot) || op.Kind < 4 {
			return ""
		}
		return a.get(i, a.resolveLen(op))
	}
}

func (a *vfC42IActor) get(i, n int) string {
	ib := getItemBuf(n)
	if ib == nil {
		return fmt.Sprintf("step %d: getItemBuf(%d) returned nil", i, n)
	}
	reused, before, double := vfC42ITracker.onGet(ib, n)
	a.held = append(a.held, ib)
	a.st.gets++
	if reused {
		a.st.reused++
		if vfC42IClass(before.prevReq) != vfC42IClass(n) {
			a.st.crossClass++
		}
		if c := cap(ib.B); c&(c-1) != 0 {
			a.st.nonPow2Reuse++
		}
	}
	a.note(reused, "get %d -> len %d cap %d reused", n, len(ib.B), cap(ib.B))
	origin := "fresh"
	if reused {
		origin = fmt.Sprintf("previously put with cap %d after being obtained for %d", before.putCap, before.prevReq)
	}
	if double {
		return fmt.Sprintf("step %d: getItemBuf(%d) handed out a buffer that another holder has not returned", i, n)
	}
	if n >= 1 {
		if len(ib.B) < n {
			return fmt.Sprintf("step %d: getItemBuf(%d) returned len %d (cap %d; %s): callers can drain at most len items", i, n, len(ib.B), cap(ib.B), origin)
		}
		if cap(ib.B) < n {
			return fmt.Sprintf("step %d: getItemBuf(%d) returned capacity %d (%s)", i, n, cap(ib.B), origin)
		}
		if len(ib.B) == n {
			a.st.exactLen++
		}
	}
	for j := range ib.B {
		if !vfC42IZero(ib.B[j]) {
			if reused && before.putHidden {
				a.st.staleAfterHidden++
				if vfC42IStrictHidden {
					return fmt.Sprintf("step %d: getItemBuf(%d): element %d of %d is not zero (%s, with non-zero items beyond its len)", i, n, j, len(ib.B), origin)
				}
				break
			}
			return fmt.Sprintf("step %d: getItemBuf(%d) returned a dirty buffer: element %d of %d is not the zero Item although everything beyond len was zero when it was put (%s)", i, n, j, len(ib.B), origin)
		}
	}
	return ""
}

func (a *vfC42IActor) mutate(op vfC42IOp) {
	if len(a.held) == 0 {
		return
	}
	ib := a.held[op.Slot%len(a.held)]
	l, c := len(ib.B), cap(ib.B)
	switch op.Mut {
	case 0: // what the writer does: fill the first k slots, leave B untouched
		k := op.A % (l + 1)
		if op.B&1 != 0 {
			k = l
		}
		for j := 0; j < k; j++ {
			ib.B[j] = vfC42IMarker
		}
	case 1:
		ib.B = ib.B[:op.A%(c+1)]
	case 2:
		ib.B = ib.B[:c]
		for j := range ib.B {
			ib.B[j] = vfC42IMarker
		}
	case 3:
		nc := vfC42ICaps[(op.A/12)%len(vfC42ICaps)]
		if op.A%12 == 11 { // large allocations: 1/12 of the draws
			nc = vfC42ICapsBig[(op.A/12)%len(vfC42ICapsBig)]
		}
		nb := make([]queue.Item, nc)
		fillTo := op.B % (nc + 1)
		if op.B&1 != 0 {
			fillTo = nc
		}
		for j := 0; j < fillTo; j++ {
			nb[j] = vfC42IMarker
		}
		ib.B = nb[:op.B%(nc+1)]
	case 4:
		ib.B = ib.B[op.A%(l+1):]
	case 5:
		nc := op.A % (c + 1)
		ib.B = ib.B[:op.B%(nc+1) : nc]
	case 6:
		ib.B = ib.B[:0]
	case 7:
		ib.B = nil
	default:
		n := []int{1, c - l, c - l + 1, 2*c + 3, 20}[op.A%5]
		if n > 10000 {
			n = 10000
		}
		for j := 0; j < n; j++ {
			ib.B = append(ib.B, vfC42IMarker)
		}
		if cap(ib.B) != c {
			a.st.grows++
		}
	}
	a.note(false, "mut #%d "+vfC42IMutNames[op.Mut]+" -> len %d cap %d grew", op.Slot%len(a.held), len(ib.B), cap(ib.B))
}

func (a *vfC42IActor) put(slot int) bool {
	if len(a.held) == 0 {
		return false
	}
	k := slot % len(a.held)
	ib := a.held[k]
	a.held = append(a.held[:k], a.held[k+1:]...)
	c := cap(ib.B)
	if c == 0 {
		a.st.zeroCapPuts++
	}
	if c > vfC42IMax {
		a.st.oversizedPuts++
	}
	hidden := false
	tail := ib.B[len(ib.B):c]
	for j := range tail {
		if !vfC42IZero(tail[j]) {
			hidden = true
			break
		}
	}
	if hidden {
		a.st.hiddenPuts++
	}
	a.lastPutCap = c
	a.note(hidden, "put #%d len %d cap %d hiddenDirty", k, len(ib.B), c)
	vfC42ITracker.onPut(ib, c, hidden)
	putItemBuf(ib)
	return true
}

func vfC42IDrain() {
	for i := range itemBufPools {
		for itemBufPools[i].Get() != nil {
		}
	}
}

func vfC42ILabels(c *vfCase, st vfC42IStats) {
	if st.reused > 0 {
		c.Label("itembuf_get_served_from_pool")
	}
	if st.crossClass > 0 {
		c.Label("itembuf_get_served_after_put_of_other_length_class")
	}
	if st.nonPow2Reuse > 0 {
		c.Label("itembuf_served_buffer_with_non_power_of_two_cap")
	}
	if st.hiddenPuts > 0 {
		c.Label("itembuf_put_with_items_hidden_beyond_len")
	}
	if st.staleAfterHidden > 0 {
		c.Label("itembuf_stale_items_seen_after_hidden_put(allowed)")
	}
	if st.grows > 0 {
		c.Label("itembuf_grown_beyond_class_while_held")
	}
	if st.oversizedPuts > 0 {
		c.Label("itembuf_put_over_max")
	}
	if st.zeroCapPuts > 0 {
		c.Label("itembuf_put_zero_cap")
	}
	if st.gcs > 0 {
		c.Label("itembuf_gc_between_ops")
	}
	c.Extra("itembuf_gets", st.gets)
	c.Extra("itembuf_gets_served_from_pool", st.reused)
	c.Extra("itembuf_gets_served_after_put_of_other_length_class", st.crossClass)
	c.Extra("itembuf_gets_with_len_exactly_requested", st.exactLen)
}

func TestVF_C42_ItemBuf(t *testing.T) {
	// one P: sync.Pool then serves a put buffer to the next matching get deterministically (reproducible cases, high
	// reuse rate) and forced GC cycles do not pay for waking 16 Ps
	defer runtime.GOMAXPROCS(runtime.GOMAXPROCS(1))
	// The cases allocate large short-lived buffers; with the default pacing the heap stays tiny, every large buffer
	// triggers a GC cycle and the scavenger returns its pages to the OS, so that page faults dominate the run time.
	// Collect only when the heap reaches a fixed limit instead; explicit runtime.GC() ops (drawn) still exercise the
	// pools across collections.
	defer debug.SetGCPercent(debug.SetGCPercent(-1))
	defer debug.SetMemoryLimit(debug.SetMemoryLimit(128 << 20))
	opGen := rapid.Custom(vfC42IDrawOp)
	vfCheck(t, "C42", func(rt *rapid.T, c *vfCase) string {
		ops := rapid.SliceOfN(opGen, 10, 40).Draw(rt, "ops")
		putRest := rapid.Bool().Draw(rt, "putRest")
		c.Describe("itembuf: " + vfC42IRender(ops))
		vfC42IDrain()
		a := &vfC42IActor{}
		verdict := ""
		for i, op := range ops {
			if verdict = a.step(i, op); verdict != "" {
				break
			}
		}
		if putRest {
			for len(a.held) > 0 {
				a.put(0)
			}
		}
		if a.st.crossClass > 0 {
			c.Nontrivial(c.desc)
		}
		vfC42ILabels(c, a.st)
		if verdict != "" {
			verdict += "\ntrace: " + a.st.traceString()
		}
		return verdict
	})
}

func TestVF_C42_ItemBufConcurrent(t *testing.T) {
	defer runtime.GOMAXPROCS(runtime.GOMAXPROCS(4))
	// The cases allocate large short-lived buffers; with the default pacing the heap stays tiny, every large buffer
	// triggers a GC cycle and the scavenger returns its pages to the OS, so that page faults dominate the run time.
	// Collect only when the heap reaches a fixed limit instead; explicit runtime.GC() ops (drawn) still exercise the
	// pools across collections.
	defer debug.SetGCPercent(debug.SetGCPercent(-1))
	defer debug.SetMemoryLimit(debug.SetMemoryLimit(128 << 20))
	opGen := rapid.Custom(vfC42IDrawOp)
	vfCheck(t, "C42", func(rt *rapid.T, c *vfCase) string {
		g := rapid.IntRange(2, 4).Draw(rt, "goroutines")
		scripts := make([][]vfC42IOp, g)
		var sb strings.Builder
		for i := range scripts {
			scripts[i] = rapid.SliceOfN(opGen, 6, 24).Draw(rt, fmt.Sprintf("ops%d", i))
			fmt.Fprintf(&sb, "[g%d: %s] ", i, vfC42IRender(scripts[i]))
		}
		c.Describe("itembuf concurrent " + sb.String())
		vfC42IDrain()
		actors := make([]*vfC42IActor, g)
		verdicts := make([]string, g)
		var wg sync.WaitGroup
		start := make(chan struct{})
		for gi := 0; gi < g; gi++ {
			actors[gi] = &vfC42IActor{concurrent: true}
			wg.Add(1)
			go func(gi int) {
				defer wg.Done()
				a := actors[gi]
				<-start
				for i, op := range scripts[gi] {
					if v := a.step(i, op); v != "" {
						verdicts[gi] = fmt.Sprintf("goroutine %d: %s\ntrace: %s", gi, v, a.st.traceString())
						break
					}
				}
				for len(a.held) > 0 {
					a.put(0)
				}
			}(gi)
		}
		close(start)
		wg.Wait()
		var total vfC42IStats
		for _, a := range actors {
			total.gets += a.st.gets
			total.reused += a.st.reused
			total.crossClass += a.st.crossClass
			total.nonPow2Reuse += a.st.nonPow2Reuse
			total.exactLen += a.st.exactLen
			total.hiddenPuts += a.st.hiddenPuts
			total.staleAfterHidden += a.st.staleAfterHidden
			total.grows += a.st.grows
			total.oversizedPuts += a.st.oversizedPuts
			total.zeroCapPuts += a.st.zeroCapPuts
		}
		c.Label("itembuf_concurrent")
		if total.crossClass > 0 {
			c.Nontrivial(c.desc)
		}
		vfC42ILabels(c, total)
		for _, v := range verdicts {
			if v != "" {
				return v
			}
		}
		return ""
	})
}
