package PKGNAME

// C17 — Memory stream broker implements bounded-stream history semantics.
//
// A generated list of Publish / History / RemoveHistory / advance-time operations is executed against a real
// MemoryBroker (and through Node.History where the node adds semantics) inside a synctest bubble (virtual clock).
// The oracle is an independent reference model written from the property statement, the Broker interface comments
// and DESIGN.md Appendix A1. The model is NON-DETERMINISTIC where the statement leaves room:
//
//   - a TTL deadline D (seconds) is "not passed" strictly before D and "certainly handled" from D+vfC17Slack on; in
//     between both outcomes are allowed (the broker sweeps once per second with second resolution);
//   - an idempotency result whose TTL ends exactly now may or may not still be valid;
//   - epochs are opaque: only equality / inequality between observed epoch strings is modelled.
//
// It therefore tracks a SET of possible worlds; every observation (result of a call, deliveries to the event
// handler) filters the set; the property is violated when no world explains an observation.
//
// The same model/executor is reused by the C19 stream-broker check (c19_test.go) with a different generator and a
// strict policy for the idempotency / version clauses.

import (
	"context"
	"errors"
	"fmt"
	"math"
	"runtime"
	"runtime/debug"
	"sort"
	"strings"
	"sync"
	"testing"
	"testing/synctest"
	"time"

	"pgregory.net/rapid"
)

const (
	vfC17OpPublish = iota
	vfC17OpHistory
	vfC17OpRemove
	vfC17OpAdvance
)

// vfC17Slack: seconds after a TTL deadline from which the model requires the expiry to have happened.
const vfC17Slack = 2

const vfC17NewEpoch = "\x00new" // placeholder: "an epoch string never observed before"

// Policy values for the clauses that belong to C19 (see vfC17Policy).
const (
	vfC17Strict  = 0 // the statement's behaviour only
	vfC17Either  = 1 // not asserted by this check (both behaviours allowed, nothing recorded)
	vfC17Flagged = 2 // known finding: both allowed, the deviating world is flagged and counted via c.Known
)

// Bug bits carried by worlds that needed a deviation from the statement.
const (
	vfC17BugVerReset = 1 << iota // unversioned publish reset the held version
	vfC17BugSupTTL               // version-suppressed publish refreshed history/meta TTL
	vfC17BugCollide              // idempotency result shared between different channels (cache key ch+"_"+key)
	vfC17BugSinceWrap            // forward History since offset 2^64-1 returned the stream from its start
	vfC17BugMax = vfC17BugSinceWrap
)

const vfC17KeySinceWrap = "C17:since-maxuint64-wraps-to-stream-start"

type vfC17Policy struct {
	VerReset  int
	SupTTL    int
	Collide   int
	SinceWrap int
}

type vfC17Cfg struct {
	Chans      []string
	DefMetaTTL int // Config.HistoryMetaTTL in seconds; 0 = library default (30 days)
	Policy     vfC17Policy
	FinalRead  bool // append an unlimited broker-level History per channel at the end
}

type vfC17Op struct {
	Kind int
	Ch   int
	// publish
	Data    string
	Size    int
	TTL     int // seconds
	MetaTTL int // seconds; 0 = default
	IdemKey string
	IdemTTL int // seconds; 0 = default (300 s)
	Version uint64
	VEpoch  string
	// history
	HasSince  bool
	SinceMode int // 0 absolute SinceArg; 1 last observed top + SinceArg; 2 math.MaxUint64
	SinceArg  int
	EpochKind int // 0 current epoch of the channel, 1 some other epoch, 2 empty
	Limit     int
	Reverse   bool
	ViaNode   bool
	// advance
	AdvMs int
}

func (o vfC17Op) render(chans []string) string {
	switch o.Kind {
	case vfC17OpPublish:
		s := fmt.Sprintf("P(%s,%s,size=%d,ttl=%ds", chans[o.Ch], o.Data, o.Size, o.TTL)
		if o.MetaTTL != 0 {
			s += fmt.Sprintf(",meta=%ds", o.MetaTTL)
		}
		if o.IdemKey != "" {
			s += fmt.Sprintf(",idem=%s/%ds", o.IdemKey, o.IdemTTL)
		}
		if o.Version != 0 {
			s += fmt.Sprintf(",v=%d@%q", o.Version, o.VEpoch)
		}
		return s + ")"
	case vfC17OpHistory:
		s := "H(" + chans[o.Ch]
		if o.HasSince {
			switch o.SinceMode {
			case 0:
				s += fmt.Sprintf(",since=%d", o.SinceArg)
			case 1:
				s += fmt.Sprintf(",since=top%+d", o.SinceArg)
			default:
				s += ",since=max"
			}
			s += []string{"/cur", "/other", "/noepoch"}[o.EpochKind]
		}
		s += fmt.Sprintf(",limit=%d", o.Limit)
		if o.Reverse {
			s += ",rev"
		}
		if o.ViaNode {
			s += ",node"
		}
		if o.MetaTTL != 0 {
			s += fmt.Sprintf(",meta=%ds", o.MetaTTL)
		}
		return s + ")"
	case vfC17OpRemove:
		return "R(" + chans[o.Ch] + ")"
	default:
		return fmt.Sprintf("T(+%.1fs)", float64(o.AdvMs)/1000)
	}
}

func vfC17Render(cfg vfC17Cfg, ops []vfC17Op) string {
	parts := make([]string, 0, len(ops)+1)
	parts = append(parts, fmt.Sprintf("defMeta=%ds", cfg.DefMetaTTL))
	for _, o := range ops {
		parts = append(parts, o.render(cfg.Chans))
	}
	return strings.Join(parts, " ")
}

// ---------------------------------------------------------------------------------------------------------------
// reference model

type vfC17Ent struct {
	Off  uint64
	Data string
	Ver  uint64
}

type vfC17Chan struct {
	Exists   bool // stream metadata (epoch, top, version) present
	Epoch    string
	Top      uint64
	List     []vfC17Ent
	Ver      uint64
	VerEpoch string
	// history TTL bookkeeping (seconds). ExpQ is the time at which the broker next looks at the channel: the
	// broker keeps ONE queue item per channel, created by the first publish after the previous expiry, and re-arms
	// it with the latest deadline when it fires early (regression oracle: a shortened TTL therefore takes effect
	// only when the older, longer item fires; the statement is silent on that).
	ExpHas    bool
	Exp, ExpQ int64
	RmHas     bool
	Rm, RmQ   int64
	// classification only (not part of the state identity)
	EvTrim, EvExpire, EvRemove, EvMeta bool
}

type vfC17Idem struct {
	Off   uint64
	Epoch string
	ExpMs int64
}

type vfC17World struct {
	Ch      []vfC17Chan
	Idem    map[string]vfC17Idem
	Collide bool
	Bugs    int
}

func (w *vfC17World) clone() *vfC17World {
	n := &vfC17World{Ch: make([]vfC17Chan, len(w.Ch)), Idem: make(map[string]vfC17Idem, len(w.Idem)), Collide: w.Collide, Bugs: w.Bugs}
	copy(n.Ch, w.Ch)
	for i := range n.Ch {
		n.Ch[i].List = append([]vfC17Ent(nil), w.Ch[i].List...)
	}
	for k, v := range w.Idem {
		n.Idem[k] = v
	}
	return n
}

func (w *vfC17World) stateKey() string {
	var sb strings.Builder
	fmt.Fprintf(&sb, "%v|", w.Collide)
	for i := range w.Ch {
		c := &w.Ch[i]
		exp, expQ, rm, rmQ := c.Exp, c.ExpQ, c.Rm, c.RmQ
		if !c.ExpHas { // stale deadlines carry no information
			exp, expQ = 0, 0
		}
		if !c.RmHas {
			rm, rmQ = 0, 0
		}
		fmt.Fprintf(&sb, "%v,%q,%d,%d,%q,%v,%d,%d,%v,%d,%d,[", c.Exists, c.Epoch, c.Top, c.Ver, c.VerEpoch, c.ExpHas, exp, expQ, c.RmHas, rm, rmQ)
		for _, e := range c.List {
			fmt.Fprintf(&sb, "%d:%s:%d ", e.Off, e.Data, e.Ver)
		}
		sb.WriteString("]|")
	}
	keys := make([]string, 0, len(w.Idem))
	for k := range w.Idem {
		keys = append(keys, k)
	}
	sort.Strings(keys)
	for _, k := range keys {
		v := w.Idem[k]
		fmt.Fprintf(&sb, "%q=%d,%q,%d;", k, v.Off, v.Epoch, v.ExpMs)
	}
	return sb.String()
}

func (w *vfC17World) idemKey(ci int, chName, key string) string {
	if w.Collide {
		return chName + "_" + key
	}
	return fmt.Sprintf("%d\x00%s", ci, key)
}

func vfC17Bits(x int) int {
	n := 0
	for ; x != 0; x &= x - 1 {
		n++
	}
	return n
}

// vfC17Dedupe merges worlds with identical state, preferring the one that needed fewer deviations.
func vfC17Dedupe(ws []*vfC17World) []*vfC17World {
	idx := map[string]int{}
	out := ws[:0:0]
	for _, w := range ws {
		k := w.stateKey()
		if i, ok := idx[k]; ok {
			if vfC17Bits(w.Bugs) < vfC17Bits(out[i].Bugs) {
				out[i] = w
			}
			continue
		}
		idx[k] = len(out)
		out = append(out, w)
	}
	return out
}

// vfC17SweepChan returns the possible states of one channel at time nowMs given the once-per-second expiry and
// meta-removal sweeps. Exp/Rm are the latest deadlines (seconds); ExpQ/RmQ are the times at which the broker next
// looks at the channel (see vfC17Chan). Allowed behaviours:
//   - nothing expires strictly before the latest deadline;
//   - an item due at second P may be handled any time in [P, P+slack) and certainly from P+slack on;
//   - when a later publish/read SHORTENED the deadline below the queued time, the broker currently honours it only
//     when the older item fires (retention longer than the TTL). The statement does not ask for that, so expiry is
//     allowed from the shortened deadline on and required only from the queued time + slack on.
func vfC17SweepChan(c vfC17Chan, nowMs int64) []vfC17Chan {
	expire := func(x vfC17Chan) vfC17Chan { // stream content dropped; top, epoch and version stay
		x.ExpHas = false
		if len(x.List) > 0 {
			x.List = nil
			x.EvExpire = true
		}
		return x
	}
	discard := func(x vfC17Chan) vfC17Chan { // metadata discarded: everything about the stream is forgotten
		x.RmHas = false
		if x.Exists {
			x.EvMeta = true
		}
		x.Exists, x.Epoch, x.Top, x.List, x.Ver, x.VerEpoch = false, "", 0, nil, 0, ""
		return x
	}
	var afterExp []vfC17Chan
	cur := c
	for {
		if !cur.ExpHas {
			afterExp = append(afterExp, cur)
			break
		}
		if nowMs < cur.ExpQ*1000 { // queued item not due yet
			afterExp = append(afterExp, cur)
			if nowMs >= cur.Exp*1000 { // shortened deadline already passed
				afterExp = append(afterExp, expire(cur))
			}
			break
		}
		if nowMs < (cur.ExpQ+vfC17Slack)*1000 {
			afterExp = append(afterExp, cur) // due, not handled yet
		}
		if cur.Exp <= cur.ExpQ {
			afterExp = append(afterExp, expire(cur))
			break
		}
		cur.ExpQ = cur.Exp // refreshed meanwhile: re-armed with the newer deadline
	}
	var out []vfC17Chan
	for _, c2 := range afterExp {
		cur := c2
		for {
			if !cur.RmHas {
				out = append(out, cur)
				break
			}
			if nowMs < cur.RmQ*1000 {
				out = append(out, cur)
				if nowMs >= cur.Rm*1000 {
					out = append(out, discard(cur))
				}
				break
			}
			if nowMs < (cur.RmQ+vfC17Slack)*1000 {
				out = append(out, cur)
			}
			if cur.Rm <= cur.RmQ {
				out = append(out, discard(cur))
				break
			}
			cur.RmQ = cur.Rm
		}
	}
	return out
}

func vfC17Sweep(ws []*vfC17World, nowMs int64) []*vfC17World {
	for ci := 0; ci < len(ws[0].Ch); ci++ {
		var next []*vfC17World
		for _, w := range ws {
			vars := vfC17SweepChan(w.Ch[ci], nowMs)
			for vi, v := range vars {
				nw := w
				if vi < len(vars)-1 {
					nw = w.clone()
				}
				v.List = append([]vfC17Ent(nil), v.List...)
				nw.Ch[ci] = v
				next = append(next, nw)
			}
		}
		ws = next
	}
	return vfC17Dedupe(ws)
}

// vfC17Out is an observation (or a predicted observation) of one call.
type vfC17Out struct {
	Err     string // "", "bad_request", "unrecoverable", or other error text
	Off     uint64
	Epoch   string
	Sup     bool
	Reason  string
	Deliver bool
	Pubs    []vfC17Ent
}

func (o vfC17Out) String() string {
	s := fmt.Sprintf("{pos=%d/%q", o.Off, o.Epoch)
	if o.Epoch == vfC17NewEpoch {
		s = fmt.Sprintf("{pos=%d/<fresh epoch>", o.Off)
	}
	if o.Err != "" {
		s += " err=" + o.Err
	}
	if o.Sup {
		s += " suppressed=" + o.Reason
	}
	if o.Deliver {
		s += " delivered"
	}
	if o.Pubs != nil {
		s += " pubs=["
		for i, p := range o.Pubs {
			if i > 0 {
				s += " "
			}
			s += fmt.Sprintf("%d:%s", p.Off, p.Data)
			if p.Ver != 0 {
				s += fmt.Sprintf(":v%d", p.Ver)
			}
		}
		s += "]"
	}
	return s + "}"
}

func vfC17Match(pred, act vfC17Out, seen map[string]bool) bool {
	if pred.Err != act.Err {
		return false
	}
	if pred.Err == "bad_request" {
		return true
	}
	if pred.Off != act.Off || pred.Sup != act.Sup || pred.Reason != act.Reason || pred.Deliver != act.Deliver {
		return false
	}
	if pred.Epoch == vfC17NewEpoch {
		if act.Epoch == "" || seen[act.Epoch] {
			return false
		}
	} else if pred.Epoch != act.Epoch {
		return false
	}
	if len(pred.Pubs) != len(act.Pubs) {
		return false
	}
	for i := range pred.Pubs {
		if pred.Pubs[i] != act.Pubs[i] {
			return false
		}
	}
	return true
}

func (w *vfC17World) bind(epoch string) {
	for i := range w.Ch {
		if w.Ch[i].Epoch == vfC17NewEpoch {
			w.Ch[i].Epoch = epoch
		}
	}
	for k, v := range w.Idem {
		if v.Epoch == vfC17NewEpoch {
			v.Epoch = epoch
			w.Idem[k] = v
		}
	}
}

type vfC17Branch struct {
	W   *vfC17World
	Out vfC17Out
}

func vfC17MetaSec(opt, def int) int64 {
	if opt != 0 {
		return int64(opt)
	}
	if def != 0 {
		return int64(def)
	}
	return 30 * 24 * 3600
}

func (c *vfC17Chan) refreshMeta(sec int64, ttl int64) {
	at := sec + ttl
	if !c.RmHas {
		c.RmHas = true
		c.RmQ = at
	}
	c.Rm = at
}

func (c *vfC17Chan) refreshExp(sec int64, ttl int64) {
	at := sec + ttl
	if !c.ExpHas {
		c.ExpHas = true
		c.ExpQ = at
	}
	c.Exp = at
}

func (c *vfC17Chan) create() {
	c.Exists, c.Epoch, c.Top, c.List, c.Ver, c.VerEpoch = true, vfC17NewEpoch, 0, nil, 0, ""
}

// vfC17Publish applies a publish to world w (which the caller owns) and returns the possible outcomes.
func vfC17Publish(w *vfC17World, op *vfC17Op, cfg *vfC17Cfg, nowMs int64) []vfC17Branch {
	var res []vfC17Branch
	ci := op.Ch
	ik := ""
	if op.IdemKey != "" {
		ik = w.idemKey(ci, cfg.Chans[ci], op.IdemKey)
		if e, ok := w.Idem[ik]; ok {
			sup := vfC17Out{Off: e.Off, Epoch: e.Epoch, Sup: true, Reason: string(SuppressReasonIdempotency)}
			if e.ExpMs > nowMs { // repeat within the result TTL: original position, nothing else happens
				return []vfC17Branch{{w, sup}}
			}
			if e.ExpMs == nowMs { // exactly at the TTL: either reading of "within" is accepted
				res = append(res, vfC17Branch{w.clone(), sup})
			}
		}
	}
	idemTTL := int64(300)
	if op.IdemTTL != 0 {
		idemTTL = int64(op.IdemTTL)
	}
	if !(op.Size > 0 && op.TTL > 0) { // no history: delivered with the zero position, streams untouched
		if ik != "" {
			w.Idem[ik] = vfC17Idem{ExpMs: nowMs + idemTTL*1000}
		}
		return append(res, vfC17Branch{w, vfC17Out{Deliver: true}})
	}
	c := &w.Ch[ci]
	sec := nowMs / 1000
	meta := vfC17MetaSec(op.MetaTTL, cfg.DefMetaTTL)
	if op.Version > 0 && c.Exists && (op.VEpoch == "" || op.VEpoch == c.VerEpoch) && op.Version <= c.Ver {
		out := vfC17Out{Off: c.Top, Epoch: c.Epoch, Sup: true, Reason: string(SuppressReasonVersion)}
		if cfg.Policy.SupTTL != vfC17Strict {
			w2 := w.clone()
			w2.Ch[ci].refreshExp(sec, int64(op.TTL))
			w2.Ch[ci].refreshMeta(sec, meta)
			if cfg.Policy.SupTTL == vfC17Flagged {
				w2.Bugs |= vfC17BugSupTTL
			}
			res = append(res, vfC17Branch{w2, out})
		}
		return append(res, vfC17Branch{w, out}) // suppressed publishes change nothing
	}
	c.refreshExp(sec, int64(op.TTL))
	c.refreshMeta(sec, meta)
	if !c.Exists {
		c.create()
	}
	c.Top++ // offsets start at 1 and increase by one per stored publication
	c.List = append(c.List, vfC17Ent{Off: c.Top, Data: op.Data, Ver: op.Version})
	if len(c.List) > op.Size {
		c.List = append([]vfC17Ent(nil), c.List[len(c.List)-op.Size:]...)
		c.EvTrim = true
	}
	heldBefore := c.Ver > 0
	if op.Version > 0 {
		c.Ver, c.VerEpoch = op.Version, op.VEpoch
	}
	out := vfC17Out{Off: c.Top, Epoch: c.Epoch, Deliver: true}
	if ik != "" {
		w.Idem[ik] = vfC17Idem{Off: c.Top, Epoch: c.Epoch, ExpMs: nowMs + idemTTL*1000}
	}
	if op.Version == 0 && heldBefore && cfg.Policy.VerReset != vfC17Strict {
		w2 := w.clone()
		w2.Ch[ci].Ver, w2.Ch[ci].VerEpoch = 0, ""
		if cfg.Policy.VerReset == vfC17Flagged {
			w2.Bugs |= vfC17BugVerReset
		}
		res = append(res, vfC17Branch{w2, out})
	}
	return append(res, vfC17Branch{w, out})
}

func vfC17Select(list []vfC17Ent, top uint64, since *StreamPosition, limit int, reverse bool) []vfC17Ent {
	out := []vfC17Ent{}
	if limit == 0 {
		return out
	}
	var cand []vfC17Ent
	if since == nil {
		cand = append(cand, list...)
		if reverse {
			for i, j := 0, len(cand)-1; i < j; i, j = i+1, j-1 {
				cand[i], cand[j] = cand[j], cand[i]
			}
		}
	} else if !reverse {
		for _, e := range list { // retained suffix after since (a trimmed since yields everything retained)
			if e.Off > since.Offset {
				cand = append(cand, e)
			}
		}
	} else {
		// Reverse: entries strictly before since, newest first. Regression oracle (statement and docs are silent):
		// the broker anchors on the entry since-1 and returns nothing when that entry is not retained, which
		// includes since >= top+2 (where "everything before since" would be the whole list).
		anchor := false
		for _, e := range list {
			if since.Offset > 0 && e.Off == since.Offset-1 {
				anchor = true
			}
		}
		if anchor {
			for i := len(list) - 1; i >= 0; i-- {
				if list[i].Off < since.Offset {
					cand = append(cand, list[i])
				}
			}
		}
	}
	if limit > 0 && len(cand) > limit {
		cand = cand[:limit]
	}
	return append(out, cand...)
}

func vfC17History(w *vfC17World, op *vfC17Op, cfg *vfC17Cfg, nowMs int64, since *StreamPosition) []vfC17Branch {
	br := vfC17History1(w, op, cfg, nowMs, since)
	res := []vfC17Branch{br}
	if cfg.Policy.SinceWrap != vfC17Strict && since != nil && !op.Reverse && since.Offset == math.MaxUint64 && br.Out.Err != "bad_request" {
		// known finding: since.Offset+1 wraps to 0 and the broker answers as if no position had been given
		w2 := br.W.clone()
		if cfg.Policy.SinceWrap == vfC17Flagged {
			w2.Bugs |= vfC17BugSinceWrap
		}
		out := br.Out
		out.Pubs = vfC17Select(w2.Ch[op.Ch].List, 0, nil, op.Limit, false)
		res = append(res, vfC17Branch{w2, out})
	}
	return res
}

func vfC17History1(w *vfC17World, op *vfC17Op, cfg *vfC17Cfg, nowMs int64, since *StreamPosition) vfC17Branch {
	if op.ViaNode && op.Reverse && since != nil && since.Offset == 0 {
		return vfC17Branch{w, vfC17Out{Err: "bad_request"}} // Node.History rejects it before reaching the broker
	}
	c := &w.Ch[op.Ch]
	c.refreshMeta(nowMs/1000, vfC17MetaSec(op.MetaTTL, cfg.DefMetaTTL)) // reads keep the metadata alive
	out := vfC17Out{Pubs: []vfC17Ent{}}
	if !c.Exists {
		c.create() // reads of unknown channels mint the epoch
	} else {
		out.Pubs = vfC17Select(c.List, c.Top, since, op.Limit, op.Reverse)
	}
	out.Off, out.Epoch = c.Top, c.Epoch
	if op.ViaNode && since != nil && since.Epoch != "" && since.Epoch != c.Epoch {
		out.Err = "unrecoverable" // vfC17NewEpoch never equals an observed epoch either
	}
	return vfC17Branch{w, out}
}

// ---------------------------------------------------------------------------------------------------------------
// execution

type vfC17Deliv struct {
	Ch     string
	Data   string
	Off    uint64
	SP     StreamPosition
	HasPre bool
}

type vfC17Handler struct {
	mu  sync.Mutex
	log []vfC17Deliv
}

func (h *vfC17Handler) HandlePublication(ch string, pub *Publication, sp StreamPosition, _ bool, prev *Publication) error {
	h.mu.Lock()
	defer h.mu.Unlock()
	h.log = append(h.log, vfC17Deliv{Ch: ch, Data: string(pub.Data), Off: pub.Offset, SP: sp, HasPre: prev != nil})
	return nil
}
func (h *vfC17Handler) HandleJoin(string, *ClientInfo) error  { return nil }
func (h *vfC17Handler) HandleLeave(string, *ClientInfo) error { return nil }
func (h *vfC17Handler) take() []vfC17Deliv {
	h.mu.Lock()
	defer h.mu.Unlock()
	l := h.log
	h.log = nil
	return l
}

type vfC17Res struct {
	Verdict string
	Labels  []string
	NT      bool
	BugHits map[int]string
	MaxW    int
}

func vfC17ErrName(err error) string {
	switch {
	case err == nil:
		return ""
	case errors.Is(err, ErrorBadRequest):
		return "bad_request"
	case errors.Is(err, ErrorUnrecoverablePosition):
		return "unrecoverable"
	default:
		return "error: " + err.Error()
	}
}

func vfC17Ents(pubs []*Publication) []vfC17Ent {
	out := make([]vfC17Ent, 0, len(pubs))
	for _, p := range pubs {
		out = append(out, vfC17Ent{Off: p.Offset, Data: string(p.Data), Ver: p.Version})
	}
	return out
}

// vfC17Nodes: one never-started Node per Config.HistoryMetaTTL value, created OUTSIDE the bubbles and reused by all
// cases (New allocates ~3x4096 mutexes and a metrics registry; a Node that is not Run owns no goroutine or timer, and
// History/RemoveHistory only touch counters). Every case gets a fresh MemoryBroker.
var vfC17Nodes = map[int]*Node{}

func vfC17Node(defMeta int) (*Node, error) {
	if n, ok := vfC17Nodes[defMeta]; ok {
		return n, nil
	}
	n, err := New(Config{HistoryMetaTTL: time.Duration(defMeta) * time.Second})
	if err == nil {
		vfC17Nodes[defMeta] = n
	}
	return n, err
}

// vfC17Bubble is vfBubble without the two GC cycles: the memory brokers use time.After / time.NewTimer directly,
// never the pooled timers of internal/timers, and the Node is not running.
func vfC17Bubble(t *testing.T, f func() string) (verdict string) {
	var out string
	defer func() {
		if r := recover(); r != nil { // synctest panics here when the bubble deadlocks
			buf := make([]byte, 1<<18)
			verdict = fmt.Sprintf("BUBBLE-PANIC: %v\n%s", r, buf[:runtime.Stack(buf, true)])
		}
	}()
	synctest.Test(t, func(*testing.T) {
		defer func() {
			if r := recover(); r != nil {
				out = fmt.Sprintf("PANIC: %v\n%s", r, debug.Stack())
			}
		}()
		out = f()
	})
	return out
}

// vfC17Exec runs ops against a fresh MemoryBroker in a bubble, in lock-step with the world set.
func vfC17Exec(t *testing.T, cfg vfC17Cfg, ops []vfC17Op) vfC17Res {
	res := vfC17Res{BugHits: map[int]string{}}
	labels := map[string]bool{}
	if cfg.FinalRead {
		for ci := range cfg.Chans {
			ops = append(ops[:len(ops):len(ops)], vfC17Op{Kind: vfC17OpHistory, Ch: ci, Limit: -1})
		}
	}
	node, err := vfC17Node(cfg.DefMetaTTL)
	if err != nil {
		res.Verdict = "INTERNAL: New: " + err.Error()
		return res
	}
	res.Verdict = vfC17Bubble(t, func() string {
		broker, err := NewMemoryBroker(node, MemoryBrokerConfig{})
		if err != nil {
			return "INTERNAL: NewMemoryBroker: " + err.Error()
		}
		node.SetBroker(broker)
		h := &vfC17Handler{}
		if err := broker.RegisterBrokerEventHandler(h); err != nil {
			return "INTERNAL: RegisterBrokerEventHandler: " + err.Error()
		}
		defer func() { _ = broker.Close(context.Background()) }()

		w0 := &vfC17World{Ch: make([]vfC17Chan, len(cfg.Chans)), Idem: map[string]vfC17Idem{}}
		worlds := []*vfC17World{w0}
		if cfg.Policy.Collide != vfC17Strict {
			w1 := w0.clone()
			w1.Collide = true
			if cfg.Policy.Collide == vfC17Flagged {
				w1.Bugs = vfC17BugCollide
			}
			worlds = append(worlds, w1)
		}
		startMs := time.Now().UnixMilli()
		seen := map[string]bool{}
		lastTop := make([]uint64, len(cfg.Chans))
		lastEpoch := make([]string, len(cfg.Chans))
		prevEpoch := make([]string, len(cfg.Chans))
		reported := 0
		// harness-level bookkeeping for labels (from observed results only)
		type idemSeen struct{ expMs int64 }
		idemLog := map[string]idemSeen{}
		verStored := make([]bool, len(cfg.Chans))
		unverAfterVer := make([]bool, len(cfg.Chans))

		for i := range ops {
			op := &ops[i]
			if op.Kind == vfC17OpAdvance {
				time.Sleep(time.Duration(op.AdvMs) * time.Millisecond)
				synctest.Wait()
				continue
			}
			nowMs := time.Now().UnixMilli()
			worlds = vfC17Sweep(worlds, nowMs)
			chName := cfg.Chans[op.Ch]
			var act vfC17Out
			var since *StreamPosition
			hasPos := true
			switch op.Kind {
			case vfC17OpPublish:
				r, err := broker.Publish(chName, []byte(op.Data), PublishOptions{
					HistorySize: op.Size, HistoryTTL: time.Duration(op.TTL) * time.Second,
					HistoryMetaTTL:      time.Duration(op.MetaTTL) * time.Second,
					IdempotencyKey:      op.IdemKey,
					IdempotentResultTTL: time.Duration(op.IdemTTL) * time.Second,
					Version:             op.Version, VersionEpoch: op.VEpoch,
				})
				act = vfC17Out{Err: vfC17ErrName(err), Off: r.StreamPosition.Offset, Epoch: r.StreamPosition.Epoch, Sup: r.Suppressed, Reason: string(r.SuppressReason)}
				dl := h.take()
				if len(dl) > 1 {
					return fmt.Sprintf("step %d %s: %d deliveries for one publish", i, op.render(cfg.Chans), len(dl))
				}
				if len(dl) == 1 {
					act.Deliver = true
					d := dl[0]
					if d.Ch != chName || d.Data != op.Data || d.SP != r.StreamPosition || d.Off != r.StreamPosition.Offset {
						return fmt.Sprintf("step %d %s: delivery %+v does not carry the publication/position of result %+v", i, op.render(cfg.Chans), d, r)
					}
				}
				histOn := op.Size > 0 && op.TTL > 0
				if histOn {
					labels["pub:history"] = true
				} else {
					labels["pub:no-history"] = true
					hasPos = r.Suppressed // a suppressed repeat returns the original position
				}
				if r.Suppressed {
					labels["pub:suppressed-"+string(r.SuppressReason)] = true
				}
				if op.IdemKey != "" {
					k := chName + "\x00" + op.IdemKey
					if e, ok := idemLog[k]; ok {
						if e.expMs <= nowMs {
							labels["idem:repeat-after-ttl"] = true
						} else {
							labels["idem:repeat-within-ttl"] = true
						}
					}
					if !r.Suppressed {
						ttl := int64(300)
						if op.IdemTTL != 0 {
							ttl = int64(op.IdemTTL)
						}
						idemLog[k] = idemSeen{nowMs + ttl*1000}
					}
				}
				if histOn && op.Version > 0 {
					if unverAfterVer[op.Ch] {
						labels["ver:versioned-after-unversioned"] = true
					}
					if verStored[op.Ch] {
						labels["ver:versioned-after-versioned"] = true
					}
					if op.Version > 1<<53 {
						labels["ver:above-2^53"] = true
					}
					if !r.Suppressed {
						verStored[op.Ch] = true
						unverAfterVer[op.Ch] = false
					}
				} else if histOn && !r.Suppressed && verStored[op.Ch] {
					unverAfterVer[op.Ch] = true
				}
			case vfC17OpHistory:
				if op.HasSince {
					sp := StreamPosition{}
					switch op.SinceMode {
					case 0:
						sp.Offset = uint64(op.SinceArg)
					case 1:
						v := int64(lastTop[op.Ch]) + int64(op.SinceArg)
						if v < 0 {
							v = 0
						}
						sp.Offset = uint64(v)
					default:
						sp.Offset = math.MaxUint64
					}
					switch op.EpochKind {
					case 0:
						sp.Epoch = lastEpoch[op.Ch]
					case 1:
						sp.Epoch = prevEpoch[op.Ch]
						if sp.Epoch == "" {
							sp.Epoch = "NOSUCHEP"
						}
					}
					since = &sp
				}
				hopts := HistoryOptions{Filter: HistoryFilter{Since: since, Limit: op.Limit, Reverse: op.Reverse}, MetaTTL: time.Duration(op.MetaTTL) * time.Second}
				if op.ViaNode {
					r, err := node.History(chName, WithHistoryFilter(hopts.Filter), WithHistoryMetaTTL(hopts.MetaTTL))
					act = vfC17Out{Err: vfC17ErrName(err), Off: r.StreamPosition.Offset, Epoch: r.StreamPosition.Epoch, Pubs: vfC17Ents(r.Publications)}
					if act.Err == "bad_request" {
						hasPos = false
					}
				} else {
					pubs, sp, err := broker.History(chName, hopts)
					act = vfC17Out{Err: vfC17ErrName(err), Off: sp.Offset, Epoch: sp.Epoch, Pubs: vfC17Ents(pubs)}
				}
				if dl := h.take(); len(dl) != 0 {
					return fmt.Sprintf("step %d %s: history call produced deliveries %+v", i, op.render(cfg.Chans), dl)
				}
			case vfC17OpRemove:
				var err error
				if op.ViaNode {
					err = node.RemoveHistory(chName)
				} else {
					err = broker.RemoveHistory(chName)
				}
				act = vfC17Out{Err: vfC17ErrName(err)}
				hasPos = false
			}

			var next []*vfC17World
			var preds []string
			for _, w := range worlds {
				var brs []vfC17Branch
				switch op.Kind {
				case vfC17OpPublish:
					brs = vfC17Publish(w.clone(), op, &cfg, nowMs)
				case vfC17OpHistory:
					brs = vfC17History(w.clone(), op, &cfg, nowMs, since)
				case vfC17OpRemove:
					w2 := w.clone()
					c := &w2.Ch[op.Ch]
					if c.Exists && len(c.List) > 0 { // removed stream keeps top and epoch
						c.List = nil
						c.EvRemove = true
					}
					brs = []vfC17Branch{{w2, vfC17Out{}}}
				}
				for _, br := range brs {
					if vfC17Match(br.Out, act, seen) {
						if br.Out.Epoch == vfC17NewEpoch {
							br.W.bind(act.Epoch)
						}
						next = append(next, br.W)
					} else if len(preds) < 6 {
						s := br.Out.String()
						dup := false
						for _, p := range preds {
							dup = dup || p == s
						}
						if !dup {
							preds = append(preds, s)
						}
					}
				}
			}
			if len(next) == 0 {
				return fmt.Sprintf("step %d %s at t=+%.1fs: observed %s; the model allows only %s", i, op.render(cfg.Chans),
					float64(nowMs-startMs)/1000, act.String(), strings.Join(preds, " or "))
			}
			worlds = vfC17Dedupe(next)
			if len(worlds) > res.MaxW {
				res.MaxW = len(worlds)
			}
			if len(worlds) > 4000 { // never observed; give up on the case rather than report a harness limit as a violation
				labels["aborted:too-many-worlds"] = true
				return ""
			}
			if hasPos && act.Epoch != "" {
				seen[act.Epoch] = true
				lastTop[op.Ch] = act.Off
				if lastEpoch[op.Ch] != act.Epoch {
					if lastEpoch[op.Ch] != "" {
						prevEpoch[op.Ch] = lastEpoch[op.Ch]
					}
					lastEpoch[op.Ch] = act.Epoch
				}
			}
			common := -1
			for _, w := range worlds {
				common &= w.Bugs
			}
			for bit := 1; bit <= vfC17BugMax; bit <<= 1 {
				if common&bit != 0 && reported&bit == 0 {
					reported |= bit
					res.BugHits[bit] = fmt.Sprintf("step %d %s observed %s", i, op.render(cfg.Chans), act.String())
				}
			}
			// classification from the first surviving world
			if op.Kind == vfC17OpHistory && act.Err != "bad_request" {
				c := worlds[0].Ch[op.Ch]
				if op.Limit != 0 {
					if c.EvTrim {
						labels["history-after:trim"] = true
					}
					if c.EvExpire {
						labels["history-after:expiry"] = true
					}
					if c.EvRemove {
						labels["history-after:remove-history"] = true
					}
					if c.EvMeta {
						labels["history-after:meta-discarded"] = true
					}
					if c.EvTrim || c.EvExpire || c.EvRemove || c.EvMeta {
						res.NT = true
					}
				}
				if len(act.Pubs) > 0 {
					labels["history:non-empty"] = true
				}
				if since != nil {
					labels["history:since"] = true
					if op.Reverse {
						labels["history:since-reverse"] = true
					}
				}
				if act.Err == "unrecoverable" {
					labels["history:epoch-mismatch"] = true
				}
			}
		}
		if len(worlds) > 1 {
			labels["end:ambiguous-worlds"] = true
		}
		switch {
		case res.MaxW <= 2:
			labels["worlds:max<=2"] = true
		case res.MaxW <= 8:
			labels["worlds:max<=8"] = true
		case res.MaxW <= 64:
			labels["worlds:max<=64"] = true
		default:
			labels["worlds:max>64"] = true
		}
		return ""
	})
	for l := range labels {
		res.Labels = append(res.Labels, l)
	}
	sort.Strings(res.Labels)
	return res
}

// ---------------------------------------------------------------------------------------------------------------
// generator

func vfC17Gen(rt *rapid.T, sinceWrap int) (vfC17Cfg, []vfC17Op) {
	cfg := vfC17Cfg{
		Chans:      []string{"s1", "s2"}[:rapid.IntRange(1, 2).Draw(rt, "nch")],
		DefMetaTTL: rapid.SampledFrom([]int{0, 0, 6, 12}).Draw(rt, "defMeta"),
		// the idempotency/version clauses are C19's: here an unversioned publish may or may not reset the version
		Policy:    vfC17Policy{VerReset: vfC17Either, SupTTL: vfC17Either, Collide: vfC17Strict, SinceWrap: sinceWrap},
		FinalRead: true,
	}
	maxOps := 24
	if vfThorough() {
		maxOps = 36
	}
	n := rapid.IntRange(4, maxOps).Draw(rt, "nops")
	ops := make([]vfC17Op, 0, n)
	for i := 0; i < n; i++ {
		op := vfC17Op{Ch: rapid.IntRange(0, len(cfg.Chans)-1).Draw(rt, "ch")}
		k := rapid.IntRange(0, 99).Draw(rt, "kind")
		switch {
		case k < 40:
			op.Kind = vfC17OpPublish
			op.Data = fmt.Sprintf("d%d", i)
			op.Size = rapid.SampledFrom([]int{0, 1, 1, 2, 2, 3, 3, 4, 5, 6}).Draw(rt, "size")
			op.TTL = rapid.SampledFrom([]int{1, 1, 2, 2, 3, 4, 5, 5, 0}).Draw(rt, "ttl")
			op.MetaTTL = rapid.SampledFrom([]int{0, 0, 2, 3, 5, 7, 10}).Draw(rt, "meta")
			if rapid.IntRange(0, 3).Draw(rt, "idem") == 0 {
				op.IdemKey = rapid.SampledFrom([]string{"i1", "i2"}).Draw(rt, "ikey")
				op.IdemTTL = rapid.SampledFrom([]int{0, 1, 2, 3}).Draw(rt, "ittl")
			}
			if rapid.IntRange(0, 3).Draw(rt, "ver") == 0 {
				op.Version = rapid.SampledFrom([]uint64{1, 2, 3, 4, 5, 6, math.MaxUint64}).Draw(rt, "version")
				op.VEpoch = rapid.SampledFrom([]string{"", "", "e1", "e2"}).Draw(rt, "vepoch")
			}
		case k < 78:
			op.Kind = vfC17OpHistory
			if rapid.IntRange(0, 9).Draw(rt, "hasSince") < 6 {
				op.HasSince = true
				op.SinceMode = rapid.SampledFrom([]int{0, 0, 0, 0, 0, 1, 1, 1, 1, 1, 1, 1, 1, 1, 1, 1, 1, 1, 1, 2}).Draw(rt, "sinceMode")
				if op.SinceMode == 0 {
					op.SinceArg = rapid.IntRange(0, 8).Draw(rt, "sinceAbs")
				} else if op.SinceMode == 1 {
					op.SinceArg = rapid.IntRange(-4, 2).Draw(rt, "sinceRel")
				}
				op.EpochKind = rapid.SampledFrom([]int{0, 0, 0, 1, 2, 2}).Draw(rt, "epochKind")
			}
			op.Limit = rapid.SampledFrom([]int{-1, -1, -1, 0, 1, 2, 3, 4}).Draw(rt, "limit")
			op.Reverse = rapid.IntRange(0, 2).Draw(rt, "reverse") == 0
			op.ViaNode = rapid.Bool().Draw(rt, "viaNode")
			op.MetaTTL = rapid.SampledFrom([]int{0, 0, 0, 2, 4, 10}).Draw(rt, "hmeta")
		case k < 84:
			op.Kind = vfC17OpRemove
			op.ViaNode = rapid.Bool().Draw(rt, "viaNode")
		default:
			op.Kind = vfC17OpAdvance
			op.AdvMs = 500 * rapid.SampledFrom([]int{1, 1, 2, 2, 3, 3, 4, 4, 5, 6, 7, 8, 10, 12, 16, 20, 24}).Draw(rt, "adv")
		}
		ops = append(ops, op)
	}
	return cfg, ops
}

func TestVF_C17(t *testing.T) {
	vfCheck(t, "C17", func(rt *rapid.T, c *vfCase) string {
		sinceWrap := vfC17Strict
		if c.IsKnown(vfC17KeySinceWrap) {
			sinceWrap = vfC17Flagged
		}
		cfg, ops := vfC17Gen(rt, sinceWrap)
		desc := vfC17Render(cfg, ops)
		c.Describe(desc)
		res := vfC17Exec(t, cfg, ops)
		if ex, ok := res.BugHits[vfC17BugSinceWrap]; ok {
			c.Known(vfC17KeySinceWrap, ex+" in "+desc)
		}
		for _, l := range res.Labels {
			c.Label(l)
		}
		if res.NT {
			c.Nontrivial("")
		}
		return res.Verdict
	})
}
