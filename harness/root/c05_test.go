package PKGNAME

// C05 — Nothing of a connection survives its end.
// A bystander connection is set up, a snapshot of every registry of the node is taken, then a subject connection
// runs ONE operation that is parked at a drawn gate, is ended by a drawn cause while parked, the gate is released
// and virtual time advanced. Oracle: the snapshot afterwards equals the snapshot before.

import (
	"context"
	"errors"
	"fmt"
	"runtime"
	"sort"
	"strings"
	"testing"
	"time"

	"github.com/centrifugal/centrifuge/internal/saferand"
	"github.com/centrifugal/protocol"
	"github.com/prometheus/client_golang/prometheus"
	dto "github.com/prometheus/client_model/go"
	"pgregory.net/rapid"
)

const (
	vfC05OpConnect = iota
	vfC05OpClientSub
	vfC05OpServerSub
	vfC05OpTick
	vfC05OpMapSub
	vfC05OpTrack
)

var vfC05OpNames = []string{"connect", "clientSubscribe", "serverSubscribe", "presenceTick", "mapSubscribe", "track"}

const (
	vfC05GConnecting = iota
	vfC05GCallback
	vfC05GBrokerSub
	vfC05GPresence
	vfC05GHistory
	vfC05GWrite
	vfC05GPublishJoin
	vfC05GMapState
	vfC05GMapPresence
	vfC05GTrack
)

var vfC05GateNames = []string{"connectingHandler", "subscribeCallback", "brokerSubscribe", "addPresence", "history",
	"replyWrite", "publishJoin", "mapStateRead", "mapPresencePublish", "trackHandler"}

const (
	vfC05CTransportClose = iota
	vfC05CClientDisconnect
	vfC05CNodeDisconnect
	vfC05CStale
	vfC05CSlow
	vfC05CWriteErr
	vfC05CExpire
)

var vfC05CauseNames = []string{"transportClose", "clientDisconnect", "nodeDisconnect", "staleTimer", "slowConsumer", "writeError", "expiry"}

var vfC05Chans = []string{"pa", "pb", "solo"}

type vfC05Case struct {
	Uni        bool
	Proto      ProtocolType
	RWQ        bool
	Conc       int
	SameUser   bool
	JoinLeave  bool
	Positioned bool
	MapPres    bool // stream subscriptions also carry MapClientPresenceChannel / MapUserPresenceChannel
	Op         int
	Gate       int
	GateCh     int
	Pre        int // bitmask over vfC05Chans: committed before the operation (connect op: connect-time subscriptions)
	PreMode    int // 0 connect-time server-side, 1 client-side commands
	Cause      int
	Hold       int // seconds between the close and the gate release (gates that hold no mutex only)
}

func (c vfC05Case) pre() []string {
	var out []string
	for i, ch := range vfC05Chans {
		if c.Pre&(1<<i) != 0 {
			out = append(out, ch)
		}
	}
	return out
}

func (c vfC05Case) String() string {
	return fmt.Sprintf("uni=%v proto=%s rwq=%v tickConcurrency=%d sameUser=%v joinLeave=%v positioned=%v mapPresence=%v pre=%v preMode=%d op=%s gate=%s gateCh=%s cause=%s hold=%ds",
		c.Uni, c.Proto, c.RWQ, c.Conc, c.SameUser, c.JoinLeave, c.Positioned, c.MapPres, c.pre(), c.PreMode,
		vfC05OpNames[c.Op], vfC05GateNames[c.Gate], vfC05Chans[c.GateCh], vfC05CauseNames[c.Cause], c.Hold)
}

// mutexHeld: the goroutine parked at this gate holds a sync.Mutex that close() needs (presenceMu for the tick,
// the writer mutexes for a transport write): never wait on the virtual clock while it is parked.
func (c vfC05Case) mutexHeld() bool {
	return c.Op == vfC05OpTick || c.Gate == vfC05GWrite
}

func vfC05Gen(rt *rapid.T) vfC05Case {
	c := vfC05Case{}
	c.Uni = rapid.IntRange(0, 3).Draw(rt, "uni") == 0
	c.Proto = rapid.SampledFrom([]ProtocolType{ProtocolTypeJSON, ProtocolTypeProtobuf}).Draw(rt, "proto")
	c.RWQ = rapid.Bool().Draw(rt, "rwq")
	c.Conc = rapid.SampledFrom([]int{0, 0, 3}).Draw(rt, "conc")
	c.SameUser = rapid.Bool().Draw(rt, "sameUser")
	c.JoinLeave = rapid.Bool().Draw(rt, "joinLeave")
	c.Positioned = rapid.Bool().Draw(rt, "positioned")
	c.MapPres = rapid.IntRange(0, 2).Draw(rt, "mapPres") == 0
	ops := []int{vfC05OpConnect, vfC05OpConnect, vfC05OpClientSub, vfC05OpClientSub, vfC05OpServerSub, vfC05OpTick, vfC05OpTick}
	if c.Uni {
		ops = []int{vfC05OpConnect, vfC05OpConnect, vfC05OpServerSub, vfC05OpTick}
	}
	c.Op = rapid.SampledFrom(ops).Draw(rt, "op")
	var gates []int
	switch c.Op {
	case vfC05OpConnect:
		gates = []int{vfC05GConnecting, vfC05GBrokerSub, vfC05GPresence, vfC05GHistory, vfC05GWrite}
	case vfC05OpClientSub:
		gates = []int{vfC05GCallback, vfC05GBrokerSub, vfC05GPresence, vfC05GHistory, vfC05GWrite}
	case vfC05OpServerSub:
		gates = []int{vfC05GBrokerSub, vfC05GPresence, vfC05GHistory, vfC05GWrite}
	case vfC05OpTick:
		gates = []int{vfC05GPresence}
	}
	if c.JoinLeave && c.Op != vfC05OpTick {
		gates = append(gates, vfC05GPublishJoin)
	}
	if c.MapPres && c.Op != vfC05OpTick {
		gates = append(gates, vfC05GMapPresence)
	}
	c.Gate = rapid.SampledFrom(gates).Draw(rt, "gate")
	if c.Gate == vfC05GHistory {
		c.Positioned = true
	}
	c.Pre = rapid.IntRange(0, 7).Draw(rt, "pre")
	c.GateCh = rapid.IntRange(0, 2).Draw(rt, "gateCh")
	if c.Gate == vfC05GBrokerSub {
		c.GateCh = 2 // only the subject subscribes to "solo", so its subscribe is the node's first and reaches the broker
	}
	c.PreMode = rapid.IntRange(0, 1).Draw(rt, "preMode")
	if c.Uni {
		c.PreMode = 0
	}
	switch c.Op {
	case vfC05OpConnect:
		c.PreMode = 0
		if c.Gate != vfC05GConnecting && c.Gate != vfC05GWrite {
			c.Pre |= 1 << c.GateCh
		}
	case vfC05OpClientSub, vfC05OpServerSub:
		c.Pre &^= 1 << c.GateCh
	case vfC05OpTick:
		if c.Pre == 0 {
			c.Pre = 1
		}
	}
	var causes []int
	switch {
	case c.Op == vfC05OpTick:
		causes = []int{vfC05CTransportClose, vfC05CClientDisconnect, vfC05CNodeDisconnect, vfC05CSlow, vfC05CWriteErr}
	case c.Gate == vfC05GWrite && c.Op == vfC05OpConnect:
		causes = []int{vfC05CTransportClose, vfC05CNodeDisconnect}
	case c.Gate == vfC05GWrite:
		causes = []int{vfC05CTransportClose, vfC05CClientDisconnect, vfC05CNodeDisconnect, vfC05CSlow}
	case c.Gate == vfC05GConnecting:
		causes = []int{vfC05CTransportClose, vfC05CStale, vfC05CWriteErr}
	case c.Op == vfC05OpConnect:
		causes = []int{vfC05CTransportClose, vfC05CNodeDisconnect, vfC05CWriteErr}
	default:
		causes = []int{vfC05CTransportClose, vfC05CClientDisconnect, vfC05CNodeDisconnect, vfC05CSlow, vfC05CWriteErr, vfC05CExpire}
	}
	c.Cause = rapid.SampledFrom(causes).Draw(rt, "cause")
	c.Hold = rapid.SampledFrom([]int{0, 0, 1, 6}).Draw(rt, "hold")
	if c.Op == vfC05OpConnect && c.Gate != vfC05GConnecting && len(c.pre()) >= 2 && c.Hold > 4 {
		// close() waits up to 5 s per reserved connect-time channel, one after the other; after the first timeout it
		// spawns a close() that blocks on connectMu (a mutex: not durable for synctest), so the virtual clock could
		// not advance through the second wait. Keep the hold below the first timeout for multi-channel connects.
		c.Hold = 4
	}
	return c
}

type vfC05Out struct {
	labels     []string
	nontrivial bool
	known      []string
	knownEx    string
}

// vfC05Presence gates AddPresence per (connection, channel): gate name "presence:<conn name>:<channel>".
type vfC05Presence struct {
	inner PresenceManager
	w     *vfWorld
}

func (p *vfC05Presence) Presence(ch string) (map[string]*ClientInfo, error) { return p.inner.Presence(ch) }
func (p *vfC05Presence) PresenceStats(ch string) (PresenceStats, error)      { return p.inner.PresenceStats(ch) }
func (p *vfC05Presence) AddPresence(ch string, clientID string, info *ClientInfo) error {
	if c := p.w.connByID(clientID); c != nil {
		p.w.Gates.Pass("presence:" + c.Name + ":" + ch)
	}
	return p.inner.AddPresence(ch, clientID, info)
}
func (p *vfC05Presence) RemovePresence(ch string, clientID string, userID string) error {
	return p.inner.RemovePresence(ch, clientID, userID)
}

func vfC05GaugeSum(g *prometheus.GaugeVec) float64 {
	ch := make(chan prometheus.Metric, 256)
	g.Collect(ch)
	close(ch)
	sum := 0.0
	for m := range ch {
		var d dto.Metric
		if err := m.Write(&d); err == nil && d.Gauge != nil {
			sum += d.Gauge.GetValue()
		}
	}
	return sum
}

// vfC05Snapshot renders every registry of the node that could keep a trace of a connection, one sorted line each.
func vfC05Snapshot(w *vfWorld, chans []string, extra func() []string) []string {
	name := func(id string) string {
		if c := w.connByID(id); c != nil {
			return c.Name
		}
		return id
	}
	var lines []string
	h := w.node.hub
	for _, sh := range h.connShards {
		sh.mu.RLock()
		for id, cl := range sh.clients {
			lines = append(lines, fmt.Sprintf("hub.client %s user=%s", name(id), cl.UserID()))
		}
		for u, set := range sh.users {
			var ids []string
			for id := range set {
				ids = append(ids, name(id))
			}
			sort.Strings(ids)
			lines = append(lines, fmt.Sprintf("hub.user %q -> %v", u, ids))
		}
		sh.mu.RUnlock()
	}
	h.sessionsMu.RLock()
	for _, cl := range h.sessions {
		lines = append(lines, "hub.session of "+name(cl.ID()))
	}
	h.sessionsMu.RUnlock()
	numSubs, counted := 0, 0
	for _, sh := range h.subShards {
		sh.mu.RLock()
		numSubs += sh.numSubs
		for ch, m := range sh.subs {
			if len(m) == 0 {
				lines = append(lines, "hub.sub "+ch+" <empty map kept>")
			}
			for id, si := range m {
				counted++
				lines = append(lines, fmt.Sprintf("hub.sub %s %s map=%v", ch, name(id), si.isMap))
			}
		}
		for ch := range sh.mapChannels {
			lines = append(lines, "hub.mapChannel "+ch)
		}
		sh.mu.RUnlock()
	}
	lines = append(lines, fmt.Sprintf("hub.numSubs counter=%d entries=%d", numSubs, counted))
	for _, ch := range chans {
		pr, err := w.node.Presence(ch)
		if err != nil {
			lines = append(lines, fmt.Sprintf("presence %s error %v", ch, err))
		}
		for id, ci := range pr.Presence {
			lines = append(lines, fmt.Sprintf("presence %s %s user=%s conn=%s chan=%s", ch, name(id), ci.UserID, ci.ConnInfo, ci.ChanInfo))
		}
		st, _ := w.node.PresenceStats(ch)
		lines = append(lines, fmt.Sprintf("presence.stats %s clients=%d users=%d", ch, st.NumClients, st.NumUsers))
		lines = append(lines, fmt.Sprintf("broker.subscribed %s=%v", ch, w.broker.BrokerSubscribed(ch)))
	}
	lines = append(lines, fmt.Sprintf("gauge.connectionsInflight=%v", vfC05GaugeSum(w.node.metrics.connectionsInflight)))
	lines = append(lines, fmt.Sprintf("gauge.subscriptionsInflight=%v", vfC05GaugeSum(w.node.metrics.subscriptionsInflight)))
	if extra != nil {
		lines = append(lines, extra()...)
	}
	sort.Strings(lines)
	return lines
}

func vfC05Diff(before, after []string) string {
	b := map[string]int{}
	for _, l := range before {
		b[l]++
	}
	var leaked, lost []string
	for _, l := range after {
		if b[l] > 0 {
			b[l]--
		} else {
			leaked = append(leaked, l)
		}
	}
	for _, l := range before {
		if b[l] > 0 {
			b[l]--
			lost = append(lost, l)
		}
	}
	if len(leaked) == 0 && len(lost) == 0 {
		return ""
	}
	return fmt.Sprintf("present only after the connection ended: %v; present only before it was created: %v", leaked, lost)
}

func vfC05Spin() {
	for i := 0; i < 400; i++ {
		runtime.Gosched()
	}
}

func vfC05Run(t *testing.T, cs vfC05Case, out *vfC05Out, isKnown func(string) bool) string {
	return vfBubble(t, func() string {
		randSource = saferand.New(7) // first presence tick offset: deterministic per case
		cfg := Config{
			ClientPresenceUpdateInterval:    10 * time.Second,
			ClientStaleCloseDelay:           5 * time.Second,
			ClientQueueMaxSize:              4096,
			clientPresenceUpdateConcurrency: cs.Conc,
		}
		// A leaked map client-presence key would expire after KeyTTL: keep it far beyond the settle time of a case.
		cfg.Map.GetMapChannelOptions = func(ch string) MapChannelOptions {
			return MapChannelOptions{Mode: MapModeRecoverable, KeyTTL: 120 * time.Second}
		}
		var mapHook func(op, ch, key string)
		var innerMap *MemoryMapBroker
		w, err := vfNewWorld(cfg, func(w *vfWorld) {
			mb, err := NewMemoryMapBroker(w.node, MemoryMapBrokerConfig{})
			if err != nil {
				panic(err)
			}
			innerMap = mb
			w.node.SetMapBroker(&vfC05MapBroker{MapBroker: mb, hook: &mapHook})
		})
		if err != nil {
			return "infra: " + err.Error()
		}
		defer w.Close()
		mapHook = func(op, ch, key string) { w.Gates.Pass("map_" + op + ":" + ch + ":" + key) }
		w.node.SetPresenceManager(&vfC05Presence{inner: w.node.presenceManager, w: w})
		time.Sleep(500 * time.Millisecond)

		subOpts := func(ch string) SubscribeOptions {
			o := SubscribeOptions{EmitPresence: true, EmitJoinLeave: cs.JoinLeave, EnablePositioning: cs.Positioned,
				ChannelInfo: []byte(`{"c":"` + ch + `"}`)}
			if cs.MapPres {
				o.MapClientPresenceChannel = ch + ":clients"
				o.MapUserPresenceChannel = ch + ":users"
			}
			return o
		}
		subjectUser, bystanderUser := "us", "ub"
		if cs.SameUser {
			bystanderUser = "us"
		}
		var connectSubs []string // connect-time subscriptions of the subject
		expireAt := int64(0)
		w.Connecting = func(c *vfConn, e ConnectEvent) (ConnectReply, error) {
			w.Gates.Pass("connecting:" + c.Name)
			r := ConnectReply{Credentials: &Credentials{UserID: c.User, Info: []byte(`{"n":"` + c.Name + `"}`)}, ReplyWithoutQueue: cs.RWQ}
			if c.Name == "s" {
				r.Credentials.ExpireAt = expireAt
				if len(connectSubs) > 0 {
					r.Subscriptions = map[string]SubscribeOptions{}
					for _, ch := range connectSubs {
						r.Subscriptions[ch] = subOpts(ch)
					}
				}
			}
			return r, nil
		}
		w.OnSubscribe = func(c *vfConn, e SubscribeEvent, cb SubscribeCallback) {
			rep := SubscribeReply{Options: subOpts(e.Channel)}
			if c.Name == "s" && cs.Gate == vfC05GCallback && e.Channel == vfC05Chans[cs.GateCh] {
				go func() {
					w.Gates.Pass("cb:" + e.Channel)
					cb(rep, nil)
				}()
				return
			}
			cb(rep, nil)
		}
		w.broker.Hook = func(op, phase, ch string) error {
			if phase == "before" {
				w.Gates.Pass(op + ":" + ch)
			}
			return nil
		}

		// ---- bystander ----------------------------------------------------------------------------------------
		by := w.NewConn(vfConnCfg{Name: "b", User: bystanderUser, Proto: cs.Proto})
		by.Connect(nil)
		for _, ch := range []string{"pa", "pb"} {
			by.Cmd(&protocol.Command{Id: by.NextID(), Subscribe: &protocol.SubscribeRequest{Channel: ch}})
		}
		vfSettle()
		if len(by.Client.Channels()) != 2 {
			return "infra: bystander not subscribed; frames: " + vfRenderFrames(by.Frames())
		}
		allChans := append([]string{}, vfC05Chans...)
		extra := func() []string { return nil }
		if cs.MapPres {
			extra = func() []string {
				var lines []string
				for _, ch := range vfC05Chans {
					res, err := innerMap.ReadState(context.Background(), ch+":clients", MapReadStateOptions{Limit: -1})
					if err != nil {
						lines = append(lines, fmt.Sprintf("map.clients %s error %v", ch, err))
						continue
					}
					for _, p := range res.Publications {
						id := p.Key
						if c := w.connByID(id); c != nil {
							id = c.Name
						}
						lines = append(lines, fmt.Sprintf("map.clients %s key=%s", ch, id))
					}
				}
				return lines
			}
		}
		before := vfC05Snapshot(w, allChans, extra)

		// ---- subject ------------------------------------------------------------------------------------------
		conn := w.NewConn(vfConnCfg{Name: "s", User: subjectUser, Proto: cs.Proto, Uni: cs.Uni})
		gateCh := vfC05Chans[cs.GateCh]
		if cs.Cause == vfC05CExpire {
			expireAt = time.Now().Unix() + 4
		}
		var gateNames []string
		switch cs.Gate {
		case vfC05GConnecting:
			gateNames = []string{"connecting:s"}
		case vfC05GCallback:
			gateNames = []string{"cb:" + gateCh}
		case vfC05GBrokerSub:
			gateNames = []string{"subscribe:" + gateCh}
		case vfC05GPresence:
			gateNames = []string{"presence:s:" + gateCh}
			if cs.Op == vfC05OpTick {
				gateNames = nil
				for _, ch := range cs.pre() {
					gateNames = append(gateNames, "presence:s:"+ch)
				}
			}
		case vfC05GHistory:
			gateNames = []string{"history:" + gateCh}
		case vfC05GWrite:
			gateNames = []string{"write:s"}
		case vfC05GPublishJoin:
			gateNames = []string{"publish_join:" + gateCh}
		case vfC05GMapPresence:
			gateNames = []string{"map_publish:" + gateCh + ":clients:" + conn.Client.ID()}
		}
		arm := func() {
			for _, g := range gateNames {
				w.Gates.Arm(g, 1)
			}
		}
		parkedAt := func() int {
			n := 0
			for _, g := range gateNames {
				n += w.Gates.Waiting(g)
			}
			return n
		}
		release := func() {
			for _, g := range gateNames {
				w.Gates.Disarm(g)
				for w.Gates.Release(g) {
				}
			}
		}
		serverOpts := func(ch string) []SubscribeOption {
			o := subOpts(ch)
			return []SubscribeOption{func(so *SubscribeOptions) { *so = o }}
		}
		isClosed := func() bool {
			conn.Client.mu.RLock()
			defer conn.Client.mu.RUnlock()
			return conn.Client.status == statusClosed
		}

		if cs.Op == vfC05OpConnect {
			connectSubs = cs.pre()
			arm()
			go conn.Connect(nil)
			vfSettle()
		} else {
			pre := cs.pre()
			if cs.PreMode == 0 {
				connectSubs = pre
			}
			conn.Connect(nil)
			vfSettle()
			if cs.PreMode == 1 {
				for _, ch := range pre {
					conn.Cmd(&protocol.Command{Id: conn.NextID(), Subscribe: &protocol.SubscribeRequest{Channel: ch}})
				}
				vfSettle()
			}
			if got := len(conn.Client.Channels()); got != len(pre) {
				return fmt.Sprintf("infra: subject committed %d of %d pre-subscriptions; frames: %s", got, len(pre), vfRenderFrames(conn.Frames()))
			}
			switch cs.Op {
			case vfC05OpClientSub:
				arm()
				go conn.Cmd(&protocol.Command{Id: conn.NextID(), Subscribe: &protocol.SubscribeRequest{Channel: gateCh}})
				vfSettle()
			case vfC05OpServerSub:
				arm()
				go func() { _ = conn.Client.Subscribe(gateCh, serverOpts(gateCh)...) }()
				vfSettle()
			case vfC05OpTick:
				arm()
				time.Sleep(10 * time.Second) // the first tick fires in [interval/2, interval)
				vfSettle()
			}
		}
		parked := parkedAt() > 0
		if !parked {
			out.labels = append(out.labels, "gate_not_reached")
		}

		// ---- end the connection while the operation is parked ---------------------------------------------------
		switch cs.Cause {
		case vfC05CTransportClose:
			go conn.TransportClose()
		case vfC05CClientDisconnect:
			conn.Client.Disconnect(DisconnectForceReconnect)
		case vfC05CNodeDisconnect:
			_ = w.node.Disconnect(subjectUser, WithDisconnectClient(conn.Client.ID()))
		case vfC05CStale:
			time.Sleep(5*time.Second + 100*time.Millisecond)
		case vfC05CSlow:
			go func() { _ = conn.Client.Send(make([]byte, 8000)) }()
		case vfC05CWriteErr:
			conn.T.SetWriteErr(errors.New("vf: injected write error"))
			if cs.Op != vfC05OpConnect {
				go func() { _ = conn.Client.Send([]byte(`{}`)) }()
			}
		case vfC05CExpire:
			time.Sleep(4*time.Second + 100*time.Millisecond)
		}
		closedWhileParked := false
		if cs.mutexHeld() && parked {
			vfC05Spin()
			closedWhileParked = isClosed() && parkedAt() > 0
			release()
			vfSettle()
		} else {
			vfSettle()
			closedWhileParked = parked && isClosed() && parkedAt() > 0
			if cs.Hold > 0 {
				time.Sleep(time.Duration(cs.Hold) * time.Second)
				vfSettle()
			}
			release()
			vfSettle()
		}
		if !isClosed() {
			out.labels = append(out.labels, "closed_only_after_release")
			conn.TransportClose()
			vfSettle()
		}
		// settle: unsubscribe waits (5 s), dissolver (1 s); memory presence has no TTL, so a leaked entry is never masked
		time.Sleep(7 * time.Second)
		vfSettle()
		time.Sleep(9 * time.Second)
		vfSettle()

		if closedWhileParked {
			out.nontrivial = true
			out.labels = append(out.labels, "closed_while_parked")
			out.labels = append(out.labels, "gate="+vfC05GateNames[cs.Gate]+"/op="+vfC05OpNames[cs.Op])
			out.labels = append(out.labels, "cause="+vfC05CauseNames[cs.Cause])
		}
		if closed, _ := by.T.Closed(); closed {
			return "the bystander connection was closed; frames: " + vfRenderFrames(by.Frames())
		}
		after := vfC05Snapshot(w, allChans, extra)
		postCommitOverlap := (closedWhileParked && (cs.Gate == vfC05GMapPresence || cs.Gate == vfC05GPublishJoin)) ||
			(cs.Op == vfC05OpConnect && cs.Cause == vfC05CWriteErr)
		if cs.MapPres && postCommitOverlap {
			// close() overlapped publishJoinAndPresence, which runs AFTER the commit: either the operation was parked
			// inside it, or the failing connect-reply write spawned close() right before connectCmd reached it
			// (scheduler-dependent). close() already ran its removeMapPresence, then the late MapPublish re-creates
			// the client-presence key of the dead connection.
			key := "C05:map-client-presence-published-after-close"
			var kept []string
			hit := false
			for _, l := range after {
				if strings.HasPrefix(l, "map.clients ") && strings.HasSuffix(l, " key=s") {
					hit = true
					continue
				}
				kept = append(kept, l)
			}
			if hit {
				if isKnown(key) {
					out.known = append(out.known, key)
					out.knownEx = cs.String()
					after = kept
				} else {
					return "[" + key + "] " + vfC05Diff(before, after) + "; case " + cs.String()
				}
			}
		}
		if d := vfC05Diff(before, after); d != "" {
			return fmt.Sprintf("node state differs after the subject connection ended (closedWhileParked=%v): %s; subject frames: %s", closedWhileParked, d, vfRenderFrames(conn.Frames()))
		}
		conn.Client.mu.RLock()
		var left []string
		for ch := range conn.Client.channels {
			left = append(left, ch)
		}
		nMap := len(conn.Client.mapSubscribing)
		conn.Client.mu.RUnlock()
		sort.Strings(left)
		if len(left) > 0 || nMap > 0 {
			return fmt.Sprintf("closed client still holds channels=%v mapSubscribing=%d", left, nMap)
		}
		return ""
	})
}

// vfC05MapBroker wraps the map broker so that Publish can be parked per (channel, key).
type vfC05MapBroker struct {
	MapBroker
	hook *func(op, ch, key string)
}

func (b *vfC05MapBroker) Close(ctx context.Context) error {
	if c, ok := b.MapBroker.(Closer); ok {
		return c.Close(ctx)
	}
	return nil
}

func (b *vfC05MapBroker) Publish(ctx context.Context, ch string, key string, opts MapPublishOptions) (MapUpdateResult, error) {
	if h := *b.hook; h != nil {
		h("publish", ch, key)
	}
	return b.MapBroker.Publish(ctx, ch, key, opts)
}

func TestVF_C05(t *testing.T) {
	vfCheck(t, "C05", func(rt *rapid.T, c *vfCase) string {
		cs := vfC05Gen(rt)
		c.Describe(cs.String())
		out := &vfC05Out{}
		msg := vfC05Run(t, cs, out, c.IsKnown)
		seen := map[string]bool{}
		for _, l := range out.labels {
			if !seen[l] {
				seen[l] = true
				c.Label(l)
			}
		}
		for _, k := range out.known {
			c.Known(k, out.knownEx)
		}
		if out.nontrivial {
			c.Nontrivial(c.desc)
		}
		return msg
	})
}
