package PKGNAME

// C20 — Memory map broker implements the map-state specification.
//
// A real MemoryMapBroker (constructed on a real Node, recording BrokerEventHandler) runs inside a synctest bubble and
// is driven by a drawn script of operations; a reference map written from the MapBroker documentation (map_broker.go)
// is run in lock-step. After every operation the result, the delivery log, and (for reads) the returned state/stream
// are compared. Time only moves in explicit "advance" steps; after each of them the permitted nondeterminism of the
// housekeeping sweeps (key expiry within [deadline, deadline+2s), stream/meta expiry not before their TTL) is resolved
// from observations (delivery log, side-effect-free peek at the retained stream offsets / channel existence).

import (
	"context"
	"errors"
	"fmt"
	"sort"
	"strings"
	"sync"
	"sync/atomic"
	"testing"
	"time"

	"pgregory.net/rapid"
)

// ---------------------------------------------------------------------------------------------------------------
// generated case

type vfC20Cfg struct {
	Mode       MapMode
	Ordered    bool
	KeyTTL     time.Duration
	StreamSize int
	StreamTTL  time.Duration
	MetaTTL    time.Duration
}

const (
	vfC20Publish = iota
	vfC20Remove
	vfC20Clear
	vfC20ReadState
	vfC20ReadStream
	vfC20Stats
	vfC20Advance
)

type vfC20Op struct {
	Kind int
	Ch   int
	Key  int
	// publish / remove
	KeyMode KeyMode
	CAS     int // 0 none, 1 current entry, 2 entry offset-1, 3 stale epoch, 4 channel top, 5 zero, 6 empty epoch
	Version uint64
	VEpoch  string
	Idem    string
	IdemTTL time.Duration
	Refresh bool
	Score   int64
	Tags    int // 0 nil, 1 {"t":"x"}, 2 {"t":"y","u":"1"}, 3 empty non-nil
	Delta   bool
	Info    bool
	// read state
	ByKey bool
	Limit int
	Asc   bool
	Rev   int // 0 none, 1 current epoch, 2 stale epoch
	// read stream
	Since      int // 0 nil, 1.. offset kinds
	SinceEpoch int // 0 "", 1 current, 2 stale
	Reverse    bool
	// advance
	D time.Duration
}

var vfC20Tags = []map[string]string{nil, {"t": "x"}, {"t": "y", "u": "1"}, {}}

func vfC20CopyTags(i int) map[string]string {
	src := vfC20Tags[i]
	if src == nil {
		return nil
	}
	out := map[string]string{}
	for k, v := range src {
		out[k] = v
	}
	return out
}

func vfC20GenCfg(rt *rapid.T, i int) vfC20Cfg {
	l := fmt.Sprintf("ch%d_", i)
	c := vfC20Cfg{}
	c.Mode = rapid.SampledFrom([]MapMode{MapModeRecoverable, MapModePersistent, MapModeEphemeral, MapModeRecoverable}).Draw(rt, l+"mode")
	c.Ordered = rapid.Bool().Draw(rt, l+"ordered")
	if c.Mode.HasExpiry() {
		c.KeyTTL = rapid.SampledFrom([]time.Duration{time.Hour, 2 * time.Second, 5 * time.Second, 1500 * time.Millisecond}).Draw(rt, l+"keyTTL")
	}
	if c.Mode.HasStream() {
		c.StreamSize = rapid.SampledFrom([]int{2, 1, 3, 4, 5, 0}).Draw(rt, l+"streamSize")
		c.StreamTTL = rapid.SampledFrom([]time.Duration{0, time.Hour, 3 * time.Second, 10 * time.Second}).Draw(rt, l+"streamTTL")
		if c.Mode == MapModeRecoverable {
			// explicit MetaTTL must be >= StreamTTL (resolved) and >= KeyTTL
			st := c.StreamTTL
			if st == 0 {
				st = time.Minute
			}
			lo := st
			if c.KeyTTL > lo {
				lo = c.KeyTTL
			}
			switch rapid.IntRange(0, 2).Draw(rt, l+"metaTTL") {
			case 0:
				c.MetaTTL = 0 // auto-derived
			case 1:
				c.MetaTTL = lo
			case 2:
				c.MetaTTL = lo + 4*time.Second
			}
		}
	}
	return c
}

func vfC20GenOp(rt *rapid.T, nCh, nKeys int) vfC20Op {
	op := vfC20Op{}
	op.Kind = rapid.SampledFrom([]int{
		vfC20Publish, vfC20Publish, vfC20Publish, vfC20Publish, vfC20Publish, vfC20Publish, vfC20Publish,
		vfC20Remove, vfC20Remove, vfC20ReadState, vfC20ReadState, vfC20ReadStream, vfC20ReadStream,
		vfC20Advance, vfC20Advance, vfC20Stats, vfC20Clear,
	}).Draw(rt, "kind")
	if op.Kind == vfC20Clear && rapid.IntRange(0, 2).Draw(rt, "clearKeep") != 0 {
		op.Kind = vfC20Publish // clears are kept rare
	}
	op.Ch = rapid.IntRange(0, nCh-1).Draw(rt, "ch")
	switch op.Kind {
	case vfC20Publish, vfC20Remove:
		op.Key = rapid.IntRange(0, nKeys-1).Draw(rt, "key")
		op.CAS = rapid.SampledFrom([]int{0, 0, 0, 0, 1, 1, 2, 3, 4, 5, 6}).Draw(rt, "cas")
		op.Idem = rapid.SampledFrom([]string{"", "", "", "i0", "i1", "i0"}).Draw(rt, "idem")
		if op.Idem != "" {
			op.IdemTTL = rapid.SampledFrom([]time.Duration{0, 2 * time.Second, 10 * time.Second}).Draw(rt, "idemTTL")
		}
		op.Tags = rapid.IntRange(0, 3).Draw(rt, "tags")
		if op.Kind == vfC20Publish {
			op.KeyMode = rapid.SampledFrom([]KeyMode{KeyModeReplace, KeyModeReplace, KeyModeIfNew, KeyModeIfExists, KeyModeIfNew}).Draw(rt, "keyMode")
			op.Version = rapid.SampledFrom([]uint64{0, 0, 0, 1, 2, 3, 4, ^uint64(0), ^uint64(0) - 1}).Draw(rt, "version")
			if op.Version != 0 {
				op.VEpoch = rapid.SampledFrom([]string{"", "e1", "e2", ""}).Draw(rt, "vepoch")
			}
			op.Refresh = rapid.Bool().Draw(rt, "refresh")
			op.Score = rapid.SampledFrom([]int64{0, 1, 1, 2, -3, 9223372036854775807, -9223372036854775808}).Draw(rt, "score")
			op.Delta = rapid.Bool().Draw(rt, "delta")
			op.Info = rapid.IntRange(0, 3).Draw(rt, "info") == 0
		}
	case vfC20ReadState:
		op.ByKey = rapid.IntRange(0, 2).Draw(rt, "byKey") == 0
		op.Key = rapid.IntRange(0, nKeys-1).Draw(rt, "key")
		op.Limit = rapid.SampledFrom([]int{-1, 1, 2, 3, 10, 0}).Draw(rt, "limit")
		op.Asc = rapid.Bool().Draw(rt, "asc")
		op.Rev = rapid.SampledFrom([]int{0, 0, 1, 1, 2}).Draw(rt, "rev")
	case vfC20ReadStream:
		op.Since = rapid.SampledFrom([]int{0, 0, 1, 2, 3, 4, 5, 6, 7, 8}).Draw(rt, "since")
		op.SinceEpoch = rapid.SampledFrom([]int{0, 1, 1, 2}).Draw(rt, "sinceEpoch")
		op.Limit = rapid.SampledFrom([]int{-1, 1, 2, 10, 0}).Draw(rt, "limit")
		op.Reverse = rapid.IntRange(0, 2).Draw(rt, "reverse") == 0
	case vfC20Advance:
		op.D = rapid.SampledFrom([]time.Duration{
			time.Millisecond, 400 * time.Millisecond, time.Second, 1100 * time.Millisecond, 2500 * time.Millisecond,
			4 * time.Second, 9 * time.Second, 70 * time.Second, 11 * time.Minute,
		}).Draw(rt, "d")
	}
	return op
}

func (op vfC20Op) String() string {
	switch op.Kind {
	case vfC20Publish:
		s := fmt.Sprintf("pub(c%d,k%d", op.Ch, op.Key)
		if op.KeyMode != "" {
			s += "," + string(op.KeyMode)
		}
		if op.CAS != 0 {
			s += fmt.Sprintf(",cas%d", op.CAS)
		}
		if op.Version != 0 {
			s += fmt.Sprintf(",v%d@%q", op.Version, op.VEpoch)
		}
		if op.Idem != "" {
			s += fmt.Sprintf(",%s/%s", op.Idem, op.IdemTTL)
		}
		if op.Refresh {
			s += ",refresh"
		}
		if op.Delta {
			s += ",delta"
		}
		return s + fmt.Sprintf(",s%d,t%d)", op.Score, op.Tags)
	case vfC20Remove:
		s := fmt.Sprintf("rm(c%d,k%d", op.Ch, op.Key)
		if op.CAS != 0 {
			s += fmt.Sprintf(",cas%d", op.CAS)
		}
		if op.Idem != "" {
			s += fmt.Sprintf(",%s/%s", op.Idem, op.IdemTTL)
		}
		return s + fmt.Sprintf(",t%d)", op.Tags)
	case vfC20Clear:
		return fmt.Sprintf("clear(c%d)", op.Ch)
	case vfC20ReadState:
		if op.ByKey {
			return fmt.Sprintf("state(c%d,key=k%d,rev%d)", op.Ch, op.Key, op.Rev)
		}
		return fmt.Sprintf("state(c%d,limit=%d,asc=%v,rev%d)", op.Ch, op.Limit, op.Asc, op.Rev)
	case vfC20ReadStream:
		return fmt.Sprintf("stream(c%d,since%d/e%d,limit=%d,rev=%v)", op.Ch, op.Since, op.SinceEpoch, op.Limit, op.Reverse)
	case vfC20Stats:
		return fmt.Sprintf("stats(c%d)", op.Ch)
	case vfC20Advance:
		return fmt.Sprintf("advance(%s)", op.D)
	}
	return "?"
}

// ---------------------------------------------------------------------------------------------------------------
// shared node + recorder

var (
	vfC20NodeOnce sync.Once
	vfC20NodeVal  *Node
	vfC20NodeErr  error
	vfC20Opts     atomic.Pointer[map[string]MapChannelOptions]
)

// vfC20Node returns one never-Run Node for the whole process: the broker only reads its config, metrics and logger.
func vfC20Node() (*Node, error) {
	vfC20NodeOnce.Do(func() {
		vfC20NodeVal, vfC20NodeErr = New(Config{Map: MapConfig{GetMapChannelOptions: func(ch string) MapChannelOptions {
			return (*vfC20Opts.Load())[ch]
		}}})
	})
	return vfC20NodeVal, vfC20NodeErr
}

type vfC20Delivery struct {
	Ch    string
	Pub   Publication // snapshot at delivery time
	SP    StreamPosition
	Delta bool
	Prev  *Publication
}

type vfC20Rec struct {
	mu  sync.Mutex
	log []vfC20Delivery
}

func (r *vfC20Rec) HandlePublication(ch string, pub *Publication, sp StreamPosition, delta bool, prev *Publication) error {
	r.mu.Lock()
	defer r.mu.Unlock()
	d := vfC20Delivery{Ch: ch, SP: sp, Delta: delta, Prev: prev}
	if pub != nil {
		d.Pub = *pub
	}
	r.log = append(r.log, d)
	return nil
}
func (r *vfC20Rec) HandleJoin(string, *ClientInfo) error  { return nil }
func (r *vfC20Rec) HandleLeave(string, *ClientInfo) error { return nil }

func (r *vfC20Rec) take(from int) []vfC20Delivery {
	r.mu.Lock()
	defer r.mu.Unlock()
	out := make([]vfC20Delivery, len(r.log)-from)
	copy(out, r.log[from:])
	return out
}

// ---------------------------------------------------------------------------------------------------------------
// reference map (written from the MapBroker / MapPublishOptions / MapRemoveOptions / MapReadStateOptions docs)

type vfC20Entry struct {
	Key      string
	Data     string
	Tags     map[string]string
	Score    int64
	Offset   uint64
	Version  uint64
	VEpoch   string
	ExpireAt int64 // ms, 0 = never
	HasInfo  bool
}

type vfC20SE struct {
	Offset  uint64
	Key     string
	Removed bool
	Data    string
	Tags    map[string]string
}

type vfC20Idem struct {
	Pos StreamPosition
	Exp int64
}

type vfC20Chan struct {
	name string
	cfg  vfC20Cfg // resolved (defaults applied)

	exists     bool
	epoch      string // "" = not yet observed since (re)creation
	pastEpochs []string
	top        uint64
	stream     []vfC20SE
	state      map[string]*vfC20Entry

	streamMayClear int64 // earliest instant the stream TTL sweep may clear the stream (0 = never)
	metaMayExpire  int64 // earliest instant the channel may be dropped by the meta TTL (0 = never)
	idem           map[string]vfC20Idem
	wasReset       bool // a clear / expiry / meta drop happened (non-triviality)
}

func vfC20Resolve(c vfC20Cfg) vfC20Cfg {
	if c.Mode.HasStream() {
		if c.StreamSize == 0 {
			c.StreamSize = 100
		}
		if c.StreamTTL == 0 {
			c.StreamTTL = time.Minute
		}
		if c.MetaTTL == 0 && c.Mode.HasExpiry() {
			c.MetaTTL = c.StreamTTL * 10
			if c.KeyTTL > 0 && c.MetaTTL < c.KeyTTL {
				c.MetaTTL = c.KeyTTL
			}
		}
	}
	return c
}

func (c *vfC20Chan) reset() {
	if c.epoch != "" {
		c.pastEpochs = append(c.pastEpochs, c.epoch)
	}
	c.exists = false
	c.epoch = ""
	c.top = 0
	c.stream = nil
	c.state = map[string]*vfC20Entry{}
	c.streamMayClear = 0
	c.metaMayExpire = 0
	c.wasReset = true
}

// create marks the channel object as existing (an epoch is minted by the first access).
func (c *vfC20Chan) create() { c.exists = true }

// observe checks / learns the epoch reported by the implementation for an existing channel.
func (c *vfC20Chan) observe(ep string) string {
	if ep == "" {
		return "empty epoch reported for an existing channel"
	}
	if c.epoch == "" {
		for _, p := range c.pastEpochs {
			if p == ep {
				return fmt.Sprintf("epoch %q reused after the channel was reset", ep)
			}
		}
		c.epoch = ep
		return ""
	}
	if c.epoch != ep {
		return fmt.Sprintf("epoch changed from %q to %q without a reset", c.epoch, ep)
	}
	return ""
}

func (c *vfC20Chan) refreshMeta(now int64) {
	if c.cfg.MetaTTL > 0 {
		c.metaMayExpire = now + c.cfg.MetaTTL.Milliseconds()
	}
}

func (c *vfC20Chan) appendStream(e vfC20SE) {
	c.stream = append(c.stream, e)
	for len(c.stream) > c.cfg.StreamSize {
		c.stream = c.stream[1:]
	}
}

type vfC20Expect struct {
	Err        bool
	Suppressed bool
	Reason     SuppressReason
	PosKnown   bool // Position fully predicted (offset); epoch checked through observe unless PosExact
	PosExact   *StreamPosition
	Offset     uint64
	Current    *MapCurrentEntry
	NoCurrent  bool
	Deliver    bool
	// delivery expectation
	DKey     string
	DData    string
	DTags    map[string]string
	DRemoved bool
	DScore   int64
	DInfo    bool
	DDelta   bool
	DPrev    *string // data of the previous entry, nil = no prev
	// unknown-channel remove: zero position allowed
	ZeroPosOK bool
}

func (c *vfC20Chan) resolveCAS(kind int, key string) *StreamPosition {
	if kind == 0 {
		return nil
	}
	ep := c.epoch
	if ep == "" {
		ep = "unknownEp"
	}
	off := c.top
	if e, ok := c.state[key]; ok {
		off = e.Offset
	}
	stale := "zzzzzzzz"
	if len(c.pastEpochs) > 0 {
		stale = c.pastEpochs[len(c.pastEpochs)-1]
	}
	switch kind {
	case 1:
		return &StreamPosition{Offset: off, Epoch: ep}
	case 2:
		if off == 0 {
			return &StreamPosition{Offset: off + 1, Epoch: ep}
		}
		return &StreamPosition{Offset: off - 1, Epoch: ep}
	case 3:
		return &StreamPosition{Offset: off, Epoch: stale}
	case 4:
		return &StreamPosition{Offset: c.top, Epoch: ep}
	case 5:
		return &StreamPosition{}
	default:
		return &StreamPosition{Offset: off, Epoch: ""}
	}
}

func (c *vfC20Chan) idemHit(key string, now int64) (StreamPosition, bool) {
	if key == "" {
		return StreamPosition{}, false
	}
	e, ok := c.idem[key]
	if !ok || e.Exp <= now {
		return StreamPosition{}, false
	}
	return e.Pos, true
}

func vfC20IdemTTLms(d time.Duration) int64 {
	if d == 0 {
		return 300 * 1000
	}
	return d.Milliseconds()
}

// publish applies a publish to the model and returns the expected outcome. idemSave is applied by the caller once
// the real epoch is known (the cached position includes the epoch).
func (c *vfC20Chan) publish(op vfC20Op, key, data string, cas *StreamPosition, now int64) (x vfC20Expect, saveIdem bool) {
	if c.cfg.Mode.IsEphemeral() && (cas != nil || op.Version > 0) {
		return vfC20Expect{Err: true}, false
	}
	if pos, ok := c.idemHit(op.Idem, now); ok {
		return vfC20Expect{Suppressed: true, Reason: SuppressReasonIdempotency, PosExact: &pos}, false
	}
	c.create()
	existing, exists := c.state[key]
	// 1. version
	if c.cfg.Mode.HasStream() && op.Version > 0 && exists {
		if (op.VEpoch == "" || op.VEpoch == existing.VEpoch) && op.Version <= existing.Version {
			return vfC20Expect{Suppressed: true, Reason: SuppressReasonVersion, PosKnown: true, Offset: c.top, NoCurrent: true}, false
		}
	}
	// 2. key mode
	if op.KeyMode == KeyModeIfNew && exists {
		if op.Refresh && c.cfg.KeyTTL > 0 {
			existing.ExpireAt = now + c.cfg.KeyTTL.Milliseconds()
			c.refreshMeta(now)
		}
		return vfC20Expect{Suppressed: true, Reason: SuppressReasonKeyExists, PosKnown: true, Offset: c.top, NoCurrent: true}, false
	}
	if op.KeyMode == KeyModeIfExists && !exists {
		return vfC20Expect{Suppressed: true, Reason: SuppressReasonKeyNotFound, PosKnown: true, Offset: c.top, NoCurrent: true}, false
	}
	// 3. compare-and-swap
	if cas != nil {
		if !exists {
			return vfC20Expect{Suppressed: true, Reason: SuppressReasonPositionMismatch, PosKnown: true, Offset: c.top, NoCurrent: true}, false
		}
		if existing.Offset != cas.Offset || c.epoch != cas.Epoch {
			return vfC20Expect{Suppressed: true, Reason: SuppressReasonPositionMismatch, PosKnown: true, Offset: c.top,
				Current: &MapCurrentEntry{Offset: existing.Offset, Data: []byte(existing.Data)}}, false
		}
	}
	// apply
	x = vfC20Expect{PosKnown: true, Deliver: true, DKey: key, DData: data, DTags: vfC20Tags[op.Tags], DScore: op.Score,
		DInfo: op.Info, DDelta: op.Delta, NoCurrent: true}
	if op.Delta && exists {
		d := existing.Data
		x.DPrev = &d
	}
	var off uint64
	if c.cfg.Mode.HasStream() {
		c.top++
		off = c.top
		c.appendStream(vfC20SE{Offset: off, Key: key, Data: data, Tags: vfC20Tags[op.Tags]})
		c.streamMayClear = now + c.cfg.StreamTTL.Milliseconds()
		c.refreshMeta(now)
	}
	x.Offset = off
	ne := &vfC20Entry{Key: key, Data: data, Tags: vfC20Tags[op.Tags], Score: op.Score, Offset: off, Version: op.Version,
		VEpoch: op.VEpoch, HasInfo: op.Info}
	if op.Version == 0 && exists {
		ne.Version, ne.VEpoch = existing.Version, existing.VEpoch
	}
	if c.cfg.KeyTTL > 0 {
		ne.ExpireAt = now + c.cfg.KeyTTL.Milliseconds()
	}
	c.state[key] = ne
	return x, op.Idem != ""
}

func (c *vfC20Chan) remove(op vfC20Op, key string, cas *StreamPosition, now int64) (x vfC20Expect, saveIdem bool) {
	if c.cfg.Mode.IsEphemeral() && cas != nil {
		return vfC20Expect{Err: true}, false
	}
	if pos, ok := c.idemHit(op.Idem, now); ok {
		return vfC20Expect{Suppressed: true, Reason: SuppressReasonIdempotency, PosExact: &pos}, false
	}
	if !c.exists {
		r := SuppressReasonKeyNotFound
		if cas != nil {
			r = SuppressReasonPositionMismatch
		}
		return vfC20Expect{Suppressed: true, Reason: r, ZeroPosOK: true, NoCurrent: true}, false
	}
	existing, exists := c.state[key]
	if cas != nil {
		if !exists {
			return vfC20Expect{Suppressed: true, Reason: SuppressReasonPositionMismatch, PosKnown: true, Offset: c.top, NoCurrent: true}, false
		}
		if existing.Offset != cas.Offset || c.epoch != cas.Epoch {
			return vfC20Expect{Suppressed: true, Reason: SuppressReasonPositionMismatch, PosKnown: true, Offset: c.top,
				Current: &MapCurrentEntry{Offset: existing.Offset, Data: []byte(existing.Data)}}, false
		}
	}
	if !exists {
		return vfC20Expect{Suppressed: true, Reason: SuppressReasonKeyNotFound, PosKnown: true, Offset: c.top, NoCurrent: true}, false
	}
	tags := existing.Tags
	if vfC20Tags[op.Tags] != nil {
		tags = vfC20Tags[op.Tags]
	}
	delete(c.state, key)
	var off uint64
	if c.cfg.Mode.HasStream() {
		c.top++
		off = c.top
		c.appendStream(vfC20SE{Offset: off, Key: key, Removed: true, Tags: tags})
		c.streamMayClear = now + c.cfg.StreamTTL.Milliseconds()
		c.refreshMeta(now)
	}
	return vfC20Expect{PosKnown: true, Offset: off, Deliver: true, DKey: key, DRemoved: true, DTags: tags, NoCurrent: true}, op.Idem != ""
}

func (c *vfC20Chan) sortedState(asc bool) []*vfC20Entry {
	out := make([]*vfC20Entry, 0, len(c.state))
	for _, e := range c.state {
		out = append(out, e)
	}
	sort.Slice(out, func(i, j int) bool {
		a, b := out[i], out[j]
		if !c.cfg.Ordered {
			return a.Key < b.Key
		}
		if a.Score != b.Score {
			if asc {
				return a.Score < b.Score
			}
			return a.Score > b.Score
		}
		if asc {
			return a.Key < b.Key
		}
		return a.Key > b.Key
	})
	return out
}

func vfC20TagsEq(a, b map[string]string) bool {
	if len(a) != len(b) {
		return false
	}
	for k, v := range a {
		if w, ok := b[k]; !ok || w != v {
			return false
		}
	}
	return true
}

func vfC20StateMatch(p *Publication, e *vfC20Entry, ordered bool) string {
	if p == nil {
		return "nil publication"
	}
	if p.Key != e.Key || string(p.Data) != e.Data || p.Offset != e.Offset || p.Removed || !vfC20TagsEq(p.Tags, e.Tags) ||
		(ordered && p.Score != e.Score) || (p.Info != nil) != e.HasInfo {
		return fmt.Sprintf("entry {key=%s data=%q off=%d removed=%v tags=%v score=%d info=%v}, reference {key=%s data=%q off=%d tags=%v score=%d info=%v}",
			p.Key, p.Data, p.Offset, p.Removed, p.Tags, p.Score, p.Info != nil, e.Key, e.Data, e.Offset, e.Tags, e.Score, e.HasInfo)
	}
	return ""
}

func vfC20StreamMatch(p *Publication, e vfC20SE) string {
	if p == nil {
		return "nil publication"
	}
	if p.Key != e.Key || p.Offset != e.Offset || p.Removed != e.Removed || string(p.Data) != e.Data || !vfC20TagsEq(p.Tags, e.Tags) {
		return fmt.Sprintf("stream entry {off=%d key=%s removed=%v data=%q tags=%v}, reference {off=%d key=%s removed=%v data=%q tags=%v}",
			p.Offset, p.Key, p.Removed, p.Data, p.Tags, e.Offset, e.Key, e.Removed, e.Data, e.Tags)
	}
	return ""
}
