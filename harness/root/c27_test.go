package PKGNAME

// C27 — Server-side operations act the same from any node.
// Differential: one connection on the calling node, one on a remote node, identical identity and identical channel
// history; a node-level Subscribe / Unsubscribe / Disconnect / Refresh with a drawn subset of every exported option
// constructor; the observable effect on both connections must be equal.

import (
	"fmt"
	"sort"
	"strings"
	"testing"
	"time"

	"pgregory.net/rapid"
)

type vfC27Case struct {
	Kind    int // 0 subscribe, 1 unsubscribe, 2 disconnect, 3 refresh
	Proto   ProtocolType
	Target  int // 0 by user, 1 all users, 2 user + label filter (matching), 3 user + label filter (not matching), 4 user AND the all-users option (documented no-op when a user id is given)
	PrePubs int
	// subscribe options (each used iff the corresponding Use flag is set)
	Use           map[string]bool
	ExpireIn      int
	ChannelInfo   string
	Data          string
	Source        int
	MetaTTL       int
	RecoverOff    int
	RecoverCur    bool
	CacheMode     bool
	CustomCode    int
	CustomReason  string
	RefreshExpire int
	RefreshInfo   string
	LabelTF       *vfTF // label filter used for targets 2 and 3 (drawn from the whole filter grammar: leaves, and/or/not)
	Narrow        int  // 0 none; 1 the call names one connection by client id, 2 by session id (then issued once per subject connection)
	RecoverForeign bool // RecoverSince carries a foreign epoch instead of the empty one
}

var vfC27SubOpts = []string{"ExpireAt", "ChannelInfo", "EmitPresence", "EmitJoinLeave", "PushJoinLeave", "Positioning", "Recovery", "RecoveryMode", "Data", "RecoverSince", "AutoCacheRecover", "Source", "HistoryMetaTTL"}

func (c vfC27Case) String() string {
	var used []string
	for k, v := range c.Use {
		if v {
			used = append(used, k)
		}
	}
	sort.Strings(used)
	kind := []string{"Subscribe", "Unsubscribe", "Disconnect", "Refresh"}[c.Kind]
	return fmt.Sprintf("narrow=%d recoverForeignEpoch=%v ", c.Narrow, c.RecoverForeign) + fmt.Sprintf("Node0.%s target=%d labelFilter=(%s) proto=%s prePubs=%d options=%v {expireIn=%d info=%q data=%q source=%d metaTTL=%ds recoverOff=%d recoverCurEpoch=%v cacheMode=%v custom=(%d,%q) refreshExpireIn=%d refreshInfo=%q}",
		kind, c.Target, c.LabelTF, c.Proto, c.PrePubs, used, c.ExpireIn, c.ChannelInfo, c.Data, c.Source, c.MetaTTL, c.RecoverOff, c.RecoverCur, c.CacheMode, c.CustomCode, c.CustomReason, c.RefreshExpire, c.RefreshInfo)
}

func vfC27Gen(rt *rapid.T) vfC27Case {
	c := vfC27Case{Use: map[string]bool{}}
	c.Kind = rapid.SampledFrom([]int{0, 0, 0, 1, 2, 3}).Draw(rt, "kind")
	c.Proto = rapid.SampledFrom([]ProtocolType{ProtocolTypeJSON, ProtocolTypeProtobuf}).Draw(rt, "proto")
	c.Target = rapid.SampledFrom([]int{0, 0, 1, 2, 3, 4}).Draw(rt, "target")
	c.PrePubs = rapid.IntRange(0, 4).Draw(rt, "prepubs")
	for _, o := range vfC27SubOpts {
		c.Use[o] = rapid.IntRange(0, 2).Draw(rt, "use_"+o) == 2 // shrinks towards "option not used"
	}
	c.ExpireIn = rapid.SampledFrom([]int{30, 3600}).Draw(rt, "expireIn")
	c.ChannelInfo = rapid.SampledFrom([]string{`{"a":1}`, `{}`}).Draw(rt, "chinfo")
	c.Data = rapid.SampledFrom([]string{`{"d":1}`, `"x"`}).Draw(rt, "data")
	c.Source = rapid.IntRange(1, 200).Draw(rt, "source")
	c.MetaTTL = rapid.SampledFrom([]int{5, 60, 3600}).Draw(rt, "metaTTL")
	c.RecoverOff = rapid.IntRange(0, 5).Draw(rt, "recoverOff")
	c.RecoverCur = rapid.Bool().Draw(rt, "recoverCur")
	c.CacheMode = rapid.Bool().Draw(rt, "cacheMode")
	c.Use["Custom"] = rapid.Bool().Draw(rt, "useCustom")
	c.CustomCode = rapid.SampledFrom([]int{2600, 3600, 4100}).Draw(rt, "customCode")
	c.CustomReason = rapid.SampledFrom([]string{"r1", "custom reason"}).Draw(rt, "customReason")
	c.Use["RefreshExpired"] = rapid.IntRange(0, 3).Draw(rt, "refreshExpired") == 0
	c.Use["RefreshExpireAt"] = rapid.Bool().Draw(rt, "useRefreshExpireAt")
	c.Use["RefreshInfo"] = rapid.Bool().Draw(rt, "useRefreshInfo")
	c.RefreshExpire = rapid.SampledFrom([]int{-5, 40, 4000}).Draw(rt, "refreshExpire")
	c.RefreshInfo = rapid.SampledFrom([]string{`{"i":2}`, `{"j":"k"}`}).Draw(rt, "refreshInfo")
	c.LabelTF = vfTFGen(rt, "labeltf", 2)
	c.Narrow = rapid.SampledFrom([]int{0, 0, 0, 1, 2, 2}).Draw(rt, "narrow")
	if c.Narrow != 0 {
		c.Target = 0
	}
	c.RecoverForeign = rapid.IntRange(0, 2).Draw(rt, "recoverForeign") == 0
	return c
}

type vfC27Out struct {
	labels     []string
	nontrivial bool
	known      []string
	knownEx    string
}

// vfC27Snapshot renders everything observable about one connection after the call, normalised (no ids/epochs).
func vfC27Snapshot(w *vfWorld, c *vfConn, ch string, framesFrom, eventsFrom int) []string {
	var s []string
	closed, d := c.T.Closed()
	s = append(s, fmt.Sprintf("closed=%v code=%d reason=%q", closed, d.Code, d.Reason))
	c.Client.mu.RLock()
	ctx, ok := c.Client.channels[ch]
	exp := c.Client.exp
	info := string(c.Client.info)
	c.Client.mu.RUnlock()
	s = append(s, fmt.Sprintf("conn.exp-now=%d conn.info=%q", vfC27Rel(exp), info))
	if ok {
		s = append(s, fmt.Sprintf("channel: flags=%016b expireAt-now=%d info=%q source=%d metaTTLSeconds=%d offset=%d",
			ctx.flags, vfC27Rel(ctx.expireAt), string(ctx.info), ctx.Source, ctx.metaTTLSeconds, ctx.streamPosition.Offset))
	} else {
		s = append(s, "channel: none")
	}
	for _, f := range c.Frames()[framesFrom:] {
		if f.Err != nil || f.Reply == nil || f.Reply.Push == nil {
			s = append(s, "frame: "+vfRenderReply(f.Reply))
			continue
		}
		p := f.Reply.Push
		switch {
		case p.Subscribe != nil:
			s = append(s, fmt.Sprintf("push.subscribe ch=%s recoverable=%v positioned=%v offset=%d data=%q", p.Channel, p.Subscribe.Recoverable, p.Subscribe.Positioned, p.Subscribe.Offset, string(p.Subscribe.Data)))
		case p.Unsubscribe != nil:
			s = append(s, fmt.Sprintf("push.unsubscribe ch=%s code=%d reason=%q", p.Channel, p.Unsubscribe.Code, p.Unsubscribe.Reason))
		case p.Disconnect != nil:
			s = append(s, fmt.Sprintf("push.disconnect code=%d reason=%q reconnect=%v", p.Disconnect.Code, p.Disconnect.Reason, p.Disconnect.Reconnect))
		case p.Refresh != nil:
			s = append(s, fmt.Sprintf("push.refresh expires=%v ttl=%d", p.Refresh.Expires, p.Refresh.Ttl))
		case p.Pub != nil:
			s = append(s, fmt.Sprintf("push.pub ch=%s offset=%d data=%s", p.Channel, p.Pub.Offset, p.Pub.Data))
		case p.Join != nil:
			// joins / leaves of the node's other connection of this user depend on the hub's iteration order: own ones only
			if p.Join.Info != nil && p.Join.Info.Client == c.Client.ID() {
				s = append(s, fmt.Sprintf("push.join(own) ch=%s", p.Channel))
			}
		case p.Leave != nil:
			if p.Leave.Info != nil && p.Leave.Info.Client == c.Client.ID() {
				s = append(s, fmt.Sprintf("push.leave(own) ch=%s", p.Channel))
			}
		default:
			s = append(s, "push.other")
		}
	}
	pres, err := w.node.Presence(ch)
	if err == nil {
		_, in := pres.Presence[c.Client.ID()]
		ci := ""
		if in {
			ci = fmt.Sprintf(" chanInfo=%q connInfo=%q", string(pres.Presence[c.Client.ID()].ChanInfo), string(pres.Presence[c.Client.ID()].ConnInfo))
		}
		s = append(s, fmt.Sprintf("inPresence=%v%s", in, ci))
	}
	for _, e := range w.Events()[eventsFrom:] {
		if e.Client == c.Client.ID() {
			s = append(s, fmt.Sprintf("callback %s ch=%s %s", e.Kind, e.Ch, e.Detail))
		}
	}
	return s
}

func vfC27Rel(ts int64) int64 {
	if ts == 0 {
		return 0
	}
	return ts - time.Now().Unix()
}

func vfC27Run(t *testing.T, cs vfC27Case, out *vfC27Out, isKnown func(string) bool) string {
	return vfBubble(t, func() string {
		ch := "ch"
		ws, bus, err := vfNewCluster(2, func(i int) Config { return Config{Name: fmt.Sprintf("n%d", i)} }, func(i int, w *vfWorld) {
			w.Connecting = func(c *vfConn, e ConnectEvent) (ConnectReply, error) {
				return ConnectReply{Credentials: &Credentials{UserID: c.User, ExpireAt: time.Now().Unix() + 600, Info: []byte(`{"c":0}`)}, Labels: map[string]string{"g": "x", "k": "a", "j": "b"}}, nil
			}
			w.PerClient = func(c *vfConn, client *Client) {
				client.OnRefresh(func(e RefreshEvent, cb RefreshCallback) {
					w.logEvent(client.ID(), "refresh", "", "")
					cb(RefreshReply{ExpireAt: time.Now().Unix() + 600}, nil)
				})
			}
		})
		if err != nil {
			return "infra: " + err.Error()
		}
		defer func() {
			for _, w := range ws {
				w.Close()
			}
			bus.Close()
		}()
		time.Sleep(500 * time.Millisecond)
		// identical histories on both nodes (each node has its own memory broker)
		epochs := make([]string, 2)
		for i, w := range ws {
			for k := 0; k < cs.PrePubs; k++ {
				res, err := w.node.Publish(ch, []byte(fmt.Sprintf(`{"k":%d}`, k)), WithHistory(10, 300*time.Second))
				if err != nil {
					return "publish: " + err.Error()
				}
				epochs[i] = res.Epoch
			}
		}
		conns := make([]*vfConn, 2)
		for i, w := range ws {
			c := w.NewConn(vfConnCfg{Name: fmt.Sprintf("c%d", i), User: "u", Proto: cs.Proto, Emulation: cs.Narrow == 2})
			c.Connect(nil)
			conns[i] = c
		}
		// one more connection of the same user on each node: a call narrowed to one connection (client id / session)
		// must leave it alone on both nodes, any other call must treat it like the subject
		by := make([]*vfConn, 2)
		for i, w := range ws {
			c := w.NewConn(vfConnCfg{Name: fmt.Sprintf("b%d", i), User: "u", Proto: cs.Proto, Emulation: cs.Narrow == 2})
			c.Connect(nil)
			by[i] = c
		}
		// ... and a connection of ANOTHER user on each node: only fleet-wide calls may touch it
		ov := make([]*vfConn, 2)
		for i, w := range ws {
			c := w.NewConn(vfConnCfg{Name: fmt.Sprintf("o%d", i), User: "v", Proto: cs.Proto, Emulation: cs.Narrow == 2})
			c.Connect(nil)
			ov[i] = c
		}
		const ch2 = "ch2"
		if cs.Kind == 1 {
			for _, c := range []*vfConn{conns[0], conns[1], by[0], by[1], ov[0], ov[1]} {
				if err := c.Client.Subscribe(ch, WithEmitPresence(true), WithEmitJoinLeave(true)); err != nil {
					return "setup subscribe: " + err.Error()
				}
				// a second subscription that an unsubscribe from ch must not touch
				if err := c.Client.Subscribe(ch2); err != nil {
					return "setup subscribe: " + err.Error()
				}
			}
		}
		vfSettle()
		from := []int{len(conns[0].Frames()), len(conns[1].Frames())}
		byFrom := []int{len(by[0].Frames()), len(by[1].Frames())}
		ovFrom := []int{len(ov[0].Frames()), len(ov[1].Frames())}
		evFrom := []int{len(ws[0].Events()), len(ws[1].Events())}
		// narrowing options for the i-th call (one call per subject connection when narrowed)
		calls := 1
		if cs.Narrow != 0 {
			calls = 2
			out.labels = append(out.labels, []string{"", "narrowed_by_client_id", "narrowed_by_session"}[cs.Narrow])
		}

		user := "u"
		// target 2: a filter drawn from the whole grammar over the connections' labels {k:a, j:b} (it may or may not
		// match - both connections carry the same labels, so the effect must still be equal); target 3: never matches
		matchingLabel := cs.LabelTF.Proto()
		otherLabel := &FilterNode{Key: "g", Cmp: "eq", Val: "zzz"}
		if cs.Target == 2 {
			if cs.LabelTF.Match(map[string]string{"g": "x", "k": "a", "j": "b"}) {
				out.labels = append(out.labels, "label_filter_matches")
			} else {
				out.labels = append(out.labels, "label_filter_excludes")
			}
		}
		nopts := 0
		var callErr error
		switch cs.Kind {
		case 0:
			var opts []SubscribeOption
			add := func(name string, o SubscribeOption) {
				if cs.Use[name] {
					opts = append(opts, o)
					nopts++
				}
			}
			add("ExpireAt", WithExpireAt(time.Now().Unix()+int64(cs.ExpireIn)))
			add("ChannelInfo", WithChannelInfo([]byte(cs.ChannelInfo)))
			add("EmitPresence", WithEmitPresence(true))
			add("EmitJoinLeave", WithEmitJoinLeave(true))
			add("PushJoinLeave", WithPushJoinLeave(true))
			add("Positioning", WithPositioning(true))
			add("Recovery", WithRecovery(true))
			if cs.CacheMode {
				add("RecoveryMode", WithRecoveryMode(RecoveryModeCache))
			}
			add("Data", WithSubscribeData([]byte(cs.Data)))
			if cs.Use["RecoverSince"] && cs.Use["Recovery"] {
				// the epoch differs per node (separate memory brokers); use the empty epoch, which every stream accepts
				sp := &StreamPosition{Offset: uint64(cs.RecoverOff)}
				if cs.RecoverForeign {
					sp.Epoch = "FOREIGNEPOCH"
					out.labels = append(out.labels, "recover_since_foreign_epoch")
				}
				opts = append(opts, WithRecoverSince(sp))
				nopts++
			}
			add("AutoCacheRecover", WithAutoCacheRecover(true))
			add("Source", WithSubscribeSource(uint8(cs.Source)))
			add("HistoryMetaTTL", WithSubscribeHistoryMetaTTL(time.Duration(cs.MetaTTL)*time.Second))
			switch cs.Target {
			case 4:
				opts = append(opts, WithSubscribeAllUsers(true))
			case 1:
				user = ""
				opts = append(opts, WithSubscribeAllUsers(true))
			case 2:
				opts = append(opts, WithSubscribeLabelFilter(matchingLabel))
			case 3:
				opts = append(opts, WithSubscribeLabelFilter(otherLabel))
			}
			for i := 0; i < calls; i++ {
				o := opts
				switch cs.Narrow {
				case 1:
					o = append(append([]SubscribeOption{}, opts...), WithSubscribeClient(conns[i].Client.ID()))
				case 2:
					o = append(append([]SubscribeOption{}, opts...), WithSubscribeSession(conns[i].Client.sessionID()))
				}
				if err := ws[0].node.Subscribe(user, ch, o...); err != nil {
					callErr = err
				}
			}
		case 1:
			var opts []UnsubscribeOption
			if cs.Use["Custom"] {
				opts = append(opts, WithCustomUnsubscribe(Unsubscribe{Code: uint32(cs.CustomCode), Reason: cs.CustomReason}))
				nopts++
			}
			switch cs.Target {
			case 4:
				opts = append(opts, WithUnsubscribeAllUsers(true))
			case 1:
				user = ""
				opts = append(opts, WithUnsubscribeAllUsers(true))
			case 2:
				opts = append(opts, WithUnsubscribeLabelFilter(matchingLabel))
			case 3:
				opts = append(opts, WithUnsubscribeLabelFilter(otherLabel))
			}
			for i := 0; i < calls; i++ {
				o := opts
				switch cs.Narrow {
				case 1:
					o = append(append([]UnsubscribeOption{}, opts...), WithUnsubscribeClient(conns[i].Client.ID()))
				case 2:
					o = append(append([]UnsubscribeOption{}, opts...), WithUnsubscribeSession(conns[i].Client.sessionID()))
				}
				if err := ws[0].node.Unsubscribe(user, ch, o...); err != nil {
					callErr = err
				}
			}
		case 2:
			var opts []DisconnectOption
			if cs.Use["Custom"] {
				opts = append(opts, WithCustomDisconnect(Disconnect{Code: uint32(cs.CustomCode), Reason: cs.CustomReason}))
				nopts++
			}
			if cs.Use["Source"] { // reuse the flag: whitelist both connections
				opts = append(opts, WithDisconnectClientWhitelist([]string{conns[0].Client.ID(), conns[1].Client.ID()}))
				nopts++
			}
			switch cs.Target {
			case 4:
				opts = append(opts, WithDisconnectAllUsers(true))
			case 1:
				user = ""
				opts = append(opts, WithDisconnectAllUsers(true))
			case 2:
				opts = append(opts, WithDisconnectLabelFilter(matchingLabel))
			case 3:
				opts = append(opts, WithDisconnectLabelFilter(otherLabel))
			}
			for i := 0; i < calls; i++ {
				o := opts
				switch cs.Narrow {
				case 1:
					o = append(append([]DisconnectOption{}, opts...), WithDisconnectClient(conns[i].Client.ID()))
				case 2:
					o = append(append([]DisconnectOption{}, opts...), WithDisconnectSession(conns[i].Client.sessionID()))
				}
				if err := ws[0].node.Disconnect(user, o...); err != nil {
					callErr = err
				}
			}
		case 3:
			var opts []RefreshOption
			if cs.Use["RefreshExpired"] {
				opts = append(opts, WithRefreshExpired(true))
				nopts++
			}
			if cs.Use["RefreshExpireAt"] {
				opts = append(opts, WithRefreshExpireAt(time.Now().Unix()+int64(cs.RefreshExpire)))
				nopts++
			}
			if cs.Use["RefreshInfo"] {
				opts = append(opts, WithRefreshInfo([]byte(cs.RefreshInfo)))
				nopts++
			}
			switch cs.Target {
			case 4:
				opts = append(opts, WithRefreshAllUsers(true))
			case 1:
				user = ""
				opts = append(opts, WithRefreshAllUsers(true))
			case 2:
				opts = append(opts, WithRefreshLabelFilter(matchingLabel))
			case 3:
				opts = append(opts, WithRefreshLabelFilter(otherLabel))
			}
			for i := 0; i < calls; i++ {
				o := opts
				switch cs.Narrow {
				case 1:
					o = append(append([]RefreshOption{}, opts...), WithRefreshClient(conns[i].Client.ID()))
				case 2:
					o = append(append([]RefreshOption{}, opts...), WithRefreshSession(conns[i].Client.sessionID()))
				}
				if err := ws[0].node.Refresh(user, o...); err != nil {
					callErr = err
				}
			}
		}
		vfSettle()
		time.Sleep(2 * time.Second)
		vfSettle()
		if callErr != nil {
			out.labels = append(out.labels, "call_returned_error")
		}
		snap := func(i int) []string {
			s := vfC27Snapshot(ws[i], conns[i], ch, from[i], evFrom[i])
			other := func(c *vfConn) string {
				c.Client.mu.RLock()
				defer c.Client.mu.RUnlock()
				_, ok := c.Client.channels[ch2]
				return fmt.Sprintf("subscribed(%s)=%v", ch2, ok)
			}
			s = append(s, other(conns[i]))
			for _, l := range vfC27Snapshot(ws[i], by[i], ch, byFrom[i], evFrom[i]) {
				s = append(s, "bystander: "+l)
			}
			s = append(s, "bystander: "+other(by[i]))
			for _, l := range vfC27Snapshot(ws[i], ov[i], ch, ovFrom[i], evFrom[i]) {
				s = append(s, "other user: "+l)
			}
			s = append(s, "other user: "+other(ov[i]))
			return s
		}
		local := snap(0)
		remote := snap(1)
		if nopts >= 2 {
			out.nontrivial = true
		}
		out.labels = append(out.labels, []string{"subscribe", "unsubscribe", "disconnect", "refresh"}[cs.Kind])
		if cs.Target == 3 {
			out.labels = append(out.labels, "target_matches_nothing")
		}
		if cs.Target == 4 {
			out.labels = append(out.labels, "user_id_together_with_all_users_option")
		}
		if strings.Join(local, "\n") == strings.Join(remote, "\n") {
			return ""
		}
		// classify the difference
		var diffs []string
		for i := 0; i < len(local) || i < len(remote); i++ {
			l, r := "<none>", "<none>"
			if i < len(local) {
				l = local[i]
			}
			if i < len(remote) {
				r = remote[i]
			}
			if l != r {
				diffs = append(diffs, fmt.Sprintf("local{%s} != remote{%s}", l, r))
			}
		}
		msg := "effect differs between the local and the remote connection: " + strings.Join(diffs, "; ")
		if cs.Kind == 0 {
			// Root-cause classification: strip the fields that a not-propagated option can influence and compare again.
			var keys []string
			lf, rf := local, remote
			if cs.Use["HistoryMetaTTL"] {
				l2, r2 := vfC27StripLines(lf, "metaTTLSeconds="), vfC27StripLines(rf, "metaTTLSeconds=")
				if strings.Join(l2, "\n") != strings.Join(lf, "\n") || strings.Join(r2, "\n") != strings.Join(rf, "\n") {
					if strings.Join(lf, "\n") != strings.Join(rf, "\n") && vfC27FieldDiffers(lf, rf, "metaTTLSeconds=") {
						keys = append(keys, "C27:subscribe-option-HistoryMetaTTL-not-propagated")
					}
				}
				lf, rf = l2, r2
			}
			if cs.Use["RecoveryMode"] && cs.CacheMode {
				// cache recovery mode (and AutoCacheRecover, which only acts in that mode) is applied locally only:
				// the position reported in the subscribe push / stored in the channel context may differ
				if vfC27FieldDiffers(lf, rf, "offset=") {
					keys = append(keys, "C27:subscribe-option-RecoveryMode-not-propagated")
				}
				lf, rf = vfC27StripLines(lf, "offset="), vfC27StripLines(rf, "offset=")
			}
			if len(keys) > 0 && strings.Join(lf, "\n") == strings.Join(rf, "\n") {
				unknown := ""
				for _, k := range keys {
					if !isKnown(k) {
						unknown = k
					}
				}
				if unknown == "" {
					out.known = append(out.known, keys...)
					out.knownEx = msg
					return ""
				}
				return "[" + unknown + "] " + msg
			}
		}
		return msg
	})
}

func vfC27FieldDiffers(a, b []string, field string) bool {
	get := func(lines []string) string {
		var v []string
		for _, l := range lines {
			if i := strings.Index(l, field); i >= 0 {
				j := strings.IndexByte(l[i:], ' ')
				if j < 0 {
					v = append(v, l[i:])
				} else {
					v = append(v, l[i:i+j])
				}
			}
		}
		return strings.Join(v, ",")
	}
	return get(a) != get(b)
}

func vfC27StripLines(lines []string, field string) []string {
	return strings.Split(vfC27StripField(lines, field), "\n")
}

func vfC27StripField(lines []string, field string) string {
	var out []string
	for _, l := range lines {
		if i := strings.Index(l, field); i >= 0 {
			j := strings.IndexByte(l[i:], ' ')
			if j < 0 {
				l = l[:i]
			} else {
				l = l[:i] + l[i+j:]
			}
		}
		out = append(out, l)
	}
	return strings.Join(out, "\n")
}

func TestVF_C27(t *testing.T) {
	vfCheck(t, "C27", func(rt *rapid.T, c *vfCase) string {
		cs := vfC27Gen(rt)
		c.Describe(cs.String())
		out := &vfC27Out{}
		msg := vfC27Run(t, cs, out, c.IsKnown)
		for _, l := range out.labels {
			c.Label(l)
		}
		for _, k := range out.known {
			c.Known(k, out.knownEx)
		}
		if out.nontrivial {
			c.Nontrivial(c.desc)
		}
		return msg
	})
}
