#!/usr/bin/env python3
"""tools/mutsummary.py — summarise tools/mutants/results/*.json (written by tools/mutbatch.py --out) per property.
Later result files override earlier records of the same mutant (src id)."""
import glob, json, os, sys

recs = {}
for f in sorted(glob.glob('/verif/tools/mutants/results/*.json'), key=os.path.getmtime):
    for r in json.load(open(f)):
        recs[r['src']] = r
# expectations may have been documented after a run: take them from the mutant lists
for f in glob.glob('/verif/tools/mutants/*.json'):
    for n, e in enumerate(json.load(open(f))):
        src = '%s#%d' % (os.path.basename(f), n)
        if src in recs:
            recs[src]['expected'] = e.get('expected', 'caught')
            recs[src]['why_not'] = e.get('why_not', '')
by = {}
for r in recs.values():
    b = by.setdefault(r['prop'], dict(total=0, caught=0, nc_expected=0, nc_unexpected=0, other=0, notes=[]))
    b['total'] += 1
    if r['result'] == 'CAUGHT':
        b['caught'] += 1
    elif r['result'] in ('NOT-CAUGHT', 'INFRA') and r.get('expected') == 'not-caught':
        b['nc_expected'] += 1
        if '-v' in sys.argv:
            b['notes'].append(r['src'] + ' (documented): ' + r['note'][:70] + ' -- ' + r.get('why_not', '')[:160])
    elif r['result'] == 'NOT-CAUGHT':
        if r.get('expected') == 'not-caught':
            b['nc_expected'] += 1
        else:
            b['nc_unexpected'] += 1
            b['notes'].append(r['src'] + ': ' + r['note'][:110])
    else:
        b['other'] += 1
        b['notes'].append(r['src'] + ' [' + r['result'] + ']: ' + r['note'][:100])
print('| property | mutants | caught | not caught (equivalent / unreachable, documented) | not caught (gap) | other |')
print('|---|---|---|---|---|---|')
tot = [0, 0, 0, 0, 0]
for p in sorted(by):
    b = by[p]
    print('| %s | %d | %d | %d | %d | %d |' % (p, b['total'], b['caught'], b['nc_expected'], b['nc_unexpected'], b['other']))
    for i, k in enumerate(('total', 'caught', 'nc_expected', 'nc_unexpected', 'other')):
        tot[i] += b[k]
print('| all | %d | %d | %d | %d | %d |' % tuple(tot))
if '-v' in sys.argv:
    for p in sorted(by):
        for n in by[p]['notes']:
            print(p, n)
