package PKGNAME

// C11 — The connect reply is the first server message.
//
// (a) TestVF_C11_FirstMessage: 1-2 subject connections (bidirectional) connect in goroutines with 0-3 connect-time
//     server-side subscriptions each (positioned+recoverable / positioned+presence / non-positioned+presence /
//     non-positioned+presence+join-leave / plain). The connect is parked before OnConnecting returns (before the hub
//     registration) and/or inside its connect-time subscribes (after the hub registration: inside AddPresence, right
//     after the history read). Meanwhile a drawn schedule runs: publications with and without history, Node.Subscribe /
//     Node.Unsubscribe / Node.Refresh / Node.Disconnect for the user, Client.Send through Hub.UserConnections, join/leave
//     of another connection, gate releases in drawn order, transport close, small time advances.
//     Oracle on every connection's ordered frames: the first frame is the reply to the connect command (success or error)
//     or - when the connection was refused / closed before the reply - a disconnect push that is the last frame.
// (b) TestVF_C11_Dictionary: the Client side of the dictionary compression contract with a recording engine / codec and
//     a transport double implementing DictionaryAwareTransport (same pending -> active promotion as the websocket one).
// (c) TestVF_C11_DictionaryWS: the real websocketTransport over an in-memory *websocket.Conn driven by a real Client:
//     wire message 0 is the raw connect reply, wire message i>0 is exactly the codec's i-th output, binary flag
//     respected, codec closed exactly once, never overlapping / preceding an Encode.

import (
	"bufio"
	"bytes"
	"context"
	"encoding/binary"
	"fmt"
	"io"
	"net"
	"net/http"
	"net/url"
	"runtime"
	"sort"
	"strings"
	"sync"
	"sync/atomic"
	"testing"
	"time"

	"github.com/centrifugal/centrifuge/internal/websocket"
	"github.com/centrifugal/protocol"
	"pgregory.net/rapid"
)

const (
	vfC11KeyUserOp  = "C11:node-user-op-push-written-before-connect-reply"
	vfC11KeyRWQ     = "C11:reply-without-queue-write-races-dictionary-close"
)

// ---------------------------------------------------------------------------------------------------------------
// part (a)

type vfC11Sub struct {
	Kind    int // 0 positioned+recoverable, 1 positioned+presence, 2 presence, 3 presence+join/leave, 4 plain
	Recover bool
	PrePubs int
}

func (s vfC11Sub) positioned() bool { return s.Kind <= 1 }
func (s vfC11Sub) presence() bool   { return s.Kind >= 1 && s.Kind <= 3 }

type vfC11Conn struct {
	Proto          ProtocolType
	RWQ            bool
	User           int
	Subs           []vfC11Sub
	GateConnecting bool
	Refuse         int // 0 none, 1 OnConnecting error, 2 OnConnecting disconnect, 3 expired credentials, 4 history error in a positioned sub
	WriteDelayMs   int
	WriteTimer     bool
	OnConnectPush  bool // OnConnect handler sends a message and subscribes the client server-side
}

type vfC11Step struct {
	Kind int // 0 connect, 1 publish, 2 nodeSubscribe, 3 nodeUnsubscribe, 4 nodeDisconnect, 5 nodeRefresh, 6 send, 7 release, 8 transportClose, 9 advance, 10 other join/leave
	Conn int
	Ch   int // channel pick
	Hist bool
	Idx  int
	Ms   int
}

type vfC11Case struct {
	Conns []vfC11Conn
	Steps []vfC11Step
}

func vfC11Ch(conn, slot int) string { return fmt.Sprintf("c%d.%d", slot, conn) }

func (c vfC11Conn) String() string {
	subs := make([]string, len(c.Subs))
	for i, s := range c.Subs {
		subs[i] = fmt.Sprintf("%s(rec=%v pre=%d)", []string{"pos+rec", "pos+presence", "presence", "presence+joinleave", "plain"}[s.Kind], s.Recover, s.PrePubs)
	}
	return fmt.Sprintf("{%s rwq=%v user=u%d subs=[%s] gateConnecting=%v refuse=%d writeDelay=%dms timer=%v onConnectPush=%v}",
		c.Proto, c.RWQ, c.User, strings.Join(subs, ","), c.GateConnecting, c.Refuse, c.WriteDelayMs, c.WriteTimer, c.OnConnectPush)
}

func (s vfC11Step) String() string {
	switch s.Kind {
	case 0:
		return fmt.Sprintf("connect(%d)", s.Conn)
	case 1:
		return fmt.Sprintf("publish(ch#%d hist=%v)", s.Ch, s.Hist)
	case 2:
		return fmt.Sprintf("nodeSubscribe(u%d ch#%d)", s.Conn, s.Ch)
	case 3:
		return fmt.Sprintf("nodeUnsubscribe(u%d ch#%d)", s.Conn, s.Ch)
	case 4:
		return fmt.Sprintf("nodeDisconnect(u%d)", s.Conn)
	case 5:
		return fmt.Sprintf("nodeRefresh(u%d exp=%d)", s.Conn, s.Idx)
	case 6:
		return fmt.Sprintf("send(u%d)", s.Conn)
	case 7:
		return fmt.Sprintf("release(%d)", s.Idx)
	case 8:
		return fmt.Sprintf("transportClose(%d)", s.Conn)
	case 9:
		return fmt.Sprintf("adv(%dms)", s.Ms)
	}
	return fmt.Sprintf("otherJoinLeave(ch#%d)", s.Ch)
}

func (c vfC11Case) String() string {
	cs := make([]string, len(c.Conns))
	for i, x := range c.Conns {
		cs[i] = x.String()
	}
	st := make([]string, len(c.Steps))
	for i, s := range c.Steps {
		st[i] = s.String()
	}
	return fmt.Sprintf("conns=%s steps=[%s]", strings.Join(cs, " "), strings.Join(st, " "))
}

func vfC11GenConn(rt *rapid.T, i int) vfC11Conn {
	c := vfC11Conn{}
	c.Proto = rapid.SampledFrom([]ProtocolType{ProtocolTypeJSON, ProtocolTypeProtobuf}).Draw(rt, "proto")
	c.RWQ = rapid.IntRange(0, 2).Draw(rt, "rwq") == 0
	c.User = rapid.SampledFrom([]int{0, 0, 0, 1}).Draw(rt, "user")
	n := rapid.SampledFrom([]int{0, 1, 1, 1, 2, 2, 2, 3}).Draw(rt, "nsubs")
	for j := 0; j < n; j++ {
		s := vfC11Sub{Kind: rapid.SampledFrom([]int{0, 1, 2, 2, 3, 3, 4}).Draw(rt, "subkind")}
		if i == 0 && j == 0 && s.Kind == 4 {
			s.Kind = 2 // the first connection always has a gate after its hub registration
		}
		if s.Kind == 0 {
			s.Recover = rapid.Bool().Draw(rt, "recover")
		}
		if s.positioned() {
			s.PrePubs = rapid.IntRange(0, 3).Draw(rt, "prepubs")
		}
		c.Subs = append(c.Subs, s)
	}
	c.GateConnecting = rapid.IntRange(0, 3).Draw(rt, "gateConnecting") == 0
	c.Refuse = rapid.SampledFrom([]int{0, 0, 0, 0, 0, 0, 0, 0, 0, 0, 0, 0, 1, 2, 3, 4}).Draw(rt, "refuse")
	c.WriteDelayMs = rapid.SampledFrom([]int{0, 0, 0, 20}).Draw(rt, "writeDelay")
	c.WriteTimer = rapid.Bool().Draw(rt, "writeTimer")
	c.OnConnectPush = rapid.Bool().Draw(rt, "onConnectPush")
	return c
}

func vfC11GenA(rt *rapid.T) vfC11Case {
	cs := vfC11Case{}
	nc := rapid.SampledFrom([]int{1, 1, 2}).Draw(rt, "nconns")
	for i := 0; i < nc; i++ {
		cs.Conns = append(cs.Conns, vfC11GenConn(rt, i))
	}
	n := rapid.IntRange(3, 22).Draw(rt, "nsteps")
	cs.Steps = append(cs.Steps, vfC11Step{Kind: 0, Conn: 0})
	for i := 1; i < n; i++ {
		k := rapid.SampledFrom([]int{0, 1, 1, 1, 1, 1, 2, 2, 3, 4, 5, 5, 6, 6, 7, 7, 8, 9, 10}).Draw(rt, "kind")
		if i <= 3 && (k == 7 || k == 8) {
			k = 1 // keep the window open for the first steps
		}
		s := vfC11Step{Kind: k}
		switch k {
		case 0, 8:
			s.Conn = rapid.IntRange(0, nc-1).Draw(rt, "conn")
		case 1:
			s.Ch = rapid.IntRange(0, 3*nc).Draw(rt, "ch") // 3*nc = the extra channel x1
			s.Hist = rapid.Bool().Draw(rt, "hist")
		case 2, 3:
			s.Conn = rapid.IntRange(0, 1).Draw(rt, "user")
			s.Ch = rapid.IntRange(0, 3*nc+1).Draw(rt, "ch")
		case 4, 6:
			s.Conn = rapid.IntRange(0, 1).Draw(rt, "user")
		case 5:
			s.Conn = rapid.IntRange(0, 1).Draw(rt, "user")
			s.Idx = rapid.SampledFrom([]int{0, 100}).Draw(rt, "exp")
		case 7:
			s.Idx = rapid.IntRange(0, 5).Draw(rt, "idx")
		case 9:
			s.Ms = rapid.SampledFrom([]int{20, 100, 500}).Draw(rt, "ms")
		case 10:
			s.Ch = rapid.IntRange(0, 3*nc-1).Draw(rt, "ch")
		}
		cs.Steps = append(cs.Steps, s)
	}
	return cs
}

type vfC11Out struct {
	labels     []string
	nontrivial bool
	known      []string
	knownEx    string
}

func (o *vfC11Out) label(l string) { o.labels = append(o.labels, l) }

// vfC11Presence gates AddPresence per channel.
type vfC11Presence struct {
	inner PresenceManager
	pass  func(ch string)
}

func (p *vfC11Presence) Presence(ch string) (map[string]*ClientInfo, error) { return p.inner.Presence(ch) }
func (p *vfC11Presence) PresenceStats(ch string) (PresenceStats, error)      { return p.inner.PresenceStats(ch) }
func (p *vfC11Presence) AddPresence(ch string, clientID string, info *ClientInfo) error {
	p.pass(ch)
	return p.inner.AddPresence(ch, clientID, info)
}
func (p *vfC11Presence) RemovePresence(ch string, clientID string, userID string) error {
	return p.inner.RemovePresence(ch, clientID, userID)
}

func vfC11SubOpts(s vfC11Sub) SubscribeOptions {
	o := SubscribeOptions{}
	switch s.Kind {
	case 0:
		o.EnablePositioning, o.EnableRecovery = true, true
	case 1:
		o.EnablePositioning, o.EmitPresence = true, true
	case 2:
		o.EmitPresence = true
	case 3:
		o.EmitPresence, o.EmitJoinLeave, o.PushJoinLeave = true, true, true
	}
	return o
}

// vfC11FirstFrameVerdict judges one connection's ordered frames. connectID is the id of the connect command.
// It returns the indexes of "early" frames (frames before the reply to the connect command that are not an allowed
// terminal disconnect push) and whether a successful connect reply exists.
func vfC11Early(frames []vfFrame, connectID uint32) (early []int, replyIdx int, errIdx int, bad string) {
	replyIdx, errIdx = -1, -1
	for i, f := range frames {
		if f.Err != nil || f.Reply == nil {
			return nil, -1, -1, fmt.Sprintf("frame %d undecodable: %v", i, f.Err)
		}
		r := f.Reply
		if r.Id == connectID && r.Push == nil {
			if r.Error != nil && errIdx < 0 {
				errIdx = i
			} else if r.Connect != nil && replyIdx < 0 {
				replyIdx = i
			}
		}
	}
	first := len(frames)
	if replyIdx >= 0 {
		first = replyIdx
	}
	if errIdx >= 0 && errIdx < first {
		first = errIdx
	}
	for i := 0; i < first; i++ {
		r := frames[i].Reply
		if r.Push != nil && r.Push.Disconnect != nil && i == len(frames)-1 && replyIdx < 0 && errIdx < 0 {
			continue // the connection was refused / closed before any reply: the disconnect is the only message
		}
		early = append(early, i)
	}
	return early, replyIdx, errIdx, ""
}

func vfC11RunA(t *testing.T, cs vfC11Case, out *vfC11Out, isKnown func(string) bool) string {
	return vfBubble(t, func() string {
		w, err := vfNewWorld(Config{}, nil)
		if err != nil {
			return "infra: " + err.Error()
		}
		defer w.Close()
		nc := len(cs.Conns)
		type connState struct {
			cfg        vfC11Conn
			conn       *vfConn
			user       string
			started    bool
			returned   atomic.Bool
			connectID  uint32
			noClose    bool
			chans      map[string]vfC11Sub
			pub0InWin  map[string]bool // no-history publish to this connect-time channel while in the window
			userOpWin  bool            // push-producing node-level user op while in the window
			winLabels  map[string]bool
			preRegOps  int
			epochs     map[string]string
			histErrCh  string
			subscribed map[string]bool // channels node.Subscribe'd while in window (their pubs are consequences)
		}
		states := make([]*connState, nc)
		chKind := map[string]vfC11Sub{}
		chOwner := map[string]int{}
		for i, cc := range cs.Conns {
			st := &connState{cfg: cc, user: fmt.Sprintf("u%d", cc.User), chans: map[string]vfC11Sub{}, pub0InWin: map[string]bool{},
				winLabels: map[string]bool{}, epochs: map[string]string{}, subscribed: map[string]bool{}}
			for j, s := range cc.Subs {
				ch := vfC11Ch(i, j)
				st.chans[ch] = s
				chKind[ch] = s
				chOwner[ch] = i
				if cc.Refuse == 4 && s.positioned() && st.histErrCh == "" {
					st.histErrCh = ch
				}
			}
			states[i] = st
		}
		allCh := func(pick int) string {
			if pick >= 3*nc {
				return fmt.Sprintf("x%d", pick-3*nc+1)
			}
			return vfC11Ch(pick/3, pick%3)
		}
		gateOf := func(name string) int { // gate name -> conn index
			i := strings.LastIndexByte(name, '.')
			if strings.HasPrefix(name, "connecting:") {
				i = strings.IndexByte(name, ':')
			}
			n := 0
			fmt.Sscanf(name[i+1:], "%d", &n)
			return n
		}
		w.broker.Hook = func(op, phase, ch string) error {
			if op != "history" {
				return nil
			}
			if o, ok := chOwner[ch]; ok && states[o].histErrCh == ch && phase == "before" && states[o].started && !states[o].returned.Load() {
				return fmt.Errorf("vf: injected history error")
			}
			if phase == "after" {
				if _, ok := chKind[ch]; ok {
					w.Gates.Pass("hist:" + ch)
				}
			}
			return nil
		}
		w.node.SetPresenceManager(&vfC11Presence{inner: w.node.presenceManager, pass: func(ch string) {
			if _, ok := chKind[ch]; ok {
				w.Gates.Pass("pres:" + ch)
			}
		}})
		byName := map[string]*connState{}
		w.Connecting = func(c *vfConn, e ConnectEvent) (ConnectReply, error) {
			st := byName[c.Name]
			if st == nil { // the helper connection
				return ConnectReply{Credentials: &Credentials{UserID: c.User}}, nil
			}
			if st.cfg.GateConnecting {
				w.Gates.Pass("connecting:" + c.Name)
			}
			switch st.cfg.Refuse {
			case 1:
				return ConnectReply{}, ErrorUnauthorized
			case 2:
				return ConnectReply{}, DisconnectInvalidToken
			}
			r := ConnectReply{Credentials: &Credentials{UserID: c.User}, ReplyWithoutQueue: st.cfg.RWQ,
				WriteDelay: time.Duration(st.cfg.WriteDelayMs) * time.Millisecond, WriteWithTimer: st.cfg.WriteTimer}
			if st.cfg.Refuse == 3 {
				r.Credentials.ExpireAt = time.Now().Unix() - 10
			}
			if len(st.chans) > 0 {
				r.Subscriptions = map[string]SubscribeOptions{}
				for ch, s := range st.chans {
					r.Subscriptions[ch] = vfC11SubOpts(s)
				}
			}
			return r, nil
		}
		w.PerClient = func(c *vfConn, client *Client) {
			st := byName[c.Name]
			if st != nil && st.cfg.OnConnectPush {
				_ = client.Send([]byte(`{"hello":"onconnect"}`))
				_ = client.Subscribe("oc")
			}
		}
		w.ChanOpts = func(c *vfConn, e SubscribeEvent) (SubscribeReply, error) {
			return SubscribeReply{Options: SubscribeOptions{EmitJoinLeave: true}}, nil
		}
		counter := 0
		publish := func(ch string, hist bool) (PublishResult, error) {
			counter++
			data := []byte(fmt.Sprintf(`{"n":%d}`, counter))
			if hist {
				return w.node.Publish(ch, data, WithHistory(10, 120*time.Second))
			}
			return w.node.Publish(ch, data)
		}
		for i, st := range states {
			for j, s := range st.cfg.Subs {
				ch := vfC11Ch(i, j)
				for k := 0; k < s.PrePubs; k++ {
					res, err := publish(ch, true)
					if err != nil {
						return "infra: prepublish: " + err.Error()
					}
					st.epochs[ch] = res.Epoch
				}
			}
			name := fmt.Sprintf("%d", i)
			st.conn = w.NewConn(vfConnCfg{Name: name, User: st.user, Proto: st.cfg.Proto})
			byName[name] = st
		}
		other := w.NewConn(vfConnCfg{Name: "other", User: "o"})
		other.Connect(nil)
		otherSubscribed := map[string]bool{}

		var ops sync.WaitGroup
		goOp := func(f func()) {
			ops.Add(1)
			go func() { defer ops.Done(); f() }()
		}
		hubHas := func(st *connState) bool {
			_, ok := w.node.hub.UserConnections(st.user)[st.conn.Client.ID()]
			return ok
		}
		inWindow := func(st *connState) bool { return st.started && !st.returned.Load() && hubHas(st) }
		preReg := func(st *connState) bool { return st.started && !st.returned.Load() && !hubHas(st) }
		windowLabel := func(st *connState) {
			for _, g := range w.Gates.AnyWaiting() {
				if strings.HasPrefix(g, "connecting:") || gateOf(g) != int(st.conn.Name[0]-'0') {
					continue
				}
				st.winLabels[g[:4]] = true
			}
		}
		gatesOf := func(i int) []string {
			var outG []string
			for _, g := range w.Gates.AnyWaiting() {
				if gateOf(g) == i {
					outG = append(outG, g)
				}
			}
			return outG
		}
		finish := func(i int) {
			for n := 0; n < 12; n++ {
				gs := gatesOf(i)
				if len(gs) == 0 {
					return
				}
				for _, g := range gs {
					w.Gates.Release(g)
				}
				vfSettle()
			}
		}
		totalAdv := 0
		userOf := func(u int) string { return fmt.Sprintf("u%d", u) }

		for si, s := range cs.Steps {
			_ = si
			switch s.Kind {
			case 0:
				st := states[s.Conn]
				if st.started {
					continue
				}
				st.started = true
				for j, sub := range st.cfg.Subs {
					ch := vfC11Ch(s.Conn, j)
					if sub.presence() {
						w.Gates.Arm("pres:"+ch, 1)
					}
					if sub.positioned() && ch != st.histErrCh {
						w.Gates.Arm("hist:"+ch, 1)
					}
				}
				if st.cfg.GateConnecting {
					w.Gates.Arm("connecting:"+st.conn.Name, 1)
				}
				req := &protocol.ConnectRequest{}
				for j, sub := range st.cfg.Subs {
					ch := vfC11Ch(s.Conn, j)
					if sub.Recover {
						if req.Subs == nil {
							req.Subs = map[string]*protocol.SubscribeRequest{}
						}
						req.Subs[ch] = &protocol.SubscribeRequest{Recover: true, Offset: 0, Epoch: st.epochs[ch]}
					}
				}
				st.connectID = st.conn.NextID()
				id := st.connectID
				goOp(func() {
					st.conn.Cmd(&protocol.Command{Id: id, Connect: req})
					st.returned.Store(true)
				})
			case 1:
				ch := allCh(s.Ch)
				for _, st := range states {
					if _, mine := st.chans[ch]; (mine || st.subscribed[ch]) && inWindow(st) {
						windowLabel(st)
						if !s.Hist {
							st.pub0InWin[ch] = true
						}
						if st.subscribed[ch] {
							st.userOpWin = true
						}
					}
					if _, mine := st.chans[ch]; mine && preReg(st) {
						st.preRegOps++
					}
				}
				if _, err := publish(ch, s.Hist); err != nil {
					return fmt.Sprintf("step %d: publish error %v", si, err)
				}
			case 2, 3, 5, 6:
				user := userOf(s.Conn)
				ch := allCh(s.Ch)
				for _, st := range states {
					if st.user != user {
						continue
					}
					if inWindow(st) {
						windowLabel(st)
						st.userOpWin = true
						if s.Kind == 2 {
							st.subscribed[ch] = true
						}
						if s.Kind == 3 {
							if _, reserved := st.chans[ch]; reserved {
								st.noClose = true // the unsubscribe waits for the in-flight subscribe (and may end in a close)
							}
						}
					} else if preReg(st) {
						st.preRegOps++
					}
				}
				switch s.Kind {
				case 2:
					goOp(func() { _ = w.node.Subscribe(user, ch) })
				case 3:
					goOp(func() { _ = w.node.Unsubscribe(user, ch) })
				case 5:
					exp := int64(0)
					if s.Idx > 0 {
						exp = time.Now().Unix() + int64(s.Idx)
					}
					goOp(func() { _ = w.node.Refresh(user, WithRefreshExpireAt(exp)) })
				case 6:
					conns := w.node.hub.UserConnections(user)
					ids := make([]string, 0, len(conns))
					for id := range conns {
						ids = append(ids, id)
					}
					sort.Strings(ids)
					for _, id := range ids {
						_ = conns[id].Send([]byte(`{"m":1}`))
					}
				}
			case 4:
				user := userOf(s.Conn)
				skip := false
				for _, st := range states {
					if st.user == user && st.noClose {
						skip = true
					}
				}
				if skip {
					continue
				}
				for _, st := range states {
					if st.user == user && hubHas(st) {
						st.noClose = true
						if inWindow(st) {
							windowLabel(st)
							out.label("disconnect_in_window")
						}
					}
				}
				goOp(func() { _ = w.node.Disconnect(user) })
			case 7:
				waiting := w.Gates.AnyWaiting()
				if len(waiting) == 0 {
					continue
				}
				g := waiting[s.Idx%len(waiting)]
				if strings.HasPrefix(g, "hist:") {
					// A positioned connect-time subscribe keeps its recovery buffer locked from its history merge until
					// the connect reply is written: release the whole connection so that no publisher blocks on it.
					finish(gateOf(g))
				} else {
					w.Gates.Release(g)
				}
			case 8:
				st := states[s.Conn]
				if st.noClose {
					continue
				}
				st.noClose = true
				if inWindow(st) {
					out.label("transport_close_in_window")
				} else if preReg(st) {
					out.label("transport_close_before_registration")
				}
				goOp(func() { st.conn.TransportClose() })
			case 9:
				if totalAdv+s.Ms > 3500 {
					continue
				}
				totalAdv += s.Ms
				time.Sleep(time.Duration(s.Ms) * time.Millisecond)
			case 10:
				ch := allCh(s.Ch)
				if k, ok := chKind[ch]; !ok || k.Kind != 3 {
					continue
				}
				for _, st := range states {
					if _, mine := st.chans[ch]; mine && inWindow(st) {
						windowLabel(st)
						out.label("join_leave_in_window")
					}
				}
				if otherSubscribed[ch] {
					other.Cmd(&protocol.Command{Id: other.NextID(), Unsubscribe: &protocol.UnsubscribeRequest{Channel: ch}})
				} else {
					other.Cmd(&protocol.Command{Id: other.NextID(), Subscribe: &protocol.SubscribeRequest{Channel: ch}})
				}
				otherSubscribed[ch] = !otherSubscribed[ch]
			}
			vfSettle()
		}
		w.Gates.ReleaseAll()
		vfSettle()
		time.Sleep(200 * time.Millisecond)
		vfSettle()
		ops.Wait()
		time.Sleep(6 * time.Second)
		vfSettle()

		// ---- oracle ---------------------------------------------------------------------------------------------
		for i, st := range states {
			frames := st.conn.Frames()
			if len(frames) == 0 {
				if st.started {
					out.label("started_conn_wrote_nothing")
				}
				continue
			}
			early, replyIdx, errIdx, bad := vfC11Early(frames, st.connectID)
			if bad != "" {
				return fmt.Sprintf("conn %d: %s", i, bad)
			}
			if replyIdx >= 0 {
				out.label("connect_reply_written")
				if len(frames) > replyIdx+1 {
					out.label("frames_after_connect_reply")
				}
			} else if errIdx >= 0 {
				out.label("connect_error_reply")
			} else {
				out.label("no_reply_to_connect")
			}
			if st.preRegOps > 0 {
				out.label("op_before_hub_registration")
			}
			for l := range st.winLabels {
				out.label("window_" + l)
			}
			winOp := st.userOpWin || len(st.pub0InWin) > 0
			if winOp {
				out.nontrivial = true
				out.label("push_producing_op_in_window")
			}
			for _, ei := range early {
				p := frames[ei].Reply.Push
				desc := fmt.Sprintf("conn %d: frame %d (%s) was written before the reply to the connect command (#%d); frames: %s", i, ei,
					vfRenderReply(frames[ei].Reply), st.connectID, vfRenderFrames(frames))
				if p == nil {
					return desc
				}
				key := ""
				switch {
				case p.Disconnect != nil:
					// a disconnect push that is followed by further frames or precedes a reply
					return "disconnect push is not the last message: " + desc
				case st.userOpWin && (p.Subscribe != nil || p.Unsubscribe != nil || p.Refresh != nil || p.Message != nil ||
					((p.Pub != nil || p.Join != nil || p.Leave != nil) && st.subscribed[p.Channel])):
					key = vfC11KeyUserOp
				}
				if key == "" {
					return desc
				}
				if !isKnown(key) {
					return "[" + key + "] " + desc
				}
				out.known = append(out.known, key)
				out.knownEx = desc
			}
		}
		return ""
	})
}

func vfC11Finish(c *vfCase, out *vfC11Out, nontrivialKey string) {
	seen := map[string]bool{}
	for _, l := range out.labels {
		if !seen[l] {
			seen[l] = true
			c.Label(l)
		}
	}
	seenK := map[string]bool{}
	for _, k := range out.known {
		if !seenK[k] {
			seenK[k] = true
			c.Known(k, out.knownEx)
		}
	}
	if out.nontrivial {
		c.Nontrivial(nontrivialKey)
	}
}

func TestVF_C11_FirstMessage(t *testing.T) {
	vfCheck(t, "C11", func(rt *rapid.T, c *vfCase) string {
		cs := vfC11GenA(rt)
		c.Describe("first-message: " + cs.String())
		out := &vfC11Out{}
		msg := vfC11RunA(t, cs, out, c.IsKnown)
		vfC11Finish(c, out, "a:"+cs.String())
		return msg
	})
}

// ---------------------------------------------------------------------------------------------------------------
// dictionary doubles shared by parts (b) and (c)

type vfC11Ev struct {
	Seq  int64
	Kind string
	Who  string
	Info string
}

type vfC11Log struct {
	w  *vfWorld
	mu sync.Mutex
	ev []vfC11Ev
}

func (l *vfC11Log) add(kind, who, info string) int64 {
	seq := l.w.seq.Add(1)
	l.mu.Lock()
	l.ev = append(l.ev, vfC11Ev{Seq: seq, Kind: kind, Who: who, Info: info})
	l.mu.Unlock()
	return seq
}

func (l *vfC11Log) events() []vfC11Ev {
	l.mu.Lock()
	defer l.mu.Unlock()
	out := append([]vfC11Ev(nil), l.ev...)
	sort.Slice(out, func(i, j int) bool { return out[i].Seq < out[j].Seq })
	return out
}

type vfC11Enc struct {
	In, Out []byte
	Binary  bool
}

// vfC11Codec is a recording DictionaryConnection with enter/exit counters.
type vfC11Codec struct {
	log     *vfC11Log
	gates   *vfGates
	who     string
	dict    *protocol.Dictionary
	binMode int // 0 never, 1 always, 2 by input length parity

	mu         sync.Mutex
	encActive  int
	closeCount int
	dictCalls  int
	encs       []vfC11Enc
	problems   []string
}

func (c *vfC11Codec) Dictionary() *protocol.Dictionary {
	c.mu.Lock()
	c.dictCalls++
	c.mu.Unlock()
	c.log.add("dictionary", c.who, "")
	c.gates.Pass("dict:" + c.who)
	return c.dict
}

func (c *vfC11Codec) Encode(frame []byte) ([]byte, bool) {
	c.mu.Lock()
	if c.closeCount > 0 {
		c.problems = append(c.problems, "Encode called after Close")
	}
	c.encActive++
	c.mu.Unlock()
	c.log.add("encode-enter", c.who, "")
	c.gates.Pass("enc:" + c.who)
	in := append([]byte(nil), frame...)
	outB := make([]byte, 0, len(frame)+2)
	outB = append(outB, 0xFD, byte(len(frame)))
	for _, b := range frame {
		outB = append(outB, b^0x5A)
	}
	bin := c.binMode == 1 || (c.binMode == 2 && len(frame)%2 == 1)
	c.mu.Lock()
	c.encs = append(c.encs, vfC11Enc{In: in, Out: append([]byte(nil), outB...), Binary: bin})
	c.encActive--
	if c.closeCount > 0 {
		c.problems = append(c.problems, "Close ran while an Encode was in progress (Encode returned after Close)")
	}
	c.mu.Unlock()
	c.log.add("encode-exit", c.who, "")
	return outB, bin
}

func (c *vfC11Codec) Close() {
	c.mu.Lock()
	if c.encActive > 0 {
		c.problems = append(c.problems, "Close called while an Encode is in progress")
	}
	c.closeCount++
	if c.closeCount > 1 {
		c.problems = append(c.problems, fmt.Sprintf("Close called %d times", c.closeCount))
	}
	c.mu.Unlock()
	c.log.add("codec-close", c.who, "")
}

func (c *vfC11Codec) snapshot() (closeCount int, encs []vfC11Enc, problems []string, dictCalls int) {
	c.mu.Lock()
	defer c.mu.Unlock()
	return c.closeCount, append([]vfC11Enc(nil), c.encs...), append([]string(nil), c.problems...), c.dictCalls
}

// vfC11Engine: behaviour per user id.
type vfC11EngineCfg struct {
	Mode    int // 0 nil codec, 1 dictionary bytes, 2 id only = held id, 3 id only, id never advertised (backstop), 4 codec with nil Dictionary
	BinMode int
}

type vfC11Engine struct {
	log   *vfC11Log
	gates *vfGates
	mu    sync.Mutex
	cfg   map[string]vfC11EngineCfg // by user id
	calls map[string][]DictionaryConnectionParams
	made  map[string][]*vfC11Codec
}

func (e *vfC11Engine) NewDictionaryConnection(p DictionaryConnectionParams) DictionaryConnection {
	e.mu.Lock()
	cfg := e.cfg[p.UserID]
	e.calls[p.UserID] = append(e.calls[p.UserID], p)
	e.mu.Unlock()
	e.log.add("engine-new", p.UserID, "")
	e.gates.Pass("engine:" + p.UserID)
	if cfg.Mode == 0 || p.ClientFlags&ConnectionFlagDictionaryCompression == 0 {
		// a client that did not advertise the capability cannot decode: the documented answer is nil
		return nil
	}
	c := &vfC11Codec{log: e.log, gates: e.gates, who: p.UserID, binMode: cfg.BinMode}
	switch cfg.Mode {
	case 1:
		c.dict = &protocol.Dictionary{Id: "dict-1"}
		if p.ProtocolType == ProtocolTypeJSON {
			c.dict.DataB64 = "ZGljdGlvbmFyeQ"
		} else {
			c.dict.Data = []byte("dictionary-bytes")
		}
	case 2:
		c.dict = &protocol.Dictionary{Id: p.HeldDictionaryID}
	case 3:
		c.dict = &protocol.Dictionary{Id: "never-advertised"}
	}
	e.mu.Lock()
	e.made[p.UserID] = append(e.made[p.UserID], c)
	e.mu.Unlock()
	return c
}

// ---------------------------------------------------------------------------------------------------------------
// part (b): transport double implementing DictionaryAwareTransport

type vfC11DFrame struct {
	Call    int64 // sequence number of the Write / WriteMany call that carried the frame (one wire message on a real transport)
	Seq     int64
	Raw     []byte
	Encoded bool
	Reply   *protocol.Reply
	Err     error
}

type vfC11DT struct {
	w     *vfWorld
	log   *vfC11Log
	name  string
	proto ProtocolType

	mu       sync.Mutex
	pending  DictionaryConnection
	active   DictionaryConnection
	frames   []vfC11DFrame
	closed   bool
	inWrite  int
	setCalls int
	cdcCalls int
}

func (t *vfC11DT) Name() string                     { return "vfdict" }
func (t *vfC11DT) AcceptProtocol() string           { return "" }
func (t *vfC11DT) Protocol() ProtocolType           { return t.proto }
func (t *vfC11DT) ProtocolVersion() ProtocolVersion { return ProtocolVersion2 }
func (t *vfC11DT) Unidirectional() bool             { return false }
func (t *vfC11DT) Emulation() bool                  { return false }
func (t *vfC11DT) DisabledPushFlags() uint64        { return 0 }
func (t *vfC11DT) PingPongConfig() PingPongConfig {
	return PingPongConfig{PingInterval: -1, PongTimeout: -1}
}

func (t *vfC11DT) SetDictionaryCompression(cc DictionaryConnection) {
	t.mu.Lock()
	t.pending = cc
	t.setCalls++
	t.mu.Unlock()
	t.log.add("set", t.name, "")
}

func (t *vfC11DT) CloseDictionaryCompression() {
	t.mu.Lock()
	t.cdcCalls++
	cc := t.active
	t.active = nil
	if cc == nil {
		cc = t.pending
		t.pending = nil
	}
	inWrite := t.inWrite
	t.mu.Unlock()
	t.log.add("closeDC", t.name, fmt.Sprintf("inWrite=%d codec=%v", inWrite, cc != nil))
	if cc != nil {
		cc.Close()
	}
}

func (t *vfC11DT) Write(data []byte) error { return t.WriteMany(data) }

func (t *vfC11DT) WriteMany(data ...[]byte) error {
	t.mu.Lock()
	t.inWrite++
	closed := t.closed
	cc := t.active
	if !closed && cc == nil && t.pending != nil {
		t.active, t.pending = t.pending, nil
	}
	t.mu.Unlock()
	call := t.log.add("write-begin", t.name, fmt.Sprintf("n=%d closed=%v", len(data), closed))
	defer func() {
		t.mu.Lock()
		t.inWrite--
		t.mu.Unlock()
		t.log.add("write-end", t.name, "")
	}()
	if closed {
		return fmt.Errorf("vf: transport closed")
	}
	for _, d := range data {
		cp := append([]byte(nil), d...)
		if cc != nil {
			_, _ = cc.Encode(cp)
		}
		rep, err := vfDecodeFrame(t.proto, false, cp)
		t.mu.Lock()
		t.frames = append(t.frames, vfC11DFrame{Call: call, Seq: t.w.seq.Add(1), Raw: cp, Encoded: cc != nil, Reply: rep, Err: err})
		t.mu.Unlock()
	}
	return nil
}

func (t *vfC11DT) Close(d Disconnect) error {
	t.mu.Lock()
	t.closed = true
	t.mu.Unlock()
	t.log.add("transport-close", t.name, fmt.Sprintf("code=%d", d.Code))
	return nil
}

func (t *vfC11DT) Frames() []vfC11DFrame {
	t.mu.Lock()
	defer t.mu.Unlock()
	return append([]vfC11DFrame(nil), t.frames...)
}

type vfC11DStep struct {
	Kind int // 0 connect, 1 publish(hist), 2 send via hub, 3 rpc command, 4 nodeRefresh, 5 nodeSubscribe, 6 release, 7 close, 8 rpc parked in Encode raced by close, 9 advance, 10 burst of publishes
	Hist bool
	Idx  int
	How  int // close: 0 transport close, 1 node.Disconnect, 2 Client.Disconnect
	Ms   int
}

type vfC11DCase struct {
	WS            bool
	Proto         ProtocolType
	RWQ           bool
	Engine        vfC11EngineCfg
	Advertise     bool
	HeldID        string
	Profile       string
	GateConn      bool
	GateEngine    bool
	GateDict      bool
	SubKind       int // -1 none, else vfC11Sub kind for the one connect-time subscription
	WriteDelayMs  int
	WriteTimer    bool
	GraceClosed   bool
	Steps         []vfC11DStep
}

func (s vfC11DStep) String() string {
	switch s.Kind {
	case 0:
		return "connect"
	case 1:
		return fmt.Sprintf("publish(hist=%v)", s.Hist)
	case 2:
		return "send"
	case 3:
		return "rpc"
	case 4:
		return "nodeRefresh"
	case 5:
		return "nodeSubscribe"
	case 6:
		return fmt.Sprintf("release(%d)", s.Idx)
	case 7:
		return fmt.Sprintf("close(%s)", []string{"transport", "node.Disconnect", "client.Disconnect"}[s.How])
	case 8:
		return fmt.Sprintf("rpcParkedInEncode+close(%s)", []string{"transport", "node.Disconnect", "client.Disconnect"}[s.How])
	case 9:
		return fmt.Sprintf("adv(%dms)", s.Ms)
	}
	return fmt.Sprintf("burst(%d)", s.Idx)
}

func (c vfC11DCase) String() string {
	st := make([]string, len(c.Steps))
	for i, s := range c.Steps {
		st[i] = s.String()
	}
	return fmt.Sprintf("ws=%v %s rwq=%v engine(mode=%d bin=%d) advertise=%v held=%q profile=%q gates(connecting=%v engine=%v dict=%v) sub=%d writeDelay=%dms timer=%v grace=%v steps=[%s]",
		c.WS, c.Proto, c.RWQ, c.Engine.Mode, c.Engine.BinMode, c.Advertise, c.HeldID, c.Profile, c.GateConn, c.GateEngine, c.GateDict, c.SubKind,
		c.WriteDelayMs, c.WriteTimer, c.GraceClosed, strings.Join(st, " "))
}

func vfC11GenD(rt *rapid.T, ws bool) vfC11DCase {
	c := vfC11DCase{WS: ws}
	c.Proto = rapid.SampledFrom([]ProtocolType{ProtocolTypeJSON, ProtocolTypeProtobuf}).Draw(rt, "proto")
	c.RWQ = rapid.IntRange(0, 2).Draw(rt, "rwq") == 0
	c.Engine.Mode = rapid.SampledFrom([]int{0, 1, 1, 1, 1, 1, 2, 2, 2, 3, 4}).Draw(rt, "engineMode")
	c.Engine.BinMode = rapid.IntRange(0, 2).Draw(rt, "binMode")
	c.Advertise = rapid.IntRange(0, 7).Draw(rt, "advertise") > 0
	c.HeldID = rapid.SampledFrom([]string{"", "", "held-1"}).Draw(rt, "held")
	c.Profile = rapid.SampledFrom([]string{"", "p1"}).Draw(rt, "profile")
	c.GateConn = rapid.IntRange(0, 5).Draw(rt, "gateConn") == 0
	c.GateEngine = rapid.IntRange(0, 3).Draw(rt, "gateEngine") == 0
	c.GateDict = rapid.IntRange(0, 4).Draw(rt, "gateDict") == 0
	c.SubKind = rapid.SampledFrom([]int{-1, -1, 0, 2, 2, 4}).Draw(rt, "subKind")
	c.WriteDelayMs = rapid.SampledFrom([]int{0, 0, 0, 20}).Draw(rt, "writeDelay")
	c.WriteTimer = rapid.Bool().Draw(rt, "writeTimer")
	// The closing handshake wait (5 s inside websocketTransport.Close, with Client.close holding connectMu) would leave
	// library-spawned second close() calls blocked on a mutex, which a synctest bubble cannot wait out: the peer's close
	// frame has always been seen already.
	c.GraceClosed = true
	n := rapid.IntRange(4, 16).Draw(rt, "nsteps")
	c.Steps = append(c.Steps, vfC11DStep{Kind: 0})
	for i := 1; i < n; i++ {
		k := rapid.SampledFrom([]int{1, 1, 1, 2, 2, 2, 3, 3, 4, 5, 6, 6, 6, 7, 8, 9, 10}).Draw(rt, "kind")
		s := vfC11DStep{Kind: k}
		switch k {
		case 1:
			s.Hist = rapid.Bool().Draw(rt, "hist")
		case 6:
			s.Idx = rapid.IntRange(0, 3).Draw(rt, "idx")
		case 7, 8:
			s.How = rapid.IntRange(0, 2).Draw(rt, "how")
		case 9:
			s.Ms = rapid.SampledFrom([]int{20, 100, 500}).Draw(rt, "ms")
		case 10:
			s.Idx = rapid.IntRange(2, 5).Draw(rt, "burst")
		}
		c.Steps = append(c.Steps, s)
	}
	return c
}

// vfC11SplitBatch splits what websocketTransport.Write / WriteMany hands to writeData into protocol messages.
func vfC11SplitBatch(proto ProtocolType, b []byte) ([][]byte, error) {
	var outB [][]byte
	if proto == ProtocolTypeJSON {
		for _, p := range bytes.Split(b, []byte("\n")) {
			if len(p) > 0 {
				outB = append(outB, p)
			}
		}
		return outB, nil
	}
	for len(b) > 0 {
		n, k := binary.Uvarint(b)
		if k <= 0 || int(n) > len(b)-k {
			return nil, fmt.Errorf("bad length prefix")
		}
		outB = append(outB, b[k:k+int(n)])
		b = b[k+int(n):]
	}
	return outB, nil
}

// in-memory websocket plumbing (own copy; see c31_transport_test.go for the idea)

type vfC11Addr struct{}

func (vfC11Addr) Network() string { return "vf" }
func (vfC11Addr) String() string  { return "vf" }

type vfC11NetConn struct {
	mu     sync.Mutex
	out    []byte
	closed bool
}

func (c *vfC11NetConn) Read(b []byte) (int, error) { return 0, io.EOF }
func (c *vfC11NetConn) Write(b []byte) (int, error) {
	c.mu.Lock()
	defer c.mu.Unlock()
	if c.closed {
		return 0, net.ErrClosed
	}
	c.out = append(c.out, b...)
	return len(b), nil
}
func (c *vfC11NetConn) Close() error {
	c.mu.Lock()
	c.closed = true
	c.mu.Unlock()
	return nil
}
func (c *vfC11NetConn) LocalAddr() net.Addr                { return vfC11Addr{} }
func (c *vfC11NetConn) RemoteAddr() net.Addr               { return vfC11Addr{} }
func (c *vfC11NetConn) SetDeadline(t time.Time) error      { return nil }
func (c *vfC11NetConn) SetReadDeadline(t time.Time) error  { return nil }
func (c *vfC11NetConn) SetWriteDeadline(t time.Time) error { return nil }
func (c *vfC11NetConn) bytes() []byte {
	c.mu.Lock()
	defer c.mu.Unlock()
	return append([]byte(nil), c.out...)
}

type vfC11RW struct {
	hdr  http.Header
	conn *vfC11NetConn
}

func (w *vfC11RW) Header() http.Header         { return w.hdr }
func (w *vfC11RW) Write(b []byte) (int, error) { return len(b), nil }
func (w *vfC11RW) WriteHeader(code int)        {}
func (w *vfC11RW) Hijack() (net.Conn, *bufio.ReadWriter, error) {
	return w.conn, bufio.NewReadWriter(bufio.NewReaderSize(w.conn, 4096), bufio.NewWriterSize(w.conn, 4096)), nil
}

func vfC11Upgrade() (*websocket.Conn, *vfC11NetConn, int, error) {
	nc := &vfC11NetConn{}
	rw := &vfC11RW{hdr: http.Header{}, conn: nc}
	req := &http.Request{Method: "GET", URL: &url.URL{Path: "/connection/websocket"}, Proto: "HTTP/1.1", ProtoMajor: 1, ProtoMinor: 1,
		Header: http.Header{}, Host: "example.com", Body: http.NoBody}
	req.Header["Connection"] = []string{"Upgrade"}
	req.Header["Upgrade"] = []string{"websocket"}
	req.Header["Sec-Websocket-Version"] = []string{"13"}
	req.Header["Sec-Websocket-Key"] = []string{"dGhlIHNhbXBsZSBub25jZQ=="}
	up := websocket.Upgrader{}
	conn, _, err := up.Upgrade(rw, req, nil)
	if err != nil {
		return nil, nil, 0, err
	}
	return conn, nc, len(nc.bytes()), nil
}

type vfC11WSMsg struct {
	Opcode  byte
	Payload []byte
}

// vfC11ParseWS parses unmasked server-to-client frames into messages (fragments joined; control frames kept).
func vfC11ParseWS(b []byte) ([]vfC11WSMsg, error) {
	var msgs []vfC11WSMsg
	var cur *vfC11WSMsg
	for len(b) > 0 {
		if len(b) < 2 {
			return msgs, fmt.Errorf("truncated frame header")
		}
		fin := b[0]&0x80 != 0
		if b[0]&0x70 != 0 {
			return msgs, fmt.Errorf("reserved bits set without a negotiated extension: %#x", b[0])
		}
		op := b[0] & 0x0f
		if b[1]&0x80 != 0 {
			return msgs, fmt.Errorf("masked server frame")
		}
		n := uint64(b[1] & 0x7f)
		b = b[2:]
		switch n {
		case 126:
			if len(b) < 2 {
				return msgs, fmt.Errorf("truncated length")
			}
			n = uint64(binary.BigEndian.Uint16(b))
			b = b[2:]
		case 127:
			if len(b) < 8 {
				return msgs, fmt.Errorf("truncated length")
			}
			n = binary.BigEndian.Uint64(b)
			b = b[8:]
		}
		if uint64(len(b)) < n {
			return msgs, fmt.Errorf("truncated payload")
		}
		p := b[:n]
		b = b[n:]
		switch {
		case op >= 8:
			msgs = append(msgs, vfC11WSMsg{Opcode: op, Payload: append([]byte(nil), p...)})
		case op == 0:
			if cur == nil {
				return msgs, fmt.Errorf("continuation without a start frame")
			}
			cur.Payload = append(cur.Payload, p...)
			if fin {
				msgs = append(msgs, *cur)
				cur = nil
			}
		default:
			if cur != nil {
				return msgs, fmt.Errorf("new data frame inside a fragmented message")
			}
			m := vfC11WSMsg{Opcode: op, Payload: append([]byte(nil), p...)}
			if fin {
				msgs = append(msgs, m)
			} else {
				cur = &m
			}
		}
	}
	if cur != nil {
		return msgs, fmt.Errorf("unfinished fragmented message")
	}
	return msgs, nil
}

func vfC11RunD(t *testing.T, cs vfC11DCase, out *vfC11Out, isKnown func(string) bool) string {
	return vfBubble(t, func() string {
		const user = "du"
		const name = "d"
		var lg *vfC11Log
		var eng *vfC11Engine
		gates := vfNewGates()
		lg = &vfC11Log{}
		eng = &vfC11Engine{log: lg, gates: gates, cfg: map[string]vfC11EngineCfg{user: cs.Engine}, calls: map[string][]DictionaryConnectionParams{},
			made: map[string][]*vfC11Codec{}}
		w, err := vfNewWorld(Config{DictionaryCompression: eng}, nil)
		if err != nil {
			return "infra: " + err.Error()
		}
		lg.w = w
		w.Gates = gates
		defer w.Close()

		subCh := ""
		var sub vfC11Sub
		if cs.SubKind >= 0 {
			subCh = "dc"
			sub = vfC11Sub{Kind: cs.SubKind}
		}
		w.broker.Hook = func(op, phase, ch string) error {
			if op == "history" && phase == "after" && ch == subCh {
				w.Gates.Pass("hist:" + ch)
			}
			return nil
		}
		w.node.SetPresenceManager(&vfC11Presence{inner: w.node.presenceManager, pass: func(ch string) {
			if ch == subCh {
				w.Gates.Pass("pres:" + ch)
			}
		}})
		w.Connecting = func(c *vfConn, e ConnectEvent) (ConnectReply, error) {
			if cs.GateConn {
				w.Gates.Pass("connecting:" + name)
			}
			r := ConnectReply{Credentials: &Credentials{UserID: c.User}, ReplyWithoutQueue: cs.RWQ, Profile: cs.Profile,
				WriteDelay: time.Duration(cs.WriteDelayMs) * time.Millisecond, WriteWithTimer: cs.WriteTimer}
			if subCh != "" {
				r.Subscriptions = map[string]SubscribeOptions{subCh: vfC11SubOpts(sub)}
			}
			lg.add("connecting-return", name, "")
			return r, nil
		}
		w.PerClient = func(c *vfConn, client *Client) {
			client.OnRPC(func(e RPCEvent, cb RPCCallback) { cb(RPCReply{Data: []byte(`{"r":1}`)}, nil) })
		}

		// connection
		var tr Transport
		var dt *vfC11DT
		var nc *vfC11NetConn
		mark := 0
		if cs.WS {
			wsConn, netConn, m, err := vfC11Upgrade()
			if err != nil {
				return "infra: upgrade: " + err.Error()
			}
			nc, mark = netConn, m
			graceCh := make(chan struct{})
			if cs.GraceClosed {
				close(graceCh)
			}
			tr = newWebsocketTransport(wsConn, websocketTransportOptions{protoType: cs.Proto, protoMajor: 1,
				pingPong: PingPongConfig{PingInterval: -1, PongTimeout: -1}}, graceCh, false)
		} else {
			dt = &vfC11DT{w: w, log: lg, name: name, proto: cs.Proto}
			tr = dt
		}
		ctx, cancel := context.WithCancel(context.Background())
		client, closeF, err := NewClient(ctx, w.node, tr)
		if err != nil {
			cancel()
			return "infra: NewClient: " + err.Error()
		}
		vc := &vfConn{w: w, Name: name, User: user, Client: client, T: &vfTransport{w: w, name: name, proto: cs.Proto, closeCh: make(chan struct{})},
			cancel: cancel, closeF: closeF}
		w.mu.Lock()
		w.conns[client.ID()] = vc
		w.mu.Unlock()

		var ops sync.WaitGroup
		goOp := func(f func()) {
			ops.Add(1)
			go func() { defer ops.Done(); f() }()
		}
		var returned atomic.Bool
		started, closeIssued := false, false
		var connectID uint32
		hubHas := func() bool {
			_, ok := w.node.hub.UserConnections(user)[client.ID()]
			return ok
		}
		inWindow := func() bool {
			return started && !returned.Load() && subCh != "" && (w.Gates.Waiting("pres:"+subCh) > 0 || w.Gates.Waiting("hist:"+subCh) > 0)
		}
		preReg := func() bool { return started && !returned.Load() && !inWindow() }
		_ = hubHas
		pub0InWin, preRegOps, closeDuringConnect, raceTried := false, 0, false, false
		counter := 0
		publish := func(hist bool) {
			if subCh == "" {
				// no subscription to publish to: a message push instead (once the connect has returned)
				if returned.Load() {
					for _, cl := range w.node.hub.UserConnections(user) {
						_ = cl.Send([]byte(`{"m":2}`))
					}
				}
				return
			}
			counter++
			data := []byte(fmt.Sprintf(`{"n":%d}`, counter))
			if hist {
				_, _ = w.node.Publish(subCh, data, WithHistory(10, 120*time.Second))
			} else {
				_, _ = w.node.Publish(subCh, data)
			}
		}
		doClose := func(how int) {
			switch how {
			case 0:
				vc.TransportClose()
			case 1:
				_ = w.node.Disconnect(user)
			default:
				client.Disconnect(DisconnectForceReconnect)
			}
		}
		totalAdv := 0
		for si, s := range cs.Steps {
			_ = si
			switch s.Kind {
			case 0:
				if started {
					continue
				}
				started = true
				if cs.GateConn {
					w.Gates.Arm("connecting:"+name, 1)
				}
				if cs.GateEngine {
					w.Gates.Arm("engine:"+user, 1)
				}
				if cs.GateDict {
					w.Gates.Arm("dict:"+user, 1)
				}
				if subCh != "" && sub.presence() {
					w.Gates.Arm("pres:"+subCh, 1)
				}
				if subCh != "" && sub.positioned() {
					w.Gates.Arm("hist:"+subCh, 1)
				}
				req := &protocol.ConnectRequest{Dict: cs.HeldID}
				if cs.Advertise {
					req.Flag = ConnectionFlagDictionaryCompression
				}
				connectID = vc.NextID()
				id := connectID
				goOp(func() {
					client.HandleCommand(&protocol.Command{Id: id, Connect: req}, 0)
					returned.Store(true)
				})
			case 1:
				if inWindow() && !s.Hist {
					pub0InWin = true
				}
				if preReg() {
					preRegOps++
				}
				publish(s.Hist)
			case 2:
				if preReg() {
					preRegOps++
				}
				if inWindow() {
					continue // the push-before-reply finding is part (a)'s subject; keep this window clean here
				}
				for _, cl := range w.node.hub.UserConnections(user) {
					_ = cl.Send([]byte(`{"m":1}`))
				}
			case 3:
				if !returned.Load() || closeIssued {
					continue
				}
				client.HandleCommand(&protocol.Command{Id: vc.NextID(), Rpc: &protocol.RPCRequest{Data: []byte(`{}`)}}, 0)
			case 4, 5:
				if preReg() {
					preRegOps++
				}
				if inWindow() {
					continue
				}
				if s.Kind == 4 {
					goOp(func() { _ = w.node.Refresh(user, WithRefreshExpireAt(time.Now().Unix()+100)) })
				} else {
					goOp(func() { _ = w.node.Subscribe(user, "dx") })
				}
			case 6:
				waiting := w.Gates.AnyWaiting()
				if len(waiting) == 0 {
					continue
				}
				w.Gates.Release(waiting[s.Idx%len(waiting)])
			case 7:
				if closeIssued {
					continue
				}
				closeIssued = true
				if started && !returned.Load() {
					closeDuringConnect = true
					for _, g := range w.Gates.AnyWaiting() {
						out.label("close_while_parked_at_" + strings.SplitN(g, ":", 2)[0])
					}
				}
				how := s.How
				goOp(func() { doClose(how) })
			case 8:
				if closeIssued || !returned.Load() || w.Gates.Waiting("enc:"+user) > 0 {
					continue
				}
				// Park a command reply inside Encode (on the writer goroutine, or - with ReplyWithoutQueue - on the
				// command's own goroutine), start a close, give it time without waiting on the clock, release.
				w.Gates.Arm("enc:"+user, 1)
				id := vc.NextID()
				goOp(func() { client.HandleCommand(&protocol.Command{Id: id, Rpc: &protocol.RPCRequest{Data: []byte(`{}`)}}, 0) })
				vfSettle()
				if w.Gates.Waiting("enc:"+user) == 0 {
					w.Gates.Disarm("enc:" + user)
					continue
				}
				raceTried = true
				closeIssued = true
				how := s.How
				goOp(func() { doClose(how) })
				for y := 0; y < 300; y++ {
					runtime.Gosched()
				}
				w.Gates.Disarm("enc:" + user)
				w.Gates.Release("enc:" + user)
			case 9:
				if totalAdv+s.Ms > 3500 {
					continue
				}
				totalAdv += s.Ms
				time.Sleep(time.Duration(s.Ms) * time.Millisecond)
			case 10:
				if inWindow() {
					continue
				}
				for k := 0; k < s.Idx; k++ {
					publish(true)
				}
			}
			vfSettle()
		}
		w.Gates.ReleaseAll()
		vfSettle()
		time.Sleep(200 * time.Millisecond)
		vfSettle()
		_ = closeIssued
		vc.TransportClose() // no-op when a close already ran (Node.Disconnect before the hub registration reaches nobody)
		vfSettle()
		ops.Wait()
		time.Sleep(6 * time.Second)
		vfSettle()

		// ---- oracle ---------------------------------------------------------------------------------------------
		eng.mu.Lock()
		calls := append([]DictionaryConnectionParams(nil), eng.calls[user]...)
		made := append([]*vfC11Codec(nil), eng.made[user]...)
		eng.mu.Unlock()
		evs := lg.events()
		seqOf := func(kind string) []int64 {
			var o []int64
			for _, e := range evs {
				if e.Kind == kind {
					o = append(o, e.Seq)
				}
			}
			return o
		}
		render := func() string {
			parts := make([]string, 0, len(evs))
			for _, e := range evs {
				if e.Info != "" {
					parts = append(parts, e.Kind+"("+e.Info+")")
				} else {
					parts = append(parts, e.Kind)
				}
			}
			return strings.Join(parts, " ")
		}
		if len(calls) > 1 {
			return fmt.Sprintf("NewDictionaryConnection called %d times for one connection; events: %s", len(calls), render())
		}
		if len(calls) == 1 {
			out.label("engine_called")
			p := calls[0]
			cr := seqOf("connecting-return")
			en := seqOf("engine-new")
			if len(cr) == 0 || en[0] < cr[0] {
				return "NewDictionaryConnection called before OnConnecting returned (before authentication); events: " + render()
			}
			wantFlags := int64(0)
			if cs.Advertise {
				wantFlags = ConnectionFlagDictionaryCompression
			}
			if p.UserID != user || p.ProtocolType != cs.Proto || p.ClientFlags != wantFlags || p.HeldDictionaryID != cs.HeldID || p.Profile != cs.Profile {
				return fmt.Sprintf("NewDictionaryConnection params %+v do not describe the connection (user %s proto %s flags %d held %q profile %q)", p, user, cs.Proto, wantFlags, cs.HeldID, cs.Profile)
			}
		}
		var codec *vfC11Codec
		if len(made) == 1 {
			codec = made[0]
		}
		// the backstop: an id-only dictionary the client never advertised must not be installed
		backstop := codec != nil && cs.Engine.Mode == 3 && cs.HeldID != "never-advertised"
		installed := len(seqOf("set")) > 0
		if len(seqOf("set")) > 1 {
			return "SetDictionaryCompression called more than once; events: " + render()
		}
		if !cs.WS {
			if backstop && installed {
				return "the engine named a dictionary id the client never advertised, yet the codec was installed; events: " + render()
			}
			if codec != nil && !backstop && !installed && cs.Engine.Mode != 0 {
				// the only legal reasons not to install a created codec: none (connectCmd installs right after Dictionary())
				return "a codec returned by NewDictionaryConnection was never installed with SetDictionaryCompression; events: " + render()
			}
		}
		if codec != nil {
			closeCount, encs, problems, dictCalls := codec.snapshot()
			if dictCalls > 1 {
				return fmt.Sprintf("Dictionary() called %d times", dictCalls)
			}
			known := false
			for _, pr := range problems {
				if raceTried && cs.RWQ && !strings.Contains(pr, "times") {
					if isKnown(vfC11KeyRWQ) {
						out.known = append(out.known, vfC11KeyRWQ)
						out.knownEx = pr + "; events: " + vfTrunc(render(), 600)
						known = true
						continue
					}
					return "[" + vfC11KeyRWQ + "] encoder misuse: " + pr + "; events: " + render()
				}
				return "encoder misuse: " + pr + "; events: " + render()
			}
			if closeCount != 1 {
				return fmt.Sprintf("the encoder was closed %d times (want exactly once after the connection went away); events: %s", closeCount, render())
			}
			out.label("codec_closed_once")
			if backstop {
				out.label("backstop_unadvertised_id")
				if len(encs) > 0 {
					return "the backstop-rejected codec was used to encode"
				}
			}
			if len(encs) >= 2 || closeDuringConnect {
				out.nontrivial = true
			}
			if len(encs) >= 2 {
				out.label("two_or_more_encoded_frames")
			}
			if closeDuringConnect {
				out.label("close_raced_connect")
			}
			_ = known
		} else {
			out.label("no_codec")
			if installed {
				return "SetDictionaryCompression called although the engine returned no codec"
			}
		}
		if raceTried {
			out.label("close_raced_parked_encode")
		}
		if preRegOps > 0 {
			out.label("op_before_hub_registration")
		}

		if !cs.WS {
			return vfC11OracleDouble(cs, dt, evs, codec, installed, backstop, connectID, pub0InWin, raceTried, render, out, isKnown)
		}
		return vfC11OracleWS(cs, nc.bytes()[mark:], codec, connectID, pub0InWin, raceTried, out, isKnown)
	})
}

func vfC11OracleDouble(cs vfC11DCase, dt *vfC11DT, evs []vfC11Ev, codec *vfC11Codec, installed, backstop bool, connectID uint32,
	pub0InWin, raceTried bool, render func() string, out *vfC11Out, isKnown func(string) bool) string {
	frames := dt.Frames()
	// event positions
	var setSeq, firstWrite, codecClose int64 = -1, -1, -1
	for _, e := range evs {
		switch e.Kind {
		case "set":
			setSeq = e.Seq
		case "write-begin":
			if firstWrite < 0 && !strings.Contains(e.Info, "closed=true") {
				firstWrite = e.Seq
			}
		case "codec-close":
			if codecClose < 0 {
				codecClose = e.Seq
			}
		}
	}
	_ = firstWrite
	for _, f := range frames {
		if f.Reply != nil && f.Reply.Connect != nil && f.Reply.Id == connectID && installed && setSeq > f.Seq {
			return "SetDictionaryCompression was called after the connect reply was written; events: " + render()
		}
	}
	// no write begins after the codec was closed through CloseDictionaryCompression, none is in progress at that time
	if installed && codecClose >= 0 {
		depth := 0
		for _, e := range evs {
			problem := ""
			switch e.Kind {
			case "write-begin":
				if e.Seq < codecClose {
					depth++
				} else if strings.Contains(e.Info, "closed=true") {
					// a write call on the already closed transport cannot reach the encoder (the real transport returns
					// before writeData): counted, not judged - the statement is about the encoder's use
					out.label("write_call_on_closed_transport_after_codec_close")
				} else {
					problem = "a transport write began after CloseDictionaryCompression closed the codec (the writer had not stopped)"
				}
			case "write-end":
				if e.Seq < codecClose {
					depth--
				}
			case "codec-close":
				if depth > 0 {
					problem = "CloseDictionaryCompression closed the codec while a transport write was in progress"
				}
			}
			if problem != "" {
				if raceTried && cs.RWQ {
					if isKnown(vfC11KeyRWQ) {
						out.known = append(out.known, vfC11KeyRWQ)
						out.knownEx = problem + "; events: " + vfTrunc(render(), 600)
						break
					}
					return "[" + vfC11KeyRWQ + "] " + problem + "; events: " + render()
				}
				return problem + "; events: " + render()
			}
		}
	}
	if len(frames) == 0 {
		return ""
	}
	raw := make([]vfFrame, len(frames))
	for i, f := range frames {
		raw[i] = vfFrame{Seq: f.Seq, Raw: f.Raw, Reply: f.Reply, Err: f.Err}
	}
	early, replyIdx, _, bad := vfC11Early(raw, connectID)
	if bad != "" {
		return bad
	}
	if len(early) > 0 {
		p := raw[early[0]].Reply.Push
		desc := fmt.Sprintf("frame %d (%s) was written before the reply to the connect command", early[0], vfRenderReply(raw[early[0]].Reply))
		if replyIdx >= 0 && frames[replyIdx].Encoded {
			desc += " and the connect reply itself went through the encoder"
		}
		desc += "; frames: " + vfRenderFrames(raw)
		_ = p
		return desc
	}
	if replyIdx >= 0 {
		out.label("connect_reply_written")
		rep := raw[replyIdx].Reply.Connect
		if frames[replyIdx].Encoded {
			return "the connect reply went through the encoder; frames: " + vfRenderFrames(raw)
		}
		accepted := rep.Flag&ConnectionFlagDictionaryCompression != 0
		if accepted != installed {
			return fmt.Sprintf("connect reply flag says compression accepted=%v but a codec was installed=%v", accepted, installed)
		}
		if installed {
			want := codec.dict
			got := rep.Dict
			if (want == nil) != (got == nil) || (want != nil && (want.Id != got.Id || want.DataB64 != got.DataB64 || !bytes.Equal(want.Data, got.Data))) {
				return fmt.Sprintf("connect reply dictionary %v differs from what the codec returned %v", got, want)
			}
		} else if rep.Dict != nil {
			return "connect reply carries a dictionary although no codec was installed"
		}
		if installed {
			for i := replyIdx + 1; i < len(frames); i++ {
				if frames[i].Call == frames[replyIdx].Call {
					continue // batched into the same transport write (one wire message) as the connect reply
				}
				if !frames[i].Encoded {
					return fmt.Sprintf("frame %d after the connect reply did not go through the encoder; frames: %s", i, vfRenderFrames(raw))
				}
			}
		}
	}
	return ""
}

func vfC11OracleWS(cs vfC11DCase, wire []byte, codec *vfC11Codec, connectID uint32, pub0InWin, raceTried bool, out *vfC11Out, isKnown func(string) bool) string {
	msgs, err := vfC11ParseWS(wire)
	if err != nil {
		return fmt.Sprintf("wire is not a sequence of well-formed websocket frames: %v", err)
	}
	var data []vfC11WSMsg
	for _, m := range msgs {
		if m.Opcode == 1 || m.Opcode == 2 {
			data = append(data, m)
		}
	}
	if len(data) == 0 {
		return ""
	}
	var encs []vfC11Enc
	if codec != nil {
		_, encs, _, _ = codec.snapshot()
	}
	plainOp := byte(1)
	if cs.Proto == ProtocolTypeProtobuf {
		plainOp = 2
	}
	decodeBatch := func(b []byte) ([]vfFrame, error) {
		parts, err := vfC11SplitBatch(cs.Proto, b)
		if err != nil {
			return nil, err
		}
		var fs []vfFrame
		for _, p := range parts {
			rep, err := vfDecodeFrame(cs.Proto, false, p)
			if err != nil {
				return nil, err
			}
			fs = append(fs, vfFrame{Raw: p, Reply: rep})
		}
		return fs, nil
	}
	// message 0 must be raw and start with the connect reply
	first, err := decodeBatch(data[0].Payload)
	if err != nil || len(first) == 0 {
		return fmt.Sprintf("the first wire message is not a plain protocol frame (%v): %q", err, vfTrunc(string(data[0].Payload), 80))
	}
	if data[0].Opcode != plainOp {
		return fmt.Sprintf("the first wire message has opcode %d, want %d", data[0].Opcode, plainOp)
	}
	// all frames in wire order (decoding later messages from the codec's logged inputs)
	all := append([]vfFrame(nil), first...)
	for i := 1; i < len(data); i++ {
		if codec == nil || len(encs) == 0 {
			fs, err := decodeBatch(data[i].Payload)
			if err != nil {
				return fmt.Sprintf("wire message %d is not a plain protocol frame although no codec is active: %v", i, err)
			}
			if data[i].Opcode != plainOp {
				return fmt.Sprintf("wire message %d has opcode %d, want %d", i, data[i].Opcode, plainOp)
			}
			all = append(all, fs...)
			continue
		}
		if i-1 >= len(encs) {
			return fmt.Sprintf("wire message %d did not go through the encoder (only %d Encode calls, %d data messages)", i, len(encs), len(data))
		}
		e := encs[i-1]
		if !bytes.Equal(data[i].Payload, e.Out) {
			return fmt.Sprintf("wire message %d differs from the output of Encode call %d: wire %q, encoder %q", i, i-1, vfTrunc(string(data[i].Payload), 60), vfTrunc(string(e.Out), 60))
		}
		wantOp := plainOp
		if e.Binary {
			wantOp = 2
		}
		if data[i].Opcode != wantOp {
			return fmt.Sprintf("wire message %d has opcode %d, want %d (Encode returned binary=%v on %s)", i, data[i].Opcode, wantOp, e.Binary, cs.Proto)
		}
		fs, err := decodeBatch(e.In)
		if err != nil {
			return fmt.Sprintf("input of Encode call %d is not a protocol frame batch: %v", i-1, err)
		}
		all = append(all, fs...)
	}
	early, replyIdx, _, bad := vfC11Early(all, connectID)
	if bad != "" {
		return bad
	}
	if len(early) > 0 {
		p := all[early[0]].Reply.Push
		desc := fmt.Sprintf("frame %d (%s) reached the wire before the reply to the connect command", early[0], vfRenderReply(all[early[0]].Reply))
		if replyIdx >= len(first) && len(encs) > 0 {
			desc += " and the connect reply itself went out dictionary-compressed"
		}
		desc += "; frames: " + vfRenderFrames(all)
		_ = p
		return desc
	}
	if replyIdx >= 0 {
		out.label("connect_reply_written")
		if replyIdx != 0 {
			return "the connect reply is not the first frame of the first wire message; frames: " + vfRenderFrames(all)
		}
		rep := all[0].Reply.Connect
		accepted := rep.Flag&ConnectionFlagDictionaryCompression != 0
		if accepted && len(data) > 1 && len(encs) == 0 {
			return "compression was accepted in the connect reply but later frames were not encoded"
		}
		if !accepted && len(encs) > 0 {
			return "frames were encoded although the connect reply did not accept compression"
		}
		if accepted {
			out.label("ws_compression_accepted")
		}
	}
	if len(data) > 1 && len(encs) > 0 {
		out.label("ws_encoded_frames_on_wire")
	}
	return ""
}

func TestVF_C11_Dictionary(t *testing.T) {
	vfCheck(t, "C11", func(rt *rapid.T, c *vfCase) string {
		cs := vfC11GenD(rt, false)
		c.Describe("dictionary-double: " + cs.String())
		out := &vfC11Out{}
		msg := vfC11RunD(t, cs, out, c.IsKnown)
		vfC11Finish(c, out, "b:"+cs.String())
		return msg
	})
}

func TestVF_C11_DictionaryWS(t *testing.T) {
	vfCheck(t, "C11", func(rt *rapid.T, c *vfCase) string {
		cs := vfC11GenD(rt, true)
		c.Describe("dictionary-websocket: " + cs.String())
		out := &vfC11Out{}
		msg := vfC11RunD(t, cs, out, c.IsKnown)
		vfC11Finish(c, out, "c:"+cs.String())
		return msg
	})
}
