#!/usr/bin/env python3
"""Run lists of hand-made mutants against the checks (sensitivity evidence).

  tools/mutbatch.py [-j N] [--out results.json] tools/mutants/<file>.json [...] [--only C01,C02]

Each entry: {"prop": "C01", "file": "client.go", "old": "...", "new": "...", "tier": "quick", "note": "...",
             "expected": "caught"|"not-caught", "why_not": "..."}
tools/mut.sh applies `old`->`new` (first occurrence) in a scratch worktree of /repo HEAD, runs `./vf <tier> <prop>`
there and removes the worktree. Outcome per mutant: CAUGHT (exit 1 + VIOLATION), NOT-CAUGHT (exit 0), INFRA (exit 2:
hang / crash of the test process), NOBUILD, NOPATTERN.
"""
import json, subprocess, sys, os
from concurrent.futures import ThreadPoolExecutor

args = sys.argv[1:]
jobs, out, only, files = 1, None, None, []
i = 0
while i < len(args):
    a = args[i]
    if a == "-j":
        jobs = int(args[i + 1]); i += 2
    elif a == "--out":
        out = args[i + 1]; i += 2
    elif a == "--only":
        only = set(args[i + 1].split(",")); i += 2
    else:
        files.append(a); i += 1

ents = []
for f in files:
    for n, e in enumerate(json.load(open(f))):
        e["_src"] = "%s#%d" % (os.path.basename(f), n)
        if only and e["prop"] not in only:
            continue
        ents.append(e)


def run(e):
    r = subprocess.run(["/verif/tools/mut.sh", e["prop"], e.get("tier", "quick"), e["file"], e["old"], e["new"]],
                       capture_output=True, text=True)
    o = r.stdout
    if "pattern not found" in o:
        res = "NOPATTERN"
    elif "DOES NOT BUILD" in o:
        res = "NOBUILD"
    else:
        last = [l for l in o.splitlines() if l.startswith("mutant rc=")]
        rc = last[-1].split("=")[1].split()[0] if last else "?"
        res = {"1": "CAUGHT", "0": "NOT-CAUGHT", "2": "INFRA"}.get(rc, "rc=" + rc)
    viol = [l.strip()[:260] for l in o.splitlines() if "VF-VIOLATION" in l][:1]
    rec = {"src": e["_src"], "prop": e["prop"], "file": e["file"], "note": e.get("note", ""), "expected": e.get("expected", "caught"),
           "result": res, "violation": viol[0] if viol else "", "why_not": e.get("why_not", "")}
    print("%s | %s | %s | exp=%s | %s | %s" % (rec["prop"], rec["src"], rec["result"], rec["expected"], rec["note"][:90], rec["violation"][:140]), flush=True)
    return rec


with ThreadPoolExecutor(max_workers=jobs) as ex:
    recs = list(ex.map(run, ents))
if out:
    old = []
    if os.path.exists(out):
        old = [r for r in json.load(open(out)) if r["src"] not in {x["src"] for x in recs}]
    json.dump(old + recs, open(out, "w"), indent=1)
c = sum(1 for r in recs if r["result"] == "CAUGHT")
print("summary: %d mutants, %d caught, %d not caught, %d other" % (len(recs), c, sum(1 for r in recs if r["result"] == "NOT-CAUGHT"),
                                                                 len(recs) - c - sum(1 for r in recs if r["result"] == "NOT-CAUGHT")))
