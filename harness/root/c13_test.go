package PKGNAME

// C13 — Per-channel batching preserves order and coalesces correctly.
//
// The real perChannelWriter (client_experimental.go) is driven inside a synctest bubble with a recording flushFn.
// Generated script: Add(item{frame type pub/join/leave, key}, channel, that channel's ChannelBatchConfig), virtual
// sleeps (fixed, or exactly up to the next armed timer deadline), delWriter(ch, flush) (what unsubscribe does),
// Close(flush) (what client close does). Each step may or may not wait for quiescence afterwards, so that an
// operation can share its instant with a firing timer.
//
// Oracle: a reference model per channel written from the statement and the documentation of ChannelBatchConfig /
// channelWriter.Add ("starts a delay timer if this is the first item, and flushes immediately if the batch size is
// reached"; latest mode: "join/leave first, then only the newest publication of each key in last-update order",
// key "" is one key). The model state is (items pending since the last flush, armed?, deadline). The only
// nondeterminism is a timer whose deadline equals the current instant while the harness has not waited for
// quiescence: the model then tracks the set of states reachable by firing the timer before or after the operation
// (tiny NFA) and requires the observed flushes (content, order and virtual timestamp) to match one of them.
// Consequences checked by construction: per-channel order, exact coalescing per flush, no item twice, nothing that
// was pending at delWriter(false)/Close(false) ever delivered, everything pending delivered by flush=true, a batch
// never mixes channels.

import (
	"fmt"
	"runtime"
	"runtime/debug"
	"sort"
	"strconv"
	"strings"
	"sync"
	"sync/atomic"
	"testing"
	"testing/synctest"
	"time"

	"github.com/centrifugal/centrifuge/internal/queue"
	"github.com/centrifugal/protocol"
	"pgregory.net/rapid"
)

type vfC13Item struct {
	ID  int
	Ch  string
	FT  protocol.FrameType
	Key string
}

func (it vfC13Item) String() string {
	switch it.FT {
	case protocol.FrameTypePushJoin:
		return fmt.Sprintf("%d:join", it.ID)
	case protocol.FrameTypePushLeave:
		return fmt.Sprintf("%d:leave", it.ID)
	}
	return fmt.Sprintf("%d:pub(%q)", it.ID, it.Key)
}

type vfC13Step struct {
	Op     string // add sleep deadline del close
	Item   vfC13Item
	Ch     string
	D      time.Duration
	Flush  bool
	Settle bool
	OnDue  bool // Ch is replaced at run time by the channel whose deadline the preceding sleepToDeadline hit
}

func (s vfC13Step) String() string {
	t := ""
	if s.Settle {
		t = "."
	}
	if s.OnDue {
		s.Ch = "@due|" + s.Ch
	}
	switch s.Op {
	case "add":
		return fmt.Sprintf("add(%s,%s)%s", s.Ch, s.Item, t)
	case "sleep":
		return fmt.Sprintf("sleep(%s)%s", s.D, t)
	case "deadline":
		return "sleepToDeadline" + t
	case "del":
		return fmt.Sprintf("del(%s,flush=%v)%s", s.Ch, s.Flush, t)
	}
	return fmt.Sprintf("close(flush=%v)%s", s.Flush, t)
}

var vfC13Chans = []string{"a", "b", "c"}
var vfC13Keys = []string{"", "k1", "k2", "k3"}
var vfC13Delays = []time.Duration{0, time.Millisecond, 2 * time.Millisecond, 5 * time.Millisecond, 10 * time.Millisecond, 50 * time.Millisecond}
var vfC13Sleeps = []time.Duration{time.Millisecond, time.Millisecond, 2 * time.Millisecond, 3 * time.Millisecond, 5 * time.Millisecond, 10 * time.Millisecond, 50 * time.Millisecond}

func vfC13GenCfg(rt *rapid.T, label string) ChannelBatchConfig {
	for {
		c := ChannelBatchConfig{
			MaxSize:                int64(rapid.IntRange(0, 4).Draw(rt, label+"_maxSize")),
			MaxDelay:               rapid.SampledFrom(vfC13Delays).Draw(rt, label+"_maxDelay"),
			FlushLatestPublication: rapid.Bool().Draw(rt, label+"_latest"),
		}
		// Client.writeEncodedPushData only routes through the per-channel writer when one of the two is positive.
		if c.MaxSize > 0 || c.MaxDelay > 0 {
			return c
		}
		c.MaxDelay = rapid.SampledFrom(vfC13Delays[1:]).Draw(rt, label+"_maxDelay2")
		return c
	}
}

func vfC13CfgStr(c ChannelBatchConfig) string {
	return fmt.Sprintf("{size=%d delay=%s latest=%v}", c.MaxSize, c.MaxDelay, c.FlushLatestPublication)
}

func vfC13GenItem(rt *rapid.T, id int, ch string) vfC13Item {
	it := vfC13Item{ID: id, Ch: ch}
	switch rapid.IntRange(0, 9).Draw(rt, "ft") {
	case 0:
		it.FT = protocol.FrameTypePushJoin
	case 1:
		it.FT = protocol.FrameTypePushLeave
	default:
		it.FT = protocol.FrameTypePushPublication
		it.Key = rapid.SampledFrom(vfC13Keys).Draw(rt, "key")
	}
	return it
}

func vfC13QueueItem(it vfC13Item) queue.Item {
	return queue.Item{Data: []byte(strconv.Itoa(it.ID)), Channel: it.Ch, Key: it.Key, FrameType: it.FT}
}

// ---- reference model --------------------------------------------------------------------------------------------

type vfC13Batch struct {
	At  time.Duration
	IDs []int
}

func (b vfC13Batch) String() string { return fmt.Sprintf("%v@%s", b.IDs, b.At) }

type vfC13State struct {
	pending  []int
	armed    bool
	deadline time.Duration
}

func (s vfC13State) key() string { return fmt.Sprintf("%v|%v|%d", s.pending, s.armed, s.deadline) }

func (s vfC13State) clone() vfC13State {
	s.pending = append([]int(nil), s.pending...)
	return s
}

// vfC13Coalesce is the statement's description of one flush: everything in order, or in latest mode the join/leave
// pushes in order followed by the newest publication of each key ordered by when the key was last updated.
func vfC13Coalesce(items map[int]vfC13Item, pending []int, latest bool) []int {
	if !latest {
		return append([]int(nil), pending...)
	}
	var out []int
	last := map[string]int{}
	for pos, id := range pending {
		it := items[id]
		if it.FT == protocol.FrameTypePushPublication {
			last[it.Key] = pos
		} else {
			out = append(out, id)
		}
	}
	for pos, id := range pending {
		it := items[id]
		if it.FT == protocol.FrameTypePushPublication && last[it.Key] == pos {
			out = append(out, id)
		}
	}
	return out
}

type vfC13Model struct {
	items    map[int]vfC13Item
	cfg      map[string]ChannelBatchConfig
	frontier map[string][]vfC13State
	// statistics
	sizeFlushArmed, dueRace, coalesced, droppedPending, flushedByClose, timerFlush, branching int
}

type vfC13Alt struct {
	st  vfC13State
	out []vfC13Batch
}

func (m *vfC13Model) flush(s *vfC13State, ch string, at time.Duration, out *[]vfC13Batch) {
	if len(s.pending) > 0 {
		*out = append(*out, vfC13Batch{At: at, IDs: vfC13Coalesce(m.items, s.pending, m.cfg[ch].FlushLatestPublication)})
	}
	s.pending = nil
	s.armed = false
}

// apply performs the synchronous effect of op on s.
func (m *vfC13Model) apply(s *vfC13State, ch string, st *vfC13Step, now time.Duration, out *[]vfC13Batch) {
	cfg := m.cfg[ch]
	switch st.Op {
	case "add":
		wasEmpty := len(s.pending) == 0
		s.pending = append(s.pending, st.Item.ID)
		if wasEmpty && cfg.MaxDelay > 0 {
			s.armed = true
			s.deadline = now + cfg.MaxDelay
		}
		if cfg.MaxSize > 0 && int64(len(vfC13Coalesce(m.items, s.pending, cfg.FlushLatestPublication))) >= cfg.MaxSize {
			m.flush(s, ch, now, out)
		}
	case "del", "close":
		if st.Flush {
			m.flush(s, ch, now, out)
		}
		s.pending = nil
		s.armed = false
	}
}

func vfC13SameBatches(a, b []vfC13Batch) bool {
	if len(a) != len(b) {
		return false
	}
	for i := range a {
		if a[i].At != b[i].At || len(a[i].IDs) != len(b[i].IDs) {
			return false
		}
		for j := range a[i].IDs {
			if a[i].IDs[j] != b[i].IDs[j] {
				return false
			}
		}
	}
	return true
}

// advance moves channel ch's frontier over one step. st == nil: nothing was done to this channel in the step.
// from..now is the virtual time interval the step covered (from < now only for sleeps).
func (m *vfC13Model) advance(ch string, st *vfC13Step, from, now time.Duration, settled bool, obs []vfC13Batch) string {
	var alts []vfC13Alt
	for _, s0 := range m.frontier[ch] {
		base := s0.clone()
		var pre []vfC13Batch
		if now > from {
			// the clock only moves at quiescence: a timer due at `from` has fired, timers inside the interval fire at
			// their deadline
			if base.armed && base.deadline < now {
				at := base.deadline
				if at < from {
					at = from
				}
				m.flush(&base, ch, at, &pre)
			}
		}
		due := base.armed && base.deadline <= now
		for fb := 0; fb < 2; fb++ {
			if fb == 1 && !due {
				break
			}
			s1 := base.clone()
			out := append([]vfC13Batch(nil), pre...)
			if fb == 1 {
				m.flush(&s1, ch, now, &out)
			}
			if st != nil {
				m.apply(&s1, ch, st, now, &out)
			}
			due2 := s1.armed && s1.deadline <= now
			for fa := 0; fa < 2; fa++ {
				if fa == 1 && !due2 {
					break
				}
				s2 := s1.clone()
				out2 := append([]vfC13Batch(nil), out...)
				if fa == 1 {
					m.flush(&s2, ch, now, &out2)
				}
				if settled && s2.armed && s2.deadline <= now {
					continue // at quiescence a due timer has fired
				}
				alts = append(alts, vfC13Alt{st: s2, out: out2})
			}
		}
	}
	seen := map[string]bool{}
	var next []vfC13State
	for _, a := range alts {
		if vfC13SameBatches(a.out, obs) && !seen[a.st.key()] {
			seen[a.st.key()] = true
			next = append(next, a.st)
		}
	}
	if len(next) == 0 {
		var exp []string
		for _, a := range alts {
			exp = append(exp, fmt.Sprintf("%v", a.out))
		}
		sort.Strings(exp)
		return fmt.Sprintf("channel %q cfg=%s: flushed %v, allowed by the model: %s (pending before the step: %v)",
			ch, vfC13CfgStr(m.cfg[ch]), obs, strings.Join(exp, " | "), m.frontier[ch][0].pending)
	}
	if len(alts) > 1 {
		m.branching++
	}
	m.frontier[ch] = next
	return ""
}

// ---- recorder ---------------------------------------------------------------------------------------------------

type vfC13Rec struct {
	mu    sync.Mutex
	start time.Time
	log   []vfC13RecBatch
	seq   *atomic.Int64
}

type vfC13RecBatch struct {
	At    time.Duration
	Ch    string
	IDs   []int
	Mixed bool
	Seq   int64
}

func (r *vfC13Rec) flushFn(items []queue.Item) error {
	b := vfC13RecBatch{At: time.Since(r.start)}
	if r.seq != nil {
		b.Seq = r.seq.Add(1)
	}
	for i, it := range items {
		id, _ := strconv.Atoi(string(it.Data))
		b.IDs = append(b.IDs, id)
		if i == 0 {
			b.Ch = it.Channel
		} else if it.Channel != b.Ch {
			b.Mixed = true
		}
	}
	r.mu.Lock()
	r.log = append(r.log, b)
	r.mu.Unlock()
	return nil
}

func (r *vfC13Rec) since(n int) []vfC13RecBatch {
	r.mu.Lock()
	defer r.mu.Unlock()
	return append([]vfC13RecBatch(nil), r.log[n:]...)
}

// ---- sequential script ------------------------------------------------------------------------------------------

func vfC13Run(cfgs [][]ChannelBatchConfig, steps []vfC13Step, m *vfC13Model) string {
	rec := &vfC13Rec{start: time.Now()}
	pcw := newPerChannelWriter(rec.flushFn)
	epoch := map[string]int{}
	for i, ch := range vfC13Chans {
		m.cfg[ch] = cfgs[i][0]
		m.frontier[ch] = []vfC13State{{}}
	}
	for _, st := range steps {
		if st.Op == "add" {
			m.items[st.Item.ID] = st.Item
		}
	}
	nextCfg := func(ch string) {
		// a new subscription epoch may come with another configuration
		idx := 0
		for i, c := range vfC13Chans {
			if c == ch {
				idx = i
			}
		}
		epoch[ch]++
		m.cfg[ch] = cfgs[idx][epoch[ch]%len(cfgs[idx])]
	}
	now := time.Duration(0)
	seen := 0
	lastDue := ""
	teardown := func() {
		pcw.Close(false)
		vfSettle()
	}
	for i := range steps {
		st := &steps[i]
		from := now
		if st.OnDue && lastDue != "" {
			st.Ch = lastDue
			if st.Op == "add" {
				st.Item.Ch = lastDue
				m.items[st.Item.ID] = st.Item
			}
		}
		// statistics about the state the step starts from
		for _, ch := range vfC13Chans {
			for _, s := range m.frontier[ch] {
				if s.armed && s.deadline <= now && (st.Op == "add" && st.Ch == ch || st.Op == "del" && st.Ch == ch || st.Op == "close") {
					m.dueRace++
				}
				if st.Op == "add" && st.Ch == ch && s.armed && m.cfg[ch].MaxSize > 0 {
					p := append(append([]int(nil), s.pending...), st.Item.ID)
					if int64(len(vfC13Coalesce(m.items, p, m.cfg[ch].FlushLatestPublication))) >= m.cfg[ch].MaxSize {
						m.sizeFlushArmed++
					}
				}
				if (st.Op == "del" && st.Ch == ch || st.Op == "close") && len(s.pending) > 0 {
					if st.Flush {
						m.flushedByClose++
					} else {
						m.droppedPending++
					}
				}
			}
		}
		switch st.Op {
		case "add":
			pcw.Add(vfC13QueueItem(st.Item), st.Ch, m.cfg[st.Ch])
		case "sleep":
			time.Sleep(st.D)
			now += st.D
		case "deadline":
			d := time.Duration(-1)
			lastDue = ""
			for _, ch := range vfC13Chans {
				for _, s := range m.frontier[ch] {
					if s.armed && s.deadline > now && (d < 0 || s.deadline-now < d) {
						d = s.deadline - now
						lastDue = ch
					}
				}
			}
			if d <= 0 {
				d = time.Millisecond
			}
			time.Sleep(d)
			now += d
		case "del":
			pcw.delWriter(st.Ch, st.Flush)
		case "close":
			pcw.Close(st.Flush)
		}
		if st.Settle {
			vfSettle()
		}
		if got := time.Since(rec.start); got != now {
			teardown()
			return fmt.Sprintf("harness: virtual clock %s, model clock %s", got, now)
		}
		obsAll := rec.since(seen)
		seen += len(obsAll)
		obs := map[string][]vfC13Batch{}
		for _, b := range obsAll {
			if b.Mixed {
				teardown()
				return fmt.Sprintf("step %d (%s): a flushed batch mixes channels: %v", i, st, b.IDs)
			}
			if len(b.IDs) == 0 {
				teardown()
				return fmt.Sprintf("step %d (%s): an empty batch was flushed", i, st)
			}
			obs[b.Ch] = append(obs[b.Ch], vfC13Batch{At: b.At, IDs: b.IDs})
		}
		for _, ch := range vfC13Chans {
			var cst *vfC13Step
			if (st.Op == "add" || st.Op == "del") && st.Ch == ch || st.Op == "close" {
				cst = st
			}
			for _, b := range obs[ch] {
				if m.cfg[ch].FlushLatestPublication {
					n := 0
					for _, s := range m.frontier[ch] {
						if len(s.pending) > n {
							n = len(s.pending)
						}
					}
					if len(b.IDs) < n {
						m.coalesced++
					}
				}
			}
			if msg := m.advance(ch, cst, from, now, st.Settle, obs[ch]); msg != "" {
				teardown()
				return fmt.Sprintf("step %d (%s) at t=%s: %s", i, st, now, msg)
			}
			for _, b := range obs[ch] {
				if cst == nil || b.At < now {
					m.timerFlush++
				}
			}
			if cst != nil && (st.Op == "del" || st.Op == "close") {
				nextCfg(ch)
			}
		}
	}
	// ---- end: reach quiescence, then Close(true) must deliver exactly what is still pending -------------------------
	finish := func(name string, st *vfC13Step, settled bool) string {
		obsAll := rec.since(seen)
		seen += len(obsAll)
		obs := map[string][]vfC13Batch{}
		for _, b := range obsAll {
			if b.Mixed || len(b.IDs) == 0 {
				return fmt.Sprintf("%s: malformed batch %v", name, b.IDs)
			}
			obs[b.Ch] = append(obs[b.Ch], vfC13Batch{At: b.At, IDs: b.IDs})
		}
		for _, ch := range vfC13Chans {
			if msg := m.advance(ch, st, now, now, settled, obs[ch]); msg != "" {
				return fmt.Sprintf("%s at t=%s: %s", name, now, msg)
			}
		}
		return ""
	}
	vfSettle()
	if msg := finish("final quiescence", nil, true); msg != "" {
		teardown()
		return msg
	}
	pcw.Close(true)
	vfSettle()
	if msg := finish("final Close(true)", &vfC13Step{Op: "close", Flush: true}, true); msg != "" {
		teardown()
		return msg
	}
	time.Sleep(200 * time.Millisecond)
	vfSettle()
	if extra := rec.since(seen); len(extra) > 0 {
		return fmt.Sprintf("after the final Close(true) and 200ms of quiet, %d more batches were flushed, first %v", len(extra), extra[0].IDs)
	}
	// global: no item twice
	dup := map[int]bool{}
	for _, b := range rec.since(0) {
		for _, id := range b.IDs {
			if dup[id] {
				return fmt.Sprintf("item %d was flushed twice", id)
			}
			dup[id] = true
		}
	}
	return ""
}

// vfC13Bubble is vfBubble with the two GC cycles made optional: they are only needed when a channelWriter armed a
// (pooled) delay timer inside the bubble, and forced GCs dominate the cost of a case.
func vfC13Bubble(t *testing.T, gc func() bool, f func() string) string {
	var out string
	synctest.Test(t, func(st *testing.T) {
		defer func() {
			if r := recover(); r != nil {
				out = fmt.Sprintf("PANIC: %v\n%s", r, debug.Stack())
			}
		}()
		out = f()
	})
	if gc() {
		runtime.GC()
		runtime.GC()
	}
	return out
}

func TestVF_C13(t *testing.T) {
	// Two Ps are enough for the only race of interest here (harness goroutine vs. a waitTimer goroutine) and make
	// the many cross-thread goroutine hand-offs of a bubble several times cheaper than with all cores.
	defer runtime.GOMAXPROCS(runtime.GOMAXPROCS(2))
	vfCheck(t, "C13", func(rt *rapid.T, c *vfCase) string {
		cfgs := make([][]ChannelBatchConfig, len(vfC13Chans))
		var sb strings.Builder
		sb.WriteString("cfg:")
		for i, ch := range vfC13Chans {
			n := rapid.IntRange(1, 2).Draw(rt, "ncfg")
			for j := 0; j < n; j++ {
				cfgs[i] = append(cfgs[i], vfC13GenCfg(rt, ch))
			}
			sb.WriteString(" " + ch + "=")
			for _, cf := range cfgs[i] {
				sb.WriteString(vfC13CfgStr(cf))
			}
		}
		n := rapid.IntRange(1, 40*vfScale()).Draw(rt, "nsteps")
		nch := rapid.IntRange(1, len(vfC13Chans)).Draw(rt, "nch")
		steps := make([]vfC13Step, 0, n)
		id := 0
		for i := 0; i < n; i++ {
			st := vfC13Step{Settle: rapid.IntRange(0, 2).Draw(rt, "settle") > 0}
			r := rapid.IntRange(0, 99).Draw(rt, "op")
			switch {
			case r < 62:
				st.Op = "add"
				st.Ch = vfC13Chans[rapid.IntRange(0, nch-1).Draw(rt, "ch")]
				st.Item = vfC13GenItem(rt, id, st.Ch)
				id++
			case r < 76:
				st.Op = "sleep"
				st.D = rapid.SampledFrom(vfC13Sleeps).Draw(rt, "d")
			case r < 84:
				st.Op = "deadline"
			case r < 90:
				// race: sleep exactly to a deadline without waiting for quiescence, then operate on that channel
				steps = append(steps, vfC13Step{Op: "deadline"})
				st.OnDue = true
				st.Ch = vfC13Chans[rapid.IntRange(0, nch-1).Draw(rt, "ch")]
				switch k := rapid.IntRange(0, 9).Draw(rt, "dueop"); {
				case k < 7:
					st.Op = "add"
					st.Item = vfC13GenItem(rt, id, st.Ch)
					id++
				case k < 9:
					st.Op = "del"
					st.Flush = rapid.Bool().Draw(rt, "flush")
				default:
					st.Op = "close"
					st.Flush = rapid.Bool().Draw(rt, "flush")
				}
			case r < 97:
				st.Op = "del"
				st.Ch = vfC13Chans[rapid.IntRange(0, nch-1).Draw(rt, "ch")]
				st.Flush = rapid.IntRange(0, 3).Draw(rt, "flush") == 0 // unsubscribe uses flush=false
			default:
				st.Op = "close"
				st.Flush = rapid.Bool().Draw(rt, "flush")
			}
			steps = append(steps, st)
		}
		sb.WriteString(" script:")
		for _, s := range steps {
			sb.WriteByte(' ')
			sb.WriteString(s.String())
		}
		c.Describe(sb.String())

		m := &vfC13Model{items: map[int]vfC13Item{}, cfg: map[string]ChannelBatchConfig{}, frontier: map[string][]vfC13State{}}
		usesTimer := false
		for _, cl := range cfgs {
			for _, cf := range cl {
				usesTimer = usesTimer || cf.MaxDelay > 0
			}
		}
		msg := vfC13Bubble(t, func() bool { return usesTimer }, func() string { return vfC13Run(cfgs, steps, m) })

		c.Label("part=sequential")
		if m.sizeFlushArmed > 0 {
			c.Label("size_flush_while_timer_armed")
		}
		if m.dueRace > 0 {
			c.Label("op_at_timer_deadline_instant")
		}
		if m.branching > 0 {
			c.Label("model_branched(timer_vs_op_race)")
		}
		if m.coalesced > 0 {
			c.Label("latest_mode_coalesced")
		}
		if m.droppedPending > 0 {
			c.Label("pending_dropped_by_del/close(false)")
		}
		if m.flushedByClose > 0 {
			c.Label("pending_flushed_by_del/close(true)")
		}
		if m.timerFlush > 0 {
			c.Label("timer_flush")
		}
		if m.sizeFlushArmed > 0 || m.dueRace > 0 {
			c.Nontrivial(sb.String())
		}
		return msg
	})
}

// ---- concurrent adders ------------------------------------------------------------------------------------------

type vfC13PStep struct {
	Item  vfC13Item
	Sleep time.Duration
}

// TestVF_C13_Concurrent: 2-4 producer goroutines add their own items (publication keys are private to a producer) to
// shared channels with virtual sleeps in between; optionally a controller goroutine calls delWriter(ch,false) or
// Close(false) at a drawn instant. Oracle (what remains decidable without a total order of the adds):
//   - a batch never mixes channels, no item is flushed twice;
//   - plain mode: per channel and producer the flushed items are that producer's adds in order; without a dropping
//     controller all of them after the final Close(true);
//   - latest mode: inside a batch join/leave come before publications, no key twice, and two items of the same
//     producer keep that producer's order within their class; per key the flushed publications are a subsequence of
//     the adds, ending (without a dropping controller) with the newest one; join/leave as in plain mode;
//   - an item whose Add returned before delWriter(ch,false)/Close(false) was called never shows up in a batch flushed
//     after that call returned.
func TestVF_C13_Concurrent(t *testing.T) {
	vfCheck(t, "C13", func(rt *rapid.T, c *vfCase) string {
		cfg := map[string]ChannelBatchConfig{}
		var sb strings.Builder
		sb.WriteString("concurrent cfg:")
		nch := rapid.IntRange(1, 2).Draw(rt, "nch")
		for _, ch := range vfC13Chans[:nch] {
			cfg[ch] = vfC13GenCfg(rt, ch)
			sb.WriteString(" " + ch + "=" + vfC13CfgStr(cfg[ch]))
		}
		np := rapid.IntRange(2, 4).Draw(rt, "producers")
		prods := make([][]vfC13PStep, np)
		items := map[int]vfC13Item{}
		for p := range prods {
			n := rapid.IntRange(1, 14).Draw(rt, "n")
			for j := 0; j < n; j++ {
				ch := vfC13Chans[rapid.IntRange(0, nch-1).Draw(rt, "ch")]
				it := vfC13GenItem(rt, p*1000+j, ch)
				if it.FT == protocol.FrameTypePushPublication {
					it.Key = fmt.Sprintf("p%d%s", p, it.Key)
				}
				items[it.ID] = it
				prods[p] = append(prods[p], vfC13PStep{Item: it, Sleep: rapid.SampledFrom([]time.Duration{0, 0, 0, time.Millisecond, 2 * time.Millisecond, 5 * time.Millisecond}).Draw(rt, "sl")})
			}
			fmt.Fprintf(&sb, " P%d:", p)
			for _, s := range prods[p] {
				fmt.Fprintf(&sb, " +%s %s/%s", s.Sleep, s.Item.Ch, s.Item)
			}
		}
		ctl := rapid.IntRange(0, 3).Draw(rt, "ctl") // 0,1 none; 2 delWriter(ch,false); 3 Close(false)
		ctlAt := time.Duration(rapid.IntRange(0, 12).Draw(rt, "ctlAt")) * time.Millisecond
		ctlCh := vfC13Chans[rapid.IntRange(0, nch-1).Draw(rt, "ctlCh")]
		fmt.Fprintf(&sb, " ctl=%d at=%s ch=%s", ctl, ctlAt, ctlCh)
		c.Describe(sb.String())
		c.Label("part=concurrent")
		if ctl >= 2 {
			c.Label("concurrent_del/close(false)")
		}

		usesTimer := false
		for _, cf := range cfg {
			usesTimer = usesTimer || cf.MaxDelay > 0
		}
		msg := vfC13Bubble(t, func() bool { return usesTimer }, func() string {
			var seq atomic.Int64
			rec := &vfC13Rec{start: time.Now(), seq: &seq}
			pcw := newPerChannelWriter(rec.flushFn)
			addedAt := make([]map[int]int64, np) // item id -> sequence stamp taken after Add returned
			var wg sync.WaitGroup
			for p := range prods {
				addedAt[p] = map[int]int64{}
				wg.Add(1)
				go func(p int) {
					defer wg.Done()
					for _, s := range prods[p] {
						if s.Sleep > 0 {
							time.Sleep(s.Sleep)
						}
						pcw.Add(vfC13QueueItem(s.Item), s.Item.Ch, cfg[s.Item.Ch])
						addedAt[p][s.Item.ID] = seq.Add(1)
					}
				}(p)
			}
			var ctlStart, ctlEnd int64
			if ctl >= 2 {
				wg.Add(1)
				go func() {
					defer wg.Done()
					time.Sleep(ctlAt)
					ctlStart = seq.Add(1)
					if ctl == 2 {
						pcw.delWriter(ctlCh, false)
					} else {
						pcw.Close(false)
					}
					ctlEnd = seq.Add(1)
				}()
			}
			wg.Wait()
			vfSettle()
			pcw.Close(true)
			vfSettle()
			time.Sleep(100 * time.Millisecond)
			vfSettle()

			log := rec.since(0)
			seenID := map[int]bool{}
			type pk struct {
				p  int
				ch string
			}
			plainPos := map[pk][]int{}   // flushed non-coalescable items per producer and channel, in flush order
			pubByKey := map[string][]int{} // flushed publications per (channel,key) in flush order (latest mode)
			for _, b := range log {
				if b.Mixed {
					return fmt.Sprintf("a flushed batch mixes channels: %v", b.IDs)
				}
				latest := cfg[b.Ch].FlushLatestPublication
				sawPub := false
				keys := map[string]bool{}
				lastOfProd := map[[2]int]int{}
				for _, id := range b.IDs {
					it, ok := items[id]
					if !ok || it.Ch != b.Ch {
						return fmt.Sprintf("batch %v on channel %q contains unknown or foreign item %d", b.IDs, b.Ch, id)
					}
					if seenID[id] {
						return fmt.Sprintf("item %d flushed twice", id)
					}
					seenID[id] = true
					p := id / 1000
					isPub := it.FT == protocol.FrameTypePushPublication
					if ctl >= 2 && (ctl == 3 || it.Ch == ctlCh) {
						if at, ok := addedAt[p][id]; ok && at < ctlStart && b.Seq > ctlEnd {
							return fmt.Sprintf("item %s was added before delWriter/Close(false) was called but flushed after it returned (batch %v)", it, b.IDs)
						}
					}
					cls := 0
					if latest && isPub {
						cls = 1
						sawPub = true
						if keys[it.Key] {
							return fmt.Sprintf("latest mode: batch %v carries two publications of key %q", b.IDs, it.Key)
						}
						keys[it.Key] = true
						pubByKey[b.Ch+"/"+it.Key] = append(pubByKey[b.Ch+"/"+it.Key], id)
					} else {
						if latest && sawPub {
							return fmt.Sprintf("latest mode: batch %v has join/leave %s after a publication", b.IDs, it)
						}
						plainPos[pk{p, b.Ch}] = append(plainPos[pk{p, b.Ch}], id)
					}
					if prev, ok := lastOfProd[[2]int{p, cls}]; ok && prev > id {
						return fmt.Sprintf("batch %v: items %d and %d of producer %d are not in the order they were added", b.IDs, prev, id, p)
					}
					lastOfProd[[2]int{p, cls}] = id
				}
			}
			// expected per producer/channel sequences
			for p := range prods {
				for _, ch := range vfC13Chans[:nch] {
					latest := cfg[ch].FlushLatestPublication
					var want []int
					for _, s := range prods[p] {
						if s.Item.Ch == ch && !(latest && s.Item.FT == protocol.FrameTypePushPublication) {
							want = append(want, s.Item.ID)
						}
					}
					got := plainPos[pk{p, ch}]
					dropping := ctl == 3 || (ctl == 2 && ch == ctlCh)
					if !dropping {
						if fmt.Sprint(got) != fmt.Sprint(want) && (len(got) > 0 || len(want) > 0) {
							return fmt.Sprintf("channel %q producer %d: flushed %v, added %v (every add must be delivered, in order)", ch, p, got, want)
						}
					} else if !vfC13Subseq(got, want) {
						return fmt.Sprintf("channel %q producer %d: flushed %v is not an order-preserving part of the adds %v", ch, p, got, want)
					}
					if latest {
						byKey := map[string][]int{}
						for _, s := range prods[p] {
							if s.Item.Ch == ch && s.Item.FT == protocol.FrameTypePushPublication {
								byKey[s.Item.Key] = append(byKey[s.Item.Key], s.Item.ID)
							}
						}
						for k, adds := range byKey {
							g := pubByKey[ch+"/"+k]
							if !vfC13Subseq(g, adds) {
								return fmt.Sprintf("channel %q key %q: flushed publications %v are not an order-preserving part of the adds %v", ch, k, g, adds)
							}
							if !dropping && (len(g) == 0 || g[len(g)-1] != adds[len(adds)-1]) {
								return fmt.Sprintf("channel %q key %q: newest publication %d was never delivered (flushed %v)", ch, k, adds[len(adds)-1], g)
							}
						}
					}
				}
			}
			return ""
		})
		for _, cf := range cfg {
			if cf.MaxSize > 1 && cf.MaxDelay > 0 {
				// both triggers live on one channel: size flushes race armed timers
				c.Nontrivial(sb.String())
				c.Label("concurrent_size_and_timer_triggers")
				break
			}
		}
		return msg
	})
}

func vfC13Subseq(got, of []int) bool {
	j := 0
	for _, g := range got {
		for j < len(of) && of[j] != g {
			j++
		}
		if j == len(of) {
			return false
		}
		j++
	}
	return true
}
