package PKGNAME

// vfkit: statistics / evidence / known-finding helpers shared by every in-package harness file.
// This file is copied (package clause substituted) into each package under test by the vf driver.

import (
	"encoding/json"
	"fmt"
	"hash/fnv"
	"os"
	"sort"
	"strconv"
	"strings"
	"sync"
	"testing"

	"pgregory.net/rapid"
)

type vfKnownHit struct {
	Count   int    `json:"count"`
	Example string `json:"example"`
}

type vfStats struct {
	mu         sync.Mutex
	Prop       string                 `json:"property"`
	Evals      int                    `json:"evaluations"`
	NTEvals    int                    `json:"nontrivial_evals"`
	Hashes     map[string]struct{}    `json:"-"`
	HashList   []string               `json:"nontrivial_hashes"`
	Labels     map[string]int         `json:"labels"`
	Samples    []string               `json:"samples"`
	Known      map[string]*vfKnownHit `json:"known"`
	Excluded   int                    `json:"excluded_known"`
	Extra      map[string]any         `json:"extra"`
	knownKeys  map[string]bool
	sampleSeen map[string]bool
}

var (
	vfAllStatsMu sync.Mutex
	vfAllStats   []*vfStats
)

func vfNewStats(prop string) *vfStats {
	s := &vfStats{Prop: prop, Hashes: map[string]struct{}{}, Labels: map[string]int{}, Known: map[string]*vfKnownHit{},
		Extra: map[string]any{}, knownKeys: map[string]bool{}, sampleSeen: map[string]bool{}}
	var keys []string
	_ = json.Unmarshal([]byte(os.Getenv("VF_KNOWN")), &keys)
	for _, k := range keys {
		s.knownKeys[k] = true
	}
	vfAllStatsMu.Lock()
	vfAllStats = append(vfAllStats, s)
	vfAllStatsMu.Unlock()
	return s
}

// vfFlushStats writes all stats of this process to $VF_STATS (list form).
func vfFlushStats() {
	p := os.Getenv("VF_STATS")
	if p == "" {
		return
	}
	vfAllStatsMu.Lock()
	defer vfAllStatsMu.Unlock()
	for _, s := range vfAllStats {
		s.mu.Lock()
		s.HashList = s.HashList[:0]
		for h := range s.Hashes {
			s.HashList = append(s.HashList, h)
		}
		sort.Strings(s.HashList)
		s.mu.Unlock()
	}
	b, _ := json.Marshal(vfAllStats)
	_ = os.WriteFile(p, b, 0o644)
}

// vfCase is the per-execution handle given to a property function.
type vfCase struct {
	st     *vfStats
	desc   string
	nt     bool
	ntKey  string
	labels []string
}

// Label counts a classification label for this case.
func (c *vfCase) Label(l string) { c.labels = append(c.labels, l) }

func (c *vfCase) Labelf(format string, a ...any) { c.labels = append(c.labels, fmt.Sprintf(format, a...)) }

// Nontrivial marks the case non-trivial by the property's stated rule; key identifies the generated value.
func (c *vfCase) Nontrivial(key string) { c.nt = true; c.ntKey = key }

// Describe sets the human-readable rendering of the generated case (used for samples and failure files).
func (c *vfCase) Describe(s string) {
	c.desc = s
	// For checks whose cases are slow enough (the driver sets VF_LASTCASE for them) keep the case about to be
	// executed on disk: if a panic in a library goroutine kills the process, the driver reports it with this case.
	if vfLastCasePath != "" {
		_ = os.WriteFile(vfLastCasePath, []byte(s), 0o644)
	}
}

var vfLastCasePath = os.Getenv("VF_LASTCASE")

// Known reports whether finding key is listed in known_findings.json; if so the hit is counted and the caller
// must exclude the observation (by construction) instead of failing.
func (c *vfCase) Known(key, example string) bool {
	c.st.mu.Lock()
	defer c.st.mu.Unlock()
	if !c.st.knownKeys[key] {
		return false
	}
	h := c.st.Known[key]
	if h == nil {
		h = &vfKnownHit{Example: vfTrunc(example, 300)}
		c.st.Known[key] = h
	}
	h.Count++
	c.st.Excluded++
	return true
}

func (c *vfCase) IsKnown(key string) bool {
	c.st.mu.Lock()
	defer c.st.mu.Unlock()
	return c.st.knownKeys[key]
}

func (c *vfCase) Extra(k string, v int) {
	c.st.mu.Lock()
	defer c.st.mu.Unlock()
	cur, _ := c.st.Extra[k].(int)
	c.st.Extra[k] = cur + v
}

func vfTrunc(s string, n int) string {
	if len(s) > n {
		return s[:n] + "…(" + strconv.Itoa(len(s)) + " bytes)"
	}
	return s
}

func vfHash(s string) string {
	h := fnv.New64a()
	_, _ = h.Write([]byte(s))
	return strconv.FormatUint(h.Sum64(), 36)
}

func (c *vfCase) commit(failed bool, failMsg string) {
	s := c.st
	s.mu.Lock()
	defer s.mu.Unlock()
	s.Evals++
	for _, l := range c.labels {
		s.Labels[l]++
	}
	if c.nt {
		s.NTEvals++
		k := c.ntKey
		if k == "" {
			k = c.desc
		}
		if len(s.Hashes) < 2000000 {
			s.Hashes[vfHash(k)] = struct{}{}
		}
		if len(s.Samples) < 4 && c.desc != "" && !s.sampleSeen[c.desc] {
			s.sampleSeen[c.desc] = true
			s.Samples = append(s.Samples, vfTrunc(c.desc, 1500))
		}
	}
	if failed {
		if p := os.Getenv("VF_FAILTXT"); p != "" {
			_ = os.WriteFile(p, []byte("property: "+s.Prop+"\ncase: "+c.desc+"\nfailure: "+failMsg+"\n"), 0o644)
		}
	}
}

// vfCheck runs a rapid property with statistics. The property function reports a violation by returning a
// non-empty message (preferred: keeps generate-then-execute discipline) or by calling rt.Fatalf itself.
func vfCheck(t *testing.T, prop string, f func(rt *rapid.T, c *vfCase) string) {
	t.Helper()
	st := vfNewStats(prop)
	defer vfFlushStats()
	rapid.Check(t, func(rt *rapid.T) {
		c := &vfCase{st: st}
		msg := ""
		done := false
		defer func() {
			if !done {
				// Fatalf or panic inside f (no recover here: rapid compares tracebacks while shrinking)
				c.commit(true, "Fatalf or panic inside the property function (see test output)")
			}
		}()
		msg = f(rt, c)
		done = true
		c.commit(msg != "", msg)
		if msg != "" {
			rt.Fatalf("VF-VIOLATION %s: %s\ncase: %s", prop, msg, vfTrunc(c.desc, 4000))
		}
	})
}

// vfScale returns the size scale for the tier (VF_SCALE env, default 1).
func vfScale() int {
	n, _ := strconv.Atoi(os.Getenv("VF_SCALE"))
	if n < 1 {
		n = 1
	}
	return n
}

func vfThorough() bool { return os.Getenv("VF_TIER") == "thorough" }

func vfJoin(parts []string) string { return strings.Join(parts, "; ") }
