package PKGNAME

// C28 — Unsubscribe with an empty channel removes all subscriptions (as documented on Node.Unsubscribe).
// Two nodes joined by an in-memory controller; connections on either node; the call is issued on node 0.

import (
	"fmt"
	"sort"
	"strings"
	"testing"
	"time"

	"github.com/centrifugal/protocol"
	"pgregory.net/rapid"
)

type vfC28Sub struct {
	Ch         string
	ServerSide bool
	Presence   bool
	JoinLeave  bool
}

type vfC28Conn struct {
	Node  int
	User  string
	Label string // value of label "g"
	Proto ProtocolType
	Subs  []vfC28Sub
}

type vfC28Case struct {
	Conns      []vfC28Conn
	TargetUser string // "" with AllUsers
	AllUsers   bool
	ByClient   int    // -1 none, else index of connection whose client id is passed
	LabelVal   string // "" = no label filter
	Custom     bool   // custom unsubscribe code
}

func (c vfC28Case) String() string {
	var cs []string
	for i, cn := range c.Conns {
		var ss []string
		for _, s := range cn.Subs {
			f := ""
			if s.ServerSide {
				f += "S"
			}
			if s.Presence {
				f += "P"
			}
			if s.JoinLeave {
				f += "J"
			}
			ss = append(ss, s.Ch+":"+f)
		}
		cs = append(cs, fmt.Sprintf("conn%d{node=%d user=%s label=%s %s subs=[%s]}", i, cn.Node, cn.User, cn.Label, cn.Proto, strings.Join(ss, " ")))
	}
	return fmt.Sprintf("%s call=Node0.Unsubscribe(user=%q, \"\", allUsers=%v byClient=%d labelFilter=%q custom=%v)", strings.Join(cs, " "), c.TargetUser, c.AllUsers, c.ByClient, c.LabelVal, c.Custom)
}

func vfC28Gen(rt *rapid.T) vfC28Case {
	c := vfC28Case{ByClient: -1}
	n := rapid.IntRange(1, 4).Draw(rt, "nconns")
	chans := []string{"c1", "c2", "c3", "c4", "c5"}
	for i := 0; i < n; i++ {
		cn := vfC28Conn{
			Node:  rapid.IntRange(0, 1).Draw(rt, "node"),
			User:  rapid.SampledFrom([]string{"u1", "u1", "u2"}).Draw(rt, "user"),
			Label: rapid.SampledFrom([]string{"x", "y"}).Draw(rt, "label"),
			Proto: rapid.SampledFrom([]ProtocolType{ProtocolTypeJSON, ProtocolTypeProtobuf}).Draw(rt, "proto"),
		}
		k := rapid.IntRange(0, 5).Draw(rt, "nsubs")
		for j := 0; j < k; j++ {
			cn.Subs = append(cn.Subs, vfC28Sub{Ch: chans[j], ServerSide: rapid.Bool().Draw(rt, "ss"),
				Presence: rapid.Bool().Draw(rt, "pres"), JoinLeave: rapid.Bool().Draw(rt, "jl")})
		}
		c.Conns = append(c.Conns, cn)
	}
	switch rapid.IntRange(0, 5).Draw(rt, "target") {
	case 0:
		c.AllUsers = true
	case 1:
		c.TargetUser = "u2"
	default:
		c.TargetUser = "u1"
	}
	if rapid.IntRange(0, 3).Draw(rt, "byClient") == 0 {
		c.ByClient = rapid.IntRange(0, n-1).Draw(rt, "clientIdx")
	}
	if rapid.IntRange(0, 2).Draw(rt, "byLabel") == 0 {
		c.LabelVal = rapid.SampledFrom([]string{"x", "y"}).Draw(rt, "labelVal")
	}
	c.Custom = rapid.Bool().Draw(rt, "custom")
	return c
}

type vfC28Out struct {
	labels     []string
	nontrivial bool
}

func vfC28Run(t *testing.T, cs vfC28Case, out *vfC28Out) string {
	return vfBubble(t, func() string {
		labelsByName := map[string]string{}
		ws, bus, err := vfNewCluster(2, func(i int) Config { return Config{Name: fmt.Sprintf("n%d", i)} }, func(i int, w *vfWorld) {
			w.Connecting = func(c *vfConn, e ConnectEvent) (ConnectReply, error) {
				r := ConnectReply{Credentials: &Credentials{UserID: c.User}}
				if l, ok := labelsByName[c.Name]; ok {
					r.Labels = map[string]string{"g": l}
				}
				return r, nil
			}
			w.ChanOpts = func(c *vfConn, e SubscribeEvent) (SubscribeReply, error) {
				// channel options are encoded in the subscribe request data by the harness
				o := SubscribeOptions{}
				if strings.Contains(string(e.Data), "P") {
					o.EmitPresence = true
				}
				if strings.Contains(string(e.Data), "J") {
					o.EmitJoinLeave = true
				}
				if strings.Contains(string(e.Data), "O") {
					o.PushJoinLeave = true
				}
				return SubscribeReply{Options: o}, nil
			}
		})
		if err != nil {
			return "infra: " + err.Error()
		}
		defer func() {
			for _, w := range ws {
				w.Close()
			}
			bus.Close()
		}()
		// one observer per node, subscribed to every channel with join/leave pushes
		chans := []string{"c1", "c2", "c3", "c4", "c5"}
		var observers []*vfConn
		for i, w := range ws {
			o := w.NewConn(vfConnCfg{Name: fmt.Sprintf("obs%d", i), User: "obs"})
			o.Connect(nil)
			for _, ch := range chans {
				o.Cmd(&protocol.Command{Id: o.NextID(), Subscribe: &protocol.SubscribeRequest{Channel: ch, Data: []byte(`"O"`)}})
			}
			observers = append(observers, o)
		}
		var conns []*vfConn
		for i, cn := range cs.Conns {
			w := ws[cn.Node]
			name := fmt.Sprintf("conn%d", i)
			labelsByName[name] = cn.Label
			c := w.NewConn(vfConnCfg{Name: name, User: cn.User, Proto: cn.Proto})
			c.Connect(nil)
			for _, s := range cn.Subs {
				if s.ServerSide {
					if err := c.Client.Subscribe(s.Ch, WithEmitPresence(s.Presence), WithEmitJoinLeave(s.JoinLeave)); err != nil {
						return fmt.Sprintf("setup: server-side subscribe failed: %v", err)
					}
				} else {
					d := ""
					if s.Presence {
						d += "P"
					}
					if s.JoinLeave {
						d += "J"
					}
					c.Cmd(&protocol.Command{Id: c.NextID(), Subscribe: &protocol.SubscribeRequest{Channel: s.Ch, Data: []byte(`"` + d + `"`)}})
				}
			}
			conns = append(conns, c)
		}
		vfSettle()
		for i, c := range conns {
			got := c.Client.Channels()
			if len(got) != len(cs.Conns[i].Subs) {
				return fmt.Sprintf("setup: conn%d has channels %v, expected %d subscriptions; frames: %s", i, got, len(cs.Conns[i].Subs), vfRenderFrames(c.Frames()))
			}
		}
		framesBefore := make([]int, len(conns))
		for i, c := range conns {
			framesBefore[i] = len(c.Frames())
		}
		obsBefore := make([]int, len(observers))
		for i, o := range observers {
			obsBefore[i] = len(o.Frames())
		}
		evBefore := []int{len(ws[0].Events()), len(ws[1].Events())}

		// ---- the call -------------------------------------------------------------------------------------------
		var opts []UnsubscribeOption
		if cs.AllUsers {
			opts = append(opts, WithUnsubscribeAllUsers(true))
		}
		if cs.ByClient >= 0 {
			opts = append(opts, WithUnsubscribeClient(conns[cs.ByClient].Client.ID()))
		}
		if cs.LabelVal != "" {
			opts = append(opts, WithUnsubscribeLabelFilter(&FilterNode{Key: "g", Cmp: "eq", Val: cs.LabelVal}))
		}
		wantCode := unsubscribeServer.Code
		if cs.Custom {
			opts = append(opts, WithCustomUnsubscribe(Unsubscribe{Code: 2777, Reason: "custom"}))
			wantCode = 2777
		}
		if err := ws[0].node.Unsubscribe(cs.TargetUser, "", opts...); err != nil {
			return fmt.Sprintf("Node.Unsubscribe returned error: %v", err)
		}
		vfSettle()
		time.Sleep(3 * time.Second)
		vfSettle()

		// ---- oracle ---------------------------------------------------------------------------------------------
		matched, multi := 0, false
		for i, c := range conns {
			cn := cs.Conns[i]
			match := (cs.AllUsers && cs.TargetUser == "") || cn.User == cs.TargetUser
			if cs.ByClient >= 0 && cs.ByClient != i {
				match = false
			}
			if cs.LabelVal != "" && cn.Label != cs.LabelVal {
				match = false
			}
			w := ws[cn.Node]
			newFrames := c.Frames()[framesBefore[i]:]
			unsubPushes := map[string]int{}
			for _, f := range newFrames {
				if f.Err != nil {
					return "undecodable frame: " + f.Err.Error()
				}
				if f.Reply.Push != nil && f.Reply.Push.Unsubscribe != nil {
					unsubPushes[f.Reply.Push.Channel]++
					if f.Reply.Push.Unsubscribe.Code != wantCode && match {
						return fmt.Sprintf("conn%d: unsubscribe push for %q carries code %d, expected %d", i, f.Reply.Push.Channel, f.Reply.Push.Unsubscribe.Code, wantCode)
					}
				}
			}
			cbs := map[string]int{}
			for _, e := range w.Events()[evBefore[cn.Node]:] {
				if e.Kind == "unsubscribe" && e.Client == c.Client.ID() {
					cbs[e.Ch]++
				}
			}
			where := "local"
			if cn.Node == 1 {
				where = "remote"
			}
			if !match {
				if got := c.Client.Channels(); len(got) != len(cn.Subs) {
					return fmt.Sprintf("conn%d (%s) does not match the call but its channels changed to %v", i, where, got)
				}
				if len(unsubPushes) > 0 {
					return fmt.Sprintf("conn%d (%s) does not match the call but received unsubscribe pushes %v", i, where, unsubPushes)
				}
				continue
			}
			matched++
			if len(cn.Subs) >= 2 {
				multi = true
			}
			if closed, d := c.T.Closed(); closed {
				return fmt.Sprintf("conn%d (%s) was disconnected (%d %s) instead of unsubscribed", i, where, d.Code, d.Reason)
			}
			if got := c.Client.Channels(); len(got) != 0 {
				sort.Strings(got)
				return fmt.Sprintf("conn%d (%s node) matches the call but is still subscribed to %v after Node.Unsubscribe(user, \"\"); new frames: %s", i, where, got, vfRenderFrames(newFrames))
			}
			for _, s := range cn.Subs {
				if unsubPushes[s.Ch] != 1 {
					return fmt.Sprintf("conn%d (%s): %d unsubscribe pushes for former channel %s, expected 1; new frames: %s", i, where, unsubPushes[s.Ch], s.Ch, vfRenderFrames(newFrames))
				}
				if cbs[s.Ch] != 1 {
					return fmt.Sprintf("conn%d (%s): unsubscribe callback ran %d times for former channel %s, expected 1", i, where, cbs[s.Ch], s.Ch)
				}
				if s.Presence {
					p, err := w.node.Presence(s.Ch)
					if err != nil {
						return "presence error: " + err.Error()
					}
					if _, ok := p.Presence[c.Client.ID()]; ok {
						return fmt.Sprintf("conn%d (%s): still in presence of %s after being unsubscribed from all channels", i, where, s.Ch)
					}
				}
				if s.JoinLeave && !cs.AllUsers { // with all-users targeting the observers themselves are unsubscribed
					leaves := 0
					for _, f := range observers[cn.Node].Frames()[obsBefore[cn.Node]:] {
						if f.Reply != nil && f.Reply.Push != nil && f.Reply.Push.Channel == s.Ch && f.Reply.Push.Leave != nil && f.Reply.Push.Leave.Info.GetClient() == c.Client.ID() {
							leaves++
						}
					}
					if leaves != 1 {
						return fmt.Sprintf("conn%d (%s): observer saw %d leave events for channel %s, expected 1", i, where, leaves, s.Ch)
					}
				}
			}
			for ch, n := range unsubPushes {
				found := false
				for _, s := range cn.Subs {
					if s.Ch == ch {
						found = true
					}
				}
				if !found {
					return fmt.Sprintf("conn%d (%s): %d unsubscribe push(es) for channel %q which it was not subscribed to; new frames: %s", i, where, n, ch, vfRenderFrames(newFrames))
				}
			}
			out.labels = append(out.labels, "matched_"+where)
		}
		if matched == 0 {
			out.labels = append(out.labels, "no_connection_matched")
		}
		if multi {
			out.nontrivial = true
		}
		return ""
	})
}

func TestVF_C28(t *testing.T) {
	vfCheck(t, "C28", func(rt *rapid.T, c *vfCase) string {
		cs := vfC28Gen(rt)
		c.Describe(cs.String())
		out := &vfC28Out{}
		msg := vfC28Run(t, cs, out)
		seen := map[string]bool{}
		for _, l := range out.labels {
			if !seen[l] {
				seen[l] = true
				c.Label(l)
			}
		}
		if out.nontrivial {
			c.Nontrivial(c.desc)
		}
		return msg
	})
}

// ---- overlapping all-channel unsubscribes -----------------------------------------------------------------------
//
// TestVF_C28_Overlap: two Node.Unsubscribe(user, "") calls overlap on one connection. The first one is parked inside
// RemovePresence of the first channel it tears down (a PresenceManager round trip: plug-in boundary, no library lock
// held); meanwhile the connection gains 0-2 new subscriptions; the second call is issued; the first one is released.
// Oracle ("an empty channel name unsubscribes every matching connection from all of its channels"): once both calls
// returned and the node is quiescent the connection holds no channel, and every channel it held (old and new) got
// exactly one unsubscribe callback and one unsubscribe push.

type vfC28Presence struct {
	inner PresenceManager
	pass  func()
}

func (p *vfC28Presence) Presence(ch string) (map[string]*ClientInfo, error) { return p.inner.Presence(ch) }
func (p *vfC28Presence) PresenceStats(ch string) (PresenceStats, error)      { return p.inner.PresenceStats(ch) }
func (p *vfC28Presence) AddPresence(ch string, clientID string, info *ClientInfo) error {
	return p.inner.AddPresence(ch, clientID, info)
}
func (p *vfC28Presence) RemovePresence(ch string, clientID string, userID string) error {
	p.pass()
	return p.inner.RemovePresence(ch, clientID, userID)
}

func TestVF_C28_Overlap(t *testing.T) {
	vfCheck(t, "C28", func(rt *rapid.T, c *vfCase) string {
		nOld := rapid.IntRange(1, 4).Draw(rt, "oldSubs")
		nNew := rapid.IntRange(0, 2).Draw(rt, "newSubs")
		newServerSide := rapid.Bool().Draw(rt, "newServerSide")
		proto := rapid.SampledFrom([]ProtocolType{ProtocolTypeJSON, ProtocolTypeProtobuf}).Draw(rt, "proto")
		secondFirst := rapid.Bool().Draw(rt, "secondCallBeforeNewSubs")
		c.Describe(fmt.Sprintf("overlap: oldSubs=%d (all with presence) newSubs=%d newServerSide=%v proto=%s secondCallBeforeNewSubs=%v", nOld, nNew, newServerSide, proto, secondFirst))
		c.Label("overlapping_unsubscribe_all")
		if nNew > 0 && !secondFirst {
			c.Nontrivial(c.desc)
		}
		return vfBubble(t, func() string {
			w, err := vfNewWorld(Config{}, nil)
			if err != nil {
				return "infra: " + err.Error()
			}
			defer w.Close()
			gate := false
			w.node.SetPresenceManager(&vfC28Presence{inner: w.node.presenceManager, pass: func() {
				if gate {
					w.Gates.Pass("rmpresence")
				}
			}})
			w.ChanOpts = func(c *vfConn, e SubscribeEvent) (SubscribeReply, error) {
				return SubscribeReply{Options: SubscribeOptions{EmitPresence: true}}, nil
			}
			conn := w.NewConn(vfConnCfg{Name: "s", User: "u", Proto: proto})
			conn.Connect(nil)
			var all []string
			for i := 0; i < nOld; i++ {
				ch := fmt.Sprintf("old%d", i)
				all = append(all, ch)
				conn.Cmd(&protocol.Command{Id: conn.NextID(), Subscribe: &protocol.SubscribeRequest{Channel: ch}})
			}
			vfSettle()
			if got := conn.Client.Channels(); len(got) != nOld {
				return fmt.Sprintf("setup: channels %v", got)
			}
			evFrom, frFrom := len(w.Events()), len(conn.Frames())
			gate = true
			w.Gates.Arm("rmpresence", 1)
			first := make(chan error, 1)
			go func() { first <- w.node.Unsubscribe("u", "") }()
			vfSettle()
			parked := w.Gates.Waiting("rmpresence") > 0
			if !parked {
				return "setup: the first sweep did not park in RemovePresence"
			}
			second := make(chan error, 1)
			callSecond := func() { go func() { second <- w.node.Unsubscribe("u", "") }() }
			if secondFirst {
				callSecond()
				vfSettle()
			}
			for i := 0; i < nNew; i++ {
				ch := fmt.Sprintf("new%d", i)
				all = append(all, ch)
				if newServerSide {
					if err := conn.Client.Subscribe(ch, WithEmitPresence(true)); err != nil {
						return fmt.Sprintf("subscribe %s while the first sweep is parked failed: %v", ch, err)
					}
				} else {
					conn.Cmd(&protocol.Command{Id: conn.NextID(), Subscribe: &protocol.SubscribeRequest{Channel: ch}})
				}
			}
			vfSettle()
			if !secondFirst {
				callSecond()
				vfSettle()
			}
			gate = false
			w.Gates.Disarm("rmpresence")
			for w.Gates.Release("rmpresence") {
			}
			if err := <-first; err != nil {
				return fmt.Sprintf("first Node.Unsubscribe returned %v", err)
			}
			if err := <-second; err != nil {
				return fmt.Sprintf("second Node.Unsubscribe returned %v", err)
			}
			vfSettle()
			time.Sleep(2 * time.Second)
			vfSettle()
			frames := vfRenderFrames(conn.Frames()[frFrom:])
			if closed, d := conn.T.Closed(); closed {
				return fmt.Sprintf("connection was closed (%d %s); frames: %s", d.Code, d.Reason, frames)
			}
			// a subscription that started after the second call returned is outside both calls: only channels that existed
			// when the second call was issued must be gone
			must := all
			if secondFirst {
				must = all[:nOld]
			}
			left := map[string]bool{}
			for _, ch := range conn.Client.Channels() {
				left[ch] = true
			}
			for _, ch := range must {
				if left[ch] {
					return fmt.Sprintf("channel %s is still subscribed after two overlapping Node.Unsubscribe(user, \"\") calls returned (it existed when the second call was issued); frames: %s", ch, frames)
				}
			}
			cbs, pushes := map[string]int{}, map[string]int{}
			for _, e := range w.Events()[evFrom:] {
				if e.Kind == "unsubscribe" && e.Client == conn.Client.ID() {
					cbs[e.Ch]++
				}
			}
			for _, f := range conn.Frames()[frFrom:] {
				if f.Reply != nil && f.Reply.Push != nil && f.Reply.Push.Unsubscribe != nil {
					pushes[f.Reply.Push.Channel]++
				}
			}
			for _, ch := range must {
				if cbs[ch] != 1 || pushes[ch] != 1 {
					return fmt.Sprintf("channel %s: %d unsubscribe callbacks and %d unsubscribe pushes, expected one each; frames: %s", ch, cbs[ch], pushes[ch], frames)
				}
				p, err := w.node.Presence(ch)
				if err == nil {
					if _, ok := p.Presence[conn.Client.ID()]; ok {
						return fmt.Sprintf("channel %s: still in presence after being unsubscribed from all channels", ch)
					}
				}
			}
			return ""
		})
	})
}
