package PKGNAME

// C08 — Connection lifecycle callbacks fire once and in order.
//
// 1-3 connections (bidirectional / unidirectional, JSON / Protobuf, with or without server pings, connection expiry
// with client- or server-side refresh, connect-time server-side subscriptions) on a real Node inside a synctest
// bubble. A drawn schedule runs: connect (optionally parked inside OnConnecting), subscribe by client command or
// Client.Subscribe (optionally parked inside OnSubscribe), gate release, the subscription end paths (client
// unsubscribe, Client.Unsubscribe, Node.Unsubscribe, insufficient state through a dropped PUB/SUB delivery,
// subscription expiry, disconnect, transport close), virtual time (presence/alive ticks, connection expiry and
// refresh, ping/pong, stale close), Client.Disconnect, Node.Disconnect, transport close, other client commands
// (rpc, pong, refresh) and Node.Shutdown. Steps flagged "par" start together with the following step without
// waiting for quiescence. After shutdown completes new connections are attempted through NewClient and the
// SSE / HTTP-stream / WebSocket handlers with in-memory doubles.
//
// Oracle over the callback log (world event log, one global sequence shared with transport writes):
//   O1 connect callback at most once per client;
//   O2 every other per-connection callback comes after the connect callback (none without it);
//   O3 disconnect callback at most once;
//   O4 no alive callback after the disconnect callback;
//   O5 at the end every connection is closed, so every established subscription has ended: per (client, channel)
//      established-by-frames <= unsubscribe callbacks <= accepted subscribe attempts;
//   O6 after Shutdown returned and quiescence: hub empty, no client in connected state;
//   O7 nothing becomes connected afterwards (no connect callback later than the completion of Shutdown);
//   O8 the disconnect callback never starts while an alive callback of the same connection is running (alive enter /
//      exit are logged; an "alive window" step parks the alive callback at its next tick and starts one closing
//      operation while it is parked - bounded Gosched spinning, no virtual sleep, because close() then blocks on
//      presenceMu).

import (
	"bufio"
	"bytes"
	"context"
	"fmt"
	"io"
	"net"
	"net/http"
	"os"
	"runtime"
	"sort"
	"strings"
	"sync"
	"testing"
	"time"

	"github.com/centrifugal/centrifuge/internal/saferand"
	"github.com/centrifugal/protocol"
	"pgregory.net/rapid"
)

const (
	vfC08Connect = iota
	vfC08Release
	vfC08Subscribe
	vfC08UnsubCmd
	vfC08ClientUnsub
	vfC08NodeUnsub
	vfC08GapPublish
	vfC08Advance
	vfC08ClientDisconnect
	vfC08NodeDisconnect
	vfC08TransportClose
	vfC08Misc
	vfC08Shutdown
	vfC08Publish
	vfC08AliveWindow
	vfC08ShutdownInAddClient
)

type vfC08Step struct {
	Kind   int
	Conn   int
	Ch     int
	Gate   bool // connect: park in OnConnecting; subscribe: park in OnSubscribe
	Server bool // subscribe through Client.Subscribe
	Misc   int  // 0 rpc, 1 pong, 2 refresh command
	AdvMs  int
	N      int  // gap publish: number of publications delivered after the dropped one
	Par    bool // do not wait for quiescence before the next step
	Close  int  // alive window: 0 Client.Disconnect, 1 Node.Disconnect, 2 transport close, 3 Node.Shutdown
	Clear  bool // alive window: unsubscribe every channel of the connection first (server API)
}

type vfC08Chan struct {
	Pos   bool
	Pres  bool
	JL    bool
	ExpIn int // seconds; 0 = no subscription expiry
}

type vfC08ConnCfg struct {
	User    int
	Uni     bool
	Proto   ProtocolType
	Ping    int // seconds between pings; 0 = disabled (pong timeout 1 s)
	Subs    []int
	ExpIn   int  // seconds; 0 = no connection expiry
	CSR     bool // client-side refresh
	Extend  int  // server-side refresh handler: extend once by this many seconds (0 = answer expired)
	RWQ     bool
	EarlyCB bool // register disconnect / alive handlers right after NewClient (custom transport style)
}

type vfC08Case struct {
	Presence    int // ClientPresenceUpdateInterval, seconds
	Stale       int
	ExpDelay    int
	SubExpDelay int
	Sched       bool // TimerScheduler double
	Seed        int64
	Chans       []vfC08Chan
	Conns       []vfC08ConnCfg
	Steps       []vfC08Step
	Probes      []int // after shutdown: 0 raw NewClient, 1 SSE, 2 HTTP stream, 3 WebSocket
}

func (s vfC08Step) String() string {
	par := ""
	if s.Par {
		par = "||"
	}
	var r string
	switch s.Kind {
	case vfC08Connect:
		r = fmt.Sprintf("connect(k%d gate=%v)", s.Conn, s.Gate)
	case vfC08Release:
		r = fmt.Sprintf("release(k%d)", s.Conn)
	case vfC08Subscribe:
		r = fmt.Sprintf("subscribe(k%d c%d server=%v gate=%v)", s.Conn, s.Ch, s.Server, s.Gate)
	case vfC08UnsubCmd:
		r = fmt.Sprintf("unsubCmd(k%d c%d)", s.Conn, s.Ch)
	case vfC08ClientUnsub:
		r = fmt.Sprintf("Client.Unsubscribe(k%d c%d x%d)", s.Conn, s.Ch, s.N)
	case vfC08NodeUnsub:
		r = fmt.Sprintf("Node.Unsubscribe(user of k%d, c%d)", s.Conn, s.Ch)
	case vfC08GapPublish:
		r = fmt.Sprintf("gapPublish(c%d then %d)", s.Ch, s.N)
	case vfC08Advance:
		r = fmt.Sprintf("adv(%dms)", s.AdvMs)
	case vfC08ClientDisconnect:
		r = fmt.Sprintf("Client.Disconnect(k%d)", s.Conn)
	case vfC08NodeDisconnect:
		r = fmt.Sprintf("Node.Disconnect(user of k%d)", s.Conn)
	case vfC08TransportClose:
		r = fmt.Sprintf("transportClose(k%d)", s.Conn)
	case vfC08Misc:
		r = fmt.Sprintf("%s(k%d)", []string{"rpc", "pong", "refreshCmd"}[s.Misc], s.Conn)
	case vfC08Shutdown:
		r = "Node.Shutdown"
	case vfC08Publish:
		r = fmt.Sprintf("publish(c%d)", s.Ch)
	case vfC08ShutdownInAddClient:
		r = fmt.Sprintf("shutdownWhileConnectInsideAddClient(k%d)", s.Conn)
	case vfC08AliveWindow:
		r = fmt.Sprintf("aliveWindow(k%d clear=%v close=%s)", s.Conn, s.Clear, []string{"Client.Disconnect", "Node.Disconnect", "transportClose", "Node.Shutdown"}[s.Close])
	}
	return r + par
}

func (c vfC08Case) String() string {
	var sb strings.Builder
	fmt.Fprintf(&sb, "presence=%ds stale=%ds expDelay=%ds subExpDelay=%ds sched=%v seed=%d chans=[", c.Presence, c.Stale, c.ExpDelay, c.SubExpDelay, c.Sched, c.Seed)
	for i, ch := range c.Chans {
		fmt.Fprintf(&sb, "c%d{pos=%v pres=%v jl=%v exp=%d} ", i, ch.Pos, ch.Pres, ch.JL, ch.ExpIn)
	}
	sb.WriteString("] conns=[")
	for i, k := range c.Conns {
		fmt.Fprintf(&sb, "k%d{user=u%d uni=%v %s ping=%d subs=%v exp=%d csr=%v extend=%d rwq=%v early=%v} ", i, k.User, k.Uni, k.Proto, k.Ping, k.Subs, k.ExpIn, k.CSR, k.Extend, k.RWQ, k.EarlyCB)
	}
	sb.WriteString("] steps=[")
	for _, s := range c.Steps {
		sb.WriteString(s.String())
		sb.WriteString(" ")
	}
	fmt.Fprintf(&sb, "] probes=%v", c.Probes)
	return sb.String()
}

func vfC08Gen(rt *rapid.T) vfC08Case {
	c := vfC08Case{}
	c.Presence = rapid.IntRange(1, 3).Draw(rt, "presence")
	c.Stale = rapid.SampledFrom([]int{1, 2, 4, 8}).Draw(rt, "stale")
	c.ExpDelay = rapid.IntRange(1, 2).Draw(rt, "expDelay")
	c.SubExpDelay = rapid.IntRange(1, 2).Draw(rt, "subExpDelay")
	c.Sched = rapid.IntRange(0, 2).Draw(rt, "sched") == 0
	c.Seed = rapid.Int64Range(1, 1<<40).Draw(rt, "seed")
	for i := 0; i < 3; i++ {
		c.Chans = append(c.Chans, vfC08Chan{
			Pos:   rapid.Bool().Draw(rt, "pos"),
			Pres:  rapid.Bool().Draw(rt, "pres"),
			JL:    rapid.IntRange(0, 3).Draw(rt, "jl") == 0,
			ExpIn: rapid.SampledFrom([]int{0, 0, 1, 2, 3}).Draw(rt, "chExp"),
		})
	}
	nc := rapid.IntRange(1, 3).Draw(rt, "nconns")
	for i := 0; i < nc; i++ {
		k := vfC08ConnCfg{
			User:    rapid.IntRange(0, 1).Draw(rt, "user"),
			Uni:     rapid.IntRange(0, 4).Draw(rt, "uni") == 0,
			Proto:   rapid.SampledFrom([]ProtocolType{ProtocolTypeJSON, ProtocolTypeProtobuf}).Draw(rt, "proto"),
			Ping:    rapid.SampledFrom([]int{0, 0, 0, 2, 3}).Draw(rt, "ping"),
			ExpIn:   rapid.SampledFrom([]int{0, 0, 0, 0, 1, 2, 3, 5}).Draw(rt, "connExp"),
			CSR:     rapid.Bool().Draw(rt, "csr"),
			Extend:  rapid.SampledFrom([]int{0, 2, 3}).Draw(rt, "extend"),
			RWQ:     rapid.IntRange(0, 3).Draw(rt, "rwq") == 0,
			EarlyCB: rapid.Bool().Draw(rt, "early"),
		}
		ns := rapid.SampledFrom([]int{0, 0, 1, 2}).Draw(rt, "nsubs")
		for j := 0; j < ns; j++ {
			ch := rapid.IntRange(0, 2).Draw(rt, "subch")
			dup := false
			for _, x := range k.Subs {
				dup = dup || x == ch
			}
			if !dup {
				k.Subs = append(k.Subs, ch)
			}
		}
		c.Conns = append(c.Conns, k)
	}
	n := rapid.IntRange(4, 26).Draw(rt, "nsteps")
	kinds := []int{vfC08Connect, vfC08Connect, vfC08Release, vfC08Release, vfC08Subscribe, vfC08Subscribe, vfC08Subscribe, vfC08Subscribe, vfC08Subscribe,
		vfC08UnsubCmd, vfC08UnsubCmd, vfC08ClientUnsub, vfC08ClientUnsub, vfC08NodeUnsub, vfC08GapPublish, vfC08GapPublish, vfC08GapPublish,
		vfC08Advance, vfC08Advance, vfC08Advance, vfC08Advance, vfC08Advance, vfC08ClientDisconnect, vfC08NodeDisconnect, vfC08TransportClose,
		vfC08Misc, vfC08Misc, vfC08Publish, vfC08AliveWindow, vfC08AliveWindow, vfC08AliveWindow}
	// Node.Shutdown at a drawn point of the schedule (half of the cases), otherwise after it
	shutdownAt := -1
	if rapid.Bool().Draw(rt, "shutdown_inside") {
		shutdownAt = rapid.IntRange(0, n-1).Draw(rt, "shutdown_at")
	}
	var subscribed [][2]int
	for i := 0; i < n; i++ {
		s := vfC08Step{Kind: rapid.SampledFrom(kinds).Draw(rt, "kind")}
		if i >= nc && i < nc+3 && rapid.Bool().Draw(rt, "early_subscribe") {
			s.Kind = vfC08Subscribe
		}
		if i == shutdownAt {
			s.Kind = vfC08Shutdown
			if rapid.IntRange(0, 2).Draw(rt, "shutdown_in_addclient") == 0 {
				s.Kind = vfC08ShutdownInAddClient
			}
		}
		if i < nc && i != shutdownAt && rapid.IntRange(0, 4).Draw(rt, "early_connect") > 0 {
			s.Kind = vfC08Connect
			s.Conn = i
		} else {
			s.Conn = rapid.IntRange(0, nc-1).Draw(rt, "conn")
		}
		s.Ch = rapid.IntRange(0, 2).Draw(rt, "ch")
		switch s.Kind {
		case vfC08UnsubCmd, vfC08ClientUnsub, vfC08NodeUnsub, vfC08GapPublish:
			// mostly aim at a (connection, channel) pair an earlier step or the connect reply subscribed
			var cand [][2]int
			for _, p := range subscribed {
				if s.Kind != vfC08GapPublish || c.Chans[p[1]].Pos {
					cand = append(cand, p)
				}
			}
			if len(cand) > 0 && rapid.IntRange(0, 4).Draw(rt, "aim") > 0 {
				p := cand[rapid.IntRange(0, len(cand)-1).Draw(rt, "target")]
				s.Conn, s.Ch = p[0], p[1]
			}
		}
		switch s.Kind {
		case vfC08Connect:
			s.Gate = rapid.IntRange(0, 2).Draw(rt, "gate") == 0
			for _, ch := range c.Conns[s.Conn].Subs {
				subscribed = append(subscribed, [2]int{s.Conn, ch})
			}
		case vfC08Subscribe:
			s.Server = rapid.IntRange(0, 3).Draw(rt, "server") == 0
			s.Gate = !s.Server && rapid.IntRange(0, 3).Draw(rt, "gate") == 0
			subscribed = append(subscribed, [2]int{s.Conn, s.Ch})
		case vfC08GapPublish:
			s.N = rapid.IntRange(1, 5).Draw(rt, "n")
		case vfC08ClientUnsub:
			s.N = rapid.IntRange(1, 4).Draw(rt, "n")
		case vfC08Advance:
			s.AdvMs = rapid.SampledFrom([]int{1, 500, 1000, 1500, 2000, 3000, 4000, 6000}).Draw(rt, "adv")
		case vfC08Misc:
			s.Misc = rapid.IntRange(0, 2).Draw(rt, "misc")
		case vfC08AliveWindow:
			s.Close = rapid.SampledFrom([]int{0, 0, 1, 2, 2, 3}).Draw(rt, "awClose")
			s.Clear = rapid.Bool().Draw(rt, "awClear")
		}
		if s.Kind != vfC08Advance && s.Kind != vfC08Release && s.Kind != vfC08AliveWindow && s.Kind != vfC08ShutdownInAddClient && !(s.Kind == vfC08Subscribe && !s.Gate) {
			// An un-gated subscribe is never started together with another operation: the reply is written before the
			// subscription is committed, so "established" would be undefined for a close landing in between.
			s.Par = rapid.IntRange(0, 3).Draw(rt, "par") == 0
		}
		c.Steps = append(c.Steps, s)
		if s.Kind == vfC08Subscribe && s.Gate && i != shutdownAt-1 && i != shutdownAt-2 && rapid.Bool().Draw(rt, "waiters") {
			// several unsubscribes wait for the parked subscribe and are woken together by its completion
			c.Steps = append(c.Steps,
				vfC08Step{Kind: vfC08ClientUnsub, Conn: s.Conn, Ch: s.Ch, N: rapid.SampledFrom([]int{1, 2, 4, 8, 12}).Draw(rt, "waitersN")},
				vfC08Step{Kind: rapid.SampledFrom([]int{vfC08NodeUnsub, vfC08ClientUnsub, vfC08Release}).Draw(rt, "waiters2"), Conn: s.Conn, Ch: s.Ch, N: 1},
				vfC08Step{Kind: vfC08Release, Conn: s.Conn})
		}
	}
	np := rapid.IntRange(0, 2).Draw(rt, "nprobes")
	for i := 0; i < np; i++ {
		c.Probes = append(c.Probes, rapid.IntRange(0, 3).Draw(rt, "probe"))
	}
	return c
}

// ---------------------------------------------------------------------------------------------------------------
// doubles

type vfC08Sched struct{}

type vfC08Cancel struct{ t *time.Timer }

func (c vfC08Cancel) Cancel() { c.t.Stop() }

func (vfC08Sched) ScheduleTimer(d time.Duration, cb func()) TimerCanceler {
	return vfC08Cancel{t: time.AfterFunc(d, cb)}
}

// vfC08RW is an in-memory http.ResponseWriter + Flusher (+ Hijacker when conn is set).
type vfC08RW struct {
	mu   sync.Mutex
	hdr  http.Header
	code int
	body bytes.Buffer
	conn net.Conn
}

func (w *vfC08RW) Header() http.Header { return w.hdr }
func (w *vfC08RW) WriteHeader(c int) {
	w.mu.Lock()
	if w.code == 0 {
		w.code = c
	}
	w.mu.Unlock()
}
func (w *vfC08RW) Write(b []byte) (int, error) {
	w.mu.Lock()
	defer w.mu.Unlock()
	if w.code == 0 {
		w.code = 200
	}
	return w.body.Write(b)
}
func (w *vfC08RW) Flush() {}
func (w *vfC08RW) Body() string {
	w.mu.Lock()
	defer w.mu.Unlock()
	return w.body.String()
}

type vfC08HijackRW struct{ *vfC08RW }

func (w vfC08HijackRW) Hijack() (net.Conn, *bufio.ReadWriter, error) {
	return w.conn, bufio.NewReadWriter(bufio.NewReader(w.conn), bufio.NewWriter(w.conn)), nil
}

type vfC08Out struct {
	labels     []string
	nontrivial bool
	known      map[string]string
}

func (o *vfC08Out) label(l string) { o.labels = append(o.labels, l) }

type vfC08ConnState struct {
	cfg        vfC08ConnCfg
	conn       *vfConn
	busy       chan struct{} // closed when the in-flight client command returned
	connectAt  int64         // world seq when the connect command was issued (0 = not yet)
	subIDs     map[uint32]string
	serverOK   map[string]int // Client.Subscribe calls per channel
	connSubs   map[string]int // connect-time subscriptions handed out by OnConnecting
	extended   bool
	gatedSub   bool // a gated client subscribe command is in flight
	mu         sync.Mutex
}

func (k *vfC08ConnState) idle() bool {
	if k.busy == nil {
		return true
	}
	select {
	case <-k.busy:
		return true
	default:
		return false
	}
}

func vfC08Run(t *testing.T, cs vfC08Case, out *vfC08Out, isKnown func(string) bool) string {
	return vfBubble(t, func() string {
		randSource = saferand.New(cs.Seed)
		cfg := Config{
			ClientPresenceUpdateInterval: time.Duration(cs.Presence) * time.Second,
			ClientStaleCloseDelay:        time.Duration(cs.Stale) * time.Second,
			ClientExpiredCloseDelay:      time.Duration(cs.ExpDelay) * time.Second,
			ClientExpiredSubCloseDelay:   time.Duration(cs.SubExpDelay) * time.Second,
		}
		if cs.Sched {
			cfg.ClientTimerScheduler = vfC08Sched{}
		}
		cfg.Metrics.ExposeTransportAcceptProtocol = true // makes Transport.AcceptProtocol an interface call inside addClient
		var world *vfWorld
		states := make([]*vfC08ConnState, len(cs.Conns))
		byConn := map[*vfConn]*vfC08ConnState{}
		chName := func(i int) string { return fmt.Sprintf("c%d", i) }
		chOpts := func(i int) SubscribeOptions {
			ch := cs.Chans[i]
			o := SubscribeOptions{EnablePositioning: ch.Pos, EmitPresence: ch.Pres, EmitJoinLeave: ch.JL, PushJoinLeave: ch.JL}
			if ch.ExpIn > 0 {
				o.ExpireAt = time.Now().Unix() + int64(ch.ExpIn)
			}
			return o
		}
		chIdx := func(name string) int {
			for i := range cs.Chans {
				if chName(i) == name {
					return i
				}
			}
			return 0
		}
		w, err := vfNewWorld(cfg, func(w *vfWorld) {
			world = w
			// Accept connections created by the HTTP handlers too (the world's default handler rejects unknown ids).
			w.node.OnConnecting(func(ctx context.Context, e ConnectEvent) (ConnectReply, error) {
				c := w.connByID(e.ClientID)
				w.logEvent(e.ClientID, "connecting", "", e.Transport.Name())
				if c == nil {
					return ConnectReply{Credentials: &Credentials{UserID: "probe"}}, nil
				}
				return w.Connecting(c, e)
			})
		})
		if err != nil {
			return "infra: " + err.Error()
		}
		_ = world
		defer w.Close()

		w.Connecting = func(c *vfConn, e ConnectEvent) (ConnectReply, error) {
			w.Gates.Pass("connecting:" + c.Name)
			k := byConn[c]
			r := ConnectReply{Credentials: &Credentials{UserID: c.User}, ClientSideRefresh: k.cfg.CSR, ReplyWithoutQueue: k.cfg.RWQ}
			if k.cfg.ExpIn > 0 {
				r.Credentials.ExpireAt = time.Now().Unix() + int64(k.cfg.ExpIn)
			}
			if len(k.cfg.Subs) > 0 {
				r.Subscriptions = map[string]SubscribeOptions{}
				k.mu.Lock()
				for _, ci := range k.cfg.Subs {
					r.Subscriptions[chName(ci)] = chOpts(ci)
					k.connSubs[chName(ci)]++
				}
				k.mu.Unlock()
			}
			return r, nil
		}
		w.OnSubscribe = func(c *vfConn, e SubscribeEvent, cb SubscribeCallback) {
			if c == nil {
				cb(SubscribeReply{}, nil)
				return
			}
			w.Gates.Pass("sub:" + c.Name)
			cb(SubscribeReply{Options: chOpts(chIdx(e.Channel))}, nil)
		}
		w.PerClient = func(c *vfConn, client *Client) {
			id := client.ID()
			client.OnRPC(func(e RPCEvent, cb RPCCallback) {
				w.logEvent(id, "rpc", "", "")
				cb(RPCReply{}, nil)
			})
			client.OnMessage(func(e MessageEvent) { w.logEvent(id, "message", "", "") })
			client.OnAlive(func() {
				w.logEvent(id, "alive", "", "")
				if c != nil {
					w.Gates.Pass("alive:" + c.Name) // a user callback: the library holds presenceMu while it runs
				}
				w.logEvent(id, "alive-exit", "", "")
			})
			client.OnRefresh(func(e RefreshEvent, cb RefreshCallback) {
				w.logEvent(id, "refresh", "", fmt.Sprintf("clientSide=%v", e.ClientSideRefresh))
				if c == nil {
					cb(RefreshReply{Expired: true}, nil)
					return
				}
				k := byConn[c]
				if e.ClientSideRefresh {
					cb(RefreshReply{ExpireAt: time.Now().Unix() + 3}, nil)
					return
				}
				k.mu.Lock()
				ext := !k.extended && k.cfg.Extend > 0
				k.extended = true
				k.mu.Unlock()
				if ext {
					cb(RefreshReply{ExpireAt: time.Now().Unix() + int64(k.cfg.Extend)}, nil)
					return
				}
				cb(RefreshReply{Expired: true}, nil)
			})
			// widen the window in which a racing close could overlap the connect callback
			for i := 0; i < 20; i++ {
				runtime.Gosched()
			}
			w.logEvent(id, "connect-done", "", "")
		}

		nextDrop := 0
		w.broker.Fault = func(d vfDelivery) vfFault {
			if d.Kind == "pub" && nextDrop > 0 {
				nextDrop--
				return vfDrop
			}
			return vfDeliver
		}

		for i, kc := range cs.Conns {
			pp := PingPongConfig{PingInterval: -1, PongTimeout: -1}
			if kc.Ping > 0 {
				pp = PingPongConfig{PingInterval: time.Duration(kc.Ping) * time.Second, PongTimeout: time.Second}
			}
			conn := w.NewConn(vfConnCfg{Name: fmt.Sprintf("k%d", i), User: fmt.Sprintf("u%d", kc.User), Proto: kc.Proto, Uni: kc.Uni, PingPong: pp, KeepPing: true})
			k := &vfC08ConnState{cfg: kc, conn: conn, subIDs: map[uint32]string{}, serverOK: map[string]int{}, connSubs: map[string]int{}}
			states[i] = k
			byConn[conn] = k
			if kc.EarlyCB {
				id := conn.Client.ID()
				conn.Client.OnDisconnect(func(e DisconnectEvent) {
					w.logEvent(id, "disconnect", "", fmt.Sprintf("code=%d early-handler", e.Code))
				})
				conn.Client.OnAlive(func() {
					w.logEvent(id, "alive", "", "early-handler")
					w.logEvent(id, "alive-exit", "", "early-handler")
				})
			}
		}

		var cancels []context.CancelFunc
		defer func() {
			// every return path must let the handler goroutines exit before the bubble ends
			w.Gates.ReleaseAll()
			vfSettle()
			for _, c := range cancels {
				c()
			}
			for _, k := range states {
				go k.conn.TransportClose()
			}
			vfSettle()
			if dbgPath := os.Getenv("VF_DEBUG"); dbgPath != "" {
				dbgF, _ := os.OpenFile(dbgPath, os.O_APPEND|os.O_CREATE|os.O_WRONLY, 0o644)
				defer dbgF.Close()
				fmt.Fprintf(dbgF, "---- case\n")
				for _, k := range states {
					k.conn.Client.mu.RLock()
					fmt.Fprintf(dbgF, "DBG cleanup %s status=%d auth=%v idle=%v\n", k.conn.Name, k.conn.Client.status, k.conn.Client.authenticated, k.idle())
					k.conn.Client.mu.RUnlock()
				}
				for _, e := range w.Events() {
					fmt.Fprintf(dbgF, "DBG ev %d %s %s %s %s %s\n", e.Seq, e.At, vfC08Short(e.Client), e.Kind, e.Ch, e.Detail)
				}
			}
		}()

		connectSeen := func(k *vfC08ConnState) bool {
			id := k.conn.Client.ID()
			for _, e := range w.Events() {
				if e.Client == id && e.Kind == "connect-done" {
					return true
				}
			}
			return false
		}
		clientCmd := func(k *vfC08ConnState, f func()) bool {
			if !k.idle() {
				return false
			}
			done := make(chan struct{})
			k.busy = done
			go func() { defer close(done); f() }()
			return true
		}

		// shutdown bookkeeping
		var shutdownDone chan struct{}
		var shutdownStartSeq, shutdownDoneSeq int64
		liveAtShutdown := 0
		connectedBeforeShutdown := map[string]bool{} // connect callback had completed when Shutdown was called
		midConnectAtShutdown := 0
		startShutdown := func() {
			if shutdownDone != nil {
				return
			}
			liveAtShutdown = w.node.Hub().NumClients()
			for _, k := range states {
				if connectSeen(k) {
					connectedBeforeShutdown[k.conn.Client.ID()] = true
				}
			}
			for _, k := range states {
				if k.connectAt > 0 && !k.idle() && w.Gates.Waiting("connecting:"+k.conn.Name) > 0 {
					midConnectAtShutdown++
				}
			}
			shutdownDone = make(chan struct{})
			shutdownStartSeq = w.seq.Add(1)
			go func() {
				_ = w.node.Shutdown(context.Background())
				shutdownDoneSeq = w.seq.Add(1)
				close(shutdownDone)
			}()
		}
		shutdownCompleted := func() bool {
			if shutdownDone == nil {
				return false
			}
			select {
			case <-shutdownDone:
				return true
			default:
				return false
			}
		}

		gatedOps, parOps, afterShutdownOps, aliveWindows := 0, 0, 0, 0
		knownHit := func(key, ex string) bool {
			if isKnown(key) {
				if out.known == nil {
					out.known = map[string]string{}
				}
				if _, ok := out.known[key]; !ok {
					out.known[key] = ex
				}
				return true
			}
			return false
		}
		// origin of a client that reached connected state after shutdown started
		originKey := func(id string, transport string) string {
			for _, k := range states {
				if k.conn.Client.ID() == id {
					if connectedBeforeShutdown[id] {
						return "C08:connected-client-survives-shutdown" // never expected: Hub.shutdown closes every registered client
					}
					if k.connectAt < shutdownStartSeq {
						return "C08:connect-in-flight-during-shutdown-stays-connected"
					}
					return "C08:newclient-connects-after-shutdown"
				}
			}
			switch transport {
			case transportSSE:
				return "C08:sse-handler-connects-after-shutdown"
			case transportHTTPStream:
				return "C08:http-stream-handler-connects-after-shutdown"
			case transportWebsocket:
				return "C08:websocket-handler-connects-after-shutdown"
			}
			return "C08:newclient-connects-after-shutdown"
		}

		// Harness limit (guide rule d): close() holds connectMu while it waits up to 5 virtual seconds for an in-flight
		// client-side subscribe; a second close() of the same client then blocks on that mutex, which is not a durable
		// block, so the virtual clock could never advance. While a subscribe of a connection is parked at its gate at
		// most one operation that may close that connection is started; before a second one the gate is released.
		closeIssued := map[*vfC08ConnState]bool{}
		gatedSubPending := func(k *vfC08ConnState) bool {
			if k.gatedSub && k.idle() {
				k.gatedSub = false
			}
			return k.gatedSub || w.Gates.Waiting("sub:"+k.conn.Name) > 0
		}
		releaseSubGate := func(k *vfC08ConnState) {
			vfSettle() // a subscribe started together with the previous step may not have reached its gate yet
			w.Gates.Disarm("sub:" + k.conn.Name)
			for w.Gates.Release("sub:" + k.conn.Name) {
			}
			vfSettle()
			closeIssued[k] = false
			out.label("sub_gate_auto_released")
		}
		closeSinceSettle := map[*vfC08ConnState]bool{} // a closing operation was started and quiescence not yet awaited
		guardClose := func(targets []*vfC08ConnState) {
			for _, k := range targets {
				defer func(k *vfC08ConnState) { closeSinceSettle[k] = true }(k)
				if !gatedSubPending(k) {
					closeIssued[k] = false
					continue
				}
				if closeIssued[k] {
					releaseSubGate(k)
					continue
				}
				closeIssued[k] = true
			}
		}
		sameUser := func(k *vfC08ConnState) []*vfC08ConnState {
			var r []*vfC08ConnState
			for _, x := range states {
				if x.conn.User == k.conn.User {
					r = append(r, x)
				}
			}
			return r
		}
		releaseAllSubGates := func() {
			for _, k := range states {
				if gatedSubPending(k) {
					releaseSubGate(k)
				}
			}
		}
		inPar := false
		for si, s := range cs.Steps {
			k := states[s.Conn%len(states)]
			applied := false
			switch s.Kind {
			case vfC08ClientDisconnect, vfC08TransportClose, vfC08Misc:
				guardClose([]*vfC08ConnState{k})
			case vfC08NodeDisconnect:
				guardClose(sameUser(k))
			case vfC08Shutdown:
				guardClose(states)
			case vfC08GapPublish, vfC08Publish, vfC08Advance, vfC08AliveWindow, vfC08ShutdownInAddClient:
				// one delivery gap or one presence tick can spawn several close() calls for the same client at once
				releaseAllSubGates()
			}
			parkedSomewhere := len(w.Gates.AnyWaiting()) > 0
			switch s.Kind {
			case vfC08Connect:
				if k.connectAt > 0 || !k.idle() {
					break
				}
				if s.Gate {
					w.Gates.Arm("connecting:"+k.conn.Name, 1)
				}
				k.connectAt = w.seq.Add(1)
				applied = clientCmd(k, func() { k.conn.Connect(nil) })
			case vfC08Release:
				if w.Gates.Release("connecting:"+k.conn.Name) || w.Gates.Release("sub:"+k.conn.Name) {
					applied = true
					out.label("gate_released")
				}
			case vfC08Subscribe:
				ch := chName(s.Ch)
				if inPar {
					// A subscribe never overlaps operations started by the previous step: un-gated, "established" would be
					// undefined (see generator note); gated, several closes spawned by one earlier step (insufficient state)
					// would queue on connectMu behind the one waiting for the parked subscribe (harness limit, see below).
					vfSettle()
					for k := range closeSinceSettle {
						delete(closeSinceSettle, k)
					}
				}
				if s.Server || k.cfg.Uni {
					if !connectSeen(k) {
						break
					}
					applied = true
					k.mu.Lock()
					k.serverOK[ch]++ // attempts: an upper bound (Subscribe may commit and still return a write error)
					k.mu.Unlock()
					go func() {
						_ = k.conn.Client.Subscribe(ch, func(o *SubscribeOptions) { *o = chOpts(s.Ch) })
					}()
				} else {
					if k.connectAt == 0 {
						break
					}
					w.Gates.Disarm("sub:" + k.conn.Name) // an earlier gated subscribe may have failed before reaching its gate
					if s.Gate {
						w.Gates.Arm("sub:"+k.conn.Name, 1)
					}
					id := k.conn.NextID()
					k.subIDs[id] = ch
					applied = clientCmd(k, func() { k.conn.Cmd(&protocol.Command{Id: id, Subscribe: &protocol.SubscribeRequest{Channel: ch}}) })
					if applied {
						out.label("client_subscribe_issued")
					}
					if !applied {
						w.Gates.Disarm("sub:" + k.conn.Name)
					} else if s.Gate {
						k.gatedSub = true
						// a closing operation started together with this subscribe counts as the one allowed close
						closeIssued[k] = closeSinceSettle[k]
					}
				}
			case vfC08UnsubCmd:
				if k.cfg.Uni || k.connectAt == 0 {
					break
				}
				ch := chName(s.Ch)
				applied = clientCmd(k, func() {
					k.conn.Cmd(&protocol.Command{Id: k.conn.NextID(), Unsubscribe: &protocol.UnsubscribeRequest{Channel: ch}})
				})
			case vfC08ClientUnsub:
				if !connectSeen(k) {
					break
				}
				applied = true
				ch := chName(s.Ch)
				for i := 0; i < s.N; i++ { // concurrent server API calls for the same subscription
					go k.conn.Client.Unsubscribe(ch)
				}
			case vfC08NodeUnsub:
				applied = true
				ch := chName(s.Ch)
				user := k.conn.User
				go func() { _ = w.node.Unsubscribe(user, ch) }()
			case vfC08GapPublish:
				ch := chName(s.Ch)
				applied = true
				nextDrop = 1
				_, _ = w.node.Publish(ch, []byte(`{"x":0}`), WithHistory(20, time.Minute))
				nextDrop = 0
				for i := 0; i < s.N; i++ {
					_, _ = w.node.Publish(ch, []byte(`{"x":1}`), WithHistory(20, time.Minute))
				}
			case vfC08Publish:
				applied = true
				_, _ = w.node.Publish(chName(s.Ch), []byte(`{"x":2}`), WithHistory(20, time.Minute))
			case vfC08Advance:
				time.Sleep(time.Duration(s.AdvMs) * time.Millisecond)
			case vfC08ShutdownInAddClient:
				// Park a connect inside Node.addClient (Transport.AcceptProtocol is called there, right before hub.add,
				// when Metrics.ExposeTransportAcceptProtocol is set), run Node.Shutdown to completion, release. The client's
				// c.mu is held while parked: nothing of that client is touched and the clock does not advance.
				if inPar {
					vfSettle()
				}
				if shutdownDone != nil {
					break
				}
				target := k
				if target.connectAt > 0 {
					target = nil
					for _, x := range states {
						if x.connectAt == 0 && x.idle() {
							target = x
							break
						}
					}
				}
				if target == nil {
					applied = true
					startShutdown()
					break
				}
				if closed, _ := target.conn.T.Closed(); closed {
					applied = true
					startShutdown()
					break
				}
				gate := "accept:" + target.conn.Name
				w.Gates.Arm(gate, 1)
				target.connectAt = w.seq.Add(1)
				clientCmd(target, func() { target.conn.Connect(nil) })
				vfSettle()
				applied = true
				parked := w.Gates.Waiting(gate) > 0
				startShutdown()
				vfSettle()
				if parked {
					out.label("shutdown_while_connect_inside_addClient")
					if shutdownCompleted() {
						out.label("shutdown_completed_while_connect_inside_addClient")
					}
				}
				w.Gates.Disarm(gate)
				w.Gates.Release(gate)
				vfSettle()
				if parked {
					aliveWindows++ // counts as a reached window for the non-trivial rule
				}
			case vfC08AliveWindow:
				// Park the alive callback of this connection at its next presence tick and start ONE closing operation
				// while it is parked. The library holds presenceMu across the alive callback, so on a correct tree close()
				// blocks on that mutex (not a durable block): no virtual sleep / settle until the gate is released.
				if inPar {
					vfSettle()
				}
				if closed, _ := k.conn.T.Closed(); closed || !connectSeen(k) || (s.Close == 3 && shutdownDone != nil) {
					break
				}
				cleared := false
				if s.Clear {
					for _, ch := range k.conn.Client.Channels() {
						cleared = true
						go k.conn.Client.Unsubscribe(ch)
					}
					vfSettle()
				}
				k.conn.Client.mu.RLock()
				np := k.conn.Client.nextPresence
				k.conn.Client.mu.RUnlock()
				d := time.Until(time.Unix(0, np))
				if np == 0 || d < 0 || d > 5*time.Second {
					break
				}
				gate := "alive:" + k.conn.Name
				w.Gates.Arm(gate, 1)
				time.Sleep(d) // exactly up to the tick: nothing of this client is parked while the clock runs
				vfSettle()
				if w.Gates.Waiting(gate) == 0 {
					w.Gates.Disarm(gate)
					break
				}
				applied = true
				nsubs := len(k.conn.Client.Channels())
				switch s.Close {
				case 0:
					k.conn.Client.Disconnect(DisconnectForceReconnect)
				case 1:
					user := k.conn.User
					go func() { _ = w.node.Disconnect(user) }()
				case 2:
					go k.conn.TransportClose()
				default:
					startShutdown()
				}
				// bounded spinning: close() reaches transport.Close right before it takes presenceMu
				for i := 0; i < 300000; i++ {
					runtime.Gosched()
					if closed, _ := k.conn.T.Closed(); closed {
						break
					}
				}
				for i := 0; i < 1000; i++ {
					runtime.Gosched()
				}
				w.Gates.Release(gate)
				vfSettle()
				out.label("alive_parked_then_close")
				out.label("alive_window_close_" + []string{"client_disconnect", "node_disconnect", "transport_close", "shutdown"}[s.Close])
				switch {
				case nsubs > 0:
					out.label("alive_window_with_subscriptions")
				case cleared:
					out.label("alive_window_after_last_subscription_removed")
				default:
					out.label("alive_window_no_subscriptions")
				}
				aliveWindows++
			case vfC08ClientDisconnect:
				applied = true
				k.conn.Client.Disconnect(DisconnectForceReconnect)
			case vfC08NodeDisconnect:
				applied = true
				user := k.conn.User
				go func() { _ = w.node.Disconnect(user) }()
			case vfC08TransportClose:
				applied = true
				go k.conn.TransportClose()
			case vfC08Misc:
				if k.cfg.Uni || k.connectAt == 0 {
					break
				}
				var cmd *protocol.Command
				switch s.Misc {
				case 0:
					cmd = &protocol.Command{Id: k.conn.NextID(), Rpc: &protocol.RPCRequest{Method: "m"}}
				case 1:
					cmd = &protocol.Command{}
				default:
					cmd = &protocol.Command{Id: k.conn.NextID(), Refresh: &protocol.RefreshRequest{Token: "t"}}
				}
				applied = clientCmd(k, func() { k.conn.Cmd(cmd) })
			case vfC08Shutdown:
				if shutdownDone == nil {
					applied = true
					startShutdown()
				}
			}
			if applied {
				if parkedSomewhere && s.Kind != vfC08Release {
					gatedOps++
				}
				if inPar || s.Par {
					parOps++
				}
				if shutdownDone != nil && s.Kind != vfC08Shutdown {
					afterShutdownOps++
				}
			}
			inPar = s.Par
			if !s.Par || si == len(cs.Steps)-1 {
				vfSettle()
				for k := range closeSinceSettle {
					delete(closeSinceSettle, k)
				}
			}
		}

		// ---- wind down: release everything, make sure shutdown ran and completed --------------------------------------
		w.Gates.ReleaseAll()
		vfSettle()
		time.Sleep(time.Second)
		vfSettle()
		startShutdown()
		for i := 0; i < 8 && !shutdownCompleted(); i++ {
			time.Sleep(time.Second)
			vfSettle()
		}
		if !shutdownCompleted() {
			return "Node.Shutdown did not return within 8 virtual seconds after every gate was released"
		}
		vfSettle()

		// O6
		statusOf := func(c *Client) status {
			c.mu.RLock()
			defer c.mu.RUnlock()
			return c.status
		}
		transportOf := map[string]string{}
		for _, e := range w.Events() {
			if e.Kind == "connecting" {
				transportOf[e.Client] = e.Detail
			}
		}
		for _, k := range states {
			if statusOf(k.conn.Client) == statusConnected {
				key := originKey(k.conn.Client.ID(), "")
				ex := fmt.Sprintf("connection %s is in connected state after Node.Shutdown returned (hub clients=%d)", k.conn.Name, w.node.Hub().NumClients())
				if !knownHit(key, ex) {
					return "[" + key + "] " + ex + "; events: " + vfC08RenderEvents(w.Events(), k.conn.Client.ID())
				}
			}
		}
		if n := w.node.Hub().NumClients(); n != 0 {
			excused := 0
			for id := range w.node.Hub().Connections() {
				if isKnown(originKey(id, transportOf[id])) {
					excused++
				}
			}
			if excused != n {
				return fmt.Sprintf("Hub.NumClients()=%d after Node.Shutdown returned", n)
			}
		}

		// ---- O7 probes: attempts after shutdown completed ------------------------------------------------------------
		var probeConns []*vfConn
		var wsMu sync.Mutex
		var wsReads []string
		probeBodies := map[string]*vfC08RW{}
		for pi, p := range cs.Probes {
			switch p {
			case 0:
				pc := w.NewConn(vfConnCfg{Name: fmt.Sprintf("p%d", pi), User: "u0"})
				pk := &vfC08ConnState{cfg: vfC08ConnCfg{}, conn: pc, subIDs: map[uint32]string{}, serverOK: map[string]int{}, connSubs: map[string]int{}}
				pk.connectAt = w.seq.Add(1)
				byConn[pc] = pk
				states = append(states, pk)
				probeConns = append(probeConns, pc)
				go pc.Connect(nil)
			case 1, 2:
				ctx, cancel := context.WithCancel(context.Background())
				cancels = append(cancels, cancel)
				req, err := http.NewRequestWithContext(ctx, http.MethodPost, "http://localhost/connection", strings.NewReader(`{"id":1,"connect":{}}`))
				if err != nil {
					return "infra: " + err.Error()
				}
				rw := &vfC08RW{hdr: http.Header{}}
				var h http.Handler
				if p == 1 {
					h = NewSSEHandler(w.node, SSEConfig{})
					probeBodies[fmt.Sprintf("sse#%d", pi)] = rw
				} else {
					h = NewHTTPStreamHandler(w.node, HTTPStreamConfig{})
					probeBodies[fmt.Sprintf("http_stream#%d", pi)] = rw
				}
				go h.ServeHTTP(rw, req)
			case 3:
				ctx, cancel := context.WithCancel(context.Background())
				cancels = append(cancels, cancel)
				srv, cli := net.Pipe()
				req, err := http.NewRequestWithContext(ctx, http.MethodGet, "http://localhost/connection/websocket", nil)
				if err != nil {
					return "infra: " + err.Error()
				}
				req.Header.Set("Connection", "Upgrade")
				req.Header.Set("Upgrade", "websocket")
				req.Header.Set("Sec-Websocket-Version", "13")
				req.Header.Set("Sec-Websocket-Key", "dGhlIHNhbXBsZSBub25jZQ==")
				rw := vfC08HijackRW{&vfC08RW{hdr: http.Header{}, conn: srv}}
				h := NewWebsocketHandler(w.node, WebsocketConfig{})
				go h.ServeHTTP(rw, req)
				go func() {
					// client end: send one masked text frame with a connect command, then drain until the server closes
					payload := []byte(`{"id":1,"connect":{}}`)
					frame := []byte{0x81, 0x80 | byte(len(payload)), 1, 2, 3, 4}
					for i, b := range payload {
						frame = append(frame, b^[]byte{1, 2, 3, 4}[i%4])
					}
					go func() { _, _ = cli.Write(frame) }()
					var got bytes.Buffer
					_, _ = io.Copy(&got, cli)
					wsMu.Lock()
					wsReads = append(wsReads, got.String())
					wsMu.Unlock()
				}()
				cancels = append(cancels, func() { _ = cli.Close(); _ = srv.Close() })
			}
		}
		if len(cs.Probes) > 0 {
			vfSettle()
			time.Sleep(500 * time.Millisecond)
			vfSettle()
		}
		events := w.Events()
		for _, e := range events {
			if e.Kind == "connect" && e.Seq > shutdownDoneSeq {
				key := originKey(e.Client, vfC08TransportOf(events, e.Client))
				ex := fmt.Sprintf("client %s (transport %s) got its connect callback after Node.Shutdown had returned", vfC08Short(e.Client), vfC08TransportOf(events, e.Client))
				if !knownHit(key, ex) {
					return "[" + key + "] " + ex + "; events: " + vfC08RenderEvents(events, e.Client)
				}
			}
		}
		for _, c := range cancels {
			c()
		}
		cancels = nil
		for _, k := range states {
			go k.conn.TransportClose()
		}
		vfSettle()
		time.Sleep(6 * time.Second)
		vfSettle()

		// ---- O1-O5 over the callback log -----------------------------------------------------------------------------
		events = w.Events()
		type cl struct {
			connect, connectDone, disconnect int64
			nConnect, nDisconnect            int
			unsub                            map[string]int
			subEv                            map[string]int
		}
		byClient := map[string]*cl{}
		var order []string
		get := func(id string) *cl {
			c := byClient[id]
			if c == nil {
				c = &cl{unsub: map[string]int{}, subEv: map[string]int{}}
				byClient[id] = c
				order = append(order, id)
			}
			return c
		}
		sameInstant := false
		aliveIn := map[string]int64{} // seq of the alive callback currently running per client
		lastAt := map[string]time.Duration{}
		lastKind := map[string]string{}
		for _, e := range events {
			c := get(e.Client)
			switch e.Kind {
			case "connecting":
				continue
			case "connect":
				c.nConnect++
				if c.nConnect > 1 {
					return "O1: connect callback ran twice for client " + vfC08Short(e.Client) + "; events: " + vfC08RenderEvents(events, e.Client)
				}
				c.connect = e.Seq
			case "connect-done":
				c.connectDone = e.Seq
			default:
				if c.nConnect == 0 {
					return fmt.Sprintf("O2: %s callback ran for client %s whose connect callback had not run; events: %s", e.Kind, vfC08Short(e.Client), vfC08RenderEvents(events, e.Client))
				}
				if c.connectDone == 0 && (e.Kind == "disconnect" || e.Kind == "alive" || (e.Kind == "unsubscribe" && strings.HasPrefix(e.Detail, "code=1 "))) {
					// The close path and the timers are serialised with the connect callback (connectMu; timers are armed
					// after it): their callbacks must not overlap it. Callbacks triggered by commands or server API calls
					// (subscribe, rpc, Client.Unsubscribe ...) may legitimately overlap a slow connect callback.
					return fmt.Sprintf("O2: %s callback ran for client %s while its connect callback was still running; events: %s", e.Kind, vfC08Short(e.Client), vfC08RenderEvents(events, e.Client))
				}
			}
			switch e.Kind {
			case "disconnect":
				c.nDisconnect++
				if c.nDisconnect > 1 {
					return "O3: disconnect callback ran twice for client " + vfC08Short(e.Client) + "; events: " + vfC08RenderEvents(events, e.Client)
				}
				c.disconnect = e.Seq
				if in := aliveIn[e.Client]; in != 0 {
					return fmt.Sprintf("O8: disconnect callback of client %s started (seq %d) while its alive callback (entered at seq %d) was still running - the alive callback runs after the disconnect callback; events: %s",
						vfC08Short(e.Client), e.Seq, in, vfC08RenderEvents(events, e.Client))
				}
			case "alive-exit":
				aliveIn[e.Client] = 0
			case "alive":
				aliveIn[e.Client] = e.Seq
				if c.nDisconnect > 0 {
					return "O4: alive callback ran after the disconnect callback for client " + vfC08Short(e.Client) + "; events: " + vfC08RenderEvents(events, e.Client)
				}
			case "unsubscribe":
				c.unsub[e.Ch]++
			case "subscribe":
				c.subEv[e.Ch]++
			}
			if e.Kind == "alive" || e.Kind == "disconnect" || e.Kind == "unsubscribe" || e.Kind == "connect" {
				if at, ok := lastAt[e.Client]; ok && at == e.At && (e.Kind == "alive" || lastKind[e.Client] == "alive" || (e.Kind == "disconnect" && lastKind[e.Client] == "connect")) {
					sameInstant = true
				}
				lastAt[e.Client] = e.At
				lastKind[e.Client] = e.Kind
			}
		}
		established, ended, doubleUnsubPush := 0, 0, 0
		for _, k := range states {
			id := k.conn.Client.ID()
			c := get(id)
			if closed, _ := k.conn.T.Closed(); !closed {
				return fmt.Sprintf("infra: connection %s still open at the end", k.conn.Name)
			}
			if st := statusOf(k.conn.Client); st != statusClosed {
				return fmt.Sprintf("connection %s: transport closed but client status is %d (not closed) at the end; events: %s", k.conn.Name, st, vfC08RenderEvents(events, id))
			}
			F := map[string]int{}
			pushUnsub := map[string]int{}
			for _, f := range k.conn.Frames() {
				if f.Err != nil || f.Reply == nil {
					continue
				}
				r := f.Reply
				switch {
				case r.Connect != nil:
					for ch := range r.Connect.Subs {
						F[ch]++
					}
				case r.Subscribe != nil && r.Error == nil:
					if ch, ok := k.subIDs[r.Id]; ok {
						F[ch]++
						out.label("client_subscribe_established")
					}
				case r.Push != nil && r.Push.Connect != nil:
					for ch := range r.Push.Connect.Subs {
						F[ch]++
					}
				case r.Push != nil && r.Push.Subscribe != nil:
					F[r.Push.Channel]++
					out.label("server_subscribe_established")
				case r.Push != nil && r.Push.Unsubscribe != nil:
					pushUnsub[r.Push.Channel]++
				}
			}
			chs := map[string]bool{}
			for ch := range F {
				chs[ch] = true
			}
			for ch := range c.unsub {
				chs[ch] = true
			}
			names := make([]string, 0, len(chs))
			for ch := range chs {
				names = append(names, ch)
			}
			sort.Strings(names)
			for _, ch := range names {
				if c.nConnect == 0 {
					continue // no callback was ever enabled for this connection
				}
				k.mu.Lock()
				A := c.subEv[ch] + k.serverOK[ch] + k.connSubs[ch]
				k.mu.Unlock()
				U := c.unsub[ch]
				established += F[ch]
				ended += U
				if U < F[ch] && k.connSubs[ch] > 0 && pushUnsub[ch] > 0 {
					// a connect-time subscription torn down by a server-side unsubscribe that reached the client after
					// connectCmd finalised the subscription but before the connect callback installed the handlers
					serverCb := 0
					for _, e := range events {
						if e.Client == id && e.Kind == "unsubscribe" && e.Ch == ch && !strings.HasPrefix(e.Detail, "code=1 ") {
							serverCb++
						}
					}
					key := "C08:server-unsubscribe-between-connect-reply-and-connect-callback-has-no-unsubscribe-callback"
					if pushUnsub[ch] > serverCb && F[ch]-U <= pushUnsub[ch]-serverCb {
						ex := fmt.Sprintf("connection %s channel %s: %d established, %d unsubscribe callbacks, %d unsubscribe pushes", k.conn.Name, ch, F[ch], U, pushUnsub[ch])
						if knownHit(key, ex) {
							continue
						}
						return "[" + key + "] " + fmt.Sprintf("O5: connection %s channel %s: %d subscription(s) were established and ended (unsubscribe push written %d time(s)) but the unsubscribe callback ran %d time(s); events: %s; frames: %s",
							k.conn.Name, ch, F[ch], pushUnsub[ch], U, vfC08RenderEvents(events, id), vfRenderFrames(k.conn.Frames()))
					}
				}
				if U < F[ch] {
					return fmt.Sprintf("O5: connection %s channel %s: %d subscription(s) were established (success frames) and the connection is closed, but the unsubscribe callback ran %d time(s); events: %s; frames: %s",
						k.conn.Name, ch, F[ch], U, vfC08RenderEvents(events, id), vfRenderFrames(k.conn.Frames()))
				}
				if U > A {
					return fmt.Sprintf("O5: connection %s channel %s: the unsubscribe callback ran %d time(s) for %d accepted subscribe attempt(s); events: %s; frames: %s",
						k.conn.Name, ch, U, A, vfC08RenderEvents(events, id), vfRenderFrames(k.conn.Frames()))
				}
				if pushUnsub[ch] > U {
					doubleUnsubPush++
				}
			}
		}
		_ = probeConns

		// ---- labels -------------------------------------------------------------------------------------------------
		if liveAtShutdown > 0 {
			out.label("shutdown_with_live_connections")
		}
		if midConnectAtShutdown > 0 {
			out.label("shutdown_with_connect_in_flight")
		}
		if afterShutdownOps > 0 {
			out.label("operations_after_shutdown")
		}
		if gatedOps > 0 {
			out.label("operation_while_connect_or_subscribe_parked")
		}
		if parOps > 1 {
			out.label("operations_started_together")
		}
		if sameInstant {
			out.label("timer_callback_same_instant_as_other_lifecycle_callback")
		}
		if established > 0 {
			out.label("subscription_established")
		}
		if doubleUnsubPush > 0 {
			out.label("more_unsubscribe_pushes_than_callbacks")
		}
		codes := map[string]bool{}
		for _, e := range events {
			switch e.Kind {
			case "disconnect":
				codes["disconnect_"+strings.TrimSuffix(strings.TrimPrefix(e.Detail, "code="), " early-handler")] = true
			case "unsubscribe":
				codes["unsub_"+strings.SplitN(strings.TrimPrefix(e.Detail, "code="), " ", 2)[0]] = true
			case "alive":
				codes["alive_callback"] = true
			case "refresh":
				codes["refresh_callback"] = true
			}
		}
		for _, k := range states {
			if closed, d := k.conn.T.Closed(); closed {
				codes[fmt.Sprintf("transport_closed_%d", d.Code)] = true
			}
		}
		for c := range codes {
			out.label(c)
		}
		for _, p := range cs.Probes {
			out.label("probe_" + []string{"newclient", "sse", "http_stream", "websocket"}[p])
		}
		wsMu.Lock()
		for _, r := range wsReads {
			if strings.Contains(r, "101 Switching Protocols") {
				out.label("probe_websocket_handshake_completed_then_closed")
			}
			if strings.Contains(r, `"connect"`) {
				out.label("probe_got_connect_reply_websocket")
			}
		}
		wsMu.Unlock()
		for name, rw := range probeBodies {
			if strings.Contains(rw.Body(), `"connect"`) {
				out.label("probe_got_connect_reply_" + strings.SplitN(name, "#", 2)[0])
			}
		}
		out.nontrivial = aliveWindows > 0 || liveAtShutdown > 0 || midConnectAtShutdown > 0 || gatedOps > 0 || parOps > 1 || sameInstant
		return ""
	})
}

func vfC08TransportOf(events []vfEvent, id string) string {
	for _, e := range events {
		if e.Client == id && e.Kind == "connecting" {
			return e.Detail
		}
	}
	return ""
}

func vfC08Short(id string) string {
	if len(id) > 8 {
		return id[:8]
	}
	return id
}

func vfC08RenderEvents(events []vfEvent, id string) string {
	var parts []string
	for _, e := range events {
		if e.Client != id {
			continue
		}
		s := fmt.Sprintf("%d@%s %s", e.Seq, e.At, e.Kind)
		if e.Ch != "" {
			s += "[" + e.Ch + "]"
		}
		if e.Detail != "" {
			s += "(" + e.Detail + ")"
		}
		parts = append(parts, s)
	}
	return strings.Join(parts, " | ")
}

func TestVF_C08(t *testing.T) {
	vfCheck(t, "C08", func(rt *rapid.T, c *vfCase) string {
		cs := vfC08Gen(rt)
		c.Describe(cs.String())
		out := &vfC08Out{}
		msg := vfC08Run(t, cs, out, c.IsKnown)
		seen := map[string]bool{}
		for _, l := range out.labels {
			if !seen[l] {
				seen[l] = true
				c.Label(l)
			}
		}
		keys := make([]string, 0, len(out.known))
		for k := range out.known {
			keys = append(keys, k)
		}
		sort.Strings(keys)
		for _, k := range keys {
			c.Known(k, out.known[k])
		}
		if out.nontrivial {
			c.Nontrivial(c.desc)
		}
		return msg
	})
}
