package PKGNAME

// C38 — Channel medium preserves delivery guarantees.
//
// World with Config.GetChannelMediumOptions returning options drawn over every field (KeepLatestPublication,
// SharedPositionSync and the unexported enableQueue / queueMaxSize / broadcastDelay), 2-3 subscribers on one channel
// (positioned+recoverable by client command, positioned by client command, positioned server-side, plain; optional fossil
// delta on Protobuf connections), and a schedule of publishes with history (delivered / dropped / duplicated / held at
// the PUB/SUB boundary), releases of held deliveries in any order, bursts, subscribes / unsubscribes (the medium is
// closed ~1 s after the last subscriber left and re-created by the next one), small time advances (broadcast delay),
// long advances (periodic position checks: per connection, or shared through the medium), node shutdown.
//
// A pass-through spy is put in front of the medium's node (channelMedium.node is an interface) to log what the medium
// hands on, in order, including the insufficient-state sentinel (offset MaxUint64).
//
// Oracle on every subscriber's ordered frames:
//   - positioned: per subscription segment offsets strictly increase from the subscribe position and no offset is
//     skipped (no silent gap); payload equals what was published; ending with unsubscribe / disconnect is always allowed;
//   - plain: the delivered sequence is a subsequence of the sequence handed to Node.HandlePublication (order kept);
//   - delta frames reconstruct the published payload (fossil, Protobuf connections only);
//   - whenever the medium broadcast the insufficient-state sentinel, every positioned subscription that was established
//     at that moment ends within one broadcast delay (+2 s);
//   - shared position sync: when the periodic check ends one positioned subscription (insufficient state at an instant
//     without any hand-over), every other established positioned subscription ends with it;
//   - after a final quiet period of 3 check delays + 4 ticks no positioned subscription that is behind the stream top
//     survives (with shared sync: asserted only when all established positioned subscriptions are behind).

import (
	"context"
	"fmt"
	"math"
	"strings"
	"sync"
	"testing"
	"time"

	"github.com/centrifugal/protocol"
	fdelta "github.com/shadowspore/fossil-delta"
	"pgregory.net/rapid"
)

type vfC38Sub struct {
	Kind  int // 0 positioned+recoverable (client), 1 positioned (client), 2 positioned server-side (Client.Subscribe), 3 plain (client)
	Proto ProtocolType
	Delta bool
}

func (s vfC38Sub) positioned() bool { return s.Kind <= 2 }

type vfC38Step struct {
	Kind    int // 0 publish, 1 release held, 2 subscribe, 3 unsubscribe, 4 advance ms, 5 position tick (long advance), 6 burst, 7 shutdown, 8 publish with the delivery dropped + long advance
	Fault   int // 0 deliver, 1 drop, 2 dup, 3 hold
	Conn    int
	Idx     int
	Recover bool
	Ms      int
	N       int
	Mask    int // burst: bit i set = delivery i dropped
}

type vfC38Case struct {
	Medium        ChannelMediumOptions
	Hist          int
	CheckDelaySec int
	TickSec       int
	Subs          []vfC38Sub
	Steps         []vfC38Step
}

func (s vfC38Step) String() string {
	switch s.Kind {
	case 0:
		return "pub(" + []string{"deliver", "drop", "dup", "hold"}[s.Fault] + ")"
	case 1:
		return fmt.Sprintf("releaseHeld(%d)", s.Idx)
	case 2:
		return fmt.Sprintf("subscribe(%d recover=%v)", s.Conn, s.Recover)
	case 3:
		return fmt.Sprintf("unsubscribe(%d)", s.Conn)
	case 4:
		return fmt.Sprintf("adv(%dms)", s.Ms)
	case 5:
		return fmt.Sprintf("positionTick(%ds)", s.Ms/1000)
	case 6:
		return fmt.Sprintf("burst(%d dropmask=%b)", s.N, s.Mask)
	case 8:
		return fmt.Sprintf("pub(drop)+positionTick(%ds)", s.Ms/1000)
	}
	return "shutdown"
}

func (c vfC38Case) String() string {
	subs := make([]string, len(c.Subs))
	for i, s := range c.Subs {
		subs[i] = fmt.Sprintf("%s/%s/delta=%v", []string{"pos+rec", "pos", "pos-serverside", "plain"}[s.Kind], s.Proto, s.Delta)
	}
	st := make([]string, len(c.Steps))
	for i, s := range c.Steps {
		st[i] = s.String()
	}
	m := c.Medium
	return fmt.Sprintf("medium{keepLatest=%v sharedSync=%v queue=%v queueMax=%d delay=%s} hist=%d checkDelay=%ds tick=%ds subs=[%s] steps=[%s]",
		m.KeepLatestPublication, m.SharedPositionSync, m.enableQueue, m.queueMaxSize, m.broadcastDelay, c.Hist, c.CheckDelaySec, c.TickSec,
		strings.Join(subs, " "), strings.Join(st, " "))
}

func vfC38Gen(rt *rapid.T) vfC38Case {
	c := vfC38Case{}
	c.Medium.KeepLatestPublication = rapid.Bool().Draw(rt, "keepLatest")
	c.Medium.SharedPositionSync = rapid.IntRange(0, 2).Draw(rt, "sharedSync") > 0
	c.Medium.enableQueue = rapid.Bool().Draw(rt, "queue")
	if c.Medium.enableQueue {
		c.Medium.queueMaxSize = rapid.SampledFrom([]int{0, 0, 1, 40, 100}).Draw(rt, "queueMax")
		c.Medium.broadcastDelay = rapid.SampledFrom([]time.Duration{0, 0, 200 * time.Millisecond, time.Second}).Draw(rt, "delay")
	}
	c.Hist = rapid.IntRange(3, 10).Draw(rt, "hist")
	c.CheckDelaySec = rapid.SampledFrom([]int{0, 10}).Draw(rt, "checkDelay")
	c.TickSec = rapid.SampledFrom([]int{0, 5}).Draw(rt, "tick")
	n := rapid.IntRange(2, 3).Draw(rt, "nsubs")
	havePos := false
	for i := 0; i < n; i++ {
		s := vfC38Sub{Kind: rapid.SampledFrom([]int{0, 0, 1, 2, 3, 3}).Draw(rt, "subkind")}
		if i == n-1 && !havePos {
			s.Kind = rapid.IntRange(0, 1).Draw(rt, "poskind")
		}
		havePos = havePos || s.positioned()
		s.Proto = rapid.SampledFrom([]ProtocolType{ProtocolTypeJSON, ProtocolTypeProtobuf}).Draw(rt, "proto")
		if s.Proto == ProtocolTypeProtobuf && s.Kind != 0 && s.Kind != 2 {
			s.Delta = rapid.Bool().Draw(rt, "delta")
		}
		c.Subs = append(c.Subs, s)
	}
	ns := rapid.IntRange(4, 26).Draw(rt, "nsteps")
	for i := 0; i < n; i++ {
		c.Steps = append(c.Steps, vfC38Step{Kind: 2, Conn: i})
	}
	for i := 0; i < ns; i++ {
		k := rapid.SampledFrom([]int{0, 0, 0, 0, 0, 0, 0, 1, 1, 2, 2, 3, 4, 4, 5, 6, 6, 7, 8, 8}).Draw(rt, "kind")
		s := vfC38Step{Kind: k}
		switch k {
		case 0:
			s.Fault = rapid.SampledFrom([]int{0, 0, 0, 0, 0, 0, 0, 1, 1, 2, 3}).Draw(rt, "fault")
		case 1:
			s.Idx = rapid.IntRange(0, 3).Draw(rt, "idx")
		case 2:
			s.Conn = rapid.IntRange(0, n-1).Draw(rt, "conn")
			s.Recover = rapid.Bool().Draw(rt, "recover")
		case 3:
			s.Conn = rapid.IntRange(0, n-1).Draw(rt, "conn")
		case 4:
			s.Ms = rapid.SampledFrom([]int{50, 250, 1100, 2500}).Draw(rt, "ms")
		case 5, 8:
			s.Ms = rapid.SampledFrom([]int{30000, 60000, 100000}).Draw(rt, "tickms")
		case 6:
			s.N = rapid.IntRange(2, 5).Draw(rt, "n")
			s.Mask = rapid.SampledFrom([]int{0, 0, 1, 2, 4, 16, 5}).Draw(rt, "mask")
		case 7:
			if i < ns-3 {
				s.Kind = 0 // shutdown only near the end of a schedule
			}
		}
		c.Steps = append(c.Steps, s)
	}
	return c
}

type vfC38SpyEv struct {
	At       time.Duration
	Seq      int64
	Off      uint64
	Sentinel bool
}

type vfC38Spy struct {
	w      *vfWorld
	inner  nodeSubset
	mu     sync.Mutex
	events []vfC38SpyEv
	checks int
}

func (s *vfC38Spy) handlePublication(ch string, sp StreamPosition, pub, prevPub *Publication, localPrevPub *Publication) error {
	ev := vfC38SpyEv{At: time.Since(s.w.start), Seq: s.w.seq.Add(1), Off: pub.Offset, Sentinel: pub.Offset == math.MaxUint64}
	s.mu.Lock()
	s.events = append(s.events, ev)
	s.mu.Unlock()
	return s.inner.handlePublication(ch, sp, pub, prevPub, localPrevPub)
}

func (s *vfC38Spy) streamTop(ch string, historyMetaTTL time.Duration) (StreamPosition, error) {
	s.mu.Lock()
	s.checks++
	s.mu.Unlock()
	return s.inner.streamTop(ch, historyMetaTTL)
}

func (s *vfC38Spy) mapStreamTop(ch string) (StreamPosition, error) { return s.inner.mapStreamTop(ch) }

type vfC38Out struct {
	labels     []string
	nontrivial bool
	known      []string
	knownEx    string
}

func (o *vfC38Out) label(l string) { o.labels = append(o.labels, l) }

type vfC38Attempt struct {
	recover   bool
	reqOffset uint64
	reqEpoch  string
}

type vfC38Seg struct {
	startSeq int64
	startAt  time.Duration
	endSeq   int64 // 0 = not ended by a frame
	endAt    time.Duration
	ended    bool
	insuff   bool // ended with insufficient state (unsubscribe push 2500 / disconnect 3010)
}

func vfC38Run(t *testing.T, cs vfC38Case, out *vfC38Out, isKnown func(string) bool) string {
	return vfBubble(t, func() string {
		const ch = "mch"
		cfg := Config{
			ClientChannelPositionCheckDelay: time.Duration(cs.CheckDelaySec) * time.Second,
			ClientPresenceUpdateInterval:    time.Duration(cs.TickSec) * time.Second,
			GetChannelMediumOptions: func(channel string) ChannelMediumOptions {
				if channel == ch {
					return cs.Medium
				}
				return ChannelMediumOptions{}
			},
		}
		w, err := vfNewWorld(cfg, nil)
		if err != nil {
			return "infra: " + err.Error()
		}
		// orphaned mediums (see below) own a goroutine that never exits: close them before the bubble ends
		var mediums []*channelMedium
		defer func() {
			for _, m := range mediums {
				select {
				case <-m.closeCh:
				default:
					m.close()
				}
			}
			vfSettle()
		}()
		defer w.Close()
		spy := &vfC38Spy{w: w}
		trackMedium := func() {
			mu := w.node.mediumLock(ch)
			mu.Lock()
			m := w.node.mediumShard(ch)[ch]
			mu.Unlock()
			if m == nil {
				return
			}
			for _, x := range mediums {
				if x == m {
					return
				}
			}
			mediums = append(mediums, m)
			if spy.inner == nil {
				spy.inner = m.node
			}
			m.node = spy
		}

		optsOf := func(s vfC38Sub) SubscribeOptions {
			o := SubscribeOptions{EnablePositioning: s.positioned(), EnableRecovery: s.Kind == 0}
			if s.Delta {
				o.AllowedDeltaTypes = []DeltaType{DeltaTypeFossil}
			}
			return o
		}
		conns := make([]*vfConn, len(cs.Subs))
		subIdx := map[string]int{}
		w.ChanOpts = func(c *vfConn, e SubscribeEvent) (SubscribeReply, error) {
			return SubscribeReply{Options: optsOf(cs.Subs[subIdx[c.Name]])}, nil
		}
		for i, s := range cs.Subs {
			name := fmt.Sprintf("s%d", i)
			subIdx[name] = i
			conns[i] = w.NewConn(vfConnCfg{Name: name, User: "u" + name, Proto: s.Proto})
			conns[i].Connect(nil)
		}

		// publish log and PUB/SUB boundary
		type pubRec struct {
			Off  uint64
			Data string
		}
		byOff := map[uint64]pubRec{}
		var handed []uint64 // offsets in the order they were handed to Node.HandlePublication
		curEpoch := ""
		var top uint64
		nextFault := vfDeliver
		var heldOffs []uint64
		w.broker.Fault = func(d vfDelivery) vfFault {
			if d.Kind != "pub" {
				return vfDeliver
			}
			switch nextFault {
			case vfDeliver:
				handed = append(handed, d.Pub.Offset)
			case vfDup:
				handed = append(handed, d.Pub.Offset, d.Pub.Offset)
			case vfHold:
				heldOffs = append(heldOffs, d.Pub.Offset)
			}
			return nextFault
		}
		counter := 0
		drops, dups, holds := 0, 0, 0
		publish := func(f vfFault) string {
			counter++
			data := fmt.Sprintf(`{"doc":"channel medium verification payload","n":%d,"pad":"%s"}`, counter, strings.Repeat("x", counter%7))
			nextFault = f
			res, err := w.node.Publish(ch, []byte(data), WithHistory(cs.Hist, 600*time.Second), WithDelta(true))
			nextFault = vfDeliver
			if err != nil {
				return "publish error: " + err.Error()
			}
			if curEpoch != "" && res.Epoch != curEpoch {
				return "infra: unexpected epoch change"
			}
			curEpoch = res.Epoch
			top = res.Offset
			byOff[res.Offset] = pubRec{Off: res.Offset, Data: data}
			switch f {
			case vfDrop:
				drops++
			case vfDup:
				dups++
			case vfHold:
				holds++
			}
			return ""
		}

		attempts := make([]map[uint32]*vfC38Attempt, len(cs.Subs))
		serverAttempts := make([]int, len(cs.Subs))
		for i := range attempts {
			attempts[i] = map[uint32]*vfC38Attempt{}
		}
		clientPos := func(i int) (uint64, string, bool) {
			var off uint64
			var ep string
			have := false
			for _, f := range conns[i].Frames() {
				if f.Err != nil || f.Reply == nil {
					continue
				}
				r := f.Reply
				if r.Subscribe != nil && r.Error == nil {
					off, ep, have = r.Subscribe.Offset, r.Subscribe.Epoch, true
					for _, p := range r.Subscribe.Publications {
						off = p.Offset
					}
				}
				if r.Push != nil && r.Push.Channel == ch && r.Push.Pub != nil && have && r.Push.Pub.Offset > off {
					off = r.Push.Pub.Offset
				}
			}
			return off, ep, have
		}
		isSubscribedOrPending := func(i int) bool {
			c := conns[i].Client
			c.mu.RLock()
			defer c.mu.RUnlock()
			_, ok := c.channels[ch]
			return ok
		}
		numSubscribed := func() int {
			n := 0
			for i := range conns {
				if conns[i].Client.IsSubscribed(ch) {
					n++
				}
			}
			return n
		}
		shutdown := false
		faultWithTwoSubs := false
		for si, s := range cs.Steps {
			if shutdown {
				break
			}
			switch s.Kind {
			case 0:
				f := []vfFault{vfDeliver, vfDrop, vfDup, vfHold}[s.Fault]
				if f == vfDrop && numSubscribed() >= 2 {
					faultWithTwoSubs = true
				}
				if m := publish(f); m != "" {
					return fmt.Sprintf("step %d: %s", si, m)
				}
			case 1:
				if len(heldOffs) > 0 {
					i := s.Idx % len(heldOffs)
					handed = append(handed, heldOffs[i])
					heldOffs = append(heldOffs[:i:i], heldOffs[i+1:]...)
					w.broker.ReleaseHeld(s.Idx)
					out.label("held_released")
				}
			case 2:
				i := s.Conn
				if closed, _ := conns[i].T.Closed(); closed || isSubscribedOrPending(i) {
					continue
				}
				sub := cs.Subs[i]
				if sub.Kind == 2 {
					serverAttempts[i]++
					opts := []SubscribeOption{WithPositioning(true)}
					_ = conns[i].Client.Subscribe(ch, opts...)
				} else {
					a := &vfC38Attempt{}
					if sub.Kind == 0 && s.Recover {
						if off, ep, ok := clientPos(i); ok {
							a.recover, a.reqOffset, a.reqEpoch = true, off, ep
						}
					}
					id := conns[i].NextID()
					attempts[i][id] = a
					req := &protocol.SubscribeRequest{Channel: ch, Recover: a.recover, Offset: a.reqOffset, Epoch: a.reqEpoch}
					if sub.Delta {
						req.Delta = string(DeltaTypeFossil)
					}
					conns[i].Cmd(&protocol.Command{Id: id, Subscribe: req})
				}
			case 3:
				i := s.Conn
				if closed, _ := conns[i].T.Closed(); closed || !conns[i].Client.IsSubscribed(ch) {
					continue
				}
				if cs.Subs[i].Kind == 2 {
					conns[i].Client.Unsubscribe(ch)
				} else {
					conns[i].Cmd(&protocol.Command{Id: conns[i].NextID(), Unsubscribe: &protocol.UnsubscribeRequest{Channel: ch}})
				}
			case 8:
				if numSubscribed() >= 2 {
					faultWithTwoSubs = true
				}
				if m := publish(vfDrop); m != "" {
					return fmt.Sprintf("step %d: %s", si, m)
				}
				vfSettle()
				time.Sleep(time.Duration(s.Ms) * time.Millisecond)
			case 4, 5:
				time.Sleep(time.Duration(s.Ms) * time.Millisecond)
			case 6:
				for k := 0; k < s.N; k++ {
					f := vfDeliver
					if s.Mask&(1<<k) != 0 {
						f = vfDrop
						if numSubscribed() >= 2 {
							faultWithTwoSubs = true
						}
					}
					if m := publish(f); m != "" {
						return fmt.Sprintf("step %d: %s", si, m)
					}
				}
			case 7:
				shutdown = true
				_ = w.node.Shutdown(context.Background())
			}
			vfSettle()
			trackMedium()
		}
		for w.broker.NumHeld() > 0 {
			if len(heldOffs) > 0 {
				handed = append(handed, heldOffs[0])
				heldOffs = heldOffs[1:]
			}
			w.broker.ReleaseHeld(0)
		}
		vfSettle()
		time.Sleep(3 * time.Second)
		vfSettle()
		trackMedium()
		// Quiet phase: nothing is published any more. A connection's own gate opens at most checkDelay+1 s after its last
		// stamp, the medium's gate checkDelay after the last hand-over / real check, ticks come every tick interval: the
		// first real check happens within 2*checkDelay + tick + 2 s. If every established positioned subscription is
		// behind the stream top (or, without shared sync, for each one that is) that check must find the loss.
		type quietSub struct {
			idx   int
			stale bool
		}
		var quiet []quietSub
		if !shutdown {
			checkDelay, tick := 40*time.Second, 25*time.Second
			if cs.CheckDelaySec > 0 {
				checkDelay = time.Duration(cs.CheckDelaySec) * time.Second
			}
			if cs.TickSec > 0 {
				tick = time.Duration(cs.TickSec) * time.Second
			}
			realTop, err := w.node.streamTop(ch, 0)
			if err == nil {
				for i, sub := range cs.Subs {
					if !sub.positioned() {
						continue
					}
					if closed, _ := conns[i].T.Closed(); closed {
						continue
					}
					c := conns[i].Client
					c.mu.RLock()
					cc, ok := c.channels[ch]
					c.mu.RUnlock()
					if !ok || !channelHasFlag(cc.flags, flagSubscribed) {
						continue
					}
					quiet = append(quiet, quietSub{idx: i, stale: cc.streamPosition.Offset != realTop.Offset || cc.streamPosition.Epoch != realTop.Epoch})
				}
				time.Sleep(3*checkDelay + 4*tick + 15*time.Second)
				vfSettle()
				trackMedium()
			}
		}
		orphaned := 0
		{
			mu := w.node.mediumLock(ch)
			mu.Lock()
			cur := w.node.mediumShard(ch)[ch]
			mu.Unlock()
			for _, m := range mediums {
				select {
				case <-m.closeCh:
				default:
					if m != cur {
						orphaned++
					}
				}
			}
		}
		if orphaned > 0 {
			out.label("orphaned_medium_never_closed")
		}
		if len(mediums) > 1 {
			out.label("medium_recreated")
		}

		// ---- oracle ---------------------------------------------------------------------------------------------
		spy.mu.Lock()
		spyEvents := append([]vfC38SpyEv(nil), spy.events...)
		spy.mu.Unlock()
		var sentinels []vfC38SpyEv
		pubAt := map[time.Duration]bool{} // virtual instants at which the medium handed a publication on
		for _, e := range spyEvents {
			if e.Sentinel {
				sentinels = append(sentinels, e)
			} else {
				pubAt[e.At] = true
			}
		}
		allSegs := make([][]*vfC38Seg, len(cs.Subs))
		sentinelGrace := cs.Medium.broadcastDelay + 2*time.Second
		if len(sentinels) > 0 {
			out.label("medium_broadcast_insufficient_state")
		}
		coalesced := false
		for i, sub := range cs.Subs {
			frames := conns[i].Frames()
			rendered := vfRenderFrames(frames)
			fail := func(format string, a ...any) string {
				return fmt.Sprintf("subscriber %d (%s): ", i, []string{"pos+rec", "pos", "pos-serverside", "plain"}[sub.Kind]) + fmt.Sprintf(format, a...) + "; frames: " + vfTrunc(rendered, 2500)
			}
			active := false
			var last, start uint64
			var base []byte
			haveBase := false
			var segs []*vfC38Seg
			var cur *vfC38Seg
			handedPtr := 0
			var firstHandedInSeg int
			delivered := 0
			endSeg := func(f vfFrame, insuff bool) {
				if active {
					cur.ended, cur.endSeq, cur.endAt, cur.insuff = true, f.Seq, f.At, insuff
				}
				active = false
			}
			startSeg := func(f vfFrame, off uint64) string {
				seq := f.Seq
				if active {
					return "a second subscription start arrived while the previous one is still active"
				}
				active = true
				last, start = off, off
				haveBase = false
				cur = &vfC38Seg{startSeq: seq, startAt: f.At}
				segs = append(segs, cur)
				firstHandedInSeg = handedPtr
				return ""
			}
			deliver := func(p *protocol.Publication, where string, live bool) string {
				if !active {
					return "" // pushes outside a subscription bracket are property C10's subject
				}
				rec, ok := byOff[p.Offset]
				if !ok {
					return fmt.Sprintf("delivered offset %d was never published (%s)", p.Offset, where)
				}
				if sub.positioned() {
					if p.Offset <= last {
						return fmt.Sprintf("offsets not strictly increasing: %d after %d (%s)", p.Offset, last, where)
					}
					if p.Offset != last+1 {
						return fmt.Sprintf("silent gap: offsets %d..%d were not delivered before offset %d was delivered (%s); subscribe position %d", last+1, p.Offset-1, p.Offset, where, start)
					}
					last = p.Offset
				}
				if live {
					// order: the live deliveries of one subscriber form a subsequence of what was handed to the node
					found := -1
					for k := handedPtr; k < len(handed); k++ {
						if handed[k] == p.Offset {
							found = k
							break
						}
					}
					if found < 0 {
						return fmt.Sprintf("offset %d delivered out of order (or more often than it was handed to the node): not found after position %d of the hand-over order %v (%s)", p.Offset, handedPtr, handed, where)
					}
					if found > handedPtr && !sub.positioned() {
						for k := handedPtr; k < found; k++ {
							if handed[k] != p.Offset {
								coalesced = true
							}
						}
					}
					handedPtr = found + 1
				}
				data := p.Data
				if p.Delta {
					if !sub.Delta {
						return fmt.Sprintf("delta frame on a subscription that did not negotiate delta (%s)", where)
					}
					if !haveBase {
						return fmt.Sprintf("delta frame without a base publication (%s)", where)
					}
					d, err := fdelta.Apply(base, p.Data)
					if err != nil {
						return fmt.Sprintf("delta of offset %d does not apply to the previously delivered payload: %v (%s)", p.Offset, err, where)
					}
					data = d
				}
				if string(data) != rec.Data {
					return fmt.Sprintf("offset %d carries %q, published was %q (delta=%v, %s)", p.Offset, vfTrunc(string(data), 80), vfTrunc(rec.Data, 80), p.Delta, where)
				}
				base, haveBase = append([]byte(nil), data...), true
				delivered++
				return ""
			}
			_ = firstHandedInSeg
			for fi, f := range frames {
				if f.Err != nil {
					return fail("frame %d undecodable: %v", fi, f.Err)
				}
				r := f.Reply
				m := ""
				switch {
				case r.Subscribe != nil && r.Error == nil:
					res := r.Subscribe
					a := attempts[i][r.Id]
					m = startSeg(f, res.Offset)
					if m == "" && res.Recovered && a != nil && res.Offset != a.reqOffset {
						m = fmt.Sprintf("recovered=true but reply offset %d differs from the requested %d", res.Offset, a.reqOffset)
					}
					if m == "" && !res.Recovered && len(res.Publications) > 0 {
						m = "publications in a subscribe reply with recovered=false"
					}
					for _, p := range res.Publications {
						if m != "" {
							break
						}
						m = deliver(p, "subscribe reply", false)
					}
				case r.Unsubscribe != nil:
					endSeg(f, false)
				case r.Push != nil && r.Push.Channel == ch && r.Push.Subscribe != nil:
					m = startSeg(f, r.Push.Subscribe.Offset)
				case r.Push != nil && r.Push.Channel == ch && r.Push.Unsubscribe != nil:
					if active && r.Push.Unsubscribe.Code == UnsubscribeCodeInsufficient {
						out.label("ended_with_insufficient_state")
					}
					endSeg(f, r.Push.Unsubscribe.Code == UnsubscribeCodeInsufficient)
				case r.Push != nil && r.Push.Disconnect != nil:
					if active && r.Push.Disconnect.Code == DisconnectInsufficientState.Code {
						out.label("ended_with_insufficient_state")
					}
					endSeg(f, r.Push.Disconnect.Code == DisconnectInsufficientState.Code)
				case r.Push != nil && r.Push.Channel == ch && r.Push.Pub != nil:
					m = deliver(r.Push.Pub, fmt.Sprintf("push, frame %d", fi), true)
				}
				if m != "" {
					return fail("%s", m)
				}
			}
			closed, _ := conns[i].T.Closed()
			if delivered > 0 {
				out.label("publications_delivered")
			}
			allSegs[i] = segs
			if sub.positioned() {
				for _, se := range sentinels {
					for _, sg := range segs {
						if sg.startSeq < se.Seq && (!sg.ended || sg.endSeq > se.Seq) {
							if (!sg.ended && !closed) || (sg.ended && sg.endAt > se.At+sentinelGrace) {
								return fail("the medium broadcast insufficient state at %s (detected position loss) while this positioned subscription was established, but the subscription did not end (ended=%v at %s)", se.At, sg.ended, sg.endAt)
							}
							out.label("positioned_sub_ended_after_medium_detection")
						}
					}
				}
				if active && !closed && last == top {
					out.label("positioned_alive_at_top")
				}
				if active && !closed && last != top {
					out.label("positioned_alive_behind_top_undetected_yet")
				}
			}
		}
		// A positioned subscription that ended with insufficient state at a virtual instant at which the medium handed no
		// publication on was ended by the periodic position check. With shared position sync that check is the medium's:
		// it "marks all channel subscribers with insufficient state", so every other positioned subscription established
		// at that instant must end too (right away, or one broadcast delay later).
		if cs.Medium.SharedPositionSync && !shutdown {
			for i := range cs.Subs {
				for _, sg := range allSegs[i] {
					if !cs.Subs[i].positioned() || !sg.insuff || pubAt[sg.endAt] {
						continue
					}
					near := false // a publication handed on shortly before (delayed gap detection is not a check)
					for at := range pubAt {
						if at <= sg.endAt && sg.endAt-at < 50*time.Millisecond {
							near = true
						}
					}
					if near {
						continue
					}
					out.label("positioned_sub_ended_by_periodic_check_shared_sync")
					for j := range cs.Subs {
						if j == i || !cs.Subs[j].positioned() {
							continue
						}
						closedJ, _ := conns[j].T.Closed()
						for _, og := range allSegs[j] {
							if og.startAt < sg.endAt && (!og.ended || og.endAt >= sg.endAt) {
								if (!og.ended && !closedJ) || (og.ended && og.endAt > sg.endAt+sentinelGrace) {
									return fmt.Sprintf("shared position sync: subscriber %d's positioned subscription was ended by the periodic position check at %s (loss detected through the medium), but subscriber %d's positioned subscription established at that moment did not end with it (ended=%v at %s); frames of %d: %s; frames of %d: %s",
										i, sg.endAt, j, og.ended, og.endAt, i, vfTrunc(vfRenderFrames(conns[i].Frames()), 900), j, vfTrunc(vfRenderFrames(conns[j].Frames()), 900))
								}
							}
						}
					}
				}
			}
		}
		// quiet phase verdict
		if len(quiet) > 0 {
			allStale, anyStale := true, false
			for _, q := range quiet {
				allStale = allStale && q.stale
				anyStale = anyStale || q.stale
			}
			shared := cs.Medium.SharedPositionSync
			switch {
			case !anyStale:
				out.label("quiet_phase_all_positions_at_top")
			case shared && !allStale:
				out.label("quiet_phase_mixed_positions_shared_sync(no guarantee)")
			default:
				out.label("quiet_phase_loss_must_be_detected")
				for _, q := range quiet {
					if !q.stale {
						continue
					}
					closedQ, _ := conns[q.idx].T.Closed()
					if !closedQ && conns[q.idx].Client.IsSubscribed(ch) {
						return fmt.Sprintf("subscriber %d: positioned subscription behind the stream top (publication lost at the PUB/SUB boundary) survived a quiet period of 3 position check delays + 4 ticks without being ended (shared sync=%v); frames: %s",
							q.idx, shared, vfTrunc(vfRenderFrames(conns[q.idx].Frames()), 1500))
					}
				}
			}
		}
		if coalesced {
			out.label("plain_sub_missed_handed_publication(queue overflow / delay coalescing / not subscribed)")
		}
		if drops > 0 {
			out.label("delivery_dropped")
		}
		if dups > 0 {
			out.label("delivery_duplicated")
		}
		if holds > 0 {
			out.label("delivery_held")
		}
		if shutdown {
			out.label("node_shutdown_in_schedule")
		}
		if spy.checks > 0 {
			out.label("medium_position_check_ran")
		}
		if !cs.Medium.isMediumEnabled() {
			out.label("medium_disabled_baseline")
		}
		if faultWithTwoSubs || (coalesced && (cs.Medium.queueMaxSize > 0 || cs.Medium.broadcastDelay > 0)) {
			out.nontrivial = true
		}
		return ""
	})
}

func TestVF_C38(t *testing.T) {
	vfCheck(t, "C38", func(rt *rapid.T, c *vfCase) string {
		cs := vfC38Gen(rt)
		c.Describe(cs.String())
		out := &vfC38Out{}
		msg := vfC38Run(t, cs, out, c.IsKnown)
		seen := map[string]bool{}
		for _, l := range out.labels {
			if !seen[l] {
				seen[l] = true
				c.Label(l)
			}
		}
		for _, k := range out.known {
			c.Known(k, out.knownEx)
		}
		if out.nontrivial {
			c.Nontrivial(cs.String())
		}
		return msg
	})
}

// ---------------------------------------------------------------------------------------------------------------
// Component level: a real channelMedium driven directly, its node replaced by a mock whose publication handler can be
// parked (a stalled queue writer), so that the queue really goes over queueMaxSize.
//
// Model (from channel_medium.go): with the queue a publication is dropped iff the queue's byte size is above the limit at
// the moment of the call (observed in-package at a quiescent point), otherwise it is queued; the insufficient-state
// sentinel is ALWAYS queued ("marks all channel subscribers with insufficient state"); the writer hands items over in
// queue order, with a broadcast delay it may skip publications (latest wins) but never a sentinel; without the queue
// everything is handed over synchronously. CheckPosition: a real check happens iff now-positionCheckTime >= checkDelay
// (positionCheckTime = creation, every broadcastPublication, every real check, every sentinel); it returns false and
// issues the sentinel iff the client position differs from the stream top. Nothing is handed over after close.

type vfC38MOp struct {
	Kind   int // 0 publish, 1 check position, 2 arm handler gate, 3 release handler, 4 advance, 5 stream top moves on (loss), 6 close, 7 the stream is re-created (new epoch, offsets restart at 1)
	Size   int
	Delta  bool
	Behind int // check: client offset = top - Behind
	Epoch  bool // check: client epoch differs
	DelayS int // check: checkDelay seconds
	Ms     int
}

type vfC38MCase struct {
	Opts ChannelMediumOptions
	Ops  []vfC38MOp
}

func (o vfC38MOp) String() string {
	switch o.Kind {
	case 0:
		return fmt.Sprintf("pub(%dB delta=%v)", o.Size, o.Delta)
	case 1:
		return fmt.Sprintf("check(behind=%d otherEpoch=%v delay=%ds)", o.Behind, o.Epoch, o.DelayS)
	case 2:
		return "armGate"
	case 3:
		return "release"
	case 4:
		return fmt.Sprintf("adv(%dms)", o.Ms)
	case 5:
		return "topMovesOn"
	case 7:
		return "newEpoch"
	}
	return "close"
}

func (c vfC38MCase) String() string {
	st := make([]string, len(c.Ops))
	for i, o := range c.Ops {
		st[i] = o.String()
	}
	m := c.Opts
	return fmt.Sprintf("component medium{keepLatest=%v sharedSync=%v queue=%v queueMax=%d delay=%s} ops=[%s]", m.KeepLatestPublication,
		m.SharedPositionSync, m.enableQueue, m.queueMaxSize, m.broadcastDelay, strings.Join(st, " "))
}

func vfC38MGen(rt *rapid.T) vfC38MCase {
	c := vfC38MCase{}
	c.Opts.KeepLatestPublication = rapid.Bool().Draw(rt, "keepLatest")
	c.Opts.SharedPositionSync = rapid.Bool().Draw(rt, "sharedSync")
	c.Opts.enableQueue = rapid.IntRange(0, 3).Draw(rt, "queue") > 0
	if c.Opts.enableQueue {
		c.Opts.queueMaxSize = rapid.SampledFrom([]int{0, 1, 10, 10, 40}).Draw(rt, "queueMax")
		c.Opts.broadcastDelay = rapid.SampledFrom([]time.Duration{0, 0, 0, 200 * time.Millisecond, time.Second}).Draw(rt, "delay")
	}
	n := rapid.IntRange(3, 24).Draw(rt, "nops")
	for i := 0; i < n; i++ {
		k := rapid.SampledFrom([]int{0, 0, 0, 0, 0, 1, 1, 1, 2, 2, 3, 4, 4, 5, 5, 6, 7}).Draw(rt, "kind")
		o := vfC38MOp{Kind: k}
		switch k {
		case 0:
			o.Size = rapid.IntRange(1, 30).Draw(rt, "size")
			o.Delta = rapid.Bool().Draw(rt, "delta")
		case 1:
			o.Behind = rapid.SampledFrom([]int{0, 0, 1, 1, 2}).Draw(rt, "behind")
			o.Epoch = rapid.IntRange(0, 5).Draw(rt, "epoch") == 0
			o.DelayS = rapid.SampledFrom([]int{0, 0, 0, 1, 40}).Draw(rt, "checkDelay")
		case 4:
			o.Ms = rapid.SampledFrom([]int{50, 250, 1100, 45000}).Draw(rt, "ms")
		case 6:
			if i < n-3 {
				o.Kind = 0
				o.Size = 8
			}
		}
		c.Ops = append(c.Ops, o)
	}
	return c
}

type vfC38MHand struct {
	ID         int // index into the model's item list the handler identified (publication by pointer), -1 sentinel
	Sentinel   bool
	Off        uint64
	SPOff      uint64
	LocalPrev  *Publication
	AfterClose bool
}

type vfC38MNode struct {
	gates  *vfGates
	mu     sync.Mutex
	top    StreamPosition
	hands  []vfC38MHand
	pubs   []*Publication
	closed bool
}

func (n *vfC38MNode) handlePublication(ch string, sp StreamPosition, pub, prevPub, localPrevPub *Publication) error {
	n.mu.Lock()
	afterClose := n.closed
	n.mu.Unlock()
	n.gates.Pass("h")
	n.mu.Lock()
	n.hands = append(n.hands, vfC38MHand{Sentinel: pub.Offset == math.MaxUint64, Off: pub.Offset, SPOff: sp.Offset, LocalPrev: localPrevPub, AfterClose: afterClose})
	n.pubs = append(n.pubs, pub)
	n.mu.Unlock()
	return nil
}

func (n *vfC38MNode) streamTop(ch string, historyMetaTTL time.Duration) (StreamPosition, error) {
	n.mu.Lock()
	defer n.mu.Unlock()
	return n.top, nil
}

func (n *vfC38MNode) mapStreamTop(ch string) (StreamPosition, error) { return n.streamTop(ch, 0) }

func vfC38MRun(t *testing.T, cs vfC38MCase, out *vfC38Out) string {
	return vfBubble(t, func() string {
		gates := vfNewGates()
		node := &vfC38MNode{gates: gates, top: StreamPosition{Offset: 0, Epoch: "e1"}}
		m, err := newChannelMedium("cm", node, cs.Opts)
		if err != nil {
			return "infra: " + err.Error()
		}
		closed := false
		defer func() {
			gates.ReleaseAll()
			if !closed {
				m.close()
			}
			vfSettle()
		}()
		type item struct {
			sentinel bool
			pub      *Publication
		}
		var queued []item // what the model says was accepted, in order
		deltaOf := map[*Publication]bool{}
		lastCheck := time.Now()
		var off uint64
		epochN := 1
		epoch := "e1"
		drops, detections, overLimitDetections := 0, 0, 0
		pendingAtClose := false
		maxSize := defaultChannelLayerQueueMaxSize
		if cs.Opts.queueMaxSize > 0 {
			maxSize = cs.Opts.queueMaxSize
		}
		for oi, o := range cs.Ops {
			if closed {
				break
			}
			switch o.Kind {
			case 0:
				off++
				pub := &Publication{Offset: off, Data: []byte(strings.Repeat("d", o.Size))}
				over := cs.Opts.enableQueue && m.messages.Size() > maxSize
				node.mu.Lock()
				node.top.Offset = off // the stream has it, whatever happens to the delivery
				node.top.Epoch = epoch
				node.mu.Unlock()
				m.broadcastPublication(pub, StreamPosition{Offset: off, Epoch: epoch}, o.Delta, nil)
				lastCheck = time.Now()
				if over {
					drops++
				} else {
					queued = append(queued, item{pub: pub})
				}
				deltaOf[pub] = o.Delta
			case 1:
				node.mu.Lock()
				top := node.top
				node.mu.Unlock()
				pos := top
				if uint64(o.Behind) <= pos.Offset {
					pos.Offset -= uint64(o.Behind)
				}
				if o.Epoch {
					pos.Epoch = "other"
				}
				delay := time.Duration(o.DelayS) * time.Second
				need := time.Since(lastCheck) >= delay
				over := cs.Opts.enableQueue && m.messages.Size() > maxSize
				got := m.CheckPosition(time.Minute, pos, delay)
				want := !need || pos == top
				if got != want {
					return fmt.Sprintf("op %d: CheckPosition(position %v, top %v, checkDelay %s, %s since the last check/broadcast) = %v, want %v", oi, pos, top, delay, time.Since(lastCheck), got, want)
				}
				if need {
					lastCheck = time.Now()
				}
				if !got {
					detections++
					if over {
						overLimitDetections++
					}
					queued = append(queued, item{sentinel: true})
				}
			case 2:
				if cs.Opts.enableQueue { // without the queue the broadcast runs on the caller's goroutine
					gates.Arm("h", 1)
				}
			case 3:
				gates.Release("h")
			case 4:
				time.Sleep(time.Duration(o.Ms) * time.Millisecond)
			case 5:
				off++
				node.mu.Lock()
				node.top.Offset = off
				node.mu.Unlock()
			case 7:
				// history and meta of the channel were dropped: the next publication starts a new epoch at offset 1
				epochN++
				epoch = fmt.Sprintf("e%d", epochN)
				off = 0
				node.mu.Lock()
				node.top = StreamPosition{Offset: 0, Epoch: epoch}
				node.mu.Unlock()
				out.labels = append(out.labels, "stream_recreated_new_epoch")
			case 6:
				node.mu.Lock()
				pendingAtClose = len(node.hands) < len(queued)
				node.closed = true
				node.mu.Unlock()
				m.close()
				closed = true
			}
			vfSettle()
		}
		// flush
		gates.ReleaseAll()
		vfSettle()
		for i := 0; i < len(queued)+2; i++ {
			time.Sleep(cs.Opts.broadcastDelay + 10*time.Millisecond)
			vfSettle()
		}
		node.mu.Lock()
		hands := append([]vfC38MHand(nil), node.hands...)
		handPubs := append([]*Publication(nil), node.pubs...)
		node.mu.Unlock()

		render := func() string {
			q := make([]string, len(queued))
			for i, it := range queued {
				if it.sentinel {
					q[i] = "S"
				} else {
					q[i] = fmt.Sprint(it.pub.Offset)
				}
			}
			h := make([]string, len(hands))
			for i, x := range hands {
				if x.Sentinel {
					h[i] = "S"
				} else {
					h[i] = fmt.Sprint(x.Off)
				}
			}
			return fmt.Sprintf("accepted by the medium (model): [%s]; handed to the node: [%s]", strings.Join(q, " "), strings.Join(h, " "))
		}
		// order: the hand-over sequence is a subsequence of the accepted sequence
		qi := 0
		var latest *Publication
		sentinelsHanded := 0
		for hi, h := range hands {
			if h.AfterClose {
				return fmt.Sprintf("hand-over %d started after close; %s", hi, render())
			}
			found := false
			for ; qi < len(queued); qi++ {
				it := queued[qi]
				if (h.Sentinel && it.sentinel) || (!h.Sentinel && !it.sentinel && it.pub == handPubs[hi]) {
					found = true
					qi++
					break
				}
			}
			if !found {
				return fmt.Sprintf("hand-over %d (offset %d) is out of order, duplicated, or was never accepted (a publication that must have been dropped); %s", hi, h.Off, render())
			}
			if h.Sentinel {
				sentinelsHanded++
				if h.SPOff != math.MaxUint64 {
					return "sentinel stream position offset is not MaxUint64"
				}
				if h.LocalPrev != nil {
					return "sentinel carries a local previous publication"
				}
				continue
			}
			p := handPubs[hi]
			wantPrev := (*Publication)(nil)
			if cs.Opts.KeepLatestPublication && deltaOf[p] {
				wantPrev = latest
			}
			if h.LocalPrev != wantPrev {
				return fmt.Sprintf("hand-over %d (offset %d): local previous publication is %v, want %v (keepLatest=%v delta=%v); %s", hi, h.Off, h.LocalPrev, wantPrev, cs.Opts.KeepLatestPublication, deltaOf[p], render())
			}
			latest = p
		}
		if !pendingAtClose {
			if sentinelsHanded != detections {
				return fmt.Sprintf("%d position losses were detected (CheckPosition returned false) but %d insufficient-state notifications reached the node handler (%d detections happened while the queue was over its limit); %s", detections, sentinelsHanded, overLimitDetections, render())
			}
			if cs.Opts.broadcastDelay == 0 && len(hands) != len(queued) {
				return fmt.Sprintf("without a broadcast delay every accepted publication must be handed over: %s", render())
			}
			if cs.Opts.broadcastDelay > 0 && len(queued) > 0 && len(hands) == 0 {
				return "nothing was handed over although publications were accepted: " + render()
			}
		}
		if drops > 0 {
			out.label("component_queue_over_limit_drop")
		}
		if detections > 0 {
			out.label("component_loss_detected")
		}
		if overLimitDetections > 0 {
			out.label("component_loss_detected_while_queue_over_limit")
		}
		if closed {
			out.label("component_closed")
		}
		if pendingAtClose {
			out.label("component_closed_with_pending_items")
		}
		if len(hands) < len(queued) && cs.Opts.broadcastDelay > 0 {
			out.label("component_delay_coalesced")
		}
		if drops > 0 || detections > 0 {
			out.nontrivial = true
		}
		return ""
	})
}

func TestVF_C38_Medium(t *testing.T) {
	vfCheck(t, "C38", func(rt *rapid.T, c *vfCase) string {
		cs := vfC38MGen(rt)
		c.Describe(cs.String())
		out := &vfC38Out{}
		msg := vfC38MRun(t, cs, out)
		seen := map[string]bool{}
		for _, l := range out.labels {
			if !seen[l] {
				seen[l] = true
				c.Label(l)
			}
		}
		if out.nontrivial {
			c.Nontrivial(cs.String())
		}
		return msg
	})
}
