package PKGNAME

// C10 — Channel pushes are bracketed by the subscription's start and end.
// A subject connection runs repeated subscribe / unsubscribe cycles on one channel while a publisher publishes
// (with / without history, i.e. offset > 0 / offset 0) and a second connection joins / leaves the channel.
// The subject's subscribe can be parked after the hub registration (inside AddPresence or right before its
// history read), its unsubscribe after the c.channels delete and before the hub removal (inside RemovePresence or
// PublishLeave), and the subject's writer goroutine right before it hands a push to the transport.
// Oracle over each connection's ordered frames: every pub/join/leave push for the channel lies between a start
// (subscribe reply / subscribe push / connect reply listing the channel) and the next end (unsubscribe reply /
// unsubscribe push / disconnect push).

import (
	"fmt"
	"runtime"
	"sort"
	"strings"
	"sync"
	"sync/atomic"
	"testing"
	"time"

	"github.com/centrifugal/centrifuge/internal/queue"
	"github.com/centrifugal/protocol"
	"pgregory.net/rapid"
)

const (
	vfC10Pub = iota
	vfC10JJoin
	vfC10JLeave
	vfC10Sub
	vfC10Unsub
	vfC10RelOps
	vfC10RelPush
	vfC10Adv
	vfC10ArmPush
	vfC10GapPub
)

type vfC10Step struct {
	Kind     int
	Hist     bool // publish with history (offset > 0)
	Gate     int  // subscribe: 0 none, 1 AddPresence, 2 before the history read, 3 log window (buffer locked .. subscribe push); unsubscribe: 0 none, 1 RemovePresence, 2 PublishLeave
	ByServer bool // unsubscribe through Client.Unsubscribe instead of a client command
	Adv      int  // milliseconds
	Which    int  // releaseOps: 0 all gates, 1 only the subscribe's, 2 only the unsubscribe's
}

type vfC10Case struct {
	Positioned   bool
	HistMode     int // 0 publications never have history (offset 0), 1 always, 2 per step
	Mode         int // 0 client command, 1 server-side Client.Subscribe, 2 connect-time (later cycles server-side)
	Uni          bool
	Proto        ProtocolType
	BatchSize    int
	BatchDelayMs int
	Latest       bool
	RWQ          bool
	Presence     bool
	EmitJL       bool
	PushJL       bool
	End          int // 0 nothing, 1 Client.Disconnect, 2 transport close
	LogGate      bool // server-side positioned subscribes may be parked at log entries (Debug/Trace log handler installed)
	Steps        []vfC10Step
}

func (s vfC10Step) String() string {
	switch s.Kind {
	case vfC10Pub:
		if s.Hist {
			return "pub(hist)"
		}
		return "pub(off0)"
	case vfC10JJoin:
		return "join"
	case vfC10JLeave:
		return "leave"
	case vfC10Sub:
		return fmt.Sprintf("subscribe(gate=%s)", []string{"none", "AddPresence", "beforeHistory", "logWindow+pub(hist)"}[s.Gate])
	case vfC10Unsub:
		return fmt.Sprintf("unsubscribe(gate=%s byServer=%v)", []string{"none", "RemovePresence", "PublishLeave", "afterReplyTrace"}[s.Gate], s.ByServer)
	case vfC10RelOps:
		return "releaseOps" + []string{"", "(subscribe)", "(unsubscribe)"}[s.Which]
	case vfC10GapPub:
		return "lostPub+pub(insufficient state)"
	case vfC10RelPush:
		return "releaseWriter"
	case vfC10Adv:
		return fmt.Sprintf("adv(%dms)", s.Adv)
	}
	return "parkWriterAtNextPush"
}

func (c vfC10Case) String() string {
	st := make([]string, len(c.Steps))
	for i, s := range c.Steps {
		st[i] = s.String()
	}
	return fmt.Sprintf("positioned=%v histMode=%d mode=%d uni=%v proto=%s batch{size=%d delay=%dms latest=%v} rwq=%v presence=%v emitJL=%v pushJL=%v end=%d logGate=%v steps=[%s]",
		c.Positioned, c.HistMode, c.Mode, c.Uni, c.Proto, c.BatchSize, c.BatchDelayMs, c.Latest, c.RWQ, c.Presence, c.EmitJL, c.PushJL, c.End, c.LogGate, strings.Join(st, " "))
}

func vfC10Gen(rt *rapid.T) vfC10Case {
	c := vfC10Case{}
	c.Positioned = rapid.Bool().Draw(rt, "positioned")
	c.HistMode = rapid.SampledFrom([]int{0, 0, 1, 2}).Draw(rt, "histMode")
	if c.Positioned {
		c.HistMode = rapid.SampledFrom([]int{1, 1, 2}).Draw(rt, "histModeP")
	}
	c.Mode = rapid.SampledFrom([]int{0, 0, 0, 1, 1, 2}).Draw(rt, "mode")
	if c.Mode != 0 {
		c.Uni = rapid.IntRange(0, 3).Draw(rt, "uni") == 0
	}
	c.Proto = rapid.SampledFrom([]ProtocolType{ProtocolTypeJSON, ProtocolTypeProtobuf}).Draw(rt, "proto")
	switch rapid.SampledFrom([]int{0, 0, 0, 1, 2, 2, 3}).Draw(rt, "batch") {
	case 1:
		c.BatchSize = rapid.IntRange(2, 3).Draw(rt, "bsize")
	case 2:
		c.BatchDelayMs = rapid.SampledFrom([]int{50, 400}).Draw(rt, "bdelay")
	case 3:
		c.BatchSize = 3
		c.BatchDelayMs = rapid.SampledFrom([]int{50, 400}).Draw(rt, "bdelay")
	}
	if c.BatchSize > 0 || c.BatchDelayMs > 0 {
		c.Latest = rapid.IntRange(0, 3).Draw(rt, "latest") == 0
	}
	c.RWQ = rapid.Bool().Draw(rt, "rwq")
	c.Presence = rapid.IntRange(0, 3).Draw(rt, "presence") > 0
	c.EmitJL = rapid.IntRange(0, 3).Draw(rt, "emitJL") > 0
	c.PushJL = rapid.IntRange(0, 3).Draw(rt, "pushJL") > 0
	c.End = rapid.SampledFrom([]int{0, 0, 1, 2}).Draw(rt, "end")
	if c.Positioned && c.Mode != 0 {
		c.LogGate = rapid.Bool().Draw(rt, "logGate")
	} else if c.Mode == 0 {
		c.LogGate = rapid.IntRange(0, 2).Draw(rt, "logGateCmd") == 0 // enables the park right after the unsubscribe reply
	}
	n := rapid.IntRange(4, 26).Draw(rt, "nsteps")
	kinds := []int{vfC10Pub, vfC10Pub, vfC10Pub, vfC10Pub, vfC10Pub, vfC10Pub, vfC10Pub, vfC10JJoin, vfC10JJoin, vfC10JLeave, vfC10JLeave,
		vfC10Sub, vfC10Sub, vfC10Sub, vfC10Sub, vfC10Unsub, vfC10Unsub, vfC10Unsub, vfC10Unsub,
		vfC10RelOps, vfC10RelOps, vfC10RelOps, vfC10RelOps, vfC10RelOps, vfC10RelOps,
		vfC10RelPush, vfC10RelPush, vfC10Adv, vfC10Adv, vfC10ArmPush, vfC10ArmPush, vfC10ArmPush, vfC10GapPub}
	for i := 0; i < n; i++ {
		s := vfC10Step{Kind: rapid.SampledFrom(kinds).Draw(rt, "kind")}
		var post []vfC10Step
		if i == 0 {
			s.Kind = vfC10Sub // every schedule starts with a subscribe so the rest runs against a live / in-flight subscription
		}
		switch s.Kind {
		case vfC10Pub:
			switch c.HistMode {
			case 1:
				s.Hist = true
			case 2:
				s.Hist = rapid.Bool().Draw(rt, "hist")
			}
		case vfC10Sub:
			s.Gate = rapid.SampledFrom([]int{0, 0, 1, 1, 2}).Draw(rt, "sgate")
			if c.LogGate && rapid.Bool().Draw(rt, "logWindow") {
				s.Gate = 3
			}
		case vfC10Unsub:
			s.Gate = rapid.SampledFrom([]int{0, 1, 1, 2, 2}).Draw(rt, "ugate")
			s.ByServer = rapid.Bool().Draw(rt, "byServer")
			if c.LogGate && c.Mode == 0 && rapid.IntRange(0, 2).Draw(rt, "afterReply") == 0 {
				s.Gate, s.ByServer = 3, false
			}
			if c.Mode == 0 && rapid.IntRange(0, 3).Draw(rt, "resubPhrase") == 0 {
				// correlated phrase: by-server unsubscribe parked in its teardown, the client re-subscribes, release, publish
				s.ByServer = true
				if s.Gate == 0 || s.Gate == 3 {
					s.Gate = 1
				}
				post = []vfC10Step{{Kind: vfC10Sub}, {Kind: vfC10RelOps}, {Kind: vfC10Pub, Hist: c.HistMode == 1}}
			} else if c.BatchDelayMs > 0 && rapid.IntRange(0, 2).Draw(rt, "batchPending") == 0 {
				// correlated phrase: a push pending in the channel's batch, a by-server unsubscribe parked in its teardown,
				// virtual time passing beyond the batch delay, release
				pre := vfC10Step{Kind: vfC10Pub, Hist: c.HistMode == 1 || (c.HistMode == 2 && rapid.Bool().Draw(rt, "pendHist"))}
				s.ByServer = true
				if s.Gate == 0 {
					s.Gate = 1
				}
				c.Steps = append(c.Steps, pre)
				post = []vfC10Step{{Kind: vfC10Adv, Adv: c.BatchDelayMs + 50}, {Kind: vfC10RelOps}}
			} else if rapid.IntRange(0, 3).Draw(rt, "lagBefore") == 0 {
				// correlated prefix: park the writer at its next push and produce one, so that the unsubscribe meets a non-empty queue
				pre := vfC10Step{Kind: vfC10Pub, Hist: c.HistMode == 1 || (c.HistMode == 2 && rapid.Bool().Draw(rt, "lagHist"))}
				c.Steps = append(c.Steps, vfC10Step{Kind: vfC10ArmPush}, pre)
			}
		case vfC10RelOps:
			s.Which = rapid.SampledFrom([]int{0, 0, 0, 1, 2}).Draw(rt, "which")
		case vfC10Adv:
			s.Adv = rapid.SampledFrom([]int{1, 20, 60, 450, 1200}).Draw(rt, "adv")
		}
		c.Steps = append(c.Steps, s)
		c.Steps = append(c.Steps, post...)
	}
	return c
}

const (
	vfC10PhIdle = iota
	vfC10PhSub
	vfC10PhEst
	vfC10PhUnsub
)

// vfC10Prod describes one push-producing event of the harness.
type vfC10Prod struct {
	kind   string // pub, join, leave
	hist   bool
	phase  int
	lag    bool  // the subject's writer goroutine was parked when the event was produced
	endSeq int64 // world sequence number right after the producing operation returned
}

const (
	vfC10ItStart = iota
	vfC10ItEnd
	vfC10ItPush
	vfC10ItConnEnd
	vfC10ItOther
)

type vfC10Item struct {
	kind    int
	ch      string
	prodKey string
	off     uint64
	desc    string
	seq     int64
	issue   int64 // unsubscribe push: when the server-side unsubscribe that produced it was issued
	enq     int64 // when the frame was handed to the connection (queue or transport), in world sequence numbers
}

type vfC10Cmd struct {
	kind string // connect, subscribe, unsubscribe
	ch   string
	done int64
}

type vfC10Out struct {
	labels     []string
	nontrivial bool
	known      []string
	knownEx    map[string]string
}

// vfC10Scan returns the index of the first pub/join/leave push that lies outside a start/end bracket (or -1), and
// whether frames followed a disconnect push.
func vfC10Scan(items []vfC10Item, skip map[int]bool) (int, bool) {
	open := map[string]bool{}
	for i, it := range items {
		if skip[i] {
			continue
		}
		switch it.kind {
		case vfC10ItStart:
			open[it.ch] = true
		case vfC10ItEnd:
			open[it.ch] = false
		case vfC10ItPush:
			if !open[it.ch] {
				return i, false
			}
		case vfC10ItConnEnd:
			for j := i + 1; j < len(items); j++ {
				if items[j].kind == vfC10ItPush {
					return -1, true
				}
			}
			return -1, false
		}
	}
	return -1, false
}

func vfC10Render(items []vfC10Item) string {
	p := make([]string, len(items))
	for i, it := range items {
		p[i] = it.desc
	}
	return strings.Join(p, " | ")
}

func vfC10Info(tag int) []byte { return []byte(fmt.Sprintf(`{"k":%d}`, tag)) }

func vfC10Tag(b []byte) int {
	var k int
	if _, err := fmt.Sscanf(string(b), `{"k":%d}`, &k); err != nil {
		return -1
	}
	return k
}

// vfC10Presence gates AddPresence / RemovePresence of one client.
type vfC10Presence struct {
	inner PresenceManager
	add   func(ch, clientID string) error
	rem   func(ch, clientID string)
}

func (p *vfC10Presence) Presence(ch string) (map[string]*ClientInfo, error) { return p.inner.Presence(ch) }
func (p *vfC10Presence) PresenceStats(ch string) (PresenceStats, error)      { return p.inner.PresenceStats(ch) }
func (p *vfC10Presence) AddPresence(ch string, clientID string, info *ClientInfo) error {
	if p.add != nil {
		if err := p.add(ch, clientID); err != nil {
			return err
		}
	}
	return p.inner.AddPresence(ch, clientID, info)
}
func (p *vfC10Presence) RemovePresence(ch string, clientID string, userID string) error {
	if p.rem != nil {
		p.rem(ch, clientID)
	}
	return p.inner.RemovePresence(ch, clientID, userID)
}

func vfC10Run(t *testing.T, cs vfC10Case, out *vfC10Out, isKnown func(string) bool) string {
	return vfBubble(t, func() string {
		const ch = "ch"
		batching := cs.BatchSize > 0 || cs.BatchDelayMs > 0
		cfg := Config{}
		if batching {
			bc := ChannelBatchConfig{MaxSize: int64(cs.BatchSize), MaxDelay: time.Duration(cs.BatchDelayMs) * time.Millisecond, FlushLatestPublication: cs.Latest}
			cfg.GetChannelBatchConfig = func(c string) ChannelBatchConfig {
				if c == ch {
					return bc
				}
				return ChannelBatchConfig{}
			}
		}
		var subjID atomic.Value
		subjID.Store("")
		// Log entries as gates (only when drawn): the handler returns at once unless a gate is armed.
		var logArm1, logArm2, logArm3 atomic.Bool
		var gatesP atomic.Pointer[vfGates]
		if cs.LogGate {
			cfg.LogLevel = LogLevelTrace
			cfg.LogHandler = func(e LogEntry) {
				if !logArm1.Load() && !logArm2.Load() && !logArm3.Load() {
					return
				}
				g := gatesP.Load()
				if g == nil || e.Fields["client"] != subjID.Load().(string) {
					return
				}
				switch {
				case logArm1.Load() && e.Level == LogLevelDebug && e.Message == "client subscribed to channel" && e.Fields["channel"] == ch:
					g.Pass("log1") // inside subscribeCmd: recovery buffer locked, subscription not yet committed
				case logArm2.Load() && e.Level == LogLevelTrace && e.Message == "-out->":
					if p, _ := e.Fields["push"].(string); strings.Contains(p, `"subscribe"`) && strings.Contains(p, `"`+ch+`"`) {
						g.Pass("log2") // inside Client.Subscribe: committed, subscribe push not yet encoded / enqueued
					}
				case logArm3.Load() && e.Level == LogLevelTrace && e.Message == "-out->":
					if r, _ := e.Fields["reply"].(string); strings.Contains(r, `"unsubscribe"`) {
						g.Pass("log3") // handleUnsubscribe: the unsubscribe reply was just handed over (the unsubscribe must be complete)
					}
				}
			}
		}
		w, err := vfNewWorld(cfg, func(w *vfWorld) {
			w.node.OnTransportWrite(func(c *Client, e TransportWriteEvent) bool {
				if e.FrameType == protocol.FrameTypePushPublication || e.FrameType == protocol.FrameTypePushJoin || e.FrameType == protocol.FrameTypePushLeave {
					if c.ID() == subjID.Load().(string) {
						w.Gates.Pass("push")
					}
				}
				return true
			})
			w.node.SetPresenceManager(&vfC10Presence{inner: w.node.presenceManager,
				add: func(pch, id string) error {
					if pch == ch && id == subjID.Load().(string) {
						w.Gates.Pass("padd")
					}
					return nil
				},
				rem: func(pch, id string) {
					if pch == ch && id == subjID.Load().(string) {
						w.Gates.Pass("prem")
					}
				}})
		})
		if err != nil {
			return "infra: " + err.Error()
		}
		defer w.Close()
		gatesP.Store(w.Gates)
		defer func() { // log gates must be open before the node shuts down
			logArm1.Store(false)
			logArm2.Store(false)
			logArm3.Store(false)
			w.Gates.ReleaseAll()
		}()
		w.broker.Hook = func(op, phase, hch string) error {
			if hch != ch || phase != "before" {
				return nil
			}
			switch op {
			case "history":
				w.Gates.Pass("hist")
			case "publish_leave":
				w.Gates.Pass("pleave")
			}
			return nil
		}
		mark := func() int64 { return w.seq.Add(1) }

		tagCounter := 0
		var curTag atomic.Int64 // tag of the subject's attempt in flight
		var jTag atomic.Int64
		subjOpts := func(tag int) SubscribeOptions {
			return SubscribeOptions{EnablePositioning: cs.Positioned, EmitPresence: cs.Presence, EmitJoinLeave: cs.EmitJL,
				PushJoinLeave: cs.PushJL, ChannelInfo: vfC10Info(tag), Data: vfC10Info(tag)}
		}
		w.ChanOpts = func(c *vfConn, e SubscribeEvent) (SubscribeReply, error) {
			if c.Name == "s" {
				return SubscribeReply{Options: subjOpts(int(curTag.Load()))}, nil
			}
			return SubscribeReply{Options: SubscribeOptions{EmitJoinLeave: true, ChannelInfo: vfC10Info(int(jTag.Load()))}}, nil
		}
		w.Connecting = func(c *vfConn, e ConnectEvent) (ConnectReply, error) {
			r := ConnectReply{Credentials: &Credentials{UserID: c.User}, ReplyWithoutQueue: cs.RWQ}
			if c.Name == "s" && cs.Mode == 2 {
				r.Subscriptions = map[string]SubscribeOptions{ch: subjOpts(int(curTag.Load()))}
			}
			return r, nil
		}

		conn := w.NewConn(vfConnCfg{Name: "s", User: "u", Proto: cs.Proto, Uni: cs.Uni})
		subjID.Store(conn.Client.ID())
		jc := w.NewConn(vfConnCfg{Name: "j", User: "v", Proto: cs.Proto})
		jc.Connect(nil)
		jcmds := map[uint32]*vfC10Cmd{1: {kind: "connect"}}
		jSubscribed := false

		prods := map[string]*vfC10Prod{}
		cmds := map[uint32]*vfC10Cmd{}
		// own-join keys of attempts whose subscribe was still in flight when an unsubscribe was issued: the woken
		// unsubscribe and the subscriber's join publishing then run concurrently (only the Go scheduler orders them)
		racedJoin := map[string]bool{}
		var asyncDone func()
		var prodMu sync.Mutex // operation goroutines of the subject can finish concurrently
		setProd := func(k string, p *vfC10Prod) {
			prodMu.Lock()
			prods[k] = p
			prodMu.Unlock()
		}
		_ = setProd
		// With per-channel batching the moment a push is handed to the connection's queue is the channel writer's
		// flush, not the producing operation: record it by wrapping the (unexported) flush function.
		var flushMu sync.Mutex
		flushMarks := map[string]int64{}
		wrapped := false
		wrapFlush := func() {
			pcw := conn.Client.perChannelWriter
			if wrapped || pcw == nil {
				return
			}
			wrapped = true
			pcw.mu.Lock()
			orig := pcw.flushFn
			rec := func(items []queue.Item) error {
				m := mark()
				flushMu.Lock()
				for _, it := range items {
					flushMarks[string(it.Data)] = m
				}
				flushMu.Unlock()
				return orig(items)
			}
			pcw.flushFn = rec
			for _, cw := range pcw.writers { // channel writers created during a connect-time subscribe
				cw.mu.Lock()
				cw.flushFn = rec
				cw.mu.Unlock()
			}
			pcw.mu.Unlock()
		}
		var srvSubDone, srvUnsubDone []int64 // completion marks of server-side ops that enqueue a push, in order
		var srvUnsubLag []bool               // the writer was seen parked while that unsubscribe was in flight
		var curUnsubLag atomic.Bool
		var srvUnsubIssue []int64            // issue marks of the same server-side unsubscribes (0 completion = unknown)
		unsubByServer := false
		liveTag := func() int { // tag (ChannelInfo) of the subscription currently in c.channels, -1 if none
			conn.Client.mu.RLock()
			defer conn.Client.mu.RUnlock()
			if cc, ok := conn.Client.channels[ch]; ok {
				return vfC10Tag(cc.info)
			}
			return -1
		}
		pendingAsyncLeave := "" // own-leave key of an insufficient-state unsubscribe that has not completed yet
		unsubGateParked := func() bool { return w.Gates.Waiting("prem") > 0 || w.Gates.Waiting("pleave") > 0 }
		asyncDone = func() {
			// the old subscription's leave, published by the insufficient-state unsubscribe, can reach the subject itself when
			// a re-subscription was accepted meanwhile: it was produced by the time that unsubscribe left its gate
			if pendingAsyncLeave != "" && !unsubGateParked() {
				setProd(pendingAsyncLeave, &vfC10Prod{kind: "leave", phase: vfC10PhEst, endSeq: mark()})
				pendingAsyncLeave = ""
			}
		}
		dropNext := false
		w.broker.Fault = func(d vfDelivery) vfFault {
			if dropNext && d.Kind == "pub" {
				return vfDrop
			}
			return vfDeliver
		}
		var subBusy, unsubBusy, connectBusy atomic.Bool
		connected := false
		var parkedSince time.Time
		parked := func() bool {
			return len(w.Gates.AnyWaiting()) > 0
		}
		opsParked := func() bool {
			for _, g := range []string{"padd", "hist", "prem", "pleave", "log3"} {
				if w.Gates.Waiting(g) > 0 {
					return true
				}
			}
			return false
		}
		phase := func() int {
			if w.Gates.Waiting("padd") > 0 || w.Gates.Waiting("hist") > 0 {
				return vfC10PhSub
			}
			if (w.Gates.Waiting("prem") > 0 || w.Gates.Waiting("pleave") > 0) && !conn.Client.IsSubscribed(ch) {
				return vfC10PhUnsub // (a re-subscription accepted while the old unsubscribe is still parked counts as established)
			}
			if conn.Client.IsSubscribed(ch) {
				return vfC10PhEst
			}
			return vfC10PhIdle
		}
		afterLaunch := func(gates ...string) {
			vfSettle()
			for _, g := range gates {
				w.Gates.Disarm(g)
			}
			if parked() && parkedSince.IsZero() {
				parkedSince = time.Now()
			}
		}
		produced := func(key, kind string, hist bool, ph int, lag bool) {
			prods[key] = &vfC10Prod{kind: kind, hist: hist, phase: ph, lag: lag, endSeq: mark()}
			if ph == vfC10PhSub || ph == vfC10PhUnsub || lag {
				out.nontrivial = true
			}
			switch {
			case ph == vfC10PhSub:
				out.labels = append(out.labels, kind+"_while_subscribe_parked")
			case ph == vfC10PhUnsub:
				out.labels = append(out.labels, kind+"_while_unsubscribe_parked")
			}
			if lag {
				out.labels = append(out.labels, kind+"_while_writer_parked")
			}
		}
		closedNow := func() bool {
			cl, _ := conn.T.Closed()
			return cl
		}
		subscribeGates := func(s vfC10Step) []string {
			if s.Gate == 3 && cs.Mode == 0 {
				s.Gate = 1
			}
			switch s.Gate {
			case 1:
				if cs.Presence {
					w.Gates.Arm("padd", 1)
					return []string{"padd"}
				}
				if cs.Positioned {
					w.Gates.Arm("hist", 1)
					return []string{"hist"}
				}
			case 2:
				if cs.Positioned {
					w.Gates.Arm("hist", 1)
					return []string{"hist"}
				}
				if cs.Presence {
					w.Gates.Arm("padd", 1)
					return []string{"padd"}
				}
			}
			return nil
		}
		pubN := 0

		for si, s := range cs.Steps {
			_ = si
			if (unsubBusy.Load() || w.Gates.Waiting("prem") > 0 || w.Gates.Waiting("pleave") > 0) && w.Gates.Waiting("push") > 0 {
				curUnsubLag.Store(true)
			}
			switch s.Kind {
			case vfC10Pub:
				if s.Hist && !unsubBusy.Load() && unsubGateParked() && !conn.Client.IsSubscribed(ch) {
					continue // every further gap publication would spawn one more insufficient-state unsubscribe
				}
				pubN++
				ph, lag := phase(), w.Gates.Waiting("push") > 0
				var opts []PublishOption
				if s.Hist {
					opts = append(opts, WithHistory(20, 300*time.Second))
				}
				if _, err := w.node.Publish(ch, []byte(fmt.Sprintf(`{"n":%d}`, pubN)), opts...); err != nil {
					return "infra: publish error: " + err.Error()
				}
				vfSettle()
				produced(fmt.Sprintf("pub:%d", pubN), "pub", s.Hist, ph, lag)
			case vfC10JJoin:
				if jSubscribed {
					continue
				}
				tagCounter++
				jTag.Store(int64(tagCounter))
				ph, lag := phase(), w.Gates.Waiting("push") > 0
				id := jc.NextID()
				jcmds[id] = &vfC10Cmd{kind: "subscribe", ch: ch}
				jc.Cmd(&protocol.Command{Id: id, Subscribe: &protocol.SubscribeRequest{Channel: ch}})
				vfSettle()
				jSubscribed = true
				produced(fmt.Sprintf("join:%d", tagCounter), "join", false, ph, lag)
			case vfC10JLeave:
				if !jSubscribed {
					continue
				}
				ph, lag := phase(), w.Gates.Waiting("push") > 0
				id := jc.NextID()
				jcmds[id] = &vfC10Cmd{kind: "unsubscribe", ch: ch}
				jc.Cmd(&protocol.Command{Id: id, Unsubscribe: &protocol.UnsubscribeRequest{Channel: ch}})
				vfSettle()
				jSubscribed = false
				produced(fmt.Sprintf("leave:%d", jTag.Load()), "leave", false, ph, lag)
			case vfC10Sub:
				// A client subscribe command may arrive while a SERVER-side unsubscribe (Client.Unsubscribe or the
				// insufficient-state path) is parked after it released the channel in c.channels.
				resub := cs.Mode == 0 && unsubGateParked() && (!unsubBusy.Load() || unsubByServer)
				if subBusy.Load() || connectBusy.Load() || closedNow() || (unsubBusy.Load() && !resub) {
					continue
				}
				if resub {
					out.labels = append(out.labels, "subscribe_while_server_unsubscribe_parked")
					out.nontrivial = true
				}
				tagCounter++
				tag := tagCounter
				curTag.Store(int64(tag))
				lag := w.Gates.Waiting("push") > 0
				gates := subscribeGates(s)
				ownJoin := fmt.Sprintf("join:%d", tag)
				if !connected {
					connected = true
					if cs.Mode == 2 {
						connectBusy.Store(true)
						id := uint32(0)
						if !cs.Uni {
							id = 1 // vfConn.Connect uses NextID() == 1 for the first command
							cmds[id] = &vfC10Cmd{kind: "connect"}
						}
						go func() {
							conn.Connect(nil)
							m := mark()
							if c := cmds[id]; c != nil {
								c.done = m
							}
							setProd(ownJoin, &vfC10Prod{kind: "join", phase: vfC10PhEst, lag: lag, endSeq: m})
							connectBusy.Store(false)
						}()
						afterLaunch(gates...)
						wrapFlush()
						continue
					}
					if !cs.Uni {
						cmds[1] = &vfC10Cmd{kind: "connect"}
					}
					conn.Connect(nil)
					vfSettle()
					if c := cmds[1]; c != nil {
						c.done = mark()
					}
					wrapFlush()
				}
				subBusy.Store(true)
				if cs.Mode == 0 {
					id := conn.NextID()
					cmd := &vfC10Cmd{kind: "subscribe", ch: ch}
					cmds[id] = cmd
					go func() {
						conn.Cmd(&protocol.Command{Id: id, Subscribe: &protocol.SubscribeRequest{Channel: ch}})
						m := mark()
						cmd.done = m
						setProd(ownJoin, &vfC10Prod{kind: "join", phase: vfC10PhEst, lag: lag, endSeq: m})
						subBusy.Store(false)
					}()
				} else {
					o := subjOpts(tag)
					logWindow := s.Gate == 3 && cs.LogGate && cs.Positioned
					if logWindow {
						logArm1.Store(true)
						w.Gates.Arm("log1", 1)
					}
					go func() {
						err := conn.Client.Subscribe(ch, func(so *SubscribeOptions) { *so = o })
						m := mark()
						if err == nil && !closedNow() {
							srvSubDone = append(srvSubDone, m)
						}
						setProd(ownJoin, &vfC10Prod{kind: "join", phase: vfC10PhEst, lag: lag, endSeq: m})
						subBusy.Store(false)
					}()
					if logWindow {
						vfSettle()
						logArm1.Store(false)
						w.Gates.Disarm("log1")
						if w.Gates.Waiting("log1") > 0 {
							// The subscribe holds the locked recovery buffer. A publication with offset now blocks on that
							// mutex (not durably): no vfSettle / sleep until the subscribe was released.
							out.labels = append(out.labels, "pub_inside_log_window_of_server_side_subscribe")
							out.nontrivial = true
							var before uint64
							if r, err := w.node.History(ch, WithHistoryFilter(HistoryFilter{Limit: 0})); err == nil {
								before = r.Offset
							}
							pubN++
							key := fmt.Sprintf("pub:%d", pubN)
							data := []byte(fmt.Sprintf(`{"n":%d}`, pubN))
							var pubDone atomic.Bool
							var pubMark atomic.Int64
							go func() {
								_, _ = w.node.Publish(ch, data, WithHistory(20, 300*time.Second))
								pubMark.Store(mark())
								pubDone.Store(true)
							}()
							for i := 0; i < 50000; i++ { // bounded: until the publication is in the stream, i.e. about to be broadcast
								if r, err := w.node.History(ch, WithHistoryFilter(HistoryFilter{Limit: 0})); err == nil && r.Offset > before {
									break
								}
								runtime.Gosched()
							}
							for i := 0; i < 300; i++ {
								runtime.Gosched()
							}
							logArm2.Store(true)
							w.Gates.Arm("log2", 1)
							w.Gates.Release("log1")
							for i := 0; i < 50000 && w.Gates.Waiting("log2") == 0 && subBusy.Load(); i++ {
								runtime.Gosched()
							}
							for i := 0; i < 5000 && !pubDone.Load(); i++ { // a correct server keeps the publication blocked here
								runtime.Gosched()
							}
							logArm2.Store(false)
							w.Gates.Disarm("log2")
							for w.Gates.Release("log2") {
							}
							vfSettle()
							prods[key] = &vfC10Prod{kind: "pub", hist: true, phase: vfC10PhSub, lag: lag, endSeq: pubMark.Load()}
						}
					}
				}
				afterLaunch(gates...)
			case vfC10Unsub:
				if unsubBusy.Load() || connectBusy.Load() || !connected || closedNow() || unsubGateParked() {
					continue
				}
				var gates []string
				if !subBusy.Load() {
					switch {
					case s.Gate == 1 && cs.Presence, s.Gate == 2 && !cs.EmitJL && cs.Presence:
						w.Gates.Arm("prem", 1)
						gates = []string{"prem"}
					case s.Gate == 2 && cs.EmitJL, s.Gate == 1 && !cs.Presence && cs.EmitJL:
						w.Gates.Arm("pleave", 1)
						gates = []string{"pleave"}
					case s.Gate == 3 && cs.LogGate && !s.ByServer && !cs.Uni:
						logArm3.Store(true)
						w.Gates.Arm("log3", 1)
						gates = []string{"log3"}
						out.labels = append(out.labels, "unsubscribe_parked_after_its_reply")
					}
				} else {
					out.labels = append(out.labels, "unsubscribe_issued_while_subscribe_parked")
					racedJoin[fmt.Sprintf("join:%d", curTag.Load())] = true
				}
				unsubBusy.Store(true)
				unsubByServer = s.ByServer || cs.Uni
				if s.ByServer || cs.Uni {
					issued := mark()
					curUnsubLag.Store(w.Gates.Waiting("push") > 0)
					ownLeave := fmt.Sprintf("leave:%d", liveTag())
					conn.Client.mu.RLock()
					_, had := conn.Client.channels[ch] // subscribed or reserved by a subscribe in flight: a push will be sent
					conn.Client.mu.RUnlock()
					go func() {
						conn.Client.Unsubscribe(ch)
						m := mark()
						if had && !closedNow() {
							srvUnsubDone = append(srvUnsubDone, m)
							srvUnsubIssue = append(srvUnsubIssue, issued)
							srvUnsubLag = append(srvUnsubLag, curUnsubLag.Load() || w.Gates.Waiting("push") > 0)
						}
						// the old subscription's leave reaches the subject itself only when a re-subscription was accepted meanwhile
						setProd(ownLeave, &vfC10Prod{kind: "leave", phase: vfC10PhEst, endSeq: m})
						unsubBusy.Store(false)
					}()
				} else {
					id := conn.NextID()
					cmd := &vfC10Cmd{kind: "unsubscribe", ch: ch}
					cmds[id] = cmd
					go func() {
						conn.Cmd(&protocol.Command{Id: id, Unsubscribe: &protocol.UnsubscribeRequest{Channel: ch}})
						cmd.done = mark()
						unsubBusy.Store(false)
					}()
				}
				afterLaunch(gates...)
				logArm3.Store(false)
			case vfC10RelOps:
				if opsParked() {
					out.labels = append(out.labels, "ops_released_midway")
				}
				rel := []string{"padd", "hist", "prem", "pleave", "log3"}
				switch s.Which {
				case 1:
					rel = rel[:2]
				case 2:
					rel = rel[2:]
				}
				for _, g := range rel {
					for w.Gates.Release(g) {
					}
				}
				vfSettle()
				asyncDone()
				if !parked() {
					parkedSince = time.Time{}
				}
			case vfC10GapPub:
				// A publication lost between broker and node, then the next one: the positioned client-side subscription is
				// ended by the server with an unsubscribe push (insufficient state), through the same unsubscribe path.
				if cs.Mode != 0 || !cs.Positioned || subBusy.Load() || unsubBusy.Load() || connectBusy.Load() || closedNow() ||
					opsParked() || !conn.Client.IsSubscribed(ch) {
					continue
				}
				var gates []string
				switch {
				case cs.Presence:
					w.Gates.Arm("prem", 1)
					gates = []string{"prem"}
				case cs.EmitJL:
					w.Gates.Arm("pleave", 1)
					gates = []string{"pleave"}
				}
				lag := w.Gates.Waiting("push") > 0
				pendingAsyncLeave = fmt.Sprintf("leave:%d", liveTag())
				for i := 0; i < 2; i++ {
					pubN++
					dropNext = i == 0
					if i == 1 {
						srvUnsubIssue = append(srvUnsubIssue, mark())
						srvUnsubDone = append(srvUnsubDone, 0)
						srvUnsubLag = append(srvUnsubLag, true)
						curUnsubLag.Store(w.Gates.Waiting("push") > 0)
					}
					if _, err := w.node.Publish(ch, []byte(fmt.Sprintf(`{"n":%d}`, pubN)), WithHistory(20, 300*time.Second)); err != nil {
						return "infra: publish error: " + err.Error()
					}
					dropNext = false
					vfSettle()
					produced(fmt.Sprintf("pub:%d", pubN), "pub", true, vfC10PhEst, lag)
				}
				out.labels = append(out.labels, "insufficient_state_unsubscribe")
				afterLaunch(gates...)
				asyncDone()
			case vfC10RelPush:
				w.Gates.Disarm("push")
				for w.Gates.Release("push") {
				}
				vfSettle()
				if !parked() {
					parkedSince = time.Time{}
				}
			case vfC10Adv:
				d := time.Duration(s.Adv) * time.Millisecond
				if parked() && !parkedSince.IsZero() && time.Since(parkedSince)+d > 4*time.Second {
					continue // an unsubscribe waits at most 5 s for a subscribe in flight; that timeout is not this property's subject
				}
				time.Sleep(d)
				vfSettle()
			case vfC10ArmPush:
				if w.Gates.Waiting("push") == 0 {
					w.Gates.Disarm("push")
					w.Gates.Arm("push", 1)
				}
			}
		}
		// drain: release everything, let batch timers fire, then the drawn connection end
		w.Gates.ReleaseAll()
		vfSettle()
		asyncDone()
		time.Sleep(2 * time.Second)
		vfSettle()
		if subBusy.Load() || unsubBusy.Load() || connectBusy.Load() {
			return "infra: a subject operation did not complete after all gates were released"
		}
		switch cs.End {
		case 1:
			if connected {
				conn.Client.Disconnect()
			}
		case 2:
			conn.TransportClose()
		}
		vfSettle()
		time.Sleep(time.Second)
		vfSettle()

		// ---- frames -> bracket items ------------------------------------------------------------------------
		parse := func(frames []vfFrame, cmds map[uint32]*vfC10Cmd, subject bool) ([]vfC10Item, string) {
			var items []vfC10Item
			subPushes, unsubPushes := 0, 0
			for fi, f := range frames {
				if f.Err != nil {
					return nil, fmt.Sprintf("frame %d undecodable: %v", fi, f.Err)
				}
				r := f.Reply
				it := vfC10Item{kind: vfC10ItOther, seq: f.Seq, enq: f.Seq, desc: vfRenderReply(r)}
				switch {
				case r.Push != nil:
					p := r.Push
					it.ch = p.Channel
					switch {
					case p.Pub != nil:
						it.kind, it.off = vfC10ItPush, p.Pub.Offset
						var n int
						_, _ = fmt.Sscanf(string(p.Pub.Data), `{"n":%d}`, &n)
						it.prodKey = fmt.Sprintf("pub:%d", n)
					case p.Join != nil:
						it.kind = vfC10ItPush
						it.prodKey = fmt.Sprintf("join:%d", vfC10Tag(p.Join.Info.GetChanInfo()))
					case p.Leave != nil:
						it.kind = vfC10ItPush
						it.prodKey = fmt.Sprintf("leave:%d", vfC10Tag(p.Leave.Info.GetChanInfo()))
					case p.Subscribe != nil:
						it.kind = vfC10ItStart
						if subject && subPushes < len(srvSubDone) {
							it.enq = srvSubDone[subPushes]
						}
						subPushes++
					case p.Unsubscribe != nil:
						it.kind = vfC10ItEnd
						if subject && unsubPushes < len(srvUnsubDone) {
							// The push is enqueued when the channel is released, i.e. at the start of the unsubscribe. That is only
							// assumed when the writer was seen lagging meanwhile; otherwise a queued push is written at once and
							// its write time IS its hand-over time (a push enqueued late must not be explained away).
							if srvUnsubLag[unsubPushes] {
								it.enq = srvUnsubIssue[unsubPushes]
							}
							it.issue = srvUnsubIssue[unsubPushes]
						}
						unsubPushes++
					case p.Disconnect != nil:
						it.kind = vfC10ItConnEnd
					case p.Connect != nil:
						for c := range p.Connect.Subs {
							items = append(items, vfC10Item{kind: vfC10ItStart, ch: c, seq: f.Seq, enq: f.Seq, desc: "connect-push-sub[" + c + "]"})
						}
					}
					if it.kind == vfC10ItPush && subject {
						if !batching {
							if pr := prods[it.prodKey]; pr != nil {
								it.enq = pr.endSeq
							}
						} else {
							flushMu.Lock()
							if m, ok := flushMarks[string(f.Raw)]; ok {
								it.enq = m
							}
							flushMu.Unlock()
						}
					}
				case r.Id != 0:
					c := cmds[r.Id]
					if c == nil {
						return nil, fmt.Sprintf("frame %d is a reply to an unknown command id %d", fi, r.Id)
					}
					if !cs.RWQ && c.done != 0 {
						it.enq = c.done
					}
					switch {
					case r.Connect != nil:
						for sc := range r.Connect.Subs {
							items = append(items, vfC10Item{kind: vfC10ItStart, ch: sc, seq: f.Seq, enq: it.enq, desc: "connect-reply-sub[" + sc + "]"})
						}
					case r.Subscribe != nil && r.Error == nil && c.kind == "subscribe":
						it.kind, it.ch = vfC10ItStart, c.ch
					case r.Error == nil && c.kind == "unsubscribe":
						it.kind, it.ch = vfC10ItEnd, c.ch
					}
				}
				items = append(items, it)
			}
			return items, ""
		}
		items, perr := parse(conn.Frames(), cmds, true)
		if perr != "" {
			return "subject: " + perr
		}
		actual := vfC10Render(items)
		noteKnown := func(key, ex string) {
			out.known = append(out.known, key)
			if out.knownEx[key] == "" {
				out.knownEx[key] = ex
			}
		}
		const (
			keyA = "C10:offset0-publication-written-before-subscribe-start"
			keyB = "C10:batched-offset0-publication-flushed-after-unsubscribe"
			keyC = "C10:reply-without-queue-overtakes-queued-pushes"
			keyD = "C10:own-join-push-races-unsubscribe-woken-by-subscribe"
		)
		classifyAB := func(it vfC10Item) string {
			pr := prods[it.prodKey]
			if pr == nil || pr.kind != "pub" || pr.hist || it.off != 0 {
				return ""
			}
			if pr.phase == vfC10PhSub {
				return keyA
			}
			if pr.phase == vfC10PhUnsub && batching {
				return keyB
			}
			return ""
		}
		repair := func(in []vfC10Item) ([]vfC10Item, bool) {
			o := append([]vfC10Item(nil), in...)
			sort.SliceStable(o, func(a, b int) bool { return o[a].enq < o[b].enq })
			moved := false
			for i := range o {
				if o[i].seq != in[i].seq || o[i].desc != in[i].desc {
					moved = true
				}
			}
			return o, moved
		}
		cur := items
		skip := map[int]bool{}
		repaired := false
		afterDisc := false
		for {
			idx, ad := vfC10Scan(cur, skip)
			afterDisc = afterDisc || ad
			if idx < 0 {
				break
			}
			it := cur[idx]
			pr := prods[it.prodKey]
			where := it.desc + " (not attributable to a harness event) lies outside a subscription bracket"
			if pr != nil {
				where = fmt.Sprintf("%s (produced while subject phase=%s, writerParked=%v) lies outside a subscription bracket", it.desc,
					[]string{"idle", "subscribe-parked-after-hub-add", "established", "unsubscribe-parked-after-channels-delete"}[pr.phase], pr.lag)
			}
			if racedJoin[it.prodKey] {
				if isKnown(keyD) {
					noteKnown(keyD, where+"; frames: "+vfTrunc(actual, 200))
					skip[idx] = true
					continue
				}
				return "[" + keyD + "] " + where + "; frames: " + actual
			}
			if key := classifyAB(it); key != "" {
				if isKnown(key) {
					noteKnown(key, where+"; frames: "+vfTrunc(actual, 200))
					skip[idx] = true
					continue
				}
				return "[" + key + "] " + where + "; frames: " + actual
			}
			if cs.RWQ && !cs.Uni && !repaired {
				rep, moved := repair(cur)
				if moved {
					// Counterfactual: the same frames in the order they were handed to the connection. If that order is
					// clean (up to the separately classified observations) the direct reply write is the root cause.
					rskip := map[int]bool{}
					clean := true
					for {
						ri, _ := vfC10Scan(rep, rskip)
						if ri < 0 {
							break
						}
						if classifyAB(rep[ri]) == "" && !racedJoin[rep[ri].prodKey] {
							clean = false
							break
						}
						rskip[ri] = true
					}
					if clean {
						if isKnown(keyC) {
							noteKnown(keyC, where+"; frames: "+vfTrunc(actual, 200))
							cur, skip, repaired = rep, map[int]bool{}, true
							continue
						}
						return "[" + keyC + "] " + where + "; frames: " + actual + "; in hand-over order: " + vfC10Render(rep)
					}
				}
			}
			return where + "; frames: " + actual
		}
		if afterDisc {
			out.labels = append(out.labels, "channel_push_after_disconnect_push")
		}
		// the second connection's frames obey the same rule (its operations are never paused)
		jitems, perr := parse(jc.Frames(), jcmds, false)
		if perr != "" {
			return "joiner: " + perr
		}
		if idx, _ := vfC10Scan(jitems, nil); idx >= 0 {
			return "joiner connection: " + jitems[idx].desc + " lies outside a subscription bracket; frames: " + vfC10Render(jitems)
		}

		// ---- labels -----------------------------------------------------------------------------------------
		starts, pushes := 0, 0
		for _, it := range items {
			switch it.kind {
			case vfC10ItStart:
				starts++
			case vfC10ItPush:
				pushes++
			}
		}
		if starts >= 2 {
			out.labels = append(out.labels, "two_or_more_subscription_cycles")
		}
		if starts == 0 {
			out.labels = append(out.labels, "never_subscribed")
		}
		if pushes > 0 {
			out.labels = append(out.labels, "channel_pushes_delivered")
		}
		if closedNow() {
			out.labels = append(out.labels, "connection_closed")
		}
		return ""
	})
}

func TestVF_C10(t *testing.T) {
	vfCheck(t, "C10", func(rt *rapid.T, c *vfCase) string {
		cs := vfC10Gen(rt)
		c.Describe(cs.String())
		out := &vfC10Out{knownEx: map[string]string{}}
		msg := vfC10Run(t, cs, out, c.IsKnown)
		seen := map[string]bool{}
		for _, l := range out.labels {
			if !seen[l] {
				seen[l] = true
				c.Label(l)
			}
		}
		if cs.Positioned {
			c.Label("cfg_positioned")
		} else {
			c.Label("cfg_non_positioned")
		}
		c.Labelf("cfg_mode_%d", cs.Mode)
		if cs.BatchSize > 0 || cs.BatchDelayMs > 0 {
			c.Label("cfg_channel_batching")
		}
		if cs.RWQ {
			c.Label("cfg_reply_without_queue")
		}
		kseen := map[string]bool{}
		for _, k := range out.known {
			if !kseen[k] {
				kseen[k] = true
				c.Known(k, out.knownEx[k])
			}
		}
		if out.nontrivial {
			c.Nontrivial(c.desc)
		}
		return msg
	})
}
