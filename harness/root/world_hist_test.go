package PKGNAME

// Shared sequential history builder + independent stream model (used by C02, C03, C43).

import (
	"fmt"
	"time"
)

type vfC02ModelPub struct {
	Off  uint64
	Tags map[string]string
	Data string
}

type vfC02Model struct {
	exists   bool
	epochGen int
	top      uint64
	retained []vfC02ModelPub
	expireAt int64 // unix seconds, 0 = none
	removeAt int64
}

func (m *vfC02Model) sweep(now int64) {
	if m.expireAt != 0 && now >= m.expireAt {
		m.retained = nil
		m.expireAt = 0
	}
	if m.exists && m.removeAt != 0 && now >= m.removeAt {
		m.exists = false
		m.retained = nil
		m.top = 0
		m.expireAt = 0
		m.removeAt = 0
	}
}

func (m *vfC02Model) touch(now int64, metaTTL int64) {
	if !m.exists {
		m.exists = true
		m.epochGen++
		m.top = 0
		m.retained = nil
	}
	m.removeAt = now + metaTTL
}


const vfC02DefaultMeta = int64(30 * 24 * 3600)

type vfHist struct {
	M                *vfC02Model
	Epochs           []string // distinct epochs observed, in order
	CurEpoch         string
	TrimmedOrExpired bool
	Err              string
}

// vfHistBuild executes ops on channel ch (all operations at x.5 s of the virtual clock; sweeps run at whole seconds),
// keeps the model in lock-step and finally probes the current stream position with a limit-0 history read using
// probeMetaTTL seconds (0 = node default) - the same side effects as the history read a subscribe performs itself.
func vfHistBuild(w *vfWorld, ch string, ops []vfC02Op, probeMetaTTL int64) *vfHist {
	h := &vfHist{M: &vfC02Model{}}
	m := h.M
	time.Sleep(500 * time.Millisecond)
	now := func() int64 { return time.Now().Unix() }
	noteEpoch := func(e string) {
		if e == "" {
			return
		}
		if len(h.Epochs) == 0 || h.Epochs[len(h.Epochs)-1] != e {
			h.Epochs = append(h.Epochs, e)
		}
	}
	for i, op := range ops {
		switch op.Kind {
		case 0:
			data := fmt.Sprintf(`{"i":%d}`, i)
			meta := time.Duration(op.MetaTTL) * time.Second
			res, err := w.node.Publish(ch, []byte(data), WithHistory(op.Size, time.Duration(op.TTL)*time.Second, meta), WithTags(op.Tags))
			if err != nil {
				h.Err = fmt.Sprintf("step %d: publish error %v", i, err)
				return h
			}
			mt := int64(op.MetaTTL)
			if mt == 0 {
				mt = vfC02DefaultMeta
			}
			m.touch(now(), mt)
			m.top++
			m.retained = append(m.retained, vfC02ModelPub{Off: m.top, Tags: op.Tags, Data: data})
			for len(m.retained) > op.Size {
				m.retained = m.retained[1:]
				h.TrimmedOrExpired = true
			}
			m.expireAt = now() + int64(op.TTL)
			if res.Offset != m.top {
				h.Err = fmt.Sprintf("step %d: publish returned offset %d, stream model expects %d (history model mismatch)", i, res.Offset, m.top)
				return h
			}
			noteEpoch(res.Epoch)
		case 1:
			for s := 0; s < op.Adv; s++ {
				time.Sleep(time.Second)
				before := len(m.retained)
				m.sweep(now())
				if len(m.retained) < before {
					h.TrimmedOrExpired = true
				}
			}
		case 2:
			if err := w.node.RemoveHistory(ch); err != nil {
				h.Err = fmt.Sprintf("step %d: remove history error %v", i, err)
				return h
			}
			if len(m.retained) > 0 {
				h.TrimmedOrExpired = true
			}
			m.retained = nil
		}
	}
	vfSettle()
	pm := probeMetaTTL
	if pm == 0 {
		pm = vfC02DefaultMeta
	}
	cur, err := w.node.History(ch, WithHistoryFilter(HistoryFilter{Limit: 0}), WithHistoryMetaTTL(time.Duration(probeMetaTTL)*time.Second))
	if err != nil {
		h.Err = "probe history error: " + err.Error()
		return h
	}
	wasNew := !m.exists
	m.touch(now(), pm)
	if cur.Offset != m.top {
		h.Err = fmt.Sprintf("probe: stream top %d, model expects %d (history model mismatch)", cur.Offset, m.top)
		return h
	}
	if wasNew {
		for _, e := range h.Epochs {
			if e == cur.Epoch {
				h.Err = fmt.Sprintf("probe: epoch %q reused after the stream's metadata was discarded", e)
				return h
			}
		}
	} else if len(h.Epochs) > 0 && h.Epochs[len(h.Epochs)-1] != cur.Epoch {
		h.Err = fmt.Sprintf("probe: epoch changed from %q to %q although metadata was not discarded", h.Epochs[len(h.Epochs)-1], cur.Epoch)
		return h
	}
	noteEpoch(cur.Epoch)
	h.CurEpoch = cur.Epoch
	return h
}
