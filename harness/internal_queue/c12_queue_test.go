package PKGNAME

// C12 (part a) — the per-connection queue is an exact FIFO.
// Model: a plain slice of the items accepted so far (append on Add/AddMany, cut from the front on every Remove*
// flavour). The real queue is a ring buffer that grows by doubling, shrinks immediately (Remove, RemoveMany,
// RemoveManyIntoShrink, FinishCollect(0)) or after a delay (FinishCollect(d>0), time.AfterFunc), so the script runs
// inside a synctest bubble and mixes all flavours with virtual sleeps.
// Checked after every step: returned items == model front (all Item fields, byte-exact), Len, Size, Closed,
// Cap >= initial capacity and Cap >= Len while open; Close/CloseRemaining semantics; Wait blocks exactly while empty.

import (
	"bytes"
	"fmt"
	"runtime"
	"runtime/debug"
	"strconv"
	"strings"
	"sync"
	"sync/atomic"
	"testing"
	"testing/synctest"
	"time"

	"github.com/centrifugal/protocol"
	"pgregory.net/rapid"
)

type vfC12QStep struct {
	Op    string // add addmany remove removemany into intoshrink finish sleep wait close closerem
	Sizes []int  // add/addmany: payload sizes
	Max   int    // removemany/into/intoshrink: maxItems
	Buf   int    // into/intoshrink: len(buf)
	D     time.Duration
}

func (s vfC12QStep) String() string {
	switch s.Op {
	case "add", "addmany":
		return fmt.Sprintf("%s%v", s.Op, s.Sizes)
	case "removemany":
		return fmt.Sprintf("removemany(%d)", s.Max)
	case "into", "intoshrink":
		return fmt.Sprintf("%s(buf=%d,max=%d)", s.Op, s.Buf, s.Max)
	case "finish", "sleep":
		return fmt.Sprintf("%s(%s)", s.Op, s.D)
	}
	return s.Op
}

func vfC12QItem(id, size int) Item {
	return Item{
		Data:      bytes.Repeat([]byte{byte(1 + id%250)}, size),
		Channel:   "ch" + strconv.Itoa(id%3),
		Key:       strconv.Itoa(id),
		FrameType: protocol.FrameType(id % 7),
	}
}

func vfC12QSame(a, b Item) bool {
	return a.Key == b.Key && a.Channel == b.Channel && a.FrameType == b.FrameType && bytes.Equal(a.Data, b.Data)
}

var vfC12QDelays = []time.Duration{0, 0, 10 * time.Millisecond, 50 * time.Millisecond}
var vfC12QSleeps = []time.Duration{time.Millisecond, 10 * time.Millisecond, 40 * time.Millisecond, 50 * time.Millisecond, 120 * time.Millisecond}

func vfC12QGenSteps(rt *rapid.T) []vfC12QStep {
	n := rapid.IntRange(1, 40*vfScale()).Draw(rt, "nsteps")
	// style 0: every flavour mixed; style 1: "batching writer" (drain only through RemoveManyInto, FinishCollect with
	// one fixed positive delay, frequent sleeps => delayed shrink timers fire / get reset); style 2: like 0 without closes.
	style := rapid.IntRange(0, 2).Draw(rt, "style")
	fixedDelay := rapid.SampledFrom([]time.Duration{10 * time.Millisecond, 50 * time.Millisecond}).Draw(rt, "fixedDelay")
	// phase bias: "fill" phases add more than they remove so that the ring grows and wraps, "drain" phases the opposite.
	steps := make([]vfC12QStep, 0, n)
	bias := rapid.IntRange(0, 2).Draw(rt, "bias0")
	for i := 0; i < n; i++ {
		if rapid.IntRange(0, 7).Draw(rt, "rebias") == 0 {
			bias = rapid.IntRange(0, 2).Draw(rt, "bias")
		}
		var addW int
		switch bias {
		case 0:
			addW = 70
		case 1:
			addW = 45
		default:
			addW = 20
		}
		r := rapid.IntRange(0, 99).Draw(rt, "opr")
		var st vfC12QStep
		if r < addW {
			if rapid.IntRange(0, 2).Draw(rt, "many") == 0 {
				k := rapid.SampledFrom([]int{0, 1, 2, 2, 3, 3, 4, 5, 7, 9, 13, 17}).Draw(rt, "k")
				st = vfC12QStep{Op: "addmany"}
				for j := 0; j < k; j++ {
					st.Sizes = append(st.Sizes, rapid.IntRange(0, 9).Draw(rt, "sz"))
				}
			} else {
				st = vfC12QStep{Op: "add", Sizes: []int{rapid.IntRange(0, 9).Draw(rt, "sz")}}
			}
		} else {
			k := rapid.IntRange(0, 99).Draw(rt, "k2")
			maxItems := rapid.SampledFrom([]int{-1, -1, 1, 1, 2, 3, 4, 5, 8, 16}).Draw(rt, "max")
			if style == 1 {
				switch {
				case k < 45:
					// the batching writer always follows a drain with FinishCollect(shrinkDelay)
					steps = append(steps, vfC12QStep{Op: "into", Max: maxItems, Buf: rapid.IntRange(1, 16).Draw(rt, "buf")})
					st = vfC12QStep{Op: "finish", D: fixedDelay}
				case k < 50:
					st = vfC12QStep{Op: "finish", D: fixedDelay}
				case k < 90:
					st = vfC12QStep{Op: "sleep", D: rapid.SampledFrom([]time.Duration{time.Millisecond, fixedDelay - time.Millisecond,
						fixedDelay, fixedDelay, fixedDelay + time.Millisecond, 2 * fixedDelay}).Draw(rt, "sd1")}
				case k < 98:
					st = vfC12QStep{Op: "wait"}
				case k < 99:
					st = vfC12QStep{Op: "close"}
				default:
					st = vfC12QStep{Op: "closerem"}
				}
				steps = append(steps, st)
				continue
			}
			switch {
			case k < 18:
				st = vfC12QStep{Op: "remove"}
			case k < 34:
				st = vfC12QStep{Op: "removemany", Max: maxItems}
			case k < 52:
				st = vfC12QStep{Op: "into", Max: maxItems, Buf: rapid.IntRange(1, 8).Draw(rt, "buf")}
			case k < 64:
				st = vfC12QStep{Op: "intoshrink", Max: maxItems, Buf: rapid.IntRange(1, 8).Draw(rt, "buf")}
			case k < 76:
				st = vfC12QStep{Op: "finish", D: rapid.SampledFrom(vfC12QDelays).Draw(rt, "fd")}
			case k < 86:
				st = vfC12QStep{Op: "sleep", D: rapid.SampledFrom(vfC12QSleeps).Draw(rt, "sd")}
			case k < 96 || style == 2:
				st = vfC12QStep{Op: "wait"}
			case k < 98:
				st = vfC12QStep{Op: "close"}
			default:
				st = vfC12QStep{Op: "closerem"}
			}
		}
		steps = append(steps, st)
	}
	return steps
}

type vfC12QStats struct {
	grow, shrinkNow, shrinkDelayed, wrapResize, waitBlocked, closedWithItems, maxLen int
}

// vfC12QRun interprets the script inside a bubble against the real queue and the slice model.
func vfC12QRun(initCap int, steps []vfC12QStep, stt *vfC12QStats) (verdict string) {
	q := New(initCap)
	var model []Item
	closed := false
	nextID := 0
	var waitDone chan bool // non-nil while a Wait() issued on an empty queue has not been seen returning
	defer func() {
		if r := recover(); r != nil {
			// The queue's methods unlock without defer: a panic inside one leaves q.mu locked. Release it (this is
			// the only goroutine that can hold it here) so that the bubble can be torn down, and report the panic.
			verdict = fmt.Sprintf("PANIC inside the queue: %v", r)
			if !q.mu.TryLock() {
				q.mu.Unlock()
			} else {
				q.mu.Unlock()
			}
		}
		q.Close()
		vfSettle()
	}()

	check := func(i int, what string) string {
		if got := q.Len(); got != len(model) {
			return fmt.Sprintf("step %d (%s): Len()=%d, model %d", i, what, got, len(model))
		}
		sz := 0
		for _, it := range model {
			sz += len(it.Data)
		}
		if got := q.Size(); got != sz {
			return fmt.Sprintf("step %d (%s): Size()=%d, model %d bytes", i, what, got, sz)
		}
		if got := q.Closed(); got != closed {
			return fmt.Sprintf("step %d (%s): Closed()=%v, model %v", i, what, got, closed)
		}
		if !closed {
			c := q.Cap()
			if c < initCap {
				return fmt.Sprintf("step %d (%s): Cap()=%d below initial capacity %d", i, what, c, initCap)
			}
			if c < len(model) {
				return fmt.Sprintf("step %d (%s): Cap()=%d below Len %d", i, what, c, len(model))
			}
		}
		if len(model) > stt.maxLen {
			stt.maxLen = len(model)
		}
		return ""
	}
	// takeFront compares got with the first len(got) model items and removes them.
	takeFront := func(i int, what string, got []Item) string {
		if len(got) > len(model) {
			return fmt.Sprintf("step %d (%s): returned %d items, only %d queued", i, what, len(got), len(model))
		}
		for j := range got {
			if !vfC12QSame(got[j], model[j]) {
				return fmt.Sprintf("step %d (%s): item %d is key=%q len=%d, expected key=%q len=%d (FIFO order broken)",
					i, what, j, got[j].Key, len(got[j].Data), model[j].Key, len(model[j].Data))
			}
		}
		model = model[len(got):]
		return ""
	}
	wantCount := func(maxItems, bufLen int) int {
		n := len(model)
		if maxItems != -1 && maxItems < n {
			n = maxItems
		}
		if bufLen >= 0 && bufLen < n {
			n = bufLen
		}
		return n
	}
	// waiterCheck: after a step that must (or must not) release a blocked Wait.
	waiterCheck := func(i int, what string, mustReturn bool, wantVal int) string {
		if waitDone == nil {
			return ""
		}
		vfSettle()
		select {
		case v := <-waitDone:
			waitDone = nil
			if wantVal == 1 && !v {
				return fmt.Sprintf("step %d (%s): blocked Wait() returned false after an item was added", i, what)
			}
		default:
			if mustReturn {
				return fmt.Sprintf("step %d (%s): Wait() still blocked", i, what)
			}
		}
		return ""
	}

	for i, st := range steps {
		what := st.String()
		capBefore := q.Cap()
		q.mu.RLock()
		headBefore, tailBefore := q.head, q.tail
		q.mu.RUnlock()
		wrapped := !closed && len(model) > 0 && tailBefore <= headBefore
		switch st.Op {
		case "add":
			it := vfC12QItem(nextID, st.Sizes[0])
			nextID++
			ok := q.Add(it)
			if ok == closed {
				return fmt.Sprintf("step %d (%s): Add returned %v on closed=%v queue", i, what, ok, closed)
			}
			if ok {
				model = append(model, it)
				if m := waiterCheck(i, what, true, 1); m != "" {
					return m
				}
			}
		case "addmany":
			items := make([]Item, 0, len(st.Sizes))
			for _, s := range st.Sizes {
				items = append(items, vfC12QItem(nextID, s))
				nextID++
			}
			ok := q.AddMany(items...)
			if ok == closed {
				return fmt.Sprintf("step %d (%s): AddMany returned %v on closed=%v queue", i, what, ok, closed)
			}
			if ok {
				model = append(model, items...)
				if len(items) > 0 {
					if m := waiterCheck(i, what, true, 1); m != "" {
						return m
					}
				} else if m := waiterCheck(i, what, false, 0); m != "" {
					return m
				}
			}
		case "remove":
			it, ok := q.Remove()
			if ok != (len(model) > 0) {
				return fmt.Sprintf("step %d (%s): Remove ok=%v with %d queued", i, what, ok, len(model))
			}
			if ok {
				if m := takeFront(i, what, []Item{it}); m != "" {
					return m
				}
			}
		case "removemany":
			want := wantCount(st.Max, -1)
			items, ok := q.RemoveMany(st.Max)
			if ok != (len(model) > 0) {
				return fmt.Sprintf("step %d (%s): RemoveMany ok=%v with %d queued", i, what, ok, len(model))
			}
			if len(items) != want {
				return fmt.Sprintf("step %d (%s): RemoveMany returned %d items, expected %d (queued %d)", i, what, len(items), want, len(model))
			}
			if m := takeFront(i, what, items); m != "" {
				return m
			}
		case "into", "intoshrink":
			want := wantCount(st.Max, st.Buf)
			buf := make([]Item, st.Buf)
			var n int
			var ok bool
			if st.Op == "into" {
				n, ok = q.RemoveManyInto(buf, st.Max)
			} else {
				n, ok = q.RemoveManyIntoShrink(buf, st.Max)
			}
			if ok != (len(model) > 0) {
				return fmt.Sprintf("step %d (%s): ok=%v with %d queued", i, what, ok, len(model))
			}
			if n != want {
				return fmt.Sprintf("step %d (%s): removed %d items, expected %d (queued %d)", i, what, n, want, len(model))
			}
			if m := takeFront(i, what, buf[:n]); m != "" {
				return m
			}
		case "finish":
			q.FinishCollect(st.D)
		case "sleep":
			time.Sleep(st.D)
			vfSettle()
		case "wait":
			if closed || len(model) > 0 {
				if waitDone != nil {
					break // a waiter is parked only while empty and open; cannot happen here
				}
				got := q.Wait()
				if got == closed {
					return fmt.Sprintf("step %d (wait): Wait()=%v with closed=%v queued=%d", i, got, closed, len(model))
				}
			} else if waitDone == nil {
				ch := make(chan bool, 1)
				waitDone = ch
				go func() { ch <- q.Wait() }()
				vfSettle()
				select {
				case v := <-ch:
					return fmt.Sprintf("step %d (wait): Wait() returned %v on an empty open queue without Add/Close", i, v)
				default:
				}
				stt.waitBlocked++
			}
		case "close":
			if len(model) > 0 {
				stt.closedWithItems++
			}
			q.Close()
			closed = true
			model = nil
			if m := waiterCheck(i, what, true, 0); m != "" {
				return m
			}
		case "closerem":
			rem := q.CloseRemaining()
			if closed {
				if len(rem) != 0 {
					return fmt.Sprintf("step %d: CloseRemaining on a closed queue returned %d items", i, len(rem))
				}
			} else {
				if len(model) > 0 {
					stt.closedWithItems++
				}
				if len(rem) != len(model) {
					return fmt.Sprintf("step %d: CloseRemaining returned %d items, %d were queued", i, len(rem), len(model))
				}
				if m := takeFront(i, what, rem); m != "" {
					return m
				}
			}
			closed = true
			model = nil
			if m := waiterCheck(i, what, true, 0); m != "" {
				return m
			}
		}
		if m := check(i, what); m != "" {
			return m
		}
		if !closed {
			capAfter := q.Cap()
			if capAfter > capBefore {
				stt.grow++
				if wrapped {
					stt.wrapResize++
				}
			} else if capAfter < capBefore {
				if st.Op == "sleep" {
					stt.shrinkDelayed++
				} else {
					stt.shrinkNow++
				}
				if wrapped {
					stt.wrapResize++
				}
			}
		}
	}
	// Drain what is left with a final mixed sweep: everything still queued must come out in order.
	if !closed {
		capBefore := q.Cap()
		time.Sleep(200 * time.Millisecond) // let any delayed shrink fire on a non-empty ring
		vfSettle()
		if q.Cap() < capBefore {
			stt.shrinkDelayed++
		}
		if m := check(len(steps), "final sleep"); m != "" {
			return m
		}
		rem := q.CloseRemaining()
		if len(rem) != len(model) {
			return fmt.Sprintf("final CloseRemaining returned %d items, %d were queued", len(rem), len(model))
		}
		if m := takeFront(len(steps), "final CloseRemaining", rem); m != "" {
			return m
		}
		closed = true
		if m := waiterCheck(len(steps), "final CloseRemaining", true, 0); m != "" {
			return m
		}
		if m := check(len(steps), "final CloseRemaining"); m != "" {
			return m
		}
	}
	return ""
}


// vfC12QBubble is vfBubble with the two GC cycles made optional: they are only needed when the code under test
// returned bubble-bound timers to the internal/timers sync.Pool, and forced GCs dominate the cost of a case.
func vfC12QBubble(t *testing.T, gc bool, f func() string) string {
	var out string
	synctest.Test(t, func(st *testing.T) {
		defer func() {
			if r := recover(); r != nil {
				out = fmt.Sprintf("PANIC: %v\n%s", r, debug.Stack())
			}
		}()
		out = f()
	})
	if gc {
		runtime.GC()
		runtime.GC()
	}
	return out
}

func TestVF_C12_Queue(t *testing.T) {
	vfCheck(t, "C12", func(rt *rapid.T, c *vfCase) string {
		initCap := rapid.SampledFrom([]int{1, 2, 2, 3, 4, 5, 8, 16}).Draw(rt, "initCap")
		steps := vfC12QGenSteps(rt)
		var sb strings.Builder
		fmt.Fprintf(&sb, "queue initCap=%d:", initCap)
		for _, s := range steps {
			sb.WriteByte(' ')
			sb.WriteString(s.String())
		}
		c.Describe(sb.String())

		var stt vfC12QStats
		msg := vfC12QBubble(t, false, func() string { return vfC12QRun(initCap, steps, &stt) }) // the queue never pools timers

		c.Label("part=queue")
		if stt.grow > 0 {
			c.Label("queue:grow")
		}
		if stt.shrinkNow > 0 {
			c.Label("queue:shrink_immediate")
		}
		if stt.shrinkDelayed > 0 {
			c.Label("queue:shrink_delayed_timer")
		}
		if stt.wrapResize > 0 {
			c.Label("queue:resize_while_wrapped")
		}
		if stt.waitBlocked > 0 {
			c.Label("queue:wait_blocked")
		}
		if stt.closedWithItems > 0 {
			c.Label("queue:closed_with_items")
		}
		if stt.maxLen >= 8 {
			c.Label("queue:len>=8")
		}
		if stt.grow+stt.shrinkNow+stt.shrinkDelayed > 0 || stt.closedWithItems > 0 {
			c.Nontrivial(sb.String())
		}
		return msg
	})
}

// ---- concurrent producers / one consumer -------------------------------------------------------------------------

type vfC12QConsOp struct {
	Kind int // 0 Remove, 1 RemoveMany, 2 RemoveManyInto+FinishCollect(0), 3 RemoveManyIntoShrink
	Max  int
	Buf  int
}

// TestVF_C12_QueueConcurrent: several goroutines Add/AddMany their own numbered items while one consumer drains with a
// drawn cyclic pattern of Remove flavours. Oracle: every item comes out exactly once, each producer's items in the
// order that producer added them, and the queue ends empty with Size 0.
func TestVF_C12_QueueConcurrent(t *testing.T) {
	vfCheck(t, "C12", func(rt *rapid.T, c *vfCase) string {
		initCap := rapid.SampledFrom([]int{1, 2, 3, 4, 8}).Draw(rt, "initCap")
		np := rapid.IntRange(2, 4).Draw(rt, "producers")
		prods := make([][][]int, np) // producer -> calls -> sizes (len 1 => Add, otherwise AddMany)
		total := 0
		for p := range prods {
			nc := rapid.IntRange(1, 12).Draw(rt, "ncalls")
			for j := 0; j < nc; j++ {
				k := rapid.SampledFrom([]int{1, 1, 1, 2, 3, 5, 9}).Draw(rt, "k")
				call := make([]int, k)
				for x := range call {
					call[x] = rapid.IntRange(0, 6).Draw(rt, "sz")
				}
				prods[p] = append(prods[p], call)
				total += k
			}
		}
		ncons := rapid.IntRange(1, 5).Draw(rt, "nconsops")
		cons := make([]vfC12QConsOp, ncons)
		for i := range cons {
			cons[i] = vfC12QConsOp{Kind: rapid.IntRange(0, 3).Draw(rt, "ck"),
				Max: rapid.SampledFrom([]int{-1, 1, 2, 3, 5}).Draw(rt, "cmax"), Buf: rapid.IntRange(1, 6).Draw(rt, "cbuf")}
		}
		desc := fmt.Sprintf("queue-concurrent initCap=%d producers=%v consumer=%v", initCap, prods, cons)
		c.Describe(desc)
		c.Label("part=queue_concurrent")
		c.Nontrivial(desc)

		q := New(initCap)
		var wg sync.WaitGroup
		var prodDone, consDone atomic.Bool
		panicCh := make(chan string, np+2)
		guard := func() {
			if r := recover(); r != nil {
				panicCh <- fmt.Sprintf("PANIC inside the queue: %v", r)
			}
		}
		for p := range prods {
			wg.Add(1)
			go func(p int) {
				defer wg.Done()
				defer guard()
				seq := 0
				for _, call := range prods[p] {
					items := make([]Item, len(call))
					for x, s := range call {
						items[x] = Item{Data: bytes.Repeat([]byte{byte(p + 1)}, s), Channel: strconv.Itoa(p), Key: strconv.Itoa(seq)}
						seq++
					}
					if len(items) == 1 {
						q.Add(items[0])
					} else {
						q.AddMany(items...)
					}
				}
			}(p)
		}
		// Once all producers returned, keep signalling (AddMany with no items) so that a consumer parked in Wait()
		// on a queue that lost items wakes up and reports instead of hanging.
		go func() {
			defer guard()
			wg.Wait()
			prodDone.Store(true)
			for !consDone.Load() {
				q.AddMany()
				runtime.Gosched()
			}
		}()
		consRes := make(chan string, 1)
		go func() {
			defer guard()
			next := make([]int, np)
			got := 0
			verdict := ""
			consume := func(items []Item) {
				for _, it := range items {
					p, _ := strconv.Atoi(it.Channel)
					s, _ := strconv.Atoi(it.Key)
					if p < 0 || p >= np {
						if verdict == "" {
							verdict = fmt.Sprintf("consumer got an item that was never added (channel %q key %q)", it.Channel, it.Key)
						}
						continue
					}
					if verdict == "" && s != next[p] {
						verdict = fmt.Sprintf("consumer got producer %d item #%d, expected that producer's item #%d next (loss, duplication or reordering)", p, s, next[p])
					}
					next[p] = s + 1
					got++
				}
			}
			for i := 0; got < total && verdict == ""; i++ {
				if prodDone.Load() && q.Len() == 0 {
					verdict = fmt.Sprintf("all producers finished and the queue is empty, but only %d of %d items came out", got, total)
					break
				}
				if !q.Wait() {
					verdict = "Wait() returned false on an open queue"
					break
				}
				op := cons[i%len(cons)]
				switch op.Kind {
				case 0:
					if it, ok := q.Remove(); ok {
						consume([]Item{it})
					}
				case 1:
					items, _ := q.RemoveMany(op.Max)
					consume(items)
				case 2:
					buf := make([]Item, op.Buf)
					n, _ := q.RemoveManyInto(buf, op.Max)
					consume(buf[:n])
					q.FinishCollect(0)
				default:
					buf := make([]Item, op.Buf)
					n, _ := q.RemoveManyIntoShrink(buf, op.Max)
					consume(buf[:n])
				}
				if cp := q.Cap(); cp < initCap {
					verdict = fmt.Sprintf("Cap()=%d below initial capacity %d", cp, initCap)
				}
			}
			consDone.Store(true)
			if verdict == "" {
				wg.Wait()
				if q.Len() != 0 || q.Size() != 0 {
					verdict = fmt.Sprintf("all %d items consumed but Len()=%d Size()=%d", total, q.Len(), q.Size())
				}
			}
			consRes <- verdict
		}()
		var verdict string
		select {
		case verdict = <-consRes:
		case verdict = <-panicCh:
			// a panic inside the queue leaves its mutex locked; the other goroutines of this case stay parked on it
			// (leaked on purpose: only happens on a failing case).
			consDone.Store(true)
			return verdict
		}
		q.Close()
		return verdict
	})
}
