package PKGNAME

// C26 — Broker subscription tracks local interest.
// 1-3 connections x 1-3 stream channels on a real Node whose broker is the recording vfBrokerProxy. A drawn schedule
// of subscribe / unsubscribe (client commands and server-side API) / transport close / virtual time advance
// (0.3-3 s around the ~1 s dissolver delay and the 0.5 s retry cool-down) / "fail the next N broker subscribe or
// unsubscribe calls of channel ch" / "race": the next broker Subscribe or Unsubscribe call of a channel starts another
// subscribe or unsubscribe of that channel from inside the broker call (i.e. while the node holds the channel's
// subLock) and yields, so that the two overlap.
// Oracle: at every settled point NumSubscribers(ch) > 0 => broker-subscribed(ch); after the final drain the set of
// broker-subscribed channels equals the set of channels with local subscribers.
//
// Harness discipline (synctest): a goroutine blocked on a sync.Mutex is not durably blocked. The dissolver job of
// node.removeSubscription sleeps 500 ms WITH the channel's subLock held after a failed broker Unsubscribe, so
//   * the harness never starts an operation on a channel during such a cool-down (it first advances the clock to
//     its end: the operation would have blocked on the lock for exactly that long anyway), and
//   * an Unsubscribe failure is injected only when no other dissolver job of that channel can wake up (or retry)
//     during the cool-down; jobs are tracked conservatively (every call that may reach node.removeSubscription).

import (
	"fmt"
	"runtime"
	"sort"
	"strings"
	"sync"
	"testing"
	"time"

	"github.com/centrifugal/protocol"
	"pgregory.net/rapid"
)

const (
	vfC26Sub = iota
	vfC26Unsub
	vfC26SrvSub
	vfC26SrvUnsub
	vfC26Close
	vfC26Advance
	vfC26Fail
	vfC26Race
)

type vfC26Step struct {
	Kind     int
	Conn     int
	Ch       int
	AdvMs    int
	Op       int // Fail/Race: 0 broker subscribe, 1 broker unsubscribe
	N        int
	Plain    bool // Fail(subscribe): plain error (=> the subscribing client is disconnected) instead of a client *Error
	RaceKind int  // Race: operation started from inside the broker call (vfC26Sub..vfC26SrvUnsub)
	RaceConn int
}

type vfC26Case struct {
	NConns     int
	NChans     int
	InitFailUn []int // broker unsubscribe failures pending from the start, per channel
	Steps      []vfC26Step
}

func (s vfC26Step) String() string {
	ops := []string{"subscribe", "unsubscribe"}
	kinds := []string{"sub", "unsub", "Client.Subscribe", "Client.Unsubscribe"}
	switch s.Kind {
	case vfC26Sub, vfC26Unsub, vfC26SrvSub, vfC26SrvUnsub:
		return fmt.Sprintf("%s(k%d c%d)", kinds[s.Kind], s.Conn, s.Ch)
	case vfC26Close:
		return fmt.Sprintf("close(k%d)", s.Conn)
	case vfC26Advance:
		return fmt.Sprintf("adv(%dms)", s.AdvMs)
	case vfC26Fail:
		return fmt.Sprintf("failNext(%s c%d n=%d plain=%v)", ops[s.Op], s.Ch, s.N, s.Plain)
	}
	return fmt.Sprintf("race(on broker %s of c%d start %s(k%d c%d))", ops[s.Op], s.Ch, kinds[s.RaceKind], s.RaceConn, s.Ch)
}

func (c vfC26Case) String() string {
	st := make([]string, len(c.Steps))
	for i, s := range c.Steps {
		st[i] = s.String()
	}
	return fmt.Sprintf("conns=%d chans=%d initialUnsubscribeFailures=%v steps=[%s]", c.NConns, c.NChans, c.InitFailUn, strings.Join(st, " "))
}

func vfC26Gen(rt *rapid.T) vfC26Case {
	c := vfC26Case{}
	c.NConns = rapid.SampledFrom([]int{1, 1, 2, 2, 3}).Draw(rt, "nconns")
	c.NChans = rapid.SampledFrom([]int{1, 1, 2, 2, 3}).Draw(rt, "nchans")
	for ch := 0; ch < c.NChans; ch++ {
		c.InitFailUn = append(c.InitFailUn, rapid.SampledFrom([]int{0, 0, 0, 1, 2, 3}).Draw(rt, "initFailUn"))
	}
	n := rapid.IntRange(5, 30).Draw(rt, "nsteps")
	kinds := []int{
		vfC26Sub, vfC26Sub, vfC26Sub, vfC26Sub, vfC26Sub, vfC26Unsub, vfC26Unsub, vfC26Unsub, vfC26Unsub, vfC26Unsub,
		vfC26SrvSub, vfC26SrvUnsub, vfC26Close,
		vfC26Advance, vfC26Advance, vfC26Advance, vfC26Advance, vfC26Advance,
		vfC26Fail, vfC26Fail, vfC26Fail, vfC26Race, vfC26Race,
	}
	unsubAll := func(ch int) {
		for k := 0; k < c.NConns; k++ {
			c.Steps = append(c.Steps, vfC26Step{Kind: vfC26Unsub, Conn: k, Ch: ch})
		}
	}
	for len(c.Steps) < n {
		conn := rapid.IntRange(0, c.NConns-1).Draw(rt, "conn")
		ch := rapid.SampledFrom([]int{0, 0, 0, 1, 2}).Draw(rt, "ch") % c.NChans
		subKind := rapid.SampledFrom([]int{vfC26Sub, vfC26Sub, vfC26Sub, vfC26SrvSub}).Draw(rt, "subKind")
		// a third of the draws are phrases that aim at the interesting windows; all of them expand to ordinary steps
		switch rapid.IntRange(0, 11).Draw(rt, "phrase") {
		case 0: // first subscribe while the delayed broker-unsubscribe job is pending
			unsubAll(ch)
			c.Steps = append(c.Steps, vfC26Step{Kind: vfC26Advance, AdvMs: rapid.SampledFrom([]int{100, 300, 500, 900, 999}).Draw(rt, "adv")},
				vfC26Step{Kind: subKind, Conn: conn, Ch: ch})
			continue
		case 1: // first subscribe started from inside the job's broker Unsubscribe call
			c.Steps = append(c.Steps, vfC26Step{Kind: vfC26Race, Op: 1, Ch: ch, RaceKind: subKind, RaceConn: conn})
			unsubAll(ch)
			c.Steps = append(c.Steps, vfC26Step{Kind: vfC26Advance, AdvMs: 1000})
			continue
		case 2: // broker unsubscribe fails N times; a subscribe arrives somewhere in the retry sequence
			c.Steps = append(c.Steps, vfC26Step{Kind: vfC26Fail, Op: 1, Ch: ch, N: rapid.IntRange(1, 3).Draw(rt, "n")})
			unsubAll(ch)
			c.Steps = append(c.Steps, vfC26Step{Kind: vfC26Advance, AdvMs: rapid.SampledFrom([]int{1000, 1200, 1500, 1700, 2000}).Draw(rt, "adv")},
				vfC26Step{Kind: subKind, Conn: conn, Ch: ch})
			continue
		case 3: // the channel is left alone until the broker unsubscribe went through
			unsubAll(ch)
			c.Steps = append(c.Steps, vfC26Step{Kind: vfC26Advance, AdvMs: rapid.SampledFrom([]int{1000, 1500, 3000}).Draw(rt, "adv")})
			continue
		}
		s := vfC26Step{Kind: rapid.SampledFrom(kinds).Draw(rt, "kind"), Conn: conn, Ch: ch}
		switch s.Kind {
		case vfC26Advance:
			s.AdvMs = rapid.SampledFrom([]int{200, 300, 300, 500, 700, 1000, 1000, 1200, 1500, 3000}).Draw(rt, "adv")
		case vfC26Fail:
			s.Op = rapid.SampledFrom([]int{0, 0, 0, 1}).Draw(rt, "op")
			s.N = rapid.IntRange(1, 3).Draw(rt, "n")
			s.Plain = rapid.Bool().Draw(rt, "plain")
		case vfC26Race:
			s.Op = rapid.SampledFrom([]int{0, 1, 1, 1}).Draw(rt, "op")
			s.RaceKind = rapid.SampledFrom([]int{vfC26Sub, vfC26Sub, vfC26Sub, vfC26Unsub, vfC26SrvSub, vfC26SrvUnsub}).Draw(rt, "rkind")
			s.RaceConn = rapid.IntRange(0, c.NConns-1).Draw(rt, "rconn")
		}
		c.Steps = append(c.Steps, s)
	}
	return c
}

type vfC26Out struct {
	labels     map[string]bool
	nontrivial bool
	known      []string
	knownEx    string
}

func (o *vfC26Out) label(l string) {
	if o.labels == nil {
		o.labels = map[string]bool{}
	}
	o.labels[l] = true
}

type vfC26RaceSpec struct {
	kind int
	conn int
}

func vfC26Run(t *testing.T, cs vfC26Case, out *vfC26Out, isKnown func(string) bool) string {
	return vfBubble(t, func() string {
		w, err := vfNewWorld(Config{}, nil)
		if err != nil {
			return "infra: " + err.Error()
		}
		defer w.Close()

		chName := func(ch int) string { return fmt.Sprintf("c%d", ch) }
		chIndex := map[string]int{}
		for ch := 0; ch < cs.NChans; ch++ {
			chIndex[chName(ch)] = ch
		}
		// distinct subLock shards per channel (the discipline above reasons per channel)
		seenShard := map[int]bool{}
		for ch := 0; ch < cs.NChans; ch++ {
			sh := index(chName(ch), numSubLocks)
			if seenShard[sh] {
				return "infra: channel names share a subLock shard"
			}
			seenShard[sh] = true
		}

		const coolDown = 500 * time.Millisecond
		var mu sync.Mutex // harness state; never held across a blocking call
		failSub := make([]int, cs.NChans)
		failSubPlain := make([]bool, cs.NChans)
		failUnsub := append([]int(nil), cs.InitFailUn...)
		lastUnsubFail := make([]time.Time, cs.NChans)
		potentials := make([][]time.Time, cs.NChans) // wake-up times of dissolver jobs that may exist
		races := map[string]*vfC26RaceSpec{}
		noFail := false
		inflight := 0
		inRace := 0
		raceOps := 0 // operations started from inside a broker call that have not finished yet
		var subFails, subFailsPlain, unsubFails, unsubFailsSkipped, raceOnUnsub, raceOnSub, raceFirstSub int

		conns := make([]*vfConn, cs.NConns)

		notePotentialLocked := func(ch int, at time.Time) {
			potentials[ch] = append(potentials[ch], at.Add(time.Second))
		}
		hasEntry := func(c, ch int) bool {
			cl := conns[c].Client
			cl.mu.RLock()
			defer cl.mu.RUnlock()
			_, ok := cl.channels[chName(ch)]
			return ok
		}
		anyCoolDownLocked := func(now time.Time) bool {
			for ch := range lastUnsubFail {
				if !lastUnsubFail[ch].IsZero() && now.Before(lastUnsubFail[ch].Add(coolDown)) {
					return true
				}
			}
			return false
		}
		var doOp func(kind, c, ch int)
		startOp := func(kind, c, ch int, fromHook bool) {
			now := time.Now()
			mu.Lock()
			inflight++
			if fromHook {
				raceOps++
			}
			switch kind {
			// A dissolver job is submitted when the hub removal leaves the channel without subscribers. Operations of
			// the schedule start at settled points, so that is predictable; operations started from inside a broker
			// call are tracked conservatively.
			case vfC26Unsub, vfC26SrvUnsub:
				if fromHook || (hasEntry(c, ch) && w.node.hub.NumSubscribers(chName(ch)) <= 1) {
					notePotentialLocked(ch, now)
				}
			case vfC26Close:
				for x := 0; x < cs.NChans; x++ {
					if hasEntry(c, x) && w.node.hub.NumSubscribers(chName(x)) <= 1 {
						notePotentialLocked(x, now)
					}
				}
			}
			mu.Unlock()
			go func() {
				defer func() {
					mu.Lock()
					inflight--
					if fromHook {
						raceOps--
					}
					mu.Unlock()
				}()
				doOp(kind, c, ch)
			}()
		}
		doOp = func(kind, c, ch int) {
			conn := conns[c]
			switch kind {
			case vfC26Sub:
				conn.Cmd(&protocol.Command{Id: conn.NextID(), Subscribe: &protocol.SubscribeRequest{Channel: chName(ch)}})
			case vfC26Unsub:
				conn.Cmd(&protocol.Command{Id: conn.NextID(), Unsubscribe: &protocol.UnsubscribeRequest{Channel: chName(ch)}})
			case vfC26SrvSub:
				_ = conn.Client.Subscribe(chName(ch))
			case vfC26SrvUnsub:
				conn.Client.Unsubscribe(chName(ch))
			case vfC26Close:
				conn.TransportClose()
			}
		}

		w.broker.Hook = func(op, phase, hch string) error {
			if phase != "before" || (op != "subscribe" && op != "unsubscribe") {
				return nil
			}
			ch, ok := chIndex[hch]
			if !ok {
				return nil
			}
			now := time.Now()
			mu.Lock()
			if op == "subscribe" {
				if failSub[ch] > 0 && !noFail {
					failSub[ch]--
					subFails++
					// the failed subscribe is rolled back through node.removeSubscription => a dissolver job
					notePotentialLocked(ch, now)
					plain := failSubPlain[ch] && inRace == 0 && raceOps == 0 && !anyCoolDownLocked(now)
					if plain {
						// the client is disconnected: its close unsubscribes every channel it has
						subFailsPlain++
						for x := range potentials {
							notePotentialLocked(x, now)
						}
					}
					mu.Unlock()
					if plain {
						return fmt.Errorf("vf: injected broker subscribe failure")
					}
					return ErrorTooManyRequests
				}
			} else {
				if failUnsub[ch] > 0 && !noFail {
					// safe only if no other job of this channel can contend for the subLock during the cool-down
					isRetry := !lastUnsubFail[ch].IsZero() && now.Equal(lastUnsubFail[ch].Add(coolDown))
					cnt := 0
					var keep []time.Time
					for _, p := range potentials[ch] {
						if p.Before(now) {
							continue
						}
						keep = append(keep, p)
						if !p.After(now.Add(coolDown)) {
							cnt++
						}
					}
					potentials[ch] = keep
					want := 1
					if isRetry {
						want = 0
					}
					if cnt == want && inRace == 0 {
						failUnsub[ch]--
						unsubFails++
						lastUnsubFail[ch] = now
						mu.Unlock()
						return fmt.Errorf("vf: injected broker unsubscribe failure")
					}
					unsubFailsSkipped++
				}
			}
			rc := races[op+":"+hch]
			if rc != nil {
				delete(races, op+":"+hch)
				inRace++
				if op == "unsubscribe" {
					raceOnUnsub++
					if rc.kind == vfC26Sub || rc.kind == vfC26SrvSub {
						raceFirstSub++
					}
				} else {
					raceOnSub++
				}
			}
			mu.Unlock()
			if rc != nil {
				// Start the racing operation while this broker call (and the channel's subLock) is in progress and give
				// it time to run up to the lock.
				startOp(rc.kind, rc.conn, ch, true)
				for i := 0; i < 300; i++ {
					runtime.Gosched()
				}
				mu.Lock()
				inRace--
				mu.Unlock()
			}
			return nil
		}

		for i := 0; i < cs.NConns; i++ {
			conns[i] = w.NewConn(vfConnCfg{Name: fmt.Sprintf("k%d", i), User: fmt.Sprintf("u%d", i)})
			conns[i].Connect(nil)
		}
		vfSettle()

		// waitUnlocked advances the clock until none of the channels is inside a failed-unsubscribe cool-down.
		waitUnlocked := func(chs []int) bool {
			waited := false
			for iter := 0; iter < 64; iter++ {
				var rem time.Duration
				now := time.Now()
				mu.Lock()
				for _, ch := range chs {
					if !lastUnsubFail[ch].IsZero() {
						if d := lastUnsubFail[ch].Add(coolDown).Sub(now); d > rem {
							rem = d
						}
					}
				}
				mu.Unlock()
				if rem <= 0 {
					return waited
				}
				waited = true
				time.Sleep(rem)
				vfSettle()
			}
			return waited
		}
		allChans := make([]int, cs.NChans)
		for i := range allChans {
			allChans[i] = i
		}
		drain := func() {
			mu.Lock()
			noFail = true
			for k := range races {
				delete(races, k)
			}
			mu.Unlock()
			vfSettle()
			waitUnlocked(allChans)
		}
		defer drain() // before w.Close: node shutdown closes every client, which takes the subLocks

		numSubs := func(ch int) int { return w.node.hub.NumSubscribers(chName(ch)) }
		checkImplication := func(where string) string {
			mu.Lock()
			fl := inflight
			mu.Unlock()
			if fl != 0 {
				return ""
			}
			for ch := 0; ch < cs.NChans; ch++ {
				if n := numSubs(ch); n > 0 && !w.broker.BrokerSubscribed(chName(ch)) {
					return fmt.Sprintf("%s: channel %s has %d local subscriber(s) but the node is not subscribed to it in the broker; broker log: %v",
						where, chName(ch), n, w.broker.Log)
				}
			}
			return ""
		}

		for si, s := range cs.Steps {
			switch s.Kind {
			case vfC26Sub, vfC26SrvSub, vfC26Unsub, vfC26SrvUnsub:
				if waitUnlocked([]int{s.Ch}) {
					out.label("operation_waited_for_retry_cooldown")
				}
				if (s.Kind == vfC26Sub || s.Kind == vfC26SrvSub) && numSubs(s.Ch) == 0 && w.broker.BrokerSubscribed(chName(s.Ch)) {
					if closed, _ := conns[s.Conn].T.Closed(); !closed && !hasEntry(s.Conn, s.Ch) {
						out.label("first_subscribe_overlaps_pending_unsubscribe_job")
						out.nontrivial = true
					}
				}
				startOp(s.Kind, s.Conn, s.Ch, false)
			case vfC26Close:
				if closed, _ := conns[s.Conn].T.Closed(); closed {
					continue
				}
				if waitUnlocked(allChans) {
					out.label("operation_waited_for_retry_cooldown")
				}
				startOp(vfC26Close, s.Conn, 0, false)
			case vfC26Advance:
				time.Sleep(time.Duration(s.AdvMs) * time.Millisecond)
			case vfC26Fail:
				mu.Lock()
				if s.Op == 0 {
					failSub[s.Ch] += s.N
					failSubPlain[s.Ch] = s.Plain
				} else {
					failUnsub[s.Ch] += s.N
				}
				mu.Unlock()
			case vfC26Race:
				mu.Lock()
				races[[]string{"subscribe", "unsubscribe"}[s.Op]+":"+chName(s.Ch)] = &vfC26RaceSpec{kind: s.RaceKind, conn: s.RaceConn}
				mu.Unlock()
			}
			vfSettle()
			if m := checkImplication(fmt.Sprintf("settled after step %d (%s)", si, s)); m != "" {
				return m
			}
		}

		// ---- final drain: no failures pending, every delay and retry elapsed ---------------------------------------
		drain()
		for i := 0; i < 3; i++ {
			time.Sleep(1500 * time.Millisecond)
			vfSettle()
			waitUnlocked(allChans)
		}
		mu.Lock()
		fl := inflight
		mu.Unlock()
		if fl != 0 {
			return fmt.Sprintf("%d operations still in flight after the final drain", fl)
		}
		if m := checkImplication("final settled point"); m != "" {
			return m
		}
		for ch := 0; ch < cs.NChans; ch++ {
			if n := numSubs(ch); n == 0 && w.broker.BrokerSubscribed(chName(ch)) {
				return fmt.Sprintf("final settled point: channel %s has no local subscriber but the node is still subscribed to it in the broker 4.5 s after the last operation with no failure pending; broker log: %v",
					chName(ch), w.broker.Log)
			}
		}

		// ---- classification ------------------------------------------------------------------------------------------
		mu.Lock()
		defer mu.Unlock()
		if unsubFails > 0 {
			out.label("broker_unsubscribe_failure_injected")
		}
		if unsubFails > 1 {
			out.label("broker_unsubscribe_failed_repeatedly")
		}
		if unsubFailsSkipped > 0 {
			out.label("broker_unsubscribe_failure_withheld_by_harness_discipline")
		}
		if subFails > 0 {
			out.label("broker_subscribe_failure_injected")
		}
		if subFailsPlain > 0 {
			out.label("broker_subscribe_failure_disconnects_client")
		}
		if raceOnUnsub > 0 {
			out.label("operation_started_inside_broker_unsubscribe")
		}
		if raceFirstSub > 0 {
			out.label("first_subscribe_overlaps_running_unsubscribe_job")
			out.nontrivial = true
		}
		if raceOnSub > 0 {
			out.label("operation_started_inside_broker_subscribe")
		}
		nsub, nbroker := 0, 0
		for ch := 0; ch < cs.NChans; ch++ {
			if numSubs(ch) > 0 {
				nsub++
			}
		}
		for _, l := range w.broker.Log {
			if strings.HasPrefix(l, "unsubscribe ") {
				nbroker++
			}
		}
		if nsub > 0 {
			out.label("final_some_channel_subscribed")
		}
		if nbroker > 0 {
			out.label("broker_unsubscribe_happened")
		}
		if nbroker > 1 {
			out.label("broker_unsubscribe_happened_repeatedly")
		}
		_ = isKnown
		return ""
	})
}

func TestVF_C26(t *testing.T) {
	vfCheck(t, "C26", func(rt *rapid.T, c *vfCase) string {
		cs := vfC26Gen(rt)
		c.Describe(cs.String())
		out := &vfC26Out{}
		msg := vfC26Run(t, cs, out, c.IsKnown)
		ls := make([]string, 0, len(out.labels))
		for l := range out.labels {
			ls = append(ls, l)
		}
		sort.Strings(ls)
		for _, l := range ls {
			c.Label(l)
		}
		for _, k := range out.known {
			c.Known(k, out.knownEx)
		}
		if out.nontrivial {
			c.Nontrivial(c.desc)
		}
		return msg
	})
}
