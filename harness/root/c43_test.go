package PKGNAME

// C43 — History and presence client commands honour their limits.
// Sequential world: a channel history is built with vfHistBuild, several connections join channels with presence,
// then one querying connection sends history / presence / presence_stats commands; every reply is compared with the
// node-level call for the effective (clamped) filter.

import (
	"bytes"
	"errors"
	"fmt"
	"sort"
	"strings"
	"testing"
	"time"

	"github.com/centrifugal/protocol"
	"pgregory.net/rapid"
)

type vfC43Req struct {
	Kind      int // 0 history, 1 presence, 2 presence_stats, 3 extra publish, 4 member leaves
	Ch        int // index into vfC43Chans
	SinceKind int // 0 nil, 1 offset + current epoch, 2 offset + empty epoch, 3 offset + stale epoch
	OffPick   int
	Limit     int
	Reverse   bool
	Member    int
	LeaveHow  int // 0 unsubscribe command, 1 transport close
}

type vfC43Member struct {
	User     string
	Ch       int
	ConnInfo string
	ChanInfo string
	Proto    ProtocolType
}

type vfC43Case struct {
	Max     int
	TTL     int
	MetaTTL int
	Ops     []vfC02Op
	Members []vfC43Member
	Proto   ProtocolType
	Reqs    []vfC43Req
}

var vfC43Chans = []string{"ch", "other"}

func (r vfC43Req) String() string {
	switch r.Kind {
	case 0:
		since := "nil"
		if r.SinceKind != 0 {
			since = fmt.Sprintf("{offPick=%d epoch=%s}", r.OffPick, []string{"", "current", "empty", "stale"}[r.SinceKind])
		}
		return fmt.Sprintf("history(%s since=%s limit=%d reverse=%v)", vfC43Chans[r.Ch], since, r.Limit, r.Reverse)
	case 1:
		return fmt.Sprintf("presence(%s)", vfC43Chans[r.Ch])
	case 2:
		return fmt.Sprintf("presence_stats(%s)", vfC43Chans[r.Ch])
	case 3:
		return "publish(ch)"
	}
	return fmt.Sprintf("leave(member=%d how=%d)", r.Member, r.LeaveHow)
}

func (c vfC43Case) String() string {
	ops := make([]string, len(c.Ops))
	for i, o := range c.Ops {
		ops[i] = o.String()
	}
	ms := make([]string, len(c.Members))
	for i, m := range c.Members {
		ms[i] = fmt.Sprintf("%s@%s(conn=%s chan=%s %s)", m.User, vfC43Chans[m.Ch], m.ConnInfo, m.ChanInfo, m.Proto)
	}
	rs := make([]string, len(c.Reqs))
	for i, r := range c.Reqs {
		rs[i] = r.String()
	}
	return fmt.Sprintf("max=%d ttl=%ds meta=%ds proto=%s ops=[%s] members=[%s] reqs=[%s]", c.Max, c.TTL, c.MetaTTL, c.Proto,
		strings.Join(ops, " "), strings.Join(ms, " "), strings.Join(rs, " "))
}

func vfC43Gen(rt *rapid.T) vfC43Case {
	c := vfC43Case{}
	c.Max = rapid.SampledFrom([]int{0, 0, 1, 2, 3, 4, 5}).Draw(rt, "max")
	c.TTL = rapid.SampledFrom([]int{4, 8, 60, 60}).Draw(rt, "ttl")
	c.MetaTTL = rapid.SampledFrom([]int{0, 0, 0, 6, 12}).Draw(rt, "meta")
	n := rapid.IntRange(0, 12).Draw(rt, "nops")
	for i := 0; i < n; i++ {
		k := rapid.SampledFrom([]int{0, 0, 0, 0, 0, 0, 1, 2}).Draw(rt, "kind")
		op := vfC02Op{Kind: k}
		switch k {
		case 0:
			op.Size = rapid.SampledFrom([]int{1, 2, 3, 5, 8, 8, 12}).Draw(rt, "size")
			op.TTL = c.TTL
			op.MetaTTL = c.MetaTTL
			op.Tags = vfTagsGen(rt, "tags")
		case 1:
			op.Adv = rapid.SampledFrom([]int{1, 1, 2, 3, 5, 9}).Draw(rt, "adv")
		}
		c.Ops = append(c.Ops, op)
	}
	nm := rapid.IntRange(0, 5).Draw(rt, "nmembers")
	for i := 0; i < nm; i++ {
		m := vfC43Member{}
		m.User = rapid.SampledFrom([]string{"u1", "u1", "u2", "u3", ""}).Draw(rt, "user")
		m.Ch = rapid.SampledFrom([]int{0, 0, 0, 1}).Draw(rt, "mch")
		m.ConnInfo = rapid.SampledFrom([]string{"", `{"c":1}`, `{"conn":"x"}`}).Draw(rt, "conninfo")
		m.ChanInfo = rapid.SampledFrom([]string{"", `{"h":2}`, `"s"`}).Draw(rt, "chaninfo")
		m.Proto = rapid.SampledFrom([]ProtocolType{ProtocolTypeJSON, ProtocolTypeProtobuf}).Draw(rt, "mproto")
		c.Members = append(c.Members, m)
	}
	c.Proto = rapid.SampledFrom([]ProtocolType{ProtocolTypeJSON, ProtocolTypeProtobuf}).Draw(rt, "proto")
	nr := rapid.IntRange(1, 8).Draw(rt, "nreqs")
	for i := 0; i < nr; i++ {
		r := vfC43Req{}
		r.Kind = rapid.SampledFrom([]int{0, 0, 0, 0, 0, 0, 1, 2, 3, 4}).Draw(rt, "rkind")
		switch r.Kind {
		case 0:
			r.Ch = rapid.SampledFrom([]int{0, 0, 0, 0, 0, 0, 0, 1}).Draw(rt, "hch")
			r.SinceKind = rapid.SampledFrom([]int{0, 0, 0, 1, 1, 1, 2, 2, 3}).Draw(rt, "sinceKind")
			if r.SinceKind != 0 {
				r.OffPick = rapid.SampledFrom([]int{0, 0, 1, 2, 3, 4, 5, 6, 8, 11, 14}).Draw(rt, "offPick")
			}
			r.Limit = rapid.IntRange(-5, 10).Draw(rt, "limit")
			r.Reverse = rapid.IntRange(0, 2).Draw(rt, "reverse") == 0
		case 1, 2:
			r.Ch = rapid.SampledFrom([]int{0, 0, 0, 1}).Draw(rt, "pch")
		case 4:
			r.Member = rapid.IntRange(0, 4).Draw(rt, "member")
			r.LeaveHow = rapid.IntRange(0, 1).Draw(rt, "how")
		}
		c.Reqs = append(c.Reqs, r)
	}
	return c
}

type vfC43Out struct {
	labels     []string
	nontrivial bool
}

func vfC43TagsEq(a, b map[string]string) bool {
	if len(a) != len(b) {
		return false
	}
	for k, v := range a {
		if w, ok := b[k]; !ok || w != v {
			return false
		}
	}
	return true
}

// vfC43Reply returns the replies carrying id.
func vfC43Replies(conn *vfConn, id uint32) ([]*protocol.Reply, string) {
	var out []*protocol.Reply
	for _, f := range conn.Frames() {
		if f.Err != nil {
			return nil, "undecodable frame: " + f.Err.Error()
		}
		if f.Reply.Id == id {
			out = append(out, f.Reply)
		}
	}
	return out, ""
}

func vfC43Run(t *testing.T, cs vfC43Case, out *vfC43Out) string {
	return vfBubble(t, func() string {
		w, err := vfNewWorld(Config{HistoryMaxPublicationLimit: cs.Max}, nil)
		if err != nil {
			return "infra: " + err.Error()
		}
		defer w.Close()
		label := func(l string) { out.labels = append(out.labels, l) }
		memberOf := map[*vfConn]vfC43Member{}
		w.Connecting = func(c *vfConn, e ConnectEvent) (ConnectReply, error) {
			cr := &Credentials{UserID: c.User}
			if m, ok := memberOf[c]; ok && m.ConnInfo != "" {
				cr.Info = []byte(m.ConnInfo)
			}
			return ConnectReply{Credentials: cr}, nil
		}
		w.ChanOpts = func(c *vfConn, e SubscribeEvent) (SubscribeReply, error) {
			o := SubscribeOptions{EmitPresence: true}
			if m, ok := memberOf[c]; ok && m.ChanInfo != "" {
				o.ChannelInfo = []byte(m.ChanInfo)
			}
			return SubscribeReply{Options: o}, nil
		}
		handlerFilters := []HistoryFilter{}
		w.PerClient = func(c *vfConn, client *Client) {
			client.OnHistory(func(e HistoryEvent, cb HistoryCallback) {
				handlerFilters = append(handlerFilters, e.Filter)
				cb(HistoryReply{}, nil)
			})
			client.OnPresence(func(e PresenceEvent, cb PresenceCallback) { cb(PresenceReply{}, nil) })
			client.OnPresenceStats(func(e PresenceStatsEvent, cb PresenceStatsCallback) { cb(PresenceStatsReply{}, nil) })
		}

		h := vfHistBuild(w, "ch", cs.Ops, int64(cs.MetaTTL))
		if h.Err != "" {
			return h.Err
		}
		top := h.M.top
		curEpoch := h.CurEpoch
		staleEpoch := "STALE"
		if len(h.Epochs) > 1 {
			staleEpoch = h.Epochs[len(h.Epochs)-2]
		}

		// members join with presence
		var members []*vfConn
		for i, m := range cs.Members {
			mc := w.NewConn(vfConnCfg{Name: fmt.Sprintf("m%d", i), User: m.User, Proto: m.Proto})
			memberOf[mc] = m
			mc.Connect(nil)
			mc.Cmd(&protocol.Command{Id: mc.NextID(), Subscribe: &protocol.SubscribeRequest{Channel: vfC43Chans[m.Ch]}})
			members = append(members, mc)
		}
		vfSettle()
		q := w.NewConn(vfConnCfg{Name: "q", User: "querier", Proto: cs.Proto})
		q.Connect(nil)
		vfSettle()
		if closed, d := q.T.Closed(); closed {
			return fmt.Sprintf("querier closed after connect: %d %s", d.Code, d.Reason)
		}
		extra := 0
		lastSize := 3
		for _, o := range cs.Ops {
			if o.Kind == 0 {
				lastSize = o.Size
			}
		}

		for ri, r := range cs.Reqs {
			where := fmt.Sprintf("request %d %s: ", ri, r)
			switch r.Kind {
			case 3:
				extra++
				res, err := w.node.Publish("ch", []byte(fmt.Sprintf(`{"x":%d}`, extra)),
					WithHistory(lastSize, time.Duration(cs.TTL)*time.Second, time.Duration(cs.MetaTTL)*time.Second))
				if err != nil {
					return where + "publish error " + err.Error()
				}
				if res.Epoch != curEpoch {
					staleEpoch = curEpoch
					curEpoch = res.Epoch
				}
				top = res.Offset
				continue
			case 4:
				if len(members) == 0 {
					continue
				}
				mc := members[r.Member%len(members)]
				if r.LeaveHow == 0 {
					mc.Cmd(&protocol.Command{Id: mc.NextID(), Unsubscribe: &protocol.UnsubscribeRequest{Channel: vfC43Chans[memberOf[mc].Ch]}})
				} else {
					mc.TransportClose()
				}
				vfSettle()
				label("member_left")
				continue
			}
			ch := vfC43Chans[r.Ch]
			id := q.NextID()
			switch r.Kind {
			case 0:
				// ---- history ---------------------------------------------------------------------------------
				var since *StreamPosition
				var psince *protocol.StreamPosition
				if r.SinceKind != 0 {
					off := uint64(r.OffPick) % (top + 3)
					ep := ""
					switch r.SinceKind {
					case 1:
						ep = curEpoch
					case 3:
						ep = staleEpoch
					}
					since = &StreamPosition{Offset: off, Epoch: ep}
					psince = &protocol.StreamPosition{Offset: off, Epoch: ep}
				}
				eff := HistoryFilter{Since: since, Limit: r.Limit, Reverse: r.Reverse}
				clamped := false
				if cs.Max > 0 && (r.Limit < 0 || r.Limit > cs.Max) {
					eff.Limit = cs.Max
					clamped = true
				}
				want, werr := w.node.History(ch, WithHistoryFilter(eff))
				nh := len(handlerFilters)
				q.Cmd(&protocol.Command{Id: id, History: &protocol.HistoryRequest{Channel: ch, Limit: int32(r.Limit), Since: psince, Reverse: r.Reverse}})
				vfSettle()
				reps, m := vfC43Replies(q, id)
				if m != "" {
					return where + m
				}
				if closed, d := q.T.Closed(); closed {
					return where + fmt.Sprintf("connection closed (%d %s) instead of a history reply", d.Code, d.Reason)
				}
				if len(reps) != 1 {
					return where + fmt.Sprintf("%d replies with id %d, expected exactly one; frames: %s", len(reps), id, vfRenderFrames(q.Frames()))
				}
				rep := reps[0]
				if len(handlerFilters) != nh+1 {
					return where + "history handler was not invoked exactly once"
				}
				if r.Limit < 0 || (cs.Max > 0 && r.Limit > cs.Max) || (r.Reverse && since != nil) {
					out.nontrivial = true
				}
				if clamped {
					label("limit_clamped")
				}
				if r.Limit < 0 {
					label("limit_negative")
				}
				badReverse := r.Reverse && since != nil && since.Offset == 0
				if badReverse {
					label("reverse_since_zero")
					if rep.Error == nil || rep.Error.Code != ErrorBadRequest.Code {
						return where + fmt.Sprintf("reverse request since offset 0 was not rejected as bad request: %s", vfRenderReply(rep))
					}
					continue
				}
				if werr != nil {
					var ce *Error
					if !errors.As(werr, &ce) {
						return where + "node.History returned a non-protocol error: " + werr.Error()
					}
					label(fmt.Sprintf("node_error_%d", ce.Code))
					if rep.Error == nil || rep.Error.Code != ce.Code {
						return where + fmt.Sprintf("node.History(effective filter) fails with %d %s, the client reply is %s", ce.Code, ce.Message, vfRenderReply(rep))
					}
					continue
				}
				if rep.Error != nil {
					return where + fmt.Sprintf("client got error %d %s although node.History(effective filter limit=%d) succeeds with %d publications",
						rep.Error.Code, rep.Error.Message, eff.Limit, len(want.Publications))
				}
				if rep.History == nil {
					return where + "reply carries neither error nor history result: " + vfRenderReply(rep)
				}
				got := rep.History
				if cs.Max > 0 && len(got.Publications) > cs.Max {
					return where + fmt.Sprintf("%d publications returned, HistoryMaxPublicationLimit is %d", len(got.Publications), cs.Max)
				}
				if got.Offset != want.Offset || got.Epoch != want.Epoch {
					return where + fmt.Sprintf("reply position (%d,%s) differs from node-level (%d,%s)", got.Offset, got.Epoch, want.Offset, want.Epoch)
				}
				if len(got.Publications) != len(want.Publications) {
					return where + fmt.Sprintf("%d publications returned, node.History with effective limit %d returns %d", len(got.Publications), eff.Limit, len(want.Publications))
				}
				for i, p := range got.Publications {
					wp := want.Publications[i]
					if p.Offset != wp.Offset || !bytes.Equal(p.Data, wp.Data) || !vfC43TagsEq(p.Tags, wp.Tags) {
						return where + fmt.Sprintf("publication %d is (off=%d data=%s tags=%s), node-level is (off=%d data=%s tags=%s)", i, p.Offset, p.Data,
							vfTagsStr(p.Tags), wp.Offset, wp.Data, vfTagsStr(wp.Tags))
					}
				}
				switch {
				case len(got.Publications) == 0:
					label("history_empty")
				case cs.Max > 0 && len(got.Publications) == cs.Max:
					label("history_at_max")
				default:
					label("history_nonempty")
				}
				if r.Reverse && len(got.Publications) > 1 {
					label("reverse_multi")
				}
			case 1:
				// ---- presence --------------------------------------------------------------------------------
				want, werr := w.node.Presence(ch)
				if werr != nil {
					return where + "node.Presence error " + werr.Error()
				}
				q.Cmd(&protocol.Command{Id: id, Presence: &protocol.PresenceRequest{Channel: ch}})
				vfSettle()
				reps, m := vfC43Replies(q, id)
				if m != "" {
					return where + m
				}
				if len(reps) != 1 || reps[0].Error != nil || reps[0].Presence == nil {
					return where + fmt.Sprintf("expected exactly one presence result; frames: %s", vfRenderFrames(q.Frames()))
				}
				got := reps[0].Presence.Presence
				if len(got) != len(want.Presence) {
					return where + fmt.Sprintf("presence reply has %d entries, node-level has %d", len(got), len(want.Presence))
				}
				keys := make([]string, 0, len(want.Presence))
				for k := range want.Presence {
					keys = append(keys, k)
				}
				sort.Strings(keys)
				for _, k := range keys {
					wv := want.Presence[k]
					gv, ok := got[k]
					if !ok || gv == nil {
						return where + "presence reply misses client " + k
					}
					if gv.Client != wv.ClientID || gv.User != wv.UserID || !bytes.Equal(gv.ConnInfo, wv.ConnInfo) || !bytes.Equal(gv.ChanInfo, wv.ChanInfo) {
						return where + fmt.Sprintf("presence entry %s is (client=%s user=%s conn=%s chan=%s), node-level is (client=%s user=%s conn=%s chan=%s)", k,
							gv.Client, gv.User, gv.ConnInfo, gv.ChanInfo, wv.ClientID, wv.UserID, wv.ConnInfo, wv.ChanInfo)
					}
				}
				if len(got) > 0 {
					label("presence_nonempty")
				} else {
					label("presence_empty")
				}
			case 2:
				want, werr := w.node.PresenceStats(ch)
				if werr != nil {
					return where + "node.PresenceStats error " + werr.Error()
				}
				q.Cmd(&protocol.Command{Id: id, PresenceStats: &protocol.PresenceStatsRequest{Channel: ch}})
				vfSettle()
				reps, m := vfC43Replies(q, id)
				if m != "" {
					return where + m
				}
				if len(reps) != 1 || reps[0].Error != nil || reps[0].PresenceStats == nil {
					return where + fmt.Sprintf("expected exactly one presence stats result; frames: %s", vfRenderFrames(q.Frames()))
				}
				got := reps[0].PresenceStats
				if int(got.NumClients) != want.NumClients || int(got.NumUsers) != want.NumUsers {
					return where + fmt.Sprintf("presence stats reply (clients=%d users=%d) differs from node-level (clients=%d users=%d)", got.NumClients, got.NumUsers,
						want.NumClients, want.NumUsers)
				}
				if want.NumClients != want.NumUsers {
					label("stats_clients_ne_users")
				} else if want.NumClients > 0 {
					label("stats_nonempty")
				}
			}
		}
		return ""
	})
}

func TestVF_C43(t *testing.T) {
	vfCheck(t, "C43", func(rt *rapid.T, c *vfCase) string {
		cs := vfC43Gen(rt)
		c.Describe(cs.String())
		out := &vfC43Out{}
		msg := vfC43Run(t, cs, out)
		seen := map[string]bool{}
		for _, l := range out.labels {
			if !seen[l] {
				seen[l] = true
				c.Label(l)
			}
		}
		if out.nontrivial {
			c.Nontrivial(c.desc)
		}
		return msg
	})
}
