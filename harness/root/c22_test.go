package PKGNAME

// C22 — Map subscriptions converge to the broker state.
//
// A protocol-following map client model (vfC22Client) drives a real Client over the world harness: state pages
// (phase 2) -> stream pages (phase 1) -> live (phase 0); after an insufficient-state unsubscribe or a connection
// loss it rejoins from its saved position (phase 0 recover=true, or phase 1 recover=true), after an "unrecoverable
// position" error or a disconnect in the middle of a handshake it starts over from scratch. A writer (MapPublish /
// MapRemove / MapClear, key expiry, stream trimming, stream / meta TTL expiry on the virtual clock) runs between the
// client's requests and - through a gating MapBroker wrapper - inside a request (after ReadState returned, after
// ReadStream returned, after the stream-position read, before the broker Subscribe of the live join).
//
// Oracle (after traffic stopped, the client was driven to the end of its handshake without further writes, and
// time advanced a little): either the client is not live (it was told: error / unsubscribe / disconnect - counted),
// or its folded model equals MapStateRead(all) restricted to the keys its filters admit (keys, data, score on
// ordered channels), its epoch is the stream's epoch and no admitted change lies beyond its position. For rejoin
// requests answered recovered=true the delivered publications must be exactly the admitted changes in
// (saved offset, reply offset] according to the log of broker deliveries. A stream pagination that stops making progress
// (empty page, unchanged offset, three times in a row) is a livelock: never live, never told.
//
// Debugging aids (unset in normal runs): VF_C22_PROBE=expiry|zero|zero2 replaces the generated case by a minimal
// reproducer of the known findings; VF_C22_FAIL_REFUSED=1 turns "client not live at the end" into a failure so that
// the trace of such a case can be inspected.

import (
	"context"
	"fmt"
	"os"
	"sort"
	"strings"
	"sync"
	"testing"
	"time"

	"github.com/centrifugal/centrifuge/internal/saferand"
	"github.com/centrifugal/protocol"
	"pgregory.net/rapid"
)

const vfC22Ch = "mp"

var vfC22Keys = []string{"a", "b", "c", "d", "e", "f"}

const (
	vfC22SClient = iota
	vfC22SPublish
	vfC22SRemove
	vfC22SClear
	vfC22SAdvance
	vfC22SRelease
	vfC22SDrop
)

var vfC22GateNames = []string{"", "c22:state_after", "c22:stream_after", "c22:pos_after", "c22:sub_before"}

type vfC22Step struct {
	Kind  int
	Gate  int // client step: index into vfC22GateNames
	Key   int
	Score int
	Adv   int // seconds
}

func (s vfC22Step) String() string {
	switch s.Kind {
	case vfC22SClient:
		if s.Gate != 0 {
			return "client(gate=" + strings.TrimPrefix(vfC22GateNames[s.Gate], "c22:") + ")"
		}
		return "client"
	case vfC22SPublish:
		return fmt.Sprintf("pub(%s,s%d)", vfC22Keys[s.Key], s.Score)
	case vfC22SRemove:
		return fmt.Sprintf("rm(%s)", vfC22Keys[s.Key])
	case vfC22SClear:
		return "clear"
	case vfC22SAdvance:
		return fmt.Sprintf("adv(%ds)", s.Adv)
	case vfC22SRelease:
		return "release"
	}
	return "drop"
}

type vfC22Case struct {
	Mode       int // 0 recoverable, 1 persistent, 2 ephemeral (streamless)
	Ordered    bool
	Asc        bool
	Proto      ProtocolType
	Page       int
	StreamSize int
	KeyTTL     int // seconds
	StreamTTL  int
	MetaTTL    int
	CatchUp    int // seconds; 0 default (5 s); -1 disabled
	LiveLimit  int
	ServerTF   *vfTF
	ClientTF   *vfTF
	KeyTags    []map[string]string
	RecoverVia int // 0: phase 0 direct join, 1: phase 1 stream pagination with recover=true
	Pre        []vfC22Step
	Steps      []vfC22Step
}

func (c vfC22Case) modeName() string { return []string{"recoverable", "persistent", "ephemeral"}[c.Mode] }

func (c vfC22Case) String() string {
	pre := make([]string, len(c.Pre))
	for i, s := range c.Pre {
		pre[i] = s.String()
	}
	st := make([]string, len(c.Steps))
	for i, s := range c.Steps {
		st[i] = s.String()
	}
	tags := ""
	if c.ServerTF != nil || c.ClientTF != nil {
		parts := []string{}
		for i, t := range c.KeyTags {
			parts = append(parts, vfC22Keys[i]+vfTagsStr(t))
		}
		tags = " tags=[" + strings.Join(parts, " ") + "]"
	}
	return fmt.Sprintf("mode=%s ordered=%v asc=%v proto=%s page=%d streamSize=%d keyTTL=%ds streamTTL=%ds metaTTL=%ds catchUp=%ds liveLimit=%d serverTF=%s clientTF=%s%s recoverVia=%d pre=[%s] steps=[%s]",
		c.modeName(), c.Ordered, c.Asc, c.Proto, c.Page, c.StreamSize, c.KeyTTL, c.StreamTTL, c.MetaTTL, c.CatchUp, c.LiveLimit,
		c.ServerTF, c.ClientTF, tags, c.RecoverVia, strings.Join(pre, " "), strings.Join(st, " "))
}

func (c vfC22Case) chOpts() MapChannelOptions {
	o := MapChannelOptions{MinPageSize: 1, DefaultPageSize: 3, LiveTransitionMaxPublicationLimit: c.LiveLimit,
		SubscribeCatchUpTimeout: time.Duration(c.CatchUp) * time.Second, ordered: c.Ordered}
	switch c.Mode {
	case 0:
		o.Mode = MapModeRecoverable
	case 1:
		o.Mode = MapModePersistent
	default:
		o.Mode = MapModeEphemeral
	}
	o.KeyTTL = time.Duration(c.KeyTTL) * time.Second
	if c.Mode != 2 {
		o.StreamSize = c.StreamSize
		o.StreamTTL = time.Duration(c.StreamTTL) * time.Second
		o.MetaTTL = time.Duration(c.MetaTTL) * time.Second
	}
	return o
}

func (c vfC22Case) admits(tags map[string]string) bool {
	return c.ServerTF.Match(tags) && c.ClientTF.Match(tags)
}

func vfC22GenWrite(rt *rapid.T, allowClear bool) vfC22Step {
	kinds := []int{vfC22SPublish, vfC22SPublish, vfC22SPublish, vfC22SPublish, vfC22SPublish, vfC22SRemove, vfC22SRemove}
	if allowClear {
		kinds = append(kinds, vfC22SClear)
	}
	s := vfC22Step{Kind: rapid.SampledFrom(kinds).Draw(rt, "wkind")}
	if s.Kind != vfC22SClear {
		s.Key = rapid.IntRange(0, len(vfC22Keys)-1).Draw(rt, "key")
		s.Score = rapid.IntRange(-1, 2).Draw(rt, "score")
	}
	return s
}

func vfC22Gen(rt *rapid.T) vfC22Case {
	c := vfC22Case{}
	c.Mode = rapid.SampledFrom([]int{0, 0, 0, 0, 1, 1, 1, 2}).Draw(rt, "mode")
	c.Ordered = rapid.IntRange(0, 3).Draw(rt, "ordered") == 0
	if c.Ordered {
		c.Asc = rapid.Bool().Draw(rt, "asc")
	}
	c.Proto = rapid.SampledFrom([]ProtocolType{ProtocolTypeJSON, ProtocolTypeProtobuf}).Draw(rt, "proto")
	c.Page = rapid.IntRange(1, 5).Draw(rt, "page")
	c.StreamSize = rapid.SampledFrom([]int{2, 2, 3, 3, 4, 5, 6, 8}).Draw(rt, "streamSize")
	switch c.Mode {
	case 0:
		c.KeyTTL = rapid.SampledFrom([]int{3, 5, 60, 60}).Draw(rt, "keyTTL")
		c.StreamTTL = rapid.SampledFrom([]int{2, 4, 4, 60, 60}).Draw(rt, "streamTTL")
		if rapid.IntRange(0, 2).Draw(rt, "metaExplicit") == 0 {
			c.MetaTTL = c.KeyTTL
			if c.StreamTTL > c.MetaTTL {
				c.MetaTTL = c.StreamTTL
			}
			c.MetaTTL += 2
		}
	case 1:
		c.StreamTTL = rapid.SampledFrom([]int{2, 4, 4, 60, 60}).Draw(rt, "streamTTL")
	default:
		c.KeyTTL = rapid.SampledFrom([]int{4, 600}).Draw(rt, "keyTTL")
	}
	c.CatchUp = rapid.SampledFrom([]int{0, 0, 3, -1, -1}).Draw(rt, "catchUp")
	c.LiveLimit = rapid.SampledFrom([]int{0, 0, 0, 2, 5}).Draw(rt, "liveLimit")
	if rapid.IntRange(0, 2).Draw(rt, "filters") == 0 {
		c.ServerTF = vfTFGenOpt(rt, "stf")
		c.ClientTF = vfTFGenOpt(rt, "ctf")
	}
	c.KeyTags = make([]map[string]string, len(vfC22Keys))
	if c.ServerTF != nil || c.ClientTF != nil {
		for i := range vfC22Keys {
			c.KeyTags[i] = vfTagsGen(rt, "kt")
		}
	}
	c.RecoverVia = rapid.IntRange(0, 1).Draw(rt, "recoverVia")
	npre := rapid.SampledFrom([]int{0, 0, 0, 1, 2, 3, 4, 5, 6, 6, 7, 8, 9}).Draw(rt, "npre")
	for i := 0; i < npre; i++ {
		s := vfC22Step{Kind: vfC22SPublish, Key: i % len(vfC22Keys), Score: rapid.IntRange(-1, 2).Draw(rt, "prescore")}
		if i >= len(vfC22Keys) {
			s = vfC22GenWrite(rt, false)
		}
		c.Pre = append(c.Pre, s)
	}
	// The schedule is drawn as segments so that writes come in bursts (stream trimming needs more writes than the
	// stream holds; the stream phase needs more writes than a page) and "drop, writes, silence, rejoin" is likely.
	gate := func(label string) int {
		return rapid.SampledFrom([]int{0, 0, 0, 0, 1, 1, 2, 2, 3, 4}).Draw(rt, label)
	}
	c.Steps = append(c.Steps, vfC22Step{Kind: vfC22SClient, Gate: rapid.SampledFrom([]int{0, 0, 1, 1, 2, 3, 4}).Draw(rt, "gate0")})
	nseg := rapid.IntRange(2, 9).Draw(rt, "nseg")
	for i := 0; i < nseg && len(c.Steps) < 45; i++ {
		switch rapid.SampledFrom([]int{0, 0, 0, 0, 1, 1, 1, 2, 2, 3, 4, 5, 5}).Draw(rt, "seg") {
		case 0:
			n := rapid.IntRange(1, 4).Draw(rt, "nclient")
			for j := 0; j < n; j++ {
				c.Steps = append(c.Steps, vfC22Step{Kind: vfC22SClient, Gate: gate("gate")})
				nw := rapid.SampledFrom([]int{0, 0, 0, 1, 1, 2, 4}).Draw(rt, "nw")
				for k := 0; k < nw; k++ {
					c.Steps = append(c.Steps, vfC22GenWrite(rt, rapid.IntRange(0, 9).Draw(rt, "clearOK") == 0))
				}
			}
		case 1:
			n := rapid.IntRange(1, 10).Draw(rt, "nburst")
			for j := 0; j < n; j++ {
				c.Steps = append(c.Steps, vfC22GenWrite(rt, rapid.IntRange(0, 14).Draw(rt, "clearOK") == 0))
			}
		case 2:
			c.Steps = append(c.Steps, vfC22Step{Kind: vfC22SAdvance, Adv: rapid.SampledFrom([]int{1, 1, 2, 3, 5, 7}).Draw(rt, "adv")})
		case 3:
			c.Steps = append(c.Steps, vfC22Step{Kind: vfC22SDrop})
		case 5:
			// away: the connection drops, the channel changes (or not), time passes (or not), the client comes back
			c.Steps = append(c.Steps, vfC22Step{Kind: vfC22SDrop})
			n := rapid.IntRange(0, 9).Draw(rt, "naway")
			for j := 0; j < n; j++ {
				c.Steps = append(c.Steps, vfC22GenWrite(rt, rapid.IntRange(0, 14).Draw(rt, "clearOK") == 0))
			}
			if a := rapid.SampledFrom([]int{0, 0, 1, 3, 5, 7}).Draw(rt, "awayAdv"); a > 0 {
				c.Steps = append(c.Steps, vfC22Step{Kind: vfC22SAdvance, Adv: a})
			}
			c.Steps = append(c.Steps, vfC22Step{Kind: vfC22SClient, Gate: gate("gate")})
		default:
			c.Steps = append(c.Steps, vfC22Step{Kind: vfC22SRelease})
		}
	}
	return c
}

// ---------------------------------------------------------------------------------------------------
// gating + logging MapBroker wrapper

type vfC22Change struct {
	Epoch   string
	Off     uint64
	Key     string
	Removed bool
	Data    string
	Score   int64
	Tags    map[string]string
}

type vfC22MapBroker struct {
	inner MapBroker
	gates *vfGates
	h     BrokerEventHandler

	mu   sync.Mutex
	log  []vfC22Change
	nSub int
	// Stream reads that returned fewer publications than the offsets say exist (filled for classification only).
	sinceZeroTrim bool // Since.Offset==0 and the first returned offset is > 1
	emptyGap      bool // Since given, nothing returned, but the stream top is beyond Since
}

var _ MapBroker = (*vfC22MapBroker)(nil)
var _ BrokerEventHandler = (*vfC22MapBroker)(nil)

func (b *vfC22MapBroker) RegisterEventHandler(h BrokerEventHandler) error {
	b.h = h
	return b.inner.RegisterEventHandler(b)
}

func (b *vfC22MapBroker) Close(ctx context.Context) error {
	if c, ok := b.inner.(Closer); ok {
		return c.Close(ctx)
	}
	return nil
}

func (b *vfC22MapBroker) HandlePublication(ch string, pub *Publication, sp StreamPosition, useDelta bool, prevPub *Publication) error {
	if ch == vfC22Ch {
		b.mu.Lock()
		b.log = append(b.log, vfC22Change{Epoch: sp.Epoch, Off: pub.Offset, Key: pub.Key, Removed: pub.Removed, Data: string(pub.Data),
			Score: pub.Score, Tags: pub.Tags})
		b.mu.Unlock()
	}
	return b.h.HandlePublication(ch, pub, sp, useDelta, prevPub)
}
func (b *vfC22MapBroker) HandleJoin(ch string, info *ClientInfo) error  { return b.h.HandleJoin(ch, info) }
func (b *vfC22MapBroker) HandleLeave(ch string, info *ClientInfo) error { return b.h.HandleLeave(ch, info) }

func (b *vfC22MapBroker) Subscribe(chs ...string) error {
	b.mu.Lock()
	b.nSub++
	b.mu.Unlock()
	b.gates.Pass("c22:sub_before")
	return b.inner.Subscribe(chs...)
}
func (b *vfC22MapBroker) Unsubscribe(chs ...string) error { return b.inner.Unsubscribe(chs...) }
func (b *vfC22MapBroker) Publish(ctx context.Context, ch string, key string, opts MapPublishOptions) (MapUpdateResult, error) {
	return b.inner.Publish(ctx, ch, key, opts)
}
func (b *vfC22MapBroker) Remove(ctx context.Context, ch string, key string, opts MapRemoveOptions) (MapUpdateResult, error) {
	return b.inner.Remove(ctx, ch, key, opts)
}
func (b *vfC22MapBroker) ReadStream(ctx context.Context, ch string, opts MapReadStreamOptions) (MapStreamResult, error) {
	r, err := b.inner.ReadStream(ctx, ch, opts)
	if err == nil && opts.Filter.Since != nil && !opts.Filter.Reverse && opts.Filter.Limit != 0 {
		b.mu.Lock()
		if len(r.Publications) > 0 && opts.Filter.Since.Offset == 0 && r.Publications[0].Offset > 1 {
			b.sinceZeroTrim = true
		}
		if len(r.Publications) == 0 && r.Position.Offset > opts.Filter.Since.Offset {
			b.emptyGap = true
		}
		b.mu.Unlock()
	}
	if opts.Filter.Limit == 0 {
		b.gates.Pass("c22:pos_after")
	} else {
		b.gates.Pass("c22:stream_after")
	}
	return r, err
}
func (b *vfC22MapBroker) ReadState(ctx context.Context, ch string, opts MapReadStateOptions) (MapStateResult, error) {
	r, err := b.inner.ReadState(ctx, ch, opts)
	b.gates.Pass("c22:state_after")
	return r, err
}
func (b *vfC22MapBroker) Stats(ctx context.Context, ch string) (MapStats, error) { return b.inner.Stats(ctx, ch) }
func (b *vfC22MapBroker) Clear(ctx context.Context, ch string, opts MapClearOptions) error {
	return b.inner.Clear(ctx, ch, opts)
}

func (b *vfC22MapBroker) logLen() int {
	b.mu.Lock()
	defer b.mu.Unlock()
	return len(b.log)
}

func (b *vfC22MapBroker) logCopy() []vfC22Change {
	b.mu.Lock()
	defer b.mu.Unlock()
	return append([]vfC22Change(nil), b.log...)
}

func (b *vfC22MapBroker) gapFlags() (bool, bool) {
	b.mu.Lock()
	defer b.mu.Unlock()
	return b.sinceZeroTrim, b.emptyGap
}

func (b *vfC22MapBroker) resetGapFlags() {
	b.mu.Lock()
	b.sinceZeroTrim, b.emptyGap = false, false
	b.mu.Unlock()
}

// ---------------------------------------------------------------------------------------------------
// protocol-following client model

type vfC22Entry struct {
	Data  string
	Score int64
}

type vfC22Req struct {
	id     uint32
	req    *protocol.SubscribeRequest
	gate   string
	parked bool
	logAt  int // length of the broker delivery log when the request was sent
}

type vfC22Out struct {
	labels     []string
	nontrivial bool
	known      []string
	knownEx    string
}

func (o *vfC22Out) label(l string) { o.labels = append(o.labels, l) }

type vfC22Client struct {
	w   *vfWorld
	cs  *vfC22Case
	mb  *vfC22MapBroker
	out *vfC22Out

	conn     *vfConn
	nConn    int
	connDead bool
	fidx     int

	phase   string // idle, state, stream, live
	model   map[string]vfC22Entry
	cursor  string
	hsOff   uint64
	hsEpoch string
	hsReply bool // at least one reply of the current handshake was received

	pos         uint64
	posEpoch    string
	havePos     bool
	wantRecover bool
	inRecovery  bool
	recSince    uint64
	recEpoch    string
	recPubs     []*protocol.Publication

	pending       *vfC22Req
	scratchStarts int
	gaveUp        bool
	stuck         bool
	everLive      bool
	// epochMixed: while the request that went live was in flight (parked inside the transition), deliveries of another
	// epoch than the reply's were broadcast (clear / metadata expiry followed by publishes inside the window).
	epochMixed bool
	noProgress int
	livelock   string
	lastTold   string
	viol       string
	trace         []string
	isKnown       func(string) bool
}

func (c *vfC22Client) tr(format string, a ...any) {
	c.trace = append(c.trace, fmt.Sprintf("[%s] ", time.Since(c.w.start))+fmt.Sprintf(format, a...))
}

func (c *vfC22Client) violate(format string, a ...any) {
	if c.viol == "" {
		c.viol = fmt.Sprintf(format, a...)
	}
}

func (c *vfC22Client) streamMode() bool { return c.cs.Mode != 2 }

func vfC22RenderPub(p *protocol.Publication) string {
	if p.Removed {
		return fmt.Sprintf("%d:-%s", p.Offset, p.Key)
	}
	return fmt.Sprintf("%d:%s=%s/s%d", p.Offset, p.Key, strings.TrimSuffix(strings.TrimPrefix(string(p.Data), `{"n":`), "}"), p.Score)
}

func vfC22RenderPubs(ps []*protocol.Publication) string {
	parts := make([]string, len(ps))
	for i, p := range ps {
		parts[i] = vfC22RenderPub(p)
	}
	return "[" + strings.Join(parts, " ") + "]"
}

func vfC22RenderReq(r *protocol.SubscribeRequest) string {
	s := fmt.Sprintf("subscribe{phase=%d", r.Phase)
	if r.Cursor != "" {
		s += fmt.Sprintf(" cursor=%q", r.Cursor)
	}
	if r.Offset != 0 || r.Epoch != "" {
		s += fmt.Sprintf(" offset=%d epoch=%s", r.Offset, r.Epoch)
	}
	if r.Recover {
		s += " recover"
	}
	return s + fmt.Sprintf(" limit=%d}", r.Limit)
}

func (c *vfC22Client) connect() {
	c.nConn++
	c.conn = c.w.NewConn(vfConnCfg{Name: fmt.Sprintf("s%d", c.nConn), User: "u", Proto: c.cs.Proto})
	c.connDead = false
	c.fidx = 0
	c.conn.Connect(nil)
	vfSettle()
	c.tr("connected as %s", c.conn.Name)
}

func (c *vfC22Client) apply(p *protocol.Publication) {
	if p.Removed {
		delete(c.model, p.Key)
		return
	}
	c.model[p.Key] = vfC22Entry{Data: string(p.Data), Score: p.Score}
}

// lostSession: the subscription ended (unsubscribe push, error, connection loss).
func (c *vfC22Client) lostSession(canRecover bool) {
	wasLive := c.phase == "live"
	midRecovery := c.inRecovery
	c.phase = "idle"
	c.pending = nil
	c.inRecovery = false
	c.hsReply = false
	c.recPubs = nil
	if canRecover && c.streamMode() && c.havePos && (wasLive || midRecovery || c.wantRecover) {
		c.wantRecover = true
	} else {
		c.wantRecover = false
		c.havePos = false
	}
}

func (c *vfC22Client) base() *protocol.SubscribeRequest {
	return &protocol.SubscribeRequest{Channel: vfC22Ch, Type: int32(SubscriptionTypeMap), Limit: int32(c.cs.Page), Tf: c.cs.ClientTF.Proto(), Asc: c.cs.Asc}
}

func (c *vfC22Client) send(req *protocol.SubscribeRequest, gate string) {
	id := c.conn.NextID()
	p := &vfC22Req{id: id, req: req, gate: gate, logAt: c.mb.logLen()}
	c.pending = p
	c.tr("-> #%d %s", id, vfC22RenderReq(req))
	if gate != "" {
		c.w.Gates.Arm(gate, 1)
	}
	conn := c.conn
	go func() { conn.Cmd(&protocol.Command{Id: id, Subscribe: req}) }()
	vfSettle()
	if gate != "" {
		if c.w.Gates.Waiting(gate) > 0 {
			p.parked = true
			c.tr("   request parked at %s", gate)
			c.out.label("parked:" + strings.TrimPrefix(gate, "c22:"))
			return
		}
		c.w.Gates.Disarm(gate)
	}
	c.pump()
}

func (c *vfC22Client) parked() bool { return c.pending != nil && c.pending.parked }

func (c *vfC22Client) release() {
	if c.parked() {
		c.tr("   release %s", c.pending.gate)
		c.w.Gates.Release(c.pending.gate)
		c.pending.parked = false
		vfSettle()
		c.pump()
	}
}

// step performs the client's next protocol action (at most one request).
func (c *vfC22Client) step(gate string) {
	c.release()
	c.pump()
	if c.gaveUp || c.stuck || c.viol != "" || c.livelock != "" {
		return
	}
	if c.conn == nil || c.connDead {
		c.connect()
	}
	if !c.streamMode() {
		gate = ""
	}
	if gate == "c22:sub_before" && c.mb.nSub > 0 {
		// A dissolver job of an earlier unsubscription may wake up and wait for the subscription lock (a mutex)
		// which a request parked inside MapBroker.Subscribe holds: only the first broker subscribe is gated.
		gate = ""
	}
	switch c.phase {
	case "live":
		return
	case "idle":
		if c.wantRecover && c.havePos {
			c.wantRecover = false
			c.inRecovery = true
			c.recSince, c.recEpoch, c.recPubs = c.pos, c.posEpoch, nil
			c.out.label("recovery_attempt")
			r := c.base()
			r.Recover, r.Offset, r.Epoch = true, c.pos, c.posEpoch
			if c.cs.RecoverVia == 1 {
				r.Phase = MapPhaseStream
			} else {
				r.Phase = MapPhaseLive
			}
			c.hsOff, c.hsEpoch = c.pos, c.posEpoch
			c.send(r, gate)
			return
		}
		c.scratchStarts++
		if c.scratchStarts > 8 {
			c.gaveUp = true
			c.tr("client gave up after %d fresh starts", c.scratchStarts-1)
			return
		}
		c.model = map[string]vfC22Entry{}
		c.havePos, c.wantRecover, c.inRecovery = false, false, false
		c.cursor, c.hsOff, c.hsEpoch, c.hsReply = "", 0, "", false
		c.mb.resetGapFlags()
		c.epochMixed = false
		r := c.base()
		r.Phase = MapPhaseState
		c.phase = "state"
		c.send(r, gate)
	case "state":
		r := c.base()
		r.Offset, r.Epoch = c.hsOff, c.hsEpoch
		if c.cursor != "" {
			r.Phase, r.Cursor = MapPhaseState, c.cursor
		} else {
			r.Phase = MapPhaseStream
		}
		c.send(r, gate)
	case "stream":
		r := c.base()
		r.Phase, r.Offset, r.Epoch, r.Recover = MapPhaseStream, c.hsOff, c.hsEpoch, c.inRecovery
		c.send(r, gate)
	}
}

func (c *vfC22Client) handleResult(p *vfC22Req, res *protocol.SubscribeResult) {
	c.hsReply = true
	switch res.Phase {
	case MapPhaseState:
		c.tr("<- #%d state page %s cursor=%q offset=%d epoch=%s", p.id, vfC22RenderPubs(res.State), res.Cursor, res.Offset, res.Epoch)
		if len(res.Publications) > 0 {
			c.violate("state page reply carries %d stream publications", len(res.Publications))
		}
		for _, e := range res.State {
			c.apply(e)
		}
		c.cursor, c.hsOff, c.hsEpoch = res.Cursor, res.Offset, res.Epoch
		c.phase = "state"
		if res.Cursor != "" {
			c.out.label("multi_page_state")
		}
	case MapPhaseStream:
		c.tr("<- #%d stream page %s offset=%d epoch=%s", p.id, vfC22RenderPubs(res.Publications), res.Offset, res.Epoch)
		if p.req.Phase == MapPhaseStream && len(res.Publications) == 0 && res.Offset == p.req.Offset {
			// Nothing delivered and the offset to continue from did not move: the client has to send the same request
			// again. (A page emptied by the tags filters still moves the offset.)
			c.noProgress++
			if c.noProgress >= 3 {
				c.livelock = fmt.Sprintf("stream pagination makes no progress: %d consecutive stream-phase replies with no publications and unchanged offset %d (epoch %s); the client can only repeat the request (until the catch-up timeout disconnects it, after which a rejoin from the same position loops again) and is never told that its position is unrecoverable",
					c.noProgress, res.Offset, res.Epoch)
			}
		} else {
			c.noProgress = 0
		}
		for _, e := range res.Publications {
			c.apply(e)
		}
		c.hsOff, c.hsEpoch = res.Offset, res.Epoch
		if c.inRecovery {
			c.recPubs = append(c.recPubs, res.Publications...)
		}
		c.phase = "stream"
		c.out.label("stream_page")
	case MapPhaseLive:
		c.tr("<- #%d LIVE state=%s pubs=%s offset=%d epoch=%s recovered=%v", p.id, vfC22RenderPubs(res.State), vfC22RenderPubs(res.Publications), res.Offset, res.Epoch, res.Recovered)
		for _, e := range res.State {
			c.apply(e)
		}
		for _, e := range res.Publications {
			c.apply(e)
		}
		if c.streamMode() {
			lg := c.mb.logCopy()
			for _, ch := range lg[p.logAt:] {
				if ch.Epoch != res.Epoch {
					c.epochMixed = true
					c.out.label("epoch_reset_inside_live_transition")
					break
				}
			}
		}
		if c.inRecovery {
			c.recPubs = append(c.recPubs, res.Publications...)
			if res.Recovered {
				c.out.label("recovered_true")
				c.checkRecovered(res)
			} else {
				c.out.label("recovery_reply_recovered_false")
			}
		}
		switch {
		case p.req.Phase == MapPhaseState:
			c.out.label("live_via:state")
		case c.inRecovery:
			c.out.label("live_via:recovery_join")
		default:
			c.out.label("live_via:stream")
		}
		c.inRecovery = false
		c.recPubs = nil
		c.pos, c.posEpoch, c.havePos = res.Offset, res.Epoch, true
		c.phase = "live"
		c.everLive = true
	default:
		c.violate("subscribe reply with unknown phase %d", res.Phase)
	}
}

// checkRecovered: a rejoin answered recovered=true must have delivered exactly the admitted changes after the saved
// position up to the reply offset.
func (c *vfC22Client) checkRecovered(res *protocol.SubscribeResult) {
	msg := c.recoveredMismatch(res)
	if msg == "" {
		return
	}
	z, e := c.mb.gapFlags()
	if key := vfC22GapKey(z, e, c.epochMixed); key != "" {
		if c.isKnown(key) {
			c.out.known = append(c.out.known, key)
			c.out.knownEx = msg
			c.out.label("known:" + key)
			return
		}
		msg = "[" + key + "] " + msg
	}
	c.violate("%s", msg)
}

func (c *vfC22Client) recoveredMismatch(res *protocol.SubscribeResult) string {
	if res.Epoch != c.recEpoch {
		return fmt.Sprintf("recovered=true although the reply epoch %q differs from the saved epoch %q", res.Epoch, c.recEpoch)
	}
	if res.Offset < c.recSince {
		return fmt.Sprintf("recovered=true with reply offset %d below the saved offset %d", res.Offset, c.recSince)
	}
	byOff := map[uint64]vfC22Change{}
	for _, ch := range c.mb.logCopy() {
		if ch.Epoch == c.recEpoch {
			byOff[ch.Off] = ch
		}
	}
	var want []vfC22Change
	for o := c.recSince + 1; o <= res.Offset; o++ {
		ch, ok := byOff[o]
		if !ok {
			return fmt.Sprintf("rejoin from (%d,%s) answered recovered=true at offset %d delivering %s, but offset %d of that epoch was never broadcast by the broker (no delivery logged)",
				c.recSince, c.recEpoch, res.Offset, vfC22RenderPubs(c.recPubs), o)
		}
		if c.cs.admits(ch.Tags) {
			want = append(want, ch)
		}
	}
	render := func(w []vfC22Change) string {
		parts := []string{}
		for _, x := range w {
			if x.Removed {
				parts = append(parts, fmt.Sprintf("%d:-%s", x.Off, x.Key))
			} else {
				parts = append(parts, fmt.Sprintf("%d:%s=%s", x.Off, x.Key, x.Data))
			}
		}
		return "[" + strings.Join(parts, " ") + "]"
	}
	bad := len(want) != len(c.recPubs)
	if !bad {
		for i, x := range want {
			g := c.recPubs[i]
			if g.Offset != x.Off || g.Key != x.Key || g.Removed != x.Removed || (!x.Removed && string(g.Data) != x.Data) {
				bad = true
			}
		}
	}
	if bad {
		return fmt.Sprintf("rejoin from (%d,%s) answered recovered=true at offset %d delivered %s, but the admitted changes after the saved position are %s",
			c.recSince, c.recEpoch, res.Offset, vfC22RenderPubs(c.recPubs), render(want))
	}
	return ""
}

func vfC22GapKey(sinceZeroTrim, emptyGap, epochMixed bool) string {
	switch {
	case epochMixed:
		return "C22:epoch-reset-inside-live-transition-merges-two-epochs"
	case emptyGap:
		return "C22:stream-read-returning-nothing-below-top-is-not-unrecoverable"
	case sinceZeroTrim:
		return "C22:stream-trim-undetected-when-since-offset-is-zero"
	}
	return ""
}

// pump consumes new transport frames in order.
func (c *vfC22Client) pump() {
	if c.conn == nil {
		return
	}
	frames := c.conn.Frames()
	for ; c.fidx < len(frames); c.fidx++ {
		f := frames[c.fidx]
		if f.Err != nil {
			c.violate("undecodable frame: %v", f.Err)
			continue
		}
		r := f.Reply
		switch {
		case c.pending != nil && r.Id == c.pending.id && r.Id != 0:
			p := c.pending
			c.pending = nil
			if r.Error != nil {
				c.tr("<- #%d error %d %s", p.id, r.Error.Code, r.Error.Message)
				c.lastTold = fmt.Sprintf("error_%d", r.Error.Code)
				c.out.label("told:" + c.lastTold)
				c.lostSession(false)
			} else if r.Subscribe != nil {
				c.handleResult(p, r.Subscribe)
			} else {
				c.violate("reply #%d is neither an error nor a subscribe result", p.id)
			}
		case r.Push != nil && r.Push.Channel == vfC22Ch && r.Push.Pub != nil:
			pb := r.Push.Pub
			if c.phase != "live" {
				c.tr("<- push %s ignored (not live)", vfC22RenderPub(pb))
				c.out.label("push_while_not_live")
				continue
			}
			c.tr("<- push %s", vfC22RenderPub(pb))
			c.apply(pb)
			if pb.Offset > c.pos {
				c.pos = pb.Offset
			}
			c.out.label("live_push_applied")
		case r.Push != nil && r.Push.Channel == vfC22Ch && r.Push.Unsubscribe != nil:
			code := r.Push.Unsubscribe.Code
			c.tr("<- unsubscribe push code=%d", code)
			c.lastTold = fmt.Sprintf("unsubscribe_%d", code)
			c.out.label("told:" + c.lastTold)
			c.lostSession(code == UnsubscribeCodeInsufficient)
		case r.Push != nil && r.Push.Disconnect != nil:
			c.tr("<- disconnect push code=%d", r.Push.Disconnect.Code)
		}
	}
	if closed, d := c.conn.T.Closed(); closed && !c.connDead {
		c.connDead = true
		c.tr("xx connection closed by server code=%d %s", d.Code, d.Reason)
		c.lastTold = fmt.Sprintf("disconnect_%d", d.Code)
		c.out.label("told:" + c.lastTold)
		c.lostSession(true)
	}
	if c.pending != nil && !c.pending.parked && !c.connDead {
		c.tr("!! request #%d got neither a reply nor a disconnect", c.pending.id)
		c.stuck = true
	}
}

func (c *vfC22Client) drop() {
	if c.conn == nil || c.connDead || c.parked() {
		return
	}
	c.pump()
	if c.connDead {
		return
	}
	c.tr("xx client drops the connection")
	c.out.label("client_dropped_connection")
	c.conn.TransportClose()
	vfSettle()
	c.connDead = true
	c.lostSession(true)
}

// window names where a write lands relative to the client's protocol state.
func (c *vfC22Client) window() string {
	switch {
	case c.parked():
		return "inside:" + strings.TrimPrefix(c.pending.gate, "c22:")
	case c.phase == "live":
		return "live"
	case (c.phase == "state" || c.phase == "stream") && c.hsReply:
		return "between_requests"
	case c.phase == "idle" && c.wantRecover && c.havePos:
		return "while_away"
	}
	return "before"
}

func (c *vfC22Client) paginating() bool {
	return c.parked() || c.phase == "state" || c.phase == "stream" || (c.pending != nil)
}

// ---------------------------------------------------------------------------------------------------

func vfC22Run(t *testing.T, cs vfC22Case, out *vfC22Out, isKnown func(string) bool) string {
	return vfBubble(t, func() string {
		randSource = saferand.New(7)
		chOpts := cs.chOpts()
		cfg := Config{ClientPresenceUpdateInterval: 6 * time.Second, ClientChannelPositionCheckDelay: 4 * time.Second}
		cfg.Map.GetMapChannelOptions = func(string) MapChannelOptions { return chOpts }
		var mb *vfC22MapBroker
		w, err := vfNewWorld(cfg, func(w *vfWorld) {
			mb = &vfC22MapBroker{inner: w.node.mapBroker, gates: w.Gates}
			w.node.SetMapBroker(mb)
		})
		if err != nil {
			return "infra: " + err.Error()
		}
		defer w.Close()
		w.ChanOpts = func(c *vfConn, e SubscribeEvent) (SubscribeReply, error) {
			return SubscribeReply{Options: SubscribeOptions{Type: SubscriptionTypeMap, AllowTagsFilter: true, ServerTagsFilter: cs.ServerTF.Proto()}}, nil
		}
		time.Sleep(500 * time.Millisecond)
		ctx := context.Background()
		cl := &vfC22Client{w: w, cs: &cs, mb: mb, out: out, phase: "idle", model: map[string]vfC22Entry{}, isKnown: isKnown}

		counter := 0
		windows := map[string]int{}
		noteWrite := func(win string) {
			windows[win]++
		}
		write := func(s vfC22Step) string {
			win := cl.window()
			switch s.Kind {
			case vfC22SPublish:
				counter++
				o := MapPublishOptions{Data: []byte(fmt.Sprintf(`{"n":%d}`, counter)), Tags: cs.KeyTags[s.Key]}
				if cs.Ordered {
					o.score = int64(s.Score)
				}
				res, err := w.node.MapPublish(ctx, vfC22Ch, vfC22Keys[s.Key], o)
				if err != nil {
					return "MapPublish failed: " + err.Error()
				}
				cl.tr("W pub %s=%d -> (%d,%s) [%s]", vfC22Keys[s.Key], counter, res.Position.Offset, res.Position.Epoch, win)
				noteWrite(win)
			case vfC22SRemove:
				res, err := w.node.MapRemove(ctx, vfC22Ch, vfC22Keys[s.Key], MapRemoveOptions{})
				if err != nil {
					return "MapRemove failed: " + err.Error()
				}
				if !res.Suppressed {
					cl.tr("W rm %s -> (%d,%s) [%s]", vfC22Keys[s.Key], res.Position.Offset, res.Position.Epoch, win)
					noteWrite(win)
				}
			case vfC22SClear:
				if err := w.node.MapClear(ctx, vfC22Ch, MapClearOptions{}); err != nil {
					return "MapClear failed: " + err.Error()
				}
				cl.tr("W clear [%s]", win)
				out.label("clear:" + win)
				noteWrite(win)
			}
			return ""
		}
		for _, s := range cs.Pre {
			if m := write(s); m != "" {
				return m
			}
		}
		windows = map[string]int{}

		fail := func(msg string) string {
			tr := cl.trace
			if len(tr) > 90 {
				tr = append([]string{"…"}, tr[len(tr)-90:]...)
			}
			return msg + "\ntrace:\n  " + strings.Join(tr, "\n  ")
		}

		for si, s := range cs.Steps {
			if cl.viol != "" {
				break
			}
			switch s.Kind {
			case vfC22SClient:
				cl.step(vfC22GateNames[s.Gate])
			case vfC22SPublish, vfC22SRemove, vfC22SClear:
				if cs.Mode == 2 && cl.paginating() {
					out.label("ephemeral_write_during_pagination_skipped")
					continue
				}
				if cs.Mode == 2 && s.Kind == vfC22SClear && cl.phase == "live" {
					// Streamless channels carry no position: nothing can tell a live subscriber about a clear (see the
					// MapChannelOptions note on ephemeral mode); outside the property's domain.
					out.label("ephemeral_clear_under_live_client_skipped")
					continue
				}
				if m := write(s); m != "" {
					return fail(fmt.Sprintf("step %d: %s", si, m))
				}
				vfSettle()
				cl.pump()
			case vfC22SAdvance:
				if cs.Mode == 2 && cl.paginating() {
					continue
				}
				win := cl.window()
				before := mb.logLen()
				time.Sleep(time.Duration(s.Adv) * time.Second)
				vfSettle()
				if n := mb.logLen() - before; n > 0 {
					cl.tr("T +%ds: %d expiry removals [%s]", s.Adv, n, win)
					out.label("key_expiry:" + win)
					noteWrite(win)
				} else {
					cl.tr("T +%ds", s.Adv)
				}
				cl.pump()
			case vfC22SRelease:
				cl.release()
			case vfC22SDrop:
				cl.drop()
			}
		}

		// ---- traffic stops: let the client finish its handshake, then settle ---------------------------------
		cl.tr("-- traffic stopped")
		for round := 0; round < 3 && cl.viol == ""; round++ {
			for i := 0; i < 60 && cl.viol == "" && !cl.gaveUp && !cl.stuck && cl.livelock == ""; i++ {
				cl.release()
				cl.pump()
				if cl.phase == "live" {
					break
				}
				cl.step("")
			}
			time.Sleep(1500 * time.Millisecond)
			vfSettle()
			cl.pump()
			if cl.phase == "live" || cl.gaveUp || cl.stuck || cl.livelock != "" {
				break
			}
		}
		if cl.viol != "" {
			return fail(cl.viol)
		}

		// ---- labels ----------------------------------------------------------------------------------------------
		out.label("mode:" + cs.modeName())
		if cs.Ordered {
			out.label("ordered")
		}
		if cs.ServerTF != nil || cs.ClientTF != nil {
			out.label("filtered")
		}
		for win, n := range windows {
			if n > 0 {
				out.label("write:" + win)
			}
			if strings.HasPrefix(win, "inside:") || win == "between_requests" || win == "while_away" {
				out.nontrivial = true
			}
		}
		label := func(outcome string) {
			out.label("outcome:" + outcome)
			if out.nontrivial {
				out.label("nontrivial_outcome:" + outcome)
			}
		}
		if cl.stuck {
			label("stuck")
			return fail("the client's request got neither a reply nor a disconnect: it can never reach the live phase and was not told anything")
		}
		if cl.livelock != "" && cl.phase != "live" {
			msg := cl.livelock
			z, e := mb.gapFlags()
			if key := vfC22GapKey(z, e, cl.epochMixed); key != "" {
				if isKnown(key) {
					out.known = append(out.known, key)
					out.knownEx = msg
					label("known_finding_livelock")
					return ""
				}
				msg = "[" + key + "] " + msg
			}
			return fail(msg)
		}
		if cl.phase != "live" {
			if cl.gaveUp {
				label("refused_gave_up_last_told:" + cl.lastTold)
			} else {
				label("refused_last_told:" + cl.lastTold)
			}
			if os.Getenv("VF_C22_FAIL_REFUSED") != "" {
				return fail("DEBUG: client not live at the end")
			}
			return ""
		}

		// ---- oracle for a live client -----------------------------------------------------------------------------
		type brokerView struct {
			state map[string]vfC22Entry
			top   StreamPosition
		}
		read := func() (brokerView, string) {
			v := brokerView{state: map[string]vfC22Entry{}}
			st, err := w.node.MapStateRead(ctx, vfC22Ch, MapReadStateOptions{Limit: -1})
			if err != nil {
				return v, "oracle MapStateRead failed: " + err.Error()
			}
			if st.Cursor != "" {
				return v, "oracle MapStateRead(limit -1) returned a cursor"
			}
			for _, p := range st.Publications {
				if cs.admits(p.Tags) {
					v.state[p.Key] = vfC22Entry{Data: string(p.Data), Score: p.Score}
				}
			}
			sr, err := w.node.MapStreamRead(ctx, vfC22Ch, MapReadStreamOptions{Filter: StreamFilter{Limit: 0}})
			if err != nil {
				return v, "oracle MapStreamRead failed: " + err.Error()
			}
			v.top = sr.Position
			return v, ""
		}
		renderState := func(m map[string]vfC22Entry) string {
			keys := make([]string, 0, len(m))
			for k := range m {
				keys = append(keys, k)
			}
			sort.Strings(keys)
			parts := []string{}
			for _, k := range keys {
				e := m[k]
				if cs.Ordered {
					parts = append(parts, fmt.Sprintf("%s=%s/s%d", k, e.Data, e.Score))
				} else {
					parts = append(parts, fmt.Sprintf("%s=%s", k, e.Data))
				}
			}
			return "{" + strings.Join(parts, " ") + "}"
		}
		diff := func(v brokerView) string {
			for k, be := range v.state {
				ce, ok := cl.model[k]
				if !ok {
					return fmt.Sprintf("key %q is in the broker state (%s) but the client does not hold it", k, be.Data)
				}
				if ce.Data != be.Data {
					return fmt.Sprintf("key %q: client holds %s, broker state holds %s", k, ce.Data, be.Data)
				}
				if cs.Ordered && ce.Score != be.Score {
					return fmt.Sprintf("key %q: client holds score %d, broker state holds score %d", k, ce.Score, be.Score)
				}
			}
			for k, ce := range cl.model {
				if _, ok := v.state[k]; !ok {
					return fmt.Sprintf("client holds key %q (%s) which is not in the broker state", k, ce.Data)
				}
			}
			return ""
		}
		v, m := read()
		if m != "" {
			return fail(m)
		}
		d := diff(v)
		posMsg := ""
		if cs.Mode != 2 && cl.posEpoch == v.top.Epoch {
			if cl.pos > v.top.Offset {
				posMsg = fmt.Sprintf("client position %d is beyond the stream top %d", cl.pos, v.top.Offset)
			} else {
				for _, ch := range mb.logCopy() {
					if ch.Epoch == v.top.Epoch && ch.Off > cl.pos && cs.admits(ch.Tags) {
						posMsg = fmt.Sprintf("admitted change at offset %d (key %s) lies beyond the live client's position %d and was not delivered", ch.Off, ch.Key, cl.pos)
						break
					}
				}
			}
		}
		describe := func(v brokerView) string {
			return fmt.Sprintf("client model %s position (%d,%s); broker state (admitted keys) %s stream top (%d,%s)",
				renderState(cl.model), cl.pos, cl.posEpoch, renderState(v.state), v.top.Offset, v.top.Epoch)
		}
		if cs.Mode != 2 && cl.posEpoch != v.top.Epoch {
			// The channel was reset (clear / metadata expiry) without a publication that could tell the live client.
			out.label("epoch_reset_unnoticed_at_settle")
			if d == "" {
				label("converged_epoch_reset_state_equal")
				return ""
			}
			for i := 0; i < 12 && cl.phase == "live"; i++ {
				time.Sleep(5 * time.Second)
				vfSettle()
				cl.pump()
			}
			if cl.viol != "" {
				return fail(cl.viol)
			}
			if cl.phase != "live" {
				label("refused_after_epoch_reset_position_check")
				return ""
			}
			v2, m := read()
			if m != "" {
				return fail(m)
			}
			if d2 := diff(v2); d2 != "" {
				return fail("the channel epoch changed under a live client and 60 s later it still was not told and holds a different state: " + d2 + "; " + describe(v2))
			}
			label("converged_epoch_reset_state_equal")
			return ""
		}
		if d != "" || posMsg != "" {
			msg := d
			if msg == "" {
				msg = posMsg
			}
			msg = "live client did not converge: " + msg + "; " + describe(v)
			z, e := mb.gapFlags()
			if key := vfC22GapKey(z, e, cl.epochMixed); key != "" {
				if isKnown(key) {
					out.known = append(out.known, key)
					out.knownEx = msg
					label("known_finding")
					return ""
				}
				msg = "[" + key + "] " + msg
			}
			return fail(msg)
		}
		label("converged")
		return ""
	})
}

func TestVF_C22(t *testing.T) {
	vfCheck(t, "C22", func(rt *rapid.T, c *vfCase) string {
		cs := vfC22Gen(rt)
		if pr := os.Getenv("VF_C22_PROBE"); pr != "" {
			cs = vfC22Probe(pr)
		}
		c.Describe(cs.String())
		out := &vfC22Out{}
		msg := vfC22Run(t, cs, out, c.IsKnown)
		seen := map[string]bool{}
		for _, l := range out.labels {
			if !seen[l] {
				seen[l] = true
				c.Label(l)
			}
		}
		for _, k := range out.known {
			c.Known(k, out.knownEx)
		}
		if out.nontrivial {
			c.Nontrivial(c.desc)
		}
		return msg
	})
}

func vfC22Probe(name string) vfC22Case {
	P := func(k int) vfC22Step { return vfC22Step{Kind: vfC22SPublish, Key: k} }
	C := func(g int) vfC22Step { return vfC22Step{Kind: vfC22SClient, Gate: g} }
	A := func(n int) vfC22Step { return vfC22Step{Kind: vfC22SAdvance, Adv: n} }
	D := vfC22Step{Kind: vfC22SDrop}
	c := vfC22Case{Mode: 1, Proto: ProtocolTypeJSON, Page: 5, StreamSize: 2, StreamTTL: 2, CatchUp: -1, KeyTags: make([]map[string]string, len(vfC22Keys))}
	switch name {
	case "expiry":
		c.Pre = []vfC22Step{P(0), P(1)}
		c.Steps = []vfC22Step{C(0), D, P(2), A(6), C(0)}
	case "zero":
		c.Steps = []vfC22Step{C(0), D, P(0), P(1), P(2), P(3), C(0)}
	case "zero2":
		c.Page = 1
		c.Steps = []vfC22Step{C(1), P(0), P(1), P(2), P(3), C(0), C(0), C(0), C(0), C(0), C(0)}
	}
	return c
}
