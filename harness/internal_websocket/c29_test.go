package PKGNAME

// C29 — WebSocket frame reader conforms to RFC 6455 and RFC 7692.
//
// A Conn (newConn, both roles, with and without permessage-deflate as negotiated by this library) reads a generated
// byte stream from an in-memory net.Conn double that serves the bytes in drawn chunk sizes and records everything the
// Conn writes back. The sequence of ReadMessage / NextReader results and the written control frames are compared with
// the independent reference decoder of ref_decoder_test.go.
//
// What is asserted (only RFC MUSTs plus the property statement):
//   * data messages returned == messages of the reference decoder (type, bytes), in order;
//   * a protocol violation (RFC MUST broken by the peer) => error + close frame 1002 written (1007 also accepted for
//     invalid UTF-8 in a close reason); stream cut inside the violating frame => plain read error is accepted too;
//   * wire read limit exceeded / decompressed limit exceeded => error + close frame 1009;
//   * valid close frame => *CloseError with code and reason, a close frame is written in response, CloseCode() reports it;
//   * every ping seen before the terminal condition is answered by a pong with identical payload (RFC 6455 5.5.3 allows
//     skipping all but the latest ping, so: pongs form a subsequence of the pings and the latest ping is answered);
//   * everything the Conn writes is a well-formed control frame for its role;
//   * once NextReader failed every later read fails; no panic.
// Deliberately NOT asserted (left to the application / SHOULD / not required from a receiver): UTF-8 validity of
// text messages, rejection of non-minimal length encodings (accepted or rejected with 1002 are both fine), a close
// frame after corrupt deflate data, close codes 1012-1014 and >=5000 (either accepted or rejected).

import (
	"bufio"
	"bytes"
	"encoding/hex"
	"encoding/json"
	"errors"
	"fmt"
	"io"
	"net"
	"net/http"
	"net/url"
	"os"
	"strings"
	"testing"
	"time"

	"pgregory.net/rapid"
)

// ---------------------------------------------------------------------------------------------------------------
// net.Conn double

type vfC29Addr struct{}

func (vfC29Addr) Network() string { return "vf" }
func (vfC29Addr) String() string  { return "vf" }

type vfC29Pipe struct {
	in     []byte
	pos    int
	chunks []int
	ci     int
	out    []byte
}

func (p *vfC29Pipe) Read(b []byte) (int, error) {
	if p.pos >= len(p.in) {
		return 0, io.EOF
	}
	if len(b) == 0 {
		return 0, nil
	}
	n := len(b)
	if len(p.chunks) > 0 {
		c := p.chunks[p.ci%len(p.chunks)]
		p.ci++
		if c >= 1 && c < n {
			n = c
		}
	}
	if n > len(p.in)-p.pos {
		n = len(p.in) - p.pos
	}
	copy(b, p.in[p.pos:p.pos+n])
	p.pos += n
	return n, nil
}
func (p *vfC29Pipe) Write(b []byte) (int, error)        { p.out = append(p.out, b...); return len(b), nil }
func (p *vfC29Pipe) Close() error                       { return nil }
func (p *vfC29Pipe) LocalAddr() net.Addr                { return vfC29Addr{} }
func (p *vfC29Pipe) RemoteAddr() net.Addr               { return vfC29Addr{} }
func (p *vfC29Pipe) SetDeadline(t time.Time) error      { return nil }
func (p *vfC29Pipe) SetReadDeadline(t time.Time) error  { return nil }
func (p *vfC29Pipe) SetWriteDeadline(t time.Time) error { return nil }

// vfC29H2RW: a flushable, non-hijackable ResponseWriter (what an HTTP/2 server hands to a handler); body bytes are
// recorded in the pipe double.
type vfC29H2RW struct {
	hdr  http.Header
	code int
	pipe *vfC29Pipe
}

func (w *vfC29H2RW) Header() http.Header                { return w.hdr }
func (w *vfC29H2RW) Write(b []byte) (int, error)        { return w.pipe.Write(b) }
func (w *vfC29H2RW) WriteHeader(code int)               { w.code = code }
func (w *vfC29H2RW) Flush()                             {}
func (w *vfC29H2RW) SetReadDeadline(t time.Time) error  { return nil }
func (w *vfC29H2RW) SetWriteDeadline(t time.Time) error { return nil }

// ---------------------------------------------------------------------------------------------------------------
// case

type vfC29Cfg struct {
	Server      bool
	Deflate     bool
	ReadLimit   int64
	DecompLimit int64
	ReadBuf     int   // readBufferSize given to newConn
	SmallBr     bool  // server role only: obtain the Conn through Upgrader.Upgrade on an HTTP/2 extended CONNECT request (own small bufio.Reader)
	Chunks      []int // net.Conn Read chunk sizes (cycled); empty = as much as asked
	Modes       []int // per read: 0 ReadMessage, 1 NextReader + chunked reads to EOF, 2 NextReader + a few reads then abandon
	ReadChunks  []int // buffer sizes for NextReader reads (cycled)
	Abandon     int   // number of reads before abandoning in mode 2
}

func (c vfC29Cfg) String() string {
	role := "client"
	if c.Server {
		role = "server"
	}
	return fmt.Sprintf("role=%s deflate=%v readLimit=%d decompLimit=%d readBuf=%d viaH2=%v chunks=%v modes=%v rchunks=%v abandon=%d",
		role, c.Deflate, c.ReadLimit, c.DecompLimit, c.ReadBuf, c.SmallBr, c.Chunks, c.Modes, c.ReadChunks, c.Abandon)
}

type vfC29Outcome struct {
	Type     int
	Data     []byte
	Complete bool
	Err      error
	FromNext bool // the error came from NextReader itself
}

type vfC29Run struct {
	Outcomes      []vfC29Outcome
	W             []byte // bytes written by the Conn up to and including the first error
	CloseCode     int
	CloseIncoming bool
	Later         []error
	LaterGotMsg   bool
	Panic         string
	Stuck         bool
}

func vfC29Exec(cfg vfC29Cfg, stream []byte, maxReads int) (run vfC29Run) {
	defer func() {
		if r := recover(); r != nil {
			run.Panic = fmt.Sprint(r)
		}
	}()
	pipe := &vfC29Pipe{in: stream, chunks: cfg.Chunks}
	var c *Conn
	if cfg.SmallBr && cfg.Server {
		// the Conn the library itself builds for an HTTP/2 extended CONNECT (RFC 8441) request: reads come from the
		// request body, writes go through the ResponseWriter
		req := &http.Request{Method: http.MethodConnect, URL: &url.URL{Path: "/"}, Proto: "HTTP/2.0", ProtoMajor: 2, Host: "example.com",
			Header: http.Header{":protocol": {"websocket"}, "Sec-Websocket-Version": {"13"}}, Body: io.NopCloser(pipe)}
		if cfg.Deflate {
			req.Header["Sec-Websocket-Extensions"] = []string{"permessage-deflate"}
		}
		up := Upgrader{EnableCompression: cfg.Deflate, ReadBufferSize: cfg.ReadBuf}
		var err error
		c, _, err = up.Upgrade(&vfC29H2RW{hdr: http.Header{}, pipe: pipe}, req, nil)
		if err != nil || c.IsCompressionNegotiated() != cfg.Deflate {
			panic(fmt.Sprintf("harness: extended CONNECT upgrade failed: %v", err))
		}
	} else {
		c = newConn(pipe, cfg.Server, cfg.ReadBuf, 0, nil, nil, nil)
		if cfg.Deflate {
			c.newCompressionWriter = compressNoContextTakeover
			c.newDecompressionReader = decompressNoContextTakeover
		}
	}
	c.SetReadLimit(cfg.ReadLimit)
	c.SetDecompressedReadLimit(cfg.DecompLimit)
	rc := 0
	failed := false
	for k := 0; k < maxReads && !failed; k++ {
		mode := 0
		if len(cfg.Modes) > 0 {
			mode = cfg.Modes[k%len(cfg.Modes)]
		}
		var o vfC29Outcome
		if mode == 0 {
			t, p, err := c.ReadMessage()
			o = vfC29Outcome{Type: t, Data: p, Complete: err == nil, Err: err}
		} else {
			t, r, err := c.NextReader()
			o.Type = t
			if err != nil {
				o.Err, o.FromNext = err, true
			} else {
				reads := 0
				for iter := 0; ; iter++ {
					if iter > 4_000_000 {
						run.Stuck = true
						return
					}
					if mode == 2 && reads >= cfg.Abandon {
						break
					}
					sz := 512
					if len(cfg.ReadChunks) > 0 {
						sz = cfg.ReadChunks[rc%len(cfg.ReadChunks)]
						rc++
					}
					buf := make([]byte, sz)
					n, err := r.Read(buf)
					o.Data = append(o.Data, buf[:n]...)
					reads++
					if err == io.EOF {
						o.Complete = true
						break
					}
					if err != nil {
						o.Err = err
						break
					}
				}
			}
		}
		run.Outcomes = append(run.Outcomes, o)
		if o.Err != nil {
			failed = true
		}
	}
	run.W = append([]byte{}, pipe.out...)
	run.CloseCode, run.CloseIncoming = c.CloseCode()
	for i := 0; i < 2; i++ {
		_, _, err := c.ReadMessage()
		run.Later = append(run.Later, err)
		if err == nil {
			run.LaterGotMsg = true
		}
	}
	return run
}

// ---------------------------------------------------------------------------------------------------------------
// judge

const (
	vfC29KeyClose1    = "C29:close-1-byte-payload-accepted"
	vfC29KeyRsv1      = "C29:rsv1-on-control-or-continuation-accepted"
	vfC29KeyLenMSB    = "C29:length-msb-set-no-close-frame"
	vfC29KeySmallBr   = "C29:h2-16-byte-bufio-control-frame"
	vfC29KeyLimitSkip = "C29:read-limit-accounted-per-NextReader-call"
)

type vfC29Verdict struct {
	Msg  string // "" = property held
	Key  string // known-finding key this failure is attributable to ("" = none)
	Note []string
}

func vfC29Hex(b []byte) string {
	if len(b) > 160 {
		return hex.EncodeToString(b[:160]) + fmt.Sprintf("…(%d bytes)", len(b))
	}
	return hex.EncodeToString(b)
}

func vfC29PongsOK(pings [][]byte, lo, hi int, pongs [][]byte) bool {
	if hi > len(pings) {
		hi = len(pings)
	}
	sub := func(ps, qs [][]byte) bool { // qs subsequence of ps
		j := 0
		for _, p := range ps {
			if j < len(qs) && bytes.Equal(p, qs[j]) {
				j++
			}
		}
		return j == len(qs)
	}
	for k := lo; k <= hi; k++ {
		if k == 0 {
			if len(pongs) == 0 {
				return true
			}
			continue
		}
		if len(pongs) == 0 {
			continue
		}
		if bytes.Equal(pongs[len(pongs)-1], pings[k-1]) && sub(pings[:k-1], pongs[:len(pongs)-1]) {
			return true
		}
	}
	return false
}

// vfC29Judge compares a run with the reference result.
func vfC29Judge(cfg vfC29Cfg, stream []byte, ref *vfWSRefResult, strict *vfWSRefResult, run vfC29Run) vfC29Verdict {
	if run.Panic != "" {
		return vfC29Verdict{Msg: "PANIC in reader: " + run.Panic}
	}
	if run.Stuck {
		return vfC29Verdict{Msg: "reader made no progress (Read kept returning without EOF/error)"}
	}
	v := vfC29JudgeOne(cfg, ref, run)
	if v.Msg != "" && strict != nil {
		// a receiver may also reject non-minimal length encodings
		if v2 := vfC29JudgeOne(cfg, strict, run); v2.Msg == "" {
			v2.Note = append(v2.Note, "non-minimal-rejected")
			return v2
		}
	}
	if v.Msg != "" {
		v.Msg += fmt.Sprintf(" | ref terminal=%s%v at offset %d frame %d | stream=%s", ref.Term.Kind, ref.Term.Viol, ref.Term.Offset,
			ref.Term.FrameIdx, vfC29Hex(stream))
	}
	return v
}

func vfC29JudgeOne(cfg vfC29Cfg, ref *vfWSRefResult, run vfC29Run) vfC29Verdict {
	msgs := ref.Messages()
	pings := ref.Pings()
	T := ref.Term
	var notes []string

	// which known deviation could explain a failure at/after the reference terminal
	termKey := ""
	if T.Kind == vfWSRefViolation && len(T.Viol) == 1 {
		switch T.Viol[0] {
		case vfWSRefVClose1:
			termKey = vfC29KeyClose1
		case vfWSRefVRsv1Misplac:
			termKey = vfC29KeyRsv1
		case vfWSRefVLenMSB:
			termKey = vfC29KeyLenMSB
		}
	}
	fail := func(atTerminal bool, format string, a ...any) vfC29Verdict {
		v := vfC29Verdict{Msg: fmt.Sprintf(format, a...), Note: notes}
		if atTerminal {
			v.Key = termKey
		}
		return v
	}

	// what the Conn wrote
	wres := vfWSRefDecode(vfWSRefConfig{ServerRole: !cfg.Server, Deflate: false, StrictLen: true}, run.W)
	if wres.Term.Kind != vfWSRefEOF && wres.Term.Kind != vfWSRefClose {
		return fail(false, "bytes written by the Conn are not valid frames for its role: %s %v (written=%s)", wres.Term.Kind, wres.Term.Viol, vfC29Hex(run.W))
	}
	var pongs [][]byte
	var closeFrame *vfWSRefFrame
	for i := range wres.Frames {
		f := wres.Frames[i]
		switch f.Opcode {
		case 10:
			pongs = append(pongs, f.Payload)
		case 8:
			closeFrame = &wres.Frames[i]
		default:
			return fail(false, "Conn wrote an unexpected frame with opcode %d while only reading", f.Opcode)
		}
	}
	if wres.Term.Kind == vfWSRefClose {
		last := wres.Frames[len(wres.Frames)-1]
		if last.Offset+2+int(last.PayloadLen)+map[bool]int{true: 4, false: 0}[last.Masked] != len(run.W) {
			return fail(false, "Conn wrote bytes after its close frame (written=%s)", vfC29Hex(run.W))
		}
	}
	closeCodeW := -1 // -1 none, 0 empty payload
	if closeFrame != nil {
		closeCodeW = 0
		if len(closeFrame.Payload) >= 2 {
			closeCodeW = int(closeFrame.Payload[0])<<8 | int(closeFrame.Payload[1])
		}
	}

	// lock-step walk over the read outcomes
	i := 0
	var final *vfC29Outcome
	for k := range run.Outcomes {
		o := &run.Outcomes[k]
		if o.Err != nil {
			final = o
			break
		}
		atTerm := i >= len(msgs) || (msgs[i].Partial && msgs[i].Status != vfWSRefMsgOK)
		if i >= len(msgs) {
			return fail(atTerm, "read #%d returned a message (type %d, %d bytes) but the reference decoder finds only %d message(s) before %s%v",
				k, o.Type, len(o.Data), len(msgs), T.Kind, T.Viol)
		}
		m := msgs[i]
		if o.Type != m.Opcode {
			return fail(atTerm, "read #%d: message type %d, reference says %d", k, o.Type, m.Opcode)
		}
		if o.Complete {
			if m.Status != vfWSRefMsgOK {
				return fail(atTerm, "read #%d returned a complete message (%d bytes) but the reference status of message %d is %s (partial=%v)", k, len(o.Data), i, m.Status, m.Partial)
			}
			if !bytes.Equal(o.Data, m.Payload) {
				return fail(atTerm, "read #%d: payload differs from reference message %d (got %d bytes %s, want %d bytes %s)", k, i, len(o.Data), vfC29Hex(o.Data), len(m.Payload), vfC29Hex(m.Payload))
			}
		} else {
			// abandoned after some successful reads: must be a prefix of what can be decoded
			if !bytes.HasPrefix(m.Payload, o.Data) {
				return fail(atTerm, "read #%d: partially read payload is not a prefix of reference message %d (got %s)", k, i, vfC29Hex(o.Data))
			}
		}
		i++
	}
	if final == nil {
		return fail(i >= len(msgs), "no read error after %d reads although the stream ends (reference terminal %s)", len(run.Outcomes), T.Kind)
	}

	// acceptable explanations of the error
	frameLevelOK := i == len(msgs) || (i == len(msgs)-1 && msgs[i].Partial)
	msgLevel := ""
	if i < len(msgs) && (msgs[i].Status == vfWSRefMsgCorrupt || msgs[i].Status == vfWSRefMsgOverLimit) {
		msgLevel = msgs[i].Status
	}
	if !frameLevelOK && msgLevel == "" {
		return fail(false, "read failed with %q at message %d although the reference decodes that message (status %s) and %d message(s) in total before %s%v",
			final.Err, i, msgs[i].Status, len(msgs), T.Kind, T.Viol)
	}

	var problems []string
	// --- message-level explanation
	if msgLevel != "" {
		m := msgs[i]
		p := ""
		if !vfC29PongsOK(pings, m.PingsSeen, m.PingsEnd, pongs) {
			p = fmt.Sprintf("pongs written %d do not answer the pings seen (%d..%d)", len(pongs), m.PingsSeen, m.PingsEnd)
		} else if msgLevel == vfWSRefMsgOverLimit {
			if closeCodeW != 1009 {
				p = fmt.Sprintf("decompressed size exceeds the limit %d: want close frame 1009, Conn wrote close=%d (err %q)", cfg.DecompLimit, closeCodeW, final.Err)
			}
		}
		if p == "" {
			notes = append(notes, "term:"+msgLevel)
			if msgLevel == vfWSRefMsgOverLimit && run.LaterGotMsg {
				return fail(false, "a read after the decompressed-limit error returned a message")
			}
			return vfC29Verdict{Note: notes}
		}
		problems = append(problems, p)
	}
	// --- frame-level explanation
	if frameLevelOK {
		p := ""
		switch {
		case !vfC29PongsOK(pings, len(pings), len(pings), pongs):
			p = fmt.Sprintf("pongs written (%d) do not answer the %d ping(s) received before the terminal condition", len(pongs), len(pings))
		case T.Kind == vfWSRefEOF || T.Kind == vfWSRefTruncated:
			// any error, nothing else required
		case T.Kind == vfWSRefLimit:
			if closeCodeW != 1009 {
				p = fmt.Sprintf("read limit %d exceeded: want close frame 1009, Conn wrote close=%d (err %q)", cfg.ReadLimit, closeCodeW, final.Err)
			}
		case T.Kind == vfWSRefViolation:
			okCodes := map[int]bool{1002: true}
			for _, k := range T.Viol {
				if k == vfWSRefVCloseUTF8 {
					okCodes[1007] = true
				}
				if k == vfWSRefVLenMSB {
					okCodes[1009] = true // a length of 2^63 or more is also "too big to process"
				}
			}
			cut := !T.HeaderComplete || (!T.FrameComplete && T.PayloadLen <= 125)
			var ce *CloseError
			switch {
			case okCodes[closeCodeW]:
			case cut && closeFrame == nil:
				notes = append(notes, "violating-frame-cut")
			case errors.As(final.Err, &ce) && ce.Code != CloseAbnormalClosure:
				p = fmt.Sprintf("protocol violation %v treated as a regular close (%q), Conn wrote close=%d", T.Viol, final.Err, closeCodeW)
			default:
				p = fmt.Sprintf("protocol violation %v: want close frame 1002, Conn wrote close=%d (err %q)", T.Viol, closeCodeW, final.Err)
			}
		case T.Kind == vfWSRefClose:
			var ce *CloseError
			isCE := errors.As(final.Err, &ce)
			switch {
			case T.CodeDontCare && closeCodeW == 1002 && !(isCE && ce.Code == T.CloseCode):
				notes = append(notes, "dontcare-code-rejected")
			case (!isCE || ce.Code != T.CloseCode || ce.Text != T.CloseReason) && msgLevel == "":
				// (when the open compressed message is at the same time corrupt / over the decompressed limit the
				// error value may describe either condition; the written close frame is still checked)
				p = fmt.Sprintf("close frame (code %d reason %q) received: want *CloseError with them, got %q", T.CloseCode, T.CloseReason, final.Err)
			case closeFrame == nil:
				p = "close frame received but no close frame written in response (RFC 6455 5.5.1)"
			case closeCodeW != 0 && vfWSRefCloseCodeClass(closeCodeW) < 0:
				p = fmt.Sprintf("close frame written in response carries the forbidden code %d", closeCodeW)
			case run.CloseCode != T.CloseCode || !run.CloseIncoming:
				p = fmt.Sprintf("CloseCode()=(%d,%v) after receiving close %d as the first close", run.CloseCode, run.CloseIncoming, T.CloseCode)
			}
		}
		if p == "" {
			for _, e := range run.Later {
				if e == nil {
					v := fail(false, "a read after the error %q returned a message", final.Err)
					return v
				}
			}
			notes = append(notes, "term:"+T.Kind)
			return vfC29Verdict{Note: notes}
		}
		problems = append(problems, p)
	}
	return fail(frameLevelOK, "%s", strings.Join(problems, " / or: "))
}

// ---------------------------------------------------------------------------------------------------------------
// generator

type vfC29F struct {
	B0       byte
	Masked   bool
	Key      [4]byte
	LenBits  int
	Declared *uint64
	Payload  []byte
	Note     string
}

func (f vfC29F) Bytes() []byte {
	return vfWSRefEncodeFrame(f.B0, f.Masked, f.Key, f.LenBits, f.Declared, f.Payload)
}

func (f vfC29F) String() string {
	s := fmt.Sprintf("%02x/len%d", f.B0, len(f.Payload))
	if f.LenBits != 0 {
		s += fmt.Sprintf("/L%d", f.LenBits)
	}
	if f.Declared != nil {
		s += fmt.Sprintf("/decl%x", *f.Declared)
	}
	if f.Masked {
		s += "/m"
	}
	if f.Note != "" {
		s += "/" + f.Note
	}
	return s
}

var vfC29Sizes = []int{0, 0, 1, 1, 2, 3, 5, 5, 16, 17, 40, 124, 125, 125, 126, 126, 127, 128, 300, 1000, 4095, 4096, 4097, 5000}
var vfC29BigSizes = []int{65535, 65536, 65537, 100000}

func vfC29Bytes(rt *rapid.T, label string, n int, text bool) []byte {
	if n == 0 {
		return []byte{}
	}
	kind := rapid.IntRange(0, 4).Draw(rt, label+"_kind")
	out := make([]byte, n)
	switch {
	case n <= 24 && kind <= 1:
		b := rapid.SliceOfN(rapid.Byte(), n, n).Draw(rt, label+"_raw")
		copy(out, b)
	case kind == 2: // highly compressible
		c := rapid.Byte().Draw(rt, label+"_c")
		for i := range out {
			out[i] = c
		}
	case kind == 3: // ascii text
		seed := rapid.IntRange(0, 1000).Draw(rt, label+"_seed")
		const al = "{\"id\":1,\"method\":\"publish\",\"params\":{}} abcdefghijklmnopqrstuvwxyz"
		for i := range out {
			out[i] = al[(i*7+seed+i/13)%len(al)]
		}
	default: // pseudo random, derived from a drawn seed
		x := uint32(rapid.IntRange(1, 1<<30).Draw(rt, label+"_seed"))
		for i := range out {
			x = x*1664525 + 1013904223
			out[i] = byte(x >> 24)
		}
	}
	if text && kind == 4 && n >= 2 {
		out[n/2] = 0xff // invalid UTF-8 in a text message: not validated by the library, handed through
	}
	return out
}

func vfC29Key(rt *rapid.T, label string) [4]byte {
	k := rapid.Uint32().Draw(rt, label)
	if k%7 == 0 {
		k = 0
	}
	return [4]byte{byte(k >> 24), byte(k >> 16), byte(k >> 8), byte(k)}
}

type vfC29Gen struct {
	rt      *rapid.T
	masked  bool
	deflate bool
	frames  []vfC29F
	wireSz  []int // wire size per generated message
	rawSz   []int // inflated size per generated message
	n       int
}

func (g *vfC29Gen) lbl(s string) string { g.n++; return fmt.Sprintf("%s%d", s, g.n) }

func (g *vfC29Gen) frame(b0 byte, payload []byte, note string) vfC29F {
	f := vfC29F{B0: b0, Masked: g.masked, Payload: payload, Note: note}
	if g.masked {
		f.Key = vfC29Key(g.rt, g.lbl("key"))
	}
	if rapid.IntRange(0, 11).Draw(g.rt, g.lbl("lenenc")) == 0 {
		f.LenBits = rapid.SampledFrom([]int{16, 64}).Draw(g.rt, g.lbl("lenbits"))
		if b0&0x0f >= 8 {
			// a control frame with an extended length is a violation by itself (len7 > 125); keep those to the
			// explicit injection below
			f.LenBits = 0
		}
	}
	return f
}

func (g *vfC29Gen) control() vfC29F {
	op := rapid.SampledFrom([]byte{9, 9, 9, 10}).Draw(g.rt, g.lbl("ctlop"))
	n := rapid.SampledFrom([]int{0, 0, 1, 4, 15, 16, 17, 18, 50, 124, 125}).Draw(g.rt, g.lbl("ctllen"))
	return g.frame(0x80|op, vfC29Bytes(g.rt, g.lbl("ctl"), n, false), "")
}

func (g *vfC29Gen) message(allowBig bool) {
	rt := g.rt
	op := rapid.SampledFrom([]byte{1, 2}).Draw(rt, g.lbl("op"))
	n := rapid.SampledFrom(vfC29Sizes).Draw(rt, g.lbl("size"))
	if allowBig && rapid.IntRange(0, 24).Draw(rt, g.lbl("big")) == 0 {
		n = rapid.SampledFrom(vfC29BigSizes).Draw(rt, g.lbl("bigsize"))
	}
	bomb := false
	if g.deflate && rapid.IntRange(0, 29).Draw(rt, g.lbl("bomb")) == 0 {
		bomb = true
		n = rapid.SampledFrom([]int{70000, 200000, 600000}).Draw(rt, g.lbl("bombsize"))
	}
	var payload []byte
	if bomb {
		payload = make([]byte, n)
	} else {
		payload = vfC29Bytes(rt, g.lbl("pl"), n, op == 1)
	}
	wire := payload
	rsv1 := byte(0)
	note := ""
	if g.deflate && (bomb || rapid.IntRange(0, 2).Draw(rt, g.lbl("cmp")) != 0) {
		level := rapid.SampledFrom([]int{-2, 0, 1, 1, 6, 9}).Draw(rt, g.lbl("lvl"))
		wire = vfWSRefDeflate(payload, level)
		rsv1 = 0x40
		note = "z"
		switch rapid.IntRange(0, 19).Draw(rt, g.lbl("zdefect")) {
		case 0: // truncated deflate stream
			if len(wire) > 1 {
				wire = wire[:rapid.IntRange(0, len(wire)-1).Draw(rt, g.lbl("zcut"))]
				note = "z-trunc"
			}
		case 1: // corrupted deflate stream
			if len(wire) > 0 {
				wire = append([]byte{}, wire...)
				k := rapid.IntRange(0, len(wire)-1).Draw(rt, g.lbl("zpos"))
				wire[k] ^= byte(rapid.IntRange(1, 255).Draw(rt, g.lbl("zxor")))
				note = "z-corrupt"
			}
		}
	}
	g.wireSz = append(g.wireSz, len(wire))
	g.rawSz = append(g.rawSz, len(payload))
	nfrag := rapid.SampledFrom([]int{1, 1, 2, 2, 2, 3, 4}).Draw(rt, g.lbl("nfrag"))
	cuts := make([]int, 0, nfrag+1)
	cuts = append(cuts, 0)
	for i := 1; i < nfrag; i++ {
		cuts = append(cuts, rapid.IntRange(cuts[len(cuts)-1], len(wire)).Draw(rt, g.lbl("cut")))
	}
	cuts = append(cuts, len(wire))
	for i := 0; i < nfrag; i++ {
		b0 := byte(0)
		if i == 0 {
			b0 = op | rsv1
		}
		if i == nfrag-1 {
			b0 |= 0x80
		}
		g.frames = append(g.frames, g.frame(b0, wire[cuts[i]:cuts[i+1]], note))
		if i < nfrag-1 && rapid.IntRange(0, 1).Draw(rt, g.lbl("il")) == 0 {
			g.frames = append(g.frames, g.control())
		}
	}
}

func (g *vfC29Gen) closeFrame(kind int) vfC29F {
	rt := g.rt
	var payload []byte
	note := "close"
	switch kind {
	case 0: // empty
		payload = []byte{}
	case 1: // valid code + reason
		code := rapid.SampledFrom([]int{1000, 1001, 1002, 1003, 1007, 1008, 1009, 1010, 1011, 3000, 3001, 3999, 4000, 4999}).Draw(rt, g.lbl("code"))
		reason := rapid.SampledFrom([]string{"", "bye", "going away – später", strings.Repeat("r", 123), strings.Repeat("é", 61)}).Draw(rt, g.lbl("reason"))
		payload = append([]byte{byte(code >> 8), byte(code)}, reason...)
	case 2: // one byte
		payload = []byte{rapid.Byte().Draw(rt, g.lbl("b"))}
		note = "close1"
	case 3: // forbidden / undecidable code
		code := rapid.SampledFrom([]int{0, 1, 999, 1004, 1005, 1006, 1015, 1016, 1100, 2000, 2999, 1012, 1013, 1014, 5000, 65535}).Draw(rt, g.lbl("badcode"))
		payload = append([]byte{byte(code >> 8), byte(code)}, "x"...)
		note = fmt.Sprintf("close%d", code)
	default: // invalid UTF-8 reason
		bad := rapid.SampledFrom([]string{"\xff", "ab\xc3", "\xed\xa0\x80", "ok\xf8\x88\x80\x80\x80", "\xc0\xaf"}).Draw(rt, g.lbl("badutf"))
		payload = append([]byte{0x03, 0xe8}, bad...)
		note = "close-badutf8"
	}
	f := g.frame(0x88, payload, note)
	f.LenBits = 0
	return f
}

func vfC29Generate(rt *rapid.T, c *vfCase) (vfC29Cfg, []byte, string) {
	var cfg vfC29Cfg
	cfg.Server = rapid.Bool().Draw(rt, "server")
	cfg.Deflate = rapid.Bool().Draw(rt, "deflate")
	cfg.ReadBuf = rapid.SampledFrom([]int{0, 0, 1, 125, 126, 300, 4096}).Draw(rt, "readbuf")
	cfg.SmallBr = rapid.IntRange(0, 9).Draw(rt, "smallbr") == 0 && cfg.Server
	switch rapid.IntRange(0, 3).Draw(rt, "chunkmode") {
	case 0:
	case 1:
		cfg.Chunks = []int{1}
	default:
		cfg.Chunks = rapid.SliceOfN(rapid.SampledFrom([]int{1, 1, 2, 3, 5, 7, 13, 14, 100, 4096}), 1, 5).Draw(rt, "chunks")
	}
	cfg.Modes = rapid.SliceOfN(rapid.SampledFrom([]int{0, 0, 0, 1, 1, 2}), 1, 4).Draw(rt, "modes")
	cfg.ReadChunks = rapid.SliceOfN(rapid.SampledFrom([]int{1, 2, 3, 7, 64, 125, 512, 5000}), 1, 3).Draw(rt, "rchunks")
	cfg.Abandon = rapid.IntRange(0, 3).Draw(rt, "abandon")

	g := &vfC29Gen{rt: rt, masked: cfg.Server, deflate: cfg.Deflate}
	nitems := rapid.IntRange(0, 6).Draw(rt, "nitems")
	for i := 0; i < nitems; i++ {
		if rapid.IntRange(0, 3).Draw(rt, g.lbl("item")) == 0 {
			g.frames = append(g.frames, g.control())
		} else {
			g.message(vfThorough() || i == 0)
		}
	}

	// limits relative to the generated messages
	if len(g.wireSz) > 0 && rapid.IntRange(0, 2).Draw(rt, "uselimit") == 0 {
		k := rapid.IntRange(0, len(g.wireSz)-1).Draw(rt, "limitmsg")
		cfg.ReadLimit = int64(g.wireSz[k] + rapid.IntRange(-1, 1).Draw(rt, "limitdelta"))
		if cfg.ReadLimit < 0 {
			cfg.ReadLimit = 0
		}
	}
	if cfg.Deflate && len(g.rawSz) > 0 && rapid.IntRange(0, 2).Draw(rt, "usedlimit") == 0 {
		k := rapid.IntRange(0, len(g.rawSz)-1).Draw(rt, "dlimitmsg")
		cfg.DecompLimit = int64(g.rawSz[k] + rapid.IntRange(-1, 1).Draw(rt, "dlimitdelta"))
		if cfg.DecompLimit < 0 {
			cfg.DecompLimit = 0
		}
	}

	// injected defect
	inj := "none"
	if rapid.IntRange(0, 99).Draw(rt, "inject") < 45 {
		kind := rapid.IntRange(0, 15).Draw(rt, "injkind")
		pos := 0
		if len(g.frames) > 0 {
			pos = rapid.IntRange(0, len(g.frames)).Draw(rt, "injpos")
		}
		insert := func(f vfC29F) {
			g.frames = append(g.frames[:pos], append([]vfC29F{f}, g.frames[pos:]...)...)
		}
		mutate := func(fn func(f *vfC29F)) bool {
			if len(g.frames) == 0 {
				return false
			}
			if pos >= len(g.frames) {
				pos = len(g.frames) - 1
			}
			fn(&g.frames[pos])
			return true
		}
		switch kind {
		case 0:
			op := rapid.SampledFrom([]byte{3, 4, 5, 6, 7, 11, 12, 13, 14, 15}).Draw(rt, "resop")
			fin := rapid.SampledFrom([]byte{0x80, 0x80, 0}).Draw(rt, "resfin")
			insert(g.frame(fin|op, vfC29Bytes(rt, "respl", rapid.IntRange(0, 10).Draw(rt, "reslen"), false), "reserved-opcode"))
			inj = "reserved-opcode"
		case 1:
			bit := rapid.SampledFrom([]byte{0x20, 0x10, 0x30}).Draw(rt, "rsvbit")
			if mutate(func(f *vfC29F) { f.B0 |= bit; f.Note += "+rsv23" }) {
				inj = "rsv23"
			}
		case 2:
			if mutate(func(f *vfC29F) { f.B0 ^= 0x40; f.Note += "^rsv1" }) {
				inj = "rsv1-flip"
			}
		case 3:
			f := g.control()
			f.B0 |= 0x40
			f.Note = "ctl+rsv1"
			insert(f)
			inj = "rsv1-control"
		case 4:
			if mutate(func(f *vfC29F) { f.B0 ^= 0x80; f.Note += "^fin" }) {
				inj = "fin-flip"
			}
		case 5:
			f := g.control()
			n := rapid.SampledFrom([]int{126, 127, 200, 70000}).Draw(rt, "ctlbiglen")
			f.Payload = make([]byte, n)
			f.Note = "ctl-long"
			insert(f)
			inj = "control-too-long"
		case 6:
			f := g.frame(rapid.SampledFrom([]byte{0x80, 0x00}).Draw(rt, "contfin"), vfC29Bytes(rt, "contpl", rapid.IntRange(0, 8).Draw(rt, "contlen"), false), "stray-cont")
			insert(f)
			inj = "stray-continuation"
		case 7:
			f := g.frame(rapid.SampledFrom([]byte{0x81, 0x82, 0x01, 0x02}).Draw(rt, "nestop"), vfC29Bytes(rt, "nestpl", rapid.IntRange(0, 8).Draw(rt, "nestlen"), false), "extra-data")
			insert(f)
			inj = "extra-data-frame" // a violation only when it lands inside a fragmented message
		case 8:
			if mutate(func(f *vfC29F) { f.Masked = !f.Masked; f.Note += "^mask" }) {
				inj = "mask-flip"
			}
		case 9:
			if mutate(func(f *vfC29F) {
				d := uint64(len(f.Payload)) | 1<<63
				if rapid.Bool().Draw(rt, "msball") {
					d = ^uint64(0)
				}
				f.Declared, f.LenBits = &d, 64
				f.Note += "+msb"
			}) {
				inj = "len-msb"
			}
		case 10:
			insert(g.closeFrame(2))
			inj = "close-1-byte"
		case 11:
			insert(g.closeFrame(3))
			inj = "close-bad-code"
		case 12:
			insert(g.closeFrame(4))
			inj = "close-bad-utf8"
		case 13: // declared length differs from the payload that follows
			if mutate(func(f *vfC29F) {
				d := uint64(len(f.Payload) + rapid.SampledFrom([]int{-1, 1, 2, 6, 130}).Draw(rt, "decldelta"))
				if int64(d) < 0 {
					d = 0
				}
				f.Declared = &d
				f.Note += "+decl"
			}) {
				inj = "length-mismatch"
			}
		case 14: // opcode rewritten
			op := rapid.SampledFrom([]byte{0, 1, 2, 8, 9, 10}).Draw(rt, "newop")
			if mutate(func(f *vfC29F) { f.B0 = f.B0&0xf0 | op; f.Note += "^op" }) {
				inj = "opcode-rewrite"
			}
		default:
			insert(g.closeFrame(rapid.IntRange(0, 1).Draw(rt, "midclose")))
			inj = "early-close"
		}
	}

	// tail
	switch rapid.IntRange(0, 3).Draw(rt, "tail") {
	case 0, 1:
		g.frames = append(g.frames, g.closeFrame(rapid.IntRange(0, 1).Draw(rt, "tailclose")))
		if rapid.IntRange(0, 3).Draw(rt, "junk") == 0 {
			g.frames = append(g.frames, g.control())
		}
	}
	var stream []byte
	var parts []string
	for _, f := range g.frames {
		stream = append(stream, f.Bytes()...)
		parts = append(parts, f.String())
	}
	if len(stream) > 0 && rapid.IntRange(0, 4).Draw(rt, "truncate") == 0 {
		cut := rapid.IntRange(0, len(stream)-1).Draw(rt, "cutat")
		stream = stream[:cut]
		parts = append(parts, fmt.Sprintf("CUT@%d", cut))
	}
	c.Label("inject:" + inj)
	return cfg, stream, "frames=[" + strings.Join(parts, " ") + "]"
}

// vfC29IsKnown is vfC29Known without counting a hit.
func vfC29IsKnown(c *vfCase, key string) bool {
	if c != nil {
		return c.IsKnown(key)
	}
	return vfC29Known(nil, key, "")
}

// vfC29Known reports whether key is listed as a known finding (c may be nil in the fuzz target).
func vfC29Known(c *vfCase, key, example string) bool {
	if key == "" {
		return false
	}
	if c != nil {
		return c.Known(key, example)
	}
	var keys []string
	_ = json.Unmarshal([]byte(os.Getenv("VF_KNOWN")), &keys)
	for _, k := range keys {
		if k == key {
			return true
		}
	}
	return false
}

func vfC29RefCfg(cfg vfC29Cfg, strict bool) vfWSRefConfig {
	return vfWSRefConfig{ServerRole: cfg.Server, Deflate: cfg.Deflate, ReadLimit: cfg.ReadLimit, DecompLimit: cfg.DecompLimit, StrictLen: strict}
}

// vfC29Check runs one case. Returns the verdict text ("" = held) after applying the known-finding guards.
// A failure is attributed to a known deviation only when that deviation is positively identified: either the
// reference terminal is exactly the violation class in question (verdict.Key), or the failure disappears when the
// single suspected trigger is removed from the configuration (16 byte bufio.Reader; abandoning messages while a read
// limit is set) while everything else stays the same.
func vfC29Check(c *vfCase, cfg vfC29Cfg, stream []byte) (string, *vfWSRefResult, vfC29Verdict) {
	eval := func(cfg vfC29Cfg) (*vfWSRefResult, vfC29Run, vfC29Verdict) {
		ref := vfWSRefDecode(vfC29RefCfg(cfg, false), stream)
		var strict *vfWSRefResult
		if s := vfWSRefDecode(vfC29RefCfg(cfg, true), stream); s.Term.Kind == vfWSRefViolation && len(s.Term.Viol) == 1 && s.Term.Viol[0] == vfWSRefVLenNonMin {
			strict = s
		}
		run := vfC29Exec(cfg, stream, len(ref.Messages())+3)
		return ref, run, vfC29Judge(cfg, stream, ref, strict, run)
	}
	ref, run, v := eval(cfg)
	if v.Msg == "" {
		return "", ref, v
	}
	var keys []string
	cur, curRun, curV := cfg, run, v
	for round := 0; round < 3; round++ {
		if curV.Msg == "" {
			break
		}
		if curV.Key != "" && vfC29IsKnown(c, curV.Key) {
			keys = append(keys, curV.Key)
			break
		}
		if curRun.Panic != "" {
			keys = nil
			break
		}
		bufFull, abandoned := false, false
		for _, o := range curRun.Outcomes {
			if errors.Is(o.Err, bufio.ErrBufferFull) {
				bufFull = true
			}
			if o.Err == nil && !o.Complete {
				abandoned = true
			}
		}
		if cur.SmallBr && bufFull {
			// Upgrader.upgradeH2 hands newConn a bufio.Reader smaller than a control frame payload; such payloads
			// cannot be peeked (bufio.ErrBufferFull).
			keys = append(keys, vfC29KeySmallBr)
			cur.SmallBr = false
			_, curRun, curV = eval(cur)
			continue
		}
		early := false
		for _, m := range ref.Messages() {
			if m.EarlyFinal {
				early = true
			}
		}
		if cur.ReadLimit > 0 && (abandoned || early) {
			// Conn.readLength is reset on entry of NextReader, not at the first frame of a message: when the
			// application abandons a message (allowed by the NextReader contract), or the inflater finishes before
			// the last frame of a message, the skipped frames are counted against the limit of the FOLLOWING message
			// and the rest of the unfinished message itself is no longer checked. Attributed only if the case passes
			// (a) when every message is read completely and (b) without a read limit (regular bufio.Reader in both).
			cfgA := cur
			cfgA.Modes, cfgA.SmallBr = []int{0}, false
			_, _, vA := eval(cfgA)
			cfgB := cur
			cfgB.ReadLimit, cfgB.SmallBr = 0, false
			_, _, vB := eval(cfgB)
			okA := vA.Msg == "" || (vA.Key != "" && vfC29IsKnown(c, vA.Key)) || early
			okB := vB.Msg == "" || (vB.Key != "" && vfC29IsKnown(c, vB.Key))
			if okA && okB {
				keys = append(keys, vfC29KeyLimitSkip)
				break
			}
		}
		keys = nil
		break
	}
	if len(keys) > 0 {
		all := true
		for _, k := range keys {
			if !vfC29Known(c, k, cfg.String()+" stream="+vfC29Hex(stream)) {
				all = false
			}
		}
		if all {
			for _, k := range keys {
				v.Note = append(v.Note, "known:"+k)
			}
			return "", ref, v
		}
		v.Msg = "[" + strings.Join(keys, ",") + "] " + v.Msg
	} else if v.Key != "" {
		v.Msg = "[" + v.Key + "] " + v.Msg
	}
	return v.Msg, ref, v
}

func TestVF_C29(t *testing.T) {
	vfCheck(t, "C29", func(rt *rapid.T, c *vfCase) string {
		cfg, stream, desc := vfC29Generate(rt, c)
		c.Describe(cfg.String() + " " + desc + " stream=" + vfC29Hex(stream))
		msg, ref, v := vfC29Check(c, cfg, stream)

		// classification
		if cfg.Server {
			c.Label("role:server")
		} else {
			c.Label("role:client")
		}
		if cfg.Deflate {
			c.Label("deflate")
		}
		c.Label("ref-terminal:" + ref.Term.Kind)
		for _, k := range ref.Term.Viol {
			c.Label("violation:" + k)
		}
		for _, n := range v.Note {
			c.Label(n)
		}
		msgs := ref.Messages()
		good, frag, inter, comp := 0, false, false, false
		for _, m := range msgs {
			if m.Status == vfWSRefMsgOK && !m.Partial {
				good++
			} else {
				c.Label("msg-status:" + m.Status)
			}
			if m.Frames >= 2 {
				frag = true
			}
			if m.Interleave > 0 {
				inter = true
			}
			if m.Compressed {
				comp = true
			}
		}
		if frag {
			c.Label("fragmented")
		}
		if inter {
			c.Label("interleaved-control")
		}
		if comp {
			c.Label("compressed-msg")
		}
		if ref.NonMinimal > 0 {
			c.Label("non-minimal-length")
		}
		if len(ref.Pings()) > 0 {
			c.Label("pings")
		}
		bad := ref.Term.Kind == vfWSRefViolation || ref.Term.Kind == vfWSRefLimit
		for _, m := range msgs {
			if m.Status == vfWSRefMsgCorrupt || m.Status == vfWSRefMsgOverLimit {
				bad = true
			}
		}
		if (len(ref.Frames) >= 2 && (frag || inter)) || (bad && good >= 1) {
			c.Nontrivial(c.desc)
		}
		return msg
	})
}

// FuzzVF_C29: raw bytes + configuration bytes, same oracle.
func FuzzVF_C29(f *testing.F) {
	f.Add([]byte{0x81, 0x85, 1, 2, 3, 4, 'h' ^ 1, 'e' ^ 2, 'l' ^ 3, 'l' ^ 4, 'o' ^ 1}, byte(1), byte(0))
	f.Add([]byte{0x81, 0x05, 'h', 'e', 'l', 'l', 'o', 0x88, 0x02, 0x03, 0xe8}, byte(0), byte(0))
	f.Fuzz(func(t *testing.T, stream []byte, b1 byte, b2 byte) {
		if len(stream) > 1<<16 {
			return
		}
		cfg := vfC29Cfg{Server: b1&1 != 0, Deflate: b1&2 != 0}
		cfg.ReadLimit = []int64{0, 0, 10, 125}[(b1>>2)&3]
		cfg.DecompLimit = []int64{0, 16, 1000, 100000}[(b1>>4)&3]
		if !cfg.Deflate {
			cfg.DecompLimit = 0
		} else if cfg.DecompLimit == 0 {
			cfg.DecompLimit = 1 << 22 // keep bombs found by the fuzzer bounded
		}
		cfg.SmallBr = (b1>>6)&3 == 3 && cfg.Server
		cfg.ReadBuf = []int{0, 1, 126, 300}[b2&3]
		switch (b2 >> 2) & 3 {
		case 1:
			cfg.Chunks = []int{1}
		case 2:
			cfg.Chunks = []int{3, 1, 7}
		case 3:
			cfg.Chunks = []int{14, 2}
		}
		cfg.Modes = [][]int{{0}, {1}, {0, 2}, {2, 1, 0}}[(b2>>4)&3]
		cfg.ReadChunks = [][]int{{512}, {1}, {3, 64}, {125, 2}}[(b2>>6)&3]
		cfg.Abandon = int(b2>>4) & 1
		msg, _, _ := vfC29Check(nil, cfg, stream)
		if msg != "" {
			t.Fatalf("VF-VIOLATION C29: %s\ncase: %s", msg, cfg.String())
		}
	})
}
