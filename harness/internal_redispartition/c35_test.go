package PKGNAME

// C35 — Sharded PUB/SUB partition tags are balanced and Redis-compatible.
//
// Oracle (independent of the package's crc16 / SlotToNode):
//   * vfC35CRC: CRC16-XMODEM as a bit-serial shift register (poly 0x1021, init 0, MSB first, no reflection,
//     no final xor); self-checked against published vectors ("123456789" -> 0x31C3, CLUSTER KEYSLOT foo/bar).
//   * vfC35RedisKeySlot: the Redis Cluster key -> slot rule (hash only what is between the first '{' and the
//     first '}' after it, when that is non-empty), applied to the keys the brokers build: "{tag}.<channel>".
//   * vfC35FillNodes: even contiguous split of 16384 slots over k nodes built by accumulating range sizes
//     (no division per slot): node i owns floor(16384/k) slots, the first 16384 mod k nodes one more.
//
// TestVF_C35_Exhaustive enumerates every precomputed size P, every cluster size k in 1..P and every tag.
// TestVF_C35_Random compares crc16/TagSlot/SlotToNode with the oracle on rapid-drawn strings, slots, sizes.

import (
	"fmt"
	"math"
	"os"
	"sort"
	"testing"

	"pgregory.net/rapid"
)

const vfC35Slots = 16384

// vfC35CRC processes the message one bit at a time through a 16-bit LFSR.
func vfC35CRC(s string) uint16 {
	var reg uint32
	for i := 0; i < len(s); i++ {
		for bit := 7; bit >= 0; bit-- {
			in := uint32(s[i]>>uint(bit)) & 1
			top := (reg >> 15) & 1
			reg = (reg << 1) & 0xFFFF
			if top^in == 1 {
				reg ^= 0x1021
			}
		}
	}
	return uint16(reg)
}

// vfC35RedisKeySlot is Redis' keyHashSlot written from the cluster specification.
func vfC35RedisKeySlot(key string) int {
	open := -1
	for i := 0; i < len(key); i++ {
		if key[i] == '{' {
			open = i
			break
		}
	}
	if open < 0 {
		return int(vfC35CRC(key)) % vfC35Slots
	}
	closing := -1
	for i := open + 1; i < len(key); i++ {
		if key[i] == '}' {
			closing = i
			break
		}
	}
	if closing < 0 || closing == open+1 {
		return int(vfC35CRC(key)) % vfC35Slots
	}
	return int(vfC35CRC(key[open+1:closing])) % vfC35Slots
}

func vfC35SelfCheck() string {
	if got := vfC35CRC("123456789"); got != 0x31C3 {
		return fmt.Sprintf("oracle CRC16(\"123456789\") = %#04x, want 0x31c3", got)
	}
	if got := vfC35CRC(""); got != 0 {
		return fmt.Sprintf("oracle CRC16(\"\") = %#04x, want 0", got)
	}
	for k, want := range map[string]int{"foo": 12182, "bar": 5061, "hello": 866, "{foo}.anything": 12182, "a{bar}{foo}": 5061,
		"x{}foo": int(vfC35CRC("x{}foo")) % vfC35Slots, "{foo": int(vfC35CRC("{foo")) % vfC35Slots} {
		if got := vfC35RedisKeySlot(k); got != want {
			return fmt.Sprintf("oracle key slot(%q) = %d, want %d", k, got, want)
		}
	}
	return ""
}

// vfC35FillNodes writes the owner of every slot for an even contiguous split over k nodes.
func vfC35FillNodes(dst []int, k int) {
	base := vfC35Slots / k
	extra := vfC35Slots - base*k
	pos := 0
	for node := 0; node < k; node++ {
		n := base
		if node < extra {
			n++
		}
		for j := 0; j < n; j++ {
			dst[pos] = node
			pos++
		}
	}
	if pos != vfC35Slots {
		panic("vfC35FillNodes: harness bug")
	}
}

// vfC35RedisCliNodes: owner of every slot as `redis-cli --cluster create` assigns them (float32 cursor, lround).
// Informational only (the property does not fix the assignment beyond "even"); never part of a verdict.
func vfC35RedisCliNodes(dst []int, k int) {
	spn := float32(vfC35Slots) / float32(k)
	first := 0
	cursor := float32(0)
	for node := 0; node < k; node++ {
		last := int(math.Round(float64(cursor + spn - 1)))
		if last > vfC35Slots || node == k-1 {
			last = vfC35Slots - 1
		}
		if last < first {
			last = first
		}
		for s := first; s <= last && s < vfC35Slots; s++ {
			dst[s] = node
		}
		first = last + 1
		cursor += spn
	}
}

var vfC35Suffixes = []string{"", ".", ".ch", ".news:{x}", ".}{", ".{}", "}", "{", ".a}b{c"}

// vfC35CheckTags verifies compatibility + distinctness for one table; returns the independent slots.
func vfC35CheckTags(p int) ([]int, string) {
	tags, err := FindTags(p)
	if err != nil {
		return nil, fmt.Sprintf("FindTags(%d) failed for a size listed by PrecomputedSizes: %v", p, err)
	}
	if len(tags) != p {
		return nil, fmt.Sprintf("FindTags(%d) returned %d tags", p, len(tags))
	}
	slots := make([]int, p)
	seen := make(map[int]int, p)
	for i, tag := range tags {
		want := -1
		for _, suf := range vfC35Suffixes {
			key := "{" + tag + "}" + suf
			s := vfC35RedisKeySlot(key)
			if want == -1 {
				want = s
			} else if s != want {
				return nil, fmt.Sprintf("P=%d tag[%d]=%q: Redis hashes key %q to slot %d but key %q to slot %d (tag is not a usable hash tag)",
					p, i, tag, "{"+tag+"}", want, key, s)
			}
		}
		if got := TagSlot(tag); got != want {
			return nil, fmt.Sprintf("P=%d tag[%d]=%q: TagSlot=%d but Redis computes slot %d for keys {%s}...", p, i, tag, got, want, tag)
		}
		if int(crc16([]byte(tag)))%vfC35Slots != want {
			return nil, fmt.Sprintf("P=%d tag[%d]=%q: package crc16 mod 16384 = %d, Redis slot %d", p, i, tag, int(crc16([]byte(tag)))%vfC35Slots, want)
		}
		if j, dup := seen[want]; dup {
			return nil, fmt.Sprintf("P=%d: tags[%d]=%q and tags[%d]=%q share Redis slot %d", p, j, tags[j], i, tag, want)
		}
		seen[want] = i
		slots[i] = want
	}
	return slots, ""
}

// vfC35Balance counts partitions per node for cluster size k and returns a violation text if spread > 1.
// nodes is the independent slot->node table for k; the package's SlotToNode is cross-checked per tag.
func vfC35Balance(p, k int, slots []int, nodes []int, counts []int) string {
	for i := 0; i < k; i++ {
		counts[i] = 0
	}
	for i, s := range slots {
		n := nodes[s]
		if got := SlotToNode(s, k); got != n {
			return fmt.Sprintf("P=%d k=%d tag#%d slot %d: SlotToNode=%d, even contiguous split says node %d", p, k, i, s, got, n)
		}
		counts[n]++
	}
	mn, mx := counts[0], counts[0]
	for i := 1; i < k; i++ {
		if counts[i] < mn {
			mn = counts[i]
		}
		if counts[i] > mx {
			mx = counts[i]
		}
	}
	if mx-mn > 1 {
		return fmt.Sprintf("P=%d cluster size %d: per-node partition counts range from %d to %d (differ by more than one)", p, k, mn, mx)
	}
	return ""
}

func vfC35Spread(k int, slots []int, nodes []int, counts []int) int {
	for i := 0; i < k; i++ {
		counts[i] = 0
	}
	for _, s := range slots {
		counts[nodes[s]]++
	}
	mn, mx := counts[0], counts[0]
	for i := 1; i < k; i++ {
		if counts[i] < mn {
			mn = counts[i]
		}
		if counts[i] > mx {
			mx = counts[i]
		}
	}
	return mx - mn
}

func TestVF_C35_Exhaustive(t *testing.T) {
	if sh := os.Getenv("VF_SHARD"); sh != "" && sh != "0" {
		t.Skip("exhaustive enumeration runs once (shard 0)")
	}
	st := vfNewStats("C35")
	defer vfFlushStats()
	fail := func(c *vfCase, msg string) {
		c.commit(true, msg)
		vfFlushStats()
		t.Fatalf("VF-VIOLATION C35: %s\ncase: %s", msg, c.desc)
	}
	if msg := vfC35SelfCheck(); msg != "" {
		t.Fatalf("harness oracle self-check failed (not a library violation): %s", msg)
	}
	sizes := PrecomputedSizes()
	if len(sizes) == 0 {
		t.Fatalf("VF-VIOLATION C35: no precomputed sizes")
	}
	if !sort.IntsAreSorted(sizes) {
		t.Fatalf("VF-VIOLATION C35: PrecomputedSizes not sorted: %v", sizes)
	}
	if len(sizes) != len(precomputed) {
		t.Fatalf("VF-VIOLATION C35: PrecomputedSizes lists %d sizes, table has %d", len(sizes), len(precomputed))
	}
	maxP := sizes[len(sizes)-1]
	slotsOf := map[int][]int{}
	tagsTotal := 0
	for _, p := range sizes {
		c := &vfCase{st: st}
		c.Describe(fmt.Sprintf("exhaustive: P=%d all tags: Redis slot of {tag}<suffix> for %d suffixes == TagSlot, pairwise distinct", p, len(vfC35Suffixes)))
		c.Label("tags_table")
		slots, msg := vfC35CheckTags(p)
		if msg != "" {
			fail(c, msg)
		}
		c.Nontrivial(fmt.Sprintf("tags P=%d", p))
		c.commit(false, "")
		slotsOf[p] = slots
		tagsTotal += p
	}
	nodes := make([]int, vfC35Slots)
	cli := make([]int, vfC35Slots)
	counts := make([]int, maxP)
	pairs, cliWorse, cliMaxSpread := 0, 0, 0
	cliExample := ""
	for k := 1; k <= maxP; k++ {
		vfC35FillNodes(nodes, k)
		// SlotToNode == even contiguous split on every slot for this cluster size
		c := &vfCase{st: st}
		c.Describe(fmt.Sprintf("exhaustive: SlotToNode(s,%d) for all 16384 slots vs accumulated even split", k))
		c.Label("slot_to_node_table")
		for s := 0; s < vfC35Slots; s++ {
			if got := SlotToNode(s, k); got != nodes[s] {
				fail(c, fmt.Sprintf("SlotToNode(%d,%d)=%d, even contiguous split says %d", s, k, got, nodes[s]))
			}
		}
		c.commit(false, "")
		vfC35RedisCliNodes(cli, k)
		for _, p := range sizes {
			if k > p {
				continue
			}
			c := &vfCase{st: st}
			c.Describe(fmt.Sprintf("exhaustive: P=%d cluster size k=%d: all %d tags counted per node", p, k, p))
			c.Labelf("P=%d", p)
			if k >= 2 {
				c.Nontrivial(fmt.Sprintf("P=%d k=%d", p, k))
			}
			if p%k != 0 {
				c.Label("k_does_not_divide_P")
			}
			if msg := vfC35Balance(p, k, slotsOf[p], nodes, counts); msg != "" {
				fail(c, msg)
			}
			c.commit(false, "")
			pairs++
			if sp := vfC35Spread(k, slotsOf[p], cli, counts); sp > 1 {
				cliWorse++
				if sp > cliMaxSpread {
					cliMaxSpread = sp
					cliExample = fmt.Sprintf("P=%d k=%d spread=%d", p, k, sp)
				}
			}
		}
	}
	st.mu.Lock()
	st.Extra["exhaustive_pairs_P_k"] = pairs
	st.Extra["exhaustive_tags"] = tagsTotal
	st.Extra["exhaustive_sizes"] = len(sizes)
	st.Extra["info_pairs_with_spread_gt1_under_redis_cli_rounding_split"] = cliWorse
	st.Extra["info_max_spread_under_redis_cli_rounding_split"] = cliMaxSpread
	st.mu.Unlock()
	t.Logf("C35 exhaustive: %d sizes, %d tags, %d (P,k) pairs; informational: %d pairs have spread>1 under redis-cli's rounding split (max %d, %s)",
		len(sizes), tagsTotal, pairs, cliWorse, cliMaxSpread, cliExample)
}

func TestVF_C35_Random(t *testing.T) {
	if msg := vfC35SelfCheck(); msg != "" {
		t.Fatalf("harness oracle self-check failed (not a library violation): %s", msg)
	}
	sizes := PrecomputedSizes()
	nodes := make([]int, vfC35Slots)
	counts := make([]int, 16384)
	slotCache := map[int][]int{} // tables are immutable: verify each once per process, then reuse the independent slots
	vfCheck(t, "C35", func(rt *rapid.T, c *vfCase) string {
		// 1. random string: crc16 / TagSlot against the bit-serial oracle
		var s string
		switch rapid.IntRange(0, 4).Draw(rt, "skind") {
		case 0:
			s = rapid.String().Draw(rt, "s")
		case 1:
			s = string(rapid.SliceOfN(rapid.Byte(), 0, 40).Draw(rt, "bytes"))
		case 2:
			s = rapid.StringOfN(rapid.RuneFrom([]rune("abcdefghijklmnopqrstuvwxyz0123456789")), 1, 4, -1).Draw(rt, "tag")
		case 3:
			s = rapid.StringOfN(rapid.RuneFrom([]rune("{}ab.")), 0, 8, -1).Draw(rt, "braces")
		default:
			n := rapid.IntRange(0, 300).Draw(rt, "rep_n")
			b := rapid.Byte().Draw(rt, "rep_b")
			bs := make([]byte, n)
			for i := range bs {
				bs[i] = b
			}
			s = string(bs)
		}
		p := sizes[rapid.IntRange(0, len(sizes)-1).Draw(rt, "pidx")]
		k := rapid.IntRange(1, p).Draw(rt, "k")
		if rapid.IntRange(0, 3).Draw(rt, "k_small") == 0 {
			k = rapid.IntRange(1, 17).Draw(rt, "k2")
			if k > p {
				k = p
			}
		}
		slot := rapid.IntRange(0, vfC35Slots-1).Draw(rt, "slot")
		if rapid.IntRange(0, 2).Draw(rt, "slot_edge") == 0 {
			// near a range boundary of the even split
			node := rapid.IntRange(0, k-1).Draw(rt, "bnode")
			base := vfC35Slots / k
			extra := vfC35Slots % k
			start := node*base + min(node, extra)
			slot = start + rapid.IntRange(-1, 1).Draw(rt, "bdelta")
			if slot < 0 {
				slot = 0
			}
			if slot >= vfC35Slots {
				slot = vfC35Slots - 1
			}
		}
		suffix := rapid.SampledFrom(vfC35Suffixes).Draw(rt, "suffix")
		c.Describe(fmt.Sprintf("s=%q P=%d k=%d slot=%d suffix=%q", s, p, k, slot, suffix))
		c.Nontrivial(c.desc)

		want := vfC35CRC(s)
		if got := crc16([]byte(s)); got != want {
			return fmt.Sprintf("crc16(%q)=%#04x, CRC16-XMODEM is %#04x", s, got, want)
		}
		if got := TagSlot(s); got != int(want)%vfC35Slots {
			return fmt.Sprintf("TagSlot(%q)=%d, CRC16 mod 16384 is %d", s, got, int(want)%vfC35Slots)
		}
		usable := len(s) > 0
		for i := 0; i < len(s); i++ {
			if s[i] == '}' {
				usable = false
			}
		}
		if usable {
			c.Label("string_usable_as_hash_tag")
			if got := vfC35RedisKeySlot("{" + s + "}" + suffix); got != TagSlot(s) {
				return fmt.Sprintf("Redis slot of key {%s}%s is %d, TagSlot(%q)=%d", s, suffix, got, s, TagSlot(s))
			}
		} else {
			c.Label("string_not_usable_as_hash_tag")
		}
		// 2. SlotToNode on a drawn (slot, k)
		vfC35FillNodes(nodes, k)
		if got := SlotToNode(slot, k); got != nodes[slot] {
			return fmt.Sprintf("SlotToNode(%d,%d)=%d, even contiguous split says %d", slot, k, got, nodes[slot])
		}
		// 3. the drawn (P,k) pair, all tags
		slots := slotCache[p]
		if slots == nil {
			var msg string
			if slots, msg = vfC35CheckTags(p); msg != "" {
				return msg
			}
			slotCache[p] = slots
		}
		if msg := vfC35Balance(p, k, slots, nodes, counts); msg != "" {
			return msg
		}
		c.Labelf("P=%d", p)
		return ""
	})
}
