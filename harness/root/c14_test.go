package PKGNAME

// C14 — Delta-encoded publications reconstruct the published data (stream subscriptions).
//
// World check: 1-2 subject connections on one channel negotiate fossil delta (client-side subscribe command or connect-time
// server-side subscription, bidirectional / unidirectional, JSON / Protobuf), a script of publishes whose payloads are
// derived from each other by small edits (JSON documents with non-ASCII text, binary blobs on Protobuf-only cases, empty and
// tiny payloads, repeats), PUB/SUB faults (drop / duplicate), two concurrent publishers, subscribes (fresh, or recovering
// from the position the client model holds; optionally parked after the history read), unsubscribes.
//
// Oracle = an SDK-like client model per subject: it holds `base` (the last payload it reconstructed) and its position.
// For every publication in any frame: payload := pub.data (JSON transport with negotiated delta: the data is a JSON string
// and is unquoted first); data := pub.delta ? fdelta.Apply(base, payload) : payload; data must equal the bytes published at
// that offset (publications without offset: one of the payloads published in the current step); base := data.
// A delta while the model holds no base, a delta on a subscription that did not negotiate delta, an Apply error and a
// mismatch are violations.

import (
	"bytes"
	"context"
	"encoding/json"
	"fmt"
	"strings"
	"sync"
	"testing"
	"time"

	"github.com/centrifugal/protocol"
	fdelta "github.com/shadowspore/fossil-delta"
	"pgregory.net/rapid"
)

type vfC14Sub struct {
	Proto    ProtocolType
	Mode     int  // 0 client-side command, 1 connect-time bidirectional, 2 connect-time unidirectional
	Delta    bool // requests fossil delta
	ServerTF *vfTF
	ClientTF *vfTF
}

type vfC14Step struct {
	Kind     int // 0 publish, 1 subscribe, 2 unsubscribe, 3 release gate, 4 two concurrent publishes
	Conn     int
	Data     []byte
	Data2    []byte
	UseDelta bool
	Fault    int // 0 deliver, 1 drop, 2 dup
	Tags     map[string]string
	Recover  bool // recover from the position the client model holds (when it holds one)
	Resub    bool // when already subscribed: unsubscribe / drop the connection first (an SDK reconnect)
	Gate     bool
}

type vfC14Case struct {
	Hist        int
	Positioned  bool
	Recoverable bool
	Cache       bool
	Medium      bool
	Binary      bool
	AllowDelta  bool
	Subs        []vfC14Sub
	Pre         []vfC14Step // publishes before anybody subscribes
	Steps       []vfC14Step
}

func vfC14DataStr(b []byte, binary bool) string {
	if binary {
		return fmt.Sprintf("x%x", b)
	}
	return fmt.Sprintf("%q", b)
}

func (s vfC14Step) str(binary bool) string {
	switch s.Kind {
	case 0:
		return fmt.Sprintf("pub(%s delta=%v %s %s)", []string{"deliver", "DROP", "DUP"}[s.Fault], s.UseDelta, vfTagsStr(s.Tags), vfC14DataStr(s.Data, binary))
	case 1:
		return fmt.Sprintf("sub(s%d recover=%v gate=%v resub=%v)", s.Conn, s.Recover, s.Gate, s.Resub)
	case 2:
		return fmt.Sprintf("unsub(s%d)", s.Conn)
	case 3:
		return "releaseGate"
	}
	return fmt.Sprintf("pub2(%s || %s)", vfC14DataStr(s.Data, binary), vfC14DataStr(s.Data2, binary))
}

func (c vfC14Case) String() string {
	subs := make([]string, len(c.Subs))
	for i, s := range c.Subs {
		subs[i] = fmt.Sprintf("s%d{%s mode=%d delta=%v serverTF=%s clientTF=%s}", i, s.Proto, s.Mode, s.Delta, s.ServerTF, s.ClientTF)
	}
	pre := make([]string, len(c.Pre))
	for i, s := range c.Pre {
		pre[i] = s.str(c.Binary)
	}
	st := make([]string, len(c.Steps))
	for i, s := range c.Steps {
		st[i] = s.str(c.Binary)
	}
	return fmt.Sprintf("hist=%d positioned=%v recoverable=%v cache=%v medium=%v binary=%v allowDelta=%v subs=[%s] pre=[%s] steps=[%s]",
		c.Hist, c.Positioned, c.Recoverable, c.Cache, c.Medium, c.Binary, c.AllowDelta, strings.Join(subs, " "), strings.Join(pre, " "), strings.Join(st, " "))
}

// ---- payload generators ------------------------------------------------------------------------------------------

type vfC14Doc struct {
	ID    int      `json:"id,omitempty"`
	N     int      `json:"n"`
	Name  string   `json:"name"`
	Body  string   `json:"body"`
	Nums  []int    `json:"nums"`
	words []string
}

var vfC14Vocab = []string{"alpha", "beta", "gamma", "épée", "naïve", "日本語", "über", "façade", "zeta", "lorem ipsum dolor sit amet", "\"q\"", "<tag>", "Ωmega", "ö", "é", "è"}
var vfC14Runes = []string{"é", "è", "ü", "ö", "a", "b", "日", "月", "ß", "€"}

func (d *vfC14Doc) bytes() []byte {
	d.Body = strings.Join(d.words, " ")
	b, _ := json.Marshal(d)
	return b
}

type vfC14PayGen struct {
	binary bool
	doc    vfC14Doc
	blob   []byte
	last   []byte
}

func (g *vfC14PayGen) fresh(rt *rapid.T) {
	if g.binary {
		g.blob = rapid.SliceOfN(rapid.Byte(), 0, 120).Draw(rt, "blob")
		return
	}
	g.doc = vfC14Doc{N: rapid.IntRange(0, 1000).Draw(rt, "n")}
	nw := rapid.IntRange(2, 14).Draw(rt, "nw")
	for i := 0; i < nw; i++ {
		g.doc.words = append(g.doc.words, rapid.SampledFrom(vfC14Vocab).Draw(rt, "w"))
	}
	nr := rapid.IntRange(0, 3).Draw(rt, "nr")
	for i := 0; i < nr; i++ {
		g.doc.Name += rapid.SampledFrom(vfC14Runes).Draw(rt, "r")
	}
	nn := rapid.IntRange(0, 4).Draw(rt, "nn")
	for i := 0; i < nn; i++ {
		g.doc.Nums = append(g.doc.Nums, rapid.IntRange(0, 99).Draw(rt, "num"))
	}
}

func (g *vfC14PayGen) edit(rt *rapid.T) {
	if g.binary {
		switch rapid.IntRange(0, 3).Draw(rt, "bedit") {
		case 0:
			if len(g.blob) > 0 {
				pos := rapid.IntRange(0, len(g.blob)-1).Draw(rt, "pos")
				nb := append([]byte(nil), g.blob...)
				nb[pos] = rapid.Byte().Draw(rt, "byte")
				g.blob = nb
			}
		case 1:
			g.blob = append(append([]byte(nil), g.blob...), rapid.SliceOfN(rapid.Byte(), 1, 12).Draw(rt, "app")...)
		case 2:
			if len(g.blob) > 0 {
				g.blob = append([]byte(nil), g.blob[:rapid.IntRange(0, len(g.blob)-1).Draw(rt, "cut")]...)
			}
		default:
			ins := rapid.SliceOfN(rapid.Byte(), 1, 6).Draw(rt, "ins")
			pos := rapid.IntRange(0, len(g.blob)).Draw(rt, "ipos")
			nb := append([]byte(nil), g.blob[:pos]...)
			nb = append(nb, ins...)
			g.blob = append(nb, g.blob[pos:]...)
		}
		return
	}
	d := &g.doc
	d.words = append([]string(nil), d.words...)
	d.Nums = append([]int(nil), d.Nums...)
	switch rapid.IntRange(0, 5).Draw(rt, "jedit") {
	case 0:
		rs := []rune(d.Name)
		if len(rs) > 0 {
			rs = rs[:len(rs)-1]
		}
		d.Name = string(rs) + rapid.SampledFrom(vfC14Runes).Draw(rt, "r")
	case 1:
		d.words = append(d.words, rapid.SampledFrom(vfC14Vocab).Draw(rt, "w"))
	case 2:
		if len(d.words) > 0 {
			d.words[rapid.IntRange(0, len(d.words)-1).Draw(rt, "wi")] = rapid.SampledFrom(vfC14Vocab).Draw(rt, "w")
		}
	case 3:
		if len(d.Nums) > 0 {
			d.Nums[rapid.IntRange(0, len(d.Nums)-1).Draw(rt, "ni")] = rapid.IntRange(0, 99).Draw(rt, "num")
		} else {
			d.N++
		}
	case 4:
		if len(d.words) > 0 {
			i := rapid.IntRange(0, len(d.words)-1).Draw(rt, "wd")
			d.words = append(d.words[:i:i], d.words[i+1:]...)
		}
	default:
		d.N = rapid.IntRange(0, 1000).Draw(rt, "n")
	}
}

func (g *vfC14PayGen) cur() []byte {
	if g.binary {
		return append([]byte(nil), g.blob...)
	}
	return g.doc.bytes()
}

// next draws the next payload: mostly a small edit of the previous one.
func (g *vfC14PayGen) next(rt *rapid.T) []byte {
	var out []byte
	switch rapid.SampledFrom([]int{0, 0, 0, 0, 0, 0, 0, 1, 2, 3, 4}).Draw(rt, "pkind") {
	case 0:
		g.edit(rt)
		out = g.cur()
	case 1:
		g.fresh(rt)
		out = g.cur()
	case 2:
		out = []byte{} // empty payload
	case 3:
		if g.binary {
			out = rapid.SliceOfN(rapid.Byte(), 1, 3).Draw(rt, "tiny")
		} else {
			out = []byte(rapid.SampledFrom([]string{"1", `"x"`, "{}", "[]", "true", `"é"`}).Draw(rt, "tiny"))
		}
	default:
		out = append([]byte(nil), g.last...) // exact repeat
		if g.last == nil {
			out = g.cur()
		}
	}
	g.last = out
	return out
}

func vfC14Gen(rt *rapid.T) vfC14Case {
	c := vfC14Case{}
	c.Hist = rapid.SampledFrom([]int{0, 3, 8, 8}).Draw(rt, "hist")
	if c.Hist > 0 {
		switch rapid.IntRange(0, 6).Draw(rt, "posmode") {
		case 0:
		case 1:
			c.Positioned = true
		case 2, 3, 4:
			c.Positioned, c.Recoverable = true, true
		default:
			c.Positioned, c.Recoverable, c.Cache = true, true, true
		}
	}
	c.Medium = rapid.Bool().Draw(rt, "medium")
	c.Binary = rapid.IntRange(0, 3).Draw(rt, "binary") == 0
	c.AllowDelta = rapid.IntRange(0, 9).Draw(rt, "allow") > 0
	ns := rapid.IntRange(1, 2).Draw(rt, "nsubs")
	filters := rapid.IntRange(0, 3).Draw(rt, "filters") == 0
	for i := 0; i < ns; i++ {
		l := fmt.Sprintf("s%d", i)
		s := vfC14Sub{}
		s.Proto = rapid.SampledFrom([]ProtocolType{ProtocolTypeJSON, ProtocolTypeProtobuf}).Draw(rt, l+"proto")
		if c.Binary {
			s.Proto = ProtocolTypeProtobuf
		}
		s.Mode = rapid.SampledFrom([]int{0, 0, 0, 1, 2}).Draw(rt, l+"mode")
		s.Delta = rapid.IntRange(0, 5).Draw(rt, l+"delta") > 0
		if filters {
			s.ServerTF = vfTFGenOpt(rt, l+"stf")
			if s.Mode == 0 {
				s.ClientTF = vfTFGenOpt(rt, l+"ctf")
			}
		}
		c.Subs = append(c.Subs, s)
	}
	g := &vfC14PayGen{binary: c.Binary}
	g.fresh(rt)
	pub := func(l string) vfC14Step {
		s := vfC14Step{Kind: 0}
		s.Data = g.next(rt)
		s.UseDelta = rapid.IntRange(0, 7).Draw(rt, "usedelta") > 0
		s.Fault = rapid.SampledFrom([]int{0, 0, 0, 0, 0, 0, 0, 0, 0, 1, 2}).Draw(rt, "fault")
		if filters {
			s.Tags = vfTagsGen(rt, "tags")
		}
		return s
	}
	np := rapid.IntRange(0, 4).Draw(rt, "npre")
	for i := 0; i < np; i++ {
		s := pub("pre")
		s.Fault = 0
		c.Pre = append(c.Pre, s)
	}
	n := rapid.IntRange(4, 24).Draw(rt, "nsteps")
	for i := 0; i < n; i++ {
		k := rapid.SampledFrom([]int{0, 0, 0, 0, 0, 0, 0, 0, 1, 1, 1, 2, 2, 3, 4}).Draw(rt, "kind")
		if i < ns {
			k = 1
		}
		var s vfC14Step
		switch k {
		case 0:
			s = pub("p")
		case 1:
			s = vfC14Step{Kind: 1, Conn: rapid.IntRange(0, ns-1).Draw(rt, "conn")}
			if i < ns {
				s.Conn = i
			}
			s.Recover = rapid.IntRange(0, 4).Draw(rt, "recover") > 0
			s.Gate = rapid.IntRange(0, 3).Draw(rt, "gate") == 0
			s.Resub = rapid.Bool().Draw(rt, "resub")
		case 2:
			s = vfC14Step{Kind: 2, Conn: rapid.IntRange(0, ns-1).Draw(rt, "conn")}
		case 3:
			s = vfC14Step{Kind: 3}
		default:
			s = vfC14Step{Kind: 4, UseDelta: true}
			s.Data = g.next(rt)
			s.Data2 = g.next(rt)
			if filters {
				s.Tags = vfTagsGen(rt, "tags")
			}
		}
		c.Steps = append(c.Steps, s)
	}
	return c
}

// ---- run ---------------------------------------------------------------------------------------------------------

type vfC14Out struct {
	labels     []string
	nontrivial bool
	known      []string
	knownEx    string
}

func (o *vfC14Out) label(l string) { o.labels = append(o.labels, l) }

type vfC14Subject struct {
	idx        int
	cfg        vfC14Sub
	conn       *vfConn
	connN      int
	seen       int
	subscribed bool
	pending    bool
	dead       bool
	subIDs     map[uint32]bool
	// client model
	negotiated bool
	hasBase    bool
	base       []byte
	baseOff    uint64
	desync     bool
	hasPos     bool
	posOff     uint64
	posEpoch   string
	// statistics
	realDeltas    int
	deliveries    int
	afterDrop     bool // a dropped delivery happened while subscribed and a later delivery was reconstructed
	sawDrop       bool
	lastWasRecEmpty bool // last subscribe result: recovered=true without publications while the model held no base
}

func vfC14Run(t *testing.T, cs vfC14Case, out *vfC14Out, isKnown func(string) bool) string {
	return vfBubble(t, func() string {
		ch := "ch"
		cfg := Config{}
		if cs.Medium {
			cfg.GetChannelMediumOptions = func(string) ChannelMediumOptions {
				return ChannelMediumOptions{KeepLatestPublication: true}
			}
		}
		w, err := vfNewWorld(cfg, nil)
		if err != nil {
			return "infra: " + err.Error()
		}
		defer w.Close()
		time.Sleep(500 * time.Millisecond)

		subjects := make([]*vfC14Subject, len(cs.Subs))
		byName := map[string]*vfC14Subject{}
		for i, sc := range cs.Subs {
			subjects[i] = &vfC14Subject{idx: i, cfg: sc, subIDs: map[uint32]bool{}}
		}
		subOpts := func(s *vfC14Subject) SubscribeOptions {
			o := SubscribeOptions{EnablePositioning: cs.Positioned, EnableRecovery: cs.Recoverable, AllowTagsFilter: true,
				ServerTagsFilter: s.cfg.ServerTF.Proto()}
			if cs.AllowDelta {
				o.AllowedDeltaTypes = []DeltaType{DeltaTypeFossil}
			}
			if cs.Cache {
				o.RecoveryMode = RecoveryModeCache
			}
			return o
		}
		w.ChanOpts = func(c *vfConn, e SubscribeEvent) (SubscribeReply, error) {
			s := byName[c.Name]
			if s == nil {
				return SubscribeReply{}, ErrorPermissionDenied
			}
			return SubscribeReply{Options: subOpts(s)}, nil
		}
		w.Connecting = func(c *vfConn, e ConnectEvent) (ConnectReply, error) {
			r := ConnectReply{Credentials: &Credentials{UserID: c.User}}
			if s := byName[c.Name]; s != nil && s.cfg.Mode != 0 {
				r.Subscriptions = map[string]SubscribeOptions{ch: subOpts(s)}
			}
			return r, nil
		}
		gateOn := false
		w.broker.Hook = func(op, phase, hch string) error {
			if op == "history" && phase == "after" && hch == ch && gateOn {
				w.Gates.Pass("history")
			}
			return nil
		}
		var fmu sync.Mutex
		nextFault := vfDeliver
		w.broker.Fault = func(d vfDelivery) vfFault {
			if d.Kind != "pub" {
				return vfDeliver
			}
			fmu.Lock()
			defer fmu.Unlock()
			return nextFault
		}

		// ---- publish log -----------------------------------------------------------------------------------------
		var lmu sync.Mutex
		byOff := map[uint64][]byte{}
		tagsByOff := map[uint64]map[string]string{}
		clientTF := func(s *vfC14Subject) *vfTF {
			if s.cfg.Mode != 0 {
				return nil
			}
			return s.cfg.ClientTF
		}
		var stepPubs [][]byte // payloads published in the current step (for publications without offset)
		curEpoch := ""
		var top uint64
		faults := 0
		publish := func(data []byte, useDelta bool, tags map[string]string, fault int) string {
			fmu.Lock()
			nextFault = []vfFault{vfDeliver, vfDrop, vfDup}[fault]
			fmu.Unlock()
			opts := []PublishOption{WithTags(tags), WithDelta(useDelta)}
			if cs.Hist > 0 {
				opts = append(opts, WithHistory(cs.Hist, 300*time.Second))
			}
			res, err := w.node.Publish(ch, data, opts...)
			fmu.Lock()
			nextFault = vfDeliver
			fmu.Unlock()
			if err != nil {
				return "infra: publish error: " + err.Error()
			}
			lmu.Lock()
			defer lmu.Unlock()
			if fault != 0 {
				faults++
			}
			if res.Offset > 0 {
				byOff[res.Offset] = data
				tagsByOff[res.Offset] = tags
				curEpoch = res.Epoch
				if res.Offset > top {
					top = res.Offset
				}
			}
			stepPubs = append(stepPubs, data)
			if fault == 1 {
				for _, s := range subjects {
					if s.subscribed {
						s.sawDrop = true
					}
				}
			}
			return ""
		}
		for _, p := range cs.Pre {
			if m := publish(p.Data, p.UseDelta, p.Tags, 0); m != "" {
				return m
			}
		}

		// ---- client model ----------------------------------------------------------------------------------------
		process := func(s *vfC14Subject, p *protocol.Publication, where string, frames []vfFrame) string {
			fail := func(format string, a ...any) string {
				return fmt.Sprintf("s%d %s (offset %d delta=%v): ", s.idx, where, p.Offset, p.Delta) + fmt.Sprintf(format, a...) + "; frames: " + vfRenderFrames(frames)
			}
			// expected payload: by offset, or (publications without offset) one of the payloads published in this step
			lmu.Lock()
			var want []byte
			wantKnown := false
			var cands [][]byte
			if p.Offset > 0 {
				want, wantKnown = byOff[p.Offset]
			} else {
				cands = append(cands, stepPubs...)
				if len(cands) == 1 {
					want, wantKnown = cands[0], true
				}
			}
			tagsAt := map[uint64]map[string]string{}
			for o, tg := range tagsByOff {
				tagsAt[o] = tg
			}
			lmu.Unlock()
			if p.Offset > 0 && !wantKnown {
				return fail("no publication was published at this offset")
			}
			// known(key): when key is a registered finding, count it and resynchronise the model from the publish log
			// (what an SDK does after a broken delta: it refetches); otherwise report the violation tagged with the key.
			resync := false
			known := func(key, msg string) string {
				if isKnown(key) {
					out.known = append(out.known, key)
					out.knownEx = msg
					if wantKnown {
						resync = true
					} else {
						s.desync = true // ambiguous (two concurrent publications without offset): wait for the next full payload
					}
					return ""
				}
				return "[" + key + "] " + msg
			}
			if s.desync {
				if p.Delta {
					return ""
				}
				s.desync = false
			}
			payload := []byte(p.Data)
			if s.negotiated && s.cfg.Proto == ProtocolTypeJSON {
				var str string
				if err := json.Unmarshal(payload, &str); err != nil {
					return fail("delta was negotiated on a JSON transport but the publication data %q is not a JSON string (%v)", vfTrunc(string(payload), 80), err)
				}
				payload = []byte(str)
				out.label("json_string_payload_unquoted")
			}
			data := payload
			if p.Delta {
				if !s.negotiated {
					return fail("delta publication on a subscription that did not negotiate delta")
				}
				utf8Cut := s.cfg.Proto == ProtocolTypeJSON && bytes.Contains(payload, []byte("\uFFFD"))
				switch {
				case !s.hasBase:
					msg := fail("delta publication although the client holds no base payload (it has not received any publication of this stream)")
					if !s.lastWasRecEmpty {
						return msg
					}
					if m := known("C14:recovered-without-publications-enables-delta-for-client-without-base", msg); m != "" {
						return m
					}
				default:
					d, err := fdelta.Apply(s.base, payload)
					bad := ""
					if err != nil {
						bad = fail("fdelta.Apply failed: %v (base %s patch %q)", err, vfC14DataStr(s.base, cs.Binary), vfTrunc(string(payload), 120))
					} else if wantKnown && !bytes.Equal(d, want) {
						bad = fail("reconstructed payload %s differs from the published payload %s (base %s)", vfC14DataStr(d, cs.Binary), vfC14DataStr(want, cs.Binary), vfC14DataStr(s.base, cs.Binary))
					}
					if bad != "" {
						key := ""
						switch {
						case utf8Cut:
							key = "C14:json-delta-patch-cuts-multibyte-utf8-sequence"
						case p.Offset > 0 && s.baseOff > 0 && s.baseOff+1 < p.Offset && (s.cfg.ServerTF != nil || s.cfg.ClientTF != nil):
							// every publication between the model's base and this one is excluded by the subject's filters
							all := true
							for o := s.baseOff + 1; o < p.Offset; o++ {
								tg, ok := tagsAt[o]
								if !ok || (s.cfg.ServerTF.Match(tg) && clientTF(s).Match(tg)) {
									all = false
								}
							}
							if all {
								key = "C14:recovery-skips-filtered-publications-but-live-delta-base-is-the-filtered-one"
							}
						}
						if key == "" {
							return bad
						}
						if m := known(key, bad); m != "" {
							return m
						}
					} else {
						data = d
					}
				}
			}
			if s.desync {
				s.hasBase, s.base, s.baseOff = false, nil, 0
				return ""
			}
			if resync {
				data = want
			} else {
				if p.Offset == 0 {
					for _, c := range cands {
						if bytes.Equal(c, data) {
							want, wantKnown = c, true
							break
						}
					}
					if !wantKnown {
						if len(cands) == 0 {
							return fail("publication without offset delivered in a step that published nothing")
						}
						want = cands[len(cands)-1]
					}
				}
				if !bytes.Equal(data, want) {
					return fail("reconstructed payload %s differs from the published payload %s (base %s)", vfC14DataStr(data, cs.Binary), vfC14DataStr(want, cs.Binary), vfC14DataStr(s.base, cs.Binary))
				}
				if p.Delta {
					s.realDeltas++
					out.label("real_delta_applied")
				} else if s.negotiated {
					out.label("full_payload_on_delta_subscription")
				}
				s.deliveries++
				if s.sawDrop {
					s.afterDrop = true
				}
			}
			s.base, s.hasBase, s.baseOff = data, true, p.Offset
			if p.Offset > 0 {
				s.posOff = p.Offset
			}
			return ""
		}
		judge := func(s *vfC14Subject) string {
			if s.conn == nil {
				return ""
			}
			frames := s.conn.Frames()
			for fi := s.seen; fi < len(frames); fi++ {
				f := frames[fi]
				if f.Err != nil {
					return fmt.Sprintf("s%d frame %d undecodable: %v raw=%q", s.idx, fi, f.Err, vfTrunc(string(f.Raw), 200))
				}
				r := f.Reply
				var res *protocol.SubscribeResult
				where := ""
				switch {
				case r.Subscribe != nil && r.Error == nil && s.subIDs[r.Id]:
					res, where = r.Subscribe, fmt.Sprintf("subscribe reply #%d", r.Id)
				case r.Connect != nil && r.Connect.Subs[ch] != nil:
					res, where = r.Connect.Subs[ch], "connect reply subs"
				case r.Push != nil && r.Push.Connect != nil && r.Push.Connect.Subs[ch] != nil:
					res, where = r.Push.Connect.Subs[ch], "connect push subs"
				}
				if res != nil {
					s.subscribed, s.pending = true, false
					s.sawDrop = false
					s.negotiated = res.Delta
					if res.Delta {
						out.label("delta_negotiated")
					} else if s.cfg.Delta {
						out.label("delta_requested_but_not_negotiated")
					}
					if !res.Recovered {
						// fresh subscription (or failed recovery): an SDK drops what it held
						s.hasBase, s.base, s.baseOff = false, nil, 0
						s.desync = false
					}
					s.lastWasRecEmpty = res.Recovered && len(res.Publications) == 0 && !s.hasBase
					if res.Recovered {
						out.label("recovered")
					}
					s.hasPos = res.Positioned || res.Recoverable
					if !res.Recovered || len(res.Publications) == 0 {
						s.posOff = res.Offset
					}
					s.posEpoch = res.Epoch
					for pi, p := range res.Publications {
						if m := process(s, p, fmt.Sprintf("%s publication %d", where, pi), frames); m != "" {
							return m
						}
					}
				}
				if r.Error != nil && s.subIDs[r.Id] {
					s.pending = false
				}
				if r.Unsubscribe != nil {
					s.subscribed = false
				}
				if r.Push != nil && r.Push.Channel == ch && r.Push.Unsubscribe != nil {
					s.subscribed = false
				}
				if r.Push != nil && r.Push.Disconnect != nil {
					s.subscribed, s.pending, s.dead = false, false, true
				}
				if r.Push != nil && r.Push.Channel == ch && r.Push.Pub != nil {
					if m := process(s, r.Push.Pub, fmt.Sprintf("publication push (frame %d)", fi), frames); m != "" {
						return m
					}
				}
			}
			s.seen = len(frames)
			if closed, _ := s.conn.T.Closed(); closed {
				s.subscribed, s.pending, s.dead = false, false, true
			}
			return ""
		}
		judgeAll := func() string {
			for _, s := range subjects {
				if m := judge(s); m != "" {
					return m
				}
			}
			return ""
		}
		newConn := func(s *vfC14Subject) {
			s.connN++
			name := fmt.Sprintf("s%d.%d", s.idx, s.connN)
			s.conn = w.NewConn(vfConnCfg{Name: name, User: "u", Proto: s.cfg.Proto, Uni: s.cfg.Mode == 2})
			s.seen, s.dead, s.subscribed, s.pending = 0, false, false, false
			s.subIDs = map[uint32]bool{}
			byName[name] = s
		}
		parked := func() bool { return w.Gates.Waiting("history") > 0 }
		release := func() {
			for w.Gates.Release("history") {
			}
			gateOn = false
			w.Gates.Disarm("history")
			vfSettle()
		}
		deltaStr := func(s *vfC14Subject) string {
			if s.cfg.Delta {
				return string(DeltaTypeFossil)
			}
			return ""
		}

		for si, st := range cs.Steps {
			lmu.Lock()
			stepPubs = nil
			lmu.Unlock()
			switch st.Kind {
			case 0:
				if m := publish(st.Data, st.UseDelta, st.Tags, st.Fault); m != "" {
					return fmt.Sprintf("step %d: %s", si, m)
				}
				vfSettle()
			case 4:
				done := make(chan string, 2)
				go func() { done <- publish(st.Data, true, st.Tags, 0) }()
				go func() { done <- publish(st.Data2, true, st.Tags, 0) }()
				vfSettle()
				for i := 0; i < 2; i++ {
					if m := <-done; m != "" {
						return fmt.Sprintf("step %d: %s", si, m)
					}
				}
				out.label("two_concurrent_publishers")
			case 1:
				s := subjects[st.Conn]
				if s.pending || (s.subscribed && !st.Resub) {
					continue
				}
				if s.subscribed {
					if s.cfg.Mode == 0 {
						s.conn.Cmd(&protocol.Command{Id: s.conn.NextID(), Unsubscribe: &protocol.UnsubscribeRequest{Channel: ch}})
					} else {
						s.conn.TransportClose()
					}
					vfSettle()
					if m := judge(s); m != "" {
						return fmt.Sprintf("step %d (resubscribe): %s", si, m)
					}
					out.label("resubscribe")
				}
				gate := st.Gate && !parked() && (cs.Positioned || cs.Recoverable)
				recover := st.Recover && cs.Recoverable && s.hasPos && s.posEpoch != ""
				if gate {
					gateOn = true
					w.Gates.Arm("history", 1)
				}
				if s.cfg.Mode == 0 {
					if s.conn == nil || s.dead {
						newConn(s)
						s.conn.Connect(nil)
					}
					id := s.conn.NextID()
					s.subIDs[id] = true
					req := &protocol.SubscribeRequest{Channel: ch, Tf: s.cfg.ClientTF.Proto(), Delta: deltaStr(s)}
					if recover {
						req.Recover, req.Offset, req.Epoch = true, s.posOff, s.posEpoch
					}
					s.pending = true
					conn := s.conn
					go conn.Cmd(&protocol.Command{Id: id, Subscribe: req})
				} else {
					if s.conn != nil && !s.dead {
						s.conn.TransportClose()
						vfSettle()
					}
					newConn(s)
					sr := &protocol.SubscribeRequest{Delta: deltaStr(s)}
					if recover {
						sr.Recover, sr.Offset, sr.Epoch = true, s.posOff, s.posEpoch
					}
					creq := &protocol.ConnectRequest{Subs: map[string]*protocol.SubscribeRequest{ch: sr}}
					s.pending = true
					conn := s.conn
					go conn.Connect(creq)
				}
				vfSettle()
				if gate && !parked() {
					gateOn = false
					w.Gates.Disarm("history")
				}
				if gate && parked() {
					out.label("subscribe_parked_after_history_read")
				}
				if recover {
					out.label("recover_requested_from_model_position")
				}
			case 2:
				s := subjects[st.Conn]
				if !s.subscribed || s.conn == nil || s.dead {
					continue
				}
				if s.cfg.Mode == 0 {
					s.conn.Cmd(&protocol.Command{Id: s.conn.NextID(), Unsubscribe: &protocol.UnsubscribeRequest{Channel: ch}})
				} else {
					s.conn.TransportClose()
				}
				vfSettle()
			case 3:
				if parked() {
					out.label("gate_released_midway")
				}
				release()
			}
			if m := judgeAll(); m != "" {
				return fmt.Sprintf("after step %d (%s): %s", si, st.str(cs.Binary), m)
			}
		}
		release()
		time.Sleep(time.Second)
		vfSettle()
		if m := judgeAll(); m != "" {
			return "at the end: " + m
		}
		_ = curEpoch
		for _, s := range subjects {
			if s.realDeltas > 0 && s.deliveries >= 2 {
				out.nontrivial = true
				out.label("nontrivial_real_delta_between_deliveries")
			}
			if s.afterDrop {
				out.nontrivial = true
				out.label("nontrivial_delivery_after_dropped_one")
			}
		}
		if faults > 0 {
			out.label("pubsub_fault_injected")
		}
		if cs.Medium {
			out.label("channel_medium_keep_latest")
		}
		switch {
		case cs.Hist == 0:
			out.label("mode_no_history")
		case !cs.Positioned:
			out.label("mode_history_not_positioned")
		case cs.Cache:
			out.label("mode_cache_recovery")
		case cs.Recoverable:
			out.label("mode_stream_recoverable")
		default:
			out.label("mode_positioned")
		}
		return ""
	})
}

// ---------------------------------------------------------------------------------------------------------------------
// map subscriptions: delta per key (state pages, stream pages, live transition, live pushes, removals)

type vfC14MapOp struct {
	Key      int
	Remove   bool
	Data     []byte
	UseDelta bool
	Tags     map[string]string
	Fault    int // 0 deliver, 1 drop, 2 dup
}

type vfC14MapStep struct {
	Kind    int // 0 writer op, 1 subscribe, 2 unsubscribe
	Conn    int
	Op      vfC14MapOp
	Join    int // 0 full handshake from state, 1 recovery via stream phase, 2 direct-to-live recovery join
	Limit   int
	Between [][]vfC14MapOp
	Gate    bool // park the live transition after its stream read; During runs meanwhile
	During  []vfC14MapOp
}

type vfC14MapCase struct {
	MapMode    int
	StreamSz   int
	AllowDelta bool
	Subs       []vfC14Sub
	Pre        []vfC14MapOp
	Steps      []vfC14MapStep
}

func (o vfC14MapOp) String() string {
	if o.Remove {
		return fmt.Sprintf("rm(k%d)", o.Key)
	}
	f := []string{"", " DROP", " DUP"}[o.Fault]
	return fmt.Sprintf("pub(k%d delta=%v %s%s %q)", o.Key, o.UseDelta, vfTagsStr(o.Tags), f, o.Data)
}

func vfC14MapOps(ops []vfC14MapOp) string {
	p := make([]string, len(ops))
	for i, o := range ops {
		p[i] = o.String()
	}
	return "[" + strings.Join(p, " ") + "]"
}

func (s vfC14MapStep) String() string {
	switch s.Kind {
	case 0:
		return s.Op.String()
	case 1:
		bt := make([]string, len(s.Between))
		for i, b := range s.Between {
			bt[i] = vfC14MapOps(b)
		}
		return fmt.Sprintf("mapSub(s%d join=%d limit=%d between=%s gate=%v during=%s)", s.Conn, s.Join, s.Limit, strings.Join(bt, ","), s.Gate, vfC14MapOps(s.During))
	}
	return fmt.Sprintf("unsub(s%d)", s.Conn)
}

func (c vfC14MapCase) String() string {
	subs := make([]string, len(c.Subs))
	for i, s := range c.Subs {
		subs[i] = fmt.Sprintf("s%d{%s delta=%v serverTF=%s clientTF=%s}", i, s.Proto, s.Delta, s.ServerTF, s.ClientTF)
	}
	st := make([]string, len(c.Steps))
	for i, s := range c.Steps {
		st[i] = s.String()
	}
	return fmt.Sprintf("MAP mode=%d streamSize=%d allowDelta=%v subs=[%s] pre=%s steps=[%s]", c.MapMode, c.StreamSz, c.AllowDelta, strings.Join(subs, " "),
		vfC14MapOps(c.Pre), strings.Join(st, " "))
}

// vfC14MapGen: payloads are JSON documents {"id":N,...} (id unique per write) edited per key.
type vfC14MapGenState struct {
	gens   map[int]*vfC14PayGen
	nextID int
}

func (g *vfC14MapGenState) op(rt *rapid.T, l string, filters, allowFault bool) vfC14MapOp {
	o := vfC14MapOp{Key: rapid.SampledFrom([]int{0, 0, 0, 0, 1, 1, 2, 3}).Draw(rt, l+"key")}
	o.Remove = rapid.IntRange(0, 6).Draw(rt, l+"rm") == 0
	if filters {
		o.Tags = vfTagsGen(rt, l+"tags")
	}
	if allowFault {
		o.Fault = rapid.SampledFrom([]int{0, 0, 0, 0, 0, 0, 0, 0, 0, 0, 1, 2}).Draw(rt, l+"fault")
	}
	if o.Remove {
		return o
	}
	pg := g.gens[o.Key]
	if pg == nil {
		pg = &vfC14PayGen{}
		pg.fresh(rt)
		g.gens[o.Key] = pg
	}
	g.nextID++
	switch rapid.SampledFrom([]int{0, 0, 0, 0, 0, 1, 2, 3}).Draw(rt, l+"pkind") {
	case 0:
		pg.edit(rt)
	case 1:
		pg.fresh(rt)
	case 2:
		// only the id changes
	default:
		o.Data = []byte(fmt.Sprintf(`{"id":%d}`, g.nextID))
	}
	if o.Data == nil {
		pg.doc.ID = g.nextID
		o.Data = pg.cur()
	}
	o.UseDelta = rapid.IntRange(0, 7).Draw(rt, l+"usedelta") > 0
	return o
}

func vfC14GenMap(rt *rapid.T) vfC14MapCase {
	c := vfC14MapCase{}
	c.MapMode = rapid.SampledFrom([]int{1, 2, 2, 2, 3, 3}).Draw(rt, "mapmode")
	c.StreamSz = rapid.SampledFrom([]int{8, 100, 100}).Draw(rt, "streamsz")
	c.AllowDelta = rapid.IntRange(0, 9).Draw(rt, "allow") > 0
	filters := rapid.IntRange(0, 4).Draw(rt, "filters") == 0
	ns := rapid.IntRange(1, 2).Draw(rt, "nsubs")
	for i := 0; i < ns; i++ {
		l := fmt.Sprintf("s%d", i)
		s := vfC14Sub{}
		s.Proto = rapid.SampledFrom([]ProtocolType{ProtocolTypeJSON, ProtocolTypeJSON, ProtocolTypeProtobuf}).Draw(rt, l+"proto")
		s.Delta = rapid.IntRange(0, 6).Draw(rt, l+"delta") > 0
		if filters {
			s.ServerTF = vfTFGenOpt(rt, l+"stf")
			s.ClientTF = vfTFGenOpt(rt, l+"ctf")
		}
		c.Subs = append(c.Subs, s)
	}
	g := &vfC14MapGenState{gens: map[int]*vfC14PayGen{}}
	np := rapid.IntRange(0, 6).Draw(rt, "npre")
	for i := 0; i < np; i++ {
		c.Pre = append(c.Pre, g.op(rt, "pre", filters, false))
	}
	n := rapid.IntRange(6, 24).Draw(rt, "nsteps")
	for i := 0; i < n; i++ {
		k := rapid.SampledFrom([]int{0, 0, 0, 0, 0, 0, 0, 1, 1, 2, 2}).Draw(rt, "kind")
		if i < ns {
			k = 1
		}
		s := vfC14MapStep{Kind: k}
		switch k {
		case 0:
			s.Op = g.op(rt, "w", filters, true)
		case 1:
			s.Conn = rapid.IntRange(0, ns-1).Draw(rt, "conn")
			s.Join = rapid.SampledFrom([]int{0, 0, 1, 2, 2}).Draw(rt, "join")
			if i < ns {
				s.Conn, s.Join = i, 0
			}
			s.Limit = rapid.SampledFrom([]int{1, 2, 3, 100, 100}).Draw(rt, "limit")
			nb := rapid.IntRange(0, 3).Draw(rt, "nbetween")
			for j := 0; j < nb; j++ {
				var ops []vfC14MapOp
				no := rapid.IntRange(0, 2).Draw(rt, "nbops")
				for q := 0; q < no; q++ {
					ops = append(ops, g.op(rt, "b", filters, false))
				}
				s.Between = append(s.Between, ops)
			}
			s.Gate = rapid.IntRange(0, 2).Draw(rt, "gate") == 0
			if s.Gate {
				nd := rapid.IntRange(1, 5).Draw(rt, "nduring")
				for q := 0; q < nd; q++ {
					s.During = append(s.During, g.op(rt, "d", filters, false))
				}
			}
		default:
			s.Conn = rapid.IntRange(0, ns-1).Draw(rt, "conn")
		}
		c.Steps = append(c.Steps, s)
	}
	return c
}

type vfC14MapBroker struct {
	MapBroker
	h     BrokerEventHandler
	fault func() int
	hook  func(point string)
}

func (b *vfC14MapBroker) Close(ctx context.Context) error {
	if c, ok := b.MapBroker.(Closer); ok {
		return c.Close(ctx)
	}
	return nil
}

func (b *vfC14MapBroker) RegisterEventHandler(h BrokerEventHandler) error {
	b.h = h
	return b.MapBroker.RegisterEventHandler(b)
}

func (b *vfC14MapBroker) HandlePublication(ch string, pub *Publication, sp StreamPosition, useDelta bool, prevPub *Publication) error {
	switch b.fault() {
	case 1:
		return nil
	case 2:
		_ = b.h.HandlePublication(ch, pub, sp, useDelta, prevPub)
	}
	return b.h.HandlePublication(ch, pub, sp, useDelta, prevPub)
}

func (b *vfC14MapBroker) HandleJoin(ch string, info *ClientInfo) error  { return b.h.HandleJoin(ch, info) }
func (b *vfC14MapBroker) HandleLeave(ch string, info *ClientInfo) error { return b.h.HandleLeave(ch, info) }

func (b *vfC14MapBroker) ReadStream(ctx context.Context, ch string, opts MapReadStreamOptions) (MapStreamResult, error) {
	r, err := b.MapBroker.ReadStream(ctx, ch, opts)
	if opts.Filter.Limit > 100 && opts.Filter.Since != nil && b.hook != nil {
		b.hook("transition_read_after")
	}
	return r, err
}

type vfC14MapRec struct {
	ID      int
	Key     string
	Data    []byte
	Tags    map[string]string
	Removed bool
	Offset  uint64
}

type vfC14MapSubject struct {
	idx        int
	cfg        vfC14Sub
	conn       *vfConn
	connN      int
	seen       int
	subscribed bool
	dead       bool
	subIDs     map[uint32]bool
	// client model
	negotiated bool // delta negotiated for the live subscription
	bases      map[string][]byte
	baseID     map[string]int
	desync     map[string]bool
	hasPos     bool
	posOff     uint64
	posEpoch   string
	realDeltas int
	deliveries int
}

func vfC14RunMap(t *testing.T, cs vfC14MapCase, out *vfC14Out, isKnown func(string) bool) string {
	return vfBubble(t, func() string {
		ch := "m"
		ctx := context.Background()
		mode := MapMode(cs.MapMode)
		cfg := Config{}
		cfg.Map.GetMapChannelOptions = func(string) MapChannelOptions {
			o := MapChannelOptions{Mode: mode, MinPageSize: 1, DefaultPageSize: 2, MaxPageSize: 1000}
			if mode.HasExpiry() {
				o.KeyTTL = 10 * time.Minute
			}
			if mode.HasStream() {
				o.StreamSize = cs.StreamSz
				o.StreamTTL = 10 * time.Minute
			}
			return o
		}
		var proxy *vfC14MapBroker
		nextFault := 0
		w, err := vfNewWorld(cfg, func(w *vfWorld) {
			mb, err := NewMemoryMapBroker(w.node, MemoryMapBrokerConfig{})
			if err != nil {
				panic(err)
			}
			proxy = &vfC14MapBroker{MapBroker: mb, fault: func() int { return nextFault }}
			w.node.SetMapBroker(proxy)
		})
		if err != nil {
			return "infra: " + err.Error()
		}
		defer w.Close()
		time.Sleep(500 * time.Millisecond)
		gateOn := false
		proxy.hook = func(point string) {
			if gateOn {
				w.Gates.Pass("maptransition")
			}
		}
		subjects := make([]*vfC14MapSubject, len(cs.Subs))
		byName := map[string]*vfC14MapSubject{}
		for i, sc := range cs.Subs {
			subjects[i] = &vfC14MapSubject{idx: i, cfg: sc, subIDs: map[uint32]bool{}, bases: map[string][]byte{}, baseID: map[string]int{}, desync: map[string]bool{}}
		}
		w.OnSubscribe = func(c *vfConn, e SubscribeEvent, cb SubscribeCallback) {
			s := byName[c.Name]
			if s == nil {
				cb(SubscribeReply{}, ErrorPermissionDenied)
				return
			}
			o := SubscribeOptions{Type: e.Type, AllowTagsFilter: true, ServerTagsFilter: s.cfg.ServerTF.Proto()}
			if cs.AllowDelta {
				o.AllowedDeltaTypes = []DeltaType{DeltaTypeFossil}
			}
			cb(SubscribeReply{Options: o}, nil)
		}

		// ---- write log -------------------------------------------------------------------------------------------
		log := make([]vfC14MapRec, 0, 256)
		byID := map[int]*vfC14MapRec{}
		byOff := map[uint64]*vfC14MapRec{}
		exists := map[string]bool{}
		prevOfKey := map[string]*vfC14MapRec{} // latest write per key (nil after a removal)
		judgeAll := func() string { return "" }
		faults := 0
		write := func(op vfC14MapOp) string {
			if len(log) == cap(log) {
				return ""
			}
			key := fmt.Sprintf("k%d", op.Key)
			rec := vfC14MapRec{Key: key, Tags: op.Tags}
			nextFault = op.Fault
			if op.Remove {
				if !exists[key] {
					nextFault = 0
					return ""
				}
				rec.Removed = true
				res, err := w.node.MapRemove(ctx, ch, key, MapRemoveOptions{Tags: op.Tags})
				nextFault = 0
				if err != nil || res.Suppressed {
					return fmt.Sprintf("infra: MapRemove: %v suppressed=%v", err, res.Suppressed)
				}
				rec.Offset = res.Position.Offset
				delete(exists, key)
			} else {
				id, _ := vfC14PayloadID(op.Data)
				rec.ID, rec.Data = id, op.Data
				res, err := w.node.MapPublish(ctx, ch, key, MapPublishOptions{Data: op.Data, Tags: op.Tags, UseDelta: op.UseDelta})
				nextFault = 0
				if err != nil || res.Suppressed {
					return fmt.Sprintf("infra: MapPublish: %v suppressed=%v", err, res.Suppressed)
				}
				rec.Offset = res.Position.Offset
				exists[key] = true
			}
			if op.Fault != 0 {
				faults++
			}
			log = append(log, rec)
			r := &log[len(log)-1]
			if r.ID != 0 {
				byID[r.ID] = r
			}
			if mode.HasStream() {
				byOff[r.Offset] = r
			}
			vfSettle()
			m := judgeAll()
			if r.Removed {
				prevOfKey[key] = nil
			} else {
				prevOfKey[key] = r
			}
			return m
		}
		for _, op := range cs.Pre {
			if m := write(op); m != "" {
				return m
			}
		}

		// ---- client model ----------------------------------------------------------------------------------------
		admits := func(s *vfC14MapSubject, tags map[string]string) bool {
			return s.cfg.ServerTF.Match(tags) && s.cfg.ClientTF.Match(tags)
		}
		// process applies one publication (state entry or stream/live publication) to the model of subject s.
		// escaped: the harness knows whether the server JSON-escapes on this path (delta requested, allowed, JSON transport).
		process := func(s *vfC14MapSubject, p *protocol.Publication, where string, escaped bool, frames []vfFrame) string {
			fail := func(format string, a ...any) string {
				return fmt.Sprintf("s%d %s (key %s offset %d delta=%v removed=%v): ", s.idx, where, p.Key, p.Offset, p.Delta, p.Removed) + fmt.Sprintf(format, a...) +
					"; frames: " + vfC14RenderMap(frames)
			}
			payload := []byte(p.Data)
			if escaped && len(payload) > 0 {
				var str string
				if err := json.Unmarshal(payload, &str); err != nil {
					return fail("delta was negotiated on a JSON transport but the data %q is not a JSON string (%v)", vfTrunc(string(payload), 80), err)
				}
				payload = []byte(str)
				out.label("json_string_payload_unquoted")
			}
			if p.Removed {
				delete(s.bases, p.Key)
				delete(s.baseID, p.Key)
				delete(s.desync, p.Key)
				out.label("map_removal_delivered")
				return ""
			}
			// what the log says was published at this offset (positioned) - used to resynchronise after a known finding
			var want *vfC14MapRec
			if p.Offset > 0 && mode.HasStream() {
				want = byOff[p.Offset]
			}
			known := func(key, msg string) string {
				if !isKnown(key) {
					return "[" + key + "] " + msg
				}
				out.known = append(out.known, key)
				out.knownEx = msg
				if want != nil && !want.Removed {
					s.bases[p.Key], s.baseID[p.Key] = want.Data, want.ID
					delete(s.desync, p.Key)
				} else {
					delete(s.bases, p.Key)
					s.desync[p.Key] = true
				}
				return ""
			}
			data := payload
			if p.Delta {
				if s.desync[p.Key] {
					return ""
				}
				if !s.negotiated && !escaped {
					return fail("delta publication on a subscription that did not negotiate delta")
				}
				base, ok := s.bases[p.Key]
				filtered := func() bool {
					// the previous write of this key is excluded by the subject's filters (so no path delivered it)
					pr := prevOfKey[p.Key]
					return (s.cfg.ServerTF != nil || s.cfg.ClientTF != nil) && pr != nil && !admits(s, pr.Tags)
				}
				if !ok {
					msg := fail("delta publication although the client holds no payload for this key")
					if filtered() {
						return known("C14:map-delta-base-is-an-entry-the-tags-filter-excluded", msg)
					}
					return msg
				}
				d, err := fdelta.Apply(base, payload)
				bad := ""
				if err != nil {
					bad = fail("fdelta.Apply failed: %v (base %q patch %q)", err, vfTrunc(string(base), 100), vfTrunc(string(payload), 100))
				} else if id, okID := vfC14PayloadID(d); !okID || byID[id] == nil || !bytes.Equal(byID[id].Data, d) {
					bad = fail("the reconstructed payload %q is not a payload that was published (base %q)", vfTrunc(string(d), 120), vfTrunc(string(base), 100))
				}
				if bad != "" {
					switch {
					case s.cfg.Proto == ProtocolTypeJSON && bytes.Contains(payload, []byte("�")):
						return known("C14:json-delta-patch-cuts-multibyte-utf8-sequence", bad)
					case filtered():
						return known("C14:map-delta-base-is-an-entry-the-tags-filter-excluded", bad)
					}
					return bad
				}
				data = d
			} else {
				delete(s.desync, p.Key)
			}
			id, okID := vfC14PayloadID(data)
			if !okID || byID[id] == nil {
				return fail("payload %q is not a payload that was published", vfTrunc(string(data), 120))
			}
			rec := byID[id]
			if rec.Key != p.Key || !bytes.Equal(rec.Data, data) {
				return fail("payload %q differs from what was published as id %d under key %s: %q", vfTrunc(string(data), 120), id, rec.Key, vfTrunc(string(rec.Data), 120))
			}
			if p.Offset > 0 && mode.HasStream() && rec.Offset != p.Offset {
				return fail("payload id %d was published at offset %d", id, rec.Offset)
			}
			if p.Delta {
				s.realDeltas++
				out.label("real_delta_applied")
			}
			s.deliveries++
			s.bases[p.Key], s.baseID[p.Key] = data, id
			return ""
		}
		escapes := func(s *vfC14MapSubject) bool {
			return s.cfg.Delta && cs.AllowDelta && s.cfg.Proto == ProtocolTypeJSON
		}
		judge := func(s *vfC14MapSubject) string {
			if s.conn == nil {
				return ""
			}
			frames := s.conn.Frames()
			for fi := s.seen; fi < len(frames); fi++ {
				f := frames[fi]
				if f.Err != nil {
					return fmt.Sprintf("s%d frame %d undecodable: %v raw=%q", s.idx, fi, f.Err, vfTrunc(string(f.Raw), 200))
				}
				r := f.Reply
				if r.Unsubscribe != nil {
					s.subscribed = false
				}
				if r.Push != nil && r.Push.Channel == ch && r.Push.Unsubscribe != nil {
					s.subscribed = false
				}
				if r.Push != nil && r.Push.Disconnect != nil {
					s.subscribed, s.dead = false, true
				}
				if res := r.Subscribe; res != nil && r.Error == nil && s.subIDs[r.Id] {
					esc := escapes(s)
					if res.Phase == MapPhaseLive {
						s.negotiated = res.Delta
						if res.Delta {
							out.label("delta_negotiated")
						}
					}
					for i, p := range res.State {
						if m := process(s, p, fmt.Sprintf("subscribe reply #%d (phase %d) state[%d]", r.Id, res.Phase, i), esc, frames); m != "" {
							return m
						}
					}
					for i, p := range res.Publications {
						if m := process(s, p, fmt.Sprintf("subscribe reply #%d (phase %d) publications[%d]", r.Id, res.Phase, i), esc, frames); m != "" {
							return m
						}
					}
				}
				if r.Push != nil && r.Push.Channel == ch && r.Push.Pub != nil {
					if m := process(s, r.Push.Pub, fmt.Sprintf("publication push (frame %d)", fi), s.negotiated && s.cfg.Proto == ProtocolTypeJSON, frames); m != "" {
						return m
					}
					if r.Push.Pub.Offset > 0 && s.subscribed {
						s.posOff = r.Push.Pub.Offset
					}
				}
			}
			s.seen = len(frames)
			if closed, _ := s.conn.T.Closed(); closed {
				s.subscribed, s.dead = false, true
			}
			return ""
		}
		judgeAll = func() string {
			for _, s := range subjects {
				if m := judge(s); m != "" {
					return m
				}
			}
			return ""
		}
		newConn := func(s *vfC14MapSubject) {
			s.connN++
			name := fmt.Sprintf("s%d.%d", s.idx, s.connN)
			s.conn = w.NewConn(vfConnCfg{Name: name, User: "u", Proto: s.cfg.Proto})
			s.seen, s.dead, s.subscribed = 0, false, false
			s.subIDs = map[uint32]bool{}
			byName[name] = s
			s.conn.Connect(nil)
		}
		parked := func() bool { return w.Gates.Waiting("maptransition") > 0 }
		releaseGate := func() {
			gateOn = false
			w.Gates.Disarm("maptransition")
			for w.Gates.Release("maptransition") {
			}
			vfSettle()
		}
		send := func(s *vfC14MapSubject, req *protocol.SubscribeRequest, during []vfC14MapOp) (*protocol.Reply, string) {
			id := s.conn.NextID()
			s.subIDs[id] = true
			conn := s.conn
			go conn.Cmd(&protocol.Command{Id: id, Subscribe: req})
			vfSettle()
			if parked() {
				out.label("live_transition_parked_after_stream_read")
				for _, op := range during {
					if m := write(op); m != "" {
						return nil, m
					}
				}
				releaseGate()
			}
			for _, f := range conn.Frames() {
				if f.Reply != nil && f.Reply.Id == id {
					return f.Reply, ""
				}
			}
			return nil, ""
		}
		handshake := func(s *vfC14MapSubject, st vfC14MapStep) string {
			if s.conn == nil || s.dead {
				newConn(s)
			}
			delta := ""
			if s.cfg.Delta {
				delta = string(DeltaTypeFossil)
			}
			tf := s.cfg.ClientTF.Proto()
			join := st.Join
			if !mode.HasStream() || !s.hasPos {
				join = 0
			}
			base := protocol.SubscribeRequest{Channel: ch, Type: int32(SubscriptionTypeMap), Tf: tf, Delta: delta}
			req := base
			switch join {
			case 0:
				// a fresh state sync: the SDK drops the state it held
				s.bases, s.baseID, s.desync = map[string][]byte{}, map[string]int{}, map[string]bool{}
				req.Phase, req.Limit = MapPhaseState, int32(st.Limit)
			case 1:
				req.Phase, req.Limit, req.Recover, req.Offset, req.Epoch = MapPhaseStream, int32(st.Limit), true, s.posOff, s.posEpoch
			default:
				req.Phase, req.Recover, req.Offset, req.Epoch = MapPhaseLive, true, s.posOff, s.posEpoch
			}
			out.label(fmt.Sprintf("map_join_kind_%d", join))
			if st.Gate {
				gateOn = true
				w.Gates.Arm("maptransition", 1)
			}
			defer releaseGate()
			for round := 0; round < 14; round++ {
				r := req
				rep, m := send(s, &r, st.During)
				if m != "" {
					return m
				}
				if m := judgeAll(); m != "" {
					return m
				}
				if rep == nil {
					return ""
				}
				if rep.Error != nil || rep.Subscribe == nil {
					out.label(fmt.Sprintf("map_handshake_error_%d", rep.Error.GetCode()))
					if join != 0 {
						s.hasPos = false // unrecoverable: the SDK falls back to a full state sync
					}
					return ""
				}
				res := rep.Subscribe
				if res.Phase == MapPhaseLive {
					s.subscribed = true
					s.hasPos = mode.HasStream()
					s.posOff, s.posEpoch = res.Offset, res.Epoch
					out.label("map_live_reached")
					return ""
				}
				if round < len(st.Between) {
					for _, op := range st.Between[round] {
						if m := write(op); m != "" {
							return m
						}
					}
				}
				req = base
				req.Limit, req.Offset, req.Epoch = int32(st.Limit), res.Offset, res.Epoch
				if res.Phase == MapPhaseState && res.Cursor != "" {
					req.Phase, req.Cursor = MapPhaseState, res.Cursor
				} else {
					req.Phase = MapPhaseStream
				}
			}
			return ""
		}

		for si, st := range cs.Steps {
			switch st.Kind {
			case 0:
				if m := write(st.Op); m != "" {
					return fmt.Sprintf("step %d (%s): %s", si, st, m)
				}
			case 1:
				s := subjects[st.Conn]
				if s.subscribed && (st.Join == 0 || !mode.HasStream()) {
					continue
				}
				if s.conn != nil && !s.dead {
					s.conn.Cmd(&protocol.Command{Id: s.conn.NextID(), Unsubscribe: &protocol.UnsubscribeRequest{Channel: ch}})
					vfSettle()
					if m := judge(s); m != "" {
						return fmt.Sprintf("step %d (%s): %s", si, st, m)
					}
				}
				if m := handshake(s, st); m != "" {
					return fmt.Sprintf("step %d (%s): %s", si, st, m)
				}
			case 2:
				s := subjects[st.Conn]
				if !s.subscribed || s.conn == nil || s.dead {
					continue
				}
				s.conn.Cmd(&protocol.Command{Id: s.conn.NextID(), Unsubscribe: &protocol.UnsubscribeRequest{Channel: ch}})
				vfSettle()
			}
			if m := judgeAll(); m != "" {
				return fmt.Sprintf("after step %d (%s): %s", si, st, m)
			}
		}
		time.Sleep(time.Second)
		vfSettle()
		if m := judgeAll(); m != "" {
			return "at the end: " + m
		}
		for _, s := range subjects {
			if s.realDeltas > 0 && s.deliveries >= 2 {
				out.nontrivial = true
				out.label("nontrivial_real_delta_between_deliveries")
			}
		}
		if faults > 0 {
			out.label("pubsub_fault_injected")
		}
		out.label(fmt.Sprintf("kind_map_mode%d", cs.MapMode))
		return ""
	})
}

func vfC14PayloadID(data []byte) (int, bool) {
	var v struct {
		ID *int `json:"id"`
	}
	if err := json.Unmarshal(data, &v); err != nil || v.ID == nil {
		return 0, false
	}
	return *v.ID, true
}

func vfC14RenderMap(fs []vfFrame) string {
	parts := make([]string, 0, len(fs))
	pubs := func(ps []*protocol.Publication) string {
		x := make([]string, len(ps))
		for i, p := range ps {
			fl := ""
			if p.Removed {
				fl += " removed"
			}
			if p.Delta {
				fl += " delta"
			}
			x[i] = fmt.Sprintf("%s@%d%s %q", p.Key, p.Offset, fl, vfTrunc(string(p.Data), 60))
		}
		return "[" + strings.Join(x, ", ") + "]"
	}
	for _, f := range fs {
		r := f.Reply
		switch {
		case r == nil:
			parts = append(parts, "<undecodable>")
		case r.Subscribe != nil:
			parts = append(parts, fmt.Sprintf("#%d subscribe{phase=%d off=%d cursor=%q recovered=%v delta=%v state=%s pubs=%s}", r.Id, r.Subscribe.Phase, r.Subscribe.Offset,
				r.Subscribe.Cursor, r.Subscribe.Recovered, r.Subscribe.Delta, pubs(r.Subscribe.State), pubs(r.Subscribe.Publications)))
		case r.Push != nil && r.Push.Pub != nil:
			parts = append(parts, "push.pub"+pubs([]*protocol.Publication{r.Push.Pub}))
		default:
			parts = append(parts, vfRenderReply(r))
		}
	}
	return strings.Join(parts, " | ")
}

func TestVF_C14(t *testing.T) {
	vfCheck(t, "C14", func(rt *rapid.T, c *vfCase) string {
		out := &vfC14Out{}
		var msg string
		if rapid.IntRange(0, 9).Draw(rt, "caseKind") >= 6 {
			cs := vfC14GenMap(rt)
			c.Describe(cs.String())
			msg = vfC14RunMap(t, cs, out, c.IsKnown)
		} else {
			cs := vfC14Gen(rt)
			c.Describe(cs.String())
			msg = vfC14Run(t, cs, out, c.IsKnown)
		}
		seen := map[string]bool{}
		for _, l := range out.labels {
			if !seen[l] {
				seen[l] = true
				c.Label(l)
			}
		}
		for _, k := range out.known {
			c.Known(k, out.knownEx)
		}
		if out.nontrivial {
			c.Nontrivial(c.desc)
		}
		return msg
	})
}
