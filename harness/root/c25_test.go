package PKGNAME

// C25 — Shared-poll keyed delivery is monotonic and delta-consistent.
//
// A real Node with one shared-poll channel ("sp"), three keys and three connections runs a drawn schedule of
// subscribe / track (multi batch, inline untrack, gated async OnTrack) / untrack / backend mutations / gated backend
// polls / SharedPollPublish (PUB/SUB faults when PublishEnabled) / notify / revoke / unsubscribe / close / epoch
// change / virtual time advances. The backend behind Node.OnSharedPoll is a model (per key: version, data, removed;
// a publisher epoch) that logs everything it ever supplied. The oracle replays every connection's decoded frames in
// write order through a client model.

import (
	"context"
	"encoding/json"
	"errors"
	"fmt"
	"os"
	"sort"
	"strings"
	"sync"
	"testing"
	"time"

	"github.com/centrifugal/protocol"
	fdelta "github.com/shadowspore/fossil-delta"
	"pgregory.net/rapid"
)

const (
	vfC25Sub = iota
	vfC25Track
	vfC25Untrack
	vfC25Set
	vfC25Remove
	vfC25Publish
	vfC25Notify
	vfC25Revoke
	vfC25Unsub
	vfC25Close
	vfC25Adv
	vfC25ArmPoll
	vfC25Release
	vfC25Fail
	vfC25Epoch
	vfC25ArmBcast
)

const vfC25Chan = "sp"

var vfC25Keys = []string{"a", "b", "c"}

type vfC25Pick struct {
	Key   int
	Cache bool // claim the cached version (when the client model has a valid one), else 0
}

type vfC25Step struct {
	Kind    int
	Conn    int
	Batches [][]vfC25Pick
	Inline  []int
	Gate    bool // track: park OnTrack; armPoll: park after the backend snapshot was taken (else before); set: notify
	Keys    []int
	Key     int
	Bump    int
	Revert  bool // set (versionless): go back to the previous payload
	VMode   int  // publish: 0 fresh(+1) 1 fresh(+2) 2 equal 3 stale
	Fault   int  // publish delivery (PublishEnabled): 0 deliver 1 hold 2 dup 3 drop
	NewEp   bool // publish: publisher restarted (epoch change) first
	EmptyEp bool // publish with the empty epoch ("skip the check")
	Users   int  // revoke: 0 everybody, 1 only the conn's user, 2 everybody but the conn's user
	Adv     int  // 0: 100ms 1: 600ms 2: one interval 3: three intervals
	N       int
	GateB   bool // track: park in the command-processed callback, i.e. after trackKeys + reply and before the keyed hub is joined
	Trig    int // armPoll: 0 nothing, 1 notify Key right away, 2 advance one interval right away
}

type vfC25ConnCfg struct {
	Proto ProtocolType
	Delta bool
}

type vfC25Case struct {
	Versioned  bool
	Keep       bool
	PubEnabled bool
	IntervalMs int
	Shutdown   int // 0 default(1s), -1 immediate, 3 = 3s
	BatchSize  int
	NotifBatch int // 0 none, 1 size 2 + 300ms, 2 delay 200ms
	SkipSame   bool
	SendPrev   bool
	EpochMode  int // 0 publisher never uses epochs, 1 uses them
	Pad        int
	Conns      []vfC25ConnCfg
	Steps      []vfC25Step
}

func vfC25KeysStr(ks []int) string {
	p := make([]string, len(ks))
	for i, k := range ks {
		p[i] = vfC25Keys[k]
	}
	return strings.Join(p, ",")
}

func (s vfC25Step) String() string {
	cn := string(rune('x' + s.Conn))
	switch s.Kind {
	case vfC25Sub:
		return "sub(" + cn + ")"
	case vfC25Track:
		var bs []string
		for _, b := range s.Batches {
			var it []string
			for _, p := range b {
				v := "0"
				if p.Cache {
					v = "cached"
				}
				it = append(it, vfC25Keys[p.Key]+"@"+v)
			}
			bs = append(bs, "["+strings.Join(it, " ")+"]")
		}
		r := "track(" + cn + " " + strings.Join(bs, "")
		if len(s.Inline) > 0 {
			r += " untrack=" + vfC25KeysStr(s.Inline)
		}
		if s.Gate {
			r += " parked"
		}
		if s.GateB {
			r += " parked-before-hub-join"
		}
		return r + ")"
	case vfC25Untrack:
		return "untrack(" + cn + " " + vfC25KeysStr(s.Keys) + ")"
	case vfC25Set:
		nt := ""
		if s.Gate {
			nt = " +notify"
		}
		if s.Revert {
			return "set(" + vfC25Keys[s.Key] + " revert" + nt + ")"
		}
		return fmt.Sprintf("set(%s +%d%s)", vfC25Keys[s.Key], s.Bump, nt)
	case vfC25Remove:
		return "remove(" + vfC25Keys[s.Key] + ")"
	case vfC25Publish:
		r := fmt.Sprintf("publish(%s %s %s", vfC25Keys[s.Key], []string{"+1", "+2", "equal", "stale"}[s.VMode], []string{"deliver", "hold", "dup", "drop"}[s.Fault])
		if s.NewEp {
			r += " newEpoch"
		}
		if s.EmptyEp {
			r += " emptyEpoch"
		}
		return r + ")"
	case vfC25Notify:
		return "notify(" + vfC25KeysStr(s.Keys) + ")"
	case vfC25Revoke:
		return fmt.Sprintf("revoke(%s %s)", vfC25KeysStr(s.Keys), []string{"all", "user-of-" + cn, "except-user-of-" + cn}[s.Users])
	case vfC25Unsub:
		return "unsub(" + cn + ")"
	case vfC25Close:
		return "close(" + cn + ")"
	case vfC25Adv:
		return "adv(" + []string{"100ms", "600ms", "1iv", "3iv"}[s.Adv] + ")"
	case vfC25ArmPoll:
		pos := "before-read"
		if s.Gate {
			pos = "after-read"
		}
		return "armPoll(" + pos + []string{"", " +notify:" + vfC25Keys[s.Key], " +adv1iv"}[s.Trig] + ")"
	case vfC25Release:
		if s.Trig == 1 {
			return "release(poll)"
		}
		if s.Trig == 2 {
			return "release(broadcast)"
		}
		return fmt.Sprintf("release(%d)", s.N)
	case vfC25Fail:
		return fmt.Sprintf("failNextPolls(%d)", 1+s.N)
	case vfC25Epoch:
		return "epochChange"
	case vfC25ArmBcast:
		return "armBroadcast"
	}
	return "?"
}

func (c vfC25Case) String() string {
	st := make([]string, len(c.Steps))
	for i, s := range c.Steps {
		st[i] = s.String()
	}
	var cn []string
	for i, cc := range c.Conns {
		cn = append(cn, fmt.Sprintf("%c:%s/delta=%v", 'x'+i, cc.Proto, cc.Delta))
	}
	return fmt.Sprintf("versioned=%v keep=%v pubEnabled=%v interval=%dms shutdown=%d batch=%d notifBatch=%d skipSame=%v sendPrev=%v epochMode=%d pad=%d conns=[%s] steps=[%s]",
		c.Versioned, c.Keep, c.PubEnabled, c.IntervalMs, c.Shutdown, c.BatchSize, c.NotifBatch, c.SkipSame, c.SendPrev, c.EpochMode, c.Pad,
		strings.Join(cn, " "), strings.Join(st, " "))
}

func vfC25GenKeys(rt *rapid.T, label string) []int {
	n := rapid.SampledFrom([]int{1, 1, 1, 2, 3}).Draw(rt, label+"n")
	seen := map[int]bool{}
	var out []int
	for i := 0; i < n; i++ {
		k := rapid.IntRange(0, len(vfC25Keys)-1).Draw(rt, label)
		if !seen[k] {
			seen[k] = true
			out = append(out, k)
		}
	}
	return out
}

func vfC25GenTrack(rt *rapid.T, s *vfC25Step) {
	nb := rapid.SampledFrom([]int{1, 1, 1, 2}).Draw(rt, "nbatches")
	var all []int
	for b := 0; b < nb; b++ {
		ni := rapid.SampledFrom([]int{1, 1, 2, 3}).Draw(rt, "nitems")
		var batch []vfC25Pick
		for i := 0; i < ni; i++ {
			p := vfC25Pick{Key: rapid.IntRange(0, len(vfC25Keys)-1).Draw(rt, "tkey"), Cache: rapid.Bool().Draw(rt, "tcache")}
			batch = append(batch, p)
			all = append(all, p.Key)
		}
		s.Batches = append(s.Batches, batch)
	}
	if rapid.IntRange(0, 5).Draw(rt, "inline") == 0 {
		s.Inline = []int{all[rapid.IntRange(0, len(all)-1).Draw(rt, "inlineKey")]}
	}
	s.Gate = rapid.IntRange(0, 3).Draw(rt, "tgate") == 0
	s.GateB = !s.Gate && rapid.IntRange(0, 3).Draw(rt, "tgateB") == 0
}

func vfC25Gen(rt *rapid.T) vfC25Case {
	c := vfC25Case{}
	c.Versioned = rapid.IntRange(0, 3).Draw(rt, "versioned") > 0
	c.Keep = rapid.Bool().Draw(rt, "keep")
	c.PubEnabled = rapid.Bool().Draw(rt, "pubEnabled")
	c.IntervalMs = rapid.SampledFrom([]int{1000, 2000, 5000}).Draw(rt, "interval")
	c.Shutdown = rapid.SampledFrom([]int{0, 0, 3, 3, -1}).Draw(rt, "shutdown")
	c.BatchSize = rapid.SampledFrom([]int{0, 0, 0, 1, 2}).Draw(rt, "batch")
	c.NotifBatch = rapid.SampledFrom([]int{0, 0, 1, 2}).Draw(rt, "notifBatch")
	c.SkipSame = rapid.Bool().Draw(rt, "skipSame")
	c.SendPrev = rapid.Bool().Draw(rt, "sendPrev")
	if c.Versioned {
		c.EpochMode = rapid.SampledFrom([]int{0, 0, 1}).Draw(rt, "epochMode")
	}
	c.Pad = rapid.SampledFrom([]int{0, 60, 60, 60, 90}).Draw(rt, "pad")
	for i := 0; i < 3; i++ {
		c.Conns = append(c.Conns, vfC25ConnCfg{
			Proto: rapid.SampledFrom([]ProtocolType{ProtocolTypeJSON, ProtocolTypeProtobuf}).Draw(rt, "proto"),
			Delta: rapid.IntRange(0, 3).Draw(rt, "delta") > 0,
		})
	}
	// every schedule starts with the minimal scenario (x subscribes and tracks key a from scratch) plus a second tracker
	tr := func(conn int, keys ...int) vfC25Step {
		var b []vfC25Pick
		for _, k := range keys {
			b = append(b, vfC25Pick{Key: k})
		}
		return vfC25Step{Kind: vfC25Track, Conn: conn, Batches: [][]vfC25Pick{b}}
	}
	c.Steps = append(c.Steps, vfC25Step{Kind: vfC25Sub, Conn: 0}, vfC25Step{Kind: vfC25Sub, Conn: 1}, tr(0, 0), tr(1, 0, 1))
	if c.EpochMode == 1 {
		// with a publisher epoch the first poll of a fresh channel state ends the subscriptions (""→epoch); come back
		c.Steps = append(c.Steps, vfC25Step{Kind: vfC25Adv, Adv: 0}, vfC25Step{Kind: vfC25Sub, Conn: 0}, vfC25Step{Kind: vfC25Sub, Conn: 1}, tr(0, 0), tr(1, 0, 1))
	}
	kinds := []int{vfC25Sub, vfC25Sub, vfC25Track, vfC25Track, vfC25Track, vfC25Track, vfC25Track, vfC25Track, vfC25Untrack, vfC25Untrack,
		vfC25Set, vfC25Set, vfC25Set, vfC25Set, vfC25Set, vfC25Set, vfC25Set, vfC25Remove, vfC25Notify, vfC25Revoke, vfC25Unsub,
		vfC25Adv, vfC25Adv, vfC25Adv, vfC25Adv, vfC25Adv, vfC25Adv, vfC25ArmPoll, vfC25ArmPoll, vfC25ArmPoll, vfC25ArmPoll, vfC25ArmPoll, vfC25ArmPoll,
		vfC25Release, vfC25Release, vfC25Release, vfC25Release, vfC25Release, vfC25Fail, vfC25ArmBcast, vfC25ArmBcast}
	if c.Versioned {
		kinds = append(kinds, vfC25Publish, vfC25Publish, vfC25Publish, vfC25Publish, vfC25Publish, vfC25Publish)
	}
	if c.EpochMode == 1 {
		kinds = append(kinds, vfC25Epoch)
	}
	raceKinds := []int{vfC25Track, vfC25Track, vfC25Untrack, vfC25Set, vfC25Unsub, vfC25Revoke, vfC25Adv}
	if c.Versioned {
		raceKinds = append(raceKinds, vfC25Publish, vfC25Publish, vfC25Publish)
	}
	if rapid.IntRange(0, 2).Draw(rt, "dropRetrack") > 0 {
		// A key that only one connection tracks gets updates, loses its last tracker (its itemIndex entry is dropped while the
		// other keys keep the channel state and its epoch alive), changes again and is tracked again with the remembered version.
		dc := rapid.IntRange(0, 1).Draw(rt, "dropConn")
		adv := vfC25Step{Kind: vfC25Adv, Adv: 1}
		c.Steps = append(c.Steps, tr(dc, 2), adv)
		for u := rapid.IntRange(1, 3).Draw(rt, "dropUpdates"); u > 0; u-- {
			c.Steps = append(c.Steps, vfC25Step{Kind: vfC25Set, Key: 2, Bump: 1, Gate: true}, adv)
		}
		c.Steps = append(c.Steps, vfC25Step{Kind: vfC25Untrack, Conn: dc, Keys: []int{2}}, vfC25Step{Kind: vfC25Set, Key: 2, Bump: 1},
			vfC25Step{Kind: vfC25Track, Conn: dc, Batches: [][]vfC25Pick{{{Key: 2, Cache: rapid.IntRange(0, 3).Draw(rt, "dropCache") > 0}}}},
			vfC25Step{Kind: vfC25Adv, Adv: 2})
	}
	n := rapid.IntRange(8, 40).Draw(rt, "nsteps")
	window := 0 // >0: inside a poll window opened by armPoll: draw racing operations, then answer the poll
	for i := 0; i < n; i++ {
		var k int
		switch {
		case window > 1:
			k = rapid.SampledFrom(raceKinds).Draw(rt, "raceKind")
			window--
		case window == 1:
			k = vfC25Release
			window = 0
			c.Steps = append(c.Steps, vfC25Step{Kind: vfC25Release, Trig: 1})
			continue
		default:
			k = rapid.SampledFrom(kinds).Draw(rt, "kind")
		}
		if k == vfC25Unsub && rapid.IntRange(0, 9).Draw(rt, "closeInstead") == 0 {
			k = vfC25Close
		}
		s := vfC25Step{Kind: k}
		switch k {
		case vfC25Sub, vfC25Unsub, vfC25Close:
			s.Conn = rapid.IntRange(0, 2).Draw(rt, "conn")
		case vfC25Track:
			s.Conn = rapid.IntRange(0, 2).Draw(rt, "conn")
			vfC25GenTrack(rt, &s)
		case vfC25Untrack:
			s.Conn = rapid.IntRange(0, 2).Draw(rt, "conn")
			s.Keys = vfC25GenKeys(rt, "ukey")
		case vfC25Set:
			s.Key = rapid.IntRange(0, 2).Draw(rt, "key")
			s.Bump = rapid.SampledFrom([]int{1, 1, 1, 2, 3}).Draw(rt, "bump")
			s.Revert = !c.Versioned && rapid.IntRange(0, 3).Draw(rt, "revert") == 0
			s.Gate = rapid.Bool().Draw(rt, "setNotify")
		case vfC25Remove:
			s.Key = rapid.IntRange(0, 2).Draw(rt, "key")
		case vfC25Publish:
			s.Key = rapid.IntRange(0, 2).Draw(rt, "key")
			s.VMode = rapid.SampledFrom([]int{0, 0, 0, 0, 1, 2, 3, 3}).Draw(rt, "vmode")
			if c.PubEnabled {
				s.Fault = rapid.SampledFrom([]int{0, 0, 0, 0, 1, 1, 1, 2, 3}).Draw(rt, "fault")
			}
			if c.EpochMode == 1 {
				s.NewEp = rapid.IntRange(0, 5).Draw(rt, "newEp") == 0
				s.EmptyEp = !s.NewEp && rapid.IntRange(0, 9).Draw(rt, "emptyEp") == 0
			}
		case vfC25Notify:
			s.Keys = vfC25GenKeys(rt, "nkey")
		case vfC25Revoke:
			s.Keys = vfC25GenKeys(rt, "rkey")
			s.Conn = rapid.IntRange(0, 2).Draw(rt, "conn")
			s.Users = rapid.SampledFrom([]int{0, 0, 1, 2}).Draw(rt, "users")
		case vfC25Adv:
			s.Adv = rapid.SampledFrom([]int{0, 1, 1, 2, 2, 2, 3}).Draw(rt, "adv")
		case vfC25ArmPoll:
			s.Gate = rapid.Bool().Draw(rt, "afterRead")
			s.Trig = rapid.SampledFrom([]int{0, 1, 1, 2, 2}).Draw(rt, "trig")
			s.Key = rapid.IntRange(0, 2).Draw(rt, "key")
			if s.Trig > 0 {
				window = 1 + rapid.IntRange(1, 3).Draw(rt, "windowLen")
			}
		case vfC25Release:
			s.N = rapid.IntRange(0, 5).Draw(rt, "rel")
		case vfC25ArmBcast:
			// broadcast window: the next broadcast (caused by a backend change + notification) parks in flight at its first
			// target; a second update of the same key (publish, when versioned) overtakes it; then the first one resumes
			k := rapid.IntRange(0, 2).Draw(rt, "bkey")
			c.Steps = append(c.Steps, s, vfC25Step{Kind: vfC25Set, Key: k, Bump: 1, Gate: true})
			if c.Versioned {
				c.Steps = append(c.Steps, vfC25Step{Kind: vfC25Publish, Key: k, VMode: rapid.SampledFrom([]int{0, 0, 1}).Draw(rt, "bvmode")})
			}
			if rapid.Bool().Draw(rt, "bmore") {
				c.Steps = append(c.Steps, vfC25Step{Kind: vfC25Adv, Adv: rapid.SampledFrom([]int{0, 2}).Draw(rt, "badv")})
			}
			c.Steps = append(c.Steps, vfC25Step{Kind: vfC25Release, Trig: 2})
			continue
		case vfC25Fail:
			s.N = rapid.IntRange(0, 2).Draw(rt, "nfail")
		}
		c.Steps = append(c.Steps, s)
	}
	return c
}

// ---------------------------------------------------------------------------------------------------
// backend model

type vfC25KeyModel struct {
	version uint64
	data    []byte
	prev    []byte // payload before the last change (versionless revert)
	removed bool
}

type vfC25Backend struct {
	mu        sync.Mutex
	cs        *vfC25Case
	keys      map[string]*vfC25KeyModel
	epochN    int
	epoch     string
	fail      int // number of upcoming polls that fail
	counter   int
	hist      map[string]map[uint64][]byte   // current epoch: key → version → payload (versioned)
	supplied  map[string]map[uint64][]string // all epochs: key → version → payloads ever supplied (versioned)
	suppliedD map[string]map[string]bool     // versionless: key → payloads ever supplied
	polls     int
	pollsOK   int
	pollEpoch []string // epoch of every successfully answered poll, in answer order
	afterRead bool
	seqFn     func() int64
	remLog    []vfC25Upd // poll answers that reported a key as removed
	updLog    []vfC25Upd // every poll answer / publish delivery that carried a key, with the world sequence number
}

type vfC25Upd struct {
	seq  int64
	key  string
	what string
}

func (b *vfC25Backend) newData(key string) []byte {
	b.counter++
	pad := ""
	if b.cs.Pad > 0 {
		// Three segments: two of them flip between two variants with the counter's low bits, one is stable. A fossil patch
		// between two payloads stays shorter than the payload ("real" delta) and copies the segments they share from
		// the base, so applying it to any other base than the one it was computed from gives a wrong result / checksum.
		n := b.cs.Pad / 3
		pad = strings.Repeat(string(rune('a'+b.counter&1)), n) + strings.Repeat(string(rune('c'+(b.counter>>1)&1)), n) + strings.Repeat("z", b.cs.Pad-2*n)
	}
	return []byte(fmt.Sprintf(`{"k":"%s","n":%d,"p":"%s"}`, key, b.counter, pad))
}

// record must be called with mu held.
func (b *vfC25Backend) record(key string, version uint64, data []byte) {
	if b.cs.Versioned {
		if b.hist[key] == nil {
			b.hist[key] = map[uint64][]byte{}
		}
		b.hist[key][version] = data
		if b.supplied[key] == nil {
			b.supplied[key] = map[uint64][]string{}
		}
		b.supplied[key][version] = append(b.supplied[key][version], string(data))
		return
	}
	if b.suppliedD[key] == nil {
		b.suppliedD[key] = map[string]bool{}
	}
	b.suppliedD[key][string(data)] = true
}

func (b *vfC25Backend) set(key string, bump int, revert bool) {
	b.mu.Lock()
	defer b.mu.Unlock()
	m := b.keys[key]
	m.removed = false
	if revert && m.prev != nil {
		m.data, m.prev = m.prev, m.data
	} else {
		m.prev = m.data
		m.data = b.newData(key)
	}
	m.version += uint64(bump)
	b.record(key, m.version, m.data)
}

func (b *vfC25Backend) changeEpoch() {
	b.mu.Lock()
	defer b.mu.Unlock()
	b.epochN++
	b.epoch = fmt.Sprintf("e%d", b.epochN)
	b.hist = map[string]map[uint64][]byte{}
	for _, k := range vfC25Keys {
		m := b.keys[k]
		m.version = 1
		m.prev = nil
		m.data = b.newData(k)
		b.record(k, m.version, m.data)
	}
}

func (b *vfC25Backend) poll(gates *vfGates, ev SharedPollEvent) (SharedPollResult, error) {
	b.mu.Lock()
	after := b.afterRead
	b.polls++
	b.mu.Unlock()
	if !after {
		gates.Pass("poll")
	}
	b.mu.Lock()
	if b.fail > 0 {
		b.fail--
		b.mu.Unlock()
		if after {
			gates.Pass("poll")
		}
		return SharedPollResult{}, errors.New("vf: backend down")
	}
	res := SharedPollResult{}
	if b.cs.Versioned {
		res.Epoch = b.epoch
	}
	for _, it := range ev.Items {
		m := b.keys[it.Key]
		if m == nil {
			continue
		}
		if m.removed {
			res.Items = append(res.Items, SharedPollRefreshItem{Key: it.Key, Removed: true})
			continue
		}
		if !b.cs.Versioned {
			res.Items = append(res.Items, SharedPollRefreshItem{Key: it.Key, Data: m.data})
			continue
		}
		if b.cs.SkipSame && it.Version == m.version {
			continue
		}
		ri := SharedPollRefreshItem{Key: it.Key, Data: m.data, Version: m.version}
		if b.cs.SendPrev && it.Version > 0 && it.Version < m.version {
			if pd, ok := b.hist[it.Key][it.Version]; ok {
				ri.PrevData = pd
			}
		}
		res.Items = append(res.Items, ri)
	}
	ep := res.Epoch
	b.mu.Unlock()
	if after {
		gates.Pass("poll")
	}
	b.mu.Lock()
	b.pollsOK++
	b.pollEpoch = append(b.pollEpoch, ep)
	for _, it := range res.Items {
		if it.Removed {
			b.remLog = append(b.remLog, vfC25Upd{seq: b.seqFn(), key: it.Key, what: "poll removal"})
			continue
		}
		b.updLog = append(b.updLog, vfC25Upd{seq: b.seqFn(), key: it.Key, what: fmt.Sprintf("poll answer v%d", it.Version)})
	}
	b.mu.Unlock()
	return res, nil
}

// ---------------------------------------------------------------------------------------------------
// client model / oracle over one connection's frames

type vfC25Attempt struct {
	id     uint32
	kind   int // vfC25Sub, vfC25Track, vfC25Untrack, vfC25Unsub
	sentAt int // number of frames written when the command was sent
	sentSeq int64 // world sequence number when the command was sent
	doneSeq int64 // world sequence number at the first quiescence after the reply was written (0 = not yet)
	replyAt int // frame index of the reply (-1 = none yet)
	claims map[string]uint64
	order  []string
	inline []string
	keys   []string
}

type vfC25Marker struct {
	at   int // applies before frame index `at`
	keys []string
}

type vfC25KeyState struct {
	tracked bool
	base    uint64 // the next update must exceed this (last applied update, or the version claimed by the last track)
	ver     uint64 // version of the payload the client holds (kept after untrack: the client's cache)
	data    []byte
	hasData bool
	removedAt int  // frame index of the removal push that untracked the key (0 = not untracked by a removal)
	garbage bool   // a known-finding delta did not apply: payload unknown until the next full push
	cacheEp string // epoch of the subscription under which (ver, data) was received
	verSeq  int64  // world sequence number of the frame that delivered ver
	updates int
	maxRun  int // most updates within one tracking segment
	run     int
}

type vfC25SubSeg struct {
	startSeq int64
	endSeq   int64 // 0 = still live
	endCode  uint32
	epoch    string
}

type vfC25ConnState struct {
	subscribed bool
	subPending bool
	subEpoch   string
	delta      bool
	keys       map[string]*vfC25KeyState
	subs       []*vfC25SubSeg
	deltaPush  int
	fullPush   int
	replyItems int
	removals   int
	unsub2500  int
	retrackDup int
	trackErr   int
	trackAfterEnd int
	pendingWin int
	known      []string
	knownEx    map[string]string
}

func vfC25RenderFrames(fs []vfFrame) string {
	var parts []string
	for i, f := range fs {
		if f.Err != nil || f.Reply == nil {
			parts = append(parts, fmt.Sprintf("%d:<undecodable>", i))
			continue
		}
		r := f.Reply
		switch {
		case r.Push != nil && r.Push.Pub != nil:
			p := r.Push.Pub
			parts = append(parts, fmt.Sprintf("%d:pub[%s v%d delta=%v removed=%v %s]", i, p.Key, p.Version, p.Delta, p.Removed, vfTrunc(string(p.Data), 50)))
		case r.SubRefresh != nil:
			var it []string
			for _, p := range r.SubRefresh.Items {
				it = append(it, fmt.Sprintf("%s v%d %s", p.Key, p.Version, vfTrunc(string(p.Data), 40)))
			}
			parts = append(parts, fmt.Sprintf("%d:#%d sub_refresh[%s]", i, r.Id, strings.Join(it, "; ")))
		default:
			parts = append(parts, fmt.Sprintf("%d:%s", i, vfRenderReply(r)))
		}
	}
	return strings.Join(parts, " | ")
}

type vfC25RemWin struct {
	key         string
	start, done int64 // world sequence numbers; done 0 = still in progress
	what        string
}

type vfC25Oracle struct {
	epochChanges []int64 // world sequence numbers of publisher epoch changes
	removals []vfC25RemWin
	cs       *vfC25Case
	be       *vfC25Backend
	isKnown  func(string) bool
	proto    ProtocolType
	attempts map[uint32]*vfC25Attempt
	markers  []vfC25Marker
}

func (o *vfC25Oracle) decode(raw []byte, delta bool) ([]byte, error) {
	if delta && o.proto == ProtocolTypeJSON {
		var s string
		if err := json.Unmarshal(raw, &s); err != nil {
			return nil, fmt.Errorf("payload on a JSON delta subscription is not a JSON string: %v", err)
		}
		return []byte(s), nil
	}
	return raw, nil
}

// suppliedOK reports whether payload was supplied by the backend / a publisher for (key, version).
func (o *vfC25Oracle) suppliedOK(key string, version uint64, data []byte) bool {
	o.be.mu.Lock()
	defer o.be.mu.Unlock()
	if o.cs.Versioned {
		for _, d := range o.be.supplied[key][version] {
			if d == string(data) {
				return true
			}
		}
		return false
	}
	return o.be.suppliedD[key][string(data)]
}

// run interprets frames[0:] in order. It returns the final client state and the first violation.
func (o *vfC25Oracle) run(frames []vfFrame) (*vfC25ConnState, string) {
	st := &vfC25ConnState{keys: map[string]*vfC25KeyState{}, knownEx: map[string]string{}}
	for _, k := range vfC25Keys {
		st.keys[k] = &vfC25KeyState{}
	}
	replied := map[uint32]bool{}
	replyFrame := map[uint32]int{}
	mi := 0
	endSub := func(seq int64, code uint32) {
		st.subscribed = false
		for _, ks := range st.keys {
			ks.tracked = false
			ks.run = 0
		}
		if n := len(st.subs); n > 0 && st.subs[n-1].endSeq == 0 {
			st.subs[n-1].endSeq = seq
			st.subs[n-1].endCode = code
		}
	}
	pendingTrack := func(i int, key string) bool {
		ids := make([]int, 0, len(o.attempts))
		for id := range o.attempts {
			ids = append(ids, int(id))
		}
		sort.Ints(ids)
		for _, id := range ids {
			a := o.attempts[uint32(id)]
			if a.kind != vfC25Track || replied[a.id] || a.sentAt > i {
				continue
			}
			if _, ok := a.claims[key]; ok {
				return true
			}
		}
		return false
	}
	curSeq := int64(0)
	applyUpdate := func(i int, p *protocol.Publication, where string, baseline uint64) string {
		ks := st.keys[p.Key]
		if p.Version <= baseline {
			return fmt.Sprintf("frame %d (%s): key %s version %d does not exceed version %d (the last one delivered / claimed)", i, where, p.Key, p.Version, baseline)
		}
		payload, err := o.decode(p.Data, st.delta)
		if err != nil {
			return fmt.Sprintf("frame %d (%s): key %s v%d: %v", i, where, p.Key, p.Version, err)
		}
		var full []byte
		garbage := false
		if p.Delta {
			st.deltaPush++
			if !st.delta {
				return fmt.Sprintf("frame %d (%s): delta push for key %s on a subscription that did not negotiate delta", i, where, p.Key)
			}
			switch {
			case ks.garbage:
				garbage = true // base already unknown because of a known finding
			case !ks.hasData:
				return fmt.Sprintf("frame %d (%s): delta push for key %s v%d but the connection holds no payload for the key", i, where, p.Key, p.Version)
			default:
				res, aerr := fdelta.Apply(ks.data, payload)
				if aerr != nil || !o.suppliedOK(p.Key, p.Version, res) {
					key := "C25:poll-prevdata-delta-base-is-not-the-payload-clients-hold-after-racing-publish"
					msg := fmt.Sprintf("frame %d (%s): delta for key %s v%d does not apply to the payload the connection holds (v%d %s): apply error=%v result=%s",
						i, where, p.Key, p.Version, ks.ver, vfTrunc(string(ks.data), 60), aerr, vfTrunc(string(res), 60))
					// a subscription that outlived a publisher epoch change (known finding) holds payloads of the old epoch
					stale := false
					if n := len(st.subs); n > 0 && o.cs.EpochMode == 1 {
						o.be.mu.Lock()
						cur := o.be.epoch
						o.be.mu.Unlock()
						stale = st.subs[n-1].epoch != cur
						for _, ch := range o.epochChanges {
							stale = stale || (st.subs[n-1].startSeq < ch && ch < curSeq)
						}
					}
					if stale {
						key = "C25:epoch-change-does-not-end-subscriptions-without-a-tracked-key"
						msg += " (the subscription outlived a publisher epoch change: the base it holds is an old-epoch payload)"
					} else if !(o.cs.SendPrev && !o.cs.Keep && o.cs.Versioned) {
						return msg
					}
					if !o.isKnown(key) {
						return "[" + key + "] " + msg
					}
					st.known = append(st.known, key)
					st.knownEx[key] = msg
					garbage = true
				} else {
					full = res
				}
			}
		} else {
			st.fullPush++
			if !o.suppliedOK(p.Key, p.Version, payload) {
				return fmt.Sprintf("frame %d (%s): key %s v%d carries payload %s which nobody supplied for that version", i, where, p.Key, p.Version, vfTrunc(string(payload), 80))
			}
			full = payload
		}
		ks.base, ks.ver, ks.cacheEp, ks.verSeq = p.Version, p.Version, st.subEpoch, curSeq
		if garbage {
			ks.garbage, ks.hasData, ks.data = true, false, nil
		} else {
			ks.garbage, ks.hasData, ks.data = false, true, full
		}
		ks.updates++
		ks.run++
		if ks.run > ks.maxRun {
			ks.maxRun = ks.run
		}
		return ""
	}
	for i, f := range frames {
		for mi < len(o.markers) && o.markers[mi].at <= i {
			for _, k := range o.markers[mi].keys {
				st.keys[k].tracked = false
				st.keys[k].run = 0
			}
			mi++
		}
		if f.Err != nil || f.Reply == nil {
			return st, fmt.Sprintf("frame %d undecodable: %v", i, f.Err)
		}
		r := f.Reply
		curSeq = f.Seq
		if r.Id != 0 {
			a := o.attempts[r.Id]
			if a == nil {
				continue
			}
			replied[r.Id] = true
			replyFrame[r.Id] = i
			switch a.kind {
			case vfC25Sub:
				st.subPending = false
				if r.Error != nil || r.Subscribe == nil {
					continue
				}
				st.subscribed, st.subEpoch, st.delta = true, r.Subscribe.Epoch, r.Subscribe.Delta
				for _, ks := range st.keys {
					ks.tracked = false
					ks.run = 0
				}
				st.subs = append(st.subs, &vfC25SubSeg{startSeq: f.Seq, epoch: r.Subscribe.Epoch})
			case vfC25Unsub:
				if r.Error == nil {
					endSub(f.Seq, 0)
				}
			case vfC25Untrack:
				if r.Error != nil {
					continue
				}
				for _, k := range a.keys {
					st.keys[k].tracked = false
					st.keys[k].run = 0
				}
			case vfC25Track:
				if r.Error != nil || r.SubRefresh == nil {
					st.trackErr++
					continue
				}
				if !st.subscribed {
					// the commit ran just before a server-side unsubscribe, the reply was queued after the unsubscribe push:
					// nothing is tracked (any later push for these keys is still flagged)
					st.trackAfterEnd++
					continue
				}
				for _, k := range a.order {
					ks := st.keys[k]
					c := a.claims[k]
					if ks.tracked {
						// re-track of a tracked key: the server replaces its per-connection version with the claimed one; the
						// client keeps whatever it holds (possibly newer, delivered while the command was in flight)
						if ks.base > c {
							st.retrackDup++
						}
					} else {
						ks.run = 0
						if !(c != 0 && c == ks.ver && (ks.hasData || ks.garbage)) {
							ks.ver, ks.data, ks.hasData, ks.garbage = c, nil, false, false
						}
					}
					ks.tracked = true
					ks.removedAt = 0
					ks.base = c
				}
				for _, p := range r.SubRefresh.Items {
					if _, ok := a.claims[p.Key]; !ok {
						return st, fmt.Sprintf("frame %d: track reply #%d carries key %s which the request did not track", i, a.id, p.Key)
					}
					st.replyItems++
					if m := applyUpdate(i, p, fmt.Sprintf("track reply #%d", a.id), st.keys[p.Key].base); m != "" {
						return st, m
					}
				}
				// inline untrack completes after the reply was queued: soft markers are added by the executor
			}
			continue
		}
		p := r.Push
		if p == nil || p.Channel != vfC25Chan {
			continue
		}
		switch {
		case p.Unsubscribe != nil:
			if p.Unsubscribe.Code == UnsubscribeCodeInsufficient {
				st.unsub2500++
			} else {
				return st, fmt.Sprintf("frame %d: unsubscribe push with code %d (the harness never unsubscribes server-side; an epoch change must use %d)", i, p.Unsubscribe.Code, UnsubscribeCodeInsufficient)
			}
			endSub(f.Seq, p.Unsubscribe.Code)
		case p.Pub != nil && p.Pub.Removed:
			st.removals++
			if ks := st.keys[p.Pub.Key]; ks != nil {
				if ks.tracked {
					ks.removedAt = i
				}
				ks.tracked = false
				ks.run = 0
			}
		case p.Pub != nil:
			ks := st.keys[p.Pub.Key]
			if ks == nil {
				return st, fmt.Sprintf("frame %d: push for unknown key %q", i, p.Pub.Key)
			}
			pend := pendingTrack(i, p.Pub.Key)
			if !st.subscribed && !pend {
				return st, fmt.Sprintf("frame %d: key %s v%d pushed after the subscription ended", i, p.Pub.Key, p.Pub.Version)
			}
			if !ks.tracked && !pend {
				msg := fmt.Sprintf("frame %d: key %s v%d pushed although the connection does not track the key (untracked / revoked / never tracked)", i, p.Pub.Key, p.Pub.Version)
				// Root cause classification: the key was untracked by a removal push (frame removedAt) that belongs to a
				// server-side removal which was in progress while this connection (re-)tracked the key: the removal deleted the
				// per-connection state first, the track re-created it, and the removal push reached the wire after the track reply.
				late := ""
				if ks.removedAt > 0 {
					for _, a := range o.attempts {
						rf, ok := replyFrame[a.id]
						if _, has := a.claims[p.Pub.Key]; !has || a.kind != vfC25Track || !ok || rf > ks.removedAt {
							continue
						}
						for _, r := range o.removals {
							if r.key == p.Pub.Key && (a.doneSeq == 0 || r.start <= a.doneSeq) && (r.done == 0 || r.done >= a.sentSeq) {
								late = r.what
							}
						}
					}
				}
				if late == "" {
					return st, msg
				}
				key := "C25:removal-wipes-hub-entries-of-connections-that-tracked-the-key-after-the-removal-broadcast"
				msg += fmt.Sprintf(" (the removal push at frame %d belongs to a %s that was in progress while this connection tracked the key again)", ks.removedAt, late)
				if !o.isKnown(key) {
					return st, "[" + key + "] " + msg
				}
				st.known = append(st.known, key)
				st.knownEx[key] = msg
				ks.tracked, ks.removedAt = true, 0
			}
			baseline := ks.base
			if pend {
				st.pendingWin++
				// a (re-)track is in flight: the server may already have replaced the per-connection version with the claimed one
				ids := make([]int, 0, len(o.attempts))
				for id := range o.attempts {
					ids = append(ids, int(id))
				}
				sort.Ints(ids)
				for _, id := range ids {
					a := o.attempts[uint32(id)]
					if a.kind == vfC25Track && !replied[a.id] && a.sentAt <= i {
						if v, ok := a.claims[p.Pub.Key]; ok && (v < baseline || !ks.tracked) {
							baseline = v
						}
					}
				}
			}
			if m := applyUpdate(i, p.Pub, "push", baseline); m != "" {
				return st, m
			}
		}
	}
	for mi < len(o.markers) {
		for _, k := range o.markers[mi].keys {
			st.keys[k].tracked = false
		}
		mi++
	}
	return st, ""
}

// ---------------------------------------------------------------------------------------------------
// executor

type vfC25Out struct {
	labels     []string
	nontrivial bool
	known      []string
	knownEx    map[string]string
}

func (o *vfC25Out) label(l string) { o.labels = append(o.labels, l) }

func vfC25Run(t *testing.T, cs vfC25Case, out *vfC25Out, isKnown func(string) bool) string {
	return vfBubble(t, func() string {
		dbg := os.Getenv("VF_DEBUG") != ""
		interval := time.Duration(cs.IntervalMs) * time.Millisecond
		opts := SharedPollChannelOptions{RefreshInterval: interval, RefreshBatchSize: cs.BatchSize, KeepLatestData: cs.Keep,
			PublishEnabled: cs.PubEnabled, ChannelShutdownDelay: time.Duration(cs.Shutdown) * time.Second}
		if cs.Shutdown < 0 {
			opts.ChannelShutdownDelay = -1
		}
		if cs.Versioned {
			opts.Mode = SharedPollModeVersioned
		}
		switch cs.NotifBatch {
		case 1:
			opts.NotificationBatchMaxSize, opts.NotificationBatchMaxDelay = 2, 300*time.Millisecond
		case 2:
			opts.NotificationBatchMaxDelay = 200 * time.Millisecond
		}
		cfg := Config{}
		var gates *vfGates
		// The per-channel batch config callback is invoked by keyedWritePublication / keyedWriteRemoval after encoding and
		// before the per-connection critical section (no lock held): a gate here keeps one broadcast in flight.
		cfg.GetChannelBatchConfig = func(ch string) ChannelBatchConfig {
			if ch == vfC25Chan && gates != nil {
				gates.Pass("bcast")
			}
			return ChannelBatchConfig{}
		}
		cfg.SharedPoll.GetSharedPollChannelOptions = func(ch string) (SharedPollChannelOptions, bool) {
			if ch == vfC25Chan {
				return opts, true
			}
			return SharedPollChannelOptions{}, false
		}
		be := &vfC25Backend{cs: &cs, keys: map[string]*vfC25KeyModel{}, hist: map[string]map[uint64][]byte{},
			supplied: map[string]map[uint64][]string{}, suppliedD: map[string]map[string]bool{}}
		if cs.EpochMode == 1 {
			be.epochN, be.epoch = 1, "e1"
		}
		for _, k := range vfC25Keys {
			be.keys[k] = &vfC25KeyModel{version: 1}
			be.keys[k].data = be.newData(k)
			be.record(k, 1, be.keys[k].data)
		}
		var w *vfWorld
		w, err := vfNewWorld(cfg, func(pw *vfWorld) {
			pw.node.OnSharedPoll(func(ctx context.Context, ev SharedPollEvent) (SharedPollResult, error) {
				return be.poll(pw.Gates, ev)
			})
			// Public hook that handleTrack invokes right after queueing the track reply: the keys are registered in the
			// SharedPollManager (Step 1) but the connection has not joined the keyed hub yet (Step 5). No lock is held.
			pw.node.OnCommandProcessed(func(c *Client, e CommandProcessedEvent) {
				if e.Command == nil || e.Command.SubRefresh == nil || e.Command.SubRefresh.Type != typeTrack || e.Error != nil || e.Reply == nil || e.Reply.Error != nil {
					return
				}
				if vc := pw.connByID(c.ID()); vc != nil {
					pw.Gates.Pass("trackwin:" + vc.Name)
				}
			})
		})
		if err != nil {
			return "infra: " + err.Error()
		}
		defer w.Close()
		gates = w.Gates
		be.seqFn = func() int64 { return w.seq.Load() }
		w.ChanOpts = func(c *vfConn, e SubscribeEvent) (SubscribeReply, error) {
			return SubscribeReply{Options: SubscribeOptions{AllowedDeltaTypes: []DeltaType{DeltaTypeFossil}}, ClientSideRefresh: true}, nil
		}
		var busyMu sync.Mutex
		trackBusy := map[string]int{} // connection name → track callbacks that have not returned yet
		w.PerClient = func(c *vfConn, client *Client) {
			name := c.Name
			client.OnTrack(func(e TrackEvent, cb TrackCallback) {
				busyMu.Lock()
				trackBusy[name]++
				busyMu.Unlock()
				go func() {
					w.Gates.Pass("track:" + name)
					cb(TrackReply{}, nil) // returns when handleTrack's callback (steps 1-8) has completed
					busyMu.Lock()
					trackBusy[name]--
					busyMu.Unlock()
				}()
			})
		}
		nextFault := vfDeliver
		w.broker.Fault = func(d vfDelivery) vfFault {
			if d.Kind != "pub" {
				return vfDeliver
			}
			return nextFault
		}

		type connRT struct {
			c        *vfConn
			closed   bool
			attempts map[uint32]*vfC25Attempt
			markers  []vfC25Marker
			inlineQ  []*vfC25Attempt // track attempts with inline untrack whose completion was not yet marked
		}
		conns := make([]*connRT, len(cs.Conns))
		for i, cc := range cs.Conns {
			name := string(rune('x' + i))
			c := w.NewConn(vfConnCfg{Name: name, User: "u" + name, Proto: cc.Proto})
			c.Connect(nil)
			conns[i] = &connRT{c: c, attempts: map[uint32]*vfC25Attempt{}}
		}
		vfSettle()
		var removalWins func() []vfC25RemWin
		var epochChangeSeqs []int64
		var epochChangeTo []string
		oracleFor := func(cr *connRT) *vfC25Oracle {
			return &vfC25Oracle{epochChanges: epochChangeSeqs, removals: removalWins(), cs: &cs, be: be, isKnown: isKnown, proto: cr.c.T.proto, attempts: cr.attempts, markers: cr.markers}
		}
		// mark completion of inline untracks: once the track reply is on the wire and the bubble is quiescent, Step 8 has run
		markInline := func() {
			for _, cr := range conns {
				todo := len(cr.inlineQ) > 0
				for _, a := range cr.attempts {
					todo = todo || a.doneSeq == 0
				}
				if !todo {
					continue
				}
				frames := cr.c.Frames()
				busyMu.Lock()
				inWin := trackBusy[cr.c.Name] > 0 // the reply may be out but the track callback has not finished
				busyMu.Unlock()
				for fi, f := range frames {
					if f.Reply != nil && f.Reply.Id != 0 {
						if a := cr.attempts[f.Reply.Id]; a != nil && a.doneSeq == 0 && !(inWin && a.kind == vfC25Track) {
							a.doneSeq, a.replyAt = w.seq.Load(), fi
						}
					}
				}
				have := map[uint32]bool{}
				for _, f := range frames {
					if f.Reply != nil && f.Reply.Id != 0 {
						have[f.Reply.Id] = true
					}
				}
				var rest []*vfC25Attempt
				for _, a := range cr.inlineQ {
					if have[a.id] && !inWin {
						cr.markers = append(cr.markers, vfC25Marker{at: len(frames), keys: a.inline})
					} else {
						rest = append(rest, a)
					}
				}
				cr.inlineQ = rest
			}
		}
		send := func(cr *connRT, a *vfC25Attempt, cmd *protocol.Command) {
			a.id = cr.c.NextID()
			cmd.Id = a.id
			a.sentAt = len(cr.c.Frames())
			a.sentSeq, a.replyAt = w.seq.Load(), -1
			cr.attempts[a.id] = a
			go cr.c.Cmd(cmd)
			vfSettle()
		}
		races := 0
		pollInFlight := func() bool { return w.Gates.Waiting("poll") > 0 }
		raced := func(what string) {
			if pollInFlight() {
				races++
				out.label(what + "_while_poll_in_flight")
			}
			if w.Gates.Waiting("bcast") > 0 {
				races++
				out.label(what + "_while_broadcast_in_flight")
			}
		}
		anyTrackParked := func() bool {
			for _, g := range w.Gates.AnyWaiting() {
				if strings.HasPrefix(g, "track:") {
					return true
				}
			}
			return false
		}
		changeEpoch := func() {
			be.changeEpoch()
			epochChangeSeqs = append(epochChangeSeqs, w.seq.Load())
			epochChangeTo = append(epochChangeTo, be.epoch)
		}
		emptyEpochUsed := false
		liveStateEpoch := func() string {
			m := w.node.sharedPollManager
			m.mu.RLock()
			st := m.channels[vfC25Chan]
			m.mu.RUnlock()
			if st == nil {
				return "<no state>"
			}
			st.mu.Lock()
			defer st.mu.Unlock()
			return st.epoch
		}
		type stateRec struct {
			seq int64
			ep  string
		}
		stateHist := []stateRec{{0, "<no state>"}}
		noteState := func() {
			if ep := liveStateEpoch(); ep != stateHist[len(stateHist)-1].ep {
				stateHist = append(stateHist, stateRec{w.seq.Load(), ep})
			}
		}
		stateAt := func(seq int64) string {
			ep := stateHist[0].ep
			for _, r := range stateHist {
				if r.seq <= seq {
					ep = r.ep
				}
			}
			return ep
		}
		// Server-side observation of epoch flips: after every quiescence remember the channel state's epoch and who is in the
		// keyed hub. A connection that was in the hub right before a flip must lose its subscription (the flip collects the
		// hub); connections outside the hub at that moment are the known-finding class.
		type flipRec struct {
			seq     int64
			members map[string]bool
			from    string
			to      string
		}
		var flips []flipRec
		prevEpoch, prevSeq := "", int64(0)
		prevMembers := map[string]bool{}
		// server-side removals (revoke calls, poll answers with Removed) with the span during which they were in progress
		type removalRec struct {
			keys     []string
			startSeq int64
			doneSeq  int64 // 0 = still in progress
			finished *bool // revoke goroutine returned (nil for poll removals)
			what     string
		}
		var removals []*removalRec
		removalWins = func() []vfC25RemWin {
			var out []vfC25RemWin
			for _, r := range removals {
				for _, k := range r.keys {
					out = append(out, vfC25RemWin{key: k, start: r.startSeq, done: r.doneSeq, what: r.what})
				}
			}
			be.mu.Lock()
			for _, r := range be.remLog {
				out = append(out, vfC25RemWin{key: r.key, start: r.seq, what: r.what})
			}
			be.mu.Unlock()
			return out
		}
		snap := func() {
			noteState()
			be.mu.Lock()
			for _, r := range be.remLog {
				removals = append(removals, &removalRec{keys: []string{r.key}, startSeq: r.seq, what: r.what})
			}
			be.remLog = nil
			be.mu.Unlock()
			for _, r := range removals {
				if r.doneSeq != 0 {
					continue
				}
				if (r.finished != nil && *r.finished) || (r.finished == nil && w.Gates.Waiting("bcast") == 0) {
					r.doneSeq = w.seq.Load()
				}
			}
			m := w.node.sharedPollManager
			m.mu.RLock()
			s := m.channels[vfC25Chan]
			m.mu.RUnlock()
			cur := prevEpoch
			if s != nil {
				s.mu.Lock()
				cur = s.epoch
				s.mu.Unlock()
			} else if cs.Versioned {
				cur = ""
			}
			curMembers := map[string]bool{}
			if hub := w.node.keyedManager.getHub(vfC25Chan); hub != nil {
				for _, c := range hub.collectAllClients() {
					curMembers[c.uid] = true
				}
			}
			if cs.Versioned && cur != prevEpoch && s != nil && cur != "" {
				// A flip unsubscribes everybody it finds in the hub, which also removes them from the hub. Somebody who was in
				// the hub before and still is afterwards (no command of its own ran in between) was skipped by the flip.
				both := map[string]bool{}
				for uid := range prevMembers {
					if curMembers[uid] {
						both[uid] = true
					}
				}
				flips = append(flips, flipRec{seq: prevSeq, members: both, from: prevEpoch, to: cur})
			}
			prevEpoch, prevSeq = cur, w.seq.Load()
			prevMembers = curMembers
		}
		releaseHeld := func(i int) {
			w.broker.mu.Lock()
			if n := len(w.broker.held); n > 0 {
				d := w.broker.held[i%n]
				if d.Pub != nil {
					be.mu.Lock()
					be.updLog = append(be.updLog, vfC25Upd{seq: w.seq.Load(), key: d.Pub.Key, what: fmt.Sprintf("held publish v%d", d.Pub.Version)})
					be.mu.Unlock()
				}
			}
			w.broker.mu.Unlock()
			go w.broker.ReleaseHeld(i)
			vfSettle()
		}
		winParked := func() bool {
			for _, g := range w.Gates.AnyWaiting() {
				if strings.HasPrefix(g, "trackwin:") {
					return true
				}
			}
			return false
		}
		trackInFlight := func(name string) bool {
			busyMu.Lock()
			defer busyMu.Unlock()
			return trackBusy[name] > 0
		}
		bcastParked := func() bool { return w.Gates.Waiting("bcast") > 0 }

		for si, s := range cs.Steps {
			if bcastParked() && cs.PubEnabled && s.Kind == vfC25Publish {
				continue // a broadcast parked below the memory broker holds its per-channel publish lock (a mutex)
			}
			if dbg {
				fmt.Fprintf(os.Stderr, "DBG step %d %s waiting=%v held=%d\n", si, s, w.Gates.AnyWaiting(), w.broker.NumHeld())
			}
			var cr *connRT
			var st *vfC25ConnState
			switch s.Kind {
			case vfC25Sub, vfC25Track, vfC25Untrack, vfC25Unsub, vfC25Close:
				cr = conns[s.Conn]
				if cr.closed {
					continue
				}
				if closed, _ := cr.c.T.Closed(); closed {
					cr.closed = true
					continue
				}
				var m string
				st, m = oracleFor(cr).run(cr.c.Frames())
				if m != "" {
					return fmt.Sprintf("before step %d, conn %s: %s; frames: %s", si, cr.c.Name, m, vfC25RenderFrames(cr.c.Frames()))
				}
			}
			switch s.Kind {
			case vfC25Sub:
				if st.subscribed {
					continue
				}
				pending := false
				for _, a := range cr.attempts {
					if a.kind == vfC25Sub {
						pending = pending || !vfC25Replied(cr.c.Frames(), a.id)
					}
				}
				if pending {
					continue
				}
				req := &protocol.SubscribeRequest{Channel: vfC25Chan, Type: int32(SubscriptionTypeSharedPoll)}
				if cs.Conns[s.Conn].Delta {
					req.Delta = string(DeltaTypeFossil)
				}
				send(cr, &vfC25Attempt{kind: vfC25Sub}, &protocol.Command{Subscribe: req})
			case vfC25Track:
				if !st.subscribed || trackInFlight(cr.c.Name) {
					continue
				}
				if st.subEpoch == "" && cs.EpochMode == 1 {
					out.label("track_under_unknown_epoch")
				}
				a := &vfC25Attempt{kind: vfC25Track, claims: map[string]uint64{}}
				req := &protocol.SubRefreshRequest{Channel: vfC25Chan, Type: typeTrack}
				for _, b := range s.Batches {
					tb := &protocol.TrackBatch{Signature: "sig"}
					for _, p := range b {
						k := vfC25Keys[p.Key]
						ks := st.keys[k]
						var v uint64
						// A client reuses a stored version only when the subscription's epoch equals the one the version was
						// received under (the documented client rule); without publisher epochs versions never restart.
						cacheValid := ks.ver > 0 && (cs.EpochMode == 0 || (ks.cacheEp == st.subEpoch && st.subEpoch != ""))
						if !cs.Versioned {
							// Versionless: a client keeps stored synthetic versions while the epoch it knows (subscribe reply) is
							// unchanged. The harness additionally requires that the server's channel state (which owns the epoch and
							// the version counter) has lived on since the version was delivered: a state recreated during a
							// subscription changes the epoch without telling the client; that corner is not judged here.
							live := liveStateEpoch()
							cacheValid = ks.ver > 0 && ks.cacheEp == st.subEpoch && live != "<no state>" && stateAt(ks.verSeq) == live
						}
						switch {
						case !cs.Versioned && !cacheValid:
							v = 0
						case ks.tracked:
							v = ks.ver // re-track of a key the connection tracks right now: a client sends the version it holds
						case p.Cache && cacheValid:
							v = ks.ver
						}
						tb.Items = append(tb.Items, &protocol.KeyedItem{Key: k, Version: v})
						if _, dup := a.claims[k]; !dup {
							a.order = append(a.order, k)
						}
						a.claims[k] = v
					}
					req.Track = append(req.Track, tb)
				}
				for _, k := range s.Inline {
					req.Untrack = append(req.Untrack, vfC25Keys[k])
					a.inline = append(a.inline, vfC25Keys[k])
				}
				parkOnTrack := s.Gate
				if !cs.Versioned {
					for _, v := range a.claims {
						if v > 0 {
							parkOnTrack = false // the claimed synthetic version must be committed under the state it was checked against
						}
					}
				}
				if parkOnTrack {
					w.Gates.Arm("track:"+cr.c.Name, 1)
				}
				if !cs.Versioned {
					for _, v := range a.claims {
						if v > 0 {
							out.label("versionless_track_claims_remembered_version")
							break
						}
					}
				}
				if s.GateB {
					w.Gates.Arm("trackwin:"+cr.c.Name, 1)
				}
				raced("track")
				if len(a.inline) > 0 {
					cr.inlineQ = append(cr.inlineQ, a)
				}
				send(cr, a, &protocol.Command{SubRefresh: req})
				if s.Gate && w.Gates.Waiting("track:"+cr.c.Name) > 0 {
					out.label("track_parked_in_OnTrack")
				}
				if s.GateB {
					w.Gates.Disarm("trackwin:" + cr.c.Name)
					if w.Gates.Waiting("trackwin:"+cr.c.Name) > 0 {
						out.label("track_parked_between_trackKeys_and_hub_join")
					}
				}
			case vfC25Untrack:
				if !st.subscribed || trackInFlight(cr.c.Name) {
					continue // no conflicting commands for a key while a track of this connection is in flight
				}
				a := &vfC25Attempt{kind: vfC25Untrack}
				for _, k := range s.Keys {
					a.keys = append(a.keys, vfC25Keys[k])
				}
				raced("untrack")
				send(cr, a, &protocol.Command{SubRefresh: &protocol.SubRefreshRequest{Channel: vfC25Chan, Type: typeUntrack, Untrack: a.keys}})
			case vfC25Unsub:
				if !st.subscribed {
					continue
				}
				raced("unsubscribe")
				if trackInFlight(cr.c.Name) {
					out.label("unsubscribe_while_track_parked")
				}
				send(cr, &vfC25Attempt{kind: vfC25Unsub}, &protocol.Command{Unsubscribe: &protocol.UnsubscribeRequest{Channel: vfC25Chan}})
			case vfC25Close:
				raced("close")
				cr.c.TransportClose()
				cr.closed = true
				out.label("connection_closed")
			case vfC25Set:
				be.set(vfC25Keys[s.Key], s.Bump, s.Revert)
				if s.Gate {
					w.node.SharedPollNotify([]SharedPollNotificationItem{{Channel: vfC25Chan, Key: vfC25Keys[s.Key]}})
				}
				if pollInFlight() {
					out.label("backend_change_while_poll_in_flight")
				}
			case vfC25Remove:
				be.mu.Lock()
				be.keys[vfC25Keys[s.Key]].removed = true
				be.mu.Unlock()
			case vfC25Publish:
				if !cs.Versioned {
					continue
				}
				k := vfC25Keys[s.Key]
				if s.NewEp {
					changeEpoch()
				}
				be.mu.Lock()
				m := be.keys[k]
				if m.removed {
					be.mu.Unlock()
					continue
				}
				var v uint64
				var data []byte
				switch s.VMode {
				case 0, 1:
					m.version += uint64(s.VMode + 1)
					m.prev = m.data
					m.data = be.newData(k)
					be.record(k, m.version, m.data)
					v, data = m.version, m.data
				case 2:
					v, data = m.version, m.data
				default:
					v = m.version
					if v > 1 {
						v--
					}
					if d, ok := be.hist[k][v]; ok {
						data = d
					} else {
						data = be.newData(k)
						be.record(k, v, data)
					}
				}
				ep := be.epoch
				be.mu.Unlock()
				if s.EmptyEp {
					ep = ""
					emptyEpochUsed = true
				}
				raced("publish")
				if anyTrackParked() {
					out.label("publish_while_track_parked")
				}
				nextFault = []vfFault{vfDeliver, vfHold, vfDup, vfDrop}[s.Fault]
				var perr error
				pdone := make(chan struct{})
				go func() {
					defer close(pdone)
					perr = w.node.SharedPollPublish(context.Background(), vfC25Chan, k, v, ep, data)
				}()
				vfSettle()
				nextFault = vfDeliver
				select {
				case <-pdone:
					if perr != nil {
						return fmt.Sprintf("step %d: SharedPollPublish error: %v", si, perr)
					}
				default:
					out.label("publish_broadcast_parked")
				}
				if s.Fault == 0 || s.Fault == 2 || !cs.PubEnabled {
					be.mu.Lock()
					be.updLog = append(be.updLog, vfC25Upd{seq: w.seq.Load(), key: k, what: fmt.Sprintf("publish v%d", v)})
					be.mu.Unlock()
					if winParked() {
						out.label("publish_between_trackKeys_and_hub_join")
					}
				}
				if s.Fault == 1 {
					out.label("publish_delivery_held")
				}
			case vfC25Notify:
				var items []SharedPollNotificationItem
				for _, k := range s.Keys {
					items = append(items, SharedPollNotificationItem{Channel: vfC25Chan, Key: vfC25Keys[k]})
				}
				w.node.SharedPollNotify(items)
			case vfC25Revoke:
				var keys []string
				for _, k := range s.Keys {
					keys = append(keys, vfC25Keys[k])
				}
				var users, excl []string
				switch s.Users {
				case 1:
					users = []string{conns[s.Conn].c.User}
				case 2:
					excl = []string{conns[s.Conn].c.User}
				}
				raced("revoke")
				fin := new(bool)
				removals = append(removals, &removalRec{keys: keys, startSeq: w.seq.Load(), finished: fin, what: "revoke"})
				go func() {
					w.node.sharedPollManager.SharedPollRevokeKeys(vfC25Chan, keys, users, excl)
					*fin = true
				}()
			case vfC25Adv:
				d := []time.Duration{100 * time.Millisecond, 600 * time.Millisecond, interval, 3 * interval}[s.Adv]
				time.Sleep(d)
			case vfC25ArmPoll:
				if pollInFlight() {
					continue
				}
				be.mu.Lock()
				be.afterRead = s.Gate
				be.mu.Unlock()
				w.Gates.Disarm("poll")
				w.Gates.Arm("poll", 1)
				switch s.Trig {
				case 1:
					w.node.SharedPollNotify([]SharedPollNotificationItem{{Channel: vfC25Chan, Key: vfC25Keys[s.Key]}})
				case 2:
					time.Sleep(interval)
				}
				vfSettle()
				if pollInFlight() {
					out.label("poll_parked_in_backend")
				}
			case vfC25Release:
				cands := w.Gates.AnyWaiting()
				if w.broker.NumHeld() > 0 && !bcastParked() {
					cands = append(cands, "held")
				}
				if len(cands) == 0 {
					time.Sleep(600 * time.Millisecond)
					vfSettle()
					markInline()
					continue
				}
				g := cands[s.N%len(cands)]
				if s.Trig == 1 && pollInFlight() {
					g = "poll"
				}
				if s.Trig == 2 && bcastParked() {
					g = "bcast"
				}
				if g == "held" {
					if pollInFlight() {
						races++
						out.label("held_publish_delivered_while_poll_in_flight")
					}
					releaseHeld(s.N)
				} else {
					if g == "poll" && anyTrackParked() {
						out.label("poll_answered_while_track_parked")
					}
					if strings.HasPrefix(g, "track") && pollInFlight() {
						races++
						out.label("track_completed_while_poll_in_flight")
					}
					if g == "poll" && winParked() {
						out.label("poll_answered_between_trackKeys_and_hub_join")
					}
					w.Gates.Release(g)
				}
			case vfC25ArmBcast:
				if bcastParked() {
					continue
				}
				w.Gates.Disarm("bcast")
				w.Gates.Arm("bcast", 1)
			case vfC25Fail:
				be.mu.Lock()
				be.fail = 1 + s.N
				be.mu.Unlock()
				out.label("backend_failure_window")
			case vfC25Epoch:
				changeEpoch()
			}
			vfSettle()
			markInline()
			snap()
			if bcastParked() {
				out.label("broadcast_parked_mid_flight")
			}
		}

		// ---- final phase: release everything (one kind at a time), heal the backend, let ≥3 refresh intervals pass -----
		w.Gates.Disarm("bcast")
		for w.Gates.Release("bcast") {
		}
		vfSettle()
		markInline()
		snap()
		for w.Gates.Release("poll") {
		}
		w.Gates.Disarm("poll")
		vfSettle()
		markInline()
		snap()
		for w.broker.NumHeld() > 0 {
			releaseHeld(0)
			vfSettle()
			snap()
		}
		w.Gates.ReleaseAll()
		be.mu.Lock()
		be.fail = 0
		pollsBefore := be.pollsOK
		be.mu.Unlock()
		vfSettle()
		markInline()
		snap()
		for i := 0; i < 4; i++ {
			time.Sleep(interval)
			vfSettle()
			snap()
		}
		time.Sleep(time.Second)
		vfSettle()
		markInline()
		snap()

		// ---- oracle ------------------------------------------------------------------------------------------------
		be.mu.Lock()
		finalEpoch := be.epoch
		learned := false // the server certainly saw the final epoch: a poll answered with it during the final phase
		for _, e := range be.pollEpoch[pollsBefore:] {
			if e == finalEpoch {
				learned = true
			}
		}
		updLog := append([]vfC25Upd(nil), be.updLog...)
		be.mu.Unlock()
		known := func(key, msg string) bool {
			if !isKnown(key) {
				return false
			}
			out.known = append(out.known, key)
			out.knownEx[key] = msg
			return true
		}
		updates2 := false
		for _, cr := range conns {
			frames := cr.c.Frames()
			if dbg {
				fmt.Fprintf(os.Stderr, "DBG conn %s frames: %s\n", cr.c.Name, vfC25RenderFrames(frames))
			}
			st, m := oracleFor(cr).run(frames)
			if m != "" {
				return fmt.Sprintf("conn %s: %s; frames: %s", cr.c.Name, m, vfC25RenderFrames(frames))
			}
			out.known = append(out.known, st.known...)
			for k, v := range st.knownEx {
				out.knownEx[k] = v
			}
			closed, _ := cr.c.T.Closed()
			if st.deltaPush > 0 {
				out.label("delta_push_seen")
			}
			if st.fullPush > 0 {
				out.label("full_push_seen")
			}
			if st.replyItems > 0 {
				out.label("cached_items_in_track_reply")
			}
			if st.removals > 0 {
				out.label("removal_push_seen")
			}
			if st.unsub2500 > 0 {
				out.label("unsubscribed_insufficient_state")
			}
			if st.retrackDup > 0 {
				out.label("retrack_claims_older_version_than_delivered")
			}
			if st.trackErr > 0 {
				out.label("track_error_reply")
			}
			if st.trackAfterEnd > 0 {
				out.label("track_reply_after_server_side_unsubscribe")
			}
			if st.pendingWin > 0 {
				out.label("push_inside_pending_track_window")
			}
			for _, k := range vfC25Keys {
				if st.keys[k].maxRun >= 2 {
					updates2 = true
				}
			}
			// Epoch change ⇒ current subscriptions end (insufficient state / the client's own unsubscribe / close). The server
			// certainly knows the final publisher epoch (polls answered with it were applied in the final phase). A live
			// subscription is stale when the publisher epoch changed after it started, or when its reply carried another
			// (non-empty) epoch than the final one.
			if !closed {
				for _, fl := range flips {
					if !fl.members[cr.c.Client.uid] {
						continue
					}
					for _, sub := range st.subs {
						if sub.startSeq < fl.seq && sub.endSeq == 0 {
							return fmt.Sprintf("conn %s: the channel epoch flipped %q→%q while the connection was in the keyed hub (tracking a key), but its subscription (reply epoch %q) was never ended; frames: %s",
								cr.c.Name, fl.from, fl.to, sub.epoch, vfC25RenderFrames(frames))
						}
					}
				}
			}
			if len(flips) > 0 {
				out.label("server_epoch_flip_observed")
			}
			survivor := false
			if learned && !closed && cs.EpochMode == 1 {
				for _, sub := range st.subs {
					if sub.endSeq != 0 {
						continue
					}
					changedSince := false
					for _, chSeq := range epochChangeSeqs {
						changedSince = changedSince || sub.startSeq < chSeq
					}
					if !(changedSince || (sub.epoch != "" && sub.epoch != finalEpoch)) {
						continue
					}
					survivor = true
					key := "C25:epoch-change-does-not-end-subscriptions-without-a-tracked-key"
					msg := fmt.Sprintf("conn %s: subscription with reply epoch %q is still live although the publisher epoch is %q (changed during its life: %v) and polls answered with that epoch were applied; frames: %s",
						cr.c.Name, sub.epoch, finalEpoch, changedSince, vfC25RenderFrames(frames))
					if !known(key, msg) {
						return "[" + key + "] " + msg
					}
				}
			}
			// bounded liveness
			// (no poll at all during the final phase is not an excuse: a tracked key must be polled every interval)
			if closed || !st.subscribed || survivor {
				continue
			}
			for _, k := range vfC25Keys {
				ks := st.keys[k]
				if !ks.tracked {
					continue
				}
				if vfC25PendingNever(cr.attempts, frames, k) {
					continue
				}
				be.mu.Lock()
				m := be.keys[k]
				removed, ver, data := m.removed, m.version, m.data
				be.mu.Unlock()
				if removed {
					out.label("tracked_key_removed_in_backend_at_end")
					continue
				}
				out.label("liveness_checked")
				msg := ""
				if cs.Versioned {
					if !ks.hasData && !ks.garbage && ks.ver == ver {
						continue // the client claimed the newest version itself
					}
					if ks.ver != ver || (ks.hasData && string(ks.data) != string(data)) {
						msg = fmt.Sprintf("liveness: conn %s still tracks key %s but holds v%d %s while the newest supplied is v%d %s", cr.c.Name, k, ks.ver, vfTrunc(string(ks.data), 60), ver, vfTrunc(string(data), 60))
					}
				} else if !ks.garbage && (!ks.hasData || string(ks.data) != string(data)) {
					msg = fmt.Sprintf("liveness: conn %s still tracks key %s but holds %s while the backend's payload is %s", cr.c.Name, k, vfTrunc(string(ks.data), 60), vfTrunc(string(data), 60))
				}
				if msg == "" {
					continue
				}
				diag, inHub, connTracked, hasEntry := vfC25Diag(w, cr.c.Client, k)
				msg += " (≥3 refresh intervals after the last change, backend healthy); server: " + diag
				// root cause classification: an update for the key was supplied while this connection's last track of the key was
				// between its start and its completion (entry registered in the manager, connection not yet in the keyed hub)
				var last *vfC25Attempt
				for _, a := range cr.attempts {
					if _, ok := a.claims[k]; ok && a.kind == vfC25Track && a.replyAt >= 0 && (last == nil || a.replyAt > last.replyAt) {
						last = a
					}
				}
				inWindow := ""
				if last != nil {
					for _, u := range updLog {
						if u.key == k && u.seq >= last.sentSeq && u.seq <= last.doneSeq {
							inWindow = u.what
						}
					}
				}
				overlap := ""
				if last != nil && connTracked && (!inHub || !hasEntry) {
					for _, r := range removals {
						has := false
						for _, rk := range r.keys {
							has = has || rk == k
						}
						if has && r.startSeq <= last.doneSeq && (r.doneSeq == 0 || r.doneSeq >= last.sentSeq) {
							overlap = r.what
						}
					}
				}
				msg += fmt.Sprintf("; update inside the last track's window: %q; server-side removal overlapping the last track: %q; frames: %s", inWindow, overlap, vfC25RenderFrames(frames))
				if overlap != "" {
					key := "C25:removal-wipes-hub-entries-of-connections-that-tracked-the-key-after-the-removal-broadcast"
					if known(key, msg) {
						continue
					}
					return "[" + key + "] " + msg
				}
				if inWindow != "" {
					key := "C25:update-between-trackKeys-and-hub-join-is-never-delivered-to-the-tracking-connection"
					if known(key, msg) {
						continue
					}
					return "[" + key + "] " + msg
				}
				return msg
			}
		}
		if emptyEpochUsed {
			out.label("publish_with_empty_epoch")
		}
		if len(epochChangeSeqs) > 0 {
			out.label("publisher_epoch_changed")
		}
		if updates2 {
			out.label("two_or_more_updates_for_a_key")
		}
		if races > 0 {
			out.label("some_operation_raced_a_poll")
		}
		if updates2 && races > 0 {
			out.nontrivial = true
		}
		return ""
	})
}

// vfC25Diag renders the server-side state for (connection, key); used in failure messages only.
func vfC25Diag(w *vfWorld, c *Client, key string) (text string, inHub bool, connTracked bool, hasEntry bool) {
	var sb strings.Builder
	m := w.node.sharedPollManager
	m.mu.RLock()
	s := m.channels[vfC25Chan]
	m.mu.RUnlock()
	if s == nil {
		sb.WriteString("no channel state")
	} else {
		s.mu.Lock()
		if e := s.itemIndex[key]; e != nil {
			hasEntry = true
			fmt.Fprintf(&sb, "entry{version=%d needsBroadcast=%v freshFromPublish=%v pendingHubJoin=%d} epoch=%q", e.version, e.needsBroadcast, e.freshFromPublish, e.pendingHubJoin, s.epoch)
		} else {
			fmt.Fprintf(&sb, "no entry (keys=%d) epoch=%q", len(s.itemIndex), s.epoch)
		}
		fmt.Fprintf(&sb, " workerRunning=%v removed=%v", s.workerRunning, s.removed)
		s.mu.Unlock()
	}
	if hub := w.node.keyedManager.getHub(vfC25Chan); hub != nil {
		inHub = hub.hasSubscriber(key, c)
		fmt.Fprintf(&sb, " inHub=%v", inHub)
	} else {
		sb.WriteString(" no hub")
	}
	c.mu.RLock()
	if c.keyed != nil && c.keyed.trackedKeys[vfC25Chan] != nil && c.keyed.trackedKeys[vfC25Chan][key] != nil {
		ks := c.keyed.trackedKeys[vfC25Chan][key]
		connTracked = true
		fmt.Fprintf(&sb, " conn{version=%d deltaReady=%v}", ks.version, ks.deltaReady)
	} else {
		sb.WriteString(" conn{key not tracked}")
	}
	c.mu.RUnlock()
	return sb.String(), inHub, connTracked, hasEntry
}

func vfC25Replied(frames []vfFrame, id uint32) bool {
	for _, f := range frames {
		if f.Reply != nil && f.Reply.Id == id {
			return true
		}
	}
	return false
}

// vfC25PendingNever reports whether a track attempt for key never got its reply (then the client model is not certain).
func vfC25PendingNever(attempts map[uint32]*vfC25Attempt, frames []vfFrame, key string) bool {
	for _, a := range attempts {
		if a.kind != vfC25Track {
			continue
		}
		if _, ok := a.claims[key]; ok && !vfC25Replied(frames, a.id) {
			return true
		}
	}
	return false
}

func TestVF_C25(t *testing.T) {
	vfCheck(t, "C25", func(rt *rapid.T, c *vfCase) string {
		cs := vfC25Gen(rt)
		c.Describe(cs.String())
		if os.Getenv("VF_DEBUG") != "" {
			fmt.Fprintf(os.Stderr, "DBG case %s\n", cs.String())
		}
		out := &vfC25Out{knownEx: map[string]string{}}
		msg := vfC25Run(t, cs, out, c.IsKnown)
		seen := map[string]bool{}
		add := func(l string) {
			if !seen[l] {
				seen[l] = true
				c.Label(l)
			}
		}
		for _, l := range out.labels {
			add(l)
		}
		if cs.Versioned {
			add("mode_versioned")
		} else {
			add("mode_versionless")
		}
		if cs.Keep {
			add("keep_latest_data")
		}
		if cs.PubEnabled {
			add("publish_enabled")
		}
		if cs.EpochMode == 1 {
			add("publisher_uses_epochs")
		}
		seenK := map[string]bool{}
		for _, k := range out.known {
			if !seenK[k] {
				seenK[k] = true
				c.Known(k, out.knownEx[k])
			}
		}
		if out.nontrivial {
			c.Nontrivial(c.desc)
		}
		return msg
	})
}

// TestVF_C25_Scenario runs hand-written schedules (minimal reproductions of the findings; debugging aid, not part of
// the check's test list). VF_C25_SCENARIO selects one: prevdata | hubjoin | epoch | revoke | pollremoval.
func TestVF_C25_Scenario(t *testing.T) {
	which := os.Getenv("VF_C25_SCENARIO")
	if which == "" {
		t.Skip("debug only")
	}
	tr := func(conn int, gateB bool, keys ...int) vfC25Step {
		var b []vfC25Pick
		for _, k := range keys {
			b = append(b, vfC25Pick{Key: k})
		}
		return vfC25Step{Kind: vfC25Track, Conn: conn, GateB: gateB, Batches: [][]vfC25Pick{b}}
	}
	conns := []vfC25ConnCfg{{Proto: ProtocolTypeJSON, Delta: true}, {Proto: ProtocolTypeProtobuf, Delta: true}, {Proto: ProtocolTypeJSON}}
	var cs vfC25Case
	switch which {
	case "prevdata":
		cs = vfC25Case{Versioned: true, SendPrev: true, IntervalMs: 1000, Pad: 60, Conns: conns,
			Steps: []vfC25Step{{Kind: vfC25Sub, Conn: 0}, tr(0, false, 0), {Kind: vfC25Set, Key: 0, Bump: 1}, {Kind: vfC25Adv, Adv: 2},
				{Kind: vfC25ArmPoll, Trig: 2}, {Kind: vfC25Publish, Key: 0}, {Kind: vfC25Set, Key: 0, Bump: 1}, {Kind: vfC25Release, Trig: 1}}}
	case "hubjoin":
		cs = vfC25Case{Versioned: true, IntervalMs: 1000, Pad: 60, Conns: conns,
			Steps: []vfC25Step{{Kind: vfC25Sub, Conn: 0}, tr(0, true, 0), {Kind: vfC25Notify, Keys: []int{0}}, {Kind: vfC25Release}}}
	case "epoch":
		cs = vfC25Case{Versioned: true, EpochMode: 1, IntervalMs: 1000, Pad: 60, Shutdown: 3, Conns: conns,
			Steps: []vfC25Step{{Kind: vfC25Sub, Conn: 0}, tr(0, false, 0), {Kind: vfC25Adv, Adv: 0}, {Kind: vfC25Sub, Conn: 0}, {Kind: vfC25Sub, Conn: 1}, tr(0, false, 0),
				{Kind: vfC25Adv, Adv: 2}, {Kind: vfC25Epoch}, {Kind: vfC25Adv, Adv: 2}, {Kind: vfC25Sub, Conn: 0}, tr(0, false, 0)}}
	case "revoke":
		cs = vfC25Case{Versioned: true, IntervalMs: 1000, Pad: 60, Conns: conns,
			Steps: []vfC25Step{{Kind: vfC25Sub, Conn: 0}, {Kind: vfC25Sub, Conn: 1}, tr(0, false, 0), {Kind: vfC25Adv, Adv: 1}, {Kind: vfC25ArmBcast},
				{Kind: vfC25Revoke, Keys: []int{0}}, tr(1, false, 0), {Kind: vfC25Release, Trig: 2}, {Kind: vfC25Set, Key: 0, Bump: 1}}}
	case "pollremoval":
		cs = vfC25Case{Versioned: true, IntervalMs: 1000, Pad: 60, Conns: conns,
			Steps: []vfC25Step{{Kind: vfC25Sub, Conn: 0}, {Kind: vfC25Remove, Key: 0}, tr(0, true, 0), {Kind: vfC25Notify, Keys: []int{0}}, {Kind: vfC25Release},
				{Kind: vfC25Set, Key: 0, Bump: 1, Gate: true}}}
	default:
		t.Skip("unknown scenario")
	}
	out := &vfC25Out{knownEx: map[string]string{}}
	msg := vfC25Run(t, cs, out, func(string) bool { return false })
	fmt.Fprintf(os.Stderr, "DBG scenario %s: %s\nDBG verdict=%q\n", which, cs.String(), msg)
}
