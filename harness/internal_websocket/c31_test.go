package PKGNAME

// C31 (parts a, b, d) — WebSocket handshake and close codes follow the RFC.
//
// TestVF_C31_Upgrade: upgrade requests drawn from a header grammar are given to Upgrader.Upgrade with an in-memory
//   hijackable ResponseWriter. Oracle = independent predicate derived from RFC 6455 4.2.1 (HTTP/1.1+, GET, Connection
//   has token "upgrade", Upgrade has token "websocket", version 13, key = base64 of 16 bytes) and the documented origin
//   policy (CheckOrigin nil: Origin absent or its host equals the Host header, ASCII case-insensitively); for the
//   HTTP/2 extended CONNECT path RFC 8441 (CONNECT, :protocol websocket, version 13). Valid => hijack + 101 with
//   Sec-WebSocket-Accept = base64(sha1(key + GUID)), subprotocol from offered∩supported, permessage-deflate only when
//   offered and enabled. Invalid => 4xx through the ResponseWriter, no hijack, nil Conn.
// TestVF_C31_Close: (b) received close payloads over the whole code range / reason validity, (d) first-close-wins of
//   CloseCode() over sequences of outgoing and incoming closes.

import (
	"bufio"
	"bytes"
	"crypto/sha1"
	"encoding/base64"
	"errors"
	"fmt"
	"io"
	"net"
	"net/http"
	"net/url"
	"strings"
	"testing"
	"time"
	"unicode/utf8"

	"pgregory.net/rapid"
)

// ---------------------------------------------------------------------------------------------------------------
// in-memory ResponseWriter

type vfC31RW struct {
	hdr      http.Header
	code     int
	body     bytes.Buffer
	hijacked bool
	noHijack bool
	conn     *vfC29Pipe
	flushes  int
}

func (w *vfC31RW) Header() http.Header { return w.hdr }
func (w *vfC31RW) Write(b []byte) (int, error) {
	if w.code == 0 {
		w.code = 200
	}
	return w.body.Write(b)
}
func (w *vfC31RW) WriteHeader(code int) {
	if w.code == 0 {
		w.code = code
	}
}
func (w *vfC31RW) Flush()                             { w.flushes++ }
func (w *vfC31RW) SetReadDeadline(t time.Time) error  { return nil }
func (w *vfC31RW) SetWriteDeadline(t time.Time) error { return nil }
func (w *vfC31RW) EnableFullDuplex() error            { return nil }
func (w *vfC31RW) hj() (net.Conn, *bufio.ReadWriter, error) {
	w.hijacked = true
	return w.conn, bufio.NewReadWriter(bufio.NewReaderSize(w.conn, 4096), bufio.NewWriterSize(w.conn, 4096)), nil
}

// vfC31RWH adds http.Hijacker (HTTP/1 connections); HTTP/2 response writers are not hijackable.
type vfC31RWH struct{ *vfC31RW }

func (w vfC31RWH) Hijack() (net.Conn, *bufio.ReadWriter, error) { return w.hj() }

// ---------------------------------------------------------------------------------------------------------------
// request grammar

type vfC31Req struct {
	Major, Minor int
	Method       string
	Host         string
	Connection   []string // header lines
	Upgrade      []string
	Version      []string
	Key          []string
	KeyKind      string
	Origin       []string
	Protocols    []string
	Extensions   []string
	H2Protocol   string
	// server side
	Supported   []string
	SupportedOn bool
	EnableComp  bool
	CheckOrigin int // 0 nil (same origin), 1 func true, 2 func false
	ReadBuf     int
	WriteBuf    int
}

func (r vfC31Req) String() string {
	return fmt.Sprintf("HTTP/%d.%d %s host=%q connection=%q upgrade=%q version=%q key(%s)=%q origin=%q protocols=%q extensions=%q :protocol=%q | supported=%q(on=%v) comp=%v checkOrigin=%d rbuf=%d wbuf=%d",
		r.Major, r.Minor, r.Method, r.Host, r.Connection, r.Upgrade, r.Version, r.KeyKind, r.Key, r.Origin, r.Protocols, r.Extensions, r.H2Protocol,
		r.Supported, r.SupportedOn, r.EnableComp, r.CheckOrigin, r.ReadBuf, r.WriteBuf)
}

func vfC31Case(rt *rapid.T, s string) string {
	mode := rapid.IntRange(0, 3).Draw(rt, "case_"+s)
	switch mode {
	case 1:
		return strings.ToUpper(s)
	case 2:
		return strings.ToUpper(s[:1]) + s[1:]
	case 3:
		b := []byte(s)
		for i := range b {
			if i%2 == 1 && b[i] >= 'a' && b[i] <= 'z' {
				b[i] -= 32
			}
		}
		return string(b)
	}
	return s
}

// vfC31TokenList renders a 1#token header (possibly on several lines) that does or does not contain want.
func vfC31TokenList(rt *rapid.T, label, want string, others []string) (lines []string, contains bool, emptyElems bool) {
	mode := rapid.IntRange(0, 9).Draw(rt, label+"_mode")
	switch {
	case mode == 0:
		return nil, false, false // header absent
	case mode == 1: // only other tokens
		o := rapid.SampledFrom(others).Draw(rt, label+"_other")
		return []string{o}, false, false
	case mode == 2: // near miss
		nm := rapid.SampledFrom([]string{want + "x", "x" + want, want[:len(want)-1], want + "/13", ""}).Draw(rt, label+"_near")
		return []string{nm}, false, false
	}
	w := vfC31Case(rt, want)
	n := rapid.IntRange(0, 2).Draw(rt, label+"_nother")
	elems := []string{w}
	for i := 0; i < n; i++ {
		o := rapid.SampledFrom(others).Draw(rt, fmt.Sprintf("%s_o%d", label, i))
		if rapid.Bool().Draw(rt, fmt.Sprintf("%s_front%d", label, i)) {
			elems = append([]string{o}, elems...)
		} else {
			elems = append(elems, o)
		}
	}
	if rapid.IntRange(0, 24).Draw(rt, label+"_empty") == 0 {
		// RFC 2616 2.1 / RFC 7230 7: empty list elements are allowed and ignored
		k := rapid.IntRange(0, len(elems)).Draw(rt, label+"_emptypos")
		elems = append(elems[:k], append([]string{""}, elems[k:]...)...)
		emptyElems = true
	}
	sep := rapid.SampledFrom([]string{",", ", ", " , ", ",\t"}).Draw(rt, label+"_sep")
	if len(elems) > 1 && rapid.IntRange(0, 4).Draw(rt, label+"_split") == 0 {
		k := rapid.IntRange(1, len(elems)-1).Draw(rt, label+"_splitat")
		return []string{strings.Join(elems[:k], sep), strings.Join(elems[k:], sep)}, true, emptyElems
	}
	return []string{strings.Join(elems, sep)}, true, emptyElems
}

func vfC31GenReq(rt *rapid.T) (vfC31Req, map[string]bool) {
	var r vfC31Req
	flags := map[string]bool{}
	// most dimensions are canonical most of the time so that single deviations are frequent
	// (the number of deviating dimensions is drawn first: 0 in ~30%, 1 in ~45%, 2-3 otherwise)
	devset := map[string]bool{}
	ndev := rapid.SampledFrom([]int{0, 0, 0, 0, 1, 1, 1, 1, 1, 1, 2, 2, 3}).Draw(rt, "ndev")
	for i := 0; i < ndev; i++ {
		devset[rapid.SampledFrom([]string{"proto", "method", "connection", "upgrade", "version", "key", "origin", "origin", "h2proto"}).Draw(rt, fmt.Sprintf("devdim%d", i))] = true
	}
	dev := func(label string, p int) bool {
		if label == "protocols" || label == "extensions" {
			return rapid.Bool().Draw(rt, "dev_"+label)
		}
		return devset[label]
	}

	r.Major, r.Minor = 1, 1
	if dev("proto", 12) {
		pm := rapid.SampledFrom([][2]int{{1, 0}, {1, 0}, {2, 0}, {2, 0}, {3, 0}, {0, 9}}).Draw(rt, "proto")
		r.Major, r.Minor = pm[0], pm[1]
	}
	r.Method = "GET"
	if r.Major == 2 {
		r.Method = "CONNECT"
		r.H2Protocol = "websocket"
		if dev("h2proto", 15) {
			r.H2Protocol = rapid.SampledFrom([]string{"", "webtransport", "Websocket"}).Draw(rt, "h2proto")
		}
	}
	if dev("method", 10) {
		r.Method = rapid.SampledFrom([]string{"POST", "HEAD", "get", "CONNECT", "GET", "OPTIONS"}).Draw(rt, "method")
	}
	r.Host = rapid.SampledFrom([]string{"example.com", "example.com:8080", "EXAMPLE.com", "10.0.0.1:80", "[::1]:8000"}).Draw(rt, "host")

	var e1, e2 bool
	if dev("connection", 25) {
		r.Connection, flags["conn"], e1 = vfC31TokenList(rt, "connection", "upgrade", []string{"keep-alive", "close", "HTTP2-Settings", "upgrade-insecure"})
	} else {
		r.Connection, flags["conn"] = []string{"Upgrade"}, true
	}
	if dev("upgrade", 25) {
		r.Upgrade, flags["upg"], e2 = vfC31TokenList(rt, "upgrade", "websocket", []string{"h2c", "websockets", "IRC"})
	} else {
		r.Upgrade, flags["upg"] = []string{"websocket"}, true
	}
	flags["emptyElems"] = e1 || e2
	r.Version = []string{"13"}
	if dev("version", 12) {
		v := rapid.SampledFrom([]string{"", "8", "7", "12", "14", "013", "13.0", "-13", "130", "ABSENT"}).Draw(rt, "version")
		if v == "ABSENT" {
			r.Version = nil
		} else {
			r.Version = []string{v}
		}
	}
	raw := rapid.SliceOfN(rapid.Byte(), 16, 16).Draw(rt, "keybytes")
	r.KeyKind = "valid"
	key := base64.StdEncoding.EncodeToString(raw)
	if dev("key", 20) {
		r.KeyKind = rapid.SampledFrom([]string{"absent", "empty", "24-nopad", "24-onepad", "raw22", "badchar", "short", "urlsafe", "long", "15bytes", "17bytes", "pad-inside", "trailing-space"}).Draw(rt, "keykind")
		switch r.KeyKind {
		case "absent", "empty":
			key = ""
		case "24-nopad": // 24 characters, decodes to 18 bytes
			key = base64.StdEncoding.EncodeToString(append(raw, 1, 2))
		case "24-onepad": // 24 characters, decodes to 17 bytes
			key = base64.StdEncoding.EncodeToString(append(raw, 1))
		case "raw22":
			key = base64.RawStdEncoding.EncodeToString(raw)
		case "badchar":
			key = "!" + key[1:]
		case "short":
			key = base64.StdEncoding.EncodeToString(raw[:12])
		case "urlsafe":
			key = base64.URLEncoding.EncodeToString([]byte{0xfb, 0xff, 0xfe, 0xfb, 0xff, 0xfe, 0xfb, 0xff, 0xfe, 0xfb, 0xff, 0xfe, 0xfb, 0xff, 0xfe, 0xfb})
		case "long":
			key = base64.StdEncoding.EncodeToString(append(raw, raw...))
		case "15bytes":
			key = base64.StdEncoding.EncodeToString(raw[:15])
		case "17bytes":
			key = base64.StdEncoding.EncodeToString(append(raw, 7))
		case "pad-inside":
			key = key[:10] + "==" + key[12:]
		case "trailing-space":
			key = key[:23] + " "
		}
	}
	if r.KeyKind != "absent" {
		r.Key = []string{key}
	}
	if dev("origin", 35) {
		o := rapid.SampledFrom([]string{"http://example.com", "https://example.com", "http://EXAMPLE.COM", "https://example.com:8080", "http://example.com:8080/path",
			"http://evil.example", "http://example.com.evil.example", "null", "", "http://10.0.0.1:80", "http://10.0.0.1", "http://[::1]:8000", "example.com", "http://user@example.com"}).Draw(rt, "origin")
		r.Origin = []string{o}
	}
	if dev("protocols", 50) {
		n := rapid.IntRange(1, 3).Draw(rt, "nproto")
		var offers []string
		for i := 0; i < n; i++ {
			offers = append(offers, rapid.SampledFrom([]string{"centrifuge-json", "centrifuge-protobuf", "chat", "v1.custom", "Centrifuge-JSON"}).Draw(rt, fmt.Sprintf("offer%d", i)))
		}
		sep := rapid.SampledFrom([]string{",", ", ", " ,"}).Draw(rt, "protosep")
		if n > 1 && rapid.IntRange(0, 4).Draw(rt, "protosplit") == 0 {
			r.Protocols = []string{offers[0], strings.Join(offers[1:], sep)}
		} else {
			r.Protocols = []string{strings.Join(offers, sep)}
		}
	}
	if dev("extensions", 50) {
		r.Extensions = []string{rapid.SampledFrom([]string{"permessage-deflate", "permessage-deflate; client_max_window_bits", "permessage-deflate; client_no_context_takeover; server_no_context_takeover",
			"x-webkit-deflate-frame", "foo, permessage-deflate", "permessage-deflate;client_max_window_bits=15, x-other", "PERMESSAGE-DEFLATE", "permessage-deflate-x", "foo; bar=\"permessage-deflate\""}).Draw(rt, "ext")}
	}
	r.SupportedOn = rapid.IntRange(0, 4).Draw(rt, "supportedOn") != 0
	if r.SupportedOn {
		r.Supported = rapid.SampledFrom([][]string{{"centrifuge-json", "centrifuge-protobuf"}, {"centrifuge-protobuf"}, {"chat", "centrifuge-json"}, {}}).Draw(rt, "supported")
	}
	r.EnableComp = rapid.Bool().Draw(rt, "enableComp")
	r.CheckOrigin = rapid.SampledFrom([]int{0, 0, 0, 1, 2}).Draw(rt, "checkOrigin")
	r.ReadBuf = rapid.SampledFrom([]int{0, 0, 1, 512, 4096}).Draw(rt, "rbuf")
	r.WriteBuf = rapid.SampledFrom([]int{0, 0, 1, 512, 4096}).Draw(rt, "wbuf")
	return r, flags
}

// independent helpers ---------------------------------------------------------------------------------------------

// vfC31OriginHost extracts the authority of a serialized origin (RFC 6454: scheme "://" host [ ":" port ]).
func vfC31OriginHost(o string) (string, bool) {
	i := strings.Index(o, "://")
	if i <= 0 {
		return "", false
	}
	rest := o[i+3:]
	if j := strings.IndexAny(rest, "/?#"); j >= 0 {
		rest = rest[:j]
	}
	if k := strings.LastIndex(rest, "@"); k >= 0 {
		rest = rest[k+1:]
	}
	return rest, true
}

func vfC31Tokens(lines []string) []string {
	var out []string
	for _, l := range lines {
		for _, e := range strings.Split(l, ",") {
			e = strings.Trim(e, " \t")
			if e != "" {
				out = append(out, e)
			}
		}
	}
	return out
}

func vfC31Has(lines []string, want string) bool {
	for _, t := range vfC31Tokens(lines) {
		if strings.EqualFold(t, want) {
			return true
		}
	}
	return false
}

func vfC31OffersDeflate(lines []string) bool {
	for _, l := range lines {
		for _, ext := range strings.Split(l, ",") {
			name := strings.Trim(strings.SplitN(ext, ";", 2)[0], " \t")
			if name == "permessage-deflate" {
				return true
			}
		}
	}
	return false
}

func TestVF_C31_Upgrade(t *testing.T) {
	vfCheck(t, "C31", func(rt *rapid.T, c *vfCase) string {
		q, flags := vfC31GenReq(rt)
		c.Describe(q.String())

		// ---- oracle
		keyOK := false
		if len(q.Key) == 1 {
			if b, err := base64.StdEncoding.Strict().DecodeString(q.Key[0]); err == nil && len(b) == 16 {
				keyOK = true
			}
		}
		versionOK := len(q.Version) == 1 && q.Version[0] == "13"
		originOK := true
		switch q.CheckOrigin {
		case 0:
			if len(q.Origin) > 0 {
				h, ok := vfC31OriginHost(q.Origin[0])
				originOK = ok && strings.EqualFold(h, q.Host)
			}
		case 2:
			originOK = false
		}
		var valid bool
		var why []string
		note := func(ok bool, s string) bool {
			if !ok {
				why = append(why, s)
			}
			return ok
		}
		switch q.Major {
		case 1:
			valid = note(q.Minor >= 1, "http/1.0") // RFC 6455 4.1/4.2.1: HTTP/1.1 or higher
			valid = note(q.Method == "GET", "method") && valid
			valid = note(flags["conn"], "connection") && valid
			valid = note(flags["upg"], "upgrade") && valid
			valid = note(versionOK, "version") && valid
			valid = note(keyOK, "key") && valid
		case 2: // RFC 8441
			valid = note(q.Method == "CONNECT", "method")
			valid = note(q.H2Protocol == "websocket", ":protocol") && valid
			valid = note(versionOK, "version") && valid
		default:
			valid = note(false, "http-version")
		}
		valid = note(originOK, "origin") && valid
		offered := vfC31Tokens(q.Protocols)
		inter := map[string]bool{}
		if q.SupportedOn {
			for _, o := range offered {
				for _, s := range q.Supported {
					if o == s {
						inter[o] = true
					}
				}
			}
		}
		deflateAllowed := q.EnableComp && vfC31OffersDeflate(q.Extensions)

		// ---- execute
		req := &http.Request{Method: q.Method, URL: &url.URL{Path: "/connection/websocket"}, Proto: fmt.Sprintf("HTTP/%d.%d", q.Major, q.Minor),
			ProtoMajor: q.Major, ProtoMinor: q.Minor, Header: http.Header{}, Host: q.Host, RemoteAddr: "10.1.1.1:5555", Body: http.NoBody}
		set := func(k string, v []string) {
			if v != nil {
				req.Header[k] = v
			}
		}
		set("Connection", q.Connection)
		set("Upgrade", q.Upgrade)
		set("Sec-Websocket-Version", q.Version)
		set("Sec-Websocket-Key", q.Key)
		set("Origin", q.Origin)
		set("Sec-Websocket-Protocol", q.Protocols)
		set("Sec-Websocket-Extensions", q.Extensions)
		if q.Major == 2 && q.H2Protocol != "" {
			req.Header[":protocol"] = []string{q.H2Protocol}
		}
		pipe := &vfC29Pipe{}
		if q.Major == 2 {
			req.Body = io.NopCloser(pipe)
		}
		rw := &vfC31RW{hdr: http.Header{}, conn: pipe}
		var w http.ResponseWriter = rw
		if q.Major == 1 {
			w = vfC31RWH{rw}
		}
		up := &Upgrader{ReadBufferSize: q.ReadBuf, WriteBufferSize: q.WriteBuf, EnableCompression: q.EnableComp}
		if q.SupportedOn {
			up.Subprotocols = q.Supported
		}
		switch q.CheckOrigin {
		case 1:
			up.CheckOrigin = func(*http.Request) bool { return true }
		case 2:
			up.CheckOrigin = func(*http.Request) bool { return false }
		}
		var conn *Conn
		var sub string
		var err error
		panicked := ""
		func() {
			defer func() {
				if r := recover(); r != nil {
					panicked = fmt.Sprint(r)
				}
			}()
			conn, sub, err = up.Upgrade(w, req, nil)
		}()
		if valid {
			c.Label("valid")
		} else {
			c.Labelf("invalid-reasons:%d", len(why))
			for _, y := range why {
				c.Label("why:" + y)
			}
		}
		c.Labelf("proto:%d.%d", q.Major, q.Minor)
		if len(why) == 1 || (valid && (len(offered) > 0 || len(q.Extensions) > 0 || len(q.Origin) > 0)) {
			c.Nontrivial(c.desc)
		}
		if panicked != "" {
			// isValidChallengeKey decodes any 24 character key into a 16 byte buffer; a 24 character value that decodes to
			// 17 or 18 bytes makes base64.Decode index out of range.
			long := false
			if len(q.Key) == 1 && len(q.Key[0]) == 24 {
				b, derr := base64.StdEncoding.DecodeString(q.Key[0])
				long = derr == nil && len(b) > 16
			}
			if q.Major == 1 && long {
				if vfC29Known(c, "C31:challenge-key-decode-panic", q.String()) {
					return ""
				}
				return "[C31:challenge-key-decode-panic] PANIC in Upgrade: " + panicked
			}
			return "PANIC in Upgrade: " + panicked
		}

		// A list with an empty element ("Upgrade: ,websocket") must not be generated by a sender (RFC 7230 7) although
		// recipients are asked to tolerate it: accepting and rejecting are both fine.
		lenientReject := valid && flags["emptyElems"] && (err != nil || conn == nil)
		if lenientReject {
			c.Label("empty-list-element-rejected")
		}
		if !valid || lenientReject {
			if err == nil || conn != nil {
				msg := fmt.Sprintf("request is not a valid upgrade (%s) but Upgrade succeeded", strings.Join(why, ","))
				if len(why) == 1 && why[0] == "http/1.0" && vfC29Known(c, "C31:http10-upgrade-accepted", q.String()) {
					return ""
				}
				if len(why) == 1 && why[0] == "http/1.0" {
					msg = "[C31:http10-upgrade-accepted] " + msg
				}
				return msg
			}
			if rw.hijacked {
				return "invalid upgrade: the connection was hijacked"
			}
			if rw.code < 400 || rw.code > 499 {
				return fmt.Sprintf("invalid upgrade (%s): response status %d, want 4xx", strings.Join(why, ","), rw.code)
			}
			if len(pipe.out) != 0 {
				return "invalid upgrade: bytes written to the raw connection"
			}
			return ""
		}
		// valid
		if err != nil || conn == nil {
			return fmt.Sprintf("valid upgrade rejected: %v (status %d)", err, rw.code)
		}
		var status int
		var rh http.Header
		if q.Major == 1 {
			if !rw.hijacked {
				return "valid HTTP/1.1 upgrade: connection not hijacked"
			}
			if rw.code != 0 {
				return fmt.Sprintf("valid upgrade: ResponseWriter used (status %d) although hijacked", rw.code)
			}
			resp, perr := http.ReadResponse(bufio.NewReader(bytes.NewReader(pipe.out)), req)
			if perr != nil {
				return fmt.Sprintf("handshake response does not parse: %v (%q)", perr, pipe.out)
			}
			if !bytes.HasSuffix(pipe.out, []byte("\r\n\r\n")) || bytes.Count(pipe.out, []byte("\r\n\r\n")) != 1 {
				return fmt.Sprintf("handshake response is not exactly one header block: %q", pipe.out)
			}
			status, rh = resp.StatusCode, resp.Header
			if status != 101 {
				return fmt.Sprintf("status %d, want 101", status)
			}
			if !vfC31Has(rh["Upgrade"], "websocket") || !vfC31Has(rh["Connection"], "upgrade") {
				return fmt.Sprintf("101 response lacks Upgrade: websocket / Connection: Upgrade (%v)", rh)
			}
			sum := sha1.Sum([]byte(q.Key[0] + "258EAFA5-E914-47DA-95CA-C5AB0DC85B11"))
			want := base64.StdEncoding.EncodeToString(sum[:])
			if got := rh["Sec-Websocket-Accept"]; len(got) != 1 || got[0] != want {
				return fmt.Sprintf("Sec-WebSocket-Accept = %q, want %q", got, want)
			}
		} else {
			status, rh = rw.code, rw.hdr
			if status < 200 || status > 299 {
				return fmt.Sprintf("extended CONNECT answered with status %d, want 2xx", status)
			}
			if rw.flushes == 0 {
				return "extended CONNECT response was not flushed"
			}
		}
		gotSub := rh["Sec-Websocket-Protocol"]
		switch {
		case len(gotSub) > 1:
			return fmt.Sprintf("several Sec-WebSocket-Protocol headers in the response: %q", gotSub)
		case len(gotSub) == 1 && !inter[gotSub[0]]:
			return fmt.Sprintf("response subprotocol %q is not in offered∩supported (offered %q, supported %q)", gotSub[0], offered, q.Supported)
		case len(gotSub) == 0 && len(inter) > 0 && len(q.Protocols) == 1:
			return fmt.Sprintf("no subprotocol negotiated although offered %q and supported %q intersect", offered, q.Supported)
		}
		if (len(gotSub) == 1 && sub != gotSub[0]) || (len(gotSub) == 0 && sub != "") {
			return fmt.Sprintf("Upgrade returned subprotocol %q but the response carries %q", sub, gotSub)
		}
		gotExt := rh["Sec-Websocket-Extensions"]
		negotiated := false
		for _, e := range gotExt {
			for _, part := range strings.Split(e, ",") {
				name := strings.Trim(strings.SplitN(part, ";", 2)[0], " \t")
				if name != "permessage-deflate" {
					return fmt.Sprintf("response negotiates extension %q which this server does not implement", name)
				}
				negotiated = true
			}
		}
		if negotiated && !deflateAllowed {
			return fmt.Sprintf("permessage-deflate in the response although enabled=%v offered=%q", q.EnableComp, q.Extensions)
		}
		if conn.IsCompressionNegotiated() != negotiated {
			return fmt.Sprintf("Conn.IsCompressionNegotiated()=%v but response extension header=%q", conn.IsCompressionNegotiated(), gotExt)
		}
		if negotiated {
			c.Label("deflate-negotiated")
		}
		if len(gotSub) == 1 {
			c.Label("subprotocol-negotiated")
		}
		// the Conn is a server-side connection that works: one masked text frame in, one unmasked frame out
		if q.Major == 1 {
			mark := len(pipe.out)
			pipe.in = append(pipe.in, vfWSRefEncodeFrame(0x81, true, [4]byte{1, 2, 3, 4}, 0, nil, []byte("hi"))...)
			mt, p, rerr := conn.ReadMessage()
			if rerr != nil || mt != TextMessage || string(p) != "hi" {
				return fmt.Sprintf("upgraded Conn cannot read a masked client frame: %v %d %q", rerr, mt, p)
			}
			if werr := conn.WriteMessage(BinaryMessage, []byte("yo")); werr != nil {
				return fmt.Sprintf("upgraded Conn cannot write: %v", werr)
			}
			if _, problem := vfWSRefCheckWire(pipe.out[mark:], false, negotiated); problem != "" {
				return "upgraded Conn wrote an invalid server frame: " + problem
			}
		}
		return ""
	})
}

// ---------------------------------------------------------------------------------------------------------------
// close payloads and CloseCode()

func TestVF_C31_Close(t *testing.T) {
	vfCheck(t, "C31", func(rt *rapid.T, c *vfCase) string {
		server := rapid.Bool().Draw(rt, "server")
		// outgoing closes before reading
		sendable := []int{1000, 1001, 1002, 1003, 1007, 1008, 1009, 1010, 1011, 1005, 3000, 3001, 3500, 4000, 4999}
		type out struct {
			Code   int
			Reason string
			ViaWM  bool
		}
		var pre, post []out
		genOut := func(label string) out {
			return out{Code: rapid.SampledFrom(sendable).Draw(rt, label+"_code"), Reason: rapid.SampledFrom([]string{"", "x", "shutdown"}).Draw(rt, label+"_reason"),
				ViaWM: rapid.IntRange(0, 19).Draw(rt, label+"_viaWM") == 0}
		}
		for i, n := 0, rapid.SampledFrom([]int{0, 0, 0, 1, 2}).Draw(rt, "npre"); i < n; i++ {
			pre = append(pre, genOut(fmt.Sprintf("pre%d", i)))
		}
		for i, n := 0, rapid.SampledFrom([]int{0, 1, 2}).Draw(rt, "npost"); i < n; i++ {
			post = append(post, genOut(fmt.Sprintf("post%d", i)))
		}
		// incoming close
		hasIn := rapid.IntRange(0, 9).Draw(rt, "hasIn") != 0
		var code int
		switch rapid.IntRange(0, 3).Draw(rt, "codeclass") {
		case 0:
			code = rapid.IntRange(0, 65535).Draw(rt, "code_any")
		case 1:
			code = rapid.SampledFrom([]int{0, 1, 999, 1000, 1001, 1002, 1003, 1004, 1005, 1006, 1007, 1008, 1009, 1010, 1011, 1012, 1013, 1014, 1015, 1016, 1099, 1100, 2000, 2999,
				3000, 3001, 3999, 4000, 4999, 5000, 9999, 32768, 65535}).Draw(rt, "code_edge")
		case 2:
			code = rapid.IntRange(990, 1030).Draw(rt, "code_1k")
		default:
			code = rapid.IntRange(2990, 5010).Draw(rt, "code_3k")
		}
		bodyKind := rapid.SampledFrom([]string{"code+reason", "code+reason", "code", "empty", "badutf8", "maxreason"}).Draw(rt, "body")
		var payload []byte
		reason := ""
		switch bodyKind {
		case "empty":
		case "code":
			payload = []byte{byte(code >> 8), byte(code)}
		case "code+reason":
			reason = rapid.SampledFrom([]string{"bye", "going away", "ünï", "\u0000", "日本"}).Draw(rt, "reason")
			payload = append([]byte{byte(code >> 8), byte(code)}, reason...)
		case "maxreason":
			reason = strings.Repeat("z", 123)
			payload = append([]byte{byte(code >> 8), byte(code)}, reason...)
		case "badutf8":
			reason = rapid.SampledFrom([]string{"\xff", "a\x80", "\xe2\x82", "\xed\xa0\x80", "\xf4\x90\x80\x80"}).Draw(rt, "badreason")
			payload = append([]byte{byte(code >> 8), byte(code)}, reason...)
		}
		nmsgBefore := rapid.IntRange(0, 2).Draw(rt, "nmsgBefore")
		var stream []byte
		for i := 0; i < nmsgBefore; i++ {
			stream = append(stream, vfWSRefEncodeFrame(0x82, server, [4]byte{9, 8, 7, byte(i)}, 0, nil, []byte{byte(i), 1, 2})...)
		}
		if hasIn {
			stream = append(stream, vfWSRefEncodeFrame(0x88, server, [4]byte{5, 6, 7, 8}, 0, nil, payload)...)
		}
		c.Describe(fmt.Sprintf("server=%v pre=%v in=%v(code=%d body=%s reason=%q) msgsBefore=%d post=%v", server, pre, hasIn, code, bodyKind, reason, nmsgBefore, post))

		pipe := &vfC29Pipe{in: stream}
		conn := newConn(pipe, server, 0, 0, nil, nil, nil)

		// model of the first observed close
		first, firstIncoming := 0, false
		viaWMFirst := false
		sent := false
		doOut := func(o out) string {
			data := FormatCloseMessage(o.Code, o.Reason)
			var err error
			if o.ViaWM {
				err = conn.WriteMessage(CloseMessage, data)
			} else {
				err = conn.WriteControl(CloseMessage, data, time.Time{})
			}
			if sent {
				if err == nil {
					return fmt.Sprintf("a second close (%d) was written after a close frame had been sent", o.Code)
				}
				return ""
			}
			if err != nil {
				return fmt.Sprintf("sending close %d failed: %v", o.Code, err)
			}
			sent = true
			if first == 0 {
				first, firstIncoming = o.Code, false
				viaWMFirst = o.ViaWM
			}
			return ""
		}
		for _, o := range pre {
			if s := doOut(o); s != "" {
				return s
			}
		}
		wBefore := len(pipe.out)
		var rerr error
		got := 0
		for k := 0; k < nmsgBefore+2; k++ {
			_, _, e := conn.ReadMessage()
			if e != nil {
				rerr = e
				break
			}
			got++
		}
		if got != nmsgBefore || rerr == nil {
			return fmt.Sprintf("read %d messages (want %d) then %v", got, nmsgBefore, rerr)
		}
		// expected classification of the incoming close
		class := "none"
		wantCode := 0
		if hasIn {
			switch {
			case len(payload) == 0:
				class, wantCode = "accept", 1005
			case !utf8.ValidString(reason):
				class = "reject"
			default:
				switch vfWSRefCloseCodeClass(code) {
				case +1:
					class, wantCode = "accept", code
				case -1:
					class = "reject"
				default:
					class, wantCode = "either", code
				}
			}
		}
		c.Label("incoming:" + class)
		var ce *CloseError
		isCE := errors.As(rerr, &ce)
		written, _ := vfWSRefCheckWire(pipe.out[wBefore:], !server, false)
		var wroteClose *vfWSRefTerminal
		if written.Term.Kind == vfWSRefClose {
			wroteClose = &written.Term
		}
		accepted := isCE && ce.Code == wantCode && hasIn && class != "reject" && (ce.Text == reason || len(payload) == 0)
		switch class {
		case "none":
			if !isCE || ce.Code != CloseAbnormalClosure {
				return fmt.Sprintf("end of stream reported as %q", rerr)
			}
		case "accept":
			if !accepted {
				return fmt.Sprintf("valid close (code %d, %d byte body) not reported as CloseError{%d,%q}: %q", code, len(payload), wantCode, reason, rerr)
			}
		case "reject":
			if isCE && ce.Code != CloseAbnormalClosure {
				return fmt.Sprintf("close frame with forbidden code / invalid UTF-8 (code %d body %s) accepted: %q", code, bodyKind, rerr)
			}
			if !sent && (wroteClose == nil || (wroteClose.CloseCode != 1002 && wroteClose.CloseCode != 1007)) {
				return fmt.Sprintf("forbidden close (code %d body %s) rejected without a protocol-error close frame", code, bodyKind)
			}
		case "either":
			if !accepted && isCE && ce.Code != CloseAbnormalClosure {
				return fmt.Sprintf("undecidable close code %d reported as %q", code, rerr)
			}
		}
		if accepted {
			if !sent && wroteClose == nil {
				return "valid close received and none sent before, but no close frame written in response"
			}
			if first == 0 {
				first, firstIncoming = wantCode, true
			}
			sent = true
			c.Label("close-accepted")
		} else if hasIn {
			sent = true // a protocol-error close went out (checked above when none had been sent)
			c.Label("close-rejected")
		}
		for _, o := range post {
			if s := doOut(o); s != "" {
				return s
			}
		}
		gc, gi := conn.CloseCode()
		if len(pre)+len(post) > 0 && hasIn {
			c.Nontrivial(c.desc)
		} else if hasIn && class != "accept" {
			c.Nontrivial(c.desc)
		}
		if hasIn && !accepted && len(pre) == 0 {
			// rejected incoming close first: the recorded code is the library's own 1002 (or a later outgoing one);
			// the statement only speaks about close frames that were observed as such -> not asserted
			return ""
		}
		if first != 0 && (gc != first || gi != firstIncoming) {
			msg := fmt.Sprintf("CloseCode()=(%d,incoming=%v), the first close observed was (%d,incoming=%v)", gc, gi, first, firstIncoming)
			if viaWMFirst {
				if vfC29Known(c, "C31:close-via-writemessage-not-recorded", c.desc) {
					return ""
				}
				msg = "[C31:close-via-writemessage-not-recorded] " + msg
			}
			return msg
		}
		if first == 0 && gc != 0 {
			return fmt.Sprintf("CloseCode()=(%d,%v) although no close frame was observed", gc, gi)
		}
		return ""
	})
}
