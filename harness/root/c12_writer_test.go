package PKGNAME

// C12 (part b) — the per-connection writer (writer.go) delivers queued messages exactly.
//
// The real `writer` is driven inside a synctest bubble in one of its three modes (dedicated goroutine without delay,
// dedicated goroutine with write delay, timer-driven) with recording WriteFn/WriteManyFn that can be gated (block
// until the harness opens the gate: a slow transport) or made to fail.
//
// Oracle (from the property statement):
//   * the concatenation of the items handed to the write functions is a prefix of the accepted enqueue order
//     (no loss, duplication or reordering) up to and including the first failing write;
//   * every run-loop batch has at most maxMessagesInFrame items (the close flush is unbounded);
//   * at quiescence (gate open, enough virtual time, no close / failure / slow-consumer result) everything accepted
//     has been written;
//   * close(flush=true) => everything accepted before it has been written when it returns;
//   * enqueue reports DisconnectSlow exactly when the bytes still queued exceed MaxQueueSize (strict ">", the
//     documented "after this queue size exceeded"); the set of already removed items is bracketed by what had been
//     written before the call and what had been written at the next quiescence, so the check is exact whenever the
//     writer is parked (gated write, delay window) and one-sided while it is racing;
//   * enqueue after close reports DisconnectConnectionClosed and those items are never written;
//   * after a failed write the dedicated run loop writes nothing more.

import (
	"bytes"
	"errors"
	"fmt"
	"runtime"
	"runtime/debug"
	"strconv"
	"strings"
	"sync"
	"sync/atomic"
	"testing"
	"testing/synctest"
	"time"

	"github.com/centrifugal/centrifuge/internal/queue"
	"pgregory.net/rapid"
)

type vfC12WCfg struct {
	Mode     int // 0 goroutine, no delay; 1 goroutine with write delay; 2 timer-driven
	Delay    time.Duration
	MaxFrame int // -1 unlimited, 0 default (16), 1..5
	InitCap  int // 0 = default (2)
	Shrink   time.Duration
	MaxQ     int // 0 = unlimited
}

func (c vfC12WCfg) String() string {
	return fmt.Sprintf("mode=%d delay=%s maxFrame=%d initCap=%d shrink=%s maxQ=%d", c.Mode, c.Delay, c.MaxFrame, c.InitCap, c.Shrink, c.MaxQ)
}

func (c vfC12WCfg) effMax() int {
	if c.MaxFrame == 0 {
		return defaultMaxMessagesInFrame
	}
	return c.MaxFrame
}

type vfC12WStep struct {
	Op     string // enq sleep gate ungate fail close drain
	Sizes  []int
	D      time.Duration
	Flush  bool
	Settle bool
}

func (s vfC12WStep) String() string {
	t := ""
	if s.Settle {
		t = "."
	}
	switch s.Op {
	case "enq":
		return fmt.Sprintf("enq%v%s", s.Sizes, t)
	case "sleep":
		return fmt.Sprintf("sleep(%s)%s", s.D, t)
	case "close":
		return fmt.Sprintf("close(flush=%v)%s", s.Flush, t)
	}
	return s.Op + t
}

func vfC12WGenCfg(rt *rapid.T) vfC12WCfg {
	c := vfC12WCfg{Mode: rapid.IntRange(0, 2).Draw(rt, "mode")}
	if c.Mode > 0 {
		c.Delay = rapid.SampledFrom([]time.Duration{time.Millisecond, 10 * time.Millisecond, 30 * time.Millisecond}).Draw(rt, "delay")
	}
	c.MaxFrame = rapid.SampledFrom([]int{-1, 0, 1, 2, 3, 4, 5}).Draw(rt, "maxFrame")
	c.InitCap = rapid.SampledFrom([]int{0, 1, 2, 3, 4, 8}).Draw(rt, "initCap")
	c.Shrink = rapid.SampledFrom([]time.Duration{-1, 0, 5 * time.Millisecond, 30 * time.Millisecond}).Draw(rt, "shrink")
	c.MaxQ = rapid.SampledFrom([]int{0, 10, 30, 80, 1 << 20, 1 << 20}).Draw(rt, "maxQ")
	return c
}

func vfC12WGenSizes(rt *rapid.T) []int {
	k := rapid.SampledFrom([]int{1, 1, 1, 1, 2, 3, 4, 6, 9}).Draw(rt, "k")
	out := make([]int, k)
	for i := range out {
		out[i] = rapid.IntRange(0, 7).Draw(rt, "sz")
	}
	return out
}

func vfC12WGenSteps(rt *rapid.T, cfg vfC12WCfg) []vfC12WStep {
	n := rapid.IntRange(1, 30*vfScale()).Draw(rt, "nsteps")
	sleeps := []time.Duration{time.Millisecond, 5 * time.Millisecond, 30 * time.Millisecond, time.Second}
	if cfg.Delay > 0 {
		sleeps = append(sleeps, cfg.Delay, cfg.Delay, cfg.Delay-time.Millisecond/2, cfg.Delay/2, 2*cfg.Delay)
	}
	steps := make([]vfC12WStep, 0, n)
	gated := false // generator-side view of the gate, to keep gated windows populated with enqueues
	for i := 0; i < n; i++ {
		st := vfC12WStep{Settle: rapid.IntRange(0, 2).Draw(rt, "settle") > 0}
		r := rapid.IntRange(0, 99).Draw(rt, "op")
		switch {
		case r < 52:
			st.Op = "enq"
			st.Sizes = vfC12WGenSizes(rt)
		case r < 66:
			st.Op = "sleep"
			st.D = rapid.SampledFrom(sleeps).Draw(rt, "d")
		case r < 80:
			if gated {
				st.Op = "ungate"
			} else {
				st.Op = "gate"
			}
			gated = !gated
		case r < 90:
			if gated {
				st.Op = "enq"
				st.Sizes = vfC12WGenSizes(rt)
			} else {
				st.Op = "drain"
			}
		case r < 93:
			st.Op = "fail"
		case r < 97 && i < n*2/3:
			st.Op = "sleep"
			st.D = rapid.SampledFrom(sleeps).Draw(rt, "d")
		default:
			st.Op = "close"
			st.Flush = rapid.Bool().Draw(rt, "flush")
		}
		steps = append(steps, st)
	}
	// Dedicated phrase (often, and most often for the no-delay goroutine mode): a write blocked at the gate, a backlog
	// behind it, close() parked on writer.mu behind the blocked write, producers still enqueueing, then the release.
	phraseP := 4
	if cfg.Mode == 0 {
		phraseP = 2
	}
	if rapid.IntRange(0, phraseP-1).Draw(rt, "closePhrase") == 0 {
		if gated {
			steps = append(steps, vfC12WStep{Op: "ungate", Settle: true})
		}
		steps = append(steps, vfC12WStep{Op: "gate"}, vfC12WStep{Op: "enq", Sizes: vfC12WGenSizes(rt), Settle: true})
		if cfg.Delay > 0 {
			steps = append(steps, vfC12WStep{Op: "sleep", D: cfg.Delay, Settle: true})
		}
		for k := rapid.IntRange(1, 4).Draw(rt, "backlog"); k > 0; k-- {
			steps = append(steps, vfC12WStep{Op: "enq", Sizes: vfC12WGenSizes(rt)})
		}
		steps = append(steps, vfC12WStep{Op: "close", Flush: rapid.IntRange(0, 4).Draw(rt, "pflush") > 0})
		for k := rapid.IntRange(0, 3).Draw(rt, "during"); k > 0; k-- {
			steps = append(steps, vfC12WStep{Op: "enq", Sizes: vfC12WGenSizes(rt)})
		}
		steps = append(steps, vfC12WStep{Op: "ungate", Settle: true})
		for k := rapid.IntRange(0, 2).Draw(rt, "after"); k > 0; k-- {
			steps = append(steps, vfC12WStep{Op: "enq", Sizes: vfC12WGenSizes(rt), Settle: true})
		}
	}
	return steps
}

// vfC12Gid returns the id of the calling goroutine (used only to tell the close flush, which runs on the closer's
// goroutine, from run-loop / timer writes).
func vfC12Gid() uint64 {
	var buf [64]byte
	n := runtime.Stack(buf[:], false)
	f := strings.Fields(string(buf[:n]))
	if len(f) < 2 {
		return 0
	}
	id, _ := strconv.ParseUint(f[1], 10, 64)
	return id
}

type vfC12WCall struct {
	IDs       []int
	Bytes     int
	FromClose bool
	Failed    bool
	Bad       string // non-empty: an item that does not decode to an enqueued one
}

type vfC12WRec struct {
	mu       sync.Mutex
	calls    []vfC12WCall
	gate     chan struct{} // non-nil: writes block until it is closed
	failNext bool
	closers  map[uint64]bool // goroutines that call writer.close
	blocked  atomic.Int32
	gated    atomic.Int32 // calls that had to wait for the gate
	entered  atomic.Int64 // bytes handed to write functions so far
}

func vfC12WItem(id, size int) queue.Item {
	return queue.Item{Data: bytes.Repeat([]byte{byte(1 + id%250)}, size), Key: strconv.Itoa(id)}
}

func (r *vfC12WRec) write(items ...queue.Item) error {
	call := vfC12WCall{}
	for _, it := range items {
		id, err := strconv.Atoi(it.Key)
		if err != nil || !bytes.Equal(it.Data, vfC12WItem(id, len(it.Data)).Data) {
			call.Bad = fmt.Sprintf("key=%q data=%v", it.Key, it.Data)
		}
		call.IDs = append(call.IDs, id)
		call.Bytes += len(it.Data)
	}
	gid := vfC12Gid()
	r.mu.Lock()
	call.FromClose = r.closers[gid]
	call.Failed = r.failNext
	r.failNext = false
	r.calls = append(r.calls, call)
	gate := r.gate
	r.mu.Unlock()
	r.entered.Add(int64(call.Bytes))
	if gate != nil {
		r.gated.Add(1)
		r.blocked.Add(1)
		<-gate
		r.blocked.Add(-1)
	}
	if call.Failed {
		return errors.New("vf: write failed")
	}
	return nil
}

func (r *vfC12WRec) snapshot() []vfC12WCall {
	r.mu.Lock()
	defer r.mu.Unlock()
	return append([]vfC12WCall(nil), r.calls...)
}

const (
	vfC12WResNil = iota
	vfC12WResSlow
	vfC12WResClosed
	vfC12WResOther
)

func vfC12WRes(d *Disconnect) int {
	switch {
	case d == nil:
		return vfC12WResNil
	case d.Code == DisconnectSlow.Code:
		return vfC12WResSlow
	case d.Code == DisconnectConnectionClosed.Code:
		return vfC12WResClosed
	}
	return vfC12WResOther
}

type vfC12WEnq struct {
	step     int
	ids      []int
	accepted bool  // model: no close issued before
	accBytes int64 // bytes of everything accepted up to and including this op
	rBefore  int64 // bytes written before the call started
	rAfter   int64 // bytes written at the first quiescence after the call (-1: unresolved)
	res      int
	done     bool
}

type vfC12WStats struct {
	calls, multiBatches, fullBatches, gatedWrites, growths, slow, closedRes, closePending, failed, async, races, drains, exactSlow, parallelEnq, parkedClose int
}

func vfC12WRun(cfg vfC12WCfg, steps []vfC12WStep, stt *vfC12WStats) string {
	rec := &vfC12WRec{closers: map[uint64]bool{}}
	w := newWriter(writerConfig{
		MaxQueueSize: cfg.MaxQ,
		WriteFn:      func(item queue.Item) error { return rec.write(item) },
		WriteManyFn:  func(items ...queue.Item) error { return rec.write(items...) },
	}, cfg.InitCap)
	initCap := cfg.InitCap
	if initCap == 0 {
		initCap = 2
	}
	runDone := make(chan struct{})
	if cfg.Mode == 2 {
		w.run(cfg.Delay, cfg.MaxFrame, cfg.Shrink, true)
		close(runDone)
	} else {
		go func() {
			defer close(runDone)
			w.run(cfg.Delay, cfg.MaxFrame, cfg.Shrink, false)
		}()
	}

	// async worker: executes, strictly in submission order, the operations that could block on writer.mu (or on the
	// gate) while a gated write is in flight; the main goroutine must never block on those.
	jobs := make(chan func(), len(steps)+4)
	var submitted int
	var completed atomic.Int32
	workerDone := make(chan struct{})
	go func() {
		defer close(workerDone)
		rec.mu.Lock()
		rec.closers[vfC12Gid()] = true
		rec.mu.Unlock()
		for j := range jobs {
			j()
			completed.Add(1)
		}
	}()
	rec.mu.Lock()
	rec.closers[vfC12Gid()] = true
	rec.mu.Unlock()
	vfSettle()

	var (
		enqs        []*vfC12WEnq
		accepted    []int // ids in accepted enqueue order
		sizes       = map[int]int{}
		accBytes    int64
		nextID      int
		gateClosed  bool
		closeIssued bool
		closeParked bool // a close() sits on writer.mu behind a write that is blocked in the gate
		closeStep   = -1
		closeFlush  bool
		accAtClose  int
		sawSlow     bool
		lastCap     = w.messages.Cap()
	)
	outstanding := func() int { return submitted - int(completed.Load()) }
	canSettle := func() bool { return !gateClosed || outstanding() == 0 }

	// verify is called at quiescent points (and at the end): prefix/no-dup/batch-size/after-failure checks.
	verify := func(where string) string {
		calls := rec.snapshot()
		pos := 0
		failedAt := -1
		for ci, cl := range calls {
			if cl.Bad != "" {
				return fmt.Sprintf("%s: write call %d got an item that was never enqueued in that form: %s", where, ci, cl.Bad)
			}
			if failedAt >= 0 {
				if cfg.Mode != 2 && !cl.FromClose {
					return fmt.Sprintf("%s: write call %d (%v) issued by the run loop after write call %d failed", where, ci, cl.IDs, failedAt)
				}
				continue // nothing is promised about later deliveries once a write failed
			}
			if !cl.FromClose && cfg.effMax() > 0 && len(cl.IDs) > cfg.effMax() {
				return fmt.Sprintf("%s: write call %d carries %d messages, maxMessagesInFrame=%d", where, ci, len(cl.IDs), cfg.effMax())
			}
			for _, id := range cl.IDs {
				if pos >= len(accepted) || accepted[pos] != id {
					exp := "nothing (everything accepted was already written)"
					if pos < len(accepted) {
						exp = fmt.Sprintf("message %d", accepted[pos])
					}
					return fmt.Sprintf("%s: write call %d delivered message %d, expected %s; delivered so far %v, accepted order %v",
						where, ci, id, exp, vfC12WFlat(calls[:ci+1]), accepted)
				}
				pos++
			}
			if cl.Failed {
				failedAt = ci
			}
		}
		return ""
	}
	written := func() (int, bool) { // number of messages delivered, whether some write failed
		n := 0
		failed := false
		for _, cl := range rec.snapshot() {
			n += len(cl.IDs)
			failed = failed || cl.Failed
		}
		return n, failed
	}
	// resolve is called right after a settle: finishes slow-consumer checks of completed enqueues.
	resolve := func(where string) string {
		now := rec.entered.Load()
		for _, e := range enqs {
			if !e.done || e.rAfter >= 0 {
				continue
			}
			e.rAfter = now
			switch {
			case !e.accepted:
				if e.res != vfC12WResClosed {
					return fmt.Sprintf("step %d: enqueue%v after close returned %d, expected DisconnectConnectionClosed", e.step, e.ids, e.res)
				}
				stt.closedRes++
			case e.res == vfC12WResClosed || e.res == vfC12WResOther:
				return fmt.Sprintf("step %d: enqueue%v on an open writer returned disconnect kind %d", e.step, e.ids, e.res)
			default:
				lo, hi := e.accBytes-e.rAfter, e.accBytes-e.rBefore
				if e.res == vfC12WResSlow {
					stt.slow++
				}
				if lo == hi {
					stt.exactSlow++
				}
				if cfg.MaxQ <= 0 {
					if e.res == vfC12WResSlow {
						return fmt.Sprintf("step %d: enqueue%v reported slow consumer with MaxQueueSize=0 (unlimited)", e.step, e.ids)
					}
				} else if e.res == vfC12WResSlow && hi <= int64(cfg.MaxQ) {
					return fmt.Sprintf("step %d: enqueue%v reported slow consumer but at most %d bytes were queued (MaxQueueSize=%d)", e.step, e.ids, hi, cfg.MaxQ)
				} else if e.res == vfC12WResNil && lo > int64(cfg.MaxQ) {
					return fmt.Sprintf("step %d: enqueue%v accepted silently although at least %d bytes were queued (MaxQueueSize=%d)", e.step, e.ids, lo, cfg.MaxQ)
				}
			}
		}
		_ = where
		return ""
	}
	// doClose calls writer.close and records, at the instant the FIRST close returns, how much had been handed to
	// the write functions by then.
	closeRetCalls, closeRetMsgs := -1, 0
	doClose := func(flush, first bool) {
		_ = w.close(flush)
		if first {
			rec.mu.Lock()
			closeRetCalls = len(rec.calls)
			for _, cl := range rec.calls {
				closeRetMsgs += len(cl.IDs)
			}
			rec.mu.Unlock()
		}
	}
	// checkClose (at quiescence): obligations tied to the instant close() returned.
	checkClose := func(where string) string {
		rec.mu.Lock()
		retCalls, retMsgs := closeRetCalls, closeRetMsgs
		rec.mu.Unlock()
		if retCalls < 0 {
			return ""
		}
		calls := rec.snapshot()
		failed := false
		for _, cl := range calls {
			failed = failed || cl.Failed
		}
		if closeFlush && !failed && retMsgs < accAtClose {
			return fmt.Sprintf("%s: at the instant close(flush=true) (step %d) returned only %d of the %d messages accepted before the call had been handed to the transport; accepted %v, all writes %v",
				where, closeStep, retMsgs, accAtClose, accepted[:accAtClose], vfC12WFlat(calls))
		}
		if len(calls) > retCalls {
			return fmt.Sprintf("%s: write call %d (%v) was issued after close() (step %d) had returned", where, retCalls, calls[retCalls].IDs, closeStep)
		}
		return ""
	}
	settle := func(where string) string {
		vfSettle()
		if m := resolve(where); m != "" {
			return m
		}
		if m := checkClose(where); m != "" {
			return m
		}
		if !closeIssued {
			c := w.messages.Cap()
			if c < initCap {
				return fmt.Sprintf("%s: queue capacity %d below QueueInitialCap %d", where, c, initCap)
			}
			if c > lastCap {
				stt.growths++
			}
			lastCap = c
		}
		return verify(where)
	}
	doEnq := func(e *vfC12WEnq, items []queue.Item) {
		e.rBefore = rec.entered.Load()
		var d *Disconnect
		if len(items) == 1 {
			d = w.enqueue(items[0])
		} else {
			d = w.enqueueMany(items...)
		}
		e.res = vfC12WRes(d)
		e.done = true
	}
	// drainWait sleeps long enough for every queued message to be written (gate must be open).
	drainWait := func() {
		pend := len(accepted) + 2
		time.Sleep(time.Duration(pend)*cfg.Delay + time.Millisecond)
		vfSettle()
	}

	fail := func(m string) string {
		// teardown so that the bubble can end: open the gate, close the writer, stop the worker.
		rec.mu.Lock()
		g := rec.gate
		rec.gate = nil
		rec.mu.Unlock()
		if g != nil {
			close(g)
		}
		gateClosed = false
		vfSettle()
		_ = w.close(false)
		close(jobs)
		<-workerDone
		<-runDone
		vfSettle()
		return m
	}

	for i, st := range steps {
		where := fmt.Sprintf("step %d (%s)", i, st.String())
		// Routing decision from ONE snapshot: with the gate closed, either nothing asynchronous is outstanding (then
		// quiescence is reachable and tells whether a write is parked in the gate) or everything goes behind the worker.
		viaWorker := false
		if gateClosed {
			if outstanding() == 0 {
				if m := settle(where + " pre"); m != "" {
					return fail(m)
				}
			} else {
				viaWorker = true
			}
		}
		blocked := rec.blocked.Load() > 0
		switch st.Op {
		case "enq":
			// In the goroutine modes enqueue never touches writer.mu: while a close() is parked behind a gated write the
			// queue is still open, so a producer racing that close gets its messages accepted.
			parallel := cfg.Mode != 2 && closeParked
			e := &vfC12WEnq{step: i, rAfter: -1, accepted: !closeIssued || parallel}
			items := make([]queue.Item, len(st.Sizes))
			for k, s := range st.Sizes {
				items[k] = vfC12WItem(nextID, s)
				sizes[nextID] = s
				e.ids = append(e.ids, nextID)
				if e.accepted {
					accepted = append(accepted, nextID)
					accBytes += int64(s)
				}
				nextID++
			}
			e.accBytes = accBytes
			enqs = append(enqs, e)
			if parallel {
				stt.parallelEnq++
				doEnq(e, items)
			} else if viaWorker || (gateClosed && blocked && cfg.Mode == 2) {
				stt.async++
				submitted++
				jobs <- func() { doEnq(e, items) }
			} else {
				doEnq(e, items)
				if e.res == vfC12WResSlow {
					sawSlow = true
				}
			}
		case "sleep":
			if canSettle() {
				time.Sleep(st.D)
			}
		case "gate":
			if !gateClosed {
				rec.mu.Lock()
				rec.gate = make(chan struct{})
				rec.mu.Unlock()
				gateClosed = true
			}
		case "ungate":
			if gateClosed {
				if closeParked {
					// sync.Mutex hands the lock directly to a waiter that has been waiting for more than 1ms of REAL
					// time; virtual sleeps do not count, so burn a little real time before releasing the write.
					stt.parkedClose++
					for k := 0; k < 40000; k++ {
						runtime.Gosched()
					}
				}
				closeParked = false
				rec.mu.Lock()
				g := rec.gate
				rec.gate = nil
				rec.mu.Unlock()
				close(g)
				gateClosed = false
				if m := settle(where); m != "" {
					return fail(m)
				}
			}
		case "fail":
			rec.mu.Lock()
			rec.failNext = true
			rec.mu.Unlock()
		case "drain":
			if gateClosed || closeIssued || !canSettle() {
				break
			}
			drainWait()
			if m := settle(where); m != "" {
				return fail(m)
			}
			n, failed := written()
			for _, e := range enqs {
				sawSlow = sawSlow || e.res == vfC12WResSlow
			}
			if !failed && !sawSlow {
				stt.drains++
				if n != len(accepted) {
					return fail(fmt.Sprintf("%s: writer idle with the gate open but only %d of %d accepted messages were written: %v", where, n, len(accepted), vfC12WFlat(rec.snapshot())))
				}
			}
		case "close":
			first := !closeIssued
			if first {
				closeStep = i
				closeFlush = st.Flush
				accAtClose = len(accepted)
				n, _ := written()
				if n < len(accepted) {
					stt.closePending++
				}
			}
			closeIssued = true
			flush := st.Flush
			if viaWorker || gateClosed {
				if gateClosed && blocked && !viaWorker {
					closeParked = true // `blocked` is fresh (quiescence was reached at the top of this step)
				}
				stt.async++
				submitted++
				jobs <- func() { doClose(flush, first) }
			} else {
				doClose(flush, first)
			}
		}
		if !st.Settle && !gateClosed {
			stt.races++
		}
		if (st.Settle || gateClosed) && canSettle() {
			if m := settle(where); m != "" {
				return fail(m)
			}
		}
	}

	// ---- end of script: open the gate, reach quiescence, final obligations ------------------------------------------
	if gateClosed {
		if closeParked {
			stt.parkedClose++
			for k := 0; k < 40000; k++ {
				runtime.Gosched()
			}
		}
		closeParked = false
		rec.mu.Lock()
		g := rec.gate
		rec.gate = nil
		rec.mu.Unlock()
		close(g)
		gateClosed = false
	}
	if m := settle("end"); m != "" {
		return fail(m)
	}
	if outstanding() != 0 {
		return fail(fmt.Sprintf("end: %d asynchronous operations still blocked with the gate open", outstanding()))
	}
	for _, e := range enqs {
		sawSlow = sawSlow || e.res == vfC12WResSlow
	}
	if !closeIssued {
		drainWait()
		if m := settle("final drain"); m != "" {
			return fail(m)
		}
		n, failed := written()
		if !failed && !sawSlow && n != len(accepted) {
			return fail(fmt.Sprintf("final drain: writer idle with the gate open but only %d of %d accepted messages were written: %v", n, len(accepted), vfC12WFlat(rec.snapshot())))
		}
		closeStep = len(steps)
		closeFlush = true
		accAtClose = len(accepted)
		closeIssued = true
		doClose(true, true)
		if m := settle("final close"); m != "" {
			return fail(m)
		}
	}
	n, failed := written()
	if closeFlush && !failed && n < accAtClose {
		return fail(fmt.Sprintf("close(flush=true) at step %d returned but only %d of the %d messages accepted before it were written: %v; accepted %v",
			closeStep, n, accAtClose, vfC12WFlat(rec.snapshot()), accepted[:accAtClose]))
	}
	close(jobs)
	<-workerDone
	<-runDone
	time.Sleep(2 * time.Second) // any stray timer would fire here
	vfSettle()
	if m := verify("after teardown"); m != "" {
		return m
	}
	if m := checkClose("after teardown"); m != "" {
		return m
	}
	n2, _ := written()
	if n2 != n {
		return fmt.Sprintf("after teardown: %d more messages were written after close() had returned and everything was quiescent", n2-n)
	}
	calls := rec.snapshot()
	stt.calls = len(calls)
	stt.gatedWrites = int(rec.gated.Load())
	for _, cl := range calls {
		if len(cl.IDs) > 1 && !cl.FromClose {
			stt.multiBatches++
			if cfg.effMax() > 0 && len(cl.IDs) == cfg.effMax() {
				stt.fullBatches++
			}
		}
		if cl.Failed {
			stt.failed++
		}
	}
	return ""
}

func vfC12WFlat(calls []vfC12WCall) []int {
	var out []int
	for _, c := range calls {
		out = append(out, c.IDs...)
	}
	return out
}


// vfC12WBubble is vfBubble with the two GC cycles made optional: they are only needed when the code under test
// returned bubble-bound timers to the internal/timers sync.Pool, and forced GCs dominate the cost of a case.
func vfC12WBubble(t *testing.T, gc bool, f func() string) string {
	var out string
	synctest.Test(t, func(st *testing.T) {
		defer func() {
			if r := recover(); r != nil {
				out = fmt.Sprintf("PANIC: %v\n%s", r, debug.Stack())
			}
		}()
		out = f()
	})
	if gc {
		runtime.GC()
		runtime.GC()
	}
	return out
}

func TestVF_C12_Writer(t *testing.T) {
	// Two Ps: the harness goroutine and the writer's goroutine (run loop / timer callback / async worker) still run
	// in parallel, while bubble hand-offs stay cheap.
	defer runtime.GOMAXPROCS(runtime.GOMAXPROCS(2))
	vfCheck(t, "C12", func(rt *rapid.T, c *vfCase) string {
		cfg := vfC12WGenCfg(rt)
		steps := vfC12WGenSteps(rt, cfg)
		var sb strings.Builder
		sb.WriteString("writer " + cfg.String() + ":")
		for _, s := range steps {
			sb.WriteByte(' ')
			sb.WriteString(s.String())
		}
		c.Describe(sb.String())
		var stt vfC12WStats
		msg := vfC12WBubble(t, cfg.Mode == 1, func() string { return vfC12WRun(cfg, steps, &stt) }) // only the delay goroutine uses pooled timers

		c.Label("part=writer")
		c.Labelf("writer:mode=%d", cfg.Mode)
		if stt.multiBatches > 0 {
			c.Label("writer:multi_message_batch")
		}
		if stt.fullBatches > 0 {
			c.Label("writer:batch_at_frame_limit")
		}
		if stt.gatedWrites > 0 {
			c.Label("writer:write_blocked_in_gate")
		}
		if stt.growths > 0 {
			c.Label("writer:queue_grew")
		}
		if stt.slow > 0 {
			c.Label("writer:slow_consumer_reported")
		}
		if stt.exactSlow > 0 {
			c.Label("writer:slow_check_exact")
		}
		if stt.closePending > 0 {
			c.Label("writer:close_with_pending")
		}
		if stt.closedRes > 0 {
			c.Label("writer:enqueue_after_close")
		}
		if stt.failed > 0 {
			c.Label("writer:write_failed")
		}
		if stt.async > 0 {
			c.Label("writer:ops_behind_blocked_write")
		}
		if stt.parkedClose > 0 {
			c.Label("writer:close_parked_behind_blocked_write")
		}
		if stt.parallelEnq > 0 {
			c.Label("writer:enqueue_while_close_parked")
		}
		if stt.drains > 0 {
			c.Label("writer:mid_script_quiescence_check")
		}
		if stt.growths > 0 || stt.fullBatches > 0 || stt.multiBatches > 0 || stt.closePending > 0 {
			c.Nontrivial(sb.String())
		}
		return msg
	})
}

// ---- concurrent producers ------------------------------------------------------------------------------------------

type vfC12WCProd struct {
	Calls  [][]int
	Sleeps []time.Duration
}

// TestVF_C12_WriterConcurrent: 2-4 producer goroutines enqueue their own numbered messages (with virtual sleeps in
// between) while the writer runs in a drawn mode; optionally a closer goroutine closes the writer at a drawn instant.
// Oracle: per producer the delivered messages are a prefix of the messages that producer got accepted, nothing is
// delivered twice, run-loop batches respect maxMessagesInFrame; without close everything accepted is delivered at
// quiescence; close(flush=true) delivers everything accepted; DisconnectConnectionClosed only once close was called
// and always after it returned; DisconnectSlow only if the queued bytes could have exceeded MaxQueueSize.
func TestVF_C12_WriterConcurrent(t *testing.T) {
	vfCheck(t, "C12", func(rt *rapid.T, c *vfCase) string {
		cfg := vfC12WGenCfg(rt)
		np := rapid.IntRange(2, 4).Draw(rt, "producers")
		prods := make([]vfC12WCProd, np)
		sl := []time.Duration{0, 0, 0, time.Millisecond}
		if cfg.Delay > 0 {
			sl = append(sl, cfg.Delay, cfg.Delay/2, cfg.Delay)
		}
		total := 0
		for p := range prods {
			nc := rapid.IntRange(1, 10).Draw(rt, "ncalls")
			for j := 0; j < nc; j++ {
				sz := vfC12WGenSizes(rt)
				total += len(sz)
				prods[p].Calls = append(prods[p].Calls, sz)
				prods[p].Sleeps = append(prods[p].Sleeps, rapid.SampledFrom(sl).Draw(rt, "psleep"))
			}
		}
		closeMode := rapid.IntRange(0, 3).Draw(rt, "closeMode") // 0,1: none; 2: close(false); 3: close(true)
		closeAt := rapid.SampledFrom(sl).Draw(rt, "closeAt") * time.Duration(rapid.IntRange(0, 3).Draw(rt, "closeMul"))
		desc := fmt.Sprintf("writer-concurrent %s producers=%v closeMode=%d closeAt=%s", cfg.String(), prods, closeMode, closeAt)
		c.Describe(desc)
		c.Label("part=writer_concurrent")
		c.Labelf("writerc:mode=%d", cfg.Mode)

		multi := false
		msg := vfC12WBubble(t, cfg.Mode == 1, func() string {
			rec := &vfC12WRec{closers: map[uint64]bool{}}
			w := newWriter(writerConfig{
				MaxQueueSize: cfg.MaxQ,
				WriteFn:      func(item queue.Item) error { return rec.write(item) },
				WriteManyFn:  func(items ...queue.Item) error { return rec.write(items...) },
			}, cfg.InitCap)
			runDone := make(chan struct{})
			if cfg.Mode == 2 {
				w.run(cfg.Delay, cfg.MaxFrame, cfg.Shrink, true)
				close(runDone)
			} else {
				go func() {
					defer close(runDone)
					w.run(cfg.Delay, cfg.MaxFrame, cfg.Shrink, false)
				}()
			}
			var started atomic.Int64
			var closeStarted, closeDone atomic.Bool
			var anySlow atomic.Bool
			acceptedBy := make([][]int, np)
			errs := make([]string, np+1)
			var wg sync.WaitGroup
			for p := range prods {
				wg.Add(1)
				go func(p int) {
					defer wg.Done()
					seq := 0
					for ci, call := range prods[p].Calls {
						if d := prods[p].Sleeps[ci]; d > 0 {
							time.Sleep(d)
						}
						items := make([]queue.Item, len(call))
						ids := make([]int, len(call))
						own := 0
						for k, s := range call {
							ids[k] = p*100000 + seq
							items[k] = vfC12WItem(ids[k], s)
							own += s
							seq++
						}
						doneBefore := closeDone.Load()
						rBefore := rec.entered.Load()
						started.Add(int64(own))
						var d *Disconnect
						if len(items) == 1 {
							d = w.enqueue(items[0])
						} else {
							d = w.enqueueMany(items...)
						}
						hi := started.Load() - rBefore
						switch vfC12WRes(d) {
						case vfC12WResClosed:
							if !closeStarted.Load() && errs[p] == "" {
								errs[p] = fmt.Sprintf("producer %d: enqueue%v returned DisconnectConnectionClosed before close was called", p, ids)
							}
						case vfC12WResSlow:
							anySlow.Store(true)
							if (cfg.MaxQ <= 0 || hi <= int64(cfg.MaxQ)) && errs[p] == "" {
								errs[p] = fmt.Sprintf("producer %d: enqueue%v reported slow consumer but at most %d bytes could be queued (MaxQueueSize=%d)", p, ids, hi, cfg.MaxQ)
							}
							acceptedBy[p] = append(acceptedBy[p], ids...)
						case vfC12WResNil:
							acceptedBy[p] = append(acceptedBy[p], ids...)
						default:
							if errs[p] == "" {
								errs[p] = fmt.Sprintf("producer %d: enqueue%v returned an unexpected disconnect", p, ids)
							}
						}
						if doneBefore && vfC12WRes(d) != vfC12WResClosed && errs[p] == "" {
							errs[p] = fmt.Sprintf("producer %d: enqueue%v accepted after close() had returned", p, ids)
						}
					}
				}(p)
			}
			if closeMode >= 2 {
				wg.Add(1)
				go func() {
					defer wg.Done()
					rec.mu.Lock()
					rec.closers[vfC12Gid()] = true
					rec.mu.Unlock()
					time.Sleep(closeAt)
					closeStarted.Store(true)
					_ = w.close(closeMode == 3)
					closeDone.Store(true)
				}()
			}
			wg.Wait()
			vfSettle()
			closed := closeMode >= 2
			if !closed {
				time.Sleep(time.Duration(total+2)*cfg.Delay + time.Millisecond)
				vfSettle()
			}
			check := func(where string, wantAll bool) string {
				calls := rec.snapshot()
				pos := make([]int, np)
				for ci, cl := range calls {
					if cl.Bad != "" {
						return fmt.Sprintf("%s: write call %d got a corrupted item: %s", where, ci, cl.Bad)
					}
					if !cl.FromClose && cfg.effMax() > 0 && len(cl.IDs) > cfg.effMax() {
						return fmt.Sprintf("%s: write call %d carries %d messages, maxMessagesInFrame=%d", where, ci, len(cl.IDs), cfg.effMax())
					}
					if len(cl.IDs) > 1 && !cl.FromClose {
						multi = true
					}
					for _, id := range cl.IDs {
						p := id / 100000
						if p < 0 || p >= np {
							return fmt.Sprintf("%s: unknown message %d delivered", where, id)
						}
						if pos[p] >= len(acceptedBy[p]) || acceptedBy[p][pos[p]] != id {
							return fmt.Sprintf("%s: write call %d delivered message %d of producer %d out of that producer's order (position %d of accepted %v); delivered %v",
								where, ci, id, p, pos[p], acceptedBy[p], vfC12WFlat(calls))
						}
						pos[p]++
					}
				}
				if wantAll {
					for p := range pos {
						if pos[p] != len(acceptedBy[p]) {
							return fmt.Sprintf("%s: producer %d got %d messages accepted but only %d were delivered: %v", where, p, len(acceptedBy[p]), pos[p], vfC12WFlat(calls))
						}
					}
				}
				return ""
			}
			verdict := ""
			for _, e := range errs {
				if e != "" && verdict == "" {
					verdict = e
				}
			}
			if verdict == "" {
				switch {
				case !closed:
					verdict = check("quiescence", !anySlow.Load())
				case closeMode == 3:
					verdict = check("after close(flush=true)", true)
				default:
					verdict = check("after close(flush=false)", false)
				}
			}
			if !closed {
				rec.mu.Lock()
				rec.closers[vfC12Gid()] = true
				rec.mu.Unlock()
				_ = w.close(true)
				vfSettle()
				if verdict == "" {
					verdict = check("after final close(flush=true)", true)
				}
			}
			<-runDone
			return verdict
		})
		if multi {
			c.Label("writerc:multi_message_batch")
		}
		if closeMode >= 2 {
			c.Label("writerc:concurrent_close")
		}
		c.Nontrivial(desc)
		return msg
	})
}
