package PKGNAME

// C42 — Buffer pools never hand out undersized or dirty buffers (ByteBuffer and ByteSlicesBuf part).
//
// Generated op sequences (get / mutate a held buffer / put / GC) over both pools; a sequential test and a
// concurrent one (2-4 goroutines running drawn scripts in parallel on the shared package-level pools).
//
// Oracle on every Get(length):
//   * ByteBuffer:    len(B) == 0 and cap(B) >= length.
//   * ByteSlicesBuf: len(B) == 0 and cap(B) >= length, and every slot of B[:cap] is nil ("not dirty").
//     The slot check is conditional: PutByteSlicesBuf clears the slots below len(B) at put time, so it applies when
//     the buffer came back with nothing non-nil hidden beyond its length (every real caller: client.go appends and
//     never shortens). When the harness itself hid non-nil slots beyond len before the put (reslice shorter after
//     writing, three-index slicing, replacement slice with a dirty tail) stale slots beyond the new len 0 are what
//     was put in; the list is still empty, callers only append; this is counted (label) and not a violation.
//   * no buffer object is handed out while another holder still has it (pointer identity).
// Which Get was served from a previously put buffer is detected by pointer identity through weak pointers (the
// tracker never keeps a pooled buffer alive, so sync.Pool/GC behaviour is undisturbed).

import (
	"fmt"
	"math/bits"
	"runtime"
	"runtime/debug"
	"strings"
	"sync"
	"testing"
	"weak"

	"pgregory.net/rapid"
)

// vfC42StrictHidden: treat stale slots after a put that hid them beyond len as a violation (see above). Off:
// the statement only requires the obtained list to be empty with enough capacity.
const vfC42StrictHidden = false

const (
	vfC42MaxBB = 262144
	vfC42MaxBS = 4096
)

var vfC42Marker = []byte{0xAB}

type vfC42Meta struct {
	held      bool
	puts      int
	putCap    int
	putHidden bool // slices: a non-nil slot existed in [len,cap) when it was put
	prevReq   int
}

type vfC42Tracker[T any] struct {
	mu sync.Mutex
	m  map[weak.Pointer[T]]*vfC42Meta
}

func (tr *vfC42Tracker[T]) purgeLocked() {
	if len(tr.m) < 8192 {
		return
	}
	for k := range tr.m {
		if k.Value() == nil {
			delete(tr.m, k)
		}
	}
}

// onGet registers that p was obtained for req. It returns the state the buffer had in the pool.
func (tr *vfC42Tracker[T]) onGet(p *T, req int) (reused bool, before vfC42Meta, double bool) {
	tr.mu.Lock()
	defer tr.mu.Unlock()
	if tr.m == nil {
		tr.m = map[weak.Pointer[T]]*vfC42Meta{}
	}
	k := weak.Make(p)
	m := tr.m[k]
	if m == nil {
		tr.purgeLocked()
		m = &vfC42Meta{}
		tr.m[k] = m
	}
	before = *m
	reused = m.puts > 0
	double = m.held
	m.held = true
	m.prevReq = req
	return
}

// onPut must be called before the buffer is given back.
func (tr *vfC42Tracker[T]) onPut(p *T, capacity int, hidden bool) {
	tr.mu.Lock()
	defer tr.mu.Unlock()
	if tr.m == nil {
		tr.m = map[weak.Pointer[T]]*vfC42Meta{}
	}
	k := weak.Make(p)
	m := tr.m[k]
	if m == nil {
		m = &vfC42Meta{}
		tr.m[k] = m
	}
	m.held = false
	m.puts++
	m.putCap = capacity
	m.putHidden = hidden
}

var (
	vfC42BBTracker vfC42Tracker[ByteBuffer]
	vfC42BSTracker vfC42Tracker[ByteSlicesBuf]
)

func vfC42Class(n int) int {
	if n <= 1 {
		return 0
	}
	return bits.Len(uint(n - 1))
}

func vfC42FloorPow2(n int) int {
	if n <= 0 {
		return 0
	}
	return 1 << (bits.Len(uint(n)) - 1)
}

// ---- generated ops ----------------------------------------------------------------------------------------------

type vfC42Op struct {
	Kind    int // 0 get, 1 mutate, 2 put, 3 gc / yield, 4 put followed by a relative get, 5 capacity-changing mutation + put + relative get
	Pool    int // 0 ByteBuffer, 1 ByteSlicesBuf
	LenMode int // 0 absolute, 1 relative to the capacity of the last put of that pool
	Len     int // absolute length (mode 0)
	Rel     int // mode 1: 0..8 selects floorPow2(c)-1, floorPow2(c), floorPow2(c)+1, c-1, c, c+1, 2*floorPow2(c), 2*floorPow2(c)+1, floorPow2(c)/2
	Slot    int
	Mut     int
	A, B    int
}

// vfC42AbsLen draws an absolute length. rapid's integer generators favour small values, so the cheap common kinds
// sit at the low end of the selector and the kinds that force large allocations at the high end.
func vfC42AbsLen(rt *rapid.T, pool int) int {
	maxK := 19
	if pool == 1 {
		maxK = 13
	}
	r := rapid.IntRange(0, 64).Draw(rt, "lenkind") % 64
	switch {
	case r < 24:
		k := rapid.IntRange(0, 8).Draw(rt, "ksmall")
		return max((1<<k)+rapid.IntRange(-1, 1).Draw(rt, "pm"), 1)
	case r < 44:
		return rapid.IntRange(1, 70).Draw(rt, "small")
	case r < 52:
		if pool == 1 {
			return rapid.SampledFrom([]int{0, 0, -1, -7}).Draw(rt, "len0")
		}
		return 0
	case r < 59: // any class
		k := rapid.IntRange(0, maxK-1).Draw(rt, "k")
		return max((1<<k)+rapid.IntRange(-1, 1).Draw(rt, "pm"), 1)
	default: // around and beyond the pool maximum
		if pool == 1 {
			return rapid.SampledFrom([]int{vfC42MaxBS - 1, vfC42MaxBS, vfC42MaxBS + 1, 5000, 2 * vfC42MaxBS}).Draw(rt, "lenmax")
		}
		return rapid.SampledFrom([]int{vfC42MaxBB - 1, vfC42MaxBB, vfC42MaxBB + 1, 300000, 2 * vfC42MaxBB}).Draw(rt, "lenmax")
	}
}

func vfC42DrawOp(rt *rapid.T, concurrent bool) vfC42Op {
	var op vfC42Op
	// rapid's integer generators are biased towards small values and the upper bound, so the kind is taken from a
	// table indexed by r mod 16 (every residue is reachable from small r) instead of from contiguous ranges.
	r := rapid.IntRange(0, 255).Draw(rt, "kind")
	op.Kind = [16]int{4, 1, 0, 5, 2, 1, 5, 4, 0, 1, 2, 5, 0, 1, 2, 1}[r%16]
	if r == 137 {
		op.Kind = 3 // runtime.GC (sequential) / Gosched (concurrent): rare, a GC cycle costs as much as many cases
	}
	op.Pool = rapid.IntRange(0, 1).Draw(rt, "pool")
	op.Slot = rapid.IntRange(0, 7).Draw(rt, "slot")
	if op.Kind == 5 {
		op.Mut = rapid.SampledFrom([]int{0, 3, 5, 4, 0, 3}).Draw(rt, "capmut")
		op.A = rapid.IntRange(0, 1<<20).Draw(rt, "a")
		op.B = rapid.IntRange(0, 1<<20).Draw(rt, "b")
	}
	switch op.Kind {
	case 0, 4, 5:
		if op.Kind >= 4 || rapid.IntRange(0, 1).Draw(rt, "rel") == 0 {
			op.LenMode = 1
			// 0,1,3,4 can be served by the buffer just put (3,4 only if its capacity is a power of two); the rest must not be
			op.Rel = rapid.SampledFrom([]int{0, 0, 1, 1, 1, 2, 3, 4, 4, 5, 6, 7, 8}).Draw(rt, "relsel")
		} else {
			op.Len = vfC42AbsLen(rt, op.Pool)
		}
	case 1:
		op.Mut = rapid.SampledFrom([]int{0, 0, 0, 1, 1, 2, 2, 3, 3, 4, 5, 5, 6, 6, 7}).Draw(rt, "mut")
		op.A = rapid.IntRange(0, 1<<20).Draw(rt, "a")
		op.B = rapid.IntRange(0, 1<<20).Draw(rt, "b")
	}
	return op
}

var vfC42MutNames = []string{"append", "reslice", "fillcap", "replace", "cutfront", "slice3", "reset", "nil"}

func (op vfC42Op) String() string {
	pool := []string{"bytes", "slices"}[op.Pool]
	switch op.Kind {
	case 0:
		if op.LenMode == 1 {
			return fmt.Sprintf("get %s rel%d", pool, op.Rel)
		}
		return fmt.Sprintf("get %s %d", pool, op.Len)
	case 1:
		return fmt.Sprintf("mut %s#%d %s(%d,%d)", pool, op.Slot, vfC42MutNames[op.Mut], op.A, op.B)
	case 2:
		return fmt.Sprintf("put %s#%d", pool, op.Slot)
	case 4:
		return fmt.Sprintf("put %s#%d+get rel%d", pool, op.Slot, op.Rel)
	case 5:
		return fmt.Sprintf("mut %s#%d %s(%d,%d)+put+get rel%d", pool, op.Slot, vfC42MutNames[op.Mut], op.A, op.B, op.Rel)
	default:
		return "gc"
	}
}

func vfC42Render(ops []vfC42Op) string {
	parts := make([]string, len(ops))
	for i, op := range ops {
		parts[i] = op.String()
	}
	return strings.Join(parts, "; ")
}

// ---- executor ---------------------------------------------------------------------------------------------------

type vfC42Stats struct {
	gets, reused, crossClass, nonPow2Reuse, hiddenPuts, staleAfterHidden, grows, oversizedPuts, zeroCapPuts, gcs int
	trace                                                                                                            []vfC42Note
}

type vfC42Note struct {
	format string
	a      [5]int
	n      int
	flag   bool
}

func (st *vfC42Stats) traceString() string {
	parts := make([]string, len(st.trace))
	for i, n := range st.trace {
		args := make([]any, 0, 6)
		for j := 0; j < n.n; j++ {
			args = append(args, n.a[j])
		}
		parts[i] = fmt.Sprintf(n.format, args...) + fmt.Sprintf(" %v", n.flag)
	}
	return strings.Join(parts, "; ")
}

type vfC42Actor struct {
	bb         []*ByteBuffer
	bs         []*ByteSlicesBuf
	lastPutCap [2]int
	st         vfC42Stats
	concurrent bool
}

func (a *vfC42Actor) resolveLen(op vfC42Op) int {
	if op.LenMode == 0 {
		return op.Len
	}
	c := a.lastPutCap[op.Pool]
	if c == 0 {
		c = 16
	}
	f := vfC42FloorPow2(c)
	var n int
	switch op.Rel {
	case 0:
		n = f - 1
	case 1:
		n = f
	case 2:
		n = f + 1
	case 3:
		n = c - 1
	case 4:
		n = c
	case 5:
		n = c + 1
	case 6:
		n = 2 * f
	case 7:
		n = 2*f + 1
	default:
		n = f / 2
	}
	if n < 1 {
		n = 1
	}
	if op.Pool == 0 && n > 2*vfC42MaxBB {
		n = 2 * vfC42MaxBB
	}
	if op.Pool == 1 && n > 2*vfC42MaxBS {
		n = 2 * vfC42MaxBS
	}
	return n
}

func vfC42Amount(sel, rem, capacity int) int {
	if capacity > 16384 && sel%7 >= 3 {
		return rem + 1 // growing a large buffer once is enough (large allocations dominate the run time)
	}
	switch sel % 7 {
	case 0:
		return 1
	case 1:
		return rem
	case 2:
		return rem + 1
	case 3:
		return 2*capacity + 3
	case 4:
		return 20
	case 5:
		return capacity + 1
	default:
		return sel % 300
	}
}

var vfC42BBCaps = []int{0, 1, 2, 3, 5, 6, 7, 8, 12, 24, 33, 100, 255, 1000, 1025}
var vfC42BBCapsBig = []int{4095, 4097, 65537, vfC42MaxBB - 1, vfC42MaxBB, vfC42MaxBB + 1, 300000}
var vfC42BSCaps = []int{0, 1, 2, 3, 5, 6, 7, 8, 12, 17, 33, 100, 255}
var vfC42BSCapsBig = []int{1000, 1025, vfC42MaxBS - 1, vfC42MaxBS, vfC42MaxBS + 1, 5000}

// vfC42PickCap: replacement capacity; the big table (large allocations) is used for 1/12 of the draws.
func vfC42PickCap(sel int, small, big []int) int {
	if sel%12 == 11 {
		return big[(sel/12)%len(big)]
	}
	return small[(sel/12)%len(small)]
}

func (a *vfC42Actor) step(i int, op vfC42Op) string {
	switch op.Kind {
	case 3:
		if a.concurrent {
			runtime.Gosched()
		} else {
			runtime.GC()
			a.st.gcs++
		}
		return ""
	case 0:
		n := a.resolveLen(op)
		if op.Pool == 0 {
			return a.getBB(i, n)
		}
		return a.getBS(i, n)
	case 1:
		if op.Pool == 0 {
			a.mutBB(op)
		} else {
			a.mutBS(op)
		}
		return ""
	default:
		if op.Pool == 0 {
			if op.Kind == 5 {
				a.mutBB(op)
			}
			if !a.putBB(op.Slot) || op.Kind < 4 {
				return ""
			}
			return a.getBB(i, a.resolveLen(op))
		}
		if op.Kind == 5 {
			a.mutBS(op)
		}
		if !a.putBS(op.Slot) || op.Kind < 4 {
			return ""
		}
		return a.getBS(i, a.resolveLen(op))
	}
}

// note records a trace entry without formatting it (rendered only when a violation is reported).
func (a *vfC42Actor) note(flag bool, format string, args ...int) {
	if len(a.st.trace) < 100 {
		n := vfC42Note{format: format, n: len(args), flag: flag}
		copy(n.a[:], args)
		a.st.trace = append(a.st.trace, n)
	}
}

func (a *vfC42Actor) account(reused bool, before vfC42Meta, n, capacity int) {
	a.st.gets++
	if !reused {
		return
	}
	a.st.reused++
	if vfC42Class(before.prevReq) != vfC42Class(n) {
		a.st.crossClass++
	}
	if capacity&(capacity-1) != 0 {
		a.st.nonPow2Reuse++
	}
}

func (a *vfC42Actor) getBB(i, n int) string {
	bb := GetByteBuffer(n)
	if bb == nil {
		return fmt.Sprintf("step %d: GetByteBuffer(%d) returned nil", i, n)
	}
	reused, before, double := vfC42BBTracker.onGet(bb, n)
	a.bb = append(a.bb, bb)
	a.account(reused, before, n, cap(bb.B))
	a.note(reused, "get bytes %d -> len %d cap %d reused", n, len(bb.B), cap(bb.B))
	origin := "fresh"
	if reused {
		origin = fmt.Sprintf("previously put with cap %d after being obtained for %d", before.putCap, before.prevReq)
	}
	if double {
		return fmt.Sprintf("step %d: GetByteBuffer(%d) handed out a buffer that another holder has not returned", i, n)
	}
	if len(bb.B) != 0 {
		return fmt.Sprintf("step %d: GetByteBuffer(%d) returned a non-empty buffer: len %d (cap %d; %s)", i, n, len(bb.B), cap(bb.B), origin)
	}
	if cap(bb.B) < n {
		return fmt.Sprintf("step %d: GetByteBuffer(%d) returned capacity %d (%s)", i, n, cap(bb.B), origin)
	}
	return ""
}

func (a *vfC42Actor) getBS(i, n int) string {
	bs := GetByteSlicesBuf(n)
	if bs == nil {
		return fmt.Sprintf("step %d: GetByteSlicesBuf(%d) returned nil", i, n)
	}
	reused, before, double := vfC42BSTracker.onGet(bs, n)
	a.bs = append(a.bs, bs)
	a.account(reused, before, n, cap(bs.B))
	a.note(reused, "get slices %d -> len %d cap %d reused", n, len(bs.B), cap(bs.B))
	origin := "fresh"
	if reused {
		origin = fmt.Sprintf("previously put with cap %d after being obtained for %d", before.putCap, before.prevReq)
	}
	if double {
		return fmt.Sprintf("step %d: GetByteSlicesBuf(%d) handed out a buffer that another holder has not returned", i, n)
	}
	if len(bs.B) != 0 {
		return fmt.Sprintf("step %d: GetByteSlicesBuf(%d) returned a non-empty list: len %d (cap %d; %s)", i, n, len(bs.B), cap(bs.B), origin)
	}
	if cap(bs.B) < n {
		return fmt.Sprintf("step %d: GetByteSlicesBuf(%d) returned capacity %d (%s)", i, n, cap(bs.B), origin)
	}
	full := bs.B[:cap(bs.B)]
	for j := range full {
		if full[j] != nil {
			if reused && before.putHidden {
				a.st.staleAfterHidden++
				if vfC42StrictHidden {
					return fmt.Sprintf("step %d: GetByteSlicesBuf(%d): slot %d of %d is not nil (%s, with non-nil slots beyond its len)", i, n, j, len(full), origin)
				}
				break
			}
			return fmt.Sprintf("step %d: GetByteSlicesBuf(%d) returned a dirty buffer: slot %d of %d is not nil although every slot beyond len was nil when it was put (%s)", i, n, j, len(full), origin)
		}
	}
	return ""
}

func (a *vfC42Actor) mutBB(op vfC42Op) {
	if len(a.bb) == 0 {
		return
	}
	bb := a.bb[op.Slot%len(a.bb)]
	l, c := len(bb.B), cap(bb.B)
	switch op.Mut {
	case 0:
		n := vfC42Amount(op.A, c-l, c)
		if n > 600000 {
			n = 600000
		}
		p := make([]byte, n)
		for j := range p {
			p[j] = 0xA5
		}
		_, _ = bb.Write(p)
		if cap(bb.B) != c {
			a.st.grows++
		}
	case 1:
		bb.B = bb.B[:op.A%(c+1)]
	case 2:
		bb.B = bb.B[:c]
		for j := range bb.B {
			bb.B[j] = 0xEE
		}
	case 3:
		nc := vfC42PickCap(op.A, vfC42BBCaps, vfC42BBCapsBig)
		nb := make([]byte, op.B%(nc+1), nc)
		for j := range nb {
			nb[j] = 0x77
		}
		bb.B = nb
	case 4:
		bb.B = bb.B[op.A%(l+1):]
	case 5:
		nc := op.A % (c + 1)
		bb.B = bb.B[:op.B%(nc+1) : nc]
	case 6:
		bb.Reset()
	default:
		bb.B = nil
	}
	a.note(false, "mut bytes#%d "+vfC42MutNames[op.Mut]+" -> len %d cap %d grew", op.Slot%len(a.bb), len(bb.B), cap(bb.B))
}

func (a *vfC42Actor) mutBS(op vfC42Op) {
	if len(a.bs) == 0 {
		return
	}
	bs := a.bs[op.Slot%len(a.bs)]
	l, c := len(bs.B), cap(bs.B)
	switch op.Mut {
	case 0:
		n := vfC42Amount(op.A, c-l, c)
		if n > 10000 {
			n = 10000
		}
		for j := 0; j < n; j++ {
			bs.B = append(bs.B, vfC42Marker)
		}
		if cap(bs.B) != c {
			a.st.grows++
		}
	case 1:
		bs.B = bs.B[:op.A%(c+1)]
	case 2:
		bs.B = bs.B[:c]
		for j := range bs.B {
			bs.B[j] = vfC42Marker
		}
	case 3:
		nc := vfC42PickCap(op.A, vfC42BSCaps, vfC42BSCapsBig)
		nb := make([][]byte, nc)
		fillTo := op.B % (nc + 1)
		if op.B&1 != 0 {
			fillTo = nc // dirty tail beyond len
		}
		for j := 0; j < fillTo; j++ {
			nb[j] = vfC42Marker
		}
		bs.B = nb[:op.B%(nc+1)]
	case 4:
		bs.B = bs.B[op.A%(l+1):]
	case 5:
		nc := op.A % (c + 1)
		bs.B = bs.B[:op.B%(nc+1) : nc]
	case 6:
		bs.B = bs.B[:0]
	default:
		bs.B = nil
	}
	a.note(false, "mut slices#%d "+vfC42MutNames[op.Mut]+" -> len %d cap %d grew", op.Slot%len(a.bs), len(bs.B), cap(bs.B))
}

func (a *vfC42Actor) putBB(slot int) bool {
	if len(a.bb) == 0 {
		return false
	}
	k := slot % len(a.bb)
	bb := a.bb[k]
	a.bb = append(a.bb[:k], a.bb[k+1:]...)
	c := cap(bb.B)
	if c == 0 {
		a.st.zeroCapPuts++
	}
	if c > vfC42MaxBB {
		a.st.oversizedPuts++
	}
	a.lastPutCap[0] = c
	a.note(false, "put bytes#%d len %d cap %d hiddenDirty", k, len(bb.B), c)
	vfC42BBTracker.onPut(bb, c, false)
	PutByteBuffer(bb)
	return true
}

func (a *vfC42Actor) putBS(slot int) bool {
	if len(a.bs) == 0 {
		return false
	}
	k := slot % len(a.bs)
	bs := a.bs[k]
	a.bs = append(a.bs[:k], a.bs[k+1:]...)
	c := cap(bs.B)
	if c == 0 {
		a.st.zeroCapPuts++
	}
	if c > vfC42MaxBS {
		a.st.oversizedPuts++
	}
	hidden := false
	tail := bs.B[len(bs.B):c]
	for j := range tail {
		if tail[j] != nil {
			hidden = true
			break
		}
	}
	if hidden {
		a.st.hiddenPuts++
	}
	a.lastPutCap[1] = c
	a.note(hidden, "put slices#%d len %d cap %d hiddenDirty", k, len(bs.B), c)
	vfC42BSTracker.onPut(bs, c, hidden)
	PutByteSlicesBuf(bs)
	return true
}

// vfC42Drain empties the package-level pools (best effort: items parked in another P's private slot stay) so
// that a case does not depend on its predecessors more than necessary.
func vfC42Drain() {
	for i := range pools {
		for pools[i].Get() != nil {
		}
	}
	for i := range byteSlicesBufPools {
		for byteSlicesBufPools[i].Get() != nil {
		}
	}
}

func vfC42Labels(c *vfCase, st vfC42Stats) {
	if st.reused > 0 {
		c.Label("get_served_from_pool")
	}
	if st.crossClass > 0 {
		c.Label("get_served_after_put_of_other_length_class")
	}
	if st.nonPow2Reuse > 0 {
		c.Label("served_buffer_with_non_power_of_two_cap")
	}
	if st.hiddenPuts > 0 {
		c.Label("put_with_nonnil_slots_hidden_beyond_len")
	}
	if st.staleAfterHidden > 0 {
		c.Label("stale_slots_seen_after_hidden_put(allowed)")
	}
	if st.grows > 0 {
		c.Label("grown_beyond_class_while_held")
	}
	if st.oversizedPuts > 0 {
		c.Label("put_over_max")
	}
	if st.zeroCapPuts > 0 {
		c.Label("put_zero_cap")
	}
	if st.gcs > 0 {
		c.Label("gc_between_ops")
	}
	c.Extra("gets", st.gets)
	c.Extra("gets_served_from_pool", st.reused)
	c.Extra("gets_served_after_put_of_other_length_class", st.crossClass)
}

func TestVF_C42_Pools(t *testing.T) {
	// one P: sync.Pool then serves a put buffer to the next matching get deterministically (reproducible cases, high
	// reuse rate) and forced GC cycles do not pay for waking 16 Ps
	defer runtime.GOMAXPROCS(runtime.GOMAXPROCS(1))
	// The cases allocate large short-lived buffers; with the default pacing the heap stays tiny, every large buffer
	// triggers a GC cycle and the scavenger returns its pages to the OS, so that page faults dominate the run time.
	// Collect only when the heap reaches a fixed limit instead; explicit runtime.GC() ops (drawn) still exercise the
	// pools across collections.
	defer debug.SetGCPercent(debug.SetGCPercent(-1))
	defer debug.SetMemoryLimit(debug.SetMemoryLimit(128 << 20))
	opGen := rapid.Custom(func(rt *rapid.T) vfC42Op { return vfC42DrawOp(rt, false) })
	vfCheck(t, "C42", func(rt *rapid.T, c *vfCase) string {
		ops := rapid.SliceOfN(opGen, 10, 40).Draw(rt, "ops")
		putRest := rapid.Bool().Draw(rt, "putRest")
		c.Describe(vfC42Render(ops))
		vfC42Drain()
		a := &vfC42Actor{}
		verdict := ""
		for i, op := range ops {
			if verdict = a.step(i, op); verdict != "" {
				break
			}
		}
		if putRest {
			for len(a.bb) > 0 {
				a.putBB(0)
			}
			for len(a.bs) > 0 {
				a.putBS(0)
			}
		}
		if a.st.crossClass > 0 {
			c.Nontrivial(c.desc)
		}
		vfC42Labels(c, a.st)
		if verdict != "" {
			verdict += "\ntrace: " + a.st.traceString()
		}
		return verdict
	})
}

func TestVF_C42_PoolsConcurrent(t *testing.T) {
	defer runtime.GOMAXPROCS(runtime.GOMAXPROCS(4))
	// The cases allocate large short-lived buffers; with the default pacing the heap stays tiny, every large buffer
	// triggers a GC cycle and the scavenger returns its pages to the OS, so that page faults dominate the run time.
	// Collect only when the heap reaches a fixed limit instead; explicit runtime.GC() ops (drawn) still exercise the
	// pools across collections.
	defer debug.SetGCPercent(debug.SetGCPercent(-1))
	defer debug.SetMemoryLimit(debug.SetMemoryLimit(128 << 20))
	opGen := rapid.Custom(func(rt *rapid.T) vfC42Op { return vfC42DrawOp(rt, true) })
	vfCheck(t, "C42", func(rt *rapid.T, c *vfCase) string {
		g := rapid.IntRange(2, 4).Draw(rt, "goroutines")
		scripts := make([][]vfC42Op, g)
		var sb strings.Builder
		for i := range scripts {
			scripts[i] = rapid.SliceOfN(opGen, 6, 24).Draw(rt, fmt.Sprintf("ops%d", i))
			fmt.Fprintf(&sb, "[g%d: %s] ", i, vfC42Render(scripts[i]))
		}
		c.Describe("concurrent " + sb.String())
		vfC42Drain()
		actors := make([]*vfC42Actor, g)
		verdicts := make([]string, g)
		var wg sync.WaitGroup
		start := make(chan struct{})
		for gi := 0; gi < g; gi++ {
			actors[gi] = &vfC42Actor{concurrent: true}
			wg.Add(1)
			go func(gi int) {
				defer wg.Done()
				a := actors[gi]
				<-start
				for i, op := range scripts[gi] {
					if v := a.step(i, op); v != "" {
						verdicts[gi] = fmt.Sprintf("goroutine %d: %s\ntrace: %s", gi, v, a.st.traceString())
						break
					}
				}
				for len(a.bb) > 0 {
					a.putBB(0)
				}
				for len(a.bs) > 0 {
					a.putBS(0)
				}
			}(gi)
		}
		close(start)
		wg.Wait()
		var total vfC42Stats
		for _, a := range actors {
			total.gets += a.st.gets
			total.reused += a.st.reused
			total.crossClass += a.st.crossClass
			total.nonPow2Reuse += a.st.nonPow2Reuse
			total.hiddenPuts += a.st.hiddenPuts
			total.staleAfterHidden += a.st.staleAfterHidden
			total.grows += a.st.grows
			total.oversizedPuts += a.st.oversizedPuts
			total.zeroCapPuts += a.st.zeroCapPuts
		}
		c.Label("concurrent")
		if total.crossClass > 0 {
			c.Nontrivial(c.desc)
		}
		vfC42Labels(c, total)
		for _, v := range verdicts {
			if v != "" {
				return v
			}
		}
		return ""
	})
}
