package PKGNAME

// C03 — Cache recovery delivers the newest visible publication.

import (
	"fmt"
	"strings"
	"testing"
	"time"

	"github.com/centrifugal/protocol"
	"pgregory.net/rapid"
)

type vfC03Case struct {
	TTL, MetaTTL int
	Limit        int
	Ops          []vfC02Op
	Mode         int // 0 client recover, 1 client subscribe without recover + AutoCacheRecover, 2 connect-time bidi + AutoCacheRecover, 3 connect-time uni + AutoCacheRecover, 4 connect-time bidi + client recover position
	Proto        ProtocolType
	OffPick      int
	EpochKind    int
	ServerTF     *vfTF
	ClientTF     *vfTF
	Handler      int // 0 none, 1 returns not populated, 2 publishes then Populated, 3 error, 4 Populated without publishing
	HandlerTags  map[string]string
	LateDup      int                 // >0: while the subscribe is parked after its read, PUB/SUB re-delivers the LateDup-th newest retained publication (a late / duplicated delivery)
	Window       []map[string]string // tags of publications issued while the subscribe is parked right after its first history read (no handler)
}

func (c vfC03Case) String() string {
	ops := make([]string, len(c.Ops))
	for i, o := range c.Ops {
		ops[i] = o.String()
	}
	win := make([]string, len(c.Window))
	for i, t := range c.Window {
		win[i] = vfTagsStr(t)
	}
	return fmt.Sprintf("ttl=%ds meta=%ds limit=%d ops=[%s] sub{mode=%d proto=%s offPick=%d epochKind=%d serverTF=%s clientTF=%s cacheEmptyHandler=%d handlerTags=%s} lateDup=%d windowPubs=[%s]",
		c.TTL, c.MetaTTL, c.Limit, strings.Join(ops, " "), c.Mode, c.Proto, c.OffPick, c.EpochKind, c.ServerTF, c.ClientTF, c.Handler, vfTagsStr(c.HandlerTags), c.LateDup, strings.Join(win, " "))
}

func vfC03Gen(rt *rapid.T) vfC03Case {
	c := vfC03Case{}
	c.Limit = rapid.SampledFrom([]int{0, 0, 0, 1, 2, 4}).Draw(rt, "limit")
	c.TTL = rapid.SampledFrom([]int{2, 4, 8, 60}).Draw(rt, "ttl")
	c.MetaTTL = rapid.SampledFrom([]int{0, 0, 3, 6, 12}).Draw(rt, "meta")
	n := rapid.IntRange(0, 9).Draw(rt, "nops")
	for i := 0; i < n; i++ {
		k := rapid.SampledFrom([]int{0, 0, 0, 0, 1, 1, 2}).Draw(rt, "kind")
		op := vfC02Op{Kind: k}
		switch k {
		case 0:
			op.Size = rapid.IntRange(1, 5).Draw(rt, "size")
			op.TTL = c.TTL
			op.MetaTTL = c.MetaTTL
			op.Tags = vfTagsGen(rt, "tags")
		case 1:
			op.Adv = rapid.SampledFrom([]int{1, 1, 2, 3, 5, 9, 14}).Draw(rt, "adv")
		}
		c.Ops = append(c.Ops, op)
	}
	c.Mode = rapid.SampledFrom([]int{0, 0, 0, 1, 2, 3, 4}).Draw(rt, "mode")
	c.Proto = rapid.SampledFrom([]ProtocolType{ProtocolTypeJSON, ProtocolTypeProtobuf}).Draw(rt, "proto")
	c.OffPick = rapid.IntRange(0, 9).Draw(rt, "offPick")
	c.EpochKind = rapid.SampledFrom([]int{0, 0, 0, 0, 1, 2, 3, 3}).Draw(rt, "epochKind")
	c.ServerTF = vfTFGenOpt(rt, "stf")
	c.ClientTF = vfTFGenOpt(rt, "ctf")
	c.Handler = rapid.SampledFrom([]int{0, 0, 1, 2, 2, 3, 4}).Draw(rt, "handler")
	c.HandlerTags = vfTagsGen(rt, "htags")
	if c.Handler == 0 && rapid.IntRange(0, 1).Draw(rt, "window") == 0 {
		for i, n := 0, rapid.IntRange(0, 3).Draw(rt, "windowPubs"); i < n; i++ {
			c.Window = append(c.Window, vfTagsGen(rt, "wtags"))
		}
		c.LateDup = rapid.SampledFrom([]int{0, 1, 1, 2, 3}).Draw(rt, "lateDup")
	}
	return c
}

type vfC03Out struct {
	labels     []string
	nontrivial bool
	known      []string // finding keys observed (checked outside the bubble against known_findings.json)
	knownEx    string
}

func vfC03Run(t *testing.T, cs vfC03Case, out *vfC03Out, isKnown func(string) bool) string {
	return vfBubble(t, func() string {
		ch := "ch"
		handlerCalls := 0
		var w *vfWorld
		var m *vfC02Model
		handlerPublished := false
		w, err := vfNewWorld(Config{RecoveryMaxPublicationLimit: cs.Limit}, func(w *vfWorld) {
			if cs.Handler == 0 {
				return
			}
			w.node.OnCacheEmpty(func(e CacheEmptyEvent) (CacheEmptyReply, error) {
				handlerCalls++
				switch cs.Handler {
				case 1:
					return CacheEmptyReply{}, nil
				case 2:
					data := `{"populated":1}`
					res, err := w.node.Publish(ch, []byte(data), WithHistory(3, time.Duration(cs.TTL)*time.Second, time.Duration(cs.MetaTTL)*time.Second), WithTags(cs.HandlerTags))
					if err != nil {
						return CacheEmptyReply{}, err
					}
					mt := int64(cs.MetaTTL)
					if mt == 0 {
						mt = vfC02DefaultMeta
					}
					m.touch(time.Now().Unix(), mt)
					m.top++
					if res.Offset != m.top {
						panic(fmt.Sprintf("populate publish offset %d, model %d", res.Offset, m.top))
					}
					m.retained = append(m.retained, vfC02ModelPub{Off: m.top, Tags: cs.HandlerTags, Data: data})
					for len(m.retained) > 3 {
						m.retained = m.retained[1:]
					}
					handlerPublished = true
					return CacheEmptyReply{Populated: true}, nil
				case 3:
					return CacheEmptyReply{}, fmt.Errorf("vf: cache empty handler failure")
				default:
					return CacheEmptyReply{Populated: true}, nil
				}
			})
		})
		if err != nil {
			return "infra: " + err.Error()
		}
		defer w.Close()
		auto := cs.Mode == 1 || cs.Mode == 2 || cs.Mode == 3
		subOpts := SubscribeOptions{EnableRecovery: true, RecoveryMode: RecoveryModeCache, AutoCacheRecover: auto,
			AllowTagsFilter: true, ServerTagsFilter: cs.ServerTF.Proto(), HistoryMetaTTL: time.Duration(cs.MetaTTL) * time.Second}
		w.ChanOpts = func(c *vfConn, e SubscribeEvent) (SubscribeReply, error) {
			return SubscribeReply{Options: subOpts}, nil
		}
		w.Connecting = func(c *vfConn, e ConnectEvent) (ConnectReply, error) {
			r := ConnectReply{Credentials: &Credentials{UserID: c.User}}
			if cs.Mode >= 2 {
				r.Subscriptions = map[string]SubscribeOptions{ch: subOpts}
			}
			return r, nil
		}
		h := vfHistBuild(w, ch, cs.Ops, int64(cs.MetaTTL))
		if h.Err != "" {
			return h.Err
		}
		m = h.M
		curEpoch := h.CurEpoch
		topBefore := m.top

		withPos := cs.Mode == 0 || cs.Mode == 4
		var reqOffset uint64
		reqEpoch := ""
		if withPos {
			reqOffset = uint64(cs.OffPick) % (m.top + 3)
			switch cs.EpochKind {
			case 0:
				reqEpoch = curEpoch
			case 1:
				reqEpoch = "zzzz"
				if len(h.Epochs) > 1 {
					reqEpoch = h.Epochs[len(h.Epochs)-2]
				}
			case 2:
				reqEpoch = "ABCD"
			}
		}
		clientTF := cs.ClientTF
		if cs.Mode >= 2 {
			clientTF = nil // connect-time subscriptions carry no client filter
		}
		retainedBefore := len(m.retained)

		conn := w.NewConn(vfConnCfg{Name: "s", User: "u", Proto: cs.Proto, Uni: cs.Mode == 3})
		var res *protocol.SubscribeResult
		var replyErr *protocol.Error
		// State the recovered flag is decided on: the moment of the subscribe's history read.
		newestAtRead := len(m.retained) > 0
		var window []vfC02ModelPub
		windowEpochChange := false
		gateOn := len(cs.Window) > 0 || cs.LateDup > 0
		lateDelivered := false
		w.broker.Hook = func(op, phase, hch string) error {
			if gateOn && op == "history" && phase == "after" && hch == ch {
				w.Gates.Pass("history")
			}
			return nil
		}
		runParked := func(f func()) {
			if !gateOn {
				f()
				return
			}
			w.Gates.Arm("history", 1)
			done := make(chan struct{})
			go func() { defer close(done); f() }()
			vfSettle()
			if w.Gates.Waiting("history") > 0 {
				if n := len(m.retained); cs.LateDup > 0 && n > 0 && curEpoch != "" {
					// a late or duplicated PUB/SUB delivery of something the cache read already covers
					i := n - cs.LateDup
					if i < 0 {
						i = 0
					}
					lp := m.retained[i]
					_ = w.node.HandlePublication(ch, &Publication{Offset: lp.Off, Data: []byte(lp.Data), Tags: lp.Tags, Time: time.Now().UnixMilli()},
						StreamPosition{Offset: lp.Off, Epoch: curEpoch}, false, nil)
					lateDelivered = true
					vfSettle()
				}
				for i, tg := range cs.Window {
					data := fmt.Sprintf(`{"w":%d}`, i)
					pr, err := w.node.Publish(ch, []byte(data), WithHistory(5, time.Duration(cs.TTL)*time.Second, time.Duration(cs.MetaTTL)*time.Second), WithTags(tg))
					if err != nil || curEpoch == "" || pr.Epoch != curEpoch {
						windowEpochChange = true // stream (re)created inside the window: not judged here
					}
					window = append(window, vfC02ModelPub{Off: pr.Offset, Tags: tg, Data: data})
				}
				vfSettle()
			}
			gateOn = false
			w.Gates.Disarm("history")
			for w.Gates.Release("history") {
			}
			<-done
		}
		switch cs.Mode {
		case 0, 1:
			conn.Connect(nil)
			req := &protocol.SubscribeRequest{Channel: ch, Tf: clientTF.Proto()}
			if cs.Mode == 0 {
				req.Recover, req.Offset, req.Epoch = true, reqOffset, reqEpoch
			}
			id := conn.NextID()
			runParked(func() { conn.Cmd(&protocol.Command{Id: id, Subscribe: req}) })
			vfSettle()
			for _, f := range conn.Frames() {
				if f.Err != nil {
					return "undecodable frame: " + f.Err.Error()
				}
				if f.Reply.Id == id {
					res, replyErr = f.Reply.Subscribe, f.Reply.Error
				}
			}
		default:
			creq := &protocol.ConnectRequest{}
			if cs.Mode == 4 {
				creq.Subs = map[string]*protocol.SubscribeRequest{ch: {Recover: true, Offset: reqOffset, Epoch: reqEpoch}}
			}
			runParked(func() { conn.Connect(creq) })
			vfSettle()
			for _, f := range conn.Frames() {
				if f.Err != nil {
					return "undecodable frame: " + f.Err.Error()
				}
				if f.Reply.Connect != nil && f.Reply.Connect.Subs != nil {
					res = f.Reply.Connect.Subs[ch]
				}
				if f.Reply.Push != nil && f.Reply.Push.Connect != nil && f.Reply.Push.Connect.Subs != nil {
					res = f.Reply.Push.Connect.Subs[ch]
				}
			}
		}
		frames := vfRenderFrames(conn.Frames())

		// publications issued inside the subscribe window are buffered and merged: they take part in "newest visible",
		// while recovered= was decided at the history read
		holdsAtRead := withPos && reqOffset > 0 && reqOffset == m.top && reqEpoch == curEpoch
		if lateDelivered {
			out.labels = append(out.labels, "late_duplicate_delivery_inside_subscribe_window")
			out.nontrivial = true
		}
		if len(window) > 0 {
			out.labels = append(out.labels, "publications_inside_subscribe_window")
			out.nontrivial = true
			if windowEpochChange {
				out.labels = append(out.labels, "window_epoch_change_unjudged")
				return ""
			}
			for _, wp := range window {
				m.top = wp.Off
				m.retained = append(m.retained, wp)
			}
		}
		// ---- expectations (evaluated on the state after a populating handler ran) ----------------------
		var newest, visible *vfC02ModelPub
		if n := len(m.retained); n > 0 {
			newest = &m.retained[n-1]
			for i := n - 1; i >= 0; i-- {
				p := m.retained[i]
				if cs.ServerTF.Match(p.Tags) && clientTF.Match(p.Tags) {
					visible = &m.retained[i]
					break
				}
			}
		}
		// "The client already holds the current position" is read as: the client names a publication (offset > 0)
		// and that is the stream top in the current epoch. Offset 0 means the client holds nothing of this cache.
		holdsCurrent := withPos && reqOffset > 0 && reqOffset == m.top && reqEpoch == curEpoch
		if handlerPublished {
			holdsCurrent = false // the position moved
		}
		expectRecovered := newest != nil || holdsCurrent
		if len(window) > 0 {
			holdsCurrent = holdsAtRead
			expectRecovered = newestAtRead || holdsAtRead
		}

		if retainedBefore > 0 && (newest != visible || h.TrimmedOrExpired || handlerPublished) || (retainedBefore == 0 && topBefore > 0) || handlerPublished {
			out.nontrivial = true
		}
		if newest == nil {
			out.labels = append(out.labels, "history_empty")
		} else if visible == nil {
			out.labels = append(out.labels, "all_retained_filtered")
		} else if visible != newest {
			out.labels = append(out.labels, "newest_filtered_older_visible")
		} else {
			out.labels = append(out.labels, "newest_visible")
		}
		if handlerCalls > 0 {
			out.labels = append(out.labels, fmt.Sprintf("cache_empty_handler_called_kind%d", cs.Handler))
		}
		if holdsCurrent {
			out.labels = append(out.labels, "client_holds_current_position")
		}

		if res == nil {
			if cs.Handler == 3 && handlerCalls > 0 {
				out.labels = append(out.labels, "handler_error_refused")
				return ""
			}
			if replyErr != nil {
				return fmt.Sprintf("subscribe failed with error %d %s; frames: %s", replyErr.Code, replyErr.Message, frames)
			}
			if closed, d := conn.T.Closed(); closed {
				return fmt.Sprintf("connection closed with %d %s instead of a subscribe result; frames: %s", d.Code, d.Reason, frames)
			}
			return "no subscribe result observed; frames: " + frames
		}
		if len(res.Publications) > 1 {
			return fmt.Sprintf("cache recovery delivered %d publications (more than one); frames: %s", len(res.Publications), frames)
		}
		if len(res.Publications) == 1 {
			out.labels = append(out.labels, "delivered_one")
			p := res.Publications[0]
			if visible == nil {
				return fmt.Sprintf("delivered offset %d although no retained publication passes the filters; frames: %s", p.Offset, frames)
			}
			if p.Offset != visible.Off || string(p.Data) != visible.Data {
				return fmt.Sprintf("delivered offset %d data %s, but the newest visible publication is offset %d data %s; frames: %s", p.Offset, p.Data, visible.Off, visible.Data, frames)
			}
		} else {
			out.labels = append(out.labels, "delivered_none")
		}
		if res.Recovered != expectRecovered {
			key := ""
			if !res.Recovered && newest != nil && visible == nil {
				key = "C03:all-retained-filtered-reports-not-recovered"
			}
			msg := fmt.Sprintf("recovered=%v, expected %v (newest publication present in history: %v, client holds current position: %v; top=%d req=(%d,%q) cur epoch %q); frames: %s",
				res.Recovered, expectRecovered, newest != nil, holdsCurrent, m.top, reqOffset, reqEpoch, curEpoch, frames)
			if key != "" && isKnown(key) {
				out.known = append(out.known, key)
				out.knownEx = msg
				return ""
			}
			if key != "" {
				msg = "[" + key + "] " + msg
			}
			return msg
		}
		if res.Recovered {
			out.labels = append(out.labels, "recovered_true")
		} else {
			out.labels = append(out.labels, "recovered_false")
		}
		return ""
	})
}

func TestVF_C03(t *testing.T) {
	vfCheck(t, "C03", func(rt *rapid.T, c *vfCase) string {
		cs := vfC03Gen(rt)
		c.Describe(cs.String())
		out := &vfC03Out{}
		msg := vfC03Run(t, cs, out, c.IsKnown)
		for _, l := range out.labels {
			c.Label(l)
		}
		for _, k := range out.known {
			c.Known(k, c.desc+" => "+out.knownEx)
		}
		if out.nontrivial {
			c.Nontrivial(c.desc)
		}
		return msg
	})
}
