package PKGNAME

// vfWSRef — an independent reference decoder for RFC 6455 framing and RFC 7692 permessage-deflate
// (server_no_context_takeover; client_no_context_takeover, i.e. every message is inflated on its own).
// It is written from the RFC texts and shares no code with conn.go. Used by C29 (oracle for the reader),
// C30 (wire validity of what the writer produces) and C31 (close frames on the wire).
//
// RFC 6455 section 5.2 frame layout:
//   byte0: FIN RSV1 RSV2 RSV3 opcode(4)      byte1: MASK len7(7)
//   len7==126 -> 16 bit big-endian length follows; len7==127 -> 64 bit (most significant bit MUST be 0)
//   MASK==1 -> 4 byte masking key follows; payload octet i is XORed with key[i mod 4]
// Opcodes: 0 continuation, 1 text, 2 binary, 8 close, 9 ping, 10 pong, everything else reserved.

import (
	"bytes"
	"compress/flate"
	"errors"
	"fmt"
	"io"
	"unicode/utf8"
)

type vfWSRefConfig struct {
	ServerRole  bool  // true: the decoder is the server, so every frame must be masked; false: no frame may be masked
	Deflate     bool  // permessage-deflate negotiated
	ReadLimit   int64 // >0: maximum sum of (wire) payload lengths of the data frames of one message
	DecompLimit int64 // >0: maximum inflated size of one compressed message
	StrictLen   bool  // true: a non-minimal length encoding is a violation (sender MUST use the minimal encoding)
}

// Terminal kinds.
const (
	vfWSRefEOF       = "eof"        // input ended exactly at a frame boundary
	vfWSRefTruncated = "truncated"  // input ended inside a frame
	vfWSRefViolation = "violation"  // RFC MUST broken by the peer
	vfWSRefClose     = "close"      // valid close frame received
	vfWSRefLimit     = "limit-wire" // ReadLimit exceeded
)

// Message status (message-level, found after reassembly).
const (
	vfWSRefMsgOK        = "ok"
	vfWSRefMsgCorrupt   = "corrupt-deflate"
	vfWSRefMsgOverLimit = "over-decompressed-limit"
	vfWSRefMsgPartial   = "partial" // message not finished when the terminal condition hit
)

type vfWSRefFrame struct {
	Offset     int
	Fin        bool
	Rsv1       bool
	Rsv2       bool
	Rsv3       bool
	Opcode     int
	Masked     bool
	Key        [4]byte
	LenBits    int // 7, 16 or 64
	NonMinimal bool
	PayloadLen uint64
	Payload    []byte // unmasked
}

type vfWSRefEvent struct {
	Kind       string // "msg", "ping", "pong"
	Opcode     int    // for msg: 1 or 2
	Payload    []byte // msg: reassembled and inflated payload (for non-ok status: what could be inflated)
	Wire       []byte // msg: reassembled payload as on the wire (after unmasking)
	Compressed bool
	Status     string // msg only
	Frames     int    // msg: number of data frames
	Interleave int    // msg: control frames seen between its fragments
	PingsSeen  int    // number of ping events before the first frame of this message
	PingsEnd   int    // msg: number of ping events before the end of the message (or the terminal condition)
	Partial    bool   // msg: not finished when the terminal condition hit (Status then describes the prefix)
	EarlyFinal bool   // msg: the deflate stream ended (BFINAL) before the end of the message payload
	FrameIdx   int    // index (in Frames) of the first frame of the event
}

type vfWSRefTerminal struct {
	Kind           string
	Viol           []string // all violation kinds found in the offending frame (Kind==violation)
	CloseCode      int
	CloseReason    string
	CloseHasBody   bool
	CodeDontCare   bool // close code neither clearly allowed nor clearly forbidden (1012-1014, >=5000)
	FrameIdx       int
	FrameComplete  bool // whether the offending/terminal frame is entirely inside the input
	HeaderComplete bool // whether its header (extended length, masking key) is entirely inside the input
	PayloadLen     uint64
	MidMessage     bool // a fragmented message was open
	Offset         int
}

type vfWSRefResult struct {
	Frames     []vfWSRefFrame // completely parsed frames (the violating frame is included if it could be parsed)
	Events     []vfWSRefEvent // in stream order; a partial message (if any) is the last one with Status partial
	Term       vfWSRefTerminal
	NonMinimal int // frames with a non-minimal length encoding
}

func (r *vfWSRefResult) Pings() [][]byte {
	var out [][]byte
	for _, e := range r.Events {
		if e.Kind == "ping" {
			out = append(out, e.Payload)
		}
	}
	return out
}

func (r *vfWSRefResult) Messages() []vfWSRefEvent {
	var out []vfWSRefEvent
	for _, e := range r.Events {
		if e.Kind == "msg" {
			out = append(out, e)
		}
	}
	return out
}

// Violation kind names.
const (
	vfWSRefVRsv23       = "rsv2/3"
	vfWSRefVRsv1NoExt   = "rsv1-without-extension"
	vfWSRefVRsv1Misplac = "rsv1-on-control-or-continuation" // RFC 7692 6.1
	vfWSRefVOpcode      = "reserved-opcode"
	vfWSRefVCtlFrag     = "fragmented-control"
	vfWSRefVCtlLen      = "control-longer-than-125"
	vfWSRefVDataInFrag  = "new-data-frame-inside-fragmented-message"
	vfWSRefVContNoStart = "continuation-without-start"
	vfWSRefVMask        = "wrong-mask-bit"
	vfWSRefVLenMSB      = "64bit-length-msb-set"
	vfWSRefVLenNonMin   = "non-minimal-length"
	vfWSRefVClose1      = "close-payload-1-byte"
	vfWSRefVCloseCode   = "close-code-forbidden"
	vfWSRefVCloseUTF8   = "close-reason-invalid-utf8"
)

// vfWSRefCloseCodeClass: RFC 6455 7.4.1/7.4.2. +1 = may appear in a close frame, -1 = MUST NOT / undefined reserved,
// 0 = not decidable from RFC 6455 alone (IANA additions 1012-1014; >=5000 is outside every range of 7.4.2).
func vfWSRefCloseCodeClass(code int) int {
	switch {
	case code < 1000:
		return -1
	case code >= 1000 && code <= 1003:
		return +1
	case code == 1004, code == 1005, code == 1006:
		return -1
	case code >= 1007 && code <= 1011:
		return +1
	case code >= 1012 && code <= 1014:
		return 0
	case code == 1015:
		return -1
	case code >= 1016 && code <= 2999:
		return -1
	case code >= 3000 && code <= 4999:
		return +1
	default:
		return 0
	}
}

// vfWSRefInflate inflates one message of a no-context-takeover permessage-deflate stream.
// complete=true: data is the whole message payload; the 4 octets 00 00 ff ff are appended (RFC 7692 7.2.2) and
// the stream must then end cleanly at a block boundary. complete=false: data is a prefix, "need more input" is
// reported as partial. limit>0 bounds the output: as soon as more than limit octets come out the status is over-limit.
func vfWSRefInflate(data []byte, complete bool, limit int64) ([]byte, string) {
	out, st, _ := vfWSRefInflate2(data, complete, limit)
	return out, st
}

// vfWSRefInflate2 additionally reports whether the deflate stream ended (BFINAL block) before the end of data.
func vfWSRefInflate2(data []byte, complete bool, limit int64) ([]byte, string, bool) {
	in := append([]byte{}, data...)
	if complete {
		in = append(in, 0x00, 0x00, 0xff, 0xff)
		// An empty *final* stored block lets the inflater terminate (a deflate stream has to end with BFINAL=1);
		// without it a well-formed sync-flushed stream is indistinguishable from one cut in the middle of a block.
		in = append(in, 0x01, 0x00, 0x00, 0xff, 0xff)
	}
	src := bytes.NewReader(in) // an io.ByteReader: the inflater consumes exactly what it needs
	fr := flate.NewReader(src)
	defer fr.Close()
	var out []byte
	buf := make([]byte, 32*1024)
	for {
		n, err := fr.Read(buf)
		out = append(out, buf[:n]...)
		if limit > 0 && int64(len(out)) > limit {
			return out[:limit], vfWSRefMsgOverLimit, false
		}
		if err == io.EOF {
			return out, vfWSRefMsgOK, src.Len() > 0
		}
		if err != nil {
			if !complete && errors.Is(err, io.ErrUnexpectedEOF) {
				return out, vfWSRefMsgPartial, false
			}
			return out, vfWSRefMsgCorrupt, false
		}
	}
}

// vfWSRefDecode scans in until the first frame-level terminal condition.
func vfWSRefDecode(cfg vfWSRefConfig, in []byte) *vfWSRefResult {
	res := &vfWSRefResult{}
	pos := 0
	// open (fragmented) message state
	open := false
	var cur vfWSRefEvent
	var wireLen uint64
	pings := 0

	finishMsg := func(partial bool) {
		cur.Partial = partial
		cur.PingsEnd = pings
		if cur.Compressed {
			out, st, early := vfWSRefInflate2(cur.Wire, !partial, cfg.DecompLimit)
			cur.Payload = out
			cur.Status = st
			cur.EarlyFinal = early || (partial && st == vfWSRefMsgOK)
			// partial && st==ok: a BFINAL block was met inside the prefix; an inflater ignores everything after
			// it, so a streaming reader may legitimately hand the message out before its last frame arrived.
		} else {
			cur.Payload = cur.Wire
			cur.Status = vfWSRefMsgOK
			if partial {
				cur.Status = vfWSRefMsgPartial
			}
		}
		res.Events = append(res.Events, cur)
		open = false
	}
	term := func(t vfWSRefTerminal) *vfWSRefResult {
		t.MidMessage = open
		if open {
			finishMsg(true)
		}
		res.Term = t
		return res
	}

	for {
		frameIdx := len(res.Frames)
		if pos == len(in) {
			return term(vfWSRefTerminal{Kind: vfWSRefEOF, FrameIdx: frameIdx, FrameComplete: true, Offset: pos})
		}
		if len(in)-pos < 2 {
			return term(vfWSRefTerminal{Kind: vfWSRefTruncated, FrameIdx: frameIdx, Offset: pos})
		}
		b0, b1 := in[pos], in[pos+1]
		f := vfWSRefFrame{Offset: pos, Fin: b0&0x80 != 0, Rsv1: b0&0x40 != 0, Rsv2: b0&0x20 != 0, Rsv3: b0&0x10 != 0,
			Opcode: int(b0 & 0x0f), Masked: b1&0x80 != 0, LenBits: 7}
		len7 := int(b1 & 0x7f)
		isCtl := f.Opcode >= 8
		var viol []string
		if f.Rsv2 || f.Rsv3 {
			viol = append(viol, vfWSRefVRsv23) // 5.2: MUST be 0 unless an extension defines them
		}
		if f.Rsv1 {
			if !cfg.Deflate {
				viol = append(viol, vfWSRefVRsv1NoExt)
			} else if isCtl || f.Opcode == 0 {
				viol = append(viol, vfWSRefVRsv1Misplac) // RFC 7692 6.1: receiver MUST fail the connection
			}
		}
		switch f.Opcode {
		case 0:
			if !open {
				viol = append(viol, vfWSRefVContNoStart)
			}
		case 1, 2:
			if open {
				viol = append(viol, vfWSRefVDataInFrag) // 5.4: fragments of one message MUST NOT be interleaved
			}
		case 8, 9, 10:
			if !f.Fin {
				viol = append(viol, vfWSRefVCtlFrag) // 5.5: control frames MUST NOT be fragmented
			}
			if len7 > 125 {
				viol = append(viol, vfWSRefVCtlLen) // 5.5: MUST have a payload length of 125 bytes or less
			}
		default:
			viol = append(viol, vfWSRefVOpcode) // 5.2: unknown opcode -> MUST fail
		}
		if f.Masked != cfg.ServerRole {
			viol = append(viol, vfWSRefVMask) // 5.1
		}

		// extended length / key / payload extent (needed also to tell whether a violating frame is complete)
		p := pos + 2
		plen := uint64(len7)
		headerOK := true
		switch len7 {
		case 126:
			f.LenBits = 16
			if len(in)-p < 2 {
				headerOK = false
			} else {
				plen = uint64(in[p])<<8 | uint64(in[p+1])
				p += 2
				f.NonMinimal = plen < 126
			}
		case 127:
			f.LenBits = 64
			if len(in)-p < 8 {
				headerOK = false
			} else {
				plen = 0
				for i := 0; i < 8; i++ {
					plen = plen<<8 | uint64(in[p+i])
				}
				p += 8
				f.NonMinimal = plen < 65536
			}
		}
		if headerOK && len(viol) == 0 {
			if plen>>63 != 0 {
				viol = append(viol, vfWSRefVLenMSB) // 5.2: the most significant bit MUST be 0
			} else if f.NonMinimal && cfg.StrictLen {
				viol = append(viol, vfWSRefVLenNonMin)
			}
		}
		if headerOK && f.Masked {
			if len(in)-p < 4 {
				headerOK = false
			} else {
				copy(f.Key[:], in[p:p+4])
				p += 4
			}
		}
		f.PayloadLen = plen
		complete := headerOK && plen <= uint64(len(in)-p)
		if len(viol) > 0 {
			if complete {
				f.Payload = vfWSRefUnmask(in[p:p+int(plen)], f.Masked, f.Key)
				res.Frames = append(res.Frames, f)
			}
			return term(vfWSRefTerminal{Kind: vfWSRefViolation, Viol: viol, FrameIdx: frameIdx, FrameComplete: complete,
				HeaderComplete: headerOK, PayloadLen: plen, Offset: pos})
		}
		if !headerOK {
			return term(vfWSRefTerminal{Kind: vfWSRefTruncated, FrameIdx: frameIdx, Offset: pos})
		}
		if f.NonMinimal {
			res.NonMinimal++
		}
		if !isCtl {
			// read limit is known to be exceeded as soon as the header is known
			if f.Opcode != 0 {
				wireLen = 0
			}
			wireLen += plen
			if cfg.ReadLimit > 0 && wireLen > uint64(cfg.ReadLimit) {
				if f.Opcode != 0 {
					// the message begins with this frame; make it visible as a partial message
					open = true
					cur = vfWSRefEvent{Kind: "msg", Opcode: f.Opcode, Compressed: f.Rsv1, PingsSeen: pings, FrameIdx: frameIdx}
				}
				return term(vfWSRefTerminal{Kind: vfWSRefLimit, FrameIdx: frameIdx, FrameComplete: complete, Offset: pos})
			}
		}
		avail := plen
		if !complete {
			avail = uint64(len(in) - p)
		}
		payload := vfWSRefUnmask(in[p:p+int(avail)], f.Masked, f.Key)
		if !isCtl {
			if f.Opcode != 0 {
				open = true
				cur = vfWSRefEvent{Kind: "msg", Opcode: f.Opcode, Compressed: f.Rsv1, PingsSeen: pings, FrameIdx: frameIdx}
			}
			cur.Wire = append(cur.Wire, payload...)
			cur.Frames++
		}
		if !complete {
			return term(vfWSRefTerminal{Kind: vfWSRefTruncated, FrameIdx: frameIdx, Offset: pos})
		}
		f.Payload = payload
		res.Frames = append(res.Frames, f)
		pos = p + int(plen)

		switch f.Opcode {
		case 0, 1, 2:
			if f.Fin {
				finishMsg(false)
			}
		case 9:
			if open {
				cur.Interleave++
			}
			pings++
			res.Events = append(res.Events, vfWSRefEvent{Kind: "ping", Opcode: 9, Payload: payload, FrameIdx: frameIdx, PingsSeen: pings - 1})
		case 10:
			if open {
				cur.Interleave++
			}
			res.Events = append(res.Events, vfWSRefEvent{Kind: "pong", Opcode: 10, Payload: payload, FrameIdx: frameIdx, PingsSeen: pings})
		case 8:
			t := vfWSRefTerminal{Kind: vfWSRefClose, FrameIdx: frameIdx, FrameComplete: true, Offset: f.Offset}
			switch {
			case len(payload) == 0:
				t.CloseCode = 1005 // 7.1.5: no status code present
			case len(payload) == 1:
				// 5.5.1: if there is a body, its first two bytes MUST be the status code
				t.Kind, t.Viol = vfWSRefViolation, []string{vfWSRefVClose1}
			default:
				t.CloseHasBody = true
				t.CloseCode = int(payload[0])<<8 | int(payload[1])
				t.CloseReason = string(payload[2:])
				switch vfWSRefCloseCodeClass(t.CloseCode) {
				case -1:
					t.Kind, t.Viol = vfWSRefViolation, []string{vfWSRefVCloseCode}
				case 0:
					t.CodeDontCare = true
				}
				if !utf8.Valid(payload[2:]) { // 5.5.1: the reason is UTF-8 encoded data; 8.1: MUST fail on invalid UTF-8
					t.Kind = vfWSRefViolation
					t.Viol = append(t.Viol, vfWSRefVCloseUTF8)
				}
			}
			return term(t)
		}
	}
}

func vfWSRefUnmask(b []byte, masked bool, key [4]byte) []byte {
	out := make([]byte, len(b))
	copy(out, b)
	if masked {
		for i := range out {
			out[i] ^= key[i%4]
		}
	}
	return out
}

// vfWSRefCheckWire validates a complete captured byte stream produced by an endpoint: every frame well-formed for
// the sender's role, minimal length encodings, control frames unfragmented and <=125, RSV1 only on the first frame
// of a data message (and only when deflate is negotiated), stream ends at a frame boundary outside a message unless
// it ends with a close frame. Returns the decode result and "" or a description of the first problem.
func vfWSRefCheckWire(in []byte, senderIsClient bool, deflate bool) (*vfWSRefResult, string) {
	res := vfWSRefDecode(vfWSRefConfig{ServerRole: senderIsClient, Deflate: deflate, StrictLen: true}, in)
	switch res.Term.Kind {
	case vfWSRefEOF:
		if res.Term.MidMessage {
			return res, fmt.Sprintf("wire ends inside a fragmented message (offset %d)", res.Term.Offset)
		}
	case vfWSRefClose:
		end := res.Frames[len(res.Frames)-1]
		hdr := 2
		if end.LenBits == 16 {
			hdr += 2
		} else if end.LenBits == 64 {
			hdr += 8
		}
		if end.Masked {
			hdr += 4
		}
		if end.Offset+hdr+int(end.PayloadLen) != len(in) {
			return res, fmt.Sprintf("bytes on the wire after a close frame (offset %d)", end.Offset)
		}
		if res.Term.MidMessage {
			return res, "close frame inside a fragmented message" // legal but never produced by a sane writer; reported
		}
	default:
		return res, fmt.Sprintf("wire not valid: %s %v at offset %d (frame %d)", res.Term.Kind, res.Term.Viol, res.Term.Offset, res.Term.FrameIdx)
	}
	for _, m := range res.Messages() {
		if m.Status != vfWSRefMsgOK {
			return res, fmt.Sprintf("message at frame %d has status %s", m.FrameIdx, m.Status)
		}
	}
	return res, ""
}

// vfWSRefEncodeFrame builds one frame (used by generators). lenBits 0 = minimal, otherwise 7/16/64 as requested
// (the caller guarantees the value fits). declared!=nil overrides the encoded length value (may differ from
// len(payload), may have bit 63 set).
func vfWSRefEncodeFrame(b0 byte, masked bool, key [4]byte, lenBits int, declared *uint64, payload []byte) []byte {
	n := uint64(len(payload))
	if declared != nil {
		n = *declared
	}
	if lenBits == 0 || (lenBits == 7 && n > 125) || (lenBits == 16 && n > 65535) {
		switch {
		case n <= 125:
			lenBits = 7
		case n <= 65535:
			lenBits = 16
		default:
			lenBits = 64
		}
	}
	out := []byte{b0}
	mb := byte(0)
	if masked {
		mb = 0x80
	}
	switch lenBits {
	case 7:
		out = append(out, mb|byte(n))
	case 16:
		out = append(out, mb|126, byte(n>>8), byte(n))
	default:
		out = append(out, mb|127)
		for i := 7; i >= 0; i-- {
			out = append(out, byte(n>>(8*uint(i))))
		}
	}
	if masked {
		out = append(out, key[:]...)
		for i, c := range payload {
			out = append(out, c^key[i%4])
		}
	} else {
		out = append(out, payload...)
	}
	return out
}

// vfWSRefDeflate compresses a message payload the way RFC 7692 7.2.1 prescribes (sync flush, drop 00 00 ff ff).
func vfWSRefDeflate(payload []byte, level int) []byte {
	var buf bytes.Buffer
	fw, err := flate.NewWriter(&buf, level)
	if err != nil {
		panic(err)
	}
	_, _ = fw.Write(payload)
	_ = fw.Flush()
	b := buf.Bytes()
	if len(b) >= 4 && bytes.Equal(b[len(b)-4:], []byte{0, 0, 0xff, 0xff}) {
		b = b[:len(b)-4]
	}
	return append([]byte{}, b...)
}
