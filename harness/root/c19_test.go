package PKGNAME

// C19 — Idempotent and versioned publishes suppress exactly the duplicates.
//
// Part 1 (TestVF_C19_Stream): memory stream broker. Reuses the C17 executor / world-set model (c17_test.go) with a
// generator concentrated on keyed and versioned publishes and with the STRICT policy for the clauses of this
// property: an unversioned publish does not reset the held version, a suppressed publish changes nothing (not even
// TTLs), an idempotency result belongs to the channel it was produced on.
//
// Part 2 (TestVF_C19_Map): memory map broker, per-key versions, idempotency on Publish and Remove, with its own
// small reference model (stream-backed and ephemeral modes; TTLs long enough that no key/stream/meta expiry
// interferes — those belong to C20/C21).
//
// The Redis halves of the property cannot run here (no Redis): not covered.

import (
	"context"
	"fmt"
	"math"
	"sort"
	"strings"
	"sync"
	"testing"
	"testing/synctest"
	"time"

	"pgregory.net/rapid"
)

const (
	vfC19KeyVerReset = "C19:memstream-unversioned-publish-resets-version"
	vfC19KeySupTTL   = "C19:memory-version-suppressed-publish-refreshes-ttl"
	vfC19KeyCollide  = "C19:memory-idempotency-cache-key-collides-across-channels"
)

var vfC19Versions = []uint64{1, 2, 3, 4, 5, 7, 1 << 53, 1<<53 + 1, 1<<53 + 2, 1 << 63, math.MaxUint64 - 1, math.MaxUint64}

func vfC19Pol(c *vfCase, key string) int {
	if c.IsKnown(key) {
		return vfC17Flagged
	}
	return vfC17Strict
}

func vfC19GenStream(rt *rapid.T, c *vfCase) (vfC17Cfg, []vfC17Op) {
	cfg := vfC17Cfg{
		// "a"+"_"+"b_k" == "a_b"+"_"+"k": channel and key names any application may use
		Chans:      []string{"a", "a_b"},
		DefMetaTTL: rapid.SampledFrom([]int{0, 0, 0, 20}).Draw(rt, "defMeta"),
		Policy: vfC17Policy{
			VerReset: vfC19Pol(c, vfC19KeyVerReset),
			SupTTL:   vfC19Pol(c, vfC19KeySupTTL),
			Collide:  vfC19Pol(c, vfC19KeyCollide),
		},
		FinalRead: true,
	}
	maxOps := 16
	if vfThorough() {
		maxOps = 28
	}
	n := rapid.IntRange(6, maxOps).Draw(rt, "nops")
	// per-case flavour keeps single cases focused (mostly one channel / mostly versions / mostly idempotency)
	chBias := rapid.SampledFrom([]int{0, 0, 1, 2}).Draw(rt, "chBias") // 0: channel 0 only, 1: channel 1 only, 2: both
	idemPct := rapid.SampledFrom([]int{8, 8, 30, 60}).Draw(rt, "idemPct")
	advPct := rapid.SampledFrom([]int{10, 20, 35}).Draw(rt, "advPct")
	ops := make([]vfC17Op, 0, n)
	lastUnver := make([]bool, len(cfg.Chans))
	for i := 0; i < n; i++ {
		op := vfC17Op{}
		switch chBias {
		case 0, 1:
			op.Ch = chBias
		default:
			op.Ch = rapid.IntRange(0, 1).Draw(rt, "ch")
		}
		k := rapid.IntRange(0, 99).Draw(rt, "kind")
		switch {
		case k < 100-advPct-15:
			op.Kind = vfC17OpPublish
			op.Data = fmt.Sprintf("d%d", i)
			if rapid.IntRange(0, 4).Draw(rt, "histOff") == 0 {
				op.Size, op.TTL = rapid.SampledFrom([]int{0, 0, 3}).Draw(rt, "size0"), 0
				if op.Size == 0 {
					op.TTL = 30
				}
			} else {
				op.Size = rapid.SampledFrom([]int{1, 2, 3, 8}).Draw(rt, "size")
				op.TTL = rapid.SampledFrom([]int{2, 5, 30, 30, 600}).Draw(rt, "ttl")
			}
			op.MetaTTL = rapid.SampledFrom([]int{0, 0, 0, 0, 8}).Draw(rt, "meta")
			if rapid.IntRange(0, 99).Draw(rt, "idem") < idemPct {
				op.IdemKey = rapid.SampledFrom([]string{"k", "k", "b_k", "j"}).Draw(rt, "ikey")
				op.IdemTTL = rapid.SampledFrom([]int{0, 1, 1, 2, 3}).Draw(rt, "ittl")
			}
			verPct := 45 // alternate: after an unversioned publish a versioned one is more likely, and vice versa
			if lastUnver[op.Ch] {
				verPct = 75
			}
			if rapid.IntRange(0, 99).Draw(rt, "ver") < verPct {
				op.Version = rapid.SampledFrom(vfC19Versions).Draw(rt, "version")
				op.VEpoch = rapid.SampledFrom([]string{"", "", "x", "x", "y"}).Draw(rt, "vepoch")
			}
			if op.Size > 0 && op.TTL > 0 {
				lastUnver[op.Ch] = op.Version == 0
			}
		case k < 100-advPct-3:
			op.Kind = vfC17OpHistory
			op.Limit = -1
			op.Reverse = rapid.IntRange(0, 3).Draw(rt, "reverse") == 0
		case k < 100-advPct:
			op.Kind = vfC17OpRemove
		default:
			op.Kind = vfC17OpAdvance
			op.AdvMs = rapid.SampledFrom([]int{500, 500, 1000, 1000, 1500, 2000, 2500, 3000, 4000, 6000, 12000, 300000}).Draw(rt, "adv")
		}
		ops = append(ops, op)
	}
	return cfg, ops
}

func TestVF_C19_Stream(t *testing.T) {
	vfCheck(t, "C19", func(rt *rapid.T, c *vfCase) string {
		cfg, ops := vfC19GenStream(rt, c)
		desc := "stream: " + vfC17Render(cfg, ops)
		c.Describe(desc)
		res := vfC17Exec(t, cfg, ops)
		nt := false
		for _, l := range res.Labels {
			if strings.HasPrefix(l, "history-after:") || strings.HasPrefix(l, "history:") || l == "end:ambiguous-worlds" {
				continue
			}
			c.Label("stream " + l)
			if l == "ver:versioned-after-unversioned" || l == "idem:repeat-after-ttl" {
				nt = true
			}
		}
		if nt {
			c.Nontrivial("")
		}
		for bit, ex := range res.BugHits {
			key := map[int]string{vfC17BugVerReset: vfC19KeyVerReset, vfC17BugSupTTL: vfC19KeySupTTL, vfC17BugCollide: vfC19KeyCollide}[bit]
			c.Known(key, ex+" in "+desc)
		}
		return res.Verdict
	})
}

// ---------------------------------------------------------------------------------------------------------------
// Part 2: memory map broker

const (
	vfC19MPublish = iota
	vfC19MRemove
	vfC19MClear
	vfC19MReadStream
	vfC19MReadState
	vfC19MAdvance
)

type vfC19MOp struct {
	Kind      int
	Ch        int
	Key       string
	Data      string
	Version   uint64
	VEpoch    string
	IdemKey   string
	IdemTTLms int // 0 = default (300 s)
	AdvMs     int
}

type vfC19MCfg struct {
	Chans []string
	Modes []MapMode
	Sizes []int // StreamSize (0 = library default 100); ignored for ephemeral
}

func (o vfC19MOp) render(cfg *vfC19MCfg) string {
	switch o.Kind {
	case vfC19MPublish:
		s := fmt.Sprintf("P(%s/%s,%s", cfg.Chans[o.Ch], o.Key, o.Data)
		if o.IdemKey != "" {
			s += fmt.Sprintf(",idem=%s/%dms", o.IdemKey, o.IdemTTLms)
		}
		if o.Version != 0 {
			s += fmt.Sprintf(",v=%d@%q", o.Version, o.VEpoch)
		}
		return s + ")"
	case vfC19MRemove:
		s := fmt.Sprintf("Rm(%s/%s", cfg.Chans[o.Ch], o.Key)
		if o.IdemKey != "" {
			s += fmt.Sprintf(",idem=%s/%dms", o.IdemKey, o.IdemTTLms)
		}
		return s + ")"
	case vfC19MClear:
		return "Clear(" + cfg.Chans[o.Ch] + ")"
	case vfC19MReadStream:
		return "Stream(" + cfg.Chans[o.Ch] + ")"
	case vfC19MReadState:
		return "State(" + cfg.Chans[o.Ch] + ")"
	default:
		return fmt.Sprintf("T(+%.1fs)", float64(o.AdvMs)/1000)
	}
}

func vfC19MRender(cfg *vfC19MCfg, ops []vfC19MOp) string {
	parts := []string{"map:"}
	for i, ch := range cfg.Chans {
		parts = append(parts, fmt.Sprintf("%s=%s/size%d", ch, map[MapMode]string{MapModeEphemeral: "ephemeral", MapModeRecoverable: "recoverable", MapModePersistent: "persistent"}[cfg.Modes[i]], cfg.Sizes[i]))
	}
	for _, o := range ops {
		parts = append(parts, o.render(cfg))
	}
	return strings.Join(parts, " ")
}

type vfC19MEnt struct {
	Off     uint64
	Key     string
	Data    string
	Removed bool
}

type vfC19MKey struct {
	Data     string
	Off      uint64
	Ver      uint64
	VerEpoch string
}

type vfC19MIdem struct {
	Off   uint64
	Epoch string
	ExpMs int64
}

type vfC19MChan struct {
	Exists bool
	Epoch  string
	Top    uint64
	Stream []vfC19MEnt
	State  map[string]vfC19MKey
	Idem   map[string]vfC19MIdem // shared by Publish and Remove of the channel
}

// vfC19MOut: observation / prediction of one call.
type vfC19MOut struct {
	Err     bool
	Off     uint64
	Epoch   string
	Sup     bool
	Reason  string
	Deliver *vfC19MEnt
	Ents    []vfC19MEnt
	IsRead  bool
}

func (o vfC19MOut) String() string {
	s := fmt.Sprintf("{pos=%d/%q", o.Off, o.Epoch)
	if o.Epoch == vfC17NewEpoch {
		s = fmt.Sprintf("{pos=%d/<fresh epoch>", o.Off)
	}
	if o.Err {
		s += " error"
	}
	if o.Sup {
		s += " suppressed=" + o.Reason
	}
	if o.Deliver != nil {
		s += fmt.Sprintf(" delivered=%+v", *o.Deliver)
	}
	if o.IsRead {
		s += fmt.Sprintf(" entries=%+v", o.Ents)
	}
	return s + "}"
}

func vfC19MMatch(pred, act vfC19MOut, seen map[string]bool) bool {
	if pred.Err != act.Err {
		return false
	}
	if pred.Err {
		return true
	}
	if pred.Off != act.Off || pred.Sup != act.Sup || pred.Reason != act.Reason || (pred.Deliver == nil) != (act.Deliver == nil) {
		return false
	}
	if pred.Deliver != nil && *pred.Deliver != *act.Deliver {
		return false
	}
	if pred.Epoch == vfC17NewEpoch {
		if act.Epoch == "" || seen[act.Epoch] {
			return false
		}
	} else if pred.Epoch != act.Epoch {
		return false
	}
	if len(pred.Ents) != len(act.Ents) {
		return false
	}
	for i := range pred.Ents {
		if pred.Ents[i] != act.Ents[i] {
			return false
		}
	}
	return true
}

func (c *vfC19MChan) ensure() {
	if !c.Exists {
		c.Exists, c.Epoch, c.Top, c.Stream, c.State = true, vfC17NewEpoch, 0, nil, map[string]vfC19MKey{}
	}
	if c.Idem == nil {
		c.Idem = map[string]vfC19MIdem{}
	}
}

// vfC19MStep applies op to the model channel and predicts the observation. idemAtBoundary says how to read an
// idempotency result whose TTL ends exactly now (taken from the observed outcome: either reading is accepted).
func vfC19MStep(c *vfC19MChan, mode MapMode, size int, op *vfC19MOp, nowMs int64, idemAtBoundary bool) vfC19MOut {
	if size == 0 {
		size = 100
	}
	if c.Idem == nil {
		c.Idem = map[string]vfC19MIdem{}
	}
	idemTTL := int64(300000)
	if op.IdemTTLms != 0 {
		idemTTL = int64(op.IdemTTLms)
	}
	idemHit := func() (vfC19MOut, bool) {
		if op.IdemKey == "" {
			return vfC19MOut{}, false
		}
		e, ok := c.Idem[op.IdemKey]
		if ok && (e.ExpMs > nowMs || (e.ExpMs == nowMs && idemAtBoundary)) {
			return vfC19MOut{Off: e.Off, Epoch: e.Epoch, Sup: true, Reason: string(SuppressReasonIdempotency)}, true
		}
		return vfC19MOut{}, false
	}
	switch op.Kind {
	case vfC19MPublish:
		if mode.IsEphemeral() && op.Version > 0 {
			return vfC19MOut{Err: true} // version-based dedup needs a stream-backed mode
		}
		if out, ok := idemHit(); ok {
			return out
		}
		c.ensure()
		if cur, ok := c.State[op.Key]; ok && mode.HasStream() && op.Version > 0 &&
			(op.VEpoch == "" || op.VEpoch == cur.VerEpoch) && op.Version <= cur.Ver {
			return vfC19MOut{Off: c.Top, Epoch: c.Epoch, Sup: true, Reason: string(SuppressReasonVersion)}
		}
		ent := vfC19MEnt{Key: op.Key, Data: op.Data}
		if mode.HasStream() {
			c.Top++
			ent.Off = c.Top
			c.Stream = append(c.Stream, ent)
			if len(c.Stream) > size {
				c.Stream = append([]vfC19MEnt(nil), c.Stream[len(c.Stream)-size:]...)
			}
		}
		nk := vfC19MKey{Data: op.Data, Off: ent.Off, Ver: op.Version, VerEpoch: op.VEpoch}
		if op.Version == 0 { // unversioned publishes do not reset the protection
			if cur, ok := c.State[op.Key]; ok {
				nk.Ver, nk.VerEpoch = cur.Ver, cur.VerEpoch
			}
		}
		c.State[op.Key] = nk
		if op.IdemKey != "" {
			c.Idem[op.IdemKey] = vfC19MIdem{Off: c.Top, Epoch: c.Epoch, ExpMs: nowMs + idemTTL}
		}
		return vfC19MOut{Off: c.Top, Epoch: c.Epoch, Deliver: &ent}
	case vfC19MRemove:
		if out, ok := idemHit(); ok {
			return out
		}
		if !c.Exists {
			return vfC19MOut{Sup: true, Reason: string(SuppressReasonKeyNotFound)} // zero position, nothing created
		}
		if _, ok := c.State[op.Key]; !ok {
			return vfC19MOut{Off: c.Top, Epoch: c.Epoch, Sup: true, Reason: string(SuppressReasonKeyNotFound)}
		}
		delete(c.State, op.Key)
		ent := vfC19MEnt{Key: op.Key, Removed: true}
		if mode.HasStream() {
			c.Top++
			ent.Off = c.Top
			c.Stream = append(c.Stream, ent)
			if len(c.Stream) > size {
				c.Stream = append([]vfC19MEnt(nil), c.Stream[len(c.Stream)-size:]...)
			}
		}
		if op.IdemKey != "" {
			c.Idem[op.IdemKey] = vfC19MIdem{Off: c.Top, Epoch: c.Epoch, ExpMs: nowMs + idemTTL}
		}
		return vfC19MOut{Off: c.Top, Epoch: c.Epoch, Deliver: &ent}
	case vfC19MClear:
		*c = vfC19MChan{}
		return vfC19MOut{}
	case vfC19MReadStream:
		c.ensure()
		return vfC19MOut{Off: c.Top, Epoch: c.Epoch, IsRead: true, Ents: append([]vfC19MEnt(nil), c.Stream...)}
	default: // read state: all keys, lexicographic
		c.ensure()
		keys := make([]string, 0, len(c.State))
		for k := range c.State {
			keys = append(keys, k)
		}
		sort.Strings(keys)
		out := vfC19MOut{Off: c.Top, Epoch: c.Epoch, IsRead: true}
		for _, k := range keys {
			out.Ents = append(out.Ents, vfC19MEnt{Off: c.State[k].Off, Key: k, Data: c.State[k].Data})
		}
		return out
	}
}

type vfC19MHandler struct {
	mu  sync.Mutex
	log []vfC19MDeliv
}

type vfC19MDeliv struct {
	Ch  string
	Ent vfC19MEnt
	SP  StreamPosition
}

func (h *vfC19MHandler) HandlePublication(ch string, pub *Publication, sp StreamPosition, _ bool, _ *Publication) error {
	h.mu.Lock()
	defer h.mu.Unlock()
	h.log = append(h.log, vfC19MDeliv{Ch: ch, Ent: vfC19MEnt{Off: pub.Offset, Key: pub.Key, Data: string(pub.Data), Removed: pub.Removed}, SP: sp})
	return nil
}
func (h *vfC19MHandler) HandleJoin(string, *ClientInfo) error  { return nil }
func (h *vfC19MHandler) HandleLeave(string, *ClientInfo) error { return nil }
func (h *vfC19MHandler) take() []vfC19MDeliv {
	h.mu.Lock()
	defer h.mu.Unlock()
	l := h.log
	h.log = nil
	return l
}

func vfC19MEnts(pubs []*Publication) []vfC19MEnt {
	var out []vfC19MEnt
	for _, p := range pubs {
		out = append(out, vfC19MEnt{Off: p.Offset, Key: p.Key, Data: string(p.Data), Removed: p.Removed})
	}
	return out
}

var (
	vfC19MNode   *Node
	vfC19MChOpts map[string]MapChannelOptions
)

func vfC19MExec(t *testing.T, cfg vfC19MCfg, ops []vfC19MOp) (verdict string, labels []string) {
	lab := map[string]bool{}
	for ci := range cfg.Chans { // final observation of every channel
		ops = append(ops[:len(ops):len(ops)], vfC19MOp{Kind: vfC19MReadStream, Ch: ci}, vfC19MOp{Kind: vfC19MReadState, Ch: ci})
	}
	const day = 24 * time.Hour
	chOpts := map[string]MapChannelOptions{}
	for i, ch := range cfg.Chans {
		o := MapChannelOptions{Mode: cfg.Modes[i]}
		switch cfg.Modes[i] {
		case MapModeEphemeral:
			o.KeyTTL = day
		case MapModeRecoverable:
			o.KeyTTL, o.StreamTTL, o.StreamSize = day, day, cfg.Sizes[i]
		default:
			o.StreamTTL, o.StreamSize = day, cfg.Sizes[i]
		}
		chOpts[ch] = o
	}
	// one never-started Node for all cases (see vfC17Nodes); its options resolver reads the current case's table
	vfC19MChOpts = chOpts
	if vfC19MNode == nil {
		n, err := New(Config{Map: MapConfig{GetMapChannelOptions: func(ch string) MapChannelOptions { return vfC19MChOpts[ch] }}})
		if err != nil {
			return "INTERNAL: New: " + err.Error(), nil
		}
		vfC19MNode = n
	}
	node := vfC19MNode
	verdict = vfC17Bubble(t, func() string {
		mb, err := NewMemoryMapBroker(node, MemoryMapBrokerConfig{})
		if err != nil {
			return "INTERNAL: NewMemoryMapBroker: " + err.Error()
		}
		node.SetMapBroker(mb)
		h := &vfC19MHandler{}
		if err := mb.RegisterEventHandler(h); err != nil {
			return "INTERNAL: RegisterEventHandler: " + err.Error()
		}
		defer func() { _ = mb.Close(context.Background()) }()
		ctx := context.Background()

		model := make([]vfC19MChan, len(cfg.Chans))
		seen := map[string]bool{}
		type idemSeen struct{ expMs int64 }
		idemLog := map[string]idemSeen{}
		type verSeen struct{ versioned, unverAfter bool }
		verLog := map[string]verSeen{}

		for i := range ops {
			op := &ops[i]
			if op.Kind == vfC19MAdvance {
				time.Sleep(time.Duration(op.AdvMs) * time.Millisecond)
				synctest.Wait()
				continue
			}
			nowMs := time.Now().UnixMilli()
			ch := cfg.Chans[op.Ch]
			mode := cfg.Modes[op.Ch]
			var act vfC19MOut
			switch op.Kind {
			case vfC19MPublish, vfC19MRemove:
				var r MapUpdateResult
				var err error
				ttl := time.Duration(op.IdemTTLms) * time.Millisecond
				if op.Kind == vfC19MPublish {
					r, err = mb.Publish(ctx, ch, op.Key, MapPublishOptions{Data: []byte(op.Data), Version: op.Version, VersionEpoch: op.VEpoch,
						IdempotencyKey: op.IdemKey, IdempotentResultTTL: ttl})
				} else {
					r, err = mb.Remove(ctx, ch, op.Key, MapRemoveOptions{IdempotencyKey: op.IdemKey, IdempotentResultTTL: ttl})
				}
				act = vfC19MOut{Err: err != nil, Off: r.Position.Offset, Epoch: r.Position.Epoch, Sup: r.Suppressed, Reason: string(r.SuppressReason)}
				dl := h.take()
				if len(dl) > 1 {
					return fmt.Sprintf("step %d %s: %d deliveries for one call", i, op.render(&cfg), len(dl))
				}
				if len(dl) == 1 {
					d := dl[0]
					act.Deliver = &d.Ent
					if d.Ch != ch || d.SP != r.Position {
						return fmt.Sprintf("step %d %s: delivery %+v does not carry the channel/position of result %+v", i, op.render(&cfg), d, r)
					}
				}
				// labels from observations
				if r.Suppressed {
					lab["map suppressed-"+string(r.SuppressReason)] = true
				}
				if err != nil {
					lab["map ephemeral-version-rejected"] = true
				}
				if op.IdemKey != "" && err == nil {
					k := ch + "\x00" + op.IdemKey
					if e, ok := idemLog[k]; ok {
						if e.expMs <= nowMs {
							lab["map idem:repeat-after-ttl"] = true
						} else {
							lab["map idem:repeat-within-ttl"] = true
						}
					}
					if !r.Suppressed {
						ttlMs := int64(300000)
						if op.IdemTTLms != 0 {
							ttlMs = int64(op.IdemTTLms)
						}
						idemLog[k] = idemSeen{nowMs + ttlMs}
					}
				}
				if mode.HasStream() {
					k := ch + "\x00" + op.Key
					v := verLog[k]
					switch {
					case op.Kind == vfC19MRemove:
						if !r.Suppressed {
							delete(verLog, k)
							if v.versioned {
								lab["map ver:key-removed-while-versioned"] = true
							}
						}
					case op.Version > 0:
						if v.unverAfter {
							lab["map ver:versioned-after-unversioned"] = true
						}
						if v.versioned {
							lab["map ver:versioned-after-versioned"] = true
						}
						if op.Version > 1<<53 {
							lab["map ver:above-2^53"] = true
						}
						if !r.Suppressed && err == nil {
							verLog[k] = verSeen{versioned: true}
						}
					default:
						if !r.Suppressed && v.versioned {
							v.unverAfter = true
							verLog[k] = v
						}
					}
				}
			case vfC19MClear:
				err := mb.Clear(ctx, ch, MapClearOptions{})
				act = vfC19MOut{Err: err != nil}
				for k := range idemLog {
					if strings.HasPrefix(k, ch+"\x00") {
						delete(idemLog, k)
					}
				}
				for k := range verLog {
					if strings.HasPrefix(k, ch+"\x00") {
						delete(verLog, k)
					}
				}
			case vfC19MReadStream:
				r, err := mb.ReadStream(ctx, ch, MapReadStreamOptions{Filter: StreamFilter{Limit: -1}})
				act = vfC19MOut{Err: err != nil, Off: r.Position.Offset, Epoch: r.Position.Epoch, IsRead: true, Ents: vfC19MEnts(r.Publications)}
			case vfC19MReadState:
				r, err := mb.ReadState(ctx, ch, MapReadStateOptions{Limit: -1})
				act = vfC19MOut{Err: err != nil, Off: r.Position.Offset, Epoch: r.Position.Epoch, IsRead: true, Ents: vfC19MEnts(r.Publications)}
			}
			if op.Kind >= vfC19MClear {
				if dl := h.take(); len(dl) != 0 {
					return fmt.Sprintf("step %d %s: unexpected deliveries %+v", i, op.render(&cfg), dl)
				}
			}
			pred := vfC19MStep(&model[op.Ch], mode, cfg.Sizes[op.Ch], op, nowMs, act.Sup && act.Reason == string(SuppressReasonIdempotency))
			if !vfC19MMatch(pred, act, seen) {
				return fmt.Sprintf("step %d %s at t=+%.1fs: observed %s; the model requires %s", i, op.render(&cfg), float64(nowMs%86400000)/1000, act.String(), pred.String())
			}
			if pred.Epoch == vfC17NewEpoch {
				c := &model[op.Ch]
				c.Epoch = act.Epoch
				for k, v := range c.Idem {
					if v.Epoch == vfC17NewEpoch {
						v.Epoch = act.Epoch
						c.Idem[k] = v
					}
				}
			}
			if act.Epoch != "" {
				seen[act.Epoch] = true
			}
		}
		return ""
	})
	for l := range lab {
		labels = append(labels, l)
	}
	sort.Strings(labels)
	return verdict, labels
}

func vfC19GenMap(rt *rapid.T) (vfC19MCfg, []vfC19MOp) {
	modes := []MapMode{MapModeRecoverable, MapModePersistent, MapModeEphemeral}
	cfg := vfC19MCfg{Chans: []string{"m1", "m2"}}
	for range cfg.Chans {
		cfg.Modes = append(cfg.Modes, rapid.SampledFrom([]MapMode{modes[0], modes[0], modes[1], modes[1], modes[2]}).Draw(rt, "mode"))
		cfg.Sizes = append(cfg.Sizes, rapid.SampledFrom([]int{0, 1, 2, 3, 5}).Draw(rt, "streamSize"))
	}
	maxOps := 18
	if vfThorough() {
		maxOps = 30
	}
	n := rapid.IntRange(6, maxOps).Draw(rt, "nops")
	chBias := rapid.SampledFrom([]int{0, 0, 0, 2}).Draw(rt, "chBias")
	nKeys := rapid.SampledFrom([]int{1, 1, 2, 3}).Draw(rt, "nkeys")
	idemPct := rapid.SampledFrom([]int{8, 8, 30, 60}).Draw(rt, "idemPct")
	advPct := rapid.SampledFrom([]int{8, 16, 30}).Draw(rt, "advPct")
	ops := make([]vfC19MOp, 0, n)
	lastUnver := map[string]bool{}
	for i := 0; i < n; i++ {
		op := vfC19MOp{Ch: chBias}
		if chBias == 2 {
			op.Ch = rapid.IntRange(0, 1).Draw(rt, "ch")
		}
		op.Key = []string{"p", "q", "r"}[rapid.IntRange(0, nKeys-1).Draw(rt, "key")]
		drawIdem := func(pct int) {
			if rapid.IntRange(0, 99).Draw(rt, "idem") < pct {
				op.IdemKey = rapid.SampledFrom([]string{"k", "k", "j"}).Draw(rt, "ikey")
				op.IdemTTLms = rapid.SampledFrom([]int{0, 1000, 1000, 1500, 2000, 3000}).Draw(rt, "ittl")
			}
		}
		k := rapid.IntRange(0, 99-16+advPct).Draw(rt, "kind")
		switch {
		case k < 55:
			op.Kind = vfC19MPublish
			op.Data = fmt.Sprintf("d%d", i)
			drawIdem(idemPct)
			verPct := 45
			if lastUnver[fmt.Sprint(op.Ch, op.Key)] {
				verPct = 75
			}
			if cfg.Modes[op.Ch].IsEphemeral() {
				verPct = 8
			}
			if rapid.IntRange(0, 99).Draw(rt, "ver") < verPct {
				op.Version = rapid.SampledFrom(vfC19Versions).Draw(rt, "version")
				op.VEpoch = rapid.SampledFrom([]string{"", "", "x", "x", "y"}).Draw(rt, "vepoch")
			}
			lastUnver[fmt.Sprint(op.Ch, op.Key)] = op.Version == 0
		case k < 67:
			op.Kind = vfC19MRemove
			drawIdem(idemPct + 15)
		case k < 70:
			op.Kind = vfC19MClear
		case k < 77:
			op.Kind = vfC19MReadStream
		case k < 84:
			op.Kind = vfC19MReadState
		default:
			op.Kind = vfC19MAdvance
			op.AdvMs = rapid.SampledFrom([]int{500, 500, 1000, 1000, 1500, 2000, 2500, 3000, 4000, 300000}).Draw(rt, "adv")
		}
		ops = append(ops, op)
	}
	return cfg, ops
}

func TestVF_C19_Map(t *testing.T) {
	vfCheck(t, "C19", func(rt *rapid.T, c *vfCase) string {
		cfg, ops := vfC19GenMap(rt)
		c.Describe(vfC19MRender(&cfg, ops))
		verdict, labels := vfC19MExec(t, cfg, ops)
		nt := false
		for _, l := range labels {
			c.Label(l)
			if l == "map ver:versioned-after-unversioned" || l == "map idem:repeat-after-ttl" {
				nt = true
			}
		}
		if nt {
			c.Nontrivial("")
		}
		return verdict
	})
}
