package PKGNAME

// C21 — Map state pagination enumerates every key exactly once.
//
// Real MemoryMapBroker (real clock, TTLs >= 1 h; broker goroutines end with Close per case). A drawn build
// script (publish / overwrite / remove) creates a state, then several drawn pagination runs (direction, page size)
// and single-key reads are executed against the unchanged state and compared with an independent model:
//   * unordered channel: key ascending (byte-wise) — findUnorderedCursorPosition doc: "sorted slice", cursor = last key;
//   * ordered channel, Asc=false (default): score DESC, key DESC; Asc=true: score ASC, key ASC
//     (MapReadStateOptions.Asc doc + findOrderedCursorPosition doc in map_broker.go);
//   * Limit>0: at most Limit entries per page; Limit=-1: everything in one page; Limit=0: position only;
//   * single-key read (Key set): exactly the stored entry, Cursor/Limit ignored.

import (
	"context"
	"fmt"
	"runtime/debug"
	"sort"
	"strconv"
	"strings"
	"sync"
	"sync/atomic"
	"testing"
	"time"

	"pgregory.net/rapid"
)

type vfC21Build struct {
	Remove bool
	Key    string
	Score  int64
	Data   string
	Tags   map[string]string
}

type vfC21Run struct {
	Kind  int // 0 paginate, 1 single-key read
	Asc   bool
	Limit int
	Key   string // single-key read
	// single-key read noise (must be ignored)
	NoiseCursor string
	NoiseLimit  int
}

type vfC21Entry struct {
	Key    string
	Score  int64
	Data   string
	Tags   map[string]string
	Offset uint64
}

var vfC21KeyPieces = []string{
	"a", "b", "ab", "a\x00", "\x00", "\x00b", "\x00\x00", "é", "日本", " ", "~", "0", "1", "-1", "10", "9",
	"5\x00x", "A", "z", " ", "\U0001F600", ":", "-", "\x01", "\x7f",
}

var vfC21Scores = []int64{
	0, 0, 1, -1, 2, 5, 5, 5, 7, -7, 10, 9, 100,
	9223372036854775807, 9223372036854775806, -9223372036854775808, -9223372036854775807,
	1 << 53, (1 << 53) + 1, -(1 << 53), 4294967296,
}

func vfC21Q(s string) string { return strconv.QuoteToASCII(s) }

func vfC21GenKey(rt *rapid.T) string {
	n := rapid.SampledFrom([]int{1, 1, 1, 2, 2, 3, 4}).Draw(rt, "kparts")
	var sb strings.Builder
	for i := 0; i < n; i++ {
		sb.WriteString(rapid.SampledFrom(vfC21KeyPieces).Draw(rt, "kpiece"))
	}
	return sb.String()
}

func vfC21Less(ordered, asc bool, a, b vfC21Entry) bool {
	if !ordered {
		return a.Key < b.Key
	}
	if a.Score != b.Score {
		if asc {
			return a.Score < b.Score
		}
		return a.Score > b.Score
	}
	if asc {
		return a.Key < b.Key
	}
	return a.Key > b.Key
}

func vfC21TagsEq(a, b map[string]string) bool {
	if len(a) != len(b) {
		return false
	}
	for k, v := range a {
		if w, ok := b[k]; !ok || w != v {
			return false
		}
	}
	return true
}

func vfC21PubMatches(p *Publication, e vfC21Entry, ordered bool) string {
	if p == nil {
		return "nil publication"
	}
	if p.Key != e.Key {
		return fmt.Sprintf("key %s, want %s", vfC21Q(p.Key), vfC21Q(e.Key))
	}
	if string(p.Data) != e.Data {
		return fmt.Sprintf("key %s data %q, want %q", vfC21Q(e.Key), p.Data, e.Data)
	}
	if ordered && p.Score != e.Score {
		return fmt.Sprintf("key %s score %d, want %d", vfC21Q(e.Key), p.Score, e.Score)
	}
	if p.Offset != e.Offset {
		return fmt.Sprintf("key %s offset %d, want %d", vfC21Q(e.Key), p.Offset, e.Offset)
	}
	if !vfC21TagsEq(p.Tags, e.Tags) {
		return fmt.Sprintf("key %s tags %v, want %v", vfC21Q(e.Key), p.Tags, e.Tags)
	}
	if p.Removed {
		return fmt.Sprintf("key %s state entry marked removed", vfC21Q(e.Key))
	}
	return ""
}

// One Node for the whole process (never Run: it only carries the config, metrics and logger the broker reads); the
// channel options of the current case are swapped in through an atomic pointer. Creating a Node per case costs ~10 ms.
var (
	vfC21NodeOnce sync.Once
	vfC21NodeVal  *Node
	vfC21NodeErr  error
	vfC21ChOpts   atomic.Pointer[MapChannelOptions]
)

func vfC21Node() (*Node, error) {
	vfC21NodeOnce.Do(func() {
		vfC21NodeVal, vfC21NodeErr = New(Config{Map: MapConfig{GetMapChannelOptions: func(string) MapChannelOptions {
			return *vfC21ChOpts.Load()
		}}})
	})
	return vfC21NodeVal, vfC21NodeErr
}

func vfC21Guard(f func() string) (out string) {
	defer func() {
		if r := recover(); r != nil {
			out = fmt.Sprintf("PANIC: %v\n%s", r, debug.Stack())
		}
	}()
	return f()
}

type vfC21Nop struct{}

func (vfC21Nop) HandlePublication(string, *Publication, StreamPosition, bool, *Publication) error {
	return nil
}
func (vfC21Nop) HandleJoin(string, *ClientInfo) error  { return nil }
func (vfC21Nop) HandleLeave(string, *ClientInfo) error { return nil }

func TestVF_C21(t *testing.T) {
	vfCheck(t, "C21", func(rt *rapid.T, c *vfCase) string {
		// ---------------- draw ----------------
		ordered := rapid.Bool().Draw(rt, "ordered")
		mode := rapid.SampledFrom([]MapMode{MapModeEphemeral, MapModeRecoverable, MapModePersistent}).Draw(rt, "mode")
		streamSize := rapid.SampledFrom([]int{0, 1, 3, 5}).Draw(rt, "streamSize")
		nKeys := rapid.SampledFrom([]int{13, 8, 20, 30, 40, 5, 3, 2, 1, 0}).Draw(rt, "nkeys")
		preRead := rapid.Bool().Draw(rt, "preRead") // a read before the first publish creates the channel as unordered
		scorePool := vfC21Scores
		if rapid.IntRange(0, 3).Draw(rt, "fewScores") == 0 { // force many ties
			scorePool = []int64{5, 5, -9223372036854775808, 9223372036854775807}
		}
		var build []vfC21Build
		var keys []string
		seen := map[string]bool{}
		for i := 0; i < nKeys; i++ {
			k := vfC21GenKey(rt)
			if !seen[k] {
				seen[k] = true
				keys = append(keys, k)
			}
			b := vfC21Build{Key: k, Score: rapid.SampledFrom(scorePool).Draw(rt, "score"), Data: fmt.Sprintf("d%d", i)}
			if rapid.IntRange(0, 3).Draw(rt, "hasTags") == 0 {
				b.Tags = map[string]string{"t": fmt.Sprintf("v%d", i)}
			}
			build = append(build, b)
			// occasional overwrite (new score) / removal of an earlier key
			if len(keys) > 0 {
				switch rapid.IntRange(0, 9).Draw(rt, "extra") {
				case 0:
					k2 := rapid.SampledFrom(keys).Draw(rt, "owKey")
					build = append(build, vfC21Build{Key: k2, Score: rapid.SampledFrom(scorePool).Draw(rt, "owScore"), Data: fmt.Sprintf("o%d", i)})
				case 1:
					k2 := rapid.SampledFrom(keys).Draw(rt, "rmKey")
					build = append(build, vfC21Build{Remove: true, Key: k2})
				}
			}
		}
		nRuns := rapid.IntRange(1, 4).Draw(rt, "nruns")
		var runs []vfC21Run
		for i := 0; i < nRuns; i++ {
			r := vfC21Run{}
			if rapid.IntRange(0, 3).Draw(rt, "runKind") == 0 {
				r.Kind = 1
				if len(keys) > 0 && rapid.IntRange(0, 3).Draw(rt, "present") != 0 {
					r.Key = rapid.SampledFrom(keys).Draw(rt, "readKey")
				} else {
					r.Key = vfC21GenKey(rt) + "?"
				}
				r.NoiseCursor = rapid.SampledFrom([]string{"", "zzz", "5\x00a", "\x00"}).Draw(rt, "noiseCursor")
				r.NoiseLimit = rapid.SampledFrom([]int{0, -1, 1, 100}).Draw(rt, "noiseLimit")
				r.Asc = rapid.Bool().Draw(rt, "asc")
			} else {
				r.Asc = rapid.Bool().Draw(rt, "asc")
				r.Limit = rapid.SampledFrom([]int{2, 1, 3, 1, 2, 4, 5, 7, 10, 13, 20, 39, 40, 41, 45, -1, 0}).Draw(rt, "limit")
			}
			runs = append(runs, r)
		}

		// ---------------- describe ----------------
		var sb strings.Builder
		fmt.Fprintf(&sb, "ordered=%v mode=%d streamSize=%d preRead=%v build=[", ordered, mode, streamSize, preRead)
		for i, b := range build {
			if i > 0 {
				sb.WriteByte(' ')
			}
			if b.Remove {
				fmt.Fprintf(&sb, "rm(%s)", vfC21Q(b.Key))
			} else {
				fmt.Fprintf(&sb, "pub(%s,%d)", vfC21Q(b.Key), b.Score)
			}
		}
		sb.WriteString("] runs=[")
		for i, r := range runs {
			if i > 0 {
				sb.WriteByte(' ')
			}
			if r.Kind == 1 {
				fmt.Fprintf(&sb, "get(%s)", vfC21Q(r.Key))
			} else {
				fmt.Fprintf(&sb, "page(asc=%v,limit=%d)", r.Asc, r.Limit)
			}
		}
		sb.WriteString("]")
		c.Describe(sb.String())

		// ---------------- model ----------------
		model := map[string]vfC21Entry{}
		var top uint64
		hasStream := mode != MapModeEphemeral
		for _, b := range build {
			if b.Remove {
				if _, ok := model[b.Key]; ok {
					delete(model, b.Key)
					if hasStream {
						top++
					}
				}
				continue
			}
			if hasStream {
				top++
			}
			off := uint64(0)
			if hasStream {
				off = top
			}
			model[b.Key] = vfC21Entry{Key: b.Key, Score: b.Score, Data: b.Data, Tags: b.Tags, Offset: off}
		}
		n := len(model)
		ties, extremes := false, false
		scoreSeen := map[int64]bool{}
		for _, e := range model {
			if scoreSeen[e.Score] {
				ties = true
			}
			scoreSeen[e.Score] = true
			if e.Score == 9223372036854775807 || e.Score == -9223372036854775808 {
				extremes = true
			}
		}
		nulKey := false
		for k := range model {
			if strings.Contains(k, "\x00") {
				nulKey = true
			}
		}
		multiPage := false
		for _, r := range runs {
			if r.Kind == 0 && r.Limit > 0 && n > r.Limit {
				multiPage = true
			}
		}
		if ordered {
			c.Label("ordered")
		} else {
			c.Label("unordered")
		}
		if multiPage {
			c.Label("multi_page")
		}
		if ties && ordered {
			c.Label("ordered_score_ties")
		}
		if extremes && ordered {
			c.Label("ordered_extreme_scores")
		}
		if nulKey {
			c.Label("nul_in_key")
		}
		if n == 0 {
			c.Label("empty_state")
		}
		if multiPage && ((ordered && (ties || extremes)) || nulKey) {
			c.Nontrivial(sb.String())
		}

		// ---------------- execute ----------------
		const ch = "vfc21"
		node, nerr := vfC21Node() // created outside any bubble
		if nerr != nil {
			rt.Fatalf("INFRA: node: %v", nerr)
		}
		// No virtual clock needed: every TTL is >= 1 h and no verdict depends on time, so the broker runs on the real
		// clock (its sweep goroutines end with Close); this avoids the per-bubble GC cycles (20x faster).
		verdict := vfC21Guard(func() string {
			chOpts := MapChannelOptions{Mode: mode, ordered: ordered}
			switch mode {
			case MapModeEphemeral:
				chOpts.KeyTTL = time.Hour
			case MapModeRecoverable:
				chOpts.KeyTTL = time.Hour
				chOpts.StreamSize = streamSize
				chOpts.StreamTTL = 2 * time.Hour
				chOpts.MetaTTL = 3 * time.Hour
			case MapModePersistent:
				chOpts.StreamSize = streamSize
			}
			vfC21ChOpts.Store(&chOpts)
			broker, err := NewMemoryMapBroker(node, MemoryMapBrokerConfig{})
			if err != nil {
				return "INFRA: broker: " + err.Error()
			}
			if err := broker.RegisterEventHandler(vfC21Nop{}); err != nil {
				return "INFRA: register: " + err.Error()
			}
			defer func() { _ = broker.Close(context.Background()) }()
			ctx := context.Background()

			var epoch string
			if preRead {
				res, err := broker.ReadState(ctx, ch, MapReadStateOptions{Limit: 10})
				if err != nil {
					return "pre-read on empty channel failed: " + err.Error()
				}
				if len(res.Publications) != 0 || res.Cursor != "" {
					return "pre-read on empty channel returned entries/cursor"
				}
				epoch = res.Position.Epoch
			}
			for i, b := range build {
				if b.Remove {
					if _, err := broker.Remove(ctx, ch, b.Key, MapRemoveOptions{}); err != nil {
						return fmt.Sprintf("build step %d remove: %v", i, err)
					}
					continue
				}
				var tags map[string]string
				if b.Tags != nil {
					tags = map[string]string{}
					for k, v := range b.Tags {
						tags[k] = v
					}
				}
				res, err := broker.Publish(ctx, ch, b.Key, MapPublishOptions{Data: []byte(b.Data), score: b.Score, Tags: tags})
				if err != nil {
					return fmt.Sprintf("build step %d publish: %v", i, err)
				}
				if res.Suppressed {
					return fmt.Sprintf("build step %d: plain publish suppressed (%s)", i, res.SuppressReason)
				}
				if epoch == "" {
					epoch = res.Position.Epoch
				}
			}

			for ri, r := range runs {
				if r.Kind == 1 {
					res, err := broker.ReadState(ctx, ch, MapReadStateOptions{Key: r.Key, Cursor: r.NoiseCursor, Limit: r.NoiseLimit, Asc: r.Asc})
					if err != nil {
						return fmt.Sprintf("run %d: single-key read %s: %v", ri, vfC21Q(r.Key), err)
					}
					e, ok := model[r.Key]
					if !ok {
						if len(res.Publications) != 0 {
							return fmt.Sprintf("run %d: single-key read of absent key %s returned %d entries", ri, vfC21Q(r.Key), len(res.Publications))
						}
					} else {
						if len(res.Publications) != 1 {
							return fmt.Sprintf("run %d: single-key read of present key %s returned %d entries", ri, vfC21Q(r.Key), len(res.Publications))
						}
						if m := vfC21PubMatches(res.Publications[0], e, ordered); m != "" {
							return fmt.Sprintf("run %d: single-key read: %s", ri, m)
						}
					}
					if res.Cursor != "" {
						return fmt.Sprintf("run %d: single-key read returned a cursor %s", ri, vfC21Q(res.Cursor))
					}
					if epoch != "" && (res.Position.Epoch != epoch || res.Position.Offset != top) {
						return fmt.Sprintf("run %d: single-key read position %v, want {%d %s}", ri, res.Position, top, epoch)
					}
					continue
				}
				// expected order
				want := make([]vfC21Entry, 0, n)
				for _, e := range model {
					want = append(want, e)
				}
				sort.Slice(want, func(i, j int) bool { return vfC21Less(ordered, r.Asc, want[i], want[j]) })

				var got []*Publication
				cursor := ""
				calls := 0
				maxCalls := 1
				if r.Limit > 0 {
					maxCalls = (n+r.Limit-1)/r.Limit + 1
				}
				for {
					calls++
					if calls > maxCalls {
						return fmt.Sprintf("run %d (asc=%v limit=%d): pagination did not terminate within %d calls (n=%d, %d entries so far, cursor %s)",
							ri, r.Asc, r.Limit, maxCalls, n, len(got), vfC21Q(cursor))
					}
					res, err := broker.ReadState(ctx, ch, MapReadStateOptions{Cursor: cursor, Limit: r.Limit, Asc: r.Asc})
					if err != nil {
						return fmt.Sprintf("run %d call %d: %v", ri, calls, err)
					}
					if epoch != "" && (res.Position.Epoch != epoch || res.Position.Offset != top) {
						return fmt.Sprintf("run %d call %d: position %v, want {%d %s}", ri, calls, res.Position, top, epoch)
					}
					if r.Limit > 0 && len(res.Publications) > r.Limit {
						return fmt.Sprintf("run %d call %d: page of %d entries exceeds limit %d", ri, calls, len(res.Publications), r.Limit)
					}
					if r.Limit == 0 && (len(res.Publications) != 0 || res.Cursor != "") {
						return fmt.Sprintf("run %d: limit 0 returned %d entries, cursor %s", ri, len(res.Publications), vfC21Q(res.Cursor))
					}
					if r.Limit < 0 && res.Cursor != "" {
						return fmt.Sprintf("run %d: limit -1 returned a cursor %s", ri, vfC21Q(res.Cursor))
					}
					got = append(got, res.Publications...)
					if res.Cursor == "" {
						break
					}
					if len(res.Publications) == 0 {
						return fmt.Sprintf("run %d call %d: empty non-final page (cursor %s)", ri, calls, vfC21Q(res.Cursor))
					}
					if res.Cursor == cursor {
						return fmt.Sprintf("run %d call %d: cursor did not change (%s)", ri, calls, vfC21Q(cursor))
					}
					cursor = res.Cursor
				}
				if r.Limit == 0 {
					continue
				}
				// every key exactly once, in order
				seenKeys := map[string]int{}
				for _, p := range got {
					if p == nil {
						return fmt.Sprintf("run %d: nil publication in page", ri)
					}
					seenKeys[p.Key]++
				}
				for k, cnt := range seenKeys {
					if cnt > 1 {
						return fmt.Sprintf("run %d (asc=%v limit=%d): key %s returned %d times", ri, r.Asc, r.Limit, vfC21Q(k), cnt)
					}
					if _, ok := model[k]; !ok {
						return fmt.Sprintf("run %d: key %s returned but not in state", ri, vfC21Q(k))
					}
				}
				for k := range model {
					if seenKeys[k] == 0 {
						return fmt.Sprintf("run %d (asc=%v limit=%d): key %s (score %d) never returned (%d of %d keys)", ri, r.Asc, r.Limit, vfC21Q(k), model[k].Score, len(got), n)
					}
				}
				for i := range want {
					if got[i].Key != want[i].Key {
						return fmt.Sprintf("run %d (asc=%v limit=%d): position %d holds key %s (score %d), sort order requires %s (score %d)",
							ri, r.Asc, r.Limit, i, vfC21Q(got[i].Key), got[i].Score, vfC21Q(want[i].Key), want[i].Score)
					}
					if m := vfC21PubMatches(got[i], want[i], ordered); m != "" {
						return fmt.Sprintf("run %d: page entry: %s", ri, m)
					}
				}
			}
			// Stats agree
			st, err := broker.Stats(ctx, ch)
			if err != nil {
				return "stats: " + err.Error()
			}
			if st.NumKeys != n {
				return fmt.Sprintf("stats NumKeys=%d, want %d", st.NumKeys, n)
			}
			return ""
		})
		if strings.HasPrefix(verdict, "INFRA:") {
			rt.Fatalf("%s", verdict)
		}
		return verdict
	})
}
