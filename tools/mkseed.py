#!/usr/bin/env python3
"""tools/mkseed.py Cxx [Cyy ...] — create scratch worktrees /tmp/seed-Cxx and prompt files for seeder sub-agents
(each gets only the property text and its worktree)."""
import json, subprocess, sys
t = open('/verif/tools/seeder_prompt.txt').read()
props = {json.loads(l)['id']: json.loads(l) for l in open('/verif/properties.jsonl')}
for pid in sys.argv[1:]:
    p = props[pid]
    wt = '/tmp/seed-' + pid
    subprocess.run(['git', '-C', '/repo', 'worktree', 'add', '-q', '--detach', wt, 'HEAD'], check=True)
    txt = "Property %s — %s\n\nStatement: %s\n\nQuantifier (%s): %s\n\nWhy the existing tests cannot settle it: %s\n\nAnchors: files %s; mechanisms %s\n" % (
        p['id'], p['title'], p['statement'], ', '.join(p['quantifier']['over']), p['quantifier']['text'], p['why_tests_cant'],
        p['anchors']['files'], [m['name'] for m in p['anchors']['mechanism']])
    open('/tmp/seed-%s.property.txt' % pid, 'w').write(txt)
    open('/tmp/seed-%s.prompt.txt' % pid, 'w').write(t.replace('{WT}', wt).replace('{PROPFILE}', '/tmp/seed-%s.property.txt' % pid).replace('{PROPTEXT}', txt))
    print(pid, 'ready')
