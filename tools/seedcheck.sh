#!/bin/bash
# usage: tools/seedcheck.sh <seed-id> <Cxx> [tier] [--skip-demo]
# Confirms a seeded change kept under /verif/seeded/<seed-id>/ (patch.diff, demo test, meta.json) in a scratch
# worktree of /repo HEAD: demo passes without the patch, fails with it; then runs ./vf <tier> <Cxx> against the patched tree.
set -u
sid=$1; prop=$2; tier=${3:-quick}; skipdemo=${4:-}
sd=/verif/seeded/$sid
wt=$(mktemp -d /tmp/vfseed.XXXXXX)
git -C /repo worktree add -q --detach "$wt" HEAD || exit 3
cleanup() { git -C /repo worktree remove --force "$wt" 2>/dev/null; rm -rf "$wt" "$wt.out"; }
trap cleanup EXIT
demo=$(python3 -c "import json;print(json.load(open('$sd/meta.json')).get('demo_file',''))")
demopkg=$(python3 -c "import json;print(json.load(open('$sd/meta.json')).get('demo_pkg','.'))")
demorun=$(python3 -c "import json;print(json.load(open('$sd/meta.json')).get('demo_run',''))")
export GOFLAGS=-mod=mod GOPROXY=off
if [ -z "$skipdemo" ] && [ -n "$demo" ]; then
  cp "$sd/$demo" "$wt/$demopkg/$demo"
  (cd "$wt" && go test -count=1 -run "$demorun" "./$demopkg" > "$wt.out" 2>&1); rc0=$?
  echo "demo without patch: rc=$rc0 ($( [ $rc0 = 0 ] && echo PASS-as-expected || echo UNEXPECTED ))"; [ $rc0 = 0 ] || tail -15 "$wt.out"
fi
git -C "$wt" apply "$sd/patch.diff" || { echo "PATCH DOES NOT APPLY"; exit 3; }
(cd "$wt" && go build ./...) || { echo "PATCHED TREE DOES NOT BUILD"; exit 3; }
if [ -z "$skipdemo" ] && [ -n "$demo" ]; then
  (cd "$wt" && go test -count=1 -run "$demorun" "./$demopkg" > "$wt.out" 2>&1); rc1=$?
  echo "demo with patch: rc=$rc1 ($( [ $rc1 != 0 ] && echo FAIL-as-expected || echo UNEXPECTED-PASS ))"
  rm -f "$wt/$demopkg/$demo"
fi
VF_REPO="$wt" VF_BUILD_TAG="seed$$" /verif/vf "$tier" "$prop" > "$wt.out" 2>&1; rc=$?
grep -E "^(OK|VIOLATION|INFRA|KNOWN)" "$wt.out" | head -5
grep -E "VF-VIOLATION" "$wt.out" | head -1 | cut -c1-400
echo "check $prop $tier on seeded tree: rc=$rc ($( [ $rc = 1 ] && echo CAUGHT || echo NOT-CAUGHT ))"
