package PKGNAME

// C36 — Liveness timers close exactly the connections they should.
//
// One connection (bidirectional or unidirectional, JSON / Protobuf, default timers or a TimerScheduler double) on a
// real Node inside a synctest bubble, optionally with one expiring subscription (client command or connect-time
// server-side). Drawn: stale delay, ping interval / pong timeout (transport level and ConnectReply override), expiry
// grace delays, presence interval, the moment of the connect command and the duration of OnConnecting (around the
// stale deadline), connection ExpireAt with a plan of refreshes placed relative to the exact instant the expiry timer
// fires (client refresh command, Client.Refresh, Node.Refresh with ExpireAt / without options / expired) or a list of
// server-side RefreshHandler answers (extend / expired / error), a pong policy per server ping (offset after the ping
// frame is written: 0, 1 ms, half, just before, just after the pong timeout, never), subscription ExpireAt with
// client sub-refresh commands relative to the expiry boundary or SubRefreshHandler answers.
//
// Oracle: an independent timeline model keeps, per mechanism, the window [lo, hi] in which the connection must be
// closed (and with which code) or the subscription must be unsubscribed; the real state is compared on a 0.5 s grid:
// closed/unsubscribed earlier than lo - margin => violation; still alive/subscribed later than hi + margin =>
// violation; wrong code => violation. Margins: 1.5 s for second-granular mechanisms (expiry), 0.3 s for exact ones
// (stale, pong).

import (
	"bytes"
	"context"
	"errors"
	"fmt"
	"sort"
	"strings"
	"sync"
	"testing"
	"time"

	"github.com/centrifugal/centrifuge/internal/saferand"
	"github.com/centrifugal/protocol"
	"pgregory.net/rapid"
)

type vfC36Refresh struct {
	Kind    int // 0 client refresh command, 1 Client.Refresh(ExpireAt), 2 Node.Refresh(ExpireAt), 3 Client.Refresh() (non-expiring), 4 Client.Refresh(expired)
	DeltaMs int // relative to the instant the expiry timer fires
	Ext     int // new ExpireAt = unix now + Ext
}

type vfC36Answer struct {
	Kind int // 0 extend by Ext, 1 expired, 2 plain error, 3 Disconnect error (custom code)
	Ext  int
}

type vfC36SubRefresh struct {
	DeltaMs int // relative to the expiry boundary (expireAt + grace + 1 s)
	Ext     int
}

type vfC36Case struct {
	StartMs   int
	Sched     bool
	Seed      int64
	Proto     ProtocolType
	Uni       bool
	TP, TQ    int // transport ping interval / pong timeout, seconds (0 = pings disabled)
	Override  bool
	P, Q      int // ConnectReply.PingPongConfig
	Stale     int
	D, Ds, I  int // ClientExpiredCloseDelay, ClientExpiredSubCloseDelay, ClientPresenceUpdateInterval (seconds)
	ConnectMs int // -1 = the client never sends connect
	HandlerMs int // OnConnecting duration
	ExpIn     int
	CSR       bool
	Handler   bool
	Answers   []vfC36Answer
	Refreshes []vfC36Refresh
	Pongs     []int // per ping (cyclic): offset in ms after the ping frame, -1 never
	Sub       int   // 0 none, 1 client command, 2 connect-time server-side
	SubAtMs   int
	SubExpIn  int
	SubCSR    bool
	SubHandler bool
	SubAnswers []vfC36Answer
	SubRefreshes []vfC36SubRefresh
	HorizonS  int
}

func (c vfC36Case) String() string {
	return fmt.Sprintf("start=%dms sched=%v seed=%d %s uni=%v transportPing=%d/%d override=%v(%d/%d) stale=%d D=%d Ds=%d I=%d connectAt=%dms handler=%dms expIn=%d csr=%v handler=%v answers=%v refreshes=%v pongs=%v sub=%d subAt=%dms subExpIn=%d subCSR=%v subHandler=%v subAnswers=%v subRefreshes=%v horizon=%ds",
		c.StartMs, c.Sched, c.Seed, c.Proto, c.Uni, c.TP, c.TQ, c.Override, c.P, c.Q, c.Stale, c.D, c.Ds, c.I, c.ConnectMs, c.HandlerMs, c.ExpIn, c.CSR, c.Handler,
		c.Answers, c.Refreshes, c.Pongs, c.Sub, c.SubAtMs, c.SubExpIn, c.SubCSR, c.SubHandler, c.SubAnswers, c.SubRefreshes, c.HorizonS)
}

func vfC36GenAnswers(rt *rapid.T, label string) []vfC36Answer {
	n := rapid.IntRange(0, 3).Draw(rt, label+"_n")
	var out []vfC36Answer
	for i := 0; i < n; i++ {
		a := vfC36Answer{Kind: rapid.SampledFrom([]int{0, 0, 0, 1, 2, 3}).Draw(rt, label+"_kind")}
		if a.Kind == 0 {
			a.Ext = rapid.IntRange(2, 5).Draw(rt, label+"_ext")
		}
		out = append(out, a)
		if a.Kind != 0 {
			break
		}
	}
	return out
}

func vfC36Gen(rt *rapid.T) vfC36Case {
	c := vfC36Case{}
	c.StartMs = rapid.SampledFrom([]int{0, 250, 500, 750}).Draw(rt, "start")
	c.Sched = rapid.IntRange(0, 2).Draw(rt, "sched") == 0
	c.Seed = rapid.Int64Range(1, 1<<40).Draw(rt, "seed")
	c.Proto = rapid.SampledFrom([]ProtocolType{ProtocolTypeJSON, ProtocolTypeProtobuf}).Draw(rt, "proto")
	c.Uni = rapid.IntRange(0, 5).Draw(rt, "uni") == 0
	c.TP = rapid.SampledFrom([]int{0, 2, 3, 4, 6}).Draw(rt, "tp")
	if c.TP > 0 {
		c.TQ = rapid.IntRange(1, c.TP-1).Draw(rt, "tq")
	}
	c.Override = rapid.IntRange(0, 3).Draw(rt, "override") == 0
	if c.Override {
		c.P = rapid.SampledFrom([]int{0, 2, 3, 5}).Draw(rt, "p")
		if c.P > 0 {
			c.Q = rapid.IntRange(1, c.P-1).Draw(rt, "q")
		}
	}
	c.Stale = rapid.SampledFrom([]int{2, 3, 5}).Draw(rt, "stale")
	c.D = rapid.IntRange(2, 4).Draw(rt, "d")
	c.Ds = rapid.IntRange(2, 4).Draw(rt, "ds")
	c.I = rapid.IntRange(2, 4).Draw(rt, "i")
	c.ConnectMs = rapid.SampledFrom([]int{0, 0, 0, 0, 300, 300, 300, c.Stale*1000 - 400, c.Stale*1000 + 400, -1}).Draw(rt, "connect")
	c.HandlerMs = rapid.SampledFrom([]int{0, 0, 0, 0, 0, 200, 200, 600, c.Stale*1000 - 600, c.Stale*1000 + 200}).Draw(rt, "handlerMs")
	c.ExpIn = rapid.SampledFrom([]int{0, 3, 4, 6, 8}).Draw(rt, "expIn")
	c.CSR = rapid.Bool().Draw(rt, "csr")
	c.Handler = rapid.IntRange(0, 3).Draw(rt, "handler") > 0
	if c.ExpIn > 0 && !c.CSR && c.Handler {
		c.Answers = vfC36GenAnswers(rt, "ans")
	}
	if c.ExpIn > 0 {
		n := rapid.SampledFrom([]int{0, 1, 1, 2, 3}).Draw(rt, "nrefresh")
		for i := 0; i < n; i++ {
			r := vfC36Refresh{}
			kinds := []int{1, 1, 2, 3, 4}
			if c.CSR && !c.Uni {
				kinds = []int{0, 0, 0, 0, 1, 2, 3, 4}
			}
			r.Kind = rapid.SampledFrom(kinds).Draw(rt, "rkind")
			deltas := []int{-2500, -1500, -1000, -300, -100}
			if c.CSR || !c.Handler {
				deltas = append(deltas, 100, 300, 1700)
			}
			r.DeltaMs = rapid.SampledFrom(deltas).Draw(rt, "rdelta")
			r.Ext = rapid.SampledFrom([]int{0, 2, 3, 4, 6}).Draw(rt, "rext")
			c.Refreshes = append(c.Refreshes, r)
		}
	}
	np := rapid.IntRange(1, 4).Draw(rt, "npongs")
	for i := 0; i < np; i++ {
		// kind resolved against the effective pong timeout at run time: 0 same instant, 1 +1ms, 2 half, 3 just before,
		// 4 just after, 5 never
		c.Pongs = append(c.Pongs, rapid.SampledFrom([]int{0, 1, 2, 2, 3, 3, 3, 4, 5}).Draw(rt, "pong"))
	}
	c.Sub = rapid.SampledFrom([]int{0, 1, 1, 1, 2}).Draw(rt, "sub")
	if c.Uni && c.Sub == 1 {
		c.Sub = 2
	}
	if c.Sub > 0 {
		c.SubAtMs = rapid.SampledFrom([]int{0, 200, 700, 1500}).Draw(rt, "subAt")
		c.SubExpIn = rapid.SampledFrom([]int{0, 2, 3, 5, 7}).Draw(rt, "subExpIn")
		c.SubCSR = c.Sub == 1 && rapid.Bool().Draw(rt, "subCSR")
		c.SubHandler = rapid.IntRange(0, 3).Draw(rt, "subHandler") > 0
		if c.SubExpIn > 0 && !c.SubCSR && c.SubHandler {
			c.SubAnswers = vfC36GenAnswers(rt, "subans")
		}
		if c.SubExpIn > 0 && c.SubCSR {
			n := rapid.IntRange(0, 3).Draw(rt, "nsubrefresh")
			for i := 0; i < n; i++ {
				c.SubRefreshes = append(c.SubRefreshes, vfC36SubRefresh{
					DeltaMs: rapid.SampledFrom([]int{-2500, -1200, -300, -100}).Draw(rt, "srdelta"),
					Ext:     rapid.IntRange(2, 5).Draw(rt, "srext"),
				})
			}
		}
	}
	c.HorizonS = rapid.SampledFrom([]int{14, 20, 28}).Draw(rt, "horizon")
	return c
}

// ---------------------------------------------------------------------------------------------------------------

type vfC36Sched struct{}

type vfC36Cancel struct{ t *time.Timer }

func (c vfC36Cancel) Cancel() { c.t.Stop() }

func (vfC36Sched) ScheduleTimer(d time.Duration, cb func()) TimerCanceler {
	return vfC36Cancel{t: time.AfterFunc(d, cb)}
}

// vfC36Transport wraps the world transport and reports every server ping frame that was written.
type vfC36Transport struct {
	*vfTransport
	ping   []byte
	onPing func()
}

func (t *vfC36Transport) Write(d []byte) error { return t.WriteMany(d) }

func (t *vfC36Transport) WriteMany(data ...[]byte) error {
	err := t.vfTransport.WriteMany(data...)
	if err == nil {
		for _, d := range data {
			if bytes.Equal(d, t.ping) {
				t.onPing()
			}
		}
	}
	return err
}

type vfC36Pred struct {
	mech   string
	lo, hi time.Duration
	code   uint32
	margin time.Duration
}

type vfC36Out struct {
	labels     []string
	nontrivial bool
	known      map[string]string
}

func (o *vfC36Out) label(l string) { o.labels = append(o.labels, l) }

type vfC36Invocation struct {
	at  time.Duration
	ans vfC36Answer
	ok  bool // an answer was available (otherwise "expired")
}

const vfC36CustomCode = 4100

func vfC36Run(t *testing.T, cs vfC36Case, out *vfC36Out, isKnown func(string) bool) string {
	return vfBubble(t, func() string {
		randSource = saferand.New(cs.Seed)
		cfg := Config{
			ClientPresenceUpdateInterval: time.Duration(cs.I) * time.Second,
			ClientStaleCloseDelay:        time.Duration(cs.Stale) * time.Second,
			ClientExpiredCloseDelay:      time.Duration(cs.D) * time.Second,
			ClientExpiredSubCloseDelay:   time.Duration(cs.Ds) * time.Second,
		}
		if cs.Sched {
			cfg.ClientTimerScheduler = vfC36Sched{}
		}
		w, err := vfNewWorld(cfg, nil)
		if err != nil {
			return "infra: " + err.Error()
		}
		defer w.Close()
		since := func() time.Duration { return time.Since(w.start) }
		floorS := func(d time.Duration) time.Duration { return d.Truncate(time.Second) }
		ch := "s"

		// effective ping configuration
		effQ := cs.TQ
		if cs.Override {
			effQ = cs.Q
		}
		Q := time.Duration(effQ) * time.Second
		pp := func(p, q int) PingPongConfig {
			if p == 0 {
				return PingPongConfig{PingInterval: -1, PongTimeout: -1}
			}
			return PingPongConfig{PingInterval: time.Duration(p) * time.Second, PongTimeout: time.Duration(q) * time.Second}
		}

		var mu sync.Mutex
		var pings []time.Duration
		var refreshInv, subRefreshInv []vfC36Invocation
		clientRefreshExt := 0
		clientSubRefreshExt := 0
		var conn *vfConn
		pongNear, pongLate := 0, 0

		w.Connecting = func(c *vfConn, e ConnectEvent) (ConnectReply, error) {
			if cs.HandlerMs > 0 {
				time.Sleep(time.Duration(cs.HandlerMs) * time.Millisecond)
			}
			r := ConnectReply{Credentials: &Credentials{UserID: c.User}, ClientSideRefresh: cs.CSR}
			if cs.ExpIn > 0 {
				r.Credentials.ExpireAt = time.Now().Unix() + int64(cs.ExpIn)
			}
			if cs.Override {
				cfg := pp(cs.P, cs.Q)
				r.PingPongConfig = &cfg
			}
			if cs.Sub == 2 {
				o := SubscribeOptions{}
				if cs.SubExpIn > 0 {
					o.ExpireAt = time.Now().Unix() + int64(cs.SubExpIn)
				}
				r.Subscriptions = map[string]SubscribeOptions{ch: o}
			}
			return r, nil
		}
		w.OnSubscribe = func(c *vfConn, e SubscribeEvent, cb SubscribeCallback) {
			o := SubscribeOptions{}
			if cs.SubExpIn > 0 {
				o.ExpireAt = time.Now().Unix() + int64(cs.SubExpIn)
			}
			cb(SubscribeReply{Options: o, ClientSideRefresh: cs.SubCSR}, nil)
		}
		answer := func(list []vfC36Answer, idx int) (vfC36Answer, bool) {
			if idx < len(list) {
				return list[idx], true
			}
			return vfC36Answer{Kind: 1}, false
		}
		w.PerClient = func(c *vfConn, client *Client) {
			if cs.Handler || cs.CSR {
				client.OnRefresh(func(e RefreshEvent, cb RefreshCallback) {
					if e.ClientSideRefresh {
						mu.Lock()
						ext := clientRefreshExt
						mu.Unlock()
						w.logEvent(client.ID(), "refresh", "", fmt.Sprintf("client ext=%d", ext))
						cb(RefreshReply{ExpireAt: time.Now().Unix() + int64(ext)}, nil)
						return
					}
					mu.Lock()
					a, ok := answer(cs.Answers, len(refreshInv))
					refreshInv = append(refreshInv, vfC36Invocation{at: since(), ans: a, ok: ok})
					mu.Unlock()
					w.logEvent(client.ID(), "refresh", "", fmt.Sprintf("server answer=%d ext=%d", a.Kind, a.Ext))
					switch a.Kind {
					case 0:
						cb(RefreshReply{ExpireAt: time.Now().Unix() + int64(a.Ext)}, nil)
					case 1:
						cb(RefreshReply{Expired: true}, nil)
					case 2:
						cb(RefreshReply{}, errors.New("boom"))
					default:
						cb(RefreshReply{}, Disconnect{Code: vfC36CustomCode, Reason: "custom"})
					}
				})
			}
			if cs.SubHandler || cs.SubCSR {
				client.OnSubRefresh(func(e SubRefreshEvent, cb SubRefreshCallback) {
					if e.ClientSideRefresh {
						mu.Lock()
						ext := clientSubRefreshExt
						mu.Unlock()
						w.logEvent(client.ID(), "subrefresh", e.Channel, fmt.Sprintf("client ext=%d", ext))
						cb(SubRefreshReply{ExpireAt: time.Now().Unix() + int64(ext)}, nil)
						return
					}
					mu.Lock()
					a, ok := answer(cs.SubAnswers, len(subRefreshInv))
					subRefreshInv = append(subRefreshInv, vfC36Invocation{at: since(), ans: a, ok: ok})
					mu.Unlock()
					w.logEvent(client.ID(), "subrefresh", e.Channel, fmt.Sprintf("server answer=%d ext=%d", a.Kind, a.Ext))
					switch a.Kind {
					case 0:
						cb(SubRefreshReply{ExpireAt: time.Now().Unix() + int64(a.Ext)}, nil)
					case 1:
						cb(SubRefreshReply{Expired: true}, nil)
					default:
						cb(SubRefreshReply{}, errors.New("boom"))
					}
				})
			}
		}

		time.Sleep(time.Duration(cs.StartMs) * time.Millisecond)

		// ---- connection with a ping-aware transport ---------------------------------------------------------------------
		base := &vfTransport{w: w, name: "k", proto: cs.Proto, uni: cs.Uni, pingPong: pp(cs.TP, cs.TQ), closeCh: make(chan struct{})}
		wt := &vfC36Transport{vfTransport: base, ping: getPingData(cs.Uni, cs.Proto)}
		ctx, cancel := context.WithCancel(context.Background())
		client, closeF, err := NewClient(ctx, w.node, wt)
		if err != nil {
			cancel()
			return "infra: " + err.Error()
		}
		conn = &vfConn{w: w, Name: "k", User: "u", Client: client, T: base, cancel: cancel, closeF: closeF}
		w.mu.Lock()
		w.conns[client.ID()] = conn
		w.mu.Unlock()
		defer func() {
			go conn.TransportClose()
			vfSettle()
		}()
		tNew := since()
		pongOffset := func(kind int) time.Duration {
			switch kind {
			case 0:
				return 0
			case 1:
				return time.Millisecond
			case 2:
				return Q / 2
			case 3:
				return Q - 100*time.Millisecond
			case 4:
				return Q + 100*time.Millisecond
			}
			return -1
		}
		wt.onPing = func() {
			mu.Lock()
			idx := len(pings)
			pings = append(pings, since())
			mu.Unlock()
			if cs.Uni {
				return
			}
			off := pongOffset(cs.Pongs[idx%len(cs.Pongs)])
			if off < 0 {
				return
			}
			go func() {
				if off > 0 {
					time.Sleep(off)
				}
				conn.Client.HandleCommand(&protocol.Command{}, 0)
			}()
		}

		// ---- agenda ----------------------------------------------------------------------------------------------------
		type item struct {
			at time.Duration
			fn func()
			id int
		}
		var agenda []item
		nextID := 0
		schedule := func(at time.Duration, fn func()) {
			nextID++
			agenda = append(agenda, item{at: at, fn: fn, id: nextID})
		}

		// model state
		var preds []vfC36Pred
		setPred := func(p vfC36Pred) {
			for i := range preds {
				if preds[i].mech == p.mech {
					preds[i] = p
					return
				}
			}
			preds = append(preds, p)
		}
		dropPred := func(mech string) {
			for i := range preds {
				if preds[i].mech == mech {
					preds = append(preds[:i], preds[i+1:]...)
					return
				}
			}
		}
		const exact = 300 * time.Millisecond
		const coarse = 1500 * time.Millisecond
		setPred(vfC36Pred{mech: "stale", lo: tNew + time.Duration(cs.Stale)*time.Second, hi: tNew + time.Duration(cs.Stale)*time.Second, code: DisconnectStale.Code, margin: exact})

		authenticated := false
		nonExpiringRefresh := false
		var authAt time.Duration
		expiring := false
		var expFire time.Duration // exact instant the expiry timer fires
		expiryMode := func() string {
			if !cs.CSR && cs.Handler {
				return "handler"
			}
			return "close"
		}
		armExpiry := func() {
			if !expiring {
				dropPred("expire")
				return
			}
			if expiryMode() == "close" {
				setPred(vfC36Pred{mech: "expire", lo: expFire, hi: expFire, code: DisconnectExpired.Code, margin: coarse})
			} else {
				dropPred("expire") // handler consulted at expFire; checked through invocations
			}
		}
		refreshIdx := 0
		var scheduleNextRefresh func()
		nearRefresh := 0
		doRefresh := func(r vfC36Refresh) {
			now := since()
			closedNow, _ := conn.T.Closed()
			if !authenticated || closedNow {
				return
			}
			if d := now - expFire; expiring && d > -coarse && d < coarse {
				nearRefresh++
			}
			newExp := floorS(now) + time.Duration(r.Ext)*time.Second
			switch r.Kind {
			case 0:
				mu.Lock()
				clientRefreshExt = r.Ext
				mu.Unlock()
				go conn.Cmd(&protocol.Command{Id: conn.NextID(), Refresh: &protocol.RefreshRequest{Token: "t"}})
				if r.Ext > 0 {
					expiring = true
					expFire = now + time.Duration(r.Ext)*time.Second + time.Duration(cs.D)*time.Second
					armExpiry()
				}
				out.label("refresh_client_command")
			case 1, 2:
				if r.Kind == 1 {
					go func() { _ = conn.Client.Refresh(WithRefreshExpireAt(946684800 + int64(newExp/time.Second))) }()
					out.label("refresh_client_api")
				} else {
					go func() { _ = w.node.Refresh("u", WithRefreshExpireAt(946684800+int64(newExp/time.Second))) }()
					out.label("refresh_node_api")
				}
				if r.Ext > 0 {
					expiring = true
					expFire = now + time.Duration(r.Ext)*time.Second + time.Duration(cs.D)*time.Second
					armExpiry()
				} else {
					// ExpireAt == now: ttl <= 0 => closed as expired right away
					setPred(vfC36Pred{mech: "refresh-expired", lo: now, hi: now, code: DisconnectExpired.Code, margin: exact})
				}
			case 3:
				go func() { _ = conn.Client.Refresh() }()
				if expiring {
					nonExpiringRefresh = true
				}
				expiring = false
				armExpiry()
				out.label("refresh_api_non_expiring")
			case 4:
				go func() { _ = conn.Client.Refresh(WithRefreshExpired(true)) }()
				setPred(vfC36Pred{mech: "refresh-expired", lo: now, hi: now, code: DisconnectExpired.Code, margin: exact})
				out.label("refresh_api_expired")
			}
		}
		scheduleNextRefresh = func() {
			if refreshIdx >= len(cs.Refreshes) || !expiring {
				return
			}
			r := cs.Refreshes[refreshIdx]
			refreshIdx++
			at := expFire + time.Duration(r.DeltaMs)*time.Millisecond
			if at <= since() {
				scheduleNextRefresh()
				return
			}
			schedule(at, func() {
				doRefresh(r)
				vfSettle()
				scheduleNextRefresh()
			})
		}

		// subscription model
		subscribed := false // model: a subscribe success was observed
		subEnded := false
		var subExp time.Duration // expireAt as duration since start (whole seconds)
		subExpiring := false
		subBoundary := func() time.Duration { return subExp + time.Duration(cs.Ds)*time.Second + time.Second }
		subRefreshIdx := 0
		nearSubRefresh := 0
		var scheduleNextSubRefresh func()
		scheduleNextSubRefresh = func() {
			if subRefreshIdx >= len(cs.SubRefreshes) || !subExpiring {
				return
			}
			r := cs.SubRefreshes[subRefreshIdx]
			subRefreshIdx++
			at := subBoundary() + time.Duration(r.DeltaMs)*time.Millisecond
			if at <= since() {
				scheduleNextSubRefresh()
				return
			}
			schedule(at, func() {
				closedNow, _ := conn.T.Closed()
				if closedNow || !subscribed || subEnded || !conn.Client.IsSubscribed(ch) {
					return
				}
				now := since()
				if d := now - subBoundary(); d > -coarse {
					nearSubRefresh++
				}
				mu.Lock()
				clientSubRefreshExt = r.Ext
				mu.Unlock()
				go conn.Cmd(&protocol.Command{Id: conn.NextID(), SubRefresh: &protocol.SubRefreshRequest{Channel: ch, Token: "t"}})
				subExp = floorS(now) + time.Duration(r.Ext)*time.Second
				out.label("sub_refresh_client_command")
				vfSettle()
				scheduleNextSubRefresh()
			})
		}

		var subCmdID uint32
		onAuthenticated := func(at time.Duration) {
			authenticated = true
			authAt = at
			dropPred("stale")
			if cs.ExpIn > 0 {
				expiring = true
				// exp = unix(authAt) + ExpIn; the timer is armed for exp - unix(now) whole seconds from now (+ grace for
				// client-side refresh)
				expFire = authAt + time.Duration(cs.ExpIn)*time.Second
				if cs.CSR {
					expFire += time.Duration(cs.D) * time.Second
				}
				armExpiry()
				scheduleNextRefresh()
			}
			if cs.Sub == 2 {
				subscribed = true
				if cs.SubExpIn > 0 {
					subExpiring = true
					subExp = floorS(authAt) + time.Duration(cs.SubExpIn)*time.Second
					if !cs.SubHandler {
						setPred(vfC36Pred{mech: "sub-expire(server-side)", lo: subBoundary(), hi: subBoundary() + time.Duration(cs.I)*time.Second, code: DisconnectSubExpired.Code, margin: coarse})
					}
				}
			}
			if cs.Sub == 1 {
				schedule(authAt+time.Duration(cs.SubAtMs)*time.Millisecond, func() {
					if closedNow, _ := conn.T.Closed(); closedNow {
						return
					}
					subCmdID = conn.NextID()
					now := since()
					conn.Cmd(&protocol.Command{Id: subCmdID, Subscribe: &protocol.SubscribeRequest{Channel: ch}})
					vfSettle()
					if conn.Client.IsSubscribed(ch) {
						subscribed = true
						if cs.SubExpIn > 0 {
							subExpiring = true
							subExp = floorS(now) + time.Duration(cs.SubExpIn)*time.Second
							scheduleNextSubRefresh()
						}
					}
				})
			}
		}
		detectAuth := func() {
			if authenticated {
				return
			}
			for _, f := range conn.Frames() {
				if f.Reply != nil && (f.Reply.Connect != nil || (f.Reply.Push != nil && f.Reply.Push.Connect != nil)) {
					onAuthenticated(f.At)
					return
				}
			}
		}
		if cs.ConnectMs >= 0 {
			schedule(tNew+time.Duration(cs.ConnectMs)*time.Millisecond, func() {
				if closedNow, _ := conn.T.Closed(); closedNow {
					return
				}
				go conn.Connect(nil)
			})
			// the connect completes when OnConnecting returns: feed the model at that very instant
			schedule(tNew+time.Duration(cs.ConnectMs+cs.HandlerMs)*time.Millisecond, func() { detectAuth() })
		}

		// ---- evaluation -------------------------------------------------------------------------------------------------
		seenPings, seenRefreshInv, seenSubInv := 0, 0, 0
		closedValidated := false
		closeCodeSeen := uint32(0)
		unsubSeen := false
		render := func() string {
			return fmt.Sprintf("events: %s; frames: %s", vfC36RenderEvents(w.Events()), vfC36RenderFrames(conn.Frames()))
		}
		stop := false
		const stuckKeyName = "C36:refresh-to-non-expiring-leaves-expire-timer-armed-then-all-timers-stop"
		knownStuck := func(ex string) bool {
			if isKnown(stuckKeyName) {
				if out.known == nil {
					out.known = map[string]string{}
				}
				out.known[stuckKeyName] = ex
				return true
			}
			return false
		}
		stuckKey := func() string {
			if nonExpiringRefresh {
				return "[" + stuckKeyName + "] "
			}
			return ""
		}
		evaluate := func() string {
			now := since()
			// 1. feed observations into the model
			detectAuth()
			mu.Lock()
			ps := append([]time.Duration(nil), pings...)
			rinv := append([]vfC36Invocation(nil), refreshInv...)
			sinv := append([]vfC36Invocation(nil), subRefreshInv...)
			mu.Unlock()
			for ; seenPings < len(ps); seenPings++ {
				if cs.Uni || effQ == 0 {
					continue
				}
				off := pongOffset(cs.Pongs[seenPings%len(cs.Pongs)])
				if off >= 0 && (off > Q-200*time.Millisecond || off == 0) {
					pongNear++
				}
				if off < 0 || off > Q {
					pongLate++
					setPred(vfC36Pred{mech: fmt.Sprintf("pong#%d", seenPings), lo: ps[seenPings] + Q, hi: ps[seenPings] + Q, code: DisconnectNoPong.Code, margin: exact})
				}
			}
			for ; seenRefreshInv < len(rinv); seenRefreshInv++ {
				inv := rinv[seenRefreshInv]
				if expiring && inv.at < expFire-coarse {
					return fmt.Sprintf("the server-side refresh handler was consulted at %s, more than 1.5 s before the connection's expiry (timer due at %s); %s", inv.at, expFire, render())
				}
				switch inv.ans.Kind {
				case 0:
					expiring = true
					expFire = inv.at + time.Duration(inv.ans.Ext)*time.Second
					armExpiry()
				case 1:
					setPred(vfC36Pred{mech: "handler-expired", lo: inv.at, hi: inv.at, code: DisconnectExpired.Code, margin: exact})
					expiring = false
				case 2:
					setPred(vfC36Pred{mech: "handler-error", lo: inv.at, hi: inv.at, code: DisconnectServerError.Code, margin: exact})
					expiring = false
				default:
					setPred(vfC36Pred{mech: "handler-error", lo: inv.at, hi: inv.at, code: vfC36CustomCode, margin: exact})
					expiring = false
				}
			}
			serverSideSub := cs.Sub == 2
			for ; seenSubInv < len(sinv); seenSubInv++ {
				inv := sinv[seenSubInv]
				if subExpiring && inv.at < subBoundary()-coarse-time.Second {
					return fmt.Sprintf("the server-side sub refresh handler was consulted at %s, before the subscription's expiry + grace (%s); %s", inv.at, subBoundary()-time.Second, render())
				}
				if inv.ans.Kind == 0 {
					subExp = floorS(inv.at) + time.Duration(inv.ans.Ext)*time.Second
				} else {
					subExpiring = false
					if serverSideSub {
						setPred(vfC36Pred{mech: "sub-handler-refused", lo: inv.at, hi: inv.at, code: DisconnectSubExpired.Code, margin: exact})
					} else {
						subEnded = true // expected now; verified below through the frames
					}
				}
			}

			// 2. connection state
			closed, disc := conn.T.Closed()
			if closed && !closedValidated {
				ta := now
				for _, f := range conn.Frames() {
					if f.Reply != nil && f.Reply.Push != nil && f.Reply.Push.Disconnect != nil {
						ta = f.At
					}
				}
				ok := false
				var want []string
				all := append([]vfC36Pred(nil), preds...)
				for _, p := range all {
					want = append(want, fmt.Sprintf("%s: code %d in [%s,%s]", p.mech, p.code, p.lo, p.hi))
					if p.code == disc.Code && ta >= p.lo-p.margin {
						ok = true
					}
				}
				if !ok {
					return fmt.Sprintf("connection closed with code %d (%s) at about %s; the model allows only {%s} (margins: 1.5 s for expiry, 0.3 s otherwise); %s",
						disc.Code, disc.Reason, ta, strings.Join(want, "; "), render())
				}
				closedValidated = true
				closeCodeSeen = disc.Code
				return ""
			}
			if !closed {
				for _, p := range preds {
					if now > p.hi+p.margin {
						if nonExpiringRefresh && knownStuck(fmt.Sprintf("connection still open at %s although %s required code %d by %s", now, p.mech, p.code, p.hi)) {
							stop = true
							return ""
						}
						return stuckKey() + fmt.Sprintf("connection still open at %s although %s required it to be closed with code %d by %s (+%s margin); %s", now, p.mech, p.code, p.hi, p.margin, render())
					}
				}
				if expiring && expiryMode() == "handler" && now > expFire+coarse && seenRefreshInv == len(rinv) {
					// handler should have been consulted at expFire
					consulted := false
					for _, inv := range rinv {
						if inv.at >= expFire-coarse {
							consulted = true
						}
					}
					if !consulted {
						if nonExpiringRefresh && knownStuck(fmt.Sprintf("connection past its expiry at %s: handler not consulted, not closed", now)) {
							stop = true
							return ""
						}
						return stuckKey() + fmt.Sprintf("connection past its expiry at %s (timer due %s): neither closed nor was the refresh handler consulted; %s", now, expFire, render())
					}
				}

				if subscribed && serverSideSub && subExpiring && cs.SubHandler && now > subBoundary()+time.Duration(cs.I)*time.Second+coarse {
					consulted := false
					for _, inv := range sinv {
						if inv.at >= subBoundary()-coarse-time.Second {
							consulted = true
						}
					}
					if !consulted {
						if nonExpiringRefresh && knownStuck(fmt.Sprintf("server-side subscription past expiry + grace at %s: handler not consulted, not disconnected", now)) {
							stop = true
							return ""
						}
						return stuckKey() + fmt.Sprintf("server-side subscription past expiry + grace at %s (boundary %s): neither disconnected nor was the sub refresh handler consulted; %s", now, subBoundary(), render())
					}
				}
			}

			// 3. subscription state (client-side subscription only; a server-side one ends with a disconnect, see above)
			if subscribed && !serverSideSub && !closed {
				isSub := conn.Client.IsSubscribed(ch)
				var unsubAt time.Duration
				var unsubCode uint32
				hasUnsub := false
				for _, f := range conn.Frames() {
					if f.Reply != nil && f.Reply.Push != nil && f.Reply.Push.Unsubscribe != nil && f.Reply.Push.Channel == ch {
						hasUnsub, unsubAt, unsubCode = true, f.At, f.Reply.Push.Unsubscribe.Code
					}
				}
				if !isSub || hasUnsub {
					if !unsubSeen {
						unsubSeen = true
						if !hasUnsub {
							return fmt.Sprintf("subscription ended at about %s without an unsubscribe push; %s", now, render())
						}
						if unsubCode != UnsubscribeCodeExpired {
							return fmt.Sprintf("subscription ended with unsubscribe code %d, expected %d (expired); %s", unsubCode, UnsubscribeCodeExpired, render())
						}
						if subEnded {
							// refused by the server-side handler: fine
						} else if !subExpiring {
							return fmt.Sprintf("a subscription without expiry was unsubscribed as expired at %s; %s", unsubAt, render())
						} else if unsubAt < subBoundary()-coarse {
							return fmt.Sprintf("subscription unsubscribed as expired at %s, but its expiry + grace boundary is %s (expireAt %s + %ds grace): more than 1.5 s early; %s",
								unsubAt, subBoundary()-time.Second, subExp, cs.Ds, render())
						}
						out.label("subscription_expired_unsubscribe")
					}
				} else if !unsubSeen {
					if subEnded && now > vfC36SinvLast(sinv)+exact {
						return fmt.Sprintf("the sub refresh handler refused the refresh, but the subscription is still active at %s; %s", now, render())
					}
					hi := subBoundary() + time.Duration(cs.I)*time.Second
					handlerMode := !cs.SubCSR && cs.SubHandler
					if subExpiring && now > hi+coarse {
						if !handlerMode {
							if nonExpiringRefresh && knownStuck(fmt.Sprintf("subscription still active at %s, expired at %s (+%ds grace)", now, subExp, cs.Ds)) {
								stop = true
								return ""
							}
							return stuckKey() + fmt.Sprintf("subscription still active at %s although it expired at %s (+%ds grace, presence interval %ds): must have been unsubscribed by %s; %s",
								now, subExp, cs.Ds, cs.I, hi, render())
						}
						consulted := false
						for _, inv := range sinv {
							if inv.at >= subBoundary()-coarse-time.Second {
								consulted = true
							}
						}
						if !consulted {
							if nonExpiringRefresh && knownStuck(fmt.Sprintf("subscription past expiry + grace at %s: handler not consulted", now)) {
								stop = true
								return ""
							}
							return stuckKey() + fmt.Sprintf("subscription past expiry + grace at %s (boundary %s): neither unsubscribed nor was the sub refresh handler consulted; %s", now, subBoundary(), render())
						}
					}
				}
			}
			return ""
		}

		// checkpoints on a 0.5 s grid, shifted off the 50 ms grid every action and deadline lives on
		horizon := time.Duration(cs.HorizonS) * time.Second
		for g := 137 * time.Millisecond; g < horizon; g += 500 * time.Millisecond {
			schedule(g, nil)
		}
		for len(agenda) > 0 {
			sort.SliceStable(agenda, func(i, j int) bool {
				if agenda[i].at != agenda[j].at {
					return agenda[i].at < agenda[j].at
				}
				return agenda[i].id < agenda[j].id
			})
			it := agenda[0]
			agenda = agenda[1:]
			if it.at > horizon {
				break
			}
			if d := it.at - since(); d > 0 {
				time.Sleep(d)
			}
			vfSettle()
			if it.fn != nil {
				it.fn()
				vfSettle()
				continue
			}
			if msg := evaluate(); msg != "" {
				return msg
			}
			if closedValidated || stop {
				break
			}
		}

		// ---- labels ----------------------------------------------------------------------------------------------------
		if closedValidated {
			out.label(fmt.Sprintf("closed_%d", closeCodeSeen))
		} else {
			out.label("alive_at_horizon")
		}
		if authenticated {
			out.label("authenticated")
		}
		if len(pings) > 0 {
			out.label("server_pings_seen")
		}
		if pongNear > 0 {
			out.label("pong_near_deadline_or_same_instant")
		}
		if pongLate > 0 {
			out.label("pong_late_or_missing")
		}
		if nearRefresh > 0 {
			out.label("refresh_within_1.5s_of_expiry_timer")
		}
		if nearSubRefresh > 0 {
			out.label("sub_refresh_within_1.5s_of_boundary")
		}
		if len(refreshInv) > 0 {
			out.label("server_refresh_handler_consulted")
		}
		if len(subRefreshInv) > 0 {
			out.label("server_sub_refresh_handler_consulted")
		}
		if subscribed {
			out.label("subscribed")
		}
		staleEdge := cs.ConnectMs >= 0 && (cs.ConnectMs+cs.HandlerMs) > cs.Stale*1000-1500 && (cs.ConnectMs+cs.HandlerMs) < cs.Stale*1000+1500
		if staleEdge {
			out.label("connect_completes_within_1.5s_of_stale_deadline")
		}
		out.nontrivial = pongNear > 0 || pongLate > 0 || nearRefresh > 0 || nearSubRefresh > 0 || staleEdge || len(refreshInv) > 0 || len(subRefreshInv) > 0
		return ""
	})
}

func vfC36SinvLast(s []vfC36Invocation) time.Duration {
	if len(s) == 0 {
		return 0
	}
	return s[len(s)-1].at
}

func vfC36RenderEvents(events []vfEvent) string {
	var parts []string
	for _, e := range events {
		s := fmt.Sprintf("%s %s", e.At, e.Kind)
		if e.Ch != "" {
			s += "[" + e.Ch + "]"
		}
		if e.Detail != "" {
			s += "(" + e.Detail + ")"
		}
		parts = append(parts, s)
	}
	return strings.Join(parts, " | ")
}

func vfC36RenderFrames(fs []vfFrame) string {
	parts := make([]string, 0, len(fs))
	for _, f := range fs {
		if f.Err != nil {
			parts = append(parts, "<undecodable>")
			continue
		}
		parts = append(parts, fmt.Sprintf("%s %s", f.At, vfRenderReply(f.Reply)))
	}
	return strings.Join(parts, " | ")
}

func TestVF_C36(t *testing.T) {
	vfCheck(t, "C36", func(rt *rapid.T, c *vfCase) string {
		cs := vfC36Gen(rt)
		c.Describe(cs.String())
		out := &vfC36Out{}
		msg := vfC36Run(t, cs, out, c.IsKnown)
		seen := map[string]bool{}
		for _, l := range out.labels {
			if !seen[l] {
				seen[l] = true
				c.Label(l)
			}
		}
		keys := make([]string, 0, len(out.known))
		for k := range out.known {
			keys = append(keys, k)
		}
		sort.Strings(keys)
		for _, k := range keys {
			c.Known(k, out.known[k])
		}
		if out.nontrivial {
			c.Nontrivial(c.desc)
		}
		return msg
	})
}
