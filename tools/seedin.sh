#!/bin/bash
# usage: tools/seedin.sh Cxx [n]  — take the deliverables of seeder worktree /tmp/seed-Cxx into /verif/seeded/S-Cxx-n,
# remove the worktree, and confirm + run the check with tools/seedcheck.sh
set -u
p=$1; n=${2:-1}; sid=S-$p-$n; d=/verif/seeded/$sid; src=/tmp/seed${R:-}-$p/SEED
mkdir -p $d
cp $src/patch.diff $src/meta.json $d/ || exit 3
demo=$(ls $src/*.go.txt 2>/dev/null | head -1)
[ -z "$demo" ] && demo=$(ls $src/*_test.go 2>/dev/null | head -1)
cp "$demo" $d/zz_seed_demo_test.go
# find where the live demo test lives in the worktree (package dir) and the test names
live=$(cd /tmp/seed${R:-}-$p && git status --porcelain | grep '_test.go' | awk '{print $2}' | grep -v '^SEED/' | head -1)
pkg=$(dirname "${live:-./x}")
python3 - "$d" "$pkg" <<'PY'
import json,re,sys
d,pkg=sys.argv[1:3]
src=open(d+'/zz_seed_demo_test.go').read()
names=re.findall(r'^func (Test\w+)\(', src, re.M)
m=json.load(open(d+'/meta.json'))
m.update({'demo_file':'zz_seed_demo_test.go','demo_pkg':pkg if pkg not in ('','.') else '.','demo_run':'^('+'|'.join(names)+')$','origin':'fresh sub-agent given only the property text and a scratch worktree'})
json.dump(m,open(d+'/meta.json','w'),indent=1)
print('demo tests:',names,'pkg:',pkg)
PY
git -C /repo worktree remove --force /tmp/seed${R:-}-$p
/verif/tools/seedcheck.sh $sid $p 2>&1 | tail -5 | cut -c1-400
