package PKGNAME

// C40 — Deferred jobs run until they succeed.
//
// The whole case (worker count, jobs with failure counts and per-run virtual durations, who submits what after
// which delay, when Close happens, what is submitted after Close) is drawn first, then executed inside a
// testing/synctest bubble against a real Dissolver. Every Submit call, job start/end and the Close call are
// appended to one totally ordered event log (a mutex-protected sequence counter); the verdict is computed from
// that log after the bubble finished.
//
// What Close guarantees (read from dissolve.go/queue.go): it marks the queue closed, discards queued jobs and
// wakes idle workers; it does not wait for workers. A worker that dequeued a job before Close took effect still
// runs it (at most one such job per worker), a failing run after Close is dropped (Add on a closed queue is a
// no-op). There is no retry delay: a failed job is re-added right away (after runtime.Gosched).
//
// Oracle:
//   O1 a run of job j never starts after j succeeded; j succeeds at most once; runs(j) <= failures(j)+1.
//   O2 while the queue stays open ("late close" cases): after the virtual clock advanced far beyond the total
//      work and the bubble is quiescent, every job whose Submit was accepted ran exactly failures+1 times and
//      succeeded exactly once; the same again for a second wave submitted after the workers went idle.
//   O3 Submit that began after Close returned must return an error; Submit that ended before Close was called
//      must return nil; a job whose Submit returned an error never runs.
//   O4 no job starts after Close returned and the bubble became quiescent; the number of job starts after Close
//      returned is at most the worker count (jobs already dequeued).

import (
	"errors"
	"fmt"
	"runtime"
	"runtime/debug"
	"strings"
	"sync"
	"sync/atomic"
	"testing"
	"testing/synctest"
	"time"

	"pgregory.net/rapid"
)

type vfC40Job struct {
	Fail  int   // failing runs before the successful one
	Dur   []int // virtual duration of run k (µs); len == Fail+1
	Phase int   // 0 before Run, 1 by a submitter goroutine, 2 second wave (late close only), 3 after Close
	Sub   int   // submitter index (phase 1)
	Delay int   // µs the submitter sleeps before this Submit
}

type vfC40Script struct {
	Workers int
	NSub    int
	Jobs    []vfC40Job
	Late    bool // Close only after everything completed (O2 applies)
	CloseAt int  // µs after Run (mid close by time)
	// mid close by event (TrigJob >= 0): Close is called as soon as the trigger fires, concurrently with whatever
	// the workers/submitters do at that instant. TrigKind 0: run TrigRun of the job starts; 1: that run is about to
	// return; 2: Submit of the job is about to be called.
	TrigJob  int
	TrigKind int
	TrigRun  int
	YieldA   int // runtime.Gosched calls by the goroutine that fired the trigger, before it continues
	YieldB   int // runtime.Gosched calls by the closing goroutine between waking up and calling Close
}

func (s *vfC40Script) String() string {
	var sb strings.Builder
	fmt.Fprintf(&sb, "workers=%d submitters=%d ", s.Workers, s.NSub)
	switch {
	case s.Late:
		sb.WriteString("close=late")
	case s.TrigJob >= 0:
		fmt.Fprintf(&sb, "close-on(%s j%d run%d yields %d/%d)", []string{"start", "end", "submit"}[s.TrigKind], s.TrigJob, s.TrigRun, s.YieldA, s.YieldB)
	default:
		fmt.Fprintf(&sb, "close@%dus", s.CloseAt)
	}
	for i, j := range s.Jobs {
		fmt.Fprintf(&sb, " | j%d ", i)
		switch j.Phase {
		case 0:
			sb.WriteString("pre-run")
		case 1:
			fmt.Fprintf(&sb, "sub%d+%dus", j.Sub, j.Delay)
		case 2:
			sb.WriteString("wave2")
		case 3:
			sb.WriteString("post-close")
		}
		fmt.Fprintf(&sb, " fail=%d dur=%v", j.Fail, j.Dur)
	}
	return sb.String()
}

func vfC40Draw(rt *rapid.T) *vfC40Script {
	s := &vfC40Script{}
	s.Workers = rapid.SampledFrom([]int{1, 1, 2, 2, 2, 3, 4, 5, 8}).Draw(rt, "workers")
	s.NSub = rapid.IntRange(1, 4).Draw(rt, "submitters")
	s.Late = rapid.IntRange(0, 1).Draw(rt, "late") == 0
	s.CloseAt = rapid.SampledFrom([]int{0, 0, 1, 2, 5, 9, 10, 11, 50, 100, 1000, 1001, 5000, 20000, 60000}).Draw(rt, "closeAt")
	n := rapid.IntRange(1, 14).Draw(rt, "njobs")
	durs := []int{0, 0, 0, 1, 1, 5, 10, 10, 100, 1000, 20000}
	delays := []int{0, 0, 0, 1, 2, 5, 10, 100, 1000, 5000}
	for i := 0; i < n; i++ {
		var j vfC40Job
		j.Fail = rapid.SampledFrom([]int{0, 0, 0, 1, 1, 2, 3, 5}).Draw(rt, "fail")
		for k := 0; k <= j.Fail; k++ {
			j.Dur = append(j.Dur, rapid.SampledFrom(durs).Draw(rt, "dur"))
		}
		j.Phase = rapid.SampledFrom([]int{0, 1, 1, 1, 1, 1, 2, 3}).Draw(rt, "phase")
		if j.Phase == 1 {
			j.Sub = rapid.IntRange(0, s.NSub-1).Draw(rt, "sub")
			j.Delay = rapid.SampledFrom(delays).Draw(rt, "delay")
		}
		s.Jobs = append(s.Jobs, j)
	}
	s.TrigJob = -1
	if !s.Late && rapid.IntRange(0, 2).Draw(rt, "byEvent") > 0 {
		var cands []int
		for i, j := range s.Jobs {
			if j.Phase <= 1 {
				cands = append(cands, i)
			}
		}
		if len(cands) > 0 {
			s.TrigJob = rapid.SampledFrom(cands).Draw(rt, "trigJob")
			s.TrigKind = rapid.IntRange(0, 2).Draw(rt, "trigKind")
			s.TrigRun = rapid.IntRange(1, s.Jobs[s.TrigJob].Fail+1).Draw(rt, "trigRun")
			s.YieldA = rapid.IntRange(0, 4).Draw(rt, "yieldA")
			s.YieldB = rapid.IntRange(0, 4).Draw(rt, "yieldB")
		}
	}
	return s
}

const (
	vfC40EvSubmitBegin = iota
	vfC40EvSubmitEnd
	vfC40EvStart
	vfC40EvEnd
	vfC40EvCloseCalled
	vfC40EvCloseReturned
	vfC40EvSettled
	vfC40EvCheckpoint
)

type vfC40Event struct {
	Kind int
	Job  int
	Err  bool // SubmitEnd: Submit returned an error; End: the run failed
	Run  int
}

type vfC40JobState struct {
	runs      int
	successes int
	running   int
}

type vfC40World struct {
	mu     sync.Mutex
	events []vfC40Event
	jobs   []vfC40JobState
	bad    string // first O1 violation observed inside a job
	trig   chan struct{}
	trigMu sync.Once
}

func (w *vfC40World) fire(yields int) {
	w.trigMu.Do(func() {
		close(w.trig)
		for i := 0; i < yields; i++ {
			runtime.Gosched()
		}
	})
}

// guard runs f; a panic inside library code is recorded as a violation instead of killing the process (a panic on a
// goroutine started by the library cannot be recovered, which is why the harness normally starts the workers itself,
// see startWorkers). If the panicking frame was inside the queue implementation it held the queue mutex (every queue
// method runs under q.mu without defer): release it so that the remaining goroutines can leave the bubble.
func (w *vfC40World) guard(d *Dissolver, what string, f func()) (panicked bool) {
	defer func() {
		if r := recover(); r != nil {
			panicked = true
			stack := string(debug.Stack())
			w.mu.Lock()
			if w.bad == "" {
				w.bad = fmt.Sprintf("%s panicked: %v\n%s", what, r, vfTrunc(stack, 1800))
			}
			w.mu.Unlock()
			if strings.Contains(stack, "(*queueImpl).") {
				if q, ok := d.queue.(*queueImpl); ok {
					if q.mu.TryLock() {
						q.mu.Unlock()
					} else {
						q.mu.Unlock()
					}
				}
			}
		}
	}()
	f()
	return false
}

// startWorkers does what Dissolver.Run does (numWorkers goroutines executing runWorker), under guard.
// Dissolver.Run itself is exercised by TestVF_C40_Run.
func (w *vfC40World) startWorkers(d *Dissolver, s *vfC40Script, wg *sync.WaitGroup) {
	for i := 0; i < d.numWorkers; i++ {
		wg.Add(1)
		go func(i int) {
			defer wg.Done()
			w.guard(d, fmt.Sprintf("worker %d (runWorker)", i), d.runWorker)
		}(i)
	}
}

func (w *vfC40World) add(e vfC40Event) {
	w.mu.Lock()
	w.events = append(w.events, e)
	w.mu.Unlock()
}

func (w *vfC40World) jobFn(s *vfC40Script, j int) Job {
	spec := s.Jobs[j]
	return func() error {
		w.mu.Lock()
		st := &w.jobs[j]
		st.runs++
		k := st.runs
		if st.successes > 0 && w.bad == "" {
			w.bad = fmt.Sprintf("job j%d was run again (run #%d) after it had returned success", j, k)
		}
		if st.running > 0 && w.bad == "" {
			w.bad = fmt.Sprintf("job j%d run #%d started while its previous run had not returned (it cannot be known to have failed)", j, k)
		}
		st.running++
		w.events = append(w.events, vfC40Event{Kind: vfC40EvStart, Job: j, Run: k})
		w.mu.Unlock()
		if s.TrigJob == j && s.TrigKind == 0 && s.TrigRun == k {
			w.fire(s.YieldA)
		}

		d := spec.Dur[len(spec.Dur)-1]
		if k-1 < len(spec.Dur) {
			d = spec.Dur[k-1]
		}
		if k > spec.Fail+1 {
			// a run that must not exist (already recorded as a violation): make it take virtual time so that a
			// library that keeps re-running the job cannot livelock the bubble at one virtual instant
			d = 600_000_000
		}
		if d > 0 {
			time.Sleep(time.Duration(d) * time.Microsecond)
		}
		fail := k <= spec.Fail
		if s.TrigJob == j && s.TrigKind == 1 && s.TrigRun == k {
			w.fire(s.YieldA)
		}

		w.mu.Lock()
		st.running--
		if !fail {
			st.successes++
		}
		w.events = append(w.events, vfC40Event{Kind: vfC40EvEnd, Job: j, Run: k, Err: fail})
		w.mu.Unlock()
		if fail {
			return errors.New("vf: drawn failure")
		}
		return nil
	}
}

// vfC40Complete checks O2 for the given phases at a quiescent point while the queue is open.
func (w *vfC40World) vfC40Complete(s *vfC40Script, phases map[int]bool, when string) string {
	w.mu.Lock()
	defer w.mu.Unlock()
	for j, spec := range s.Jobs {
		if !phases[spec.Phase] {
			continue
		}
		st := w.jobs[j]
		if st.runs != spec.Fail+1 || st.successes != 1 || st.running != 0 {
			return fmt.Sprintf("%s (queue open, virtual hour elapsed, all goroutines idle): job j%d with %d drawn failures ran %d times, succeeded %d times, %d runs in progress; expected %d runs and 1 success",
				when, j, spec.Fail, st.runs, st.successes, st.running, spec.Fail+1)
		}
	}
	return ""
}

func vfC40Run(s *vfC40Script) (w *vfC40World, verdict string) {
	w = &vfC40World{jobs: make([]vfC40JobState, len(s.Jobs)), trig: make(chan struct{})}
	d := New(s.Workers)
	submit := func(j int) {
		w.add(vfC40Event{Kind: vfC40EvSubmitBegin, Job: j})
		if s.TrigJob == j && s.TrigKind == 2 {
			w.fire(s.YieldA)
		}
		var err error
		if w.guard(d, fmt.Sprintf("Submit(j%d)", j), func() { err = d.Submit(w.jobFn(s, j)) }) {
			err = errors.New("panicked")
		}
		w.add(vfC40Event{Kind: vfC40EvSubmitEnd, Job: j, Err: err != nil})
	}
	for j, spec := range s.Jobs {
		if spec.Phase == 0 {
			submit(j)
		}
	}
	var wg sync.WaitGroup
	w.startWorkers(d, s, &wg)
	for sub := 0; sub < s.NSub; sub++ {
		wg.Add(1)
		go func(sub int) {
			defer wg.Done()
			for j, spec := range s.Jobs {
				if spec.Phase == 1 && spec.Sub == sub {
					if spec.Delay > 0 {
						time.Sleep(time.Duration(spec.Delay) * time.Microsecond)
					}
					submit(j)
				}
			}
		}(sub)
	}
	if s.Late {
		time.Sleep(time.Hour)
		synctest.Wait()
		w.add(vfC40Event{Kind: vfC40EvCheckpoint})
		verdict = w.vfC40Complete(s, map[int]bool{0: true, 1: true}, "first checkpoint")
		// second wave: workers have been idle (blocked in Wait) for a long time
		for j, spec := range s.Jobs {
			if spec.Phase == 2 {
				submit(j)
			}
		}
		time.Sleep(time.Hour)
		synctest.Wait()
		w.add(vfC40Event{Kind: vfC40EvCheckpoint})
		if verdict == "" {
			verdict = w.vfC40Complete(s, map[int]bool{0: true, 1: true, 2: true}, "second checkpoint")
		}
	} else if s.TrigJob >= 0 {
		select {
		case <-w.trig:
			for i := 0; i < s.YieldB; i++ {
				runtime.Gosched()
			}
		case <-time.After(time.Hour): // trigger unreachable (cannot happen while the queue works): close anyway
		}
	} else if s.CloseAt > 0 {
		time.Sleep(time.Duration(s.CloseAt) * time.Microsecond)
	}
	w.add(vfC40Event{Kind: vfC40EvCloseCalled})
	w.guard(d, "Close", func() { _ = d.Close() })
	w.add(vfC40Event{Kind: vfC40EvCloseReturned})
	synctest.Wait()
	w.add(vfC40Event{Kind: vfC40EvSettled})
	for j, spec := range s.Jobs {
		if spec.Phase == 3 || (spec.Phase == 2 && !s.Late) {
			submit(j)
		}
	}
	// let runs that were in progress at Close finish and let remaining submitters hit the closed queue
	time.Sleep(time.Hour)
	synctest.Wait()
	wg.Wait()
	// a second Close must be harmless for the accounting (nothing may start)
	w.guard(d, "second Close", func() { _ = d.Close() })
	time.Sleep(time.Second)
	synctest.Wait()
	return w, verdict
}

type vfC40Summary struct {
	startsAfterClose   int
	overlapSubmits     int
	lateSubmitterJobs  int
	discarded          int
	postCloseSubmits   int
	totalRuns          int
	inFlightAtSettle   int
	failingJobs        int
	acceptedBeforeStop int
}

func vfC40Judge(s *vfC40Script, w *vfC40World) (string, vfC40Summary) {
	var sum vfC40Summary
	w.mu.Lock()
	defer w.mu.Unlock()
	if w.bad != "" {
		return w.bad, sum
	}
	n := len(s.Jobs)
	subBegin := make([]int, n)
	subEnd := make([]int, n)
	subErr := make([]bool, n)
	for i := range subBegin {
		subBegin[i], subEnd[i] = -1, -1
	}
	closeCalled, closeReturned, settled := -1, -1, -1
	for seq, e := range w.events {
		switch e.Kind {
		case vfC40EvSubmitBegin:
			subBegin[e.Job] = seq
		case vfC40EvSubmitEnd:
			subEnd[e.Job] = seq
			subErr[e.Job] = e.Err
		case vfC40EvCloseCalled:
			if closeCalled < 0 {
				closeCalled = seq
			}
		case vfC40EvCloseReturned:
			if closeReturned < 0 {
				closeReturned = seq
			}
		case vfC40EvSettled:
			if settled < 0 {
				settled = seq
			}
		}
	}
	if closeCalled < 0 || closeReturned < 0 || settled < 0 {
		return "harness bug: close events missing", sum
	}
	running := 0
	for seq, e := range w.events {
		switch e.Kind {
		case vfC40EvStart:
			running++
			sum.totalRuns++
			if subEnd[e.Job] >= 0 && subErr[e.Job] {
				return fmt.Sprintf("job j%d ran although its Submit returned an error", e.Job), sum
			}
			if seq > settled {
				return fmt.Sprintf("job j%d run #%d started after Close had returned and all goroutines were idle", e.Job, e.Run), sum
			}
			if seq > closeReturned {
				sum.startsAfterClose++
			}
		case vfC40EvEnd:
			running--
		case vfC40EvSettled:
			if seq == settled {
				sum.inFlightAtSettle = running
			}
		}
	}
	if sum.startsAfterClose > s.Workers {
		return fmt.Sprintf("%d job runs started after Close returned, more than the %d workers could have dequeued before", sum.startsAfterClose, s.Workers), sum
	}
	for j, spec := range s.Jobs {
		if spec.Fail > 0 {
			sum.failingJobs++
		}
		if subBegin[j] < 0 || subEnd[j] < 0 {
			return fmt.Sprintf("harness bug: job j%d never submitted", j), sum
		}
		st := w.jobs[j]
		switch {
		case subBegin[j] > closeReturned:
			sum.postCloseSubmits++
			if spec.Phase == 1 {
				sum.lateSubmitterJobs++
			}
			if !subErr[j] {
				return fmt.Sprintf("Submit of job j%d began after Close had returned but reported success", j), sum
			}
		case subEnd[j] < closeCalled:
			sum.acceptedBeforeStop++
			if subErr[j] {
				return fmt.Sprintf("Submit of job j%d returned an error although Close had not been called yet", j), sum
			}
		default:
			sum.overlapSubmits++
		}
		if subErr[j] && st.runs != 0 {
			return fmt.Sprintf("job j%d ran %d times although its Submit returned an error", j, st.runs), sum
		}
		if st.successes > 1 {
			return fmt.Sprintf("job j%d succeeded %d times", j, st.successes), sum
		}
		if st.runs > spec.Fail+1 {
			return fmt.Sprintf("job j%d with %d drawn failures ran %d times", j, spec.Fail, st.runs), sum
		}
		if st.running != 0 {
			return fmt.Sprintf("job j%d still has a run in progress a virtual hour after Close (durations are below 1s)", j), sum
		}
		if !subErr[j] && st.successes == 0 {
			sum.discarded++
		}
	}
	return "", sum
}

// vfC40Bubble is vfBubble without the two GC cycles: internal/dissolve uses no pooled timers.
func vfC40Bubble(t *testing.T, f func() string) (out string) {
	synctest.Test(t, func(st *testing.T) {
		defer func() {
			if r := recover(); r != nil {
				out = fmt.Sprintf("PANIC: %v\n%s", r, debug.Stack())
			}
		}()
		out = f()
	})
	return out
}

func TestVF_C40(t *testing.T) {
	vfCheck(t, "C40", func(rt *rapid.T, c *vfCase) string {
		s := vfC40Draw(rt)
		c.Describe(s.String())
		var w *vfC40World
		var openVerdict string
		out := vfC40Bubble(t, func() string {
			w, openVerdict = vfC40Run(s)
			return ""
		})
		if out != "" {
			return out
		}
		if w == nil {
			return "harness bug: no world"
		}
		verdict, sum := vfC40Judge(s, w)
		if verdict == "" {
			verdict = openVerdict
		}
		if sum.failingJobs > 0 && s.Workers >= 2 {
			c.Nontrivial(c.desc)
		}
		switch {
		case s.Late:
			c.Label("close_late_all_jobs_must_complete")
		case s.TrigJob >= 0:
			c.Label("close_mid_on_event")
		default:
			c.Label("close_mid_at_time")
		}
		switch {
		case s.Workers == 1:
			c.Label("workers=1")
		case s.Workers <= 4:
			c.Label("workers=2-4")
		default:
			c.Label("workers=5-8")
		}
		if sum.failingJobs > 0 {
			c.Label("has_failing_job")
		}
		c.Label("workers_started_by_harness_copy_of_Run")
		if sum.startsAfterClose > 0 {
			c.Label("run_started_between_close_return_and_idle")
		}
		if sum.inFlightAtSettle > 0 {
			c.Label("run_in_progress_when_closed")
		}
		if sum.overlapSubmits > 0 {
			c.Label("submit_overlapping_close")
		}
		if sum.postCloseSubmits > 0 {
			c.Label("submit_after_close")
		}
		if sum.lateSubmitterJobs > 0 {
			c.Label("submitter_goroutine_hit_closed_queue")
		}
		if sum.discarded > 0 {
			c.Label("accepted_job_discarded_by_close")
		}
		c.Extra("job_runs", sum.totalRuns)
		c.Extra("jobs", len(s.Jobs))
		if verdict != "" {
			vfC40Failed.Store(true)
		}
		return verdict
	})
}

var vfC40Failed atomic.Bool

// TestVF_C40_Run: the same property through Dissolver.Run (workers are library goroutines, a panic there would kill
// the process, hence skipped when TestVF_C40 already found a violation). m jobs queued before Run, each run takes
// 1ms of virtual time: at the first quiescent point at least one run must be in progress, and after a
// virtual hour every job ran failures+1 times and succeeded once; after Close nothing starts.
func TestVF_C40_Run(t *testing.T) {
	if vfC40Failed.Load() {
		t.Skip("TestVF_C40 reported a violation")
	}
	vfCheck(t, "C40", func(rt *rapid.T, c *vfCase) string {
		s := &vfC40Script{TrigJob: -1, Late: true}
		s.Workers = rapid.IntRange(1, 8).Draw(rt, "workers")
		m := rapid.IntRange(1, 12).Draw(rt, "jobs")
		for i := 0; i < m; i++ {
			f := rapid.SampledFrom([]int{0, 0, 1, 2}).Draw(rt, "fail")
			j := vfC40Job{Fail: f, Phase: 0}
			for k := 0; k <= f; k++ {
				j.Dur = append(j.Dur, 1000)
			}
			s.Jobs = append(s.Jobs, j)
		}
		c.Describe("Run(): " + s.String())
		c.Label("workers_started_by_Run")
		if s.Workers >= 2 {
			for _, j := range s.Jobs {
				if j.Fail > 0 {
					c.Nontrivial(c.desc)
					break
				}
			}
		}
		return vfC40Bubble(t, func() string {
			w := &vfC40World{jobs: make([]vfC40JobState, len(s.Jobs)), trig: make(chan struct{})}
			d := New(s.Workers)
			for j := range s.Jobs {
				if err := d.Submit(w.jobFn(s, j)); err != nil {
					return fmt.Sprintf("Submit(j%d) on an open queue failed: %v", j, err)
				}
			}
			if err := d.Run(); err != nil {
				return fmt.Sprintf("Run failed: %v", err)
			}
			synctest.Wait()
			w.mu.Lock()
			inProgress := 0
			for _, st := range w.jobs {
				inProgress += st.running
			}
			w.mu.Unlock()
			verdict := ""
			// (the worker count itself is not part of the statement: only progress is required here)
			if inProgress < 1 {
				verdict = fmt.Sprintf("%d workers, %d queued jobs of 1ms: no run in progress at the first idle point after Run", s.Workers, m)
			}
			time.Sleep(time.Hour)
			synctest.Wait()
			if verdict == "" {
				verdict = w.vfC40Complete(s, map[int]bool{0: true}, "checkpoint")
			}
			_ = d.Close()
			synctest.Wait()
			w.mu.Lock()
			before := len(w.events)
			w.mu.Unlock()
			if err := d.Submit(w.jobFn(s, 0)); err == nil && verdict == "" {
				verdict = "Submit after Close reported success"
			}
			time.Sleep(time.Hour)
			synctest.Wait()
			w.mu.Lock()
			if verdict == "" && w.bad != "" {
				verdict = w.bad
			}
			if verdict == "" && len(w.events) != before {
				verdict = "a job ran after Close"
			}
			w.mu.Unlock()
			return verdict
		})
	})
}

// TestVF_C40_Wakeup — the liveness half of "while open": a job accepted by an open Dissolver is executed even when
// its Submit lands exactly while the last busy worker is going back to sleep (the classic lost-wakeup window
// between "queue is empty" and parking on the condition variable). One case = one Dissolver with 1-2 workers and a
// drawn number of one-at-a-time submissions; the job reports, then spins a drawn amount before returning, and the
// submitter spins a drawn amount before the next Submit, so the two sides cross each other in every phase (the
// spin counts sweep 0..pa-1 x 0..pb-1 with drawn pa, pb). The oracle needs no wall clock: inside the bubble the
// one-second timer can only fire when every goroutine is durably blocked, i.e. the job sits in the queue while all
// workers are parked.
func TestVF_C40_Wakeup(t *testing.T) {
	if vfC40Failed.Load() {
		t.Skip("TestVF_C40 reported a violation")
	}
	vfCheck(t, "C40", func(rt *rapid.T, c *vfCase) string {
		workers := rapid.SampledFrom([]int{1, 1, 1, 2}).Draw(rt, "workers")
		n := rapid.IntRange(200, 600).Draw(rt, "submissions")
		pa := rapid.IntRange(1, 97).Draw(rt, "spinAfterMod")
		pb := rapid.IntRange(1, 97).Draw(rt, "spinBeforeMod")
		oa := rapid.IntRange(0, 96).Draw(rt, "spinAfterOff")
		ob := rapid.IntRange(0, 96).Draw(rt, "spinBeforeOff")
		fail := rapid.SampledFrom([]int{0, 0, 0, 1}).Draw(rt, "failFirstRun")
		c.Describe(fmt.Sprintf("wakeup: workers=%d submissions=%d spinAfter=(i+%d)%%%d spinBefore=(i/%d+%d)%%%d failFirstRun=%d", workers, n, oa, pa, pa, ob, pb, fail))
		c.Label("one_at_a_time_submissions_racing_worker_parking")
		c.Nontrivial(c.desc)
		return vfC40Bubble(t, func() string {
			d := New(workers)
			if err := d.Run(); err != nil {
				return fmt.Sprintf("Run failed: %v", err)
			}
			defer func() { _ = d.Close() }()
			var sink atomic.Int64
			spin := func(k int) {
				for ; k > 0; k-- {
					sink.Add(1)
				}
			}
			timer := time.NewTimer(time.Hour)
			defer timer.Stop()
			for i := 0; i < n; i++ {
				done := make(chan struct{})
				var runs atomic.Int32
				after, before := (i+oa)%pa, (i/pa+ob)%pb
				err := d.Submit(func() error {
					if int(runs.Add(1)) <= fail {
						return errors.New("retry")
					}
					close(done)
					spin(after)
					return nil
				})
				if err != nil {
					return fmt.Sprintf("Submit %d on an open dissolver failed: %v", i, err)
				}
				timer.Reset(time.Second)
				select {
				case <-done:
				case <-timer.C:
					return fmt.Sprintf("submission %d of %d (workers=%d): the job was accepted by an open dissolver but is not executed while every worker is idle (runs so far %d)", i, n, workers, runs.Load())
				}
				if !timer.Stop() {
					select {
					case <-timer.C:
					default:
					}
				}
				spin(before)
			}
			return ""
		})
	})
}
