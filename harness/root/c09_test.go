package PKGNAME

// C09 — Commands are gated by authentication and answered exactly once.
// One connection receives a drawn script: commands from a grammar over every request type (fed through
// Client.HandleCommand, or encoded - optionally mutated - through HandleReadFrame), completions of parked
// (asynchronous) handler callbacks in a drawn order from other goroutines, and virtual-time advances (server pings).
// Oracle: nothing but a connect command reaches an application handler before the connection is connected and such a
// command closes the connection with bad request; on a connection that is still open at the end every id > 0 has as
// many replies as commands carried it; a pong without an outstanding ping closes the connection with bad request.

import (
	"bytes"
	"errors"
	"fmt"
	"os"
	"path/filepath"
	"strings"
	"sync"
	"testing"
	"time"

	"github.com/centrifugal/protocol"
	"pgregory.net/rapid"
)

const (
	vfC09KConnect = iota
	vfC09KSubscribe
	vfC09KUnsubscribe
	vfC09KPublish
	vfC09KPresence
	vfC09KPresenceStats
	vfC09KHistory
	vfC09KPing
	vfC09KSend
	vfC09KRPC
	vfC09KRefresh
	vfC09KSubRefresh
	vfC09KEmpty
	vfC09NKinds
)

var vfC09KindNames = []string{"connect", "subscribe", "unsubscribe", "publish", "presence", "presence_stats", "history", "ping", "send", "rpc", "refresh",
	"sub_refresh", "empty"}

var vfC09Chans = []string{"ch1", "ch2", "m1", "m2", "", strings.Repeat("x", 300)}

type vfC09Cmd struct {
	Kind    int
	Kind2   int // -1 or a second request field set in the same command
	ID      uint32
	Ch      int
	Token   bool
	SubType int32
	Flags   int
}

func (c vfC09Cmd) String() string {
	s := fmt.Sprintf("%s#%d", vfC09KindNames[c.Kind], c.ID)
	if c.Kind2 >= 0 {
		s += "+" + vfC09KindNames[c.Kind2]
	}
	ch := vfC09Chans[c.Ch]
	if len(ch) > 10 {
		ch = "<300x>"
	}
	return fmt.Sprintf("%s(ch=%q tok=%v type=%d fl=%d)", s, ch, c.Token, c.SubType, c.Flags)
}

func (c vfC09Cmd) fill(cmd *protocol.Command, kind int) {
	ch := vfC09Chans[c.Ch]
	data := []byte(`{"d":1}`)
	tok := ""
	if c.Token {
		tok = "tok"
	}
	switch kind {
	case vfC09KConnect:
		cmd.Connect = &protocol.ConnectRequest{Token: tok, Name: "vf"}
		if c.Flags&1 != 0 {
			cmd.Connect.Data = data
		}
	case vfC09KSubscribe:
		r := &protocol.SubscribeRequest{Channel: ch, Token: tok, Type: c.SubType}
		if c.Flags&1 != 0 {
			r.Recover = true
			r.Offset = 3
			r.Epoch = "zz"
		}
		if c.Flags&2 != 0 {
			r.Delta = "fossil"
		}
		if c.Flags&4 != 0 {
			r.Delta = "bogus"
		}
		if c.Flags&8 != 0 {
			r.Data = data
			r.Positioned = true
			r.JoinLeave = true
		}
		cmd.Subscribe = r
	case vfC09KUnsubscribe:
		cmd.Unsubscribe = &protocol.UnsubscribeRequest{Channel: ch}
	case vfC09KPublish:
		r := &protocol.PublishRequest{Channel: ch, Data: data}
		if c.Flags&1 != 0 {
			r.Type = 1
			r.Key = "k"
		}
		if c.Flags&2 != 0 {
			r.Removed = true
		}
		cmd.Publish = r
	case vfC09KPresence:
		cmd.Presence = &protocol.PresenceRequest{Channel: ch}
	case vfC09KPresenceStats:
		cmd.PresenceStats = &protocol.PresenceStatsRequest{Channel: ch}
	case vfC09KHistory:
		r := &protocol.HistoryRequest{Channel: ch, Limit: int32(c.Flags&7) - 2, Reverse: c.Flags&8 != 0}
		if c.Flags&16 != 0 {
			r.Since = &protocol.StreamPosition{Offset: uint64(c.Flags & 3), Epoch: ""}
		}
		cmd.History = r
	case vfC09KPing:
		cmd.Ping = &protocol.PingRequest{}
	case vfC09KSend:
		cmd.Send = &protocol.SendRequest{Data: data}
	case vfC09KRPC:
		cmd.Rpc = &protocol.RPCRequest{Method: "m", Data: data}
	case vfC09KRefresh:
		cmd.Refresh = &protocol.RefreshRequest{Token: tok}
	case vfC09KSubRefresh:
		cmd.SubRefresh = &protocol.SubRefreshRequest{Channel: ch, Token: tok, Type: int32(c.Flags & 3)}
	}
}

func (c vfC09Cmd) build() *protocol.Command {
	cmd := &protocol.Command{Id: c.ID}
	c.fill(cmd, c.Kind)
	if c.Kind2 >= 0 {
		c.fill(cmd, c.Kind2)
	}
	return cmd
}

// vfC09PureSend reports whether the server treats cmd as a one-way send (no reply by protocol design): send is set
// and no request that is dispatched before it.
func vfC09PureSend(cmd *protocol.Command) bool {
	return cmd.Send != nil && cmd.Connect == nil && cmd.Ping == nil && cmd.Subscribe == nil && cmd.Unsubscribe == nil && cmd.Publish == nil &&
		cmd.Presence == nil && cmd.PresenceStats == nil && cmd.History == nil && cmd.Rpc == nil
}

func vfC09CmdKind(cmd *protocol.Command) string {
	switch {
	case cmd.Connect != nil:
		return "connect"
	case cmd.Ping != nil:
		return "ping"
	case cmd.Subscribe != nil:
		return "subscribe"
	case cmd.Unsubscribe != nil:
		return "unsubscribe"
	case cmd.Publish != nil:
		return "publish"
	case cmd.Presence != nil:
		return "presence"
	case cmd.PresenceStats != nil:
		return "presence_stats"
	case cmd.History != nil:
		return "history"
	case cmd.Rpc != nil:
		return "rpc"
	case cmd.Send != nil:
		return "send"
	case cmd.Refresh != nil:
		return "refresh"
	case cmd.SubRefresh != nil:
		return "sub_refresh"
	}
	return "empty"
}

type vfC09Mut struct{ Op, Pos, Len, Val int }

type vfC09Behav struct {
	Mode    int // 0 answer ok, 1 answer error, 2 answer disconnect, 3 park the callback
	ErrKind int
	Variant int
}

type vfC09Step struct {
	Kind  int // 0 feed command(s), 1 complete a parked callback, 2 advance virtual time
	Cmds  []vfC09Cmd
	Frame bool
	Muts  []vfC09Mut
	Limit int
	Raw   []byte // fuzz target only: the frame bytes as given
	Idx   int
	Res   int
	Adv   int
}

type vfC09Case struct {
	Proto       ProtocolType
	Pings       bool
	CSR         bool
	SubCSR      bool
	ConnectMode int  // 0 ok, 1 error reply, 2 disconnect, 3 no credentials, 4 ok but a connect-time subscription is rejected with a client error
	KeepFeeding bool // after a failed connect the caller keeps delivering commands (as the emulation endpoint does) instead of closing
	Wild        int  // 0 well-behaved client, 1 mixed, 2 anything goes
	Frames      bool // commands are encoded and fed through HandleReadFrame
	NoHandlers  uint // bit i set: handler i is NOT registered
	Behavs      []vfC09Behav
	Steps       []vfC09Step
	FinalOrder  []int
	FinalRes    []int
}

var vfC09HandlerNames = []string{"subscribe", "publish", "map_publish", "map_remove", "history", "presence", "presence_stats", "message", "rpc", "refresh",
	"sub_refresh"}

func (s vfC09Step) String() string {
	switch s.Kind {
	case 0:
		cs := make([]string, len(s.Cmds))
		for i, c := range s.Cmds {
			cs[i] = c.String()
		}
		if s.Raw != nil {
			return fmt.Sprintf("rawframe(%q limit=%d)", vfTrunc(string(s.Raw), 200), s.Limit)
		}
		if !s.Frame {
			return "cmd " + strings.Join(cs, " ")
		}
		ms := make([]string, len(s.Muts))
		for i, m := range s.Muts {
			ms[i] = fmt.Sprintf("%d@%d/%d=%d", m.Op, m.Pos, m.Len, m.Val)
		}
		return fmt.Sprintf("frame[%s muts=[%s] limit=%d]", strings.Join(cs, " "), strings.Join(ms, " "), s.Limit)
	case 1:
		return fmt.Sprintf("complete(%d res=%d)", s.Idx, s.Res)
	}
	return fmt.Sprintf("adv(%ds)", s.Adv)
}

func (c vfC09Case) String() string {
	st := make([]string, len(c.Steps))
	for i, s := range c.Steps {
		st[i] = s.String()
	}
	bs := make([]string, len(c.Behavs))
	for i, b := range c.Behavs {
		bs[i] = fmt.Sprintf("%d/%d/%d", b.Mode, b.ErrKind, b.Variant)
	}
	return fmt.Sprintf("proto=%s wild=%d pings=%v csr=%v subcsr=%v connectMode=%d keepFeeding=%v noHandlers=%b behavs=[%s] steps=[%s] finalOrder=%v finalRes=%v", c.Proto, c.Wild, c.Pings,
		c.CSR, c.SubCSR, c.ConnectMode, c.KeepFeeding, c.NoHandlers, strings.Join(bs, " "), strings.Join(st, "; "), c.FinalOrder, c.FinalRes)
}

func vfC09GenCmd(rt *rapid.T, wild int, nextID *uint32, csr, subcsr bool) vfC09Cmd {
	c := vfC09Cmd{Kind2: -1}
	if wild == 0 {
		c.Kind = rapid.SampledFrom([]int{vfC09KSubscribe, vfC09KSubscribe, vfC09KSubscribe, vfC09KUnsubscribe, vfC09KPublish, vfC09KPublish, vfC09KPresence,
			vfC09KPresenceStats, vfC09KHistory, vfC09KSend, vfC09KRPC, vfC09KRPC, vfC09KRefresh, vfC09KSubRefresh, vfC09KSubRefresh}).Draw(rt, "kind")
		// a well-behaved client refreshes only what the server told it to refresh
		if c.Kind == vfC09KRefresh && !csr {
			c.Kind = vfC09KRPC
		}
		if c.Kind == vfC09KSubRefresh && !subcsr {
			c.Kind = vfC09KPresence
		}
	} else {
		c.Kind = rapid.IntRange(0, vfC09NKinds-1).Draw(rt, "kind")
	}
	// id
	idKind := 0
	if wild > 0 {
		idKind = rapid.SampledFrom([]int{0, 0, 0, 0, 1, 2, 3, 4}).Draw(rt, "idKind")
	} else {
		idKind = rapid.SampledFrom([]int{0, 0, 0, 0, 0, 0, 0, 2}).Draw(rt, "idKind")
	}
	switch idKind {
	case 0:
		*nextID++
		c.ID = *nextID
	case 1:
		c.ID = 0
	case 2: // duplicate of an earlier id
		if *nextID > 0 {
			c.ID = uint32(rapid.IntRange(1, int(*nextID)).Draw(rt, "dupID"))
		} else {
			*nextID++
			c.ID = *nextID
		}
	case 3:
		c.ID = rapid.SampledFrom([]uint32{1 << 31, 4294967295, 4294967294, 65536}).Draw(rt, "bigID")
	case 4:
		c.ID = uint32(rapid.IntRange(1, 5).Draw(rt, "smallID"))
	}
	if c.Kind == vfC09KEmpty && wild < 2 {
		c.ID = 0
	}
	if wild == 0 {
		c.Ch = rapid.SampledFrom([]int{0, 0, 1, 2, 2, 3}).Draw(rt, "ch")
		c.Token = true
		if c.Kind == vfC09KSubscribe {
			if c.Ch >= 2 {
				c.SubType = 1
			}
			c.Flags = rapid.SampledFrom([]int{0, 0, 0, 1, 2, 8}).Draw(rt, "flags")
		} else if c.Kind == vfC09KPublish {
			if c.Ch >= 2 {
				c.Flags = rapid.SampledFrom([]int{1, 1, 3}).Draw(rt, "flags")
			}
		} else if c.Kind == vfC09KHistory {
			c.Flags = rapid.IntRange(0, 31).Draw(rt, "flags")
		}
		return c
	}
	c.Ch = rapid.SampledFrom([]int{0, 0, 0, 1, 1, 2, 2, 3, 4, 5}).Draw(rt, "ch")
	c.Token = rapid.IntRange(0, 4).Draw(rt, "token") != 0
	c.SubType = rapid.SampledFrom([]int32{0, 0, 0, 0, 1, 1, 2, 3, 4, 99, -1}).Draw(rt, "subType")
	c.Flags = rapid.IntRange(0, 31).Draw(rt, "flags")
	if rapid.IntRange(0, 9).Draw(rt, "two") == 0 {
		c.Kind2 = rapid.IntRange(0, vfC09NKinds-2).Draw(rt, "kind2")
	}
	return c
}

func vfC09Gen(rt *rapid.T) vfC09Case {
	c := vfC09Case{}
	c.Proto = rapid.SampledFrom([]ProtocolType{ProtocolTypeJSON, ProtocolTypeProtobuf}).Draw(rt, "proto")
	c.Pings = rapid.IntRange(0, 2).Draw(rt, "pings") == 0
	c.CSR = rapid.Bool().Draw(rt, "csr")
	c.SubCSR = rapid.Bool().Draw(rt, "subcsr")
	c.ConnectMode = rapid.SampledFrom([]int{0, 0, 0, 0, 4, 0, 0, 0, 1, 0, 0, 4, 0, 0, 0, 2, 0, 0, 3, 0, 4, 1}).Draw(rt, "connectMode")
	c.KeepFeeding = rapid.SampledFrom([]bool{true, true, false}).Draw(rt, "keepFeeding")
	switch rapid.IntRange(0, 7).Draw(rt, "mask") {
	case 0:
		c.NoHandlers = 1 << uint(rapid.IntRange(0, 10).Draw(rt, "noHandler"))
	case 1:
		c.NoHandlers = uint(rapid.IntRange(0, 1<<11-1).Draw(rt, "noHandlers"))
	}
	wild := rapid.SampledFrom([]int{0, 0, 0, 0, 0, 1, 1, 2}).Draw(rt, "wild")
	// (rapid favours the first entries of a SampledFrom list)
	frames := rapid.SampledFrom([]bool{false, false, false, true, true}).Draw(rt, "frames")
	startConnect := rapid.SampledFrom([]bool{true, true, true, true, true, true, true, false}).Draw(rt, "startConnect")
	c.Wild, c.Frames = wild, frames
	nb := rapid.IntRange(1, 8).Draw(rt, "nbehav")
	for i := 0; i < nb; i++ {
		var mode int
		if wild == 0 {
			mode = rapid.SampledFrom([]int{3, 3, 3, 0, 3, 1}).Draw(rt, "mode")
		} else {
			mode = rapid.SampledFrom([]int{3, 0, 3, 0, 1, 3, 0, 1, 2}).Draw(rt, "mode")
		}
		c.Behavs = append(c.Behavs, vfC09Behav{Mode: mode, ErrKind: rapid.IntRange(0, 3).Draw(rt, "errKind"), Variant: rapid.IntRange(0, 5).Draw(rt, "variant")})
	}
	var nextID uint32
	mkFeed := func(cmds []vfC09Cmd) vfC09Step {
		s := vfC09Step{Kind: 0, Cmds: cmds, Frame: frames}
		if frames {
			s.Limit = rapid.SampledFrom([]int{0, 0, 0, 0, 0, 0, 40, 1 << 20}).Draw(rt, "limit")
			if rapid.IntRange(0, 9).Draw(rt, "mutate") < 4 {
				nm := rapid.IntRange(1, 3).Draw(rt, "nmut")
				for i := 0; i < nm; i++ {
					s.Muts = append(s.Muts, vfC09Mut{Op: rapid.IntRange(0, 6).Draw(rt, "op"), Pos: rapid.IntRange(0, 1000).Draw(rt, "pos"),
						Len: rapid.IntRange(1, 8).Draw(rt, "len"), Val: rapid.IntRange(0, 15).Draw(rt, "val")})
				}
			}
		}
		return s
	}
	if startConnect {
		nextID++
		s := mkFeed([]vfC09Cmd{{Kind: vfC09KConnect, Kind2: -1, ID: nextID, Token: true}})
		s.Muts = nil
		s.Limit = 0
		c.Steps = append(c.Steps, s)
	}
	ncmd := rapid.IntRange(1, 12).Draw(rt, "ncmd")
	for ncmd > 0 {
		k := rapid.SampledFrom([]int{0, 0, 0, 1, 0, 0, 1, 0, 1, 2}).Draw(rt, "stepKind")
		switch k {
		case 0:
			n := 1
			if frames {
				n = rapid.SampledFrom([]int{1, 1, 2, 3}).Draw(rt, "perFrame")
			}
			if n > ncmd {
				n = ncmd
			}
			var cmds []vfC09Cmd
			for i := 0; i < n; i++ {
				cmds = append(cmds, vfC09GenCmd(rt, wild, &nextID, c.CSR, c.SubCSR))
			}
			ncmd -= n
			c.Steps = append(c.Steps, mkFeed(cmds))
		case 1:
			c.Steps = append(c.Steps, vfC09Step{Kind: 1, Idx: rapid.SampledFrom([]int{1, 0, 2, 3, 5, 4}).Draw(rt, "idx"), Res: rapid.SampledFrom([]int{0, 0, 0, 1, 1, 2}).Draw(rt, "res")})
		case 2:
			if !c.Pings && rapid.IntRange(0, 2).Draw(rt, "skipAdv") != 0 {
				continue
			}
			c.Steps = append(c.Steps, vfC09Step{Kind: 2, Adv: rapid.SampledFrom([]int{1, 3, 6, 6, 6, 6, 11}).Draw(rt, "adv")})
			if c.Pings && rapid.IntRange(0, 2).Draw(rt, "pongAfter") != 0 {
				// a protocol-following client answers the ping
				c.Steps = append(c.Steps, vfC09Step{Kind: 0, Cmds: []vfC09Cmd{{Kind: vfC09KEmpty, Kind2: -1}}, Frame: frames})
				if rapid.SampledFrom([]int{0, 0, 0, 1}).Draw(rt, "pongTwice") == 1 {
					// ... and a misbehaving one answers it twice
					c.Steps = append(c.Steps, vfC09Step{Kind: 0, Cmds: []vfC09Cmd{{Kind: vfC09KEmpty, Kind2: -1}}, Frame: frames})
				}
				if rapid.SampledFrom([]int{0, 0, 1}).Draw(rt, "pongAfterTimeoutCheck") == 1 {
					// ... or answers once more after the server's pong-timeout check ran (ping + 4 s) and before the
					// next ping (ping + 5 s): the oracle counts ping frames, so either side of the boundary is judged right
					c.Steps = append(c.Steps, vfC09Step{Kind: 2, Adv: rapid.SampledFrom([]int{3, 3, 4, 2}).Draw(rt, "advPastPongCheck")})
					c.Steps = append(c.Steps, vfC09Step{Kind: 0, Cmds: []vfC09Cmd{{Kind: vfC09KEmpty, Kind2: -1}}, Frame: frames})
				}
			}
		}
	}
	if c.SubCSR && wild == 0 && rapid.SampledFrom([]int{0, 0, 1}).Draw(rt, "mapRefresh") == 1 {
		// a map subscription whose token is refreshed later (the handler may change the server tags filter)
		nextID += 2
		c.Steps = append(c.Steps,
			mkFeed([]vfC09Cmd{{Kind: vfC09KSubscribe, Kind2: -1, ID: nextID - 1, Ch: 2, Token: true, SubType: 1}}),
			vfC09Step{Kind: 1, Idx: 0},
			mkFeed([]vfC09Cmd{{Kind: vfC09KSubRefresh, Kind2: -1, ID: nextID, Ch: 2, Token: true}}))
	}
	for i := 0; i < 8; i++ {
		c.FinalOrder = append(c.FinalOrder, rapid.SampledFrom([]int{1, 0, 2, 3, 5, 4, 7, 6}).Draw(rt, "forder"))
		res := 0
		if wild > 0 {
			res = rapid.SampledFrom([]int{0, 0, 0, 1, 1, 2}).Draw(rt, "fres")
		} else {
			res = rapid.SampledFrom([]int{0, 0, 1}).Draw(rt, "fres")
		}
		c.FinalRes = append(c.FinalRes, res)
	}
	return c
}

func vfC09Encode(proto ProtocolType, cmds []*protocol.Command) ([]byte, error) {
	var buf bytes.Buffer
	for i, cmd := range cmds {
		if proto == ProtocolTypeJSON {
			b, err := protocol.NewJSONCommandEncoder().Encode(cmd)
			if err != nil {
				return nil, err
			}
			if i > 0 {
				buf.WriteByte('\n')
			}
			buf.Write(b)
		} else {
			b, err := protocol.NewProtobufCommandEncoder().Encode(cmd)
			if err != nil {
				return nil, err
			}
			buf.Write(b)
		}
	}
	return buf.Bytes(), nil
}

var vfC09MutBytes = []byte{0x00, 0xff, '{', '}', '"', '\n', 0x80, 0x7f, ',', ':', '[', '0', 0x08, 0x2a, 0x01, ' '}

func vfC09Mutate(b []byte, muts []vfC09Mut) []byte {
	out := append([]byte(nil), b...)
	for _, m := range muts {
		if len(out) == 0 {
			out = append(out, vfC09MutBytes[m.Val%len(vfC09MutBytes)])
			continue
		}
		p := m.Pos % len(out)
		n := m.Len
		if p+n > len(out) {
			n = len(out) - p
		}
		switch m.Op {
		case 0: // flip a bit
			out[p] ^= 1 << uint(m.Val%8)
		case 1: // overwrite with an interesting byte
			out[p] = vfC09MutBytes[m.Val%len(vfC09MutBytes)]
		case 2: // delete a range
			out = append(out[:p:p], out[p+n:]...)
		case 3: // insert interesting bytes
			ins := bytes.Repeat([]byte{vfC09MutBytes[m.Val%len(vfC09MutBytes)]}, m.Len)
			out = append(out[:p:p], append(ins, out[p:]...)...)
		case 4: // truncate
			out = out[:p]
		case 5: // duplicate a range
			dup := append([]byte(nil), out[p:p+n]...)
			out = append(out[:p+n:p+n], append(dup, out[p+n:]...)...)
		case 6: // swap two bytes
			q := (p + m.Len) % len(out)
			out[p], out[q] = out[q], out[p]
		}
	}
	return out
}

type vfC09Out struct {
	labels     []string
	nontrivial bool
	known      []string
	knownEx    string
}

type vfC09Parked struct {
	seq  int
	kind string
	fn   func(res int)
}

type vfC09Sent struct {
	id   uint32
	pure bool
	kind string
}

func vfC09Run(t *testing.T, cs vfC09Case, out *vfC09Out, isKnown func(string) bool) string {
	return vfBubble(t, func() string {
		label := func(l string) { out.labels = append(out.labels, l) }
		var mu sync.Mutex
		var applog []string
		logAdd := func(s string) { mu.Lock(); applog = append(applog, s); mu.Unlock() }
		logLen := func() int { mu.Lock(); defer mu.Unlock(); return len(applog) }
		logCopy := func() []string { mu.Lock(); defer mu.Unlock(); return append([]string(nil), applog...) }
		var dispatched []vfC09Sent
		cfg := Config{Map: MapConfig{GetMapChannelOptions: func(ch string) MapChannelOptions {
			if strings.HasPrefix(ch, "m") {
				return MapChannelOptions{Mode: MapModeEphemeral, KeyTTL: time.Minute}
			}
			return MapChannelOptions{}
		}}}
		w, err := vfNewWorld(cfg, func(w *vfWorld) {
			w.node.OnCommandRead(func(c *Client, e CommandReadEvent) error {
				k := vfC09CmdKind(e.Command)
				logAdd("read:" + k)
				mu.Lock()
				dispatched = append(dispatched, vfC09Sent{id: e.Command.Id, pure: vfC09PureSend(e.Command), kind: k})
				mu.Unlock()
				return nil
			})
			w.node.OnCommandProcessed(func(c *Client, e CommandProcessedEvent) {
				k := "?"
				if e.Command != nil {
					k = vfC09CmdKind(e.Command)
				}
				logAdd("processed:" + k)
			})
		})
		if err != nil {
			return "infra: " + err.Error()
		}
		defer w.Close()

		var parked []*vfC09Parked
		parkSeq := 0
		nInv := 0
		flushParked := func() {
			// complete every parked callback at once (no waiting in between): see the note on close() below
			var dones []chan struct{}
			for _, p := range parked {
				done := make(chan struct{})
				dones = append(dones, done)
				go func() { defer close(done); p.fn(0) }()
			}
			parked = nil
			for _, d := range dones {
				<-d
			}
			vfSettle()
		}
		// close() waits up to 5 s (virtual) for every in-flight subscribe while holding connectMu and every timed-out wait
		// spawns another close() that blocks on that mutex; a synctest bubble cannot wait that out. So parked callbacks are
		// all completed as soon as the connection is seen closed, and always before the node shuts down.
		defer flushParked()
		parkedSubs := func() int {
			n := 0
			for _, p := range parked {
				if p.kind == "subscribe" {
					n++
				}
			}
			return n
		}
		mkErr := func(b vfC09Behav, res int) error {
			if res == 2 {
				if b.ErrKind%2 == 0 {
					return DisconnectForceNoReconnect
				}
				return Disconnect{Code: 4001, Reason: "custom"}
			}
			switch b.ErrKind {
			case 0:
				return ErrorPermissionDenied
			case 1:
				return &Error{Code: 444, Message: "custom"}
			case 2:
				return errors.New("boom")
			}
			return ErrorTooManyRequests
		}
		// invoke runs one application handler invocation according to the next drawn behaviour.
		invoke := func(kind string, answer func(b vfC09Behav, err error)) {
			b := cs.Behavs[nInv%len(cs.Behavs)]
			nInv++
			logAdd("h:" + kind)
			mode := b.Mode
			if mode == 3 && kind == "subscribe" && cs.Pings && parkedSubs() >= 1 {
				mode = 0 // with ping timers at most one subscribe is kept in flight (see the note on close())
			}
			if mode == 3 && kind == "subscribe" && cs.Frames {
				// One frame can make the server spawn two close() calls (a handler's disconnect, then a malformed rest of the
				// frame); with a subscribe in flight the first waits on a timer while the second blocks on connectMu, which
				// a synctest bubble cannot wait out. Subscribes are therefore parked only in the command-by-command mode.
				mode = 0
			}
			switch mode {
			case 0:
				answer(b, nil)
			case 1:
				answer(b, mkErr(b, 1))
			case 2:
				answer(b, mkErr(b, 2))
			default:
				parkSeq++
				parked = append(parked, &vfC09Parked{seq: parkSeq, kind: kind, fn: func(res int) {
					if res == 0 {
						answer(b, nil)
					} else {
						answer(b, mkErr(b, res))
					}
				}})
			}
		}
		w.Connecting = func(c *vfConn, e ConnectEvent) (ConnectReply, error) {
			logAdd("connecting")
			switch cs.ConnectMode {
			case 1:
				return ConnectReply{}, ErrorPermissionDenied
			case 2:
				return ConnectReply{}, DisconnectInvalidToken
			case 3:
				return ConnectReply{}, nil
			case 4:
				// credentials are fine (the connection gets authenticated) but the connect-time subscription is expired:
				// the connect command is answered with a client error
				return ConnectReply{Credentials: &Credentials{UserID: "u"},
					Subscriptions: map[string]SubscribeOptions{"ch1": {ExpireAt: time.Now().Unix() - 10}}}, nil
			}
			cr := &Credentials{UserID: "u"}
			if cs.CSR {
				cr.ExpireAt = time.Now().Unix() + 3600
			}
			return ConnectReply{Credentials: cr, ClientSideRefresh: cs.CSR}, nil
		}
		w.OnSubscribe = func(c *vfConn, e SubscribeEvent, cb SubscribeCallback) {
			invoke("subscribe", func(b vfC09Behav, err error) {
				if err != nil {
					cb(SubscribeReply{}, err)
					return
				}
				o := SubscribeOptions{Type: e.Type}
				if b.Variant == 5 {
					o.Type = 0
				}
				if b.Variant == 1 {
					o.EmitPresence = true
					o.EmitJoinLeave = true
				}
				if b.Variant == 2 {
					o.EnableRecovery = true
				}
				if cs.SubCSR {
					o.ExpireAt = time.Now().Unix() + 3600
				}
				cb(SubscribeReply{Options: o, ClientSideRefresh: cs.SubCSR}, nil)
			})
		}
		has := func(i int) bool { return cs.NoHandlers&(1<<uint(i)) == 0 }
		w.PerClient = func(c *vfConn, client *Client) {
			logAdd("onconnect")
			if !has(0) {
				client.OnSubscribe(nil)
			}
			if has(1) {
				client.OnPublish(func(e PublishEvent, cb PublishCallback) {
					invoke("publish", func(b vfC09Behav, err error) { cb(PublishReply{}, err) })
				})
			}
			if has(2) {
				client.OnMapPublish(func(e MapPublishEvent, cb MapPublishCallback) {
					invoke("map_publish", func(b vfC09Behav, err error) {
						r := MapPublishReply{Key: e.Key}
						if b.Variant == 3 {
							r.Key = ""
						}
						cb(r, err)
					})
				})
			}
			if has(3) {
				client.OnMapRemove(func(e MapRemoveEvent, cb MapRemoveCallback) {
					invoke("map_remove", func(b vfC09Behav, err error) {
						r := MapRemoveReply{Key: e.Key}
						if b.Variant == 3 {
							r.Key = ""
						}
						cb(r, err)
					})
				})
			}
			if has(4) {
				client.OnHistory(func(e HistoryEvent, cb HistoryCallback) {
					invoke("history", func(b vfC09Behav, err error) { cb(HistoryReply{}, err) })
				})
			}
			if has(5) {
				client.OnPresence(func(e PresenceEvent, cb PresenceCallback) {
					invoke("presence", func(b vfC09Behav, err error) { cb(PresenceReply{}, err) })
				})
			}
			if has(6) {
				client.OnPresenceStats(func(e PresenceStatsEvent, cb PresenceStatsCallback) {
					invoke("presence_stats", func(b vfC09Behav, err error) { cb(PresenceStatsReply{}, err) })
				})
			}
			if has(7) {
				client.OnMessage(func(e MessageEvent) { logAdd("h:message") })
			}
			if has(8) {
				client.OnRPC(func(e RPCEvent, cb RPCCallback) {
					invoke("rpc", func(b vfC09Behav, err error) { cb(RPCReply{Data: e.Data}, err) })
				})
			}
			if has(9) {
				client.OnRefresh(func(e RefreshEvent, cb RefreshCallback) {
					invoke("refresh", func(b vfC09Behav, err error) {
						r := RefreshReply{ExpireAt: time.Now().Unix() + 7200}
						switch b.Variant {
						case 3:
							r = RefreshReply{Expired: true}
						case 4:
							r = RefreshReply{ExpireAt: time.Now().Unix() - 10}
						case 5:
							r = RefreshReply{}
						}
						cb(r, err)
					})
				})
			}
			if has(10) {
				client.OnSubRefresh(func(e SubRefreshEvent, cb SubRefreshCallback) {
					invoke("sub_refresh", func(b vfC09Behav, err error) {
						r := SubRefreshReply{ExpireAt: time.Now().Unix() + 7200}
						switch b.Variant {
						case 0, 3:
							r.ServerTagsFilter = &FilterNode{Key: "k", Cmp: "eq", Val: "v"}
						case 4:
							r = SubRefreshReply{ExpireAt: time.Now().Unix() - 10}
						case 5:
							r = SubRefreshReply{}
						}
						cb(r, err)
					})
				})
			}
		}

		cc := vfConnCfg{Name: "s", User: "u", Proto: cs.Proto}
		if cs.Pings {
			cc.KeepPing = true
			cc.PingPong = PingPongConfig{PingInterval: 5 * time.Second, PongTimeout: 4 * time.Second}
		}
		conn := w.NewConn(cc)
		closed := func() (bool, Disconnect) { return conn.T.Closed() }
		frames := func() string { return vfRenderFrames(conn.Frames()) }
		authed := func() bool {
			for _, l := range logCopy() {
				if l == "onconnect" {
					return true
				}
			}
			return false
		}
		isPingFrame := func(r *protocol.Reply) bool {
			return r != nil && r.Id == 0 && r.Error == nil && r.Push == nil && r.Connect == nil && r.Subscribe == nil && r.Unsubscribe == nil && r.Publish == nil &&
				r.Presence == nil && r.PresenceStats == nil && r.History == nil && r.Ping == nil && r.Rpc == nil && r.Refresh == nil && r.SubRefresh == nil
		}
		pingFrames := func() int {
			n := 0
			for _, f := range conn.Frames() {
				if f.Err == nil && isPingFrame(f.Reply) {
					n++
				}
			}
			return n
		}
		pongMark := 0
		var known []vfC09Sent
		anyMutated := false
		completions := []int{}
		completeOne := func(p *vfC09Parked, res int) {
			for i, q := range parked {
				if q == p {
					parked = append(parked[:i:i], parked[i+1:]...)
					break
				}
			}
			completions = append(completions, p.seq)
			done := make(chan struct{})
			go func() { defer close(done); p.fn(res) }()
			vfSettle()
			<-done
			vfSettle()
		}
		afterStep := func() {
			if c, _ := closed(); c && len(parked) > 0 {
				flushParked()
			}
		}
		ncmds := 0
		preauthNonConnect := false
		lastFed := ""

		for si, s := range cs.Steps {
			where := fmt.Sprintf("step %d %s", si, s)
			switch s.Kind {
			case 1:
				if len(parked) == 0 {
					continue
				}
				completeOne(parked[s.Idx%len(parked)], s.Res)
				afterStep()
				continue
			case 2:
				for parkedSubs() > 1 {
					for _, p := range parked {
						if p.kind == "subscribe" {
							completeOne(p, 0)
							break
						}
					}
					afterStep()
				}
				time.Sleep(time.Duration(s.Adv) * time.Second)
				vfSettle()
				afterStep()
				continue
			}
			// ---- feed ------------------------------------------------------------------------------------------
			if c, _ := closed(); c {
				label("closed_before_end")
				continue
			}
			cmds := make([]*protocol.Command, len(s.Cmds))
			for i, c := range s.Cmds {
				cmds[i] = c.build()
			}
			mutated := len(s.Muts) > 0 || s.Raw != nil
			// an unsubscribe for a channel whose subscribe is parked blocks HandleCommand for 5 s; only safe with no ping
			// timers and (see close()) it is simply skipped otherwise
			skip := false
			for _, cmd := range cmds {
				if cmd.Unsubscribe != nil && cs.Pings && parkedSubs() > 0 {
					skip = true
				}
			}
			if skip {
				continue
			}
			wasAuthed := authed()
			if len(cmds) > 0 {
				lastFed = vfC09CmdKind(cmds[len(cmds)-1])
			}
			n0 := logLen()
			pings := pingFrames()
			var proceed bool
			if s.Raw != nil || s.Frame {
				raw := s.Raw
				if raw == nil {
					enc, err := vfC09Encode(cs.Proto, cmds)
					if err != nil {
						return "infra: encode: " + err.Error()
					}
					raw = vfC09Mutate(enc, s.Muts)
				}
				limit := int64(s.Limit)
				if limit <= 0 {
					limit = 65536
				}
				proceed = HandleReadFrame(conn.Client, bytes.NewReader(raw), limit)
			} else {
				proceed = conn.Cmd(cmds[0])
			}
			vfSettle()
			if !proceed {
				// what every transport does when the read loop is told to stop
				if c, _ := closed(); !c {
					flushParked()
					if c2, _ := closed(); !c2 {
						if cs.KeepFeeding && !authed() {
							label("kept_feeding_after_failed_connect")
						} else {
							conn.TransportClose()
							vfSettle()
						}
					}
				}
			}
			afterStep()
			ncmds += len(cmds)
			if mutated {
				anyMutated = true
				out.nontrivial = true
				label("mutated_frame")
			} else {
				for _, cmd := range cmds {
					known = append(known, vfC09Sent{id: cmd.Id, pure: vfC09PureSend(cmd), kind: vfC09CmdKind(cmd)})
				}
			}
			c, d := closed()
			newLog := logCopy()[n0:]
			if !wasAuthed {
				// ---- the authentication gate -----------------------------------------------------------------
				if !mutated && len(cmds) > 0 && cmds[0].Connect == nil {
					preauthNonConnect = true
					out.nontrivial = true
					label("preauth_non_connect")
					if len(newLog) != 0 {
						return fmt.Sprintf("%s: command %s before connect reached application handlers %v", where, vfC09CmdKind(cmds[0]), newLog)
					}
					if !c || d.Code != DisconnectBadRequest.Code {
						return fmt.Sprintf("%s: command %s before connect must close the connection with bad request: closed=%v code=%d; frames: %s", where,
							vfC09CmdKind(cmds[0]), c, d.Code, frames())
					}
				}
				if len(newLog) == 0 && (!c || d.Code != DisconnectBadRequest.Code) {
					return fmt.Sprintf("%s: input before connect reached no connect handler but the connection was not closed with bad request: closed=%v code=%d; frames: %s",
						where, c, d.Code, frames())
				}
				if len(newLog) == 0 {
					label("preauth_rejected")
				}
			} else if !mutated && len(cmds) > 0 {
				// ---- pong without ping ------------------------------------------------------------------------
				first := cmds[0]
				if first.Id == 0 && first.Send == nil {
					if pings > pongMark {
						label("pong_with_outstanding_ping")
						pongMark = pings
					} else {
						label("pong_without_ping")
						if !c || d.Code != DisconnectBadRequest.Code {
							return fmt.Sprintf("%s: pong without an outstanding ping (pings seen %d, answered up to %d) must close with bad request: closed=%v code=%d; frames: %s",
								where, pings, pongMark, c, d.Code, frames())
						}
					}
				}
			}
		}
		// ---- settle: complete everything still parked in the drawn order ------------------------------------------
		for i := 0; len(parked) > 0; i++ {
			if c, _ := closed(); c {
				flushParked()
				break
			}
			k := cs.FinalOrder[i%len(cs.FinalOrder)] % len(parked)
			completeOne(parked[k], cs.FinalRes[i%len(cs.FinalRes)])
		}
		vfSettle()

		// ---- global rule: nothing but connect handling before the connection is connected ----------------------
		full := logCopy()
		for i, l := range full {
			if l == "onconnect" {
				break
			}
			if l != "read:connect" && l != "connecting" && l != "processed:connect" {
				return fmt.Sprintf("application handler %q (log position %d of %v) ran before the connection was connected; frames: %s", l, i, full, frames())
			}
		}
		for _, f := range conn.Frames() {
			if f.Err != nil {
				return fmt.Sprintf("server wrote an undecodable frame: %v: %q", f.Err, vfTrunc(string(f.Raw), 80))
			}
		}
		outOfOrder := false
		for i := 1; i < len(completions); i++ {
			if completions[i] < completions[i-1] {
				outOfOrder = true
			}
		}
		if ncmds >= 3 && outOfOrder {
			out.nontrivial = true
			label("async_out_of_order")
		}
		if len(completions) > 0 {
			label("async_completion")
		}
		if authed() {
			label("connected")
		} else if !preauthNonConnect {
			label("never_connected")
		}
		c, d := closed()
		if c {
			label(fmt.Sprintf("closed_%d", d.Code))
			if cs.Wild == 0 && authed() && !anyMutated {
				label("wellbehaved_closed_after_" + lastFed)
			}
			return ""
		}
		if cs.Wild == 0 {
			label("wellbehaved_open_at_end")
		}
		label("open_at_end")
		// ---- exactly one reply per id-carrying command -----------------------------------------------------------
		src := known
		if anyMutated {
			mu.Lock()
			src = append([]vfC09Sent(nil), dispatched...)
			mu.Unlock()
		}
		want := map[uint32]int{}
		kinds := map[uint32][]string{}
		for _, k := range src {
			if k.id == 0 {
				continue
			}
			if !k.pure {
				want[k.id]++
			} else if _, ok := want[k.id]; !ok {
				want[k.id] = 0
			}
			kinds[k.id] = append(kinds[k.id], k.kind)
		}
		got := map[uint32]int{}
		for _, f := range conn.Frames() {
			if f.Reply.Id != 0 {
				got[f.Reply.Id]++
			}
		}
		ids := map[uint32]bool{}
		for id := range want {
			ids[id] = true
		}
		for id := range got {
			ids[id] = true
		}
		var bad []string
		minBad := uint32(0)
		for id := range ids {
			if want[id] != got[id] {
				if len(bad) == 0 || id < minBad {
					minBad = id
				}
				bad = append(bad, fmt.Sprint(id))
			}
		}
		if len(bad) > 0 {
			id := minBad
			msg := fmt.Sprintf("connection still open after everything settled: id %d was carried by %d command(s) %v expecting a reply but %d reply(ies) with that id were written; frames: %s",
				id, want[id], kinds[id], got[id], frames())
			key := "C09:sub-refresh-changing-server-tags-filter-of-map-subscription-gets-no-reply"
			if got[id] < want[id] && len(kinds[id]) == 1 && kinds[id][0] == "sub_refresh" && strings.Contains(frames(), "push.unsubscribe") {
				if isKnown(key) {
					out.known = append(out.known, key)
					out.knownEx = msg
					return ""
				}
				return "[" + key + "] " + msg
			}
			return msg
		}
		dups := false
		for _, n := range want {
			if n > 1 {
				dups = true
			}
		}
		if dups {
			label("duplicate_ids_answered")
		}
		if len(want) >= 3 {
			label("open_with_3plus_replies")
		}
		return ""
	})
}

func vfC09Report(c *vfCase, out *vfC09Out) {
	seen := map[string]bool{}
	for _, l := range out.labels {
		if !seen[l] {
			seen[l] = true
			c.Label(l)
		}
	}
	for _, k := range out.known {
		c.Known(k, out.knownEx)
	}
	if out.nontrivial {
		c.Nontrivial(c.desc)
	}
}

func TestVF_C09(t *testing.T) {
	if dir := os.Getenv("VF_C09_CORPUS_DIR"); dir != "" {
		vfC09WriteCorpus(t, dir)
		return
	}
	vfCheck(t, "C09", func(rt *rapid.T, c *vfCase) string {
		cs := vfC09Gen(rt)
		c.Describe(cs.String())
		out := &vfC09Out{}
		msg := vfC09Run(t, cs, out, c.IsKnown)
		vfC09Report(c, out)
		return msg
	})
}

// ---------------------------------------------------------------------------------------------------
// native fuzzing: header byte (protocol, connect first, behaviour seed) + raw frame bytes

func vfC09FuzzCase(data []byte) vfC09Case {
	var h0, h1 byte
	if len(data) > 0 {
		h0 = data[0]
	}
	if len(data) > 1 {
		h1 = data[1]
	}
	body := []byte{}
	if len(data) > 2 {
		body = data[2:]
	}
	cs := vfC09Case{Proto: ProtocolTypeJSON, SubCSR: h0&4 != 0, CSR: h0&8 != 0, Frames: true, Wild: 2}
	if h0&1 != 0 {
		cs.Proto = ProtocolTypeProtobuf
	}
	for i := 0; i < 4; i++ {
		m := int(h1>>(2*uint(i))) & 3
		cs.Behavs = append(cs.Behavs, vfC09Behav{Mode: m, ErrKind: i, Variant: int(h0>>4) % 6})
	}
	if h0&2 != 0 {
		cs.Steps = append(cs.Steps, vfC09Step{Kind: 0, Cmds: []vfC09Cmd{{Kind: vfC09KConnect, Kind2: -1, ID: 1, Token: true}}})
	}
	// the body may hold several frames separated by the byte sequence 0xfe 0xfe
	for _, fr := range bytes.Split(body, []byte{0xfe, 0xfe}) {
		cs.Steps = append(cs.Steps, vfC09Step{Kind: 0, Raw: append([]byte{}, fr...)})
		if len(cs.Steps) > 6 {
			break
		}
	}
	cs.FinalOrder = []int{int(h1) % 7, 0, 3, 1}
	cs.FinalRes = []int{0, int(h1>>6) % 3, 0}
	return cs
}

func FuzzVF_C09(f *testing.F) {
	f.Add([]byte{2, 0, '{', '}'})
	st := vfNewStats("C09")
	f.Fuzz(func(t *testing.T, data []byte) {
		if len(data) > 4096 {
			return
		}
		cs := vfC09FuzzCase(data)
		c := &vfCase{st: st}
		out := &vfC09Out{}
		if msg := vfC09Run(t, cs, out, c.IsKnown); msg != "" {
			t.Fatalf("VF-VIOLATION C09: %s\ncase: %s", msg, vfTrunc(cs.String(), 3000))
		}
	})
}

// vfC09WriteCorpus writes a few encoded structured cases in Go fuzz corpus format (run once by hand).
func vfC09WriteCorpus(t *testing.T, dir string) {
	_ = os.MkdirAll(dir, 0o755)
	seq := func(proto ProtocolType, cmds ...vfC09Cmd) []byte {
		var ps []*protocol.Command
		for _, c := range cmds {
			ps = append(ps, c.build())
		}
		b, err := vfC09Encode(proto, ps)
		if err != nil {
			t.Fatal(err)
		}
		return b
	}
	mk := func(name string, h0, h1 byte, frames ...[]byte) {
		data := append([]byte{h0, h1}, bytes.Join(frames, []byte{0xfe, 0xfe})...)
		body := fmt.Sprintf("go test fuzz v1\n[]byte(%q)\n", data)
		if err := os.WriteFile(filepath.Join(dir, name), []byte(body), 0o644); err != nil {
			t.Fatal(err)
		}
	}
	for pi, proto := range []ProtocolType{ProtocolTypeJSON, ProtocolTypeProtobuf} {
		p := byte(pi)
		n := fmt.Sprintf("seed-%s-", proto)
		mk(n+"connect-sub-pub-rpc", p, 0,
			seq(proto, vfC09Cmd{Kind: vfC09KConnect, Kind2: -1, ID: 1, Token: true}),
			seq(proto, vfC09Cmd{Kind: vfC09KSubscribe, Kind2: -1, ID: 2, Ch: 0}, vfC09Cmd{Kind: vfC09KPublish, Kind2: -1, ID: 3, Ch: 0}, vfC09Cmd{Kind: vfC09KRPC, Kind2: -1, ID: 4}))
		mk(n+"preconnected-all-kinds", p|2|4|8, 0xC3,
			seq(proto, vfC09Cmd{Kind: vfC09KSubscribe, Kind2: -1, ID: 2, Ch: 0, Token: true}, vfC09Cmd{Kind: vfC09KSubRefresh, Kind2: -1, ID: 3, Ch: 0, Token: true},
				vfC09Cmd{Kind: vfC09KRefresh, Kind2: -1, ID: 4, Token: true}, vfC09Cmd{Kind: vfC09KHistory, Kind2: -1, ID: 5, Ch: 0, Flags: 5}),
			seq(proto, vfC09Cmd{Kind: vfC09KPresence, Kind2: -1, ID: 6, Ch: 0}, vfC09Cmd{Kind: vfC09KPresenceStats, Kind2: -1, ID: 7, Ch: 1},
				vfC09Cmd{Kind: vfC09KSend, Kind2: -1, ID: 0}, vfC09Cmd{Kind: vfC09KUnsubscribe, Kind2: -1, ID: 8, Ch: 0}))
		mk(n+"preconnected-map", p|2, 0x0C,
			seq(proto, vfC09Cmd{Kind: vfC09KSubscribe, Kind2: -1, ID: 2, Ch: 2, SubType: 1}, vfC09Cmd{Kind: vfC09KPublish, Kind2: -1, ID: 3, Ch: 2, Flags: 1},
				vfC09Cmd{Kind: vfC09KPublish, Kind2: -1, ID: 3, Ch: 2, Flags: 3}))
		mk(n+"no-connect-subscribe", p, 0, seq(proto, vfC09Cmd{Kind: vfC09KSubscribe, Kind2: -1, ID: 1, Ch: 0}))
		mk(n+"pong-and-ping", p|2, 0, seq(proto, vfC09Cmd{Kind: vfC09KEmpty, Kind2: -1}), seq(proto, vfC09Cmd{Kind: vfC09KPing, Kind2: -1, ID: 9}))
		mk(n+"dup-ids-async", p|2, 0xFF,
			seq(proto, vfC09Cmd{Kind: vfC09KRPC, Kind2: -1, ID: 5}, vfC09Cmd{Kind: vfC09KRPC, Kind2: -1, ID: 5}, vfC09Cmd{Kind: vfC09KPublish, Kind2: -1, ID: 4294967295, Ch: 1}))
	}
}
