package PKGNAME

// C20 — Memory map broker implements the map-state specification.
//
// A real MemoryMapBroker (constructed on a real Node, recording BrokerEventHandler) runs inside a synctest bubble and
// is driven by a drawn script of operations; a reference map written from the MapBroker documentation (map_broker.go)
// is run in lock-step. After every operation the result, the delivery log, and (for reads) the returned state/stream
// are compared. Time only moves in explicit "advance" steps; after each of them the permitted nondeterminism of the
// housekeeping sweeps (key expiry within [deadline, deadline+2s), stream/meta expiry not before their TTL) is resolved
// from observations (delivery log, side-effect-free peek at the retained stream offsets / channel existence).

import (
	"context"
	"errors"
	"fmt"
	"sort"
	"strings"
	"sync"
	"sync/atomic"
	"testing"
	"time"

	"pgregory.net/rapid"
)

// ---------------------------------------------------------------------------------------------------------------
// generated case

type vfC20Cfg struct {
	Mode       MapMode
	Ordered    bool
	KeyTTL     time.Duration
	StreamSize int
	StreamTTL  time.Duration
	MetaTTL    time.Duration
}

const (
	vfC20Publish = iota
	vfC20Remove
	vfC20Clear
	vfC20ReadState
	vfC20ReadStream
	vfC20OpStats
	vfC20Advance
)

type vfC20Op struct {
	Kind int
	Ch   int
	Key  int
	// publish / remove
	KeyMode KeyMode
	CAS     int // 0 none, 1 current entry, 2 entry offset-1, 3 stale epoch, 4 channel top, 5 zero, 6 empty epoch
	Version uint64
	VEpoch  string
	Idem    string
	IdemTTL time.Duration
	Refresh bool
	Score   int64
	Tags    int // 0 nil, 1 {"t":"x"}, 2 {"t":"y","u":"1"}, 3 empty non-nil
	Delta   bool
	Info    bool
	// read state
	ByKey bool
	Limit int
	Asc   bool
	Rev   int // 0 none, 1 current epoch, 2 stale epoch
	// read stream
	Since      int // 0 nil, 1.. offset kinds
	SinceEpoch int // 0 "", 1 current, 2 stale
	Reverse    bool
	// advance
	D time.Duration
}

var vfC20Tags = []map[string]string{nil, {"t": "x"}, {"t": "y", "u": "1"}, {}}

func vfC20CopyTags(i int) map[string]string {
	src := vfC20Tags[i]
	if src == nil {
		return nil
	}
	out := map[string]string{}
	for k, v := range src {
		out[k] = v
	}
	return out
}

func vfC20GenCfg(rt *rapid.T, i int) vfC20Cfg {
	l := fmt.Sprintf("ch%d_", i)
	c := vfC20Cfg{}
	c.Mode = rapid.SampledFrom([]MapMode{MapModeRecoverable, MapModePersistent, MapModeEphemeral, MapModeRecoverable}).Draw(rt, l+"mode")
	c.Ordered = rapid.Bool().Draw(rt, l+"ordered")
	if c.Mode.HasExpiry() {
		c.KeyTTL = rapid.SampledFrom([]time.Duration{time.Hour, 2 * time.Second, 5 * time.Second, 1500 * time.Millisecond}).Draw(rt, l+"keyTTL")
	}
	if c.Mode.HasStream() {
		c.StreamSize = rapid.SampledFrom([]int{2, 1, 3, 4, 5, 0}).Draw(rt, l+"streamSize")
		c.StreamTTL = rapid.SampledFrom([]time.Duration{0, time.Hour, 3 * time.Second, 10 * time.Second}).Draw(rt, l+"streamTTL")
		if c.Mode == MapModeRecoverable {
			// explicit MetaTTL must be >= StreamTTL (resolved) and >= KeyTTL
			st := c.StreamTTL
			if st == 0 {
				st = time.Minute
			}
			lo := st
			if c.KeyTTL > lo {
				lo = c.KeyTTL
			}
			switch rapid.IntRange(0, 2).Draw(rt, l+"metaTTL") {
			case 0:
				c.MetaTTL = 0 // auto-derived
			case 1:
				c.MetaTTL = lo
			case 2:
				c.MetaTTL = lo + 4*time.Second
			}
		}
	}
	return c
}

func vfC20GenOp(rt *rapid.T, nCh, nKeys int) vfC20Op {
	op := vfC20Op{}
	op.Kind = rapid.SampledFrom([]int{
		vfC20Publish, vfC20Publish, vfC20Publish, vfC20Publish, vfC20Publish, vfC20Publish, vfC20Publish,
		vfC20Remove, vfC20Remove, vfC20ReadState, vfC20ReadState, vfC20ReadStream, vfC20ReadStream,
		vfC20Advance, vfC20Advance, vfC20OpStats, vfC20Clear,
	}).Draw(rt, "kind")
	if op.Kind == vfC20Clear && rapid.IntRange(0, 2).Draw(rt, "clearKeep") != 0 {
		op.Kind = vfC20Publish // clears are kept rare
	}
	op.Ch = rapid.IntRange(0, nCh-1).Draw(rt, "ch")
	switch op.Kind {
	case vfC20Publish, vfC20Remove:
		op.Key = rapid.IntRange(0, nKeys-1).Draw(rt, "key")
		op.CAS = rapid.SampledFrom([]int{0, 0, 0, 0, 1, 1, 2, 3, 4, 5, 6}).Draw(rt, "cas")
		op.Idem = rapid.SampledFrom([]string{"", "", "", "i0", "i1", "i0"}).Draw(rt, "idem")
		if op.Idem != "" {
			op.IdemTTL = rapid.SampledFrom([]time.Duration{0, 2 * time.Second, 10 * time.Second}).Draw(rt, "idemTTL")
		}
		op.Tags = rapid.IntRange(0, 3).Draw(rt, "tags")
		if op.Kind == vfC20Publish {
			op.KeyMode = rapid.SampledFrom([]KeyMode{KeyModeReplace, KeyModeReplace, KeyModeIfNew, KeyModeIfExists, KeyModeIfNew}).Draw(rt, "keyMode")
			op.Version = rapid.SampledFrom([]uint64{0, 0, 0, 1, 2, 3, 4, ^uint64(0), ^uint64(0) - 1}).Draw(rt, "version")
			if op.Version != 0 {
				op.VEpoch = rapid.SampledFrom([]string{"", "e1", "e2", ""}).Draw(rt, "vepoch")
			}
			op.Refresh = rapid.Bool().Draw(rt, "refresh")
			op.Score = rapid.SampledFrom([]int64{0, 1, 1, 2, -3, 9223372036854775807, -9223372036854775808}).Draw(rt, "score")
			op.Delta = rapid.Bool().Draw(rt, "delta")
			op.Info = rapid.IntRange(0, 3).Draw(rt, "info") == 0
		}
	case vfC20ReadState:
		op.ByKey = rapid.IntRange(0, 2).Draw(rt, "byKey") == 0
		op.Key = rapid.IntRange(0, nKeys-1).Draw(rt, "key")
		op.Limit = rapid.SampledFrom([]int{-1, 1, 2, 3, 10, 0}).Draw(rt, "limit")
		op.Asc = rapid.Bool().Draw(rt, "asc")
		op.Rev = rapid.SampledFrom([]int{0, 0, 1, 1, 2}).Draw(rt, "rev")
	case vfC20ReadStream:
		op.Since = rapid.SampledFrom([]int{0, 0, 1, 2, 3, 4, 5, 6, 7, 8}).Draw(rt, "since")
		op.SinceEpoch = rapid.SampledFrom([]int{0, 1, 1, 2}).Draw(rt, "sinceEpoch")
		op.Limit = rapid.SampledFrom([]int{-1, 1, 2, 10, 0}).Draw(rt, "limit")
		op.Reverse = rapid.IntRange(0, 2).Draw(rt, "reverse") == 0
	case vfC20Advance:
		op.D = rapid.SampledFrom([]time.Duration{
			time.Millisecond, 400 * time.Millisecond, time.Second, 1100 * time.Millisecond, 2500 * time.Millisecond,
			4 * time.Second, 9 * time.Second, 70 * time.Second, 11 * time.Minute,
		}).Draw(rt, "d")
	}
	return op
}

func (op vfC20Op) String() string {
	switch op.Kind {
	case vfC20Publish:
		s := fmt.Sprintf("pub(c%d,k%d", op.Ch, op.Key)
		if op.KeyMode != "" {
			s += "," + string(op.KeyMode)
		}
		if op.CAS != 0 {
			s += fmt.Sprintf(",cas%d", op.CAS)
		}
		if op.Version != 0 {
			s += fmt.Sprintf(",v%d@%q", op.Version, op.VEpoch)
		}
		if op.Idem != "" {
			s += fmt.Sprintf(",%s/%s", op.Idem, op.IdemTTL)
		}
		if op.Refresh {
			s += ",refresh"
		}
		if op.Delta {
			s += ",delta"
		}
		return s + fmt.Sprintf(",s%d,t%d)", op.Score, op.Tags)
	case vfC20Remove:
		s := fmt.Sprintf("rm(c%d,k%d", op.Ch, op.Key)
		if op.CAS != 0 {
			s += fmt.Sprintf(",cas%d", op.CAS)
		}
		if op.Idem != "" {
			s += fmt.Sprintf(",%s/%s", op.Idem, op.IdemTTL)
		}
		return s + fmt.Sprintf(",t%d)", op.Tags)
	case vfC20Clear:
		return fmt.Sprintf("clear(c%d)", op.Ch)
	case vfC20ReadState:
		if op.ByKey {
			return fmt.Sprintf("state(c%d,key=k%d,rev%d)", op.Ch, op.Key, op.Rev)
		}
		return fmt.Sprintf("state(c%d,limit=%d,asc=%v,rev%d)", op.Ch, op.Limit, op.Asc, op.Rev)
	case vfC20ReadStream:
		return fmt.Sprintf("stream(c%d,since%d/e%d,limit=%d,rev=%v)", op.Ch, op.Since, op.SinceEpoch, op.Limit, op.Reverse)
	case vfC20OpStats:
		return fmt.Sprintf("stats(c%d)", op.Ch)
	case vfC20Advance:
		return fmt.Sprintf("advance(%s)", op.D)
	}
	return "?"
}

// ---------------------------------------------------------------------------------------------------------------
// shared node + recorder

var (
	vfC20NodeOnce sync.Once
	vfC20NodeVal  *Node
	vfC20NodeErr  error
	vfC20Opts     atomic.Pointer[map[string]MapChannelOptions]
)

// vfC20Node returns one never-Run Node for the whole process: the broker only reads its config, metrics and logger.
func vfC20Node() (*Node, error) {
	vfC20NodeOnce.Do(func() {
		vfC20NodeVal, vfC20NodeErr = New(Config{Map: MapConfig{GetMapChannelOptions: func(ch string) MapChannelOptions {
			return (*vfC20Opts.Load())[ch]
		}}})
	})
	return vfC20NodeVal, vfC20NodeErr
}

type vfC20Delivery struct {
	Ch    string
	Pub   Publication // snapshot at delivery time
	SP    StreamPosition
	Delta bool
	Prev  *Publication
}

type vfC20Rec struct {
	mu  sync.Mutex
	log []vfC20Delivery
}

func (r *vfC20Rec) HandlePublication(ch string, pub *Publication, sp StreamPosition, delta bool, prev *Publication) error {
	r.mu.Lock()
	defer r.mu.Unlock()
	d := vfC20Delivery{Ch: ch, SP: sp, Delta: delta, Prev: prev}
	if pub != nil {
		d.Pub = *pub
	}
	r.log = append(r.log, d)
	return nil
}
func (r *vfC20Rec) HandleJoin(string, *ClientInfo) error  { return nil }
func (r *vfC20Rec) HandleLeave(string, *ClientInfo) error { return nil }

func (r *vfC20Rec) take(from int) []vfC20Delivery {
	r.mu.Lock()
	defer r.mu.Unlock()
	out := make([]vfC20Delivery, len(r.log)-from)
	copy(out, r.log[from:])
	return out
}

// ---------------------------------------------------------------------------------------------------------------
// reference map (written from the MapBroker / MapPublishOptions / MapRemoveOptions / MapReadStateOptions docs)

type vfC20Entry struct {
	Key      string
	Data     string
	Tags     map[string]string
	Score    int64
	Offset   uint64
	Version  uint64
	VEpoch   string
	ExpireAt int64 // ms, 0 = never
	HasInfo  bool
}

type vfC20SE struct {
	Offset  uint64
	Key     string
	Removed bool
	Data    string
	Tags    map[string]string
}

type vfC20Idem struct {
	Pos StreamPosition
	Exp int64
}

type vfC20Chan struct {
	name string
	cfg  vfC20Cfg // resolved (defaults applied)

	exists     bool
	epoch      string // "" = not yet observed since (re)creation
	pastEpochs []string
	top        uint64
	stream     []vfC20SE
	state      map[string]*vfC20Entry

	streamMayClear int64 // earliest instant the stream TTL sweep may clear the stream (0 = never)
	metaMayExpire  int64 // earliest instant the channel may be dropped by the meta TTL (0 = never)
	idem           map[string]vfC20Idem
	wasReset       bool // a clear / expiry / meta drop happened (non-triviality)
}

func vfC20Resolve(c vfC20Cfg) vfC20Cfg {
	if c.Mode.HasStream() {
		if c.StreamSize == 0 {
			c.StreamSize = 100
		}
		if c.StreamTTL == 0 {
			c.StreamTTL = time.Minute
		}
		if c.MetaTTL == 0 && c.Mode.HasExpiry() {
			c.MetaTTL = c.StreamTTL * 10
			if c.KeyTTL > 0 && c.MetaTTL < c.KeyTTL {
				c.MetaTTL = c.KeyTTL
			}
		}
	}
	return c
}

func (c *vfC20Chan) reset() {
	if c.epoch != "" {
		c.pastEpochs = append(c.pastEpochs, c.epoch)
	}
	c.exists = false
	c.epoch = ""
	c.top = 0
	c.stream = nil
	c.state = map[string]*vfC20Entry{}
	c.streamMayClear = 0
	c.metaMayExpire = 0
	c.wasReset = true
}

// create marks the channel object as existing (an epoch is minted by the first access).
func (c *vfC20Chan) create() { c.exists = true }

// observe checks / learns the epoch reported by the implementation for an existing channel.
func (c *vfC20Chan) observe(ep string) string {
	if ep == "" {
		return "empty epoch reported for an existing channel"
	}
	if c.epoch == "" {
		for _, p := range c.pastEpochs {
			if p == ep {
				return fmt.Sprintf("epoch %q reused after the channel was reset", ep)
			}
		}
		c.epoch = ep
		return ""
	}
	if c.epoch != ep {
		return fmt.Sprintf("epoch changed from %q to %q without a reset", c.epoch, ep)
	}
	return ""
}

func (c *vfC20Chan) refreshMeta(now int64) {
	if c.cfg.MetaTTL > 0 {
		c.metaMayExpire = now + c.cfg.MetaTTL.Milliseconds()
	}
}

func (c *vfC20Chan) appendStream(e vfC20SE) {
	c.stream = append(c.stream, e)
	for len(c.stream) > c.cfg.StreamSize {
		c.stream = c.stream[1:]
	}
}

type vfC20Expect struct {
	Err        bool
	Suppressed bool
	Reason     SuppressReason
	PosKnown   bool // Position fully predicted (offset); epoch checked through observe unless PosExact
	PosExact   *StreamPosition
	Offset     uint64
	Current    *MapCurrentEntry
	NoCurrent  bool
	Deliver    bool
	// delivery expectation
	DKey     string
	DData    string
	DTags    map[string]string
	DRemoved bool
	DScore   int64
	DInfo    bool
	DDelta   bool
	DPrev    *string // data of the previous entry, nil = no prev
	// unknown-channel remove: zero position allowed
	ZeroPosOK bool
}

func (c *vfC20Chan) resolveCAS(kind int, key string) *StreamPosition {
	if kind == 0 {
		return nil
	}
	ep := c.epoch
	if ep == "" {
		ep = "unknownEp"
	}
	off := c.top
	if e, ok := c.state[key]; ok {
		off = e.Offset
	}
	stale := "zzzzzzzz"
	if len(c.pastEpochs) > 0 {
		stale = c.pastEpochs[len(c.pastEpochs)-1]
	}
	switch kind {
	case 1:
		return &StreamPosition{Offset: off, Epoch: ep}
	case 2:
		if off == 0 {
			return &StreamPosition{Offset: off + 1, Epoch: ep}
		}
		return &StreamPosition{Offset: off - 1, Epoch: ep}
	case 3:
		return &StreamPosition{Offset: off, Epoch: stale}
	case 4:
		return &StreamPosition{Offset: c.top, Epoch: ep}
	case 5:
		return &StreamPosition{}
	default:
		return &StreamPosition{Offset: off, Epoch: ""}
	}
}

func (c *vfC20Chan) idemHit(key string, now int64) (StreamPosition, bool) {
	if key == "" {
		return StreamPosition{}, false
	}
	e, ok := c.idem[key]
	if !ok || e.Exp <= now {
		return StreamPosition{}, false
	}
	return e.Pos, true
}

func vfC20IdemTTLms(d time.Duration) int64 {
	if d == 0 {
		return 300 * 1000
	}
	return d.Milliseconds()
}

// publish applies a publish to the model and returns the expected outcome. idemSave is applied by the caller once
// the real epoch is known (the cached position includes the epoch).
func (c *vfC20Chan) publish(op vfC20Op, key, data string, cas *StreamPosition, now int64) (x vfC20Expect, saveIdem bool) {
	if c.cfg.Mode.IsEphemeral() && (cas != nil || op.Version > 0) {
		return vfC20Expect{Err: true}, false
	}
	if pos, ok := c.idemHit(op.Idem, now); ok {
		return vfC20Expect{Suppressed: true, Reason: SuppressReasonIdempotency, PosExact: &pos}, false
	}
	c.create()
	existing, exists := c.state[key]
	// 1. version
	if c.cfg.Mode.HasStream() && op.Version > 0 && exists {
		if (op.VEpoch == "" || op.VEpoch == existing.VEpoch) && op.Version <= existing.Version {
			return vfC20Expect{Suppressed: true, Reason: SuppressReasonVersion, PosKnown: true, Offset: c.top, NoCurrent: true}, false
		}
	}
	// 2. key mode
	if op.KeyMode == KeyModeIfNew && exists {
		if op.Refresh && c.cfg.KeyTTL > 0 {
			existing.ExpireAt = now + c.cfg.KeyTTL.Milliseconds()
			c.refreshMeta(now)
		}
		return vfC20Expect{Suppressed: true, Reason: SuppressReasonKeyExists, PosKnown: true, Offset: c.top, NoCurrent: true}, false
	}
	if op.KeyMode == KeyModeIfExists && !exists {
		return vfC20Expect{Suppressed: true, Reason: SuppressReasonKeyNotFound, PosKnown: true, Offset: c.top, NoCurrent: true}, false
	}
	// 3. compare-and-swap
	if cas != nil {
		if !exists {
			return vfC20Expect{Suppressed: true, Reason: SuppressReasonPositionMismatch, PosKnown: true, Offset: c.top, NoCurrent: true}, false
		}
		if existing.Offset != cas.Offset || c.epoch != cas.Epoch {
			return vfC20Expect{Suppressed: true, Reason: SuppressReasonPositionMismatch, PosKnown: true, Offset: c.top,
				Current: &MapCurrentEntry{Offset: existing.Offset, Data: []byte(existing.Data)}}, false
		}
	}
	// apply
	x = vfC20Expect{PosKnown: true, Deliver: true, DKey: key, DData: data, DTags: vfC20Tags[op.Tags], DScore: op.Score,
		DInfo: op.Info, DDelta: op.Delta, NoCurrent: true}
	if op.Delta && exists {
		d := existing.Data
		x.DPrev = &d
	}
	var off uint64
	if c.cfg.Mode.HasStream() {
		c.top++
		off = c.top
		c.appendStream(vfC20SE{Offset: off, Key: key, Data: data, Tags: vfC20Tags[op.Tags]})
		c.streamMayClear = now + c.cfg.StreamTTL.Milliseconds()
		c.refreshMeta(now)
	}
	x.Offset = off
	ne := &vfC20Entry{Key: key, Data: data, Tags: vfC20Tags[op.Tags], Score: op.Score, Offset: off, Version: op.Version,
		VEpoch: op.VEpoch, HasInfo: op.Info}
	if op.Version == 0 && exists {
		ne.Version, ne.VEpoch = existing.Version, existing.VEpoch
	}
	if c.cfg.KeyTTL > 0 {
		ne.ExpireAt = now + c.cfg.KeyTTL.Milliseconds()
	}
	c.state[key] = ne
	return x, op.Idem != ""
}

func (c *vfC20Chan) remove(op vfC20Op, key string, cas *StreamPosition, now int64) (x vfC20Expect, saveIdem bool) {
	if c.cfg.Mode.IsEphemeral() && cas != nil {
		return vfC20Expect{Err: true}, false
	}
	if pos, ok := c.idemHit(op.Idem, now); ok {
		return vfC20Expect{Suppressed: true, Reason: SuppressReasonIdempotency, PosExact: &pos}, false
	}
	if !c.exists {
		r := SuppressReasonKeyNotFound
		if cas != nil {
			r = SuppressReasonPositionMismatch
		}
		return vfC20Expect{Suppressed: true, Reason: r, ZeroPosOK: true, NoCurrent: true}, false
	}
	existing, exists := c.state[key]
	if cas != nil {
		if !exists {
			return vfC20Expect{Suppressed: true, Reason: SuppressReasonPositionMismatch, PosKnown: true, Offset: c.top, NoCurrent: true}, false
		}
		if existing.Offset != cas.Offset || c.epoch != cas.Epoch {
			return vfC20Expect{Suppressed: true, Reason: SuppressReasonPositionMismatch, PosKnown: true, Offset: c.top,
				Current: &MapCurrentEntry{Offset: existing.Offset, Data: []byte(existing.Data)}}, false
		}
	}
	if !exists {
		return vfC20Expect{Suppressed: true, Reason: SuppressReasonKeyNotFound, PosKnown: true, Offset: c.top, NoCurrent: true}, false
	}
	tags := existing.Tags
	if vfC20Tags[op.Tags] != nil {
		tags = vfC20Tags[op.Tags]
	}
	delete(c.state, key)
	var off uint64
	if c.cfg.Mode.HasStream() {
		c.top++
		off = c.top
		c.appendStream(vfC20SE{Offset: off, Key: key, Removed: true, Tags: tags})
		c.streamMayClear = now + c.cfg.StreamTTL.Milliseconds()
		c.refreshMeta(now)
	}
	return vfC20Expect{PosKnown: true, Offset: off, Deliver: true, DKey: key, DRemoved: true, DTags: tags, NoCurrent: true}, op.Idem != ""
}

func (c *vfC20Chan) sortedState(asc bool) []*vfC20Entry {
	out := make([]*vfC20Entry, 0, len(c.state))
	for _, e := range c.state {
		out = append(out, e)
	}
	sort.Slice(out, func(i, j int) bool {
		a, b := out[i], out[j]
		if !c.cfg.Ordered {
			return a.Key < b.Key
		}
		if a.Score != b.Score {
			if asc {
				return a.Score < b.Score
			}
			return a.Score > b.Score
		}
		if asc {
			return a.Key < b.Key
		}
		return a.Key > b.Key
	})
	return out
}

func vfC20TagsEq(a, b map[string]string) bool {
	if len(a) != len(b) {
		return false
	}
	for k, v := range a {
		if w, ok := b[k]; !ok || w != v {
			return false
		}
	}
	return true
}

func vfC20StateMatch(p *Publication, e *vfC20Entry, ordered bool) string {
	if p == nil {
		return "nil publication"
	}
	if p.Key != e.Key || string(p.Data) != e.Data || p.Offset != e.Offset || p.Removed || !vfC20TagsEq(p.Tags, e.Tags) ||
		(ordered && p.Score != e.Score) || (p.Info != nil) != e.HasInfo {
		return fmt.Sprintf("entry {key=%s data=%q off=%d removed=%v tags=%v score=%d info=%v}, reference {key=%s data=%q off=%d tags=%v score=%d info=%v}",
			p.Key, p.Data, p.Offset, p.Removed, p.Tags, p.Score, p.Info != nil, e.Key, e.Data, e.Offset, e.Tags, e.Score, e.HasInfo)
	}
	return ""
}

func vfC20StreamMatch(p *Publication, e vfC20SE) string {
	if p == nil {
		return "nil publication"
	}
	if p.Key != e.Key || p.Offset != e.Offset || p.Removed != e.Removed || string(p.Data) != e.Data || !vfC20TagsEq(p.Tags, e.Tags) {
		return fmt.Sprintf("stream entry {off=%d key=%s removed=%v data=%q tags=%v}, reference {off=%d key=%s removed=%v data=%q tags=%v}",
			p.Offset, p.Key, p.Removed, p.Data, p.Tags, e.Offset, e.Key, e.Removed, e.Data, e.Tags)
	}
	return ""
}

// ---------------------------------------------------------------------------------------------------------------
// executor

type vfC20Tally struct {
	reasons     map[string]int
	unsupp      int
	errs        int
	expiries    int
	streamClear int
	metaDrops   int
	clears      int
	nontrivial  bool
	afterReset  bool
	trimmed     bool
}

type vfC20Peek struct {
	exists bool
	offs   []uint64
	state  map[string][3]int64 // offset, expireAt, version
	data   map[string]string
}

func vfC20PeekChan(b *MemoryMapBroker, name string) vfC20Peek {
	h := b.mapHub
	h.RLock()
	defer h.RUnlock()
	p := vfC20Peek{state: map[string][3]int64{}, data: map[string]string{}}
	chn, ok := h.channels[name]
	if !ok {
		return p
	}
	p.exists = true
	if chn.stream != nil {
		items, _, _ := chn.stream.Get(0, false, -1, false)
		for _, it := range items {
			p.offs = append(p.offs, it.Offset)
		}
	}
	for k, e := range chn.state {
		p.state[k] = [3]int64{int64(e.Publication.Offset), e.ExpireAt, int64(e.Version)}
		p.data[k] = string(e.Publication.Data)
	}
	return p
}

// compare the peeked implementation state with the reference (no tolerance: called when no sweep can be pending).
func (c *vfC20Chan) comparePeek(p vfC20Peek) string {
	if !c.exists {
		if p.exists {
			return "channel exists in the broker but not in the reference"
		}
		return ""
	}
	if !p.exists {
		return "channel vanished from the broker"
	}
	if len(p.offs) != len(c.stream) {
		return fmt.Sprintf("retained stream offsets %v, reference %v", p.offs, vfC20Offs(c.stream))
	}
	for i := range p.offs {
		if p.offs[i] != c.stream[i].Offset {
			return fmt.Sprintf("retained stream offsets %v, reference %v", p.offs, vfC20Offs(c.stream))
		}
	}
	if len(p.state) != len(c.state) {
		return fmt.Sprintf("state has %d keys, reference %d", len(p.state), len(c.state))
	}
	for k, e := range c.state {
		q, ok := p.state[k]
		if !ok {
			return fmt.Sprintf("key %s missing from state", k)
		}
		if uint64(q[0]) != e.Offset || p.data[k] != e.Data {
			return fmt.Sprintf("key %s holds {off=%d data=%q}, reference {off=%d data=%q}", k, q[0], p.data[k], e.Offset, e.Data)
		}
		if q[1] != e.ExpireAt {
			return fmt.Sprintf("key %s expiry deadline %d, reference %d", k, q[1], e.ExpireAt)
		}
		if uint64(q[2]) != e.Version {
			return fmt.Sprintf("key %s stored version %d, reference %d", k, uint64(q[2]), e.Version)
		}
	}
	return ""
}

func vfC20Offs(s []vfC20SE) []uint64 {
	out := make([]uint64, len(s))
	for i, e := range s {
		out[i] = e.Offset
	}
	return out
}

func vfC20Sub(a uint64, b uint64) uint64 {
	if a < b {
		return 0
	}
	return a - b
}

func vfC20Run(node *Node, cfgs []vfC20Cfg, nKeys int, ops []vfC20Op, st *vfC20Tally) string {
	ctx := context.Background()
	optsMap := map[string]MapChannelOptions{}
	var chans []*vfC20Chan
	for i, cfg := range cfgs {
		name := fmt.Sprintf("vc%d", i)
		optsMap[name] = MapChannelOptions{Mode: cfg.Mode, KeyTTL: cfg.KeyTTL, StreamSize: cfg.StreamSize, StreamTTL: cfg.StreamTTL,
			MetaTTL: cfg.MetaTTL, ordered: cfg.Ordered}
		if _, err := ResolveAndValidateMapChannelOptions(func(string) MapChannelOptions { return optsMap[name] }, name); err != nil {
			return "INFRA: generated channel options rejected: " + err.Error()
		}
		chans = append(chans, &vfC20Chan{name: name, cfg: vfC20Resolve(cfg), state: map[string]*vfC20Entry{}, idem: map[string]vfC20Idem{}})
	}
	vfC20Opts.Store(&optsMap)
	broker, err := NewMemoryMapBroker(node, MemoryMapBrokerConfig{})
	if err != nil {
		return "INFRA: broker: " + err.Error()
	}
	rec := &vfC20Rec{}
	if err := broker.RegisterEventHandler(rec); err != nil {
		return "INFRA: register: " + err.Error()
	}
	defer func() { _ = broker.Close(ctx) }()

	seen := 0
	type kk struct {
		ch  int
		key int
	}
	supp, unsupp := map[kk]bool{}, map[kk]bool{}

	checkUpdate := func(m *vfC20Chan, op vfC20Op, x vfC20Expect, save bool, res MapUpdateResult, err error, now int64) string {
		newD := rec.take(seen)
		seen += len(newD)
		if x.Err {
			st.errs++
			if err == nil {
				return fmt.Sprintf("expected an error (ephemeral channel with CAS/version), got result %+v", res)
			}
			if len(newD) != 0 {
				return "rejected operation was broadcast"
			}
			return ""
		}
		if err != nil {
			return "unexpected error: " + err.Error()
		}
		if res.Suppressed != x.Suppressed || res.SuppressReason != x.Reason {
			return fmt.Sprintf("result suppressed=%v reason=%q, reference suppressed=%v reason=%q", res.Suppressed, res.SuppressReason, x.Suppressed, x.Reason)
		}
		switch {
		case x.PosExact != nil:
			if res.Position != *x.PosExact {
				return fmt.Sprintf("idempotent repeat returned position %+v, first result was %+v", res.Position, *x.PosExact)
			}
		case x.ZeroPosOK:
			if res.Position.Epoch == "" {
				if res.Position.Offset != 0 {
					return fmt.Sprintf("position %+v for an unknown channel", res.Position)
				}
			} else {
				m.create()
				if res.Position.Offset != 0 {
					return fmt.Sprintf("position %+v for an unknown channel", res.Position)
				}
				if v := m.observe(res.Position.Epoch); v != "" {
					return v
				}
			}
		default:
			if res.Position.Offset != x.Offset {
				return fmt.Sprintf("result offset %d, reference %d", res.Position.Offset, x.Offset)
			}
			if v := m.observe(res.Position.Epoch); v != "" {
				return v
			}
		}
		if x.Current != nil {
			if res.CurrentEntry == nil {
				return "position mismatch on an existing key without CurrentEntry"
			}
			if res.CurrentEntry.Offset != x.Current.Offset || string(res.CurrentEntry.Data) != string(x.Current.Data) {
				return fmt.Sprintf("CurrentEntry {off=%d data=%q}, reference {off=%d data=%q}", res.CurrentEntry.Offset, res.CurrentEntry.Data, x.Current.Offset, x.Current.Data)
			}
		} else if res.CurrentEntry != nil {
			return fmt.Sprintf("unexpected CurrentEntry %+v (reason %q)", *res.CurrentEntry, res.SuppressReason)
		}
		k := kk{op.Ch, op.Key}
		if x.Suppressed {
			st.reasons[string(x.Reason)]++
			supp[k] = true
			if len(newD) != 0 {
				return fmt.Sprintf("suppressed operation (%s) was broadcast %d time(s)", x.Reason, len(newD))
			}
		} else {
			st.unsupp++
			unsupp[k] = true
			if len(newD) != 1 {
				return fmt.Sprintf("unsuppressed operation was broadcast %d times", len(newD))
			}
			d := newD[0]
			if d.Ch != m.name {
				return fmt.Sprintf("broadcast on channel %q, want %q", d.Ch, m.name)
			}
			if d.SP != res.Position {
				return fmt.Sprintf("broadcast position %+v differs from result position %+v", d.SP, res.Position)
			}
			if d.Pub.Offset != x.Offset || d.Pub.Key != x.DKey || string(d.Pub.Data) != x.DData || d.Pub.Removed != x.DRemoved ||
				!vfC20TagsEq(d.Pub.Tags, x.DTags) || (d.Pub.Info != nil) != x.DInfo || (!x.DRemoved && d.Pub.Score != x.DScore) {
				return fmt.Sprintf("broadcast publication {off=%d key=%s data=%q removed=%v tags=%v score=%d info=%v}, reference {off=%d key=%s data=%q removed=%v tags=%v score=%d info=%v}",
					d.Pub.Offset, d.Pub.Key, d.Pub.Data, d.Pub.Removed, d.Pub.Tags, d.Pub.Score, d.Pub.Info != nil,
					x.Offset, x.DKey, x.DData, x.DRemoved, x.DTags, x.DScore, x.DInfo)
			}
			if d.Pub.Time != now {
				return fmt.Sprintf("broadcast publication time %d, now %d", d.Pub.Time, now)
			}
			if d.Delta != x.DDelta {
				return fmt.Sprintf("broadcast delta flag %v, want %v", d.Delta, x.DDelta)
			}
			if x.DPrev == nil && d.Prev != nil {
				return "broadcast carries a previous publication although none is expected"
			}
			if x.DPrev != nil && (d.Prev == nil || string(d.Prev.Data) != *x.DPrev) {
				return fmt.Sprintf("broadcast previous publication %v, want data %q", d.Prev, *x.DPrev)
			}
		}
		if m.wasReset {
			st.afterReset = true
		}
		if save {
			m.idem[op.Idem] = vfC20Idem{Pos: StreamPosition{Offset: x.Offset, Epoch: m.epoch}, Exp: now + vfC20IdemTTLms(op.IdemTTL)}
		}
		return ""
	}

	staleEpoch := func(m *vfC20Chan) string {
		if len(m.pastEpochs) > 0 {
			return m.pastEpochs[len(m.pastEpochs)-1]
		}
		return "zzzzzzzz"
	}

	readState := func(m *vfC20Chan, op vfC20Op, key string, now int64) string {
		o := MapReadStateOptions{Asc: op.Asc, Limit: op.Limit}
		wantErr := false
		switch op.Rev {
		case 1:
			if m.exists && m.epoch != "" {
				o.Revision = &StreamPosition{Offset: m.top, Epoch: m.epoch}
			}
		case 2:
			o.Revision = &StreamPosition{Offset: m.top, Epoch: staleEpoch(m)}
			wantErr = true
		}
		if op.ByKey {
			o.Key = key
		}
		m.create()
		m.refreshMeta(now)
		if wantErr {
			_, err := broker.ReadState(ctx, m.name, o)
			if !errors.Is(err, ErrorUnrecoverablePosition) {
				return fmt.Sprintf("read with a stale revision epoch returned err=%v, want unrecoverable position", err)
			}
			return ""
		}
		var got []*Publication
		calls := 0
		for {
			calls++
			if calls > len(m.state)+2 {
				return "state pagination does not terminate"
			}
			res, err := broker.ReadState(ctx, m.name, o)
			if err != nil {
				return "unexpected error: " + err.Error()
			}
			if res.Position.Offset != m.top {
				return fmt.Sprintf("state position offset %d, reference %d", res.Position.Offset, m.top)
			}
			if v := m.observe(res.Position.Epoch); v != "" {
				return v
			}
			got = append(got, res.Publications...)
			if res.Cursor == "" {
				break
			}
			if op.ByKey || op.Limit <= 0 {
				return fmt.Sprintf("unexpected cursor %q", res.Cursor)
			}
			if len(res.Publications) == 0 || res.Cursor == o.Cursor {
				return "state pagination makes no progress"
			}
			o.Cursor = res.Cursor
		}
		if op.ByKey {
			e, ok := m.state[key]
			if !ok {
				if len(got) != 0 {
					return fmt.Sprintf("single-key read of absent key %s returned %d entries", key, len(got))
				}
				return ""
			}
			if len(got) != 1 {
				return fmt.Sprintf("single-key read of present key %s returned %d entries", key, len(got))
			}
			return vfC20StateMatch(got[0], e, m.cfg.Ordered)
		}
		if op.Limit == 0 {
			if len(got) != 0 {
				return "limit 0 returned entries"
			}
			return ""
		}
		want := m.sortedState(op.Asc)
		if len(got) != len(want) {
			return fmt.Sprintf("state read returned %d entries, reference has %d", len(got), len(want))
		}
		for i := range want {
			if v := vfC20StateMatch(got[i], want[i], m.cfg.Ordered); v != "" {
				return fmt.Sprintf("state position %d: %s", i, v)
			}
		}
		return ""
	}

	readStream := func(m *vfC20Chan, op vfC20Op, now int64) string {
		o := MapReadStreamOptions{Filter: StreamFilter{Limit: op.Limit, Reverse: op.Reverse}}
		if op.Since != 0 {
			var off uint64
			switch op.Since {
			case 1:
				off = 0
			case 2:
				off = m.top
			case 3:
				off = vfC20Sub(m.top, 1)
			case 4:
				off = vfC20Sub(m.top, 2)
			case 5:
				off = m.top + 1
			case 6:
				off = m.top + 3
			case 7:
				off = 1
			case 8:
				off = 2
			}
			ep := ""
			switch op.SinceEpoch {
			case 1:
				ep = m.epoch
			case 2:
				ep = staleEpoch(m)
			}
			o.Filter.Since = &StreamPosition{Offset: off, Epoch: ep}
		}
		existed := m.exists
		m.create()
		m.refreshMeta(now)
		res, err := broker.ReadStream(ctx, m.name, o)
		since := o.Filter.Since
		if since != nil && since.Epoch != "" && since.Epoch != m.epoch {
			if errors.Is(err, ErrorUnrecoverablePosition) {
				return ""
			}
			if !existed && err == nil && len(res.Publications) == 0 {
				// brand-new channel: nothing to compare the epoch with yet (allowed either way)
				return m.observe(res.Position.Epoch)
			}
			return fmt.Sprintf("stream read since a foreign epoch returned err=%v (%d publications), want unrecoverable position", err, len(res.Publications))
		}
		if err != nil {
			return "unexpected error: " + err.Error()
		}
		if res.Position.Offset != m.top {
			return fmt.Sprintf("stream position offset %d, reference %d", res.Position.Offset, m.top)
		}
		if v := m.observe(res.Position.Epoch); v != "" {
			return v
		}
		var want []vfC20SE
		exact := true
		lim := op.Limit
		switch {
		case lim == 0:
		case since == nil && !op.Reverse:
			want = append(want, m.stream...)
		case since == nil && op.Reverse:
			for i := len(m.stream) - 1; i >= 0; i-- {
				want = append(want, m.stream[i])
			}
		case !op.Reverse:
			for _, e := range m.stream {
				if e.Offset > since.Offset {
					want = append(want, e)
				}
			}
		default: // reverse from a position: entries before it, newest first
			if since.Offset == 0 {
				break
			}
			start := since.Offset - 1
			if start > m.top {
				exact = false // reading backwards from beyond the top is not specified
				break
			}
			for i := len(m.stream) - 1; i >= 0; i-- {
				if m.stream[i].Offset <= start {
					want = append(want, m.stream[i])
				}
			}
			if len(want) > 0 && want[0].Offset != start {
				want = nil
			}
		}
		if lim > 0 && len(want) > lim {
			want = want[:lim]
		}
		if !exact {
			for _, p := range res.Publications {
				found := false
				for _, e := range m.stream {
					if p != nil && e.Offset == p.Offset && vfC20StreamMatch(p, e) == "" {
						found = true
					}
				}
				if !found {
					return "stream read returned an entry that was never appended"
				}
			}
			return ""
		}
		if len(res.Publications) != len(want) {
			var offs []uint64
			for _, p := range res.Publications {
				offs = append(offs, p.Offset)
			}
			return fmt.Sprintf("stream read returned offsets %v, reference %v (retained %v)", offs, vfC20Offs(want), vfC20Offs(m.stream))
		}
		for i := range want {
			if v := vfC20StreamMatch(res.Publications[i], want[i]); v != "" {
				return v
			}
		}
		return ""
	}

	// reconcile resolves what the housekeeping sweeps did during an advance.
	reconcile := func(now int64) string {
		newD := rec.take(seen)
		seen += len(newD)
		byName := map[string]*vfC20Chan{}
		for _, m := range chans {
			byName[m.name] = m
		}
		for _, d := range newD {
			m := byName[d.Ch]
			if m == nil {
				return "broadcast on an unknown channel " + d.Ch
			}
			if !d.Pub.Removed {
				return fmt.Sprintf("spontaneous non-removal broadcast for key %s", d.Pub.Key)
			}
			e, ok := m.state[d.Pub.Key]
			if !ok {
				return fmt.Sprintf("expiry removal broadcast for key %s which is not in the state (removed twice?)", d.Pub.Key)
			}
			if e.ExpireAt == 0 || d.Pub.Time < e.ExpireAt {
				return fmt.Sprintf("key %s expired at %d, before its deadline %d", d.Pub.Key, d.Pub.Time, e.ExpireAt)
			}
			var off uint64
			if m.cfg.Mode.HasStream() {
				off = m.top + 1
			}
			if d.SP.Offset != off || d.Pub.Offset != off || d.SP.Epoch != m.epoch {
				return fmt.Sprintf("expiry removal of %s broadcast at %+v (pub offset %d), reference {%d %s}", d.Pub.Key, d.SP, d.Pub.Offset, off, m.epoch)
			}
			if !vfC20TagsEq(d.Pub.Tags, e.Tags) || d.Delta || d.Prev != nil || len(d.Pub.Data) != 0 {
				return fmt.Sprintf("expiry removal of %s carries tags %v (stored %v), delta=%v", d.Pub.Key, d.Pub.Tags, e.Tags, d.Delta)
			}
			delete(m.state, d.Pub.Key)
			if m.cfg.Mode.HasStream() {
				m.top = off
				m.appendStream(vfC20SE{Offset: off, Key: d.Pub.Key, Removed: true, Tags: e.Tags})
			}
			m.wasReset = true
			st.expiries++
		}
		for _, m := range chans {
			p := vfC20PeekChan(broker, m.name)
			if m.exists && !p.exists {
				if m.metaMayExpire == 0 || now < m.metaMayExpire {
					return fmt.Sprintf("channel %s dropped at %d before its meta TTL deadline %d", m.name, now, m.metaMayExpire)
				}
				m.reset()
				st.metaDrops++
				continue
			}
			if m.exists && len(p.offs) < len(m.stream) {
				// stream TTL sweep: a prefix of the retained entries is gone
				if m.streamMayClear == 0 || now < m.streamMayClear {
					return fmt.Sprintf("channel %s lost stream entries at %d before its stream TTL deadline %d (retained %v, reference %v)",
						m.name, now, m.streamMayClear, p.offs, vfC20Offs(m.stream))
				}
				m.stream = m.stream[len(m.stream)-len(p.offs):]
				st.streamClear++
			}
			for k, e := range m.state {
				if e.ExpireAt != 0 && now >= e.ExpireAt+2000 {
					return fmt.Sprintf("key %s of %s still present at %d, deadline was %d", k, m.name, now, e.ExpireAt)
				}
			}
			if v := m.comparePeek(p); v != "" {
				return fmt.Sprintf("channel %s after advance: %s", m.name, v)
			}
		}
		return ""
	}

	for i, op := range ops {
		m := chans[op.Ch]
		key := fmt.Sprintf("k%d", op.Key)
		now := time.Now().UnixMilli()
		fail := func(v string) string { return fmt.Sprintf("step %d %s: %s", i, op, v) }
		switch op.Kind {
		case vfC20Publish:
			cas := m.resolveCAS(op.CAS, key)
			data := fmt.Sprintf("d%d", i)
			po := MapPublishOptions{Data: []byte(data), Tags: vfC20CopyTags(op.Tags), KeyMode: op.KeyMode, Version: op.Version,
				VersionEpoch: op.VEpoch, IdempotencyKey: op.Idem, IdempotentResultTTL: op.IdemTTL, RefreshTTLOnSuppress: op.Refresh,
				score: op.Score, UseDelta: op.Delta}
			if cas != nil {
				cp := *cas
				po.ExpectedPosition = &cp
			}
			if op.Info {
				po.ClientInfo = &ClientInfo{ClientID: "cid", UserID: "uid"}
			}
			before := len(m.stream)
			x, save := m.publish(op, key, data, cas, now)
			if !x.Suppressed && !x.Err && m.cfg.Mode.HasStream() && before == m.cfg.StreamSize {
				st.trimmed = true
			}
			res, err := broker.Publish(ctx, m.name, key, po)
			if v := checkUpdate(m, op, x, save, res, err, now); v != "" {
				return fail(v)
			}
		case vfC20Remove:
			cas := m.resolveCAS(op.CAS, key)
			ro := MapRemoveOptions{IdempotencyKey: op.Idem, IdempotentResultTTL: op.IdemTTL, Tags: vfC20CopyTags(op.Tags)}
			if cas != nil {
				cp := *cas
				ro.ExpectedPosition = &cp
			}
			x, save := m.remove(op, key, cas, now)
			res, err := broker.Remove(ctx, m.name, key, ro)
			if v := checkUpdate(m, op, x, save, res, err, now); v != "" {
				return fail(v)
			}
		case vfC20Clear:
			if err := broker.Clear(ctx, m.name, MapClearOptions{}); err != nil {
				return fail("clear: " + err.Error())
			}
			m.reset()
			m.idem = map[string]vfC20Idem{}
			st.clears++
			if d := rec.take(seen); len(d) != 0 {
				return fail("clear was broadcast")
			}
		case vfC20ReadState:
			if v := readState(m, op, key, now); v != "" {
				return fail(v)
			}
		case vfC20ReadStream:
			if v := readStream(m, op, now); v != "" {
				return fail(v)
			}
		case vfC20OpStats:
			s, err := broker.Stats(ctx, m.name)
			if err != nil {
				return fail("stats: " + err.Error())
			}
			if s.NumKeys != len(m.state) {
				return fail(fmt.Sprintf("NumKeys=%d, reference %d", s.NumKeys, len(m.state)))
			}
		case vfC20Advance:
			time.Sleep(op.D)
			vfSettle()
			if v := reconcile(time.Now().UnixMilli()); v != "" {
				return fail(v)
			}
			continue
		}
		if d := rec.take(seen); len(d) != 0 {
			return fail(fmt.Sprintf("%d unexpected broadcast(s)", len(d)))
		}
		// no time has passed: the implementation must hold exactly the reference state
		for _, mm := range chans {
			if v := mm.comparePeek(vfC20PeekChan(broker, mm.name)); v != "" {
				return fail(fmt.Sprintf("channel %s: %s", mm.name, v))
			}
		}
	}
	// final public-API observation of every channel
	now := time.Now().UnixMilli()
	for _, m := range chans {
		if v := readState(m, vfC20Op{Kind: vfC20ReadState, Limit: -1}, "", now); v != "" {
			return "final state read of " + m.name + ": " + v
		}
		if v := readStream(m, vfC20Op{Kind: vfC20ReadStream, Limit: -1}, now); v != "" {
			return "final stream read of " + m.name + ": " + v
		}
	}
	for k := range supp {
		if unsupp[k] {
			st.nontrivial = true
		}
	}
	if st.afterReset {
		st.nontrivial = true
	}
	return ""
}

func TestVF_C20(t *testing.T) {
	vfCheck(t, "C20", func(rt *rapid.T, c *vfCase) string {
		nCh := rapid.IntRange(1, 2).Draw(rt, "nch")
		nKeys := rapid.IntRange(3, 4).Draw(rt, "nkeys")
		var cfgs []vfC20Cfg
		for i := 0; i < nCh; i++ {
			cfgs = append(cfgs, vfC20GenCfg(rt, i))
		}
		nOps := rapid.IntRange(4, 40).Draw(rt, "nops")
		ops := make([]vfC20Op, 0, nOps)
		for i := 0; i < nOps; i++ {
			ops = append(ops, vfC20GenOp(rt, nCh, nKeys))
		}
		var sb strings.Builder
		for i, cfg := range cfgs {
			fmt.Fprintf(&sb, "c%d{mode=%d ordered=%v keyTTL=%s size=%d streamTTL=%s metaTTL=%s} ", i, cfg.Mode, cfg.Ordered, cfg.KeyTTL, cfg.StreamSize, cfg.StreamTTL, cfg.MetaTTL)
		}
		sb.WriteString("ops=[")
		for i, op := range ops {
			if i > 0 {
				sb.WriteByte(' ')
			}
			sb.WriteString(op.String())
		}
		sb.WriteString("]")
		c.Describe(sb.String())

		node, err := vfC20Node()
		if err != nil {
			rt.Fatalf("INFRA: node: %v", err)
		}
		st := &vfC20Tally{reasons: map[string]int{}}
		verdict := vfBubble(t, func() string { return vfC20Run(node, cfgs, nKeys, ops, st) })
		if strings.HasPrefix(verdict, "INFRA:") {
			rt.Fatalf("%s", verdict)
		}
		for _, cfg := range cfgs {
			c.Labelf("mode_%d", cfg.Mode)
		}
		for r, n := range st.reasons {
			if n > 0 {
				c.Label("suppressed_" + r)
			}
		}
		if st.errs > 0 {
			c.Label("ephemeral_reject")
		}
		if st.expiries > 0 {
			c.Label("key_expired")
		}
		if st.streamClear > 0 {
			c.Label("stream_ttl_cleared")
		}
		if st.metaDrops > 0 {
			c.Label("meta_dropped")
		}
		if st.clears > 0 {
			c.Label("cleared")
		}
		if st.trimmed {
			c.Label("stream_trimmed")
		}
		if st.afterReset {
			c.Label("op_after_reset_or_expiry")
		}
		if st.nontrivial {
			c.Nontrivial(sb.String())
		}
		return verdict
	})
}
