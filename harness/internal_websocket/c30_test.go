package PKGNAME

// C30 — WebSocket messages round-trip through writer and reader.
//
// A writer Conn (server or client role; write buffer 1..8192 bytes, optionally a buffer pool or a re-used "hijacked"
// buffer; permessage-deflate negotiated or not) executes a drawn script of write operations into an in-memory
// net.Conn double. Oracle:
//   (1) every operation that is valid returns nil; an operation that returns an error contributes nothing to the wire;
//   (2) the captured wire bytes are valid RFC 6455 / RFC 7692 frames under the independent reference decoder: minimal
//       length encodings, control frames unfragmented and <=125 bytes, client frames masked / server frames unmasked,
//       RSV1 only on the first frame of data messages and only when deflate is negotiated, no reserved bits/opcodes,
//       nothing after a close frame;
//   (3) the events decoded by the reference decoder (data messages after reassembly/inflation, pings, pongs, close)
//       equal the written ones in order, and a message is compressed exactly when compression was negotiated and
//       enabled when its writer was opened;
//   (4) a reader Conn of the opposite role fed with the wire bytes returns the same (type, bytes) sequence.
// (uses the net.Conn double and the reader runner of c29_test.go)

import (
	"bytes"
	"errors"
	"fmt"
	"io"
	"strings"
	"testing"
	"time"

	"pgregory.net/rapid"
)

type vfC30Pool struct {
	items []interface{}
	gets  int
	puts  int
}

func (p *vfC30Pool) Get() interface{} {
	p.gets++
	if len(p.items) == 0 {
		return nil
	}
	v := p.items[len(p.items)-1]
	p.items = p.items[:len(p.items)-1]
	return v
}
func (p *vfC30Pool) Put(v interface{}) { p.puts++; p.items = append(p.items, v) }

type vfC30Piece struct {
	Method int // 0 Write, 1 WriteString, 2 ReadFrom (EOF separately), 3 ReadFrom (EOF together with the last chunk)
	N      int
	Chunk  int  // reader chunk size for ReadFrom
	CtlAft bool // WriteControl(ping) after this piece (interleaved control frame)
}

type vfC30Op struct {
	Kind   string // wm, nw, pm, ctl, wmctl, enable, level, badctl, close
	Type   int
	Data   []byte
	Pieces []vfC30Piece
	NoClos bool // nw: leave the writer open; the next NextWriter/WriteMessage (or the end of the script) closes it
	PM     int
	Flag   bool
	Level  int
	Code   int
	Reason string
	Future bool // WriteControl deadline: zero or in the future
}

func (o vfC30Op) String() string {
	switch o.Kind {
	case "wm", "wmctl":
		return fmt.Sprintf("%s(t%d,%d)", o.Kind, o.Type, len(o.Data))
	case "nw":
		var ps []string
		for _, p := range o.Pieces {
			s := fmt.Sprintf("%s%d", []string{"W", "S", "R", "Re"}[p.Method], p.N)
			if p.Method >= 2 {
				s += fmt.Sprintf("/%d", p.Chunk)
			}
			if p.CtlAft {
				s += "+ping"
			}
			ps = append(ps, s)
		}
		return fmt.Sprintf("nw(t%d,%d,[%s],noclose=%v)", o.Type, len(o.Data), strings.Join(ps, " "), o.NoClos)
	case "pm":
		return fmt.Sprintf("pm(#%d)", o.PM)
	case "ctl", "badctl":
		return fmt.Sprintf("%s(t%d,%d,future=%v)", o.Kind, o.Type, len(o.Data), o.Future)
	case "enable":
		return fmt.Sprintf("enable(%v)", o.Flag)
	case "level":
		return fmt.Sprintf("level(%d)", o.Level)
	case "close":
		return fmt.Sprintf("close(%d,%d)", o.Code, len(o.Reason))
	}
	return o.Kind
}

type vfC30Cfg struct {
	WriterServer bool
	Deflate      bool
	WBuf         int // writeBufferSize
	Pool         bool
	Hijacked     int // >0: pass a re-used write buffer of this size (as Upgrade does when WriteBufferSize==0)
	Reader       vfC29Cfg
}

type vfC30Chunked struct {
	data    []byte
	chunk   int
	eofWith bool
}

func (r *vfC30Chunked) Read(p []byte) (int, error) {
	if len(r.data) == 0 {
		return 0, io.EOF
	}
	n := r.chunk
	if n > len(p) {
		n = len(p)
	}
	if n > len(r.data) {
		n = len(r.data)
	}
	copy(p, r.data[:n])
	r.data = r.data[n:]
	if len(r.data) == 0 && r.eofWith {
		return n, io.EOF
	}
	return n, nil
}

type vfC30Expect struct {
	Kind       string // msg, ping, pong
	Type       int
	Data       []byte
	Compressed bool
}

func vfC30Data(rt *rapid.T, label string, wbuf int, big bool) []byte {
	sizes := []int{0, 1, 2, 7, 124, 125, 126, 127, 300, wbuf - 1, wbuf, wbuf + 1, 2 * wbuf, 2*wbuf + 1, 2*wbuf + 29, 3*wbuf + 5, 1000, 4096, 9000}
	n := rapid.SampledFrom(sizes).Draw(rt, label+"_n")
	if rapid.IntRange(0, 15).Draw(rt, label+"_edge") == 0 {
		n = rapid.SampledFrom([]int{65535, 65536, 65537, 65535 - 14, 70000}).Draw(rt, label+"_n64")
	}
	if big && rapid.IntRange(0, 119).Draw(rt, label+"_big") == 0 {
		n = rapid.IntRange(100000, 300000).Draw(rt, label+"_nbig")
	}
	if n < 0 {
		n = 0
	}
	return vfC29Bytes(rt, label, n, false)
}

func vfC30Gen(rt *rapid.T) (vfC30Cfg, []vfC30Op, [][2]interface{}) {
	var cfg vfC30Cfg
	cfg.WriterServer = rapid.Bool().Draw(rt, "writerServer")
	cfg.Deflate = rapid.Bool().Draw(rt, "deflate")
	cfg.WBuf = rapid.SampledFrom([]int{1, 2, 3, 16, 111, 125, 126, 127, 256, 512, 1000, 4096, 8192}).Draw(rt, "wbuf")
	if rapid.IntRange(0, 3).Draw(rt, "wbufAny") == 0 {
		cfg.WBuf = rapid.IntRange(1, 8192).Draw(rt, "wbufN")
	}
	switch rapid.IntRange(0, 5).Draw(rt, "bufmode") {
	case 0:
		cfg.Pool = true
	case 1:
		cfg.Hijacked = rapid.SampledFrom([]int{270, 512, 4096}).Draw(rt, "hijacked")
	}
	cfg.Reader = vfC29Cfg{Server: !cfg.WriterServer, Deflate: cfg.Deflate}
	cfg.Reader.ReadBuf = rapid.SampledFrom([]int{0, 1, 126, 4096}).Draw(rt, "rbuf")
	switch rapid.IntRange(0, 2).Draw(rt, "rchunkmode") {
	case 1:
		cfg.Reader.Chunks = []int{1}
	case 2:
		cfg.Reader.Chunks = rapid.SliceOfN(rapid.SampledFrom([]int{1, 2, 5, 13, 14, 100, 4096}), 1, 4).Draw(rt, "rchunks")
	}
	cfg.Reader.Modes = rapid.SliceOfN(rapid.SampledFrom([]int{0, 0, 1}), 1, 3).Draw(rt, "rmodes")
	cfg.Reader.ReadChunks = rapid.SliceOfN(rapid.SampledFrom([]int{1, 3, 64, 512, 5000}), 1, 3).Draw(rt, "rreadchunks")

	wbufEff := cfg.WBuf
	if cfg.Hijacked > 0 {
		wbufEff = cfg.Hijacked - 14
	}
	// prepared messages (type, data)
	npm := rapid.IntRange(0, 2).Draw(rt, "npm")
	var pms [][2]interface{}
	for i := 0; i < npm; i++ {
		t := rapid.SampledFrom([]int{1, 2, 2, 9}).Draw(rt, fmt.Sprintf("pm%d_t", i))
		var d []byte
		if t == 9 {
			d = vfC29Bytes(rt, fmt.Sprintf("pm%d", i), rapid.IntRange(0, 125).Draw(rt, fmt.Sprintf("pm%d_n", i)), false)
		} else {
			d = vfC30Data(rt, fmt.Sprintf("pm%d", i), 4096, vfThorough())
		}
		pms = append(pms, [2]interface{}{t, d})
	}
	nops := rapid.IntRange(1, 8).Draw(rt, "nops")
	var ops []vfC30Op
	for i := 0; i < nops; i++ {
		l := fmt.Sprintf("op%d", i)
		k := rapid.SampledFrom([]string{"wm", "wm", "wm", "nw", "nw", "nw", "pm", "ctl", "wmctl", "enable", "level", "badctl"}).Draw(rt, l)
		op := vfC30Op{Kind: k}
		switch k {
		case "wm":
			op.Type = rapid.SampledFrom([]int{1, 2}).Draw(rt, l+"_t")
			op.Data = vfC30Data(rt, l, wbufEff, vfThorough())
		case "nw":
			op.Type = rapid.SampledFrom([]int{1, 2}).Draw(rt, l+"_t")
			op.Data = vfC30Data(rt, l, wbufEff, vfThorough())
			np := rapid.IntRange(0, 4).Draw(rt, l+"_np")
			rest := len(op.Data)
			for j := 0; j < np; j++ {
				p := vfC30Piece{Method: rapid.IntRange(0, 3).Draw(rt, fmt.Sprintf("%s_p%d_m", l, j))}
				if j == np-1 {
					p.N = rest
				} else {
					p.N = rapid.IntRange(0, rest).Draw(rt, fmt.Sprintf("%s_p%d_n", l, j))
				}
				rest -= p.N
				p.Chunk = rapid.SampledFrom([]int{1, 3, 100, 4096, 100000}).Draw(rt, fmt.Sprintf("%s_p%d_c", l, j))
				p.CtlAft = rapid.IntRange(0, 5).Draw(rt, fmt.Sprintf("%s_p%d_ctl", l, j)) == 0
				op.Pieces = append(op.Pieces, p)
			}
			if np == 0 {
				op.Data = nil
			}
			op.NoClos = rapid.IntRange(0, 4).Draw(rt, l+"_noclose") == 0
		case "pm":
			if npm == 0 {
				op.Kind = "wm"
				op.Type = 2
				op.Data = vfC30Data(rt, l, wbufEff, false)
			} else {
				op.PM = rapid.IntRange(0, npm-1).Draw(rt, l+"_pm")
			}
		case "ctl", "wmctl":
			op.Type = rapid.SampledFrom([]int{9, 10}).Draw(rt, l+"_t")
			op.Data = vfC29Bytes(rt, l, rapid.SampledFrom([]int{0, 1, 16, 100, 124, 125}).Draw(rt, l+"_n"), false)
			op.Future = rapid.Bool().Draw(rt, l+"_future")
		case "badctl":
			op.Type = rapid.SampledFrom([]int{8, 9, 10}).Draw(rt, l+"_t")
			op.Data = vfC29Bytes(rt, l, rapid.SampledFrom([]int{126, 127, 200, 5000}).Draw(rt, l+"_n"), false)
			op.Flag = rapid.Bool().Draw(rt, l+"_viaWM") // via WriteMessage instead of WriteControl
		case "enable":
			op.Flag = rapid.Bool().Draw(rt, l+"_b")
		case "level":
			op.Level = rapid.IntRange(-2, 9).Draw(rt, l+"_lvl")
		}
		ops = append(ops, op)
	}
	if rapid.IntRange(0, 2).Draw(rt, "closing") == 0 {
		op := vfC30Op{Kind: "close"}
		op.Code = rapid.SampledFrom([]int{1000, 1001, 1005, 3000, 4999}).Draw(rt, "closecode")
		op.Reason = rapid.SampledFrom([]string{"", "bye", strings.Repeat("x", 123)}).Draw(rt, "closereason")
		ops = append(ops, op)
		if rapid.Bool().Draw(rt, "afterclose") {
			ops = append(ops, vfC30Op{Kind: "wm", Type: 2, Data: []byte("after close")})
		}
	}
	return cfg, ops, pms
}

func TestVF_C30(t *testing.T) {
	vfCheck(t, "C30", func(rt *rapid.T, c *vfCase) string {
		cfg, ops, pmSpecs := vfC30Gen(rt)
		var od []string
		for _, o := range ops {
			od = append(od, o.String())
		}
		var pd []string
		for _, p := range pmSpecs {
			pd = append(pd, fmt.Sprintf("t%d/%d", p[0].(int), len(p[1].([]byte))))
		}
		c.Describe(fmt.Sprintf("writerServer=%v deflate=%v wbuf=%d pool=%v hijacked=%d prepared=%v ops=[%s] reader{%s}", cfg.WriterServer, cfg.Deflate,
			cfg.WBuf, cfg.Pool, cfg.Hijacked, pd, strings.Join(od, " "), cfg.Reader.String()))
		if cfg.WriterServer {
			c.Label("dir:server->client")
		} else {
			c.Label("dir:client->server")
		}
		if cfg.Deflate {
			c.Label("deflate-negotiated")
		}

		// ---- execute the script against the writer Conn
		pipe := &vfC29Pipe{}
		var pool *vfC30Pool
		var bp BufferPool
		if cfg.Pool {
			pool = &vfC30Pool{}
			bp = pool
		}
		var wb []byte
		wbs := cfg.WBuf
		if cfg.Hijacked > 0 {
			wb = make([]byte, cfg.Hijacked)
			wbs = 0
		}
		wc := newConn(pipe, cfg.WriterServer, 0, wbs, bp, nil, wb)
		if cfg.Deflate {
			wc.newCompressionWriter = compressNoContextTakeover
			wc.newDecompressionReader = decompressNoContextTakeover
		}
		var prepared []*PreparedMessage
		for _, p := range pmSpecs {
			d := append([]byte{}, p[1].([]byte)...)
			pm, err := NewPreparedMessage(p[0].(int), d)
			if err != nil {
				return fmt.Sprintf("NewPreparedMessage(type %d, %d bytes): %v", p[0].(int), len(d), err)
			}
			for i := range d { // the caller may reuse its slice afterwards
				d[i] = 0xEE
			}
			prepared = append(prepared, pm)
		}

		var expect []vfC30Expect
		enabled := true
		closeSent := false
		closeCode, closeReason := 0, ""
		var open io.WriteCloser // writer left open
		var openExp *vfC30Expect
		var verdict string
		deadline := func(future bool) time.Time {
			if future {
				return time.Now().Add(time.Hour)
			}
			return time.Time{}
		}
		hadOpenFlag := false
		implicitClose := func() { // the library closes the previous writer inside beginMessage
			hadOpenFlag = open != nil
			if open != nil {
				expect = append(expect, *openExp)
				open, openExp = nil, nil
			}
		}
		step := func(i int, o vfC30Op) string {
			before := len(pipe.out)
			hadOpen := false // the operation also closes a writer left open (its last frame goes out inside the call)
			check := func(err error, valid bool, produced []vfC30Expect) string {
				if err != nil {
					if len(pipe.out) != before && !hadOpen {
						return fmt.Sprintf("op %d %s returned error %q but %d bytes reached the wire", i, o, err, len(pipe.out)-before)
					}
					if valid && !closeSent {
						return fmt.Sprintf("op %d %s failed: %v", i, o, err)
					}
					return ""
				}
				if closeSent && len(pipe.out) != before {
					return fmt.Sprintf("op %d %s wrote %d bytes after the close frame", i, o, len(pipe.out)-before)
				}
				if !closeSent {
					expect = append(expect, produced...)
				}
				return ""
			}
			switch o.Kind {
			case "enable":
				wc.EnableWriteCompression(o.Flag)
				enabled = o.Flag
			case "level":
				if err := wc.SetCompressionLevel(o.Level); err != nil {
					return fmt.Sprintf("SetCompressionLevel(%d): %v", o.Level, err)
				}
			case "wm":
				implicitClose()
				hadOpen = hadOpenFlag
				err := wc.WriteMessage(o.Type, append([]byte{}, o.Data...))
				return check(err, true, []vfC30Expect{{Kind: "msg", Type: o.Type, Data: o.Data, Compressed: cfg.Deflate && enabled}})
			case "wmctl":
				implicitClose()
				hadOpen = hadOpenFlag
				err := wc.WriteMessage(o.Type, append([]byte{}, o.Data...))
				kind := "ping"
				if o.Type == 10 {
					kind = "pong"
				}
				// (a client with a write buffer smaller than the payload cannot send a control frame this way: error)
				return check(err, false, []vfC30Expect{{Kind: kind, Type: o.Type, Data: o.Data}})
			case "ctl":
				err := wc.WriteControl(o.Type, append([]byte{}, o.Data...), deadline(o.Future))
				kind := "ping"
				if o.Type == 10 {
					kind = "pong"
				}
				return check(err, true, []vfC30Expect{{Kind: kind, Type: o.Type, Data: o.Data}})
			case "badctl":
				var err error
				if o.Flag {
					implicitClose()
					hadOpen = hadOpenFlag
					err = wc.WriteMessage(o.Type, append([]byte{}, o.Data...))
				} else {
					err = wc.WriteControl(o.Type, o.Data, deadline(o.Future))
				}
				if err == nil {
					return fmt.Sprintf("op %d %s: control message of %d bytes accepted", i, o, len(o.Data))
				}
				return check(err, false, nil)
			case "pm":
				if open != nil {
					// never interleave a data message into an open one (API misuse): finish the open writer first
					err := open.Close()
					exp := *openExp
					open, openExp = nil, nil
					if s := check(err, true, []vfC30Expect{exp}); s != "" {
						return s
					}
					before = len(pipe.out)
				}
				spec := pmSpecs[o.PM]
				t := spec[0].(int)
				err := wc.WritePreparedMessage(prepared[o.PM])
				e := vfC30Expect{Kind: "msg", Type: t, Data: spec[1].([]byte), Compressed: cfg.Deflate && enabled}
				if t == 9 {
					e = vfC30Expect{Kind: "ping", Type: 9, Data: spec[1].([]byte)}
				}
				return check(err, true, []vfC30Expect{e})
			case "close":
				implicitCloseNeeded := open != nil
				if implicitCloseNeeded {
					err := open.Close()
					exp := *openExp
					open, openExp = nil, nil
					if s := check(err, true, []vfC30Expect{exp}); s != "" {
						return s
					}
					before = len(pipe.out)
				}
				err := wc.WriteControl(CloseMessage, FormatCloseMessage(o.Code, o.Reason), deadline(true))
				if s := check(err, true, nil); s != "" {
					return s
				}
				if err == nil {
					closeSent, closeCode, closeReason = true, o.Code, o.Reason
				}
			case "nw":
				implicitClose()
				hadOpen = hadOpenFlag
				w, err := wc.NextWriter(o.Type)
				if err != nil {
					return check(err, true, nil)
				}
				exp := vfC30Expect{Kind: "msg", Type: o.Type, Data: o.Data, Compressed: cfg.Deflate && enabled}
				off := 0
				for _, p := range o.Pieces {
					chunk := append([]byte{}, o.Data[off:off+p.N]...)
					off += p.N
					var n int64
					var err error
					switch p.Method {
					case 0:
						var k int
						k, err = w.Write(chunk)
						n = int64(k)
					case 1:
						var k int
						k, err = io.WriteString(w, string(chunk))
						n = int64(k)
					default:
						r := &vfC30Chunked{data: chunk, chunk: p.Chunk, eofWith: p.Method == 3}
						if rf, ok := w.(io.ReaderFrom); ok {
							n, err = rf.ReadFrom(r)
						} else {
							n, err = io.Copy(w, r)
						}
					}
					if closeSent {
						if err == nil {
							continue
						}
						return check(err, false, nil)
					}
					if err != nil || n != int64(len(chunk)) {
						return fmt.Sprintf("op %d %s piece method %d: wrote %d of %d bytes, err=%v", i, o, p.Method, n, len(chunk), err)
					}
					if p.CtlAft {
						ping := []byte{byte(i), byte(off)}
						if err := wc.WriteControl(PingMessage, ping, deadline(false)); err != nil {
							return fmt.Sprintf("op %d %s: interleaved WriteControl failed: %v", i, o, err)
						}
						expect = append(expect, vfC30Expect{Kind: "ping", Type: 9, Data: ping})
					}
				}
				if o.NoClos {
					open, openExp = w, &exp
					return ""
				}
				err = w.Close()
				if err != nil {
					if closeSent {
						return ""
					}
					return fmt.Sprintf("op %d %s: Close failed: %v", i, o, err)
				}
				if !closeSent {
					expect = append(expect, exp)
				}
			}
			return ""
		}
		func() {
			defer func() {
				if r := recover(); r != nil {
					verdict = fmt.Sprintf("PANIC in writer: %v", r)
				}
			}()
			for i, o := range ops {
				if verdict = step(i, o); verdict != "" {
					return
				}
			}
			if open != nil {
				err := open.Close()
				if err != nil && !closeSent {
					verdict = fmt.Sprintf("closing the last open writer failed: %v", err)
					return
				}
				if !closeSent {
					expect = append(expect, *openExp)
				}
			}
		}()
		if verdict != "" {
			return verdict
		}
		wire := pipe.out

		// ---- (2) wire validity
		wres, problem := vfWSRefCheckWire(wire, !cfg.WriterServer, cfg.Deflate)
		if problem != "" {
			return "wire: " + problem + " | wire=" + vfC29Hex(wire)
		}
		// ---- (3) decoded events == written
		var got []vfC30Expect
		for _, e := range wres.Events {
			got = append(got, vfC30Expect{Kind: e.Kind, Type: e.Opcode, Data: e.Payload, Compressed: e.Compressed})
		}
		if len(got) != len(expect) {
			return fmt.Sprintf("wire carries %d events, %d were written | wire=%s", len(got), len(expect), vfC29Hex(wire))
		}
		multi, comp := false, false
		for i := range got {
			g, e := got[i], expect[i]
			if g.Kind != e.Kind || g.Type != e.Type || !bytes.Equal(g.Data, e.Data) {
				return fmt.Sprintf("event %d on the wire is %s type %d (%d bytes), written was %s type %d (%d bytes)", i, g.Kind, g.Type, len(g.Data), e.Kind, e.Type, len(e.Data))
			}
			if g.Kind == "msg" && g.Compressed != e.Compressed {
				return fmt.Sprintf("message %d: compressed on the wire=%v, expected %v", i, g.Compressed, e.Compressed)
			}
			if g.Compressed {
				comp = true
			}
		}
		for _, m := range wres.Messages() {
			if m.Frames >= 2 {
				multi = true
			}
		}
		if closeSent {
			if wres.Term.Kind != vfWSRefClose {
				return "close frame written but the wire does not end with one"
			}
			wantCode := closeCode
			if wres.Term.CloseCode != wantCode || wres.Term.CloseReason != closeReason && closeCode != 1005 {
				return fmt.Sprintf("close frame on the wire carries (%d,%q), written (%d,%q)", wres.Term.CloseCode, wres.Term.CloseReason, closeCode, closeReason)
			}
		} else if wres.Term.Kind != vfWSRefEOF {
			return "unexpected terminal on the wire: " + wres.Term.Kind
		}
		// ---- (4) the peer reads the same
		var wantMsgs []vfC30Expect
		pings := 0
		for _, e := range expect {
			if e.Kind == "msg" {
				wantMsgs = append(wantMsgs, e)
			}
			if e.Kind == "ping" {
				pings++
			}
		}
		run := vfC29Exec(cfg.Reader, wire, len(wantMsgs)+2)
		if run.Panic != "" {
			return "PANIC in reader: " + run.Panic
		}
		k := 0
		var final error
		for _, o := range run.Outcomes {
			if o.Err != nil {
				final = o.Err
				break
			}
			if k >= len(wantMsgs) {
				return fmt.Sprintf("reader returned an extra message (type %d, %d bytes)", o.Type, len(o.Data))
			}
			if o.Type != wantMsgs[k].Type || !bytes.Equal(o.Data, wantMsgs[k].Data) {
				return fmt.Sprintf("reader message %d: type %d, %d bytes; written type %d, %d bytes", k, o.Type, len(o.Data), wantMsgs[k].Type, len(wantMsgs[k].Data))
			}
			k++
		}
		if k != len(wantMsgs) {
			return fmt.Sprintf("reader returned %d of %d messages, then %v", k, len(wantMsgs), final)
		}
		if final == nil {
			return "reader did not fail at the end of the stream"
		}
		var ce *CloseError
		if closeSent {
			if !errors.As(final, &ce) || ce.Code != closeCode {
				return fmt.Sprintf("reader ended with %q, expected close code %d", final, closeCode)
			}
		} else if !errors.As(final, &ce) || ce.Code != CloseAbnormalClosure {
			return fmt.Sprintf("reader ended with %q, expected the abnormal-closure error at end of stream", final)
		}
		rw := vfWSRefDecode(vfWSRefConfig{ServerRole: !cfg.Reader.Server, StrictLen: true}, run.W)
		npong := 0
		for _, f := range rw.Frames {
			if f.Opcode == 10 {
				npong++
			}
		}
		if npong != pings {
			return fmt.Sprintf("reader answered %d of %d pings", npong, pings)
		}

		// classification
		c.Labelf("events:%d", func() int {
			if len(expect) > 6 {
				return 6
			}
			return len(expect)
		}())
		if multi {
			c.Label("multi-frame-message")
		}
		if comp {
			c.Label("compressed-message")
		}
		if closeSent {
			c.Label("close-sent")
		}
		if pool != nil {
			c.Label("buffer-pool")
		}
		if cfg.Hijacked > 0 {
			c.Label("hijacked-buffer")
		}
		for _, o := range ops {
			c.Label("op:" + o.Kind)
		}
		if multi || comp {
			c.Nontrivial(c.desc)
		}
		return ""
	})
}
