package PKGNAME

// C33 — Redis PUB/SUB payload framing round-trips and parsing is total.
//
// Three rapid properties plus one native fuzz target:
//   TestVF_C33_Frames  frame level round trip: the three Lua concatenations (transliterated below from
//                      internal/redis_lua/broker_history_add_{stream,list}.lua) and the Go builders (join/leave prefix,
//                      plain protobuf) -> extractPushData.
//   TestVF_C33_Node    node level round trip: a transliteration of RedisBroker.publish + the two add-history scripts
//                      run against a tiny in-memory model of the keys they touch (meta hash, stream / list); every
//                      PUB/SUB message they emit is handed to the real handleRedisClientMessage of a struct-literal
//                      RedisBroker (non-cluster / cluster / sharded) with a recording BrokerEventHandler.
//   TestVF_C33_Total   totality: arbitrary bytes, grammar-built malformed frames and mutated valid frames into
//                      extractPushData / parseDeltaPush / handleRedisClientMessage: no panic, and either exactly one
//                      decoded event or a clean rejection; canonical frames must decode to what an independent strict
//                      reference decoder says.
//   FuzzVF_C33         same oracle as Total under the coverage-guided native fuzzer (thorough tier).
//
// Stated limit: the Lua side is transliterated (a change inside a .lua file is not seen). Lua formats numbers with
// "%.14g": offsets >= 10^14 would be published in exponent notation by the real script; the node level model keeps
// offsets below 10^14 (practically unreachable otherwise) while the frame level covers the whole uint64 range in decimal.

import (
	"bytes"
	"fmt"
	"runtime/debug"
	"sort"
	"strconv"
	"strings"
	"testing"

	"github.com/centrifugal/centrifuge/internal/redispartition"
	"github.com/centrifugal/protocol"
	"pgregory.net/rapid"
)

// ---------------------------------------------------------------------------------------------------------------
// Lua transliterations (internal/redis_lua/broker_history_add_stream.lua, broker_history_add_list.lua)
// ---------------------------------------------------------------------------------------------------------------

// payload = "__" .. "p1:" .. top_offset .. ":" .. current_epoch .. "__" .. message_payload
func vfC33LuaPositioned(off, epoch, msg string) string {
	return "__" + "p1:" + off + ":" + epoch + "__" + msg
}

// payload = "__" .. "d1:" .. top_offset .. ":" .. current_epoch .. ":" .. #prev_message_payload .. ":" ..
//
//	prev_message_payload .. ":" .. #message_payload .. ":" .. message_payload
func vfC33LuaDelta(off, epoch, prev, msg string) string {
	return "__" + "d1:" + off + ":" + epoch + ":" + strconv.Itoa(len(prev)) + ":" + prev + ":" + strconv.Itoa(len(msg)) + ":" + msg
}

// vfC33Redis models exactly the keys one channel's add-history scripts touch.
type vfC33Redis struct {
	hasMeta   bool
	metaE     string
	metaS     int64
	hasV      bool
	metaV     uint64
	metaVE    string
	stream    []string // values of field "d", oldest first
	list      []string // index 0 = head (LPUSH side)
	published []string // messages handed to PUBLISH/SPUBLISH
}

// addStream transliterates broker_history_add_stream.lua (result cache branch left out: it returns before anything
// is published). Returns false when the script suppressed the publication (version check).
func (r *vfC33Redis) addStream(msg string, streamSize int, channel string, newEpoch string, useDelta string, version uint64, versionEpoch string) bool {
	if !r.hasMeta { // current_epoch == false
		r.hasMeta = true
		r.metaE = newEpoch
		r.metaS = 0
		r.hasV = false
	}
	currentEpoch := r.metaE
	if version != 0 {
		if r.hasV {
			if (versionEpoch == "" || versionEpoch == r.metaVE) && r.metaV >= version {
				return false
			}
		}
		r.hasV, r.metaV, r.metaVE = true, version, versionEpoch
	}
	r.metaS++
	top := r.metaS
	prev := ""
	if useDelta == "1" && top != 1 {
		if len(r.stream) > 0 {
			prev = r.stream[len(r.stream)-1]
		}
	}
	if top == 1 {
		r.stream = nil
		prev = ""
	}
	r.stream = append(r.stream, msg)
	if len(r.stream) > streamSize {
		r.stream = r.stream[len(r.stream)-streamSize:]
	}
	if channel != "" {
		var payload string
		if useDelta == "1" {
			payload = vfC33LuaDelta(strconv.FormatInt(top, 10), currentEpoch, prev, msg)
		} else {
			payload = vfC33LuaPositioned(strconv.FormatInt(top, 10), currentEpoch, msg)
		}
		r.published = append(r.published, payload)
	}
	return true
}

// addList transliterates broker_history_add_list.lua.
func (r *vfC33Redis) addList(msg string, ltrimRightBound int, channel string, newEpoch string, useDelta string) bool {
	if !r.hasMeta {
		r.hasMeta = true
		r.metaE = newEpoch
		r.metaS = 0
	}
	currentEpoch := r.metaE
	r.metaS++
	top := r.metaS
	prev := ""
	if useDelta == "1" {
		if len(r.list) > 0 {
			prev = r.list[0]
		}
	}
	payload := vfC33LuaPositioned(strconv.FormatInt(top, 10), currentEpoch, msg)
	r.list = append([]string{payload}, r.list...)
	if len(r.list) > ltrimRightBound+1 {
		r.list = r.list[:ltrimRightBound+1]
	}
	if channel != "" {
		if useDelta == "1" {
			payload = vfC33LuaDelta(strconv.FormatInt(top, 10), currentEpoch, prev, msg)
		}
		r.published = append(r.published, payload)
	}
	return true
}

// ---------------------------------------------------------------------------------------------------------------
// generators
// ---------------------------------------------------------------------------------------------------------------

var vfC33Frags = []string{"__", ":", "_", "0", "1", "9", "10", "-1", "__p1:", "__d1:", "__j__", "__l__", "p1:", "d1:", "a", "é",
	"\x00", "\xff", "\n", "::", "___", "7:x"}

func vfC33Payload(rt *rapid.T, label string) []byte {
	switch rapid.IntRange(0, 6).Draw(rt, label+"_mode") {
	case 0:
		return nil
	case 1:
		return rapid.SliceOfN(rapid.Byte(), 0, 24).Draw(rt, label+"_raw")
	default:
		n := rapid.IntRange(1, 6).Draw(rt, label+"_n")
		var b []byte
		for i := 0; i < n; i++ {
			if rapid.IntRange(0, 3).Draw(rt, label+"_k") == 0 {
				b = append(b, rapid.SliceOfN(rapid.Byte(), 1, 4).Draw(rt, label+"_b")...)
			} else {
				b = append(b, rapid.SampledFrom(vfC33Frags).Draw(rt, label+"_f")...)
			}
		}
		return b
	}
}

func vfC33Offset(rt *rapid.T, label string) uint64 {
	if rapid.Bool().Draw(rt, label+"_edge") {
		return rapid.SampledFrom([]uint64{0, 1, 9, 10, 99, 1<<31 - 1, 1 << 32, 1<<53 + 1, 1<<63 - 1, 1 << 63, ^uint64(0) - 1, ^uint64(0)}).Draw(rt, label)
	}
	return rapid.Uint64().Draw(rt, label)
}

const vfC33Letters = "abcdefghijklmnopqrstuvwxyzABCDEFGHIJKLMNOPQRSTUVWXYZ"
const vfC33Alnum = vfC33Letters + "0123456789"

// vfC33Epoch: what a broker can have written into the meta hash: epoch.Generate() (8 letters) or, from older library
// versions sharing the same Redis, short alphanumeric strings / unix-time digits. Never ':' or '_'.
func vfC33Epoch(rt *rapid.T, label string) string {
	alpha, n := vfC33Letters, 8
	switch rapid.IntRange(0, 3).Draw(rt, label+"_kind") {
	case 0:
		alpha, n = vfC33Alnum, rapid.IntRange(1, 16).Draw(rt, label+"_len")
	case 1:
		alpha, n = "0123456789", rapid.IntRange(1, 12).Draw(rt, label+"_len")
	}
	b := make([]byte, n)
	for i := range b {
		b[i] = alpha[rapid.IntRange(0, len(alpha)-1).Draw(rt, label+"_c")]
	}
	return string(b)
}

func vfC33Str(rt *rapid.T, label string) string {
	return rapid.SampledFrom([]string{"", "u1", "42", "user:1", "__x__", "ключ", "a b", "{t}", "x.y"}).Draw(rt, label)
}

func vfC33Info(rt *rapid.T, label string) *ClientInfo {
	return &ClientInfo{ClientID: vfC33Str(rt, label+"_cid"), UserID: vfC33Str(rt, label+"_uid"),
		ConnInfo: vfC33Payload(rt, label+"_conn"), ChanInfo: vfC33Payload(rt, label+"_chan")}
}

var vfC33ChanFrags = []string{"a", "news", ".", ":", "{", "}", "{}", "__", "$", "#", "é", "日本", "0", "17", " ", "/", "user#42", "x.y.z"}

func vfC33Channel(rt *rapid.T) string {
	n := rapid.IntRange(1, 5).Draw(rt, "ch_n")
	s := ""
	for i := 0; i < n; i++ {
		s += rapid.SampledFrom(vfC33ChanFrags).Draw(rt, "ch_f")
	}
	return s
}

type vfC33Cfg struct {
	Prefix      string
	Cluster     bool
	Parts       int
	Precomputed bool
	Lists       bool
}

func (g vfC33Cfg) String() string {
	return fmt.Sprintf("{prefix=%q cluster=%v partitions=%d precomputedTags=%v lists=%v}", g.Prefix, g.Cluster, g.Parts, g.Precomputed, g.Lists)
}

func vfC33DrawCfg(rt *rapid.T) vfC33Cfg {
	g := vfC33Cfg{Prefix: rapid.SampledFrom([]string{"centrifuge", "c", "my.app", "p:1", "__"}).Draw(rt, "prefix"),
		Lists: rapid.IntRange(0, 2).Draw(rt, "lists") == 0}
	switch rapid.IntRange(0, 3).Draw(rt, "mode") {
	case 0:
	case 1:
		g.Cluster = true
	case 2:
		g.Cluster, g.Parts = true, rapid.SampledFrom([]int{1, 3, 16, 128, 1000}).Draw(rt, "parts")
	case 3:
		g.Cluster, g.Precomputed, g.Parts = true, true, rapid.SampledFrom([]int{16, 64, 4096}).Draw(rt, "pparts")
	}
	return g
}

// vfC33Broker builds what NewRedisBroker would build for this configuration as far as message handling reads it.
func vfC33Broker(g vfC33Cfg) (*RedisBroker, *RedisShard) {
	b := &RedisBroker{config: RedisBrokerConfig{Prefix: g.Prefix, UseLists: g.Lists, NumShardedPubSubPartitions: g.Parts,
		UsePrecomputedPartitionTags: g.Precomputed}}
	b.messagePrefix = g.Prefix + redisClientChannelPrefix
	if g.Precomputed {
		tags, err := redispartition.FindTags(g.Parts)
		if err != nil {
			panic(err)
		}
		b.partitionTags = tags
	}
	return b, &RedisShard{isCluster: g.Cluster}
}

// ---------------------------------------------------------------------------------------------------------------
// recording handler and guarded calls
// ---------------------------------------------------------------------------------------------------------------

type vfC33Call struct {
	Kind  string
	Ch    string
	Pub   *Publication
	SP    StreamPosition
	Delta bool
	Prev  *Publication
	Info  *ClientInfo
}

type vfC33Rec struct{ calls []vfC33Call }

func (r *vfC33Rec) HandlePublication(ch string, pub *Publication, sp StreamPosition, useDelta bool, prevPub *Publication) error {
	r.calls = append(r.calls, vfC33Call{Kind: "pub", Ch: ch, Pub: pub, SP: sp, Delta: useDelta, Prev: prevPub})
	return nil
}
func (r *vfC33Rec) HandleJoin(ch string, info *ClientInfo) error {
	r.calls = append(r.calls, vfC33Call{Kind: "join", Ch: ch, Info: info})
	return nil
}
func (r *vfC33Rec) HandleLeave(ch string, info *ClientInfo) error {
	r.calls = append(r.calls, vfC33Call{Kind: "leave", Ch: ch, Info: info})
	return nil
}

type vfC33Tuple struct {
	Payload []byte
	Type    pushType
	SP      StreamPosition
	Delta   bool
	Prev    []byte
	OK      bool
}

func (t vfC33Tuple) String() string {
	return fmt.Sprintf("(payload=%q type=%d offset=%d epoch=%q delta=%v prev=%q ok=%v)", t.Payload, t.Type, t.SP.Offset, t.SP.Epoch, t.Delta, t.Prev, t.OK)
}

func vfC33TupleEq(a, b vfC33Tuple) bool {
	return a.OK == b.OK && a.Type == b.Type && a.SP == b.SP && a.Delta == b.Delta && bytes.Equal(a.Payload, b.Payload) && bytes.Equal(a.Prev, b.Prev)
}

// vfC33Panic describes a recovered panic: message and the innermost library function on the stack.
type vfC33Panic struct {
	Msg string
	Fn  string
}

func vfC33Recover(p **vfC33Panic) {
	if r := recover(); r != nil {
		fn := "?"
		for _, line := range strings.Split(string(debug.Stack()), "\n") {
			if !strings.HasPrefix(line, "github.com/centrifugal/centrifuge.") {
				continue
			}
			name := strings.TrimPrefix(line, "github.com/centrifugal/centrifuge.")
			if i := strings.LastIndexByte(name, '('); i > 0 {
				name = name[:i]
			}
			if strings.Contains(name, "vfC33") {
				continue
			}
			fn = name
			break
		}
		*p = &vfC33Panic{Msg: fmt.Sprint(r), Fn: fn}
	}
}

func vfC33Extract(data []byte) (t vfC33Tuple, p *vfC33Panic) {
	defer vfC33Recover(&p)
	payload, typ, sp, delta, prev, ok := extractPushData(data)
	return vfC33Tuple{Payload: payload, Type: typ, SP: sp, Delta: delta, Prev: prev, OK: ok}, nil
}

func vfC33ParseDelta(s string) (d deltaPublicationPush, err error, p *vfC33Panic) {
	defer vfC33Recover(&p)
	d, err = parseDeltaPush(s)
	return d, err, nil
}

func vfC33Handle(b *RedisBroker, isCluster bool, chID channelID, data []byte) (rec *vfC33Rec, err error, p *vfC33Panic) {
	rec = &vfC33Rec{}
	defer vfC33Recover(&p)
	err = b.handleRedisClientMessage(isCluster, rec, chID, data)
	return rec, err, nil
}

// ---------------------------------------------------------------------------------------------------------------
// independent strict reference decoder (canonical frames only) + root-cause classification of malformed frames
// ---------------------------------------------------------------------------------------------------------------

func vfC33CanonUint(s string) (uint64, bool) {
	if s == "" || (len(s) > 1 && s[0] == '0') {
		return 0, false
	}
	var v uint64
	for i := 0; i < len(s); i++ {
		if s[i] < '0' || s[i] > '9' {
			return 0, false
		}
		d := uint64(s[i] - '0')
		if v > (^uint64(0)-d)/10 {
			return 0, false
		}
		v = v*10 + d
	}
	return v, true
}

func vfC33EpochOK(e string) bool {
	if e == "" {
		return false
	}
	for i := 0; i < len(e); i++ {
		if !strings.ContainsRune(vfC33Alnum, rune(e[i])) {
			return false
		}
	}
	return true
}

// vfC33Ref decodes exactly the frames the broker produces (canonical numbers, alphanumeric epoch, exact lengths).
// known=false means "not a canonical broker frame": no expectation beyond totality.
func vfC33Ref(data []byte) (t vfC33Tuple, known bool) {
	s := string(data)
	if !strings.HasPrefix(s, "__") {
		return vfC33Tuple{Payload: data, Type: pubPushType, OK: true}, true
	}
	rest := s[2:]
	switch {
	case strings.HasPrefix(rest, "j__"):
		return vfC33Tuple{Payload: []byte(rest[3:]), Type: joinPushType, OK: true}, true
	case strings.HasPrefix(rest, "l__"):
		return vfC33Tuple{Payload: []byte(rest[3:]), Type: leavePushType, OK: true}, true
	case strings.HasPrefix(rest, "p1:"):
		end := strings.Index(rest, "__")
		if end < 0 {
			return t, false
		}
		header := rest[3:end]
		i := strings.IndexByte(header, ':')
		if i < 0 {
			return t, false
		}
		off, ok := vfC33CanonUint(header[:i])
		if !ok || !vfC33EpochOK(header[i+1:]) {
			return t, false
		}
		return vfC33Tuple{Payload: []byte(rest[end+2:]), Type: pubPushType, SP: StreamPosition{Offset: off, Epoch: header[i+1:]}, OK: true}, true
	case strings.HasPrefix(rest, "d1:"):
		f := rest[3:]
		next := func() (string, bool) {
			i := strings.IndexByte(f, ':')
			if i < 0 {
				return "", false
			}
			v := f[:i]
			f = f[i+1:]
			return v, true
		}
		offS, ok1 := next()
		epoch, ok2 := next()
		plS, ok3 := next()
		if !ok1 || !ok2 || !ok3 {
			return t, false
		}
		off, ok := vfC33CanonUint(offS)
		pl, okp := vfC33CanonUint(plS)
		if !ok || !okp || !vfC33EpochOK(epoch) || pl > uint64(len(f)) {
			return t, false
		}
		prev := f[:pl]
		f = f[pl:]
		if !strings.HasPrefix(f, ":") {
			return t, false
		}
		f = f[1:]
		lS, ok4 := next()
		if !ok4 {
			return t, false
		}
		l, okl := vfC33CanonUint(lS)
		if !okl || l != uint64(len(f)) {
			return t, false
		}
		return vfC33Tuple{Payload: []byte(f), Type: pubPushType, SP: StreamPosition{Offset: off, Epoch: epoch}, Delta: true, Prev: []byte(prev), OK: true}, true
	}
	return t, false
}

// vfC33RootCause names what is structurally wrong with a frame, independent of where the library crashed. Used only
// to key panic sites (together with the crashing function); the verdict "a panic is a violation" does not depend on it.
func vfC33RootCause(data []byte) string {
	s := string(data)
	if !strings.HasPrefix(s, "__") || len(s) == 2 {
		return "unclassified"
	}
	rest := s[2:]
	switch rest[0] {
	case 'p':
		end := strings.Index(rest, "__")
		if end > 0 && end < 3 {
			return "p-header-shorter-than-3"
		}
	case 'd':
		if !strings.HasPrefix(rest, "d1:") {
			return "unclassified"
		}
		f := rest[3:]
		for k := 0; k < 2; k++ { // offset, epoch
			i := strings.IndexByte(f, ':')
			if i < 0 {
				return "unclassified"
			}
			f = f[i+1:]
		}
		i := strings.IndexByte(f, ':')
		if i < 0 {
			return "unclassified"
		}
		pl, err := strconv.Atoi(f[:i])
		if err != nil {
			return "unclassified"
		}
		f = f[i+1:]
		if pl < 0 {
			return "negative-prev-length"
		}
		if len(f) < pl {
			return "unclassified"
		}
		if len(f) == pl {
			return "prev-payload-ends-input"
		}
		f = f[pl+1:]
		i = strings.IndexByte(f, ':')
		if i < 0 {
			return "unclassified"
		}
		l, err := strconv.Atoi(f[:i])
		if err != nil {
			return "unclassified"
		}
		if l < 0 {
			return "negative-payload-length"
		}
	}
	return "unclassified"
}

func vfC33SiteKey(p *vfC33Panic, data []byte) string {
	return "C33:panic:" + p.Fn + ":" + vfC33RootCause(data)
}

// ---------------------------------------------------------------------------------------------------------------
// (a1) frame level round trip
// ---------------------------------------------------------------------------------------------------------------

func TestVF_C33_Frames(t *testing.T) {
	vfCheck(t, "C33", func(rt *rapid.T, c *vfCase) string {
		kind := rapid.SampledFrom([]string{"plain", "p1-stream", "p1-list-entry", "d1", "d1", "join", "leave"}).Draw(rt, "kind")
		payload := vfC33Payload(rt, "payload")
		var frame []byte
		var want vfC33Tuple
		switch kind {
		case "plain":
			// Go builder: protoPub.MarshalVT() published as is.
			pp := &protocol.Publication{Data: payload, Time: rapid.Int64Range(0, 1<<50).Draw(rt, "time"),
				Key: vfC33Str(rt, "key"), Delta: rapid.Bool().Draw(rt, "pdelta")}
			m, err := pp.MarshalVT()
			if err != nil {
				return "marshal: " + err.Error()
			}
			frame = m
			want = vfC33Tuple{Payload: m, Type: pubPushType, OK: true}
		case "p1-stream", "p1-list-entry":
			off, ep := vfC33Offset(rt, "offset"), vfC33Epoch(rt, "epoch")
			frame = []byte(vfC33LuaPositioned(strconv.FormatUint(off, 10), ep, string(payload)))
			want = vfC33Tuple{Payload: payload, Type: pubPushType, SP: StreamPosition{Offset: off, Epoch: ep}, OK: true}
		case "d1":
			off, ep := vfC33Offset(rt, "offset"), vfC33Epoch(rt, "epoch")
			prev := vfC33Payload(rt, "prev")
			frame = []byte(vfC33LuaDelta(strconv.FormatUint(off, 10), ep, string(prev), string(payload)))
			want = vfC33Tuple{Payload: payload, Type: pubPushType, SP: StreamPosition{Offset: off, Epoch: ep}, Delta: true, Prev: prev, OK: true}
		case "join":
			frame = append(append([]byte{}, joinTypePrefix...), payload...)
			want = vfC33Tuple{Payload: payload, Type: joinPushType, OK: true}
		case "leave":
			frame = append(append([]byte{}, leaveTypePrefix...), payload...)
			want = vfC33Tuple{Payload: payload, Type: leavePushType, OK: true}
		}
		c.Describe(fmt.Sprintf("kind=%s frame=%q", kind, frame))
		c.Label("frames:" + kind)
		if bytes.Contains(payload, []byte("__")) || bytes.Contains(payload, []byte(":")) || bytes.Contains(want.Prev, []byte(":")) {
			c.Label("frames:payload_has_separator")
			c.Nontrivial("F|" + string(frame))
		}
		if want.SP.Offset > 1<<63 {
			c.Label("frames:offset_above_2^63")
		}
		got, p := vfC33Extract(append([]byte{}, frame...))
		if p != nil {
			return fmt.Sprintf("extractPushData panicked on a frame the broker produces: %s in %s", p.Msg, p.Fn)
		}
		if !vfC33TupleEq(got, want) {
			return fmt.Sprintf("extractPushData decoded %v, encoded %v", got, want)
		}
		if ref, known := vfC33Ref(frame); !known || !vfC33TupleEq(ref, want) {
			return fmt.Sprintf("harness self-check: reference decoder disagrees with the encoder (known=%v ref=%v want=%v)", known, ref, want)
		}
		if kind == "d1" {
			d, err, p := vfC33ParseDelta(string(frame[2:]))
			if p != nil {
				return fmt.Sprintf("parseDeltaPush panicked on a valid delta frame: %s", p.Msg)
			}
			if err != nil || d.Offset != want.SP.Offset || d.Epoch != want.SP.Epoch || d.Payload != string(payload) || d.PrevPayload != string(want.Prev) ||
				d.PayloadLength != len(payload) || d.PrevPayloadLength != len(want.Prev) {
				return fmt.Sprintf("parseDeltaPush returned %+v err=%v for encoded %v", d, err, want)
			}
		}
		return ""
	})
}

// ---------------------------------------------------------------------------------------------------------------
// (a2) node level round trip through handleRedisClientMessage
// ---------------------------------------------------------------------------------------------------------------

type vfC33Tag struct{ K, V string }

type vfC33PubStep struct {
	Kind         string // "pub", "join", "leave"
	Data         []byte
	Info         *ClientInfo
	Tags         []vfC33Tag
	Time         int64
	Key          string
	Removed      bool
	Score        int64
	Version      uint64
	VersionEpoch string
	History      bool
	HistorySize  int
	UseDelta     bool
	FanOffset    uint64
	FanEpoch     string
	PrevData     []byte
	ExpireData   bool // stream/list key expired before this step
	ExpireMeta   bool // meta key expired before this step
	NewEpoch     string
}

func vfC33DrawStep(rt *rapid.T, i int) vfC33PubStep {
	l := fmt.Sprintf("s%d_", i)
	st := vfC33PubStep{Kind: rapid.SampledFrom([]string{"pub", "pub", "pub", "pub", "pub", "join", "leave"}).Draw(rt, l+"kind")}
	if st.Kind != "pub" {
		st.Info = vfC33Info(rt, l+"info")
		return st
	}
	st.Data = vfC33Payload(rt, l+"data")
	if rapid.IntRange(0, 2).Draw(rt, l+"hasinfo") == 0 {
		st.Info = vfC33Info(rt, l+"info")
	}
	nt := rapid.IntRange(0, 2).Draw(rt, l+"ntags")
	seen := map[string]bool{}
	for k := 0; k < nt; k++ {
		key := vfC33Str(rt, l+"tagk")
		if seen[key] {
			continue
		}
		seen[key] = true
		st.Tags = append(st.Tags, vfC33Tag{key, vfC33Str(rt, l+"tagv")})
	}
	sort.Slice(st.Tags, func(a, b int) bool { return st.Tags[a].K < st.Tags[b].K })
	st.Time = rapid.Int64Range(1, 1<<45).Draw(rt, l+"time")
	st.Key = vfC33Str(rt, l+"key")
	st.Removed = rapid.IntRange(0, 4).Draw(rt, l+"removed") == 0
	st.Score = rapid.SampledFrom([]int64{0, 0, 1, -1, 1 << 40, -(1 << 62)}).Draw(rt, l+"score")
	st.UseDelta = rapid.IntRange(0, 3).Draw(rt, l+"delta") != 0
	st.History = rapid.IntRange(0, 4).Draw(rt, l+"history") != 0
	if st.History {
		st.HistorySize = rapid.IntRange(1, 3).Draw(rt, l+"hsize")
		st.Version = rapid.SampledFrom([]uint64{0, 0, 0, 1, 2, 3, 1 << 40}).Draw(rt, l+"version")
		if st.Version > 0 {
			st.VersionEpoch = rapid.SampledFrom([]string{"", "", "ve1", "ve2"}).Draw(rt, l+"vepoch")
		}
		st.ExpireData = rapid.IntRange(0, 7).Draw(rt, l+"expdata") == 0
		st.ExpireMeta = rapid.IntRange(0, 9).Draw(rt, l+"expmeta") == 0
		st.NewEpoch = vfC33Epoch(rt, l+"newepoch")
	} else {
		if rapid.IntRange(0, 2).Draw(rt, l+"fan") == 0 { // map broker fan-out through this broker
			st.FanOffset = 1 + vfC33Offset(rt, l+"fanoff")%(^uint64(0))
			st.FanEpoch = vfC33Epoch(rt, l+"fanepoch")
			if st.UseDelta && rapid.Bool().Draw(rt, l+"hasprev") {
				st.PrevData = vfC33Payload(rt, l+"prevdata")
			}
		}
		st.Version = rapid.SampledFrom([]uint64{0, 0, 7}).Draw(rt, l+"version")
	}
	return st
}

func (st vfC33PubStep) tagMap() map[string]string {
	if len(st.Tags) == 0 {
		return nil
	}
	m := map[string]string{}
	for _, t := range st.Tags {
		m[t.K] = t.V
	}
	return m
}

func (st vfC33PubStep) String() string {
	if st.Kind != "pub" {
		return fmt.Sprintf("%s(info=%s)", st.Kind, vfC33InfoStr(st.Info))
	}
	return fmt.Sprintf("pub(data=%q info=%s tags=%v time=%d key=%q removed=%v score=%d version=%d/%q history=%v size=%d delta=%v fan=%d/%q prevData=%q expireData=%v expireMeta=%v newEpoch=%q)",
		st.Data, vfC33InfoStr(st.Info), st.Tags, st.Time, st.Key, st.Removed, st.Score, st.Version, st.VersionEpoch, st.History, st.HistorySize, st.UseDelta,
		st.FanOffset, st.FanEpoch, st.PrevData, st.ExpireData, st.ExpireMeta, st.NewEpoch)
}

func vfC33InfoStr(i *ClientInfo) string {
	if i == nil {
		return "nil"
	}
	return fmt.Sprintf("{client=%q user=%q conn=%q chan=%q}", i.ClientID, i.UserID, i.ConnInfo, i.ChanInfo)
}

func vfC33InfoDiff(got, want *ClientInfo) string {
	if (got == nil) != (want == nil) {
		return fmt.Sprintf("info got %s want %s", vfC33InfoStr(got), vfC33InfoStr(want))
	}
	if got == nil {
		return ""
	}
	if got.ClientID != want.ClientID || got.UserID != want.UserID || !bytes.Equal(got.ConnInfo, want.ConnInfo) || !bytes.Equal(got.ChanInfo, want.ChanInfo) {
		return fmt.Sprintf("info got %s want %s", vfC33InfoStr(got), vfC33InfoStr(want))
	}
	return ""
}

func vfC33PubStr(p *Publication) string {
	if p == nil {
		return "nil"
	}
	keys := make([]string, 0, len(p.Tags))
	for k := range p.Tags {
		keys = append(keys, k)
	}
	sort.Strings(keys)
	tags := ""
	for _, k := range keys {
		tags += fmt.Sprintf("%q=%q,", k, p.Tags[k])
	}
	return fmt.Sprintf("{offset=%d epoch=%q data=%q info=%s tags=[%s] time=%d channel=%q key=%q removed=%v score=%d version=%d}",
		p.Offset, p.Epoch, p.Data, vfC33InfoStr(p.Info), tags, p.Time, p.Channel, p.Key, p.Removed, p.Score, p.Version)
}

func vfC33PubDiff(got, want *Publication) string {
	if (got == nil) != (want == nil) {
		return fmt.Sprintf("got %s want %s", vfC33PubStr(got), vfC33PubStr(want))
	}
	if got == nil {
		return ""
	}
	same := got.Offset == want.Offset && got.Epoch == want.Epoch && bytes.Equal(got.Data, want.Data) && vfC33InfoDiff(got.Info, want.Info) == "" &&
		got.Time == want.Time && got.Channel == want.Channel && got.Key == want.Key && got.Removed == want.Removed && got.Score == want.Score &&
		got.Version == want.Version && len(got.Tags) == len(want.Tags)
	if same {
		for k, v := range want.Tags {
			if gv, ok := got.Tags[k]; !ok || gv != v {
				same = false
			}
		}
	}
	if !same {
		return fmt.Sprintf("got %s want %s", vfC33PubStr(got), vfC33PubStr(want))
	}
	return ""
}

const vfC33KeyListDelta = "C33:list-delta-prev-payload-is-framed-list-entry"

func TestVF_C33_Node(t *testing.T) {
	vfCheck(t, "C33", func(rt *rapid.T, c *vfCase) string {
		g := vfC33DrawCfg(rt)
		ch := vfC33Channel(rt)
		skipPubSub := rapid.IntRange(0, 19).Draw(rt, "skip_pubsub") == 0
		// pre-existing state of the channel's keys: nothing, or a meta hash left by earlier traffic
		r := &vfC33Redis{}
		if rapid.Bool().Draw(rt, "has_meta") {
			r.hasMeta = true
			r.metaE = vfC33Epoch(rt, "meta_epoch")
			r.metaS = rapid.SampledFrom([]int64{0, 1, 8, 9, 98, 99, 1<<32 - 1, 1<<53 - 1, 99999999999990}).Draw(rt, "meta_s")
		}
		n := rapid.IntRange(1, 5).Draw(rt, "nsteps")
		steps := make([]vfC33PubStep, n)
		for i := range steps {
			steps[i] = vfC33DrawStep(rt, i)
		}
		var sb strings.Builder
		fmt.Fprintf(&sb, "cfg=%v channel=%q skipPubSub=%v meta=%v/%q/%d steps:", g, ch, skipPubSub, r.hasMeta, r.metaE, r.metaS)
		for i, st := range steps {
			fmt.Fprintf(&sb, "\n  [%d] %s", i, st)
		}
		c.Describe(sb.String())

		b, shard := vfC33Broker(g)
		b.config.SkipPubSub = skipPubSub
		// what publish() computes: publishChannel := b.messageChannelID(s.shard, ch)
		chID := b.messageChannelID(shard, ch)
		publishChannelStr := string(chID)
		if skipPubSub {
			publishChannelStr = ""
		}
		// raw stored message -> the publication it carries (to state the expected previous publication)
		stored := map[string]*Publication{}
		interesting := false
		for i, st := range steps {
			var frames []string
			var want vfC33Call
			switch st.Kind {
			case "join", "leave":
				m, err := infoToProto(st.Info).MarshalVT()
				if err != nil {
					return "marshal info: " + err.Error()
				}
				// Go builder, as in publishJoin/publishLeave
				if st.Kind == "join" {
					frames = []string{string(append(joinTypePrefix, m...))}
				} else {
					frames = []string{string(append(leaveTypePrefix, m...))}
				}
				want = vfC33Call{Kind: st.Kind, Ch: ch, Info: st.Info}
				c.Label("node:" + st.Kind)
			default:
				// transliteration of RedisBroker.publish
				protoPub := &protocol.Publication{Data: st.Data, Info: infoToProto(st.Info), Tags: st.tagMap(), Time: st.Time, Key: st.Key,
					Removed: st.Removed, Score: st.Score, Offset: st.FanOffset, Epoch: st.FanEpoch, PrevData: st.PrevData, Version: st.Version}
				if !st.History {
					protoPub.Delta = st.UseDelta
				}
				m, err := protoPub.MarshalVT()
				if err != nil {
					return "marshal publication: " + err.Error()
				}
				msg := string(m)
				exp := &Publication{Offset: st.FanOffset, Data: st.Data, Info: st.Info, Tags: st.tagMap(), Time: st.Time, Key: st.Key, Removed: st.Removed,
					Score: st.Score, Version: st.Version}
				if !st.History {
					if publishChannelStr != "" {
						frames = []string{msg}
					}
					want = vfC33Call{Kind: "pub", Ch: ch, Pub: exp, SP: StreamPosition{Offset: st.FanOffset, Epoch: st.FanEpoch}, Delta: st.UseDelta}
					if len(st.PrevData) > 0 {
						want.Delta = true
						want.Prev = &Publication{Data: st.PrevData}
					}
					c.Label("node:pub_plain")
					if st.FanOffset > 0 {
						c.Label("node:pub_plain_fanout_position")
					}
				} else {
					if st.ExpireMeta {
						r.hasMeta, r.hasV = false, false
					}
					if st.ExpireData {
						r.stream, r.list = nil, nil
					}
					useDelta := ""
					if st.UseDelta {
						useDelta = "1"
					}
					before := len(r.published)
					var prevRaw string
					var prevExists bool
					var done bool
					if g.Lists {
						if len(r.list) > 0 {
							prevExists = true
							// the list keeps framed entries; the publication it carries is what subscribers saw before
							if t, known := vfC33Ref([]byte(r.list[0])); known {
								prevRaw = string(t.Payload)
							}
						}
						done = r.addList(msg, st.HistorySize-1, publishChannelStr, st.NewEpoch, useDelta)
					} else {
						// top_offset == 1 (fresh meta hash, or a meta hash whose counter is still 0) => the script deletes the stream
						willReset := !r.hasMeta || r.metaS == 0
						if len(r.stream) > 0 && !willReset {
							prevExists = true
							prevRaw = r.stream[len(r.stream)-1]
						}
						done = r.addStream(msg, st.HistorySize, publishChannelStr, st.NewEpoch, useDelta, st.Version, st.VersionEpoch)
					}
					if !done {
						c.Label("node:pub_suppressed_by_version")
						continue
					}
					frames = r.published[before:]
					exp.Offset = uint64(r.metaS)
					want = vfC33Call{Kind: "pub", Ch: ch, Pub: exp, SP: StreamPosition{Offset: uint64(r.metaS), Epoch: r.metaE}, Delta: st.UseDelta}
					if st.UseDelta && prevExists {
						want.Prev = stored[prevRaw]
						if want.Prev == nil {
							return fmt.Sprintf("harness self-check: step %d previous stored message unknown", i)
						}
					}
					stored[msg] = &Publication{Data: st.Data, Info: st.Info, Tags: st.tagMap(), Time: st.Time, Key: st.Key, Removed: st.Removed,
						Score: st.Score, Version: st.Version}
					switch {
					case st.UseDelta && want.Prev != nil:
						c.Label("node:pub_delta_with_prev")
						interesting = true
					case st.UseDelta:
						c.Label("node:pub_delta_first")
					default:
						c.Label("node:pub_positioned")
					}
					if g.Lists {
						c.Label("node:lists")
						// history read path: every list entry is decoded by historyList through extractPushData
						top, p := vfC33Extract([]byte(r.list[0]))
						if p != nil {
							return fmt.Sprintf("step %d: extractPushData panicked on a list entry: %s", i, p.Msg)
						}
						wantTop := vfC33Tuple{Payload: m, Type: pubPushType, SP: want.SP, OK: true}
						if !vfC33TupleEq(top, wantTop) {
							return fmt.Sprintf("step %d: list entry decoded %v, stored %v", i, top, wantTop)
						}
					}
				}
				if bytes.Contains(st.Data, []byte("__")) || bytes.Contains(st.Data, []byte(":")) {
					interesting = true
				}
			}
			if skipPubSub && st.Kind == "pub" {
				if len(frames) != 0 {
					return fmt.Sprintf("harness self-check: step %d published with SkipPubSub", i)
				}
				c.Label("node:skip_pubsub")
				continue
			}
			if len(frames) != 1 {
				return fmt.Sprintf("harness self-check: step %d produced %d PUB/SUB messages", i, len(frames))
			}
			frame := []byte(frames[0])
			rec, err, p := vfC33Handle(b, shard.isCluster, chID, frame)
			if p != nil {
				return fmt.Sprintf("step %d: handleRedisClientMessage panicked on a broker-produced message %q: %s in %s", i, frame, p.Msg, p.Fn)
			}
			listDelta := g.Lists && st.Kind == "pub" && st.History && st.UseDelta && want.Prev != nil
			problem := ""
			switch {
			case err != nil:
				problem = fmt.Sprintf("message %q was rejected: %v", frame, err)
			case len(rec.calls) != 1:
				problem = fmt.Sprintf("message %q produced %d handler calls", frame, len(rec.calls))
			default:
				got := rec.calls[0]
				switch {
				case got.Kind != want.Kind:
					problem = fmt.Sprintf("message %q handled as %s, published as %s", frame, got.Kind, want.Kind)
				case got.Ch != want.Ch:
					problem = fmt.Sprintf("channel decoded %q, published %q (PUB/SUB channel %q)", got.Ch, want.Ch, chID)
				case want.Kind != "pub":
					problem = vfC33InfoDiff(got.Info, want.Info)
				case got.SP != want.SP:
					problem = fmt.Sprintf("stream position decoded %+v, assigned %+v (message %q)", got.SP, want.SP, frame)
				case got.Delta != want.Delta:
					problem = fmt.Sprintf("delta flag decoded %v, published %v (message %q)", got.Delta, want.Delta, frame)
				default:
					if d := vfC33PubDiff(got.Pub, want.Pub); d != "" {
						problem = "publication " + d
					} else if d := vfC33PubDiff(got.Prev, want.Prev); d != "" {
						problem = "previous publication " + d
					}
				}
			}
			if problem != "" {
				if listDelta && c.Known(vfC33KeyListDelta, fmt.Sprintf("cfg=%v frame=%q: %s", g, frame, problem)) {
					continue
				}
				key := ""
				if listDelta {
					key = " [finding key " + vfC33KeyListDelta + "]"
				}
				return fmt.Sprintf("step %d (%s): %s%s", i, st.Kind, problem, key)
			}
		}
		if interesting {
			c.Nontrivial("N|" + sb.String())
		}
		return ""
	})
}

// ---------------------------------------------------------------------------------------------------------------
// (b) totality
// ---------------------------------------------------------------------------------------------------------------

var vfC33NumToks = []string{"0", "1", "2", "3", "5", "10", "-1", "-2", "-0", "+1", "007", "18446744073709551615", "18446744073709551616",
	"9223372036854775807", "9223372036854775808", "-9223372036854775808", "99999999999999999999999", "", " 1", "1 ", "1e3", "0x10", "١"}

// vfC33Bounds are integer boundary numerals: length/offset fields are parsed with Atoi/ParseUint and then used in
// slice expressions and "+1" arithmetic, so the machine-word limits are the magic values (seeded change S-C33-1:
// an overflow in a bounds check that only prev_payload_length == MaxInt64 exposes).
var vfC33Bounds = []string{"9223372036854775807", "9223372036854775806", "9223372036854775808", "-9223372036854775808", "-9223372036854775807",
	"18446744073709551615", "18446744073709551614", "18446744073709551616", "2147483647", "2147483648", "4294967295", "4294967296", "-2147483648"}

func vfC33Tok(rt *rapid.T, label string) string {
	switch rapid.IntRange(0, 4).Draw(rt, label+"_k") {
	case 4:
		return rapid.SampledFrom(vfC33Bounds).Draw(rt, label+"_bound")
	case 0:
		return rapid.SampledFrom(vfC33NumToks).Draw(rt, label+"_num")
	case 1:
		return strconv.Itoa(rapid.IntRange(-3, 12).Draw(rt, label+"_small"))
	case 2:
		return string(vfC33Payload(rt, label+"_pl"))
	default:
		return rapid.SampledFrom([]string{"e", "abc", "epoch", "x", "ab", "a", "abcd"}).Draw(rt, label+"_word")
	}
}

// vfC33ValidFrame draws a frame the broker can produce (used as mutation base).
func vfC33ValidFrame(rt *rapid.T) []byte {
	payload := vfC33Payload(rt, "vpayload")
	off := strconv.FormatUint(vfC33Offset(rt, "voffset"), 10)
	ep := vfC33Epoch(rt, "vepoch")
	switch rapid.IntRange(0, 5).Draw(rt, "vkind") {
	case 0:
		m, _ := (&protocol.Publication{Data: payload, Time: 1}).MarshalVT()
		return m
	case 1:
		return []byte(vfC33LuaPositioned(off, ep, string(payload)))
	case 2, 3:
		return []byte(vfC33LuaDelta(off, ep, string(vfC33Payload(rt, "vprev")), string(payload)))
	case 4:
		return append(append([]byte{}, joinTypePrefix...), payload...)
	default:
		return append(append([]byte{}, leaveTypePrefix...), payload...)
	}
}

// vfC33MutateNumber rewrites one maximal decimal run of the frame (a length, the offset, digits of the payload).
func vfC33MutateNumber(rt *rapid.T, f []byte, label string) []byte {
	type run struct{ a, b int }
	var runs []run
	for i := 0; i < len(f); {
		if f[i] >= '0' && f[i] <= '9' {
			j := i
			for j < len(f) && f[j] >= '0' && f[j] <= '9' {
				j++
			}
			runs = append(runs, run{i, j})
			i = j
		} else {
			i++
		}
	}
	if len(runs) == 0 {
		return f
	}
	r := runs[rapid.IntRange(0, len(runs)-1).Draw(rt, label+"_run")]
	old := string(f[r.a:r.b])
	var repl string
	switch rapid.IntRange(0, 6).Draw(rt, label+"_how") {
	case 5, 6:
		repl = rapid.SampledFrom(vfC33Bounds).Draw(rt, label+"_bound")
	case 0:
		repl = "-" + old
	case 1, 2:
		v, err := strconv.ParseInt(old, 10, 64)
		if err != nil {
			repl = "1"
		} else {
			repl = strconv.FormatInt(v+int64(rapid.IntRange(-3, 3).Draw(rt, label+"_delta")), 10)
		}
	case 3:
		repl = rapid.SampledFrom(vfC33NumToks).Draw(rt, label+"_tok")
	default:
		repl = ""
	}
	out := append([]byte{}, f[:r.a]...)
	out = append(out, repl...)
	return append(out, f[r.b:]...)
}

func vfC33Mutate(rt *rapid.T, f []byte, label string) ([]byte, string) {
	op := rapid.SampledFrom([]string{"truncate", "truncate", "delete", "delete_range", "replace", "insert", "number", "number", "dup_tail"}).Draw(rt, label+"_op")
	if len(f) == 0 {
		return f, "noop"
	}
	switch op {
	case "truncate":
		return append([]byte{}, f[:rapid.IntRange(0, len(f)-1).Draw(rt, label+"_at")]...), op
	case "delete":
		i := rapid.IntRange(0, len(f)-1).Draw(rt, label+"_at")
		return append(append([]byte{}, f[:i]...), f[i+1:]...), op
	case "delete_range":
		i := rapid.IntRange(0, len(f)-1).Draw(rt, label+"_at")
		j := i + rapid.IntRange(1, 8).Draw(rt, label+"_len")
		if j > len(f) {
			j = len(f)
		}
		return append(append([]byte{}, f[:i]...), f[j:]...), op
	case "replace":
		i := rapid.IntRange(0, len(f)-1).Draw(rt, label+"_at")
		out := append([]byte{}, f...)
		out[i] = rapid.SampledFrom([]byte{':', '_', '-', '0', '9', 'p', 'd', 'j', 'l', 0, 0xff}).Draw(rt, label+"_ch")
		return out, op
	case "insert":
		i := rapid.IntRange(0, len(f)).Draw(rt, label+"_at")
		ins := rapid.SampledFrom([]string{":", "_", "__", "-", "0", "::"}).Draw(rt, label+"_ins")
		out := append([]byte{}, f[:i]...)
		out = append(out, ins...)
		return append(out, f[i:]...), op
	case "number":
		return vfC33MutateNumber(rt, f, label), op
	default:
		i := rapid.IntRange(0, len(f)-1).Draw(rt, label+"_at")
		return append(append([]byte{}, f...), f[i:]...), op
	}
}

func vfC33Hostile(rt *rapid.T) ([]byte, string) {
	switch rapid.IntRange(0, 10).Draw(rt, "strategy") {
	case 10:
		// structurally valid positioned / delta frame whose numeric fields are drawn from small and boundary integers
		num := func(l string) string {
			if rapid.Bool().Draw(rt, l+"_b") {
				return rapid.SampledFrom(vfC33Bounds).Draw(rt, l+"_bound")
			}
			return strconv.Itoa(rapid.IntRange(-2, 6).Draw(rt, l+"_small"))
		}
		prev := string(vfC33Payload(rt, "eprev"))
		pl := string(vfC33Payload(rt, "epayload"))
		ep := vfC33Epoch(rt, "eepoch")
		if rapid.IntRange(0, 3).Draw(rt, "ekind") == 0 {
			return []byte("__p1:" + num("eoff") + ":" + ep + "__" + pl), "extreme_numbers"
		}
		pfx := rapid.SampledFrom([]string{"__d1:", "__d1:", "__d1:", "d1:"}).Draw(rt, "epfx")
		return []byte(pfx + num("eoff") + ":" + ep + ":" + num("eplen") + ":" + prev + ":" + num("elen") + ":" + pl), "extreme_numbers"
	case 0:
		return rapid.SliceOfN(rapid.Byte(), 0, 40).Draw(rt, "raw"), "raw"
	case 1:
		return append([]byte("__"), rapid.SliceOfN(rapid.Byte(), 0, 24).Draw(rt, "raw")...), "prefixed_raw"
	case 2, 3, 4:
		// grammar: "__" type-token fields joined by separators
		s := "__" + rapid.SampledFrom([]string{"p", "p1", "p1:", "p2:", "d", "d1", "d1:", "d2:", "j", "l", "j__", "l__", "x", "", "pp", "dd"}).Draw(rt, "type")
		n := rapid.IntRange(0, 7).Draw(rt, "nfields")
		for i := 0; i < n; i++ {
			if i > 0 || rapid.Bool().Draw(rt, "lead_sep") {
				s += rapid.SampledFrom([]string{":", ":", ":", ":", "__", "", "::", "_"}).Draw(rt, "sep")
			}
			s += vfC33Tok(rt, "tok")
		}
		return []byte(s), "grammar"
	default:
		f := vfC33ValidFrame(rt)
		n := rapid.IntRange(1, 3).Draw(rt, "nmut")
		ops := ""
		for i := 0; i < n; i++ {
			var op string
			f, op = vfC33Mutate(rt, f, fmt.Sprintf("m%d", i))
			ops += "+" + op
		}
		return f, "mutated"
	}
}

// vfC33CheckInput is the totality + reference oracle for one PUB/SUB payload. known(key, example) decides whether a
// panic site is a listed finding. It returns a violation text or "".
func vfC33CheckInput(data []byte, g vfC33Cfg, ch string, known func(key, example string) bool, label func(string)) string {
	orig := append([]byte{}, data...)
	var panics []string
	note := func(where string, p *vfC33Panic, frame []byte) string {
		key := vfC33SiteKey(p, frame)
		label("total:panic:" + p.Fn + ":" + vfC33RootCause(frame))
		if known(key, fmt.Sprintf("%s(%q)", where, frame)) {
			return ""
		}
		return fmt.Sprintf("%s panicked on PUB/SUB payload %q: %s (in %s) [finding key %s]", where, frame, p.Msg, p.Fn, key)
	}
	got, p := vfC33Extract(append([]byte{}, data...))
	extractPanicked := p != nil
	if p != nil {
		if v := note("extractPushData", p, orig); v != "" {
			panics = append(panics, v)
		}
	} else {
		if got.OK {
			label("total:extract_accepts")
		} else {
			label("total:extract_rejects")
		}
		if ref, ok := vfC33Ref(orig); ok {
			label("total:canonical_frame")
			if !vfC33TupleEq(got, ref) {
				return fmt.Sprintf("canonical frame %q decoded %v, reference decoder says %v", orig, got, ref)
			}
		}
	}
	// parseDeltaPush directly: on the content as extractPushData would pass it, and on the raw bytes
	direct := []string{string(orig)}
	if bytes.HasPrefix(orig, []byte("__")) {
		direct = append(direct, string(orig[2:]))
	}
	for _, s := range direct {
		if _, _, p := vfC33ParseDelta(s); p != nil {
			if v := note("parseDeltaPush", p, []byte("__"+s)); v != "" {
				panics = append(panics, v)
			}
		}
	}
	b, shard := vfC33Broker(g)
	chID := b.messageChannelID(shard, ch)
	rec, err, p := vfC33Handle(b, shard.isCluster, chID, append([]byte{}, data...))
	if p != nil {
		if v := note("handleRedisClientMessage", p, orig); v != "" {
			panics = append(panics, v)
		}
	} else {
		if extractPanicked {
			return fmt.Sprintf("harness self-check: extractPushData panicked but handleRedisClientMessage did not on %q", orig)
		}
		switch {
		case err != nil && len(rec.calls) != 0:
			return fmt.Sprintf("payload %q: rejected with %v after %d handler calls (not a clean rejection)", orig, err, len(rec.calls))
		case err == nil && len(rec.calls) != 1:
			return fmt.Sprintf("payload %q: accepted but produced %d handler calls", orig, len(rec.calls))
		case err == nil && rec.calls[0].Ch != ch:
			return fmt.Sprintf("payload %q: handled for channel %q, arrived on %q", orig, rec.calls[0].Ch, ch)
		case err != nil:
			label("total:node_rejects")
		default:
			label("total:node_handles_" + rec.calls[0].Kind)
		}
		if !got.OK && err == nil {
			return fmt.Sprintf("payload %q: extractPushData rejects but the node handled it", orig)
		}
	}
	if len(panics) > 0 {
		return panics[0]
	}
	return ""
}

func TestVF_C33_Total(t *testing.T) {
	vfCheck(t, "C33", func(rt *rapid.T, c *vfCase) string {
		data, strategy := vfC33Hostile(rt)
		g := vfC33DrawCfg(rt)
		ch := vfC33Channel(rt)
		c.Describe(fmt.Sprintf("strategy=%s cfg=%v channel=%q payload=%q", strategy, g, ch, data))
		c.Label("total:strategy_" + strategy)
		if bytes.HasPrefix(data, []byte("__")) && len(data) > 2 && strings.IndexByte("pdjl", data[2]) >= 0 {
			if _, canonical := vfC33Ref(data); !canonical {
				c.Label("total:malformed_with_valid_prefix")
				c.Nontrivial("T|" + string(data))
			}
		}
		return vfC33CheckInput(data, g, ch, c.Known, c.Label)
	})
}

// FuzzVF_C33: coverage-guided bytes into the same oracle (all three broker layouts per input).
func FuzzVF_C33(f *testing.F) {
	for _, s := range []string{"", "x", "__j__\n\x02u1", "__l__\n\x02u1", "__p1:1:abcdefgh__\"\x03abc", "__d1:2:abcdefgh:5:\"\x03abc:5:\"\x03abd",
		"__d1:1:abcdefgh:0::5:\"\x03abc", "\"\x03abcH\x01"} {
		f.Add([]byte(s))
	}
	st := vfNewStats("C33")
	cfgs := []vfC33Cfg{{Prefix: "centrifuge"}, {Prefix: "centrifuge", Cluster: true}, {Prefix: "c", Cluster: true, Parts: 16, Precomputed: true}}
	f.Fuzz(func(t *testing.T, data []byte) {
		c := &vfCase{st: st}
		for _, g := range cfgs {
			if v := vfC33CheckInput(data, g, "news:{1}.x", c.Known, func(string) {}); v != "" {
				t.Fatalf("VF-VIOLATION C33: %s", v)
			}
		}
	})
}
